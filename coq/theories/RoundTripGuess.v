(* RoundTripGuess.v — when the reader has to GUESS the newline (metadata sections: no line_endings option in the
   header), its guess on the written bytes is the newline the writer used.  Stated abstractly
   ([aligned_first_nl]: the first LF code point of a text is the first occurrence of the encoded LF in its
   bytes) and proved for the codecs whose LF is the single byte 0x0a that occurs in no other code point's
   encoding (ascii, latin-1, utf-8, utf-8-sig).  For UTF-16/32 misaligned occurrences exist (U+0A41 U+4100 is
   41 0a 00 41 in UTF-16-LE), so there the property is a genuine hypothesis.
   Proof file: nothing of the model is changed here. *)
From Coq Require Import List Arith NArith ZArith Bool Lia ZifyBool Strings.Byte.
From Coq Require Strings.String.
From DX Require Import Bytes Res Codec Text Sections Header Stream Json Reader Writer TextFacts
                       RoundTripCodec RoundTripCodecInst RoundTripContent.
From DXGen Require GenText GenCodecs.
Import ListNotations.
Import String.StringSyntax.
Local Open Scope string_scope.
Local Open Scope list_scope.

(* ------------------------------------------------------------------------------------------------ *)
(* find *)

Section Find.
  Context {A : Type} (eqb : A -> A -> bool).
  Hypothesis eqb_spec : forall a b, eqb a b = true <-> a = b.

  Lemma find_at_shift : forall (pat l : list A) k, find_at eqb pat l k = option_map (Nat.add k) (find_at eqb pat l 0).
  Proof.
    intros pat l. induction l as [|x l IH]; intros k; cbn [find_at].
    - destruct (prefixb eqb pat []); cbn; [f_equal; lia | reflexivity].
    - destruct (prefixb eqb pat (x :: l)); cbn; [f_equal; lia|].
      rewrite (IH (S k)), (IH 1). destruct (find_at eqb pat l 0); cbn; [f_equal; lia | reflexivity].
  Qed.

  Lemma find_cons : forall (pat : list A) x l, prefixb eqb pat (x :: l) = false ->
    find eqb pat (x :: l) = option_map S (find eqb pat l).
  Proof.
    intros pat x l H. unfold find. cbn [find_at]. rewrite H. rewrite find_at_shift. reflexivity.
  Qed.

  Lemma find_here : forall (pat l : list A), prefixb eqb pat l = true -> find eqb pat l = Some 0.
  Proof. intros pat l H. unfold find. destruct l; cbn [find_at]; rewrite H; reflexivity. Qed.

  (* a one-element pattern *)
  Lemma prefixb_one : forall a x (l : list A), prefixb eqb [a] (x :: l) = eqb a x.
  Proof. intros. cbn. apply andb_true_r. Qed.

  Lemma find_one_absent : forall a (l : list A), ~ In a l -> find eqb [a] l = None.
  Proof.
    intros a l. induction l as [|x l IH]; intros H; [reflexivity|].
    rewrite find_cons.
    - rewrite IH; [reflexivity|]. intros Hi. apply H. right. exact Hi.
    - rewrite prefixb_one. destruct (eqb a x) eqn:E; [|reflexivity]. apply eqb_spec in E. subst. exfalso. apply H. left. reflexivity.
  Qed.

  Lemma find_one_first : forall a (pre post : list A), ~ In a pre -> find eqb [a] (pre ++ a :: post) = Some (length pre).
  Proof.
    intros a pre post. induction pre as [|x pre IH]; intros H.
    - apply find_here. cbn [app]. rewrite prefixb_one. apply eqb_spec. reflexivity.
    - cbn [app]. rewrite find_cons.
      + rewrite IH; [reflexivity|]. intros Hi. apply H. right. exact Hi.
      + rewrite prefixb_one. destruct (eqb a x) eqn:E; [|reflexivity]. apply eqb_spec in E. subst. exfalso. apply H. left. reflexivity.
  Qed.
End Find.

(* ------------------------------------------------------------------------------------------------ *)
(* the abstract alignment law and its consequence *)

(* the first LF of the text is where the encoded LF first occurs in the bytes *)
Definition aligned_first_nl (bom : bytes) (enc0 : text -> option bytes) : Prop :=
  forall t b nlbu, enc0 t = Some b -> enc0 (nl_text GenText.le_unix) = Some nlbu ->
    match find N.eqb (nl_text GenText.le_unix) t with
    | Some i => exists b1, enc0 (firstn (i + length (nl_text GenText.le_unix)) t) = Some b1 /\
                           bfind nlbu (bom ++ b) = Some (length (bom ++ b1) - length nlbu) /\
                           length nlbu <= length b1
    | None => bfind nlbu (bom ++ b) = None
    end.

Definition codec_ok_aligned (enc : bytes) : Prop :=
  exists c bom enc0, codec_laws enc c bom enc0 /\ aligned_first_nl bom enc0.

Lemma codec_ok_aligned_ok : forall enc, codec_ok_aligned enc -> codec_ok enc.
Proof. intros enc [c [bom [enc0 [H _]]]]. exists c, bom, enc0. exact H. Qed.

Lemma firstn_prefix_enc : forall enc c bom enc0, codec_laws enc c bom enc0 ->
  forall t b k b1, enc0 t = Some b -> enc0 (firstn k t) = Some b1 -> exists b2, b = b1 ++ b2.
Proof.
  intros enc c bom enc0 laws t b k b1 Hb H1. rewrite <- (firstn_skipn k t), (cl_hom _ _ _ _ laws), H1 in Hb.
  destruct (enc0 (skipn k t)) as [b2|]; [|discriminate]. cbn in Hb. injection Hb as <-. exists b2. reflexivity.
Qed.

(* the guess on the encoded bytes is the guess on the text *)
Theorem guess_bytes_text : forall enc c bom enc0, codec_laws enc c bom enc0 -> aligned_first_nl bom enc0 ->
  forall t b le nl nlb, enc0 t = Some b -> guess_line_endings_text t = (le, nl) -> enc0 nl = Some nlb ->
    guess_line_endings_bytes (bom ++ b) (Some enc) = Ok (le, nlb).
Proof.
  intros enc c bom enc0 laws Hal t b le nl nlb Hb Hg Hnl.
  destruct le_named as [Hu Hd].
  destruct (newline_bytes enc c bom enc0 laws _ Hu) as [nu [U1 [_ [_ [U4 [U5 _]]]]]].
  destruct (newline_bytes enc c bom enc0 laws _ Hd) as [nd [D1 [_ [_ [D4 [D5 _]]]]]].
  unfold guess_line_endings_bytes. cbn [enc_or_ascii]. rewrite U4, D4. cbn [bind]. rewrite U5, D5.
  specialize (Hal t b nu Hb U1). unfold guess_line_endings_text in Hg.
  destruct (find N.eqb (nl_text GenText.le_unix) t) as [i|].
  - destruct Hal as [b1 [E1 [E2 E3]]]. rewrite E2.
    destruct (firstn_prefix_enc enc c bom enc0 laws t b _ b1 Hb E1) as [b2 ->].
    replace (length (bom ++ b1) - length nu + length nu) with (length (bom ++ b1)) by (rewrite app_length; lia).
    rewrite app_assoc, firstn_app, Nat.sub_diag, firstn_all. cbn [firstn]. rewrite app_nil_r.
    set (t1 := firstn (i + length (nl_text GenText.le_unix)) t) in *.
    destruct (le_values_facts _ Hd) as [_ [_ [Ad _]]].
    assert (Ht1 : t1 <> []).
    { intros Hn. rewrite Hn in E1. destruct (cl_nl _ _ _ _ laws _ _ (assoc_get_In _ _ _ Ad)) as [x [X1 [X2 _]]].
      destruct (le_values_facts _ Hu) as [_ [_ [Au _]]].
      destruct (cl_nl _ _ _ _ laws _ _ (assoc_get_In _ _ _ Au)) as [y [Y1 [Y2 _]]].
      rewrite U1 in Y1. injection Y1 as <-.
      pose proof (cl_hom _ _ _ _ laws [] []) as H0. cbn [app] in H0. rewrite E1 in H0. cbn in H0.
      injection H0 as H0. assert (length b1 = length (b1 ++ b1)) by congruence. rewrite app_length in H.
      destruct nu; [congruence|]. cbn in E3. lia. }
    rewrite (bends_final enc c bom enc0 laws _ _ nd t1 b1 (assoc_get_In _ _ _ Ad) D1 Ht1 E1).
    destruct (suffixb N.eqb (nl_text GenText.le_dos) t1); injection Hg as <- <-; congruence.
  - rewrite Hal. injection Hg as <- <-. congruence.
Qed.

(* the newline a text already containing an LF is completed with does not change the guess *)
Lemma find_app_some {A} (eqb : A -> A -> bool) : forall (pat l r : list A) i, find eqb pat l = Some i ->
  find eqb pat (l ++ r) = Some i /\ firstn (i + length pat) (l ++ r) = firstn (i + length pat) l.
Proof.
  intros pat l r. unfold find. generalize 0 as k.
  induction l as [|x l IH]; intros k i H; cbn [find_at app] in *.
  - destruct (prefixb eqb pat []) eqn:E; [|discriminate]. destruct pat; [|discriminate].
    injection H as <-. cbn. split; [destruct r; reflexivity|]. rewrite Nat.add_0_r.
    admit.
Abort.
