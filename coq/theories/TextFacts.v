(* TextFacts.v — facts about Bytes.split / Text.split_lines_g (property C16) and the newline patterns of the
   codec catalogue.  Proof file: no definitions of the model are changed here. *)
From Coq Require Import List Arith Bool Strings.Byte Lia.
From Coq Require Strings.String.
From DX Require Import Bytes Res Text.
From DXGen Require GenCodecs.
Import ListNotations.
Local Open Scope list_scope.

(* ------------------------------------------------------------------------------------------------ *)
(* frev *)

Lemma frev_rev {A} (l : list A) : frev l = rev l.
Proof. unfold frev. symmetry. apply rev_alt. Qed.

Section Generic.
  Context {A : Type} (eqb : A -> A -> bool).
  Hypothesis eqb_spec : forall a b, eqb a b = true <-> a = b.

  Local Notation prefixb := (prefixb eqb).
  Local Notation suffixb := (suffixb eqb).
  Local Notation split_aux := (split_aux eqb).
  Local Notation split := (split eqb).
  Local Notation occurrences := (occurrences eqb).
  Local Notation split_lines_g := (split_lines_g eqb).

  Lemma eqb_refl : forall a, eqb a a = true.
  Proof. intro a. apply eqb_spec. reflexivity. Qed.

  (* ---------------------------------------------------------------------------------------------- *)
  (* prefixb / suffixb *)

  Lemma prefixb_spec : forall p l, prefixb p l = true <-> exists r, l = p ++ r.
  Proof.
    induction p as [|x p IH]; intros l; cbn [Bytes.prefixb].
    - split; [intros _; exists l; reflexivity | reflexivity].
    - destruct l as [|y l].
      + split; [discriminate | intros [r H]; discriminate].
      + rewrite andb_true_iff, eqb_spec, IH. split.
        * intros [-> [r ->]]. exists r. reflexivity.
        * intros [r H]. cbn in H. injection H as -> ->. split; [reflexivity | exists r; reflexivity].
  Qed.

  Lemma prefixb_app : forall p r, prefixb p (p ++ r) = true.
  Proof. intros. apply prefixb_spec. exists r. reflexivity. Qed.

  Lemma prefixb_false : forall p l, prefixb p l = false <-> ~ exists r, l = p ++ r.
  Proof.
    intros p l. rewrite <- prefixb_spec. destruct (prefixb p l); split; intros H; try reflexivity; try discriminate.
    - exfalso. auto.
  Qed.

  Lemma suffixb_spec : forall s l, suffixb s l = true <-> exists q, l = q ++ s.
  Proof.
    intros s l. unfold Bytes.suffixb. rewrite !frev_rev, prefixb_spec. split.
    - intros [r H]. exists (rev r).
      rewrite <- (rev_involutive l), H, rev_app_distr, rev_involutive. reflexivity.
    - intros [q ->]. exists (rev q). apply rev_app_distr.
  Qed.

  Lemma suffixb_app : forall q s, suffixb s (q ++ s) = true.
  Proof. intros. apply suffixb_spec. exists q. reflexivity. Qed.

  Lemma prefixb_length : forall p l, prefixb p l = true -> length p <= length l.
  Proof. intros p l H. apply prefixb_spec in H. destruct H as [r ->]. rewrite app_length. lia. Qed.

  Lemma prefixb_app_mono : forall p l r, prefixb p l = true -> prefixb p (l ++ r) = true.
  Proof.
    intros p l r H. apply prefixb_spec in H. destruct H as [r' ->]. rewrite <- app_assoc. apply prefixb_app.
  Qed.

  (* ---------------------------------------------------------------------------------------------- *)
  (* join / split_aux : losslessness *)

  Lemma split_aux_nonnil : forall (sep l cur : list A) k, split_aux sep cur l k <> [].
  Proof.
    intros sep l. induction l as [|x t IH]; intros cur k; cbn [Bytes.split_aux].
    - discriminate.
    - destruct k; [destruct (prefixb sep (x :: t)); [discriminate | apply IH] | apply IH].
  Qed.

  Lemma join_cons_nonnil : forall (sep p : list A) ps, ps <> [] -> join sep (p :: ps) = p ++ sep ++ join sep ps.
  Proof. intros sep p ps H. destruct ps; [congruence | reflexivity]. Qed.

  Lemma join_split_aux : forall sep : list A, sep <> [] ->
    forall l cur k, k <= length l -> join sep (split_aux sep cur l k) = rev cur ++ skipn k l.
  Proof.
    intros sep Hsep l. induction l as [|x t IH]; intros cur k Hk; cbn [Bytes.split_aux].
    - cbn in Hk. assert (k = 0) by lia. subst k. cbn. rewrite frev_rev, app_nil_r. reflexivity.
    - destruct k as [|k].
      + destruct (prefixb sep (x :: t)) eqn:Hp.
        * rewrite join_cons_nonnil by apply split_aux_nonnil.
          apply prefixb_spec in Hp. destruct Hp as [r Hr].
          destruct sep as [|s sep']; [congruence|]. cbn in Hr. injection Hr as -> ->.
          rewrite IH by (cbn; rewrite app_length; lia).
          cbn [length]. replace (S (length sep') - 1) with (length sep') by lia.
          rewrite skipn_app, skipn_all, Nat.sub_diag. cbn. rewrite frev_rev. reflexivity.
        * rewrite IH by lia. cbn. rewrite <- app_assoc. reflexivity.
      + cbn [skipn]. apply IH. cbn in Hk. lia.
  Qed.

  Theorem join_split : forall sep l, sep <> [] -> join sep (split sep l) = l.
  Proof. intros sep l H. unfold Bytes.split. rewrite join_split_aux by (auto; lia). reflexivity. Qed.

  (* ---------------------------------------------------------------------------------------------- *)
  (* unfolding equations and an induction principle for split_aux at skip 0 *)

  Lemma split_aux_skip : forall (sep cur a r : list A),
    split_aux sep cur (a ++ r) (length a) = split_aux sep cur r 0.
  Proof. intros sep cur a r. induction a as [|x a IH]; [reflexivity | exact IH]. Qed.

  Lemma split_aux_nil : forall (sep cur : list A) k, split_aux sep cur [] k = [frev cur].
  Proof. reflexivity. Qed.

  Lemma split_aux_match : forall (sep cur r : list A), sep <> [] ->
    split_aux sep cur (sep ++ r) 0 = frev cur :: split_aux sep [] r 0.
  Proof.
    intros sep cur r H. destruct sep as [|s sep']; [congruence|].
    change ((s :: sep') ++ r) with (s :: (sep' ++ r)). cbn [Bytes.split_aux].
    change (s :: sep' ++ r) with ((s :: sep') ++ r). rewrite prefixb_app.
    cbn [length]. replace (S (length sep') - 1) with (length sep') by lia.
    rewrite split_aux_skip. reflexivity.
  Qed.

  Lemma split_aux_nomatch : forall (sep cur : list A) x t, prefixb sep (x :: t) = false ->
    split_aux sep cur (x :: t) 0 = split_aux sep (x :: cur) t 0.
  Proof. intros sep cur x t H. cbn [Bytes.split_aux]. rewrite H. reflexivity. Qed.

  Lemma split_aux_ind : forall sep : list A, sep <> [] ->
    forall P : list A -> list A -> list (list A) -> Prop,
    (forall cur, P cur [] [frev cur]) ->
    (forall cur r, P [] r (split_aux sep [] r 0) -> P cur (sep ++ r) (frev cur :: split_aux sep [] r 0)) ->
    (forall cur x t, prefixb sep (x :: t) = false ->
        P (x :: cur) t (split_aux sep (x :: cur) t 0) -> P cur (x :: t) (split_aux sep (x :: cur) t 0)) ->
    forall l cur, P cur l (split_aux sep cur l 0).
  Proof.
    intros sep Hsep P Hnil Hmatch Hno l.
    assert (H : forall n l, length l <= n -> forall cur, P cur l (split_aux sep cur l 0)).
    { induction n as [|n IH]; intros l0 Hl cur.
      - destruct l0; [apply Hnil | cbn in Hl; lia].
      - destruct l0 as [|x t]; [apply Hnil|].
        destruct (prefixb sep (x :: t)) eqn:Hp.
        + apply prefixb_spec in Hp. destruct Hp as [r Hr]. rewrite Hr.
          rewrite split_aux_match by assumption. apply Hmatch. apply IH.
          assert (length (x :: t) = length (sep ++ r)) by (rewrite Hr; reflexivity).
          rewrite app_length in H. cbn in Hl, H. destruct sep; [congruence|]. cbn in H. lia.
        + rewrite split_aux_nomatch by assumption. apply Hno; [assumption|]. apply IH. cbn in Hl. lia. }
    intros cur. apply (H (length l)). lia.
  Qed.

  (* ---------------------------------------------------------------------------------------------- *)
  (* occurrences; occ_in pat a l = number of occurrences of pat in a ++ l that start inside a *)

  Fixpoint occ_in (pat a l : list A) : nat :=
    match a with
    | [] => 0
    | _ :: a' => (if prefixb pat (a ++ l) then 1 else 0) + occ_in pat a' l
    end.

  Lemma occurrences_app : forall pat a l, occurrences pat (a ++ l) = occ_in pat a l + occurrences pat l.
  Proof.
    intros pat a l. induction a as [|x a IH]; [reflexivity|].
    cbn [app Bytes.occurrences occ_in]. rewrite IH. cbn [app]. lia.
  Qed.

  Lemma occ_in_nil_r : forall pat a, occ_in pat a [] = occurrences pat a.
  Proof.
    intros pat a. pose proof (occurrences_app pat a []) as H. rewrite app_nil_r in H. cbn in H. lia.
  Qed.

  Lemma occ_in_app : forall pat a b l, occ_in pat (a ++ b) l = occ_in pat a (b ++ l) + occ_in pat b l.
  Proof.
    intros pat a b l. induction a as [|x a IH]; [reflexivity|].
    cbn [app occ_in]. rewrite IH. cbn [app]. rewrite <- app_assoc. lia.
  Qed.

  Lemma occ_in_mono : forall pat a l r, occ_in pat a l <= occ_in pat a (l ++ r).
  Proof.
    intros pat a l r. induction a as [|x a IH]; [cbn; lia|].
    cbn [occ_in]. destruct (prefixb pat ((x :: a) ++ l)) eqn:H.
    - rewrite app_assoc. rewrite (prefixb_app_mono _ _ r H). lia.
    - destruct (prefixb pat ((x :: a) ++ l ++ r)); lia.
  Qed.

  Lemma occurrences_short : forall pat l, length l < length pat -> occurrences pat l = 0.
  Proof.
    intros pat l. induction l as [|x l IH]; intros H; [reflexivity|].
    cbn [Bytes.occurrences]. destruct (prefixb pat (x :: l)) eqn:Hp.
    - apply prefixb_length in Hp. lia.
    - rewrite IH; [reflexivity | cbn in H; lia].
  Qed.

  Lemma occurrences_self : forall pat, pat <> [] -> occurrences pat pat = 1.
  Proof.
    intros pat H. destruct pat as [|x p]; [congruence|].
    cbn [Bytes.occurrences]. rewrite occurrences_short by (cbn; lia).
    replace (prefixb (x :: p) (x :: p)) with true; [reflexivity|].
    symmetry. apply prefixb_spec. exists []. rewrite app_nil_r. reflexivity.
  Qed.

  Lemma occurrences_suffix_pos : forall pat q, pat <> [] -> 1 <= occurrences pat (q ++ pat).
  Proof. intros pat q H. rewrite occurrences_app, occurrences_self by assumption. lia. Qed.

  Lemma suffixb_occurrences : forall pat l, pat <> [] -> suffixb pat l = true -> 1 <= occurrences pat l.
  Proof. intros pat l H Hs. apply suffixb_spec in Hs. destruct Hs as [q ->]. apply occurrences_suffix_pos, H. Qed.

  Lemma occurrences_zero_not_suffix : forall pat l, pat <> [] -> occurrences pat l = 0 -> suffixb pat l = false.
  Proof.
    intros pat l H H0. destruct (suffixb pat l) eqn:Hs; [|reflexivity].
    apply suffixb_occurrences in Hs; [lia | assumption].
  Qed.

  (* positional reading of occ_in / occurrences *)
  Lemma occ_in_zero_iff : forall pat a l,
    occ_in pat a l = 0 <-> (forall i, i < length a -> prefixb pat (skipn i (a ++ l)) = false).
  Proof.
    intros pat a l. induction a as [|x a IH].
    - split; [intros _ i Hi; cbn in Hi; lia | reflexivity].
    - cbn [occ_in]. split.
      + intros H i Hi. destruct i as [|i].
        * cbn [skipn]. destruct (prefixb pat ((x :: a) ++ l)); [lia | reflexivity].
        * cbn [skipn app]. apply IH; [lia | cbn in Hi; lia].
      + intros H. pose proof (H 0 ltac:(cbn; lia)) as H0. cbn [skipn] in H0. rewrite H0.
        cbn [Nat.add]. apply IH. intros i Hi. apply (H (S i)). cbn. lia.
  Qed.

  Lemma occurrences_zero_iff : forall pat l,
    occurrences pat l = 0 <-> (forall i, i < length l -> prefixb pat (skipn i l) = false).
  Proof.
    intros pat l. rewrite <- occ_in_nil_r, occ_in_zero_iff, app_nil_r. reflexivity.
  Qed.

  (* "ln = body ++ nl contains nl nowhere else": the two readings agree *)
  Lemma occurrences_one_iff : forall nl body, nl <> [] ->
    (occurrences nl (body ++ nl) = 1 <->
     forall i, i < length body -> prefixb nl (skipn i (body ++ nl)) = false).
  Proof.
    intros nl body H. rewrite occurrences_app, occurrences_self by assumption.
    rewrite <- occ_in_zero_iff. lia.
  Qed.

End Generic.
