(* Codec.v — executable models of the ten Python text codecs the extracted model runs with
   (strict error handling, as str.encode / bytes.decode use by default), and the catalogue lookup.
   That these functions equal CPython's is validated by the `codec` correspondence family only. *)
From Coq Require Import List Arith NArith ZArith Bool Strings.Byte.
From Coq Require Strings.String.
From DX Require Import Bytes.
From DXGen Require GenCodecs.
Import ListNotations.
Import String.StringSyntax.
Local Open Scope string_scope.
Local Open Scope list_scope.
Local Open Scope N_scope.

Record codec := { c_enc : text -> option bytes;      (* str.encode(name): with BOM where the codec emits one *)
                  c_dec : bytes -> option text }.    (* bytes.decode(name) *)

Definition is_surrogate (c : N) : bool := (0xD800 <=? c) && (c <=? 0xDFFF).
Definition valid_cp (c : N) : bool := (c <=? 0x10FFFF) && negb (is_surrogate c).

Fixpoint enc_all (f : N -> option bytes) (t : text) : option bytes :=
  match t with
  | [] => Some []
  | c :: r => match f c, enc_all f r with Some a, Some b => Some (a ++ b) | _, _ => None end
  end.

(* ---- latin-1 / ascii ---- *)
Definition enc1 (limit : N) (c : N) : option bytes := if c <? limit then Some [n_byte c] else None.
Fixpoint dec1 (limit : N) (b : bytes) : option text :=
  match b with
  | [] => Some []
  | x :: r => if byte_n x <? limit then option_map (cons (byte_n x)) (dec1 limit r) else None
  end.
Definition latin1 : codec := {| c_enc := enc_all (enc1 256); c_dec := dec1 256 |}.
Definition ascii : codec := {| c_enc := enc_all (enc1 128); c_dec := dec1 128 |}.

(* ---- utf-8 ---- *)
Definition u8_enc_cp (c : N) : option bytes :=
  if c <? 0x80 then Some [n_byte c]
  else if c <? 0x800 then Some [n_byte (0xC0 + c / 64); n_byte (0x80 + c mod 64)]
  else if c <? 0x10000 then
    if is_surrogate c then None
    else Some [n_byte (0xE0 + c / 4096); n_byte (0x80 + (c / 64) mod 64); n_byte (0x80 + c mod 64)]
  else if c <=? 0x10FFFF then
    Some [n_byte (0xF0 + c / 262144); n_byte (0x80 + (c / 4096) mod 64); n_byte (0x80 + (c / 64) mod 64); n_byte (0x80 + c mod 64)]
  else None.
Definition u8_enc (t : text) : option bytes := enc_all u8_enc_cp t.

Definition cont (n : N) : bool := (0x80 <=? n) && (n <=? 0xBF).
Definition rng (lo hi n : N) : bool := (lo <=? n) && (n <=? hi).

Fixpoint u8_dec (b : bytes) : option text :=
  match b with
  | [] => Some []
  | x0 :: r0 =>
      let b0 := byte_n x0 in
      if b0 <? 0x80 then option_map (cons b0) (u8_dec r0)
      else if rng 0xC2 0xDF b0 then
        match r0 with
        | x1 :: r1 => let b1 := byte_n x1 in
            if cont b1 then option_map (cons ((b0 - 0xC0) * 64 + (b1 - 0x80))) (u8_dec r1) else None
        | _ => None
        end
      else if rng 0xE0 0xEF b0 then
        match r0 with
        | x1 :: x2 :: r2 => let b1 := byte_n x1 in let b2 := byte_n x2 in
            let ok1 := if b0 =? 0xE0 then rng 0xA0 0xBF b1 else if b0 =? 0xED then rng 0x80 0x9F b1 else cont b1 in
            if ok1 && cont b2
            then option_map (cons ((b0 - 0xE0) * 4096 + (b1 - 0x80) * 64 + (b2 - 0x80))) (u8_dec r2) else None
        | _ => None
        end
      else if rng 0xF0 0xF4 b0 then
        match r0 with
        | x1 :: x2 :: x3 :: r3 => let b1 := byte_n x1 in let b2 := byte_n x2 in let b3 := byte_n x3 in
            let ok1 := if b0 =? 0xF0 then rng 0x90 0xBF b1 else if b0 =? 0xF4 then rng 0x80 0x8F b1 else cont b1 in
            if ok1 && cont b2 && cont b3
            then option_map (cons ((b0 - 0xF0) * 262144 + (b1 - 0x80) * 4096 + (b2 - 0x80) * 64 + (b3 - 0x80))) (u8_dec r3)
            else None
        | _ => None
        end
      else None
  end.
Definition utf8 : codec := {| c_enc := u8_enc; c_dec := u8_dec |}.

Definition bom8 : bytes := [xef; xbb; xbf].
Definition utf8sig : codec :=
  {| c_enc := fun t => option_map (app bom8) (u8_enc t);
     c_dec := fun b => if bstarts bom8 b then u8_dec (skipn 3 b) else u8_dec b |}.

(* ---- utf-16 ---- *)
Definition pair16 (le : bool) (u : N) : bytes :=
  if le then [n_byte (u mod 256); n_byte (u / 256)] else [n_byte (u / 256); n_byte (u mod 256)].
Definition u16_enc_cp (le : bool) (c : N) : option bytes :=
  if c <? 0x10000 then (if is_surrogate c then None else Some (pair16 le c))
  else if c <=? 0x10FFFF then
    let v := c - 0x10000 in Some (pair16 le (0xD800 + v / 1024) ++ pair16 le (0xDC00 + v mod 1024))
  else None.
Definition unit16 (le : bool) (a b : byte) : N :=
  if le then byte_n a + 256 * byte_n b else 256 * byte_n a + byte_n b.
Fixpoint u16_dec (le : bool) (b : bytes) : option text :=
  match b with
  | [] => Some []
  | a0 :: a1 :: r =>
      let u := unit16 le a0 a1 in
      if rng 0xD800 0xDBFF u then
        match r with
        | c0 :: c1 :: r' =>
            let v := unit16 le c0 c1 in
            if rng 0xDC00 0xDFFF v
            then option_map (cons (0x10000 + (u - 0xD800) * 1024 + (v - 0xDC00))) (u16_dec le r')
            else None
        | _ => None
        end
      else if rng 0xDC00 0xDFFF u then None
      else option_map (cons u) (u16_dec le r)
  | _ => None
  end.
Definition bom16le : bytes := [xff; xfe].
Definition bom16be : bytes := [xfe; xff].
Definition utf16le : codec := {| c_enc := enc_all (u16_enc_cp true); c_dec := u16_dec true |}.
Definition utf16be : codec := {| c_enc := enc_all (u16_enc_cp false); c_dec := u16_dec false |}.
(* native byte order is little-endian on the platforms this runs on (recorded in the trusted base) *)
Definition utf16 : codec :=
  {| c_enc := fun t => option_map (app bom16le) (enc_all (u16_enc_cp true) t);
     c_dec := fun b => if bstarts bom16le b then u16_dec true (skipn 2 b)
                       else if bstarts bom16be b then u16_dec false (skipn 2 b)
                       else u16_dec true b |}.

(* ---- utf-32 ---- *)
Definition quad32 (le : bool) (c : N) : bytes :=
  let b0 := n_byte (c mod 256) in let b1 := n_byte ((c / 256) mod 256) in
  let b2 := n_byte ((c / 65536) mod 256) in let b3 := n_byte ((c / 16777216) mod 256) in
  if le then [b0; b1; b2; b3] else [b3; b2; b1; b0].
Definition u32_enc_cp (le : bool) (c : N) : option bytes := if valid_cp c then Some (quad32 le c) else None.
Fixpoint u32_dec (le : bool) (b : bytes) : option text :=
  match b with
  | [] => Some []
  | a0 :: a1 :: a2 :: a3 :: r =>
      let c := if le then byte_n a0 + 256 * (byte_n a1 + 256 * (byte_n a2 + 256 * byte_n a3))
               else byte_n a3 + 256 * (byte_n a2 + 256 * (byte_n a1 + 256 * byte_n a0)) in
      if valid_cp c then option_map (cons c) (u32_dec le r) else None
  | _ => None
  end.
Definition bom32le : bytes := [xff; xfe; x00; x00].
Definition bom32be : bytes := [x00; x00; xfe; xff].
Definition utf32le : codec := {| c_enc := enc_all (u32_enc_cp true); c_dec := u32_dec true |}.
Definition utf32be : codec := {| c_enc := enc_all (u32_enc_cp false); c_dec := u32_dec false |}.
Definition utf32 : codec :=
  {| c_enc := fun t => option_map (app bom32le) (enc_all (u32_enc_cp true) t);
     c_dec := fun b => if bstarts bom32le b then u32_dec true (skipn 4 b)
                       else if bstarts bom32be b then u32_dec false (skipn 4 b)
                       else u32_dec true b |}.

(* ---- lookup by canonical name (codecs.lookup(x).name) ---- *)
Definition modelled : list (bytes * codec) :=
  [ (B "ascii", ascii); (B "iso8859-1", latin1); (B "utf-8", utf8); (B "utf-8-sig", utf8sig);
    (B "utf-16", utf16); (B "utf-16-le", utf16le); (B "utf-16-be", utf16be);
    (B "utf-32", utf32); (B "utf-32-le", utf32le); (B "utf-32-be", utf32be) ].

Inductive lookup_result :=
| LOk (canonical : bytes) (c : codec)
| LUnmodelled            (* a text codec CPython knows and this model does not execute: the harness discards the case *)
| LUnknown.              (* LookupError *)

Fixpoint find_row (s : bytes) (rows : list GenCodecs.codec_row) : option GenCodecs.codec_row :=
  match rows with
  | [] => None
  | r :: t => if beq s (GenCodecs.cr_spelling r) then Some r else find_row s t
  end.

Definition lookup_codec (spelling : bytes) : lookup_result :=
  match find_row spelling GenCodecs.rows with
  | None => LUnknown
  | Some r => match assoc_get beq (GenCodecs.cr_canonical r) modelled with
              | Some c => LOk (GenCodecs.cr_canonical r) c
              | None => LUnmodelled
              end
  end.
