"""Which families, generated modules and trusted-base notes decide which property."""
import fam_text
import fam_stream
import fam_hunks
import fam_dom

_split = fam_text.Split()
_codec = fam_text.CodecFam()
_spelling = fam_text.Spelling()
_stream = fam_stream.Stream()
_calls = fam_stream.Calls()
_foreign = fam_stream.Foreign()
_specfile = fam_stream.SpecFile()
_truncate = fam_stream.Truncate()
_order = fam_stream.Order()
_header = fam_stream.HeaderFam()
_chunk = fam_stream.Chunk()
_nesting = fam_stream.Nesting()
_fuzz = fam_stream.Fuzz()
_hunks = fam_hunks.HunksFam()
_dom = fam_dom.Dom()
_stats = fam_dom.Stats()
_alias = fam_dom.Alias()
_attrs = fam_dom.Attrs()

_all = [_split, _codec, _spelling, _stream, _calls, _foreign, _specfile, _truncate, _order, _header, _chunk, _nesting, _fuzz, _hunks,
        _dom, _stats, _alias, _attrs]
try:
    import fam_lex
    _lex = fam_lex.Lex() if hasattr(fam_lex, 'Lex') else fam_lex.LexFam()
    _all.append(_lex)
except Exception:      # the lexer family is optional until it is wired
    _lex = None

FAMILIES = {f.name: f for f in _all}

PY = 'CPython semantics of the primitives the model transcribes (bytes/str methods, re, io.BytesIO, codecs) - validated by the correspondence families, not proved'
CODECS = 'the ten Gallina codecs equal CPython\'s (codec family: 20k encode/decode cases incl. malformed input); native byte order little-endian'
JSON = 'json.loads is a per-case oracle recorded from the implementation run; json.dumps(indent=4, sort_keys, separators) = Json.json_dump (stream family, byte for byte)'

PROPS = {
    'C01': dict(families=[_stream, _nesting], extra_props=['C01_sequence', 'C01_noguess'], trusted_base=[PY, CODECS, JSON]),
    'C02': dict(families=[_stream, _calls], extra_props=['C02_spec'], trusted_base=[PY, CODECS, JSON]),
    'C03': dict(families=[_foreign, _specfile], extra_props=['C03_spec', 'C03_defects', 'C03_text'], trusted_base=[PY, CODECS, JSON]),
    'C04': dict(families=[_nesting, _stream, _foreign], trusted_base=[PY, CODECS]),
    'C05': dict(families=[_dom], extra_props=['C05_full'], trusted_base=[PY, CODECS, JSON]),
    'C06': dict(families=[_dom], extra_props=['C06_full', 'C06_foreign'], trusted_base=[PY, CODECS, JSON]),
    'C07': dict(families=[_truncate], extra_props=['C07_file'], trusted_base=[PY, CODECS, JSON]),
    'C08': dict(families=[_fuzz], trusted_base=[PY, CODECS, JSON,
                'runtime-only failures (MemoryError, non-BytesIO streams) are outside the modelled primitive set']),
    'C09': dict(families=[_calls], trusted_base=[PY, CODECS]),
    'C10': dict(families=[_order], extra_props=['C10_complete', 'C10_writer'], trusted_base=[PY]),
    'C11': dict(families=[_header], trusted_base=[PY, 'sys.get_int_max_str_digits() = 4300']),
    'C12': dict(families=[_foreign, _header, _specfile], extra_props=['C12_file'], trusted_base=[PY]),
    'C13': dict(families=[_stats], trusted_base=[PY, CODECS]),
    'C14': dict(families=[_hunks], trusted_base=[PY]),
    'C15': dict(families=[_spelling], trusted_base=[PY, 'the codec catalogue rows are facts read from the running CPython by gen/gen_codecs.py']),
    'C16': dict(families=[_split], trusted_base=[PY]),
    'C17': dict(families=[_chunk], trusted_base=[PY]),
    'C18': dict(families=[_alias], trusted_base=[PY, 'value-level model: sharing is excluded by the snapshot correspondence after every operation']),
    'C19': dict(families=[_attrs, _alias], trusted_base=[PY]),
    'C20': dict(families=[_lex] if _lex else [], extra_props=['C20_writer'], trusted_base=[PY, 'pygments RegexLexer engine, bygroups, using behave as Lexer.v models them; JsonLexer/DiffLexer are oracles assumed lossless']),
}
