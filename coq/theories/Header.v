(* Header.v — reader-side header parsing (model of _HEADER_RE + option splitting/validation/int conversion)
   and writer-side header rendering. *)
From Coq Require Import List Arith NArith ZArith Bool Strings.Byte.
From Coq Require Strings.String.
From DX Require Import Bytes Res Sections.
Import ListNotations.
Import String.StringSyntax.
Local Open Scope string_scope.
Local Open Scope list_scope.

(* option values as the reader reports them *)
Inductive pv := VInt (z : Z) | VStr (s : bytes).

Definition pv_eqb (a b : pv) : bool :=
  match a, b with
  | VInt x, VInt y => Z.eqb x y
  | VStr x, VStr y => beq x y
  | _, _ => false
  end.

Definition options := list (bytes * pv).
Definition opt_get (k : String.string) (o : options) : option pv := assoc_get beq (B k) o.

Definition nonempty {A} (l : list A) : bool := match l with [] => false | _ => true end.

(* ---- character classes of the option regexes ---- *)
Definition is_comma (b : byte) := byte_eqb b ","%byte.
Definition is_eq (b : byte) := byte_eqb b "="%byte.
(* [^=\s,] and [^\s,] *)
Definition pair_key_char (b : byte) : bool := negb (is_eq b || is_space b || is_comma b).
Definition pair_val_char (b : byte) : bool := negb (is_space b || is_comma b).
(* [A-Za-z][A-Za-z0-9_-]* *)
Definition key_tail_char (b : byte) : bool := is_alnum b || byte_eqb b "_"%byte || byte_eqb b "-"%byte.
Definition key_ok (k : bytes) : bool :=
  match k with [] => false | c :: t => is_alpha c && all_b key_tail_char t end.
(* [A-Za-z0-9/_.-]+ *)
Definition val_char (b : byte) : bool :=
  is_alnum b || byte_eqb b "/"%byte || byte_eqb b "_"%byte || byte_eqb b "."%byte || byte_eqb b "-"%byte.
Definition val_ok (v : bytes) : bool := nonempty v && all_b val_char v.
(* -?[0-9]+ *)
Definition int_ok (v : bytes) : bool :=
  match v with
  | c :: t => if byte_eqb c "-"%byte then nonempty t && all_b is_digit t else all_b is_digit v
  | [] => false
  end.
(* sys.get_int_max_str_digits(): int() of a longer digit string raises ValueError, which the reader swallows *)
Definition int_max_str_digits : nat := 4300.
Definition digits_of (v : bytes) : bytes :=
  match v with c :: t => if byte_eqb c "-"%byte then t else v | [] => [] end.
Definition convert_value (v : bytes) : pv :=
  if int_ok v && Nat.leb (length (digits_of v)) int_max_str_digits
  then (match v with
        | c :: t => if byte_eqb c "-"%byte then VInt (Z.opp (Z.of_N (dec_to_N t))) else VInt (Z.of_N (dec_to_N v))
        | [] => VStr v
        end)
  else VStr v.

(* pair.split(b'=', 1) *)
Fixpoint split_eq (p : bytes) : option (bytes * bytes) :=
  match p with
  | [] => None
  | c :: t => if is_eq c then Some ([], t)
              else match split_eq t with Some (k, v) => Some (c :: k, v) | None => None end
  end.

(* [^=\s,]+=[^\s,]+ in its entirety *)
Definition pair_shape_ok (p : bytes) : bool :=
  match split_eq p with
  | Some (k, v) => nonempty k && all_b pair_key_char k && nonempty v && all_b pair_val_char v
  | None => false
  end.

Definition comma_space : bytes := B ", ".

Fixpoint take_dots (l : bytes) : nat * bytes :=
  match l with
  | c :: t => if byte_eqb c "."%byte then let (n, r) := take_dots t in (S n, r) else (0, l)
  | [] => (0, [])
  end.

Fixpoint match_name (names : list bytes) (l : bytes) : option (bytes * bytes) :=
  match names with
  | [] => None
  | n :: r => if bstarts (n ++ B ":") l then Some (n, skipn (length n + 1) l) else match_name r l
  end.

(* _HEADER_RE.match(header): Some (level, section_type, options group) *)
Definition match_header_re (h : bytes) : option (nat * bytes * option bytes) :=
  match h with
  | c :: r =>
      if byte_eqb c "#"%byte then
        let (dots, rest) := take_dots r in
        if Nat.leb dots 3 then
          match match_name header_names rest with
          | Some (name, tail) =>
              match tail with
              | [] => Some (dots, name, None)
              | sp :: opts =>
                  if byte_eqb sp " "%byte && nonempty opts && all_b pair_shape_ok (bsplit comma_space opts)
                  then Some (dots, name, Some opts) else None
              end
          | None => None
          end
        else None
      else None
  | [] => None
  end.

Inductive hdr_result :=
| HOk (level : nat) (name : bytes) (id : bytes) (opts : options)
| HErr (col : option nat).

Definition opt_set (k : bytes) (v : pv) (o : options) : options := assoc_set beq k v o.

(* the loop over options_str.split(b', ') *)
Fixpoint parse_pairs (header : bytes) (pairs : list bytes) (acc : options) : options + option nat :=
  match pairs with
  | [] => inl acc
  | p :: rest =>
      match split_eq p with
      | None => inr None      (* unreachable after a successful regex match *)
      | Some (k, v) =>
          if negb (key_ok k) then inr (bfind p header)
          else if negb (val_ok v) then inr (option_map (fun i => i + length k + 1) (bfind p header))
          else parse_pairs header rest (opt_set k (convert_value v) acc)
      end
  end.

(* _read_header after the newline has been stripped *)
Definition parse_header (valid : list bytes) (header : bytes) : hdr_result :=
  match match_header_re header with
  | None => HErr None
  | Some (dots, name, ostr) =>
      let id := build_id dots name in
      if negb (in_ids id valid) then HErr None
      else match ostr with
           | None => HOk dots name id []
           | Some s =>
               match parse_pairs header (bsplit comma_space s) [] with
               | inl o => HOk dots name id o
               | inr col => HErr (match col with Some c => Some c | None => Some 0 end)
               end
           end
  end.

(* ---- writer side: '#%s:' + ' ' + ', '.join('%s=%s' sorted by key) + '\n' ---- *)
Definition sort_opts {V} (o : list (bytes * V)) : list (bytes * V) :=
  isort (fun a b => bytes_leb (fst a) (fst b)) o.
