(* SectionsSpec.v — SPEC layer for property C10, written from the specification text only
   (docs/spec/section-format.rst "Section IDs" + "Section Order" state tree, docs/spec/sections.rst "Section
   Hierarchy"), NOT from the generated table.  SectionsFacts.v compares the generated table with this file.

   Two errata of the state tree are resolved as recorded in DESIGN.md (C10):
     * "..meta -> ..change" is read as "..meta -> .change" (there is no id "..change");
     * "..preamble -> ..meta" is added (sections.rst makes both optional in that order and the spec's own
       examples contain the pair). *)
From Coq Require Import List Arith Bool Strings.Byte.
From Coq Require Strings.String.
From DX Require Import Bytes.
Import ListNotations.
Import String.StringSyntax.
Local Open Scope string_scope.
Local Open Scope list_scope.

(* ---- the nine section ids (section-format.rst, "Section IDs") ---- *)
Inductive sid :=
| Main            (* diffx      *)
| MainPreamble    (* .preamble  *)
| MainMeta        (* .meta      *)
| Change          (* .change    *)
| ChangePreamble  (* ..preamble *)
| ChangeMeta      (* ..meta     *)
| File            (* ..file     *)
| FileMeta        (* ...meta    *)
| FileDiff.       (* ...diff    *)

Definition all_sids : list sid :=
  [Main; MainPreamble; MainMeta; Change; ChangePreamble; ChangeMeta; File; FileMeta; FileDiff].

Definition sid_bytes (s : sid) : bytes :=
  match s with
  | Main => B "diffx"
  | MainPreamble => B ".preamble"
  | MainMeta => B ".meta"
  | Change => B ".change"
  | ChangePreamble => B "..preamble"
  | ChangeMeta => B "..meta"
  | File => B "..file"
  | FileMeta => B "...meta"
  | FileDiff => B "...diff"
  end.

Definition sid_eqb (a b : sid) : bool :=
  match a, b with
  | Main, Main | MainPreamble, MainPreamble | MainMeta, MainMeta | Change, Change
  | ChangePreamble, ChangePreamble | ChangeMeta, ChangeMeta | File, File | FileMeta, FileMeta
  | FileDiff, FileDiff => true
  | _, _ => false
  end.

Fixpoint find_sid (b : bytes) (l : list sid) : option sid :=
  match l with
  | [] => None
  | s :: t => if beq b (sid_bytes s) then Some s else find_sid b t
  end.
Definition sid_of_bytes (b : bytes) : option sid := find_sid b all_sids.

(* ---- the state tree (section-format.rst, "Section Order"), 19 pairs ---- *)
Definition may_follow (a b : sid) : bool :=
  match a, b with
  | Main, MainPreamble | Main, MainMeta | Main, Change => true
  | MainPreamble, MainMeta | MainPreamble, Change => true
  | MainMeta, Change => true
  | Change, ChangePreamble | Change, ChangeMeta | Change, File => true
  | ChangePreamble, File => true
  | ChangePreamble, ChangeMeta => true            (* erratum 2: added *)
  | ChangeMeta, Change => true                    (* erratum 1: "..change" read as ".change" *)
  | ChangeMeta, File => true
  | File, FileMeta => true
  | FileMeta, FileDiff | FileMeta, File | FileMeta, Change => true
  | FileDiff, File | FileDiff, Change => true
  | _, _ => false
  end.

Definition all_pairs : list (sid * sid) :=
  flat_map (fun a => map (fun b => (a, b)) all_sids) all_sids.

Lemma may_follow_19 :
  List.length (filter (fun p => may_follow (fst p) (snd p)) all_pairs) = 19.
Proof. reflexivity. Qed.

(* ---- basic facts about the ids ---- *)
Section ListEq.
  Context {A : Type} (eqb : A -> A -> bool) (eqb_spec : forall a b, eqb a b = true <-> a = b).
  Lemma list_eqb_eq : forall l1 l2 : list A, list_eqb eqb l1 l2 = true <-> l1 = l2.
  Proof.
    induction l1 as [|x l1 IH]; destruct l2 as [|y l2]; cbn [list_eqb]; split; intro H;
      try reflexivity; try discriminate.
    - apply andb_true_iff in H. destruct H as [H1 H2].
      apply eqb_spec in H1. apply IH in H2. subst. reflexivity.
    - injection H as -> ->. apply andb_true_iff. split; [apply eqb_spec | apply IH]; reflexivity.
  Qed.
  Lemma mem_In : forall (x : A) l, mem eqb x l = true <-> In x l.
  Proof.
    induction l as [|y l IH]; cbn [mem In]; split; intro H; try discriminate; try contradiction.
    - apply orb_true_iff in H. destruct H as [H|H]; [left; symmetry; apply eqb_spec; exact H | right; apply IH; exact H].
    - apply orb_true_iff. destruct H as [H|H]; [left; apply eqb_spec; symmetry; exact H | right; apply IH; exact H].
  Qed.
End ListEq.

Lemma beq_eq : forall a b : bytes, beq a b = true <-> a = b.
Proof. apply list_eqb_eq. intros a b. unfold byte_eqb. split; [apply Byte.byte_dec_bl | apply Byte.byte_dec_lb]. Qed.

Lemma beq_refl : forall a, beq a a = true.
Proof. intro a. apply beq_eq. reflexivity. Qed.

Lemma sid_eqb_eq : forall a b, sid_eqb a b = true <-> a = b.
Proof. destruct a, b; cbn; split; intro H; try reflexivity; try discriminate. Qed.

Lemma all_sids_complete : forall s, In s all_sids.
Proof. destruct s; cbn; tauto. Qed.

Lemma sid_bytes_inj : forall a b, sid_bytes a = sid_bytes b -> a = b.
Proof. destruct a, b; intro H; try reflexivity; discriminate H. Qed.

Lemma find_sid_some : forall b l s, find_sid b l = Some s -> b = sid_bytes s.
Proof.
  induction l as [|x l IH]; cbn [find_sid]; intros s H; [discriminate|].
  destruct (beq b (sid_bytes x)) eqn:E.
  - injection H as <-. apply beq_eq. exact E.
  - apply IH. exact H.
Qed.

Lemma sid_of_bytes_some : forall b s, sid_of_bytes b = Some s -> b = sid_bytes s.
Proof. intros b s. apply find_sid_some. Qed.

Lemma sid_of_bytes_sid_bytes : forall s, sid_of_bytes (sid_bytes s) = Some s.
Proof. destruct s; vm_compute; reflexivity. Qed.

Lemma sid_of_bytes_iff : forall b s, sid_of_bytes b = Some s <-> b = sid_bytes s.
Proof. intros b s. split; [apply sid_of_bytes_some | intros ->; apply sid_of_bytes_sid_bytes]. Qed.

(* nothing may follow into Main: the main header can only come first *)
Lemma may_follow_main_false : forall a, may_follow a Main = false.
Proof. destruct a; reflexivity. Qed.

(* ---- paths of a successor relation ---- *)
(* [ok_by R p w]: w is a legal continuation after section p, for successor relation R *)
Fixpoint ok_by (R : sid -> sid -> bool) (p : sid) (w : list sid) : bool :=
  match w with
  | [] => true
  | b :: t => R p b && ok_by R b t
  end.
Notation ok_from := (ok_by may_follow).

(* a legal id sequence: empty, or Main followed by a legal continuation *)
Definition spec_path (w : list sid) : Prop :=
  match w with
  | [] => True
  | a :: t => a = Main /\ ok_from Main t = true
  end.

Definition Adjacent {A} (a b : A) (w : list A) : Prop := exists l1 l2, w = l1 ++ a :: b :: l2.

Lemma Adjacent_cons : forall {A} (a b c : A) w, Adjacent a b w -> Adjacent a b (c :: w).
Proof. intros A a b c w (l1 & l2 & ->). exists (c :: l1), l2. reflexivity. Qed.

Lemma Adjacent_cons_inv : forall {A} (a b c : A) w,
  Adjacent a b (c :: w) -> (a = c /\ exists t, w = b :: t) \/ Adjacent a b w.
Proof.
  intros A a b c w (l1 & l2 & H). destruct l1 as [|x l1]; cbn in H.
  - injection H as -> ->. left. split; [reflexivity | eexists; reflexivity].
  - injection H as -> ->. right. exists l1, l2. reflexivity.
Qed.

Lemma ok_by_adjacent : forall R t p, ok_by R p t = true ->
  forall a b, Adjacent a b (p :: t) -> R a b = true.
Proof.
  induction t as [|c t IH]; intros p H a b Hadj.
  - destruct Hadj as (l1 & l2 & E). destruct l1 as [|? [|? ?]]; discriminate E.
  - cbn [ok_by] in H. apply andb_true_iff in H. destruct H as [H1 H2].
    apply Adjacent_cons_inv in Hadj. destruct Hadj as [[-> (t' & E)] | Hadj].
    + injection E as <- _. exact H1.
    + eapply IH; eauto.
Qed.

Lemma ok_by_mono : forall (R S : sid -> sid -> bool), (forall a b, R a b = true -> S a b = true) ->
  forall t p, ok_by R p t = true -> ok_by S p t = true.
Proof.
  intros R S HRS. induction t as [|c t IH]; intros p H; [reflexivity|].
  cbn [ok_by] in *. apply andb_true_iff in H. destruct H as [H1 H2].
  rewrite (HRS _ _ H1), (IH _ H2). reflexivity.
Qed.

Lemma ok_from_no_main : forall t p, ok_from p t = true -> ~ In Main t.
Proof.
  induction t as [|c t IH]; intros p H Hin; [exact Hin|].
  cbn [ok_by] in H. apply andb_true_iff in H. destruct H as [H1 H2].
  destruct Hin as [-> | Hin].
  - rewrite may_follow_main_false in H1. discriminate.
  - eapply IH; eauto.
Qed.

Lemma spec_path_adjacent : forall w, spec_path w -> forall a b, Adjacent a b w -> may_follow a b = true.
Proof.
  intros [|x t] H a b Hadj.
  - destruct Hadj as (l1 & l2 & E). destruct l1; discriminate E.
  - destruct H as [-> H]. eapply ok_by_adjacent; eauto.
Qed.

Lemma spec_path_main_once : forall w, spec_path w -> w = [] \/ exists t, w = Main :: t /\ ~ In Main t.
Proof.
  intros [|x t] H; [left; reflexivity|]. destruct H as [-> H]. right. exists t. split; [reflexivity|].
  eapply ok_from_no_main; eauto.
Qed.

Lemma last_cons_default : forall {A} (v : list A) a d d', last (a :: v) d = last (a :: v) d'.
Proof.
  induction v as [|y v IH]; intros a d d'; [reflexivity|].
  change (last (a :: y :: v) d) with (last (y :: v) d).
  change (last (a :: y :: v) d') with (last (y :: v) d'). apply IH.
Qed.

Lemma last_app2 : forall {A} (u v : list A) d, last (u ++ v) d = last v (last u d).
Proof.
  induction u as [|x u IH]; intros v d; [reflexivity|].
  destruct u as [|y u].
  - destruct v as [|a v]; [reflexivity|].
    change (last ([x] ++ a :: v) d) with (last (a :: v) d). apply last_cons_default.
  - change ((x :: y :: u) ++ v) with (x :: (y :: u) ++ v).
    change (last (x :: (y :: u) ++ v) d) with (last ((y :: u) ++ v) d).
    change (last (x :: y :: u) d) with (last (y :: u) d). apply IH.
Qed.

Lemma ok_by_app : forall R u v p, ok_by R p (u ++ v) = ok_by R p u && ok_by R (last u p) v.
Proof.
  induction u as [|x u IH]; intros v p; [reflexivity|].
  cbn [app ok_by]. rewrite IH. rewrite <- andb_assoc. f_equal. f_equal.
  destruct u as [|y u]; [reflexivity|].
  change (last (x :: y :: u) p) with (last (y :: u) p). f_equal. apply last_cons_default.
Qed.

(* ---- the hierarchy of sections.rst as a language ----
     diffx [.preamble] [.meta] change+
     change = .change [..preamble] [..meta] file+
     file   = ..file ...meta [...diff]                                                            *)
Definition optional (s : sid) (w : list sid) : Prop := w = [] \/ w = [s].

Inductive HFileSec : list sid -> Prop :=
| HFileSec_intro d : optional FileDiff d -> HFileSec (File :: FileMeta :: d).

Inductive HFiles : list sid -> Prop :=
| HFiles_one w : HFileSec w -> HFiles w
| HFiles_more w ws : HFileSec w -> HFiles ws -> HFiles (w ++ ws).

Inductive HChange : list sid -> Prop :=
| HChange_intro p m fs : optional ChangePreamble p -> optional ChangeMeta m -> HFiles fs ->
    HChange (Change :: p ++ m ++ fs).

Inductive HChanges : list sid -> Prop :=
| HChanges_one w : HChange w -> HChanges w
| HChanges_more w ws : HChange w -> HChanges ws -> HChanges (w ++ ws).

Inductive HFile : list sid -> Prop :=
| HFile_intro p m cs : optional MainPreamble p -> optional MainMeta m -> HChanges cs ->
    HFile (Main :: p ++ m ++ cs).

(* ---- soundness: words of the hierarchy are paths of the state tree ----
   proved for the state tree minus the pair (..meta, .change), which is the exact adjacency relation of the
   hierarchy (a change always has a file), then weakened to may_follow. *)
Definition hier_follow (a b : sid) : bool :=
  may_follow a b && negb (sid_eqb a ChangeMeta && sid_eqb b Change).

Lemma hier_follow_may_follow : forall a b, hier_follow a b = true -> may_follow a b = true.
Proof. intros a b H. apply andb_true_iff in H. apply H. Qed.

Lemma may_follow_hier_follow : forall a b,
  may_follow a b = true <-> hier_follow a b = true \/ (a, b) = (ChangeMeta, Change).
Proof.
  intros a b. split.
  - destruct a, b; intro H; try discriminate H; (left; reflexivity) || (right; reflexivity).
  - intros [H | H]; [apply hier_follow_may_follow; exact H | injection H as -> ->; reflexivity].
Qed.

Notation ok_hier := (ok_by hier_follow).
Definition ends_file (w : list sid) (p : sid) : Prop := last w p = FileMeta \/ last w p = FileDiff.

Lemma HFileSec_path : forall w, HFileSec w -> forall p, hier_follow p File = true ->
  ok_hier p w = true /\ ends_file w p.
Proof.
  intros w [d [-> | ->]] p Hp; cbn [ok_by]; rewrite Hp; split; try reflexivity; unfold ends_file; cbn; tauto.
Qed.

Lemma HFiles_path : forall w, HFiles w -> forall p, hier_follow p File = true ->
  ok_hier p w = true /\ ends_file w p.
Proof.
  induction 1 as [w H | w ws H _ IH]; intros p Hp.
  - apply HFileSec_path; assumption.
  - destruct (HFileSec_path w H p Hp) as [H1 H2].
    assert (Hq : hier_follow (last w p) File = true) by (destruct H2 as [-> | ->]; reflexivity).
    destruct (IH _ Hq) as [H3 H4].
    split.
    + rewrite ok_by_app, H1, H3. reflexivity.
    + unfold ends_file. rewrite last_app2. exact H4.
Qed.

Lemma HChange_path : forall w, HChange w -> forall p, hier_follow p Change = true ->
  ok_hier p w = true /\ ends_file w p.
Proof.
  intros w [p m fs Hp Hm Hfs] q Hq.
  destruct Hp as [-> | ->], Hm as [-> | ->]; cbn [app ok_by]; rewrite Hq.
  - destruct (HFiles_path fs Hfs Change eq_refl) as [H1 H2]. split; [exact H1|].
    unfold ends_file in *. change (Change :: fs) with ([Change] ++ fs). rewrite last_app2. exact H2.
  - destruct (HFiles_path fs Hfs ChangeMeta eq_refl) as [H1 H2]. split; [rewrite H1; reflexivity|].
    unfold ends_file in *. change (Change :: ChangeMeta :: fs) with ([Change; ChangeMeta] ++ fs).
    rewrite last_app2. exact H2.
  - destruct (HFiles_path fs Hfs ChangePreamble eq_refl) as [H1 H2]. split; [rewrite H1; reflexivity|].
    unfold ends_file in *. change (Change :: ChangePreamble :: fs) with ([Change; ChangePreamble] ++ fs).
    rewrite last_app2. exact H2.
  - destruct (HFiles_path fs Hfs ChangeMeta eq_refl) as [H1 H2]. split; [rewrite H1; reflexivity|].
    unfold ends_file in *.
    change (Change :: ChangePreamble :: ChangeMeta :: fs) with ([Change; ChangePreamble; ChangeMeta] ++ fs).
    rewrite last_app2. exact H2.
Qed.

Lemma HChanges_path : forall w, HChanges w -> forall p, hier_follow p Change = true ->
  ok_hier p w = true /\ ends_file w p.
Proof.
  induction 1 as [w H | w ws H _ IH]; intros p Hp.
  - apply HChange_path; assumption.
  - destruct (HChange_path w H p Hp) as [H1 H2].
    assert (Hq : hier_follow (last w p) Change = true) by (destruct H2 as [-> | ->]; reflexivity).
    destruct (IH _ Hq) as [H3 H4].
    split.
    + rewrite ok_by_app, H1, H3. reflexivity.
    + unfold ends_file. rewrite last_app2. exact H4.
Qed.

Lemma HFile_hier_path : forall w, HFile w -> exists t, w = Main :: t /\ ok_hier Main t = true.
Proof.
  intros w [p m cs Hp Hm Hcs]. eexists. split; [reflexivity|].
  destruct Hp as [-> | ->], Hm as [-> | ->]; cbn [app ok_by].
  - apply (HChanges_path cs Hcs Main eq_refl).
  - rewrite (proj1 (HChanges_path cs Hcs MainMeta eq_refl)). reflexivity.
  - rewrite (proj1 (HChanges_path cs Hcs MainPreamble eq_refl)). reflexivity.
  - rewrite (proj1 (HChanges_path cs Hcs MainMeta eq_refl)). reflexivity.
Qed.

Lemma HFile_spec_path : forall w, HFile w -> spec_path w.
Proof.
  intros w H. destruct (HFile_hier_path w H) as (t & -> & Ht). split; [reflexivity|].
  eapply ok_by_mono; [exact hier_follow_may_follow | exact Ht].
Qed.

(* every word of the hierarchy starts with Main, contains it once, and all its adjacent pairs are in the state tree *)
Theorem hierarchy_sound : forall w, HFile w ->
  (exists t, w = Main :: t /\ ~ In Main t) /\
  (forall a b, Adjacent a b w -> may_follow a b = true).
Proof.
  intros w H. pose proof (HFile_spec_path w H) as Hp. split.
  - destruct (spec_path_main_once w Hp) as [-> | Ht]; [inversion H | exact Ht].
  - apply spec_path_adjacent. exact Hp.
Qed.

(* the pair (..meta, .change) of the state tree is NOT an adjacency of the hierarchy *)
Theorem hierarchy_sound_strict : forall w, HFile w -> forall a b, Adjacent a b w -> hier_follow a b = true.
Proof.
  intros w H a b Hadj. destruct (HFile_hier_path w H) as (t & -> & Ht). eapply ok_by_adjacent; eauto.
Qed.

(* ---- completeness: every pair of the state tree except (..meta, .change) is an adjacency of the hierarchy ---- *)
(* words of the hierarchy, generated from a shape: file = has a diff?; change = preamble?, meta?, files;
   whole = preamble?, meta?, changes *)
Definition opt_w (b : bool) (s : sid) : list sid := if b then [s] else [].
Definition file_w (d : bool) : list sid := File :: FileMeta :: opt_w d FileDiff.
Definition change_w (c : bool * bool * list bool) : list sid :=
  let '(p, m, fs) := c in Change :: opt_w p ChangePreamble ++ opt_w m ChangeMeta ++ concat (map file_w fs).
Definition whole_w (p m : bool) (cs : list (bool * bool * list bool)) : list sid :=
  Main :: opt_w p MainPreamble ++ opt_w m MainMeta ++ concat (map change_w cs).

Definition shape_ok (cs : list (bool * bool * list bool)) : bool :=
  match cs with [] => false | _ => true end &&
  forallb (fun c => match snd c with [] => false | _ => true end) cs.

Lemma optional_opt_w : forall b s, optional s (opt_w b s).
Proof. intros [|] s; [right | left]; reflexivity. Qed.

Lemma HFiles_gen : forall fs, fs <> [] -> HFiles (concat (map file_w fs)).
Proof.
  induction fs as [|d fs IH]; intro Hne; [contradiction Hne; reflexivity|].
  cbn [map concat]. destruct fs as [|d' fs].
  - cbn [map concat]. rewrite app_nil_r. apply HFiles_one. apply HFileSec_intro. apply optional_opt_w.
  - apply HFiles_more; [apply HFileSec_intro; apply optional_opt_w | apply IH; discriminate].
Qed.

Lemma HChange_gen : forall p m fs, fs <> [] -> HChange (change_w (p, m, fs)).
Proof.
  intros p m fs Hne. unfold change_w.
  apply HChange_intro; [apply optional_opt_w | apply optional_opt_w | apply HFiles_gen; exact Hne].
Qed.

Lemma HChanges_gen : forall cs, shape_ok cs = true -> HChanges (concat (map change_w cs)).
Proof.
  induction cs as [|[[p m] fs] cs IH]; intro H; [discriminate H|].
  unfold shape_ok in H. cbn [forallb snd andb] in H.
  apply andb_true_iff in H. destruct H as [Hfs Hcs].
  assert (Hne : fs <> []) by (destruct fs; [discriminate Hfs | discriminate]).
  cbn [map concat]. destruct cs as [|c cs].
  - cbn [map concat]. rewrite app_nil_r. apply HChanges_one. apply HChange_gen. exact Hne.
  - apply HChanges_more; [apply HChange_gen; exact Hne | apply IH; unfold shape_ok; exact Hcs].
Qed.

Lemma HFile_gen : forall p m cs, shape_ok cs = true -> HFile (whole_w p m cs).
Proof.
  intros p m cs H. unfold whole_w.
  apply HFile_intro; [apply optional_opt_w | apply optional_opt_w | apply HChanges_gen; exact H].
Qed.

Fixpoint adjb (a b : sid) (w : list sid) : bool :=
  match w with
  | x :: ((y :: _) as t) => (sid_eqb a x && sid_eqb b y) || adjb a b t
  | _ => false
  end.

Lemma adjb_sound : forall a b w, adjb a b w = true -> Adjacent a b w.
Proof.
  induction w as [|x w IH]; intro H; [discriminate H|].
  destruct w as [|y w]; [discriminate H|].
  cbn [adjb] in H. apply orb_true_iff in H. destruct H as [H | H].
  - apply andb_true_iff in H. destruct H as [H1 H2].
    apply sid_eqb_eq in H1. apply sid_eqb_eq in H2. subst. exists [], w. reflexivity.
  - apply Adjacent_cons. apply IH. exact H.
Qed.

(* the explicit witness words (as shapes): 18 of them, one per pair *)
Definition one_file : list bool := [false].
Definition witness (a b : sid) : bool * bool * list (bool * bool * list bool) :=
  match a, b with
  (* diffx .preamble .change ..file ...meta *)
  | Main, MainPreamble => (true, false, [(false, false, one_file)])
  (* diffx .meta .change ..file ...meta *)
  | Main, MainMeta => (false, true, [(false, false, one_file)])
  (* diffx .change ..file ...meta *)
  | Main, Change => (false, false, [(false, false, one_file)])
  (* diffx .preamble .meta .change ..file ...meta *)
  | MainPreamble, MainMeta => (true, true, [(false, false, one_file)])
  | MainPreamble, Change => (true, false, [(false, false, one_file)])
  | MainMeta, Change => (false, true, [(false, false, one_file)])
  (* diffx .change ..preamble ..file ...meta *)
  | Change, ChangePreamble => (false, false, [(true, false, one_file)])
  (* diffx .change ..meta ..file ...meta *)
  | Change, ChangeMeta => (false, false, [(false, true, one_file)])
  | Change, File => (false, false, [(false, false, one_file)])
  | ChangePreamble, File => (false, false, [(true, false, one_file)])
  (* diffx .change ..preamble ..meta ..file ...meta *)
  | ChangePreamble, ChangeMeta => (false, false, [(true, true, one_file)])
  | ChangeMeta, File => (false, false, [(false, true, one_file)])
  | File, FileMeta => (false, false, [(false, false, one_file)])
  (* diffx .change ..file ...meta ...diff *)
  | FileMeta, FileDiff => (false, false, [(false, false, [true])])
  (* diffx .change ..file ...meta ..file ...meta *)
  | FileMeta, File => (false, false, [(false, false, [false; false])])
  (* diffx .change ..file ...meta .change ..file ...meta *)
  | FileMeta, Change => (false, false, [(false, false, one_file); (false, false, one_file)])
  (* diffx .change ..file ...meta ...diff ..file ...meta *)
  | FileDiff, File => (false, false, [(false, false, [true; false])])
  (* diffx .change ..file ...meta ...diff .change ..file ...meta *)
  | FileDiff, Change => (false, false, [(false, false, [true]); (false, false, one_file)])
  | _, _ => (false, false, [])
  end.
Definition witness_word (a b : sid) : list sid :=
  let '(p, m, cs) := witness a b in whole_w p m cs.

Theorem hierarchy_complete : forall a b, may_follow a b = true -> (a, b) <> (ChangeMeta, Change) ->
  exists w, HFile w /\ Adjacent a b w.
Proof.
  intros a b H Hne. exists (witness_word a b).
  destruct a, b; try discriminate H; try (contradiction Hne; reflexivity);
    (split; [apply HFile_gen; reflexivity | apply adjb_sound; reflexivity]).
Qed.


(* hence the adjacency relation of the hierarchy is exactly the state tree minus (..meta, .change) *)
Theorem hierarchy_exact : forall a b,
  (exists w, HFile w /\ Adjacent a b w) <-> (may_follow a b = true /\ (a, b) <> (ChangeMeta, Change)).
Proof.
  intros a b. split.
  - intros (w & Hw & Hadj). pose proof (hierarchy_sound_strict w Hw a b Hadj) as H. split.
    + apply hier_follow_may_follow. exact H.
    + intro E. injection E as -> ->. discriminate H.
  - intros [H Hne]. apply hierarchy_complete; assumption.
Qed.
