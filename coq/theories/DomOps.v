(* DomOps.v — operation sequences over several live trees (C18, C19): the value-level model has no sharing, so any
   aliasing in the implementation shows up as a snapshot that differs from this model's. *)
From Coq Require Import List Arith NArith ZArith Bool Strings.Byte.
From Coq Require Strings.String.
From DX Require Import Bytes Res Json Header Reader Writer Dom.
Import ListNotations.
Import String.StringSyntax.
Local Open Scope string_scope.
Local Open Scope list_scope.

Inductive path := PMain | PChange (ci : nat) | PFile (ci fi : nat).
Inductive secsel := SSelf | SPre | SMeta | SDiff.     (* which section object under the path *)

Inductive op :=
| ONew (attrs : list (bytes * wv))
| OAddChange (i : nat) (attrs : list (bytes * wv))
| OAddFile (i ci : nat) (attrs : list (bytes * wv))
| OSet (i : nat) (p : path) (name : bytes) (v : wv)
| OMetaPut (i : nat) (p : path) (key : text) (v : json)      (* obj.meta[key] = v *)
| OOptPut (i : nat) (p : path) (s : secsel) (key : bytes) (v : wv)   (* section.options[key] = v *)
| OToBytes (i : nat)
| OEq (i j : nat)
| OParse (data : bytes)
| OStats (i : nat).

Inductive outcome :=
| RUnit | RBytes (b : bytes) | RBool (b : bool) | RExc (e : exn) | RBadIndex.

Fixpoint upd_nth {A} (n : nat) (f : A -> res A) (l : list A) : option (res (list A)) :=
  match n, l with
  | O, x :: t => Some (do y <- f x; Ok (y :: t))
  | S k, x :: t => match upd_nth k f t with
                   | Some r => Some (do t' <- r; Ok (x :: t'))
                   | None => None
                   end
  | _, [] => None
  end.

Definition on_change (ci : nat) (f : dchange -> res dchange) (t : dtree) : option (res dtree) :=
  match upd_nth ci f (d_changes t) with
  | Some r => Some (do cs <- r; Ok {| d_opts := d_opts t; d_pre := d_pre t; d_meta := d_meta t; d_changes := cs |})
  | None => None
  end.
Definition on_file (ci fi : nat) (f : dfile -> res dfile) (t : dtree) : option (res dtree) :=
  on_change ci (fun c => match upd_nth fi f (c_files c) with
                         | Some r => do fs <- r; Ok {| c_opts := c_opts c; c_pre := c_pre c; c_meta := c_meta c; c_files := fs |}
                         | None => Err EIndex
                         end) t.

Definition set_at (p : path) (name : bytes) (v : wv) (t : dtree) : option (res dtree) :=
  match p with
  | PMain => Some (set_tree_attr t name v)
  | PChange ci => on_change ci (fun c => set_change_attr c name v) t
  | PFile ci fi => on_file ci fi (fun f => set_file_attr f name v) t
  end.

Definition mput (key : text) (v : json) (m : msec) : msec :=
  {| m_opts := m_opts m; m_content := assoc_set teq key v (m_content m) |}.
Definition meta_put_at (p : path) (key : text) (v : json) (t : dtree) : option (res dtree) :=
  match p with
  | PMain => Some (Ok {| d_opts := d_opts t; d_pre := d_pre t; d_meta := mput key v (d_meta t); d_changes := d_changes t |})
  | PChange ci => on_change ci (fun c => Ok {| c_opts := c_opts c; c_pre := c_pre c; c_meta := mput key v (c_meta c); c_files := c_files c |}) t
  | PFile ci fi => on_file ci fi (fun f => Ok {| f_opts := f_opts f; f_meta := mput key v (f_meta f); f_diff := f_diff f |}) t
  end.

Definition oput (k : bytes) (v : wv) (o : dopts) : dopts := assoc_set beq k v o.
Definition opt_put_at (p : path) (s : secsel) (k : bytes) (v : wv) (t : dtree) : option (res dtree) :=
  let pp (x : psec) := {| p_opts := oput k v (p_opts x); p_content := p_content x |} in
  let mm (x : msec) := {| m_opts := oput k v (m_opts x); m_content := m_content x |} in
  let dd (x : dsec) := {| x_opts := oput k v (x_opts x); x_content := x_content x |} in
  match p, s with
  | PMain, SSelf => Some (Ok {| d_opts := oput k v (d_opts t); d_pre := d_pre t; d_meta := d_meta t; d_changes := d_changes t |})
  | PMain, SPre => Some (Ok {| d_opts := d_opts t; d_pre := pp (d_pre t); d_meta := d_meta t; d_changes := d_changes t |})
  | PMain, SMeta => Some (Ok {| d_opts := d_opts t; d_pre := d_pre t; d_meta := mm (d_meta t); d_changes := d_changes t |})
  | PMain, SDiff => None
  | PChange ci, SSelf => on_change ci (fun c => Ok {| c_opts := oput k v (c_opts c); c_pre := c_pre c; c_meta := c_meta c; c_files := c_files c |}) t
  | PChange ci, SPre => on_change ci (fun c => Ok {| c_opts := c_opts c; c_pre := pp (c_pre c); c_meta := c_meta c; c_files := c_files c |}) t
  | PChange ci, SMeta => on_change ci (fun c => Ok {| c_opts := c_opts c; c_pre := c_pre c; c_meta := mm (c_meta c); c_files := c_files c |}) t
  | PChange _, SDiff => None
  | PFile ci fi, SSelf => on_file ci fi (fun f => Ok {| f_opts := oput k v (f_opts f); f_meta := f_meta f; f_diff := f_diff f |}) t
  | PFile ci fi, SMeta => on_file ci fi (fun f => Ok {| f_opts := f_opts f; f_meta := mm (f_meta f); f_diff := f_diff f |}) t
  | PFile ci fi, SDiff => on_file ci fi (fun f => Ok {| f_opts := f_opts f; f_meta := f_meta f; f_diff := dd (f_diff f) |}) t
  | PFile _ _, SPre => None
  end.

(* apply f to tree i; an Err leaves every tree as it was (the theorem C19_set_err is about set_*_attr themselves) *)
Definition with_tree (i : nat) (f : dtree -> option (res dtree)) (ts : list dtree) : list dtree * outcome :=
  match nth_error ts i with
  | None => (ts, RBadIndex)
  | Some t =>
      match f t with
      | None => (ts, RBadIndex)
      | Some (Err EIndex) => (ts, RBadIndex)      (* IndexError from changes[ci] / files[fi] *)
      | Some (Err e) => (ts, RExc e)
      | Some (Ok t') =>
          (match upd_nth i (fun _ => Ok t') ts with Some (Ok ts') => ts' | _ => ts end, RUnit)
      end
  end.

Definition run_op (orc : oracle) (ts : list dtree) (o : op) : list dtree * outcome :=
  match o with
  | ONew attrs =>
      match unknown_to_lib (apply_attrs set_tree_attr new_tree attrs) with
      | Ok t => (ts ++ [t], RUnit)
      | Err e => (ts, RExc e)
      end
  | OAddChange i attrs =>
      with_tree i (fun t => Some (do c <- apply_attrs set_change_attr new_change attrs;
                                  Ok {| d_opts := d_opts t; d_pre := d_pre t; d_meta := d_meta t; d_changes := d_changes t ++ [c] |})) ts
  | OAddFile i ci attrs =>
      with_tree i (fun t => on_change ci (fun c => do f <- apply_attrs set_file_attr new_file attrs;
                                                    Ok {| c_opts := c_opts c; c_pre := c_pre c; c_meta := c_meta c; c_files := c_files c ++ [f] |}) t) ts
  | OSet i p name v => with_tree i (set_at p name v) ts
  | OMetaPut i p key v => with_tree i (meta_put_at p key v) ts
  | OOptPut i p s k v => with_tree i (opt_put_at p s k v) ts
  | OToBytes i =>
      match nth_error ts i with
      | None => (ts, RBadIndex)
      | Some t => (ts, match dom_write t with Ok b => RBytes b | Err e => RExc e end)
      end
  | OEq i j =>
      match nth_error ts i, nth_error ts j with
      | Some a, Some b => (ts, RBool (tree_eq a b))
      | _, _ => (ts, RBadIndex)
      end
  | OParse data =>
      match dom_read orc data with
      | Ok t => (ts ++ [t], RUnit)
      | Err e => (ts, RExc e)
      end
  | OStats i => with_tree i (fun t => Some (tree_stats t)) ts
  end.

Fixpoint run_ops (orc : oracle) (ts : list dtree) (ops : list op) : list (outcome * list dtree) :=
  match ops with
  | [] => []
  | o :: r => let (ts', out) := run_op orc ts o in (out, ts') :: run_ops orc ts' r
  end.
