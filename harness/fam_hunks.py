"""Unified-diff hunk parser families (C14)."""
import itertools

import lib
from lib import H, L, Lst, Bool
from family import Family, hx, unhx


def side_sx(d):
    def o(x):
        return 'none' if x is None else '(some %d)' % x
    return '(%s %s %d %d %d)' % (o(d['first_changed_line']), o(d['last_changed_line']), d['num_lines'],
                                 d['num_lines_changed'], d['start_line'])


def result_sx(r):
    hs = []
    for h in r['hunks']:
        ctx = 'none' if h['context'] is None else '(some %s)' % H(h['context'])
        hs.append('(%s %s %s %d %d)' % (ctx, side_sx(h['orig']), side_sx(h['modified']), h['lines_of_context_pre'],
                                        h['lines_of_context_post']))
    return '(ok (%s) %d %d %d)' % (' '.join(hs), r['num_processed_lines'], r['total_deletes'], r['total_inserts'])


def run_impl(lines, ig):
    from pydiffx.utils.unified_diffs import get_unified_diff_hunks
    from pydiffx.errors import MalformedHunkError
    try:
        r = get_unified_diff_hunks(lines, ignore_garbage=ig)
        return result_sx(r), ('ok', r)
    except MalformedHunkError as e:
        eof = str(e).startswith('Unexpected end of file')
        return '(malformed %s %d %s)' % (H(e.line), e.line_num, Bool(eof)), ('malformed', e.line, e.line_num, str(e))
    except Exception as e:
        return '(exc)', ('exc', type(e).__name__)


# ---- hunk ASTs with known geometry (independent of the parser) ----
PAYLOADS = [b'100%', b'%s %d', b'%(line)r', b'', b'x', b'-- a/file', b'++ b/file', b'@@ -1 +1 @@', b' indented', b'\\ No newline at end of file', b'\r',
            b'tab\there', b'\xff\x00', b'@@']


def gen_hunk(rng):
    """Returns dict(os, ms (1-based header starts), body [(kind, payload)], omit_on, omit_mn, ctx)."""
    n = rng.randint(0, 8)
    body = []
    for _ in range(n):
        body.append((rng.choice('   -+-+'), rng.choice(PAYLOADS)))
    on = sum(1 for k, _ in body if k in ' -')
    mn = sum(1 for k, _ in body if k in ' +')
    # the body must end at the first prefix reaching both counts: true iff the last line is counted on a side that
    # was not yet complete; trailing lines that only exceed a completed side are fine for the parser as long as the
    # other side is still open. Simplest well-formedness: keep bodies as generated; a body is "tight" when no proper
    # prefix already reaches both counts
    while body:
        k = body[-1][0]
        pon = sum(1 for kk, _ in body[:-1] if kk in ' -')
        pmn = sum(1 for kk, _ in body[:-1] if kk in ' +')
        if pon >= on and pmn >= mn:
            body.pop()
            on = sum(1 for kk, _ in body if kk in ' -')
            mn = sum(1 for kk, _ in body if kk in ' +')
        else:
            break
    return dict(os=rng.choice([0, 1, 2, 10, 999999999999]), ms=rng.choice([0, 1, 3, 12, 5]), body=body, on=on, mn=mn,
                omit_on=(on == 1 and rng.random() < 0.5), omit_mn=(mn == 1 and rng.random() < 0.5),
                ctx=rng.choice([None, None, b'def f():', b'', b' two  spaces', b'@@ nested @@', b'printf("%d", x);', b'%(line_num)d']),
                markers=[(rng.randint(0, max(0, len(body) - 1)), rng.choice([b'\\ No newline at end of file',
                                                                             b'\t\\ No newline at end of file \t',
                                                                             b'\\ No newline at end of file\r']))
                         for _ in range(rng.choice([0, 0, 1, 2])) if body])


def render_hunk(h):
    """Lines of a hunk; markers are inserted after body index i (never after the last body line)."""
    a = '%d' % h['os'] if h['omit_on'] else '%d,%d' % (h['os'], h['on'])
    b = '%d' % h['ms'] if h['omit_mn'] else '%d,%d' % (h['ms'], h['mn'])
    hdr = ('@@ -%s +%s @@' % (a, b)).encode()
    if h['ctx'] is not None:
        hdr += b' ' + h['ctx']
    lines = [hdr]
    for i, (k, p) in enumerate(h['body']):
        lines.append(k.encode() + p)
        if i < len(h['body']) - 1:
            for (mi, m) in h['markers']:
                if mi == i:
                    lines.append(m)
    return lines


def spec_geometry(h):
    """Hunk geometry from the AST alone."""
    def side(start1, kinds, num):
        start = start1 - 1
        first = last = None
        changed = 0
        i = 0
        for k in kinds:
            if k == 'chg':
                if first is None:
                    first = start + i
                last = start + i
                changed += 1
                i += 1
            elif k == 'ctx':
                i += 1
        return dict(first_changed_line=first, last_changed_line=last, num_lines=num, num_lines_changed=changed,
                    start_line=start)
    ok = [('chg' if k == '-' else 'ctx' if k == ' ' else None) for k, _ in h['body']]
    mk = [('chg' if k == '+' else 'ctx' if k == ' ' else None) for k, _ in h['body']]
    o = side(h['os'], ok, h['on'])
    m = side(h['ms'], mk, h['mn'])
    pres, posts = [], []
    for d in (o, m):
        if d['first_changed_line'] is not None:
            pres.append(d['first_changed_line'] - d['start_line'])
            posts.append(d['num_lines'] - (d['last_changed_line'] - d['start_line'] + 1))
    return dict(context=h['ctx'], orig=o, modified=m, lines_of_context_pre=min(pres or [0]),
                lines_of_context_post=min(posts or [0]))


SEPS = [b'-- ', b'-- \r', b'--', b'-- x', b'---', b'++ ', b'== ', b'-- \n', b'', b'diff --git a/x b/x', b'--- a/x', b'+++ b/x', b'index 123..456', b'@@ not a header', b'@@ -1 +1', b'garbage',
        b'\\ No newline at end of file', b' context-like', b'-minus', b'+plus', b'@@ -a,1 +1 @@', b'@@ -1,1 +1,1 @@x']

# lines shaped like a hunk header with every other delimiter (Subversion property hunks use ##, combined diffs @@@,
# context diffs *** / ---): only "@@ ... @@" starts a hunk
SEPS += [d + b' -1,1 +1,1 ' + d + t for ch in b'!"#$%&\'()*+,-./:;<=>?[\\]^_`{|}~' for d in (bytes([ch]) * 2,) for t in (b'', b' text')] + \
    [b'@@@ -1 -1 +1 @@@', b'@ -1 +1 @', b'@@@@ -1 +1 @@@@', b'## -0,0 +1 ##', b'@@ -1 +1 ##', b'## -1 +1 @@', b'Property changes on: x']

SMALL = [b'@@ -1 +1 @@', b'@@ -1,2 +1,0 @@', b'@@ -0,0 +1 @@ ctx', b'-a', b'+b', b' c', b'\\ No newline at end of file',
         b'garbage', b'@@ bad']


class HunksFam(Family):
    name = 'hunks'
    rule = ('hunk sequences rendered from generated ASTs with known geometry (start lines incl. 0 and huge, counts incl. '
            '0 and omitted 1, payloads that look like file/hunk headers, markers inside hunks, separators between '
            'hunks, incl. header look-alikes under every other delimiter pair), all single-point damages (truncate, inject a foreign line, inject a header), both garbage modes; '
            'plus every line list up to a bounded length over a 9-line alphabet; non-trivial = at least one hunk '
            'header; distinct by (lines, mode)')

    def cases(self, tier, rng, prop_id):
        maxlen = 4 if tier == 'quick' else 5
        for n in range(0, maxlen + 1):
            for tup in itertools.product(SMALL, repeat=n):
                for ig in (False, True):
                    yield dict(kind='exh%d' % n, lines=[hx(x) for x in tup], ig=ig)
        # size boundaries: hunks with hundreds / thousands of body lines, very long lines, many hunks
        for n in (255, 256, 257, 1023, 1024, 1025, 4097):
            body = [(' +-'[j % 3], b'l%d' % j) for j in range(n)]
            on = sum(1 for k, _ in body if k in ' -')
            mn = sum(1 for k, _ in body if k in ' +')
            h = dict(os=7, ms=9, body=body, on=on, mn=mn, omit_on=False, omit_mn=False, ctx=None, markers=[])
            for ig in (False, True):
                yield dict(kind='ast', lines=[hx(x) for x in render_hunk(h)], ig=ig, ast=[self._ast_json(h)], seps=[[], []])
        longline = dict(os=1, ms=1, body=[('-', b'x' * 8192), ('+', b'y' * 65537), (' ', b'')], on=2, mn=2, omit_on=False,
                        omit_mn=False, ctx=b'c' * 9000, markers=[])
        yield dict(kind='ast', lines=[hx(x) for x in render_hunk(longline)], ig=False, ast=[self._ast_json(longline)], seps=[[], []])
        many = [dict(os=j + 1, ms=j + 1, body=[('-', b'a'), ('+', b'b')], on=1, mn=1, omit_on=(j % 2 == 0), omit_mn=False, ctx=None,
                     markers=[]) for j in range(300)]
        ml = []
        for h in many:
            ml += render_hunk(h)
        yield dict(kind='ast', lines=[hx(x) for x in ml], ig=True, ast=[self._ast_json(h) for h in many], seps=[[] for _ in range(301)])
        for i in range(800 if tier == 'quick' else 20000):
            hs = [gen_hunk(rng) for _ in range(rng.randint(1, 4))]
            seps = [[rng.choice(SEPS) for _ in range(rng.choice([0, 0, 1, 2]))] for _ in range(len(hs) + 1)]
            lines = list(seps[0])
            for h, s in zip(hs, seps[1:]):
                lines += render_hunk(h) + s
            has_seps = any(seps)
            for ig in (False, True):
                yield dict(kind='ast', lines=[hx(x) for x in lines], ig=ig, ast=[self._ast_json(h) for h in hs],
                           seps=[[hx(x) for x in s] for s in seps])
            # single-point damages
            if lines:
                p = rng.randrange(len(lines))
                dmg = rng.choice(['truncate', 'foreign', 'header'])
                if dmg == 'truncate':
                    dl = lines[:p]
                elif dmg == 'foreign':
                    dl = lines[:p] + [rng.choice([b'garbage', b'', b'\ttab', b'diff --git', b'\\ no newline', b'100% garbage', b'%s'])] + lines[p:]
                else:
                    dl = lines[:p] + [rng.choice([b'@@ -5,1 +5,1 @@', b'@@ -5,1 +5,1 @@ printf("%d\\n", x);', b'@@ -1 +1 @@ 100%'])] + lines[p:]
                yield dict(kind='damage-' + dmg, lines=[hx(x) for x in dl], ig=rng.random() < 0.5)
            # a body line of some hunk REPLACED by a line that is neither context, insert, delete nor the marker
            # (consecutive hunks, no separators): the parser must raise MalformedHunkError naming exactly that line
            cands = [(j, i) for j, h in enumerate(hs) for i in range(len(h['body']))]
            if cands:
                j, i = rng.choice(cands)
                foreign = rng.choice([b'100% garbage', b'%s', b'%(line)r', b'%d%%', b'printf("%d\\n", x);', b'{0}', b'{line}',
                                      b'', b'\t', b'\r', b'\t \t', b'garbage', b'diff --git a/x b/x', b'\\ no newline',
                                      b'\\No newline at end of file', b'\x0b', b'\xa0x', b'@ -1 +1 @@', b'*** 1,2 ***',
                                      # look-alikes of the three line prefixes in UTF-8: other spaces, other plus / minus signs
                                      b'\xc2\xa0ctx', b'\xe2\x80\x83ctx', b'\xe3\x80\x80ctx', b'\xe2\x80\x8bctx', b'\xef\xbc\x8bplus', b'\xe2\x88\x92minus',
                                      b'\xe2\x80\x93minus', b'\xef\xbc\x8dminus', b'\xef\xbb\xbf ctx', b'\xef\xbb\xbf+plus'])
                dl = []
                at = None
                for jj, h in enumerate(hs):
                    rl = render_hunk(h)
                    if jj == j:
                        # position of body line i inside the rendered hunk (markers may sit in between)
                        seen = -1
                        for q in range(1, len(rl)):
                            k0 = rl[q][:1]
                            is_body = (k0 in (b' ', b'-', b'+'))
                            if is_body:
                                seen += 1
                                if seen == i:
                                    at = len(dl) + q
                                    rl[q] = foreign
                                    break
                    dl += rl
                    if jj == j:
                        break
                if at is not None:
                    for ig in (False, True):
                        yield dict(kind='damage-replace', lines=[hx(x) for x in dl], ig=ig, at=at, foreign=hx(foreign))
            # the sign of one changed line flipped (consecutive hunks, no separators): one side of that hunk now ends
            # early, so the hunk is interrupted by the next header, or by the end of the input
            cands = [(j, i) for j, h in enumerate(hs) for i, (k, _) in enumerate(h['body']) if k in '+-']
            if cands:
                j, i = rng.choice(cands)
                dl = []
                want = None
                for jj, h in enumerate(hs):
                    if jj == j:
                        h = dict(h)
                        h['body'] = list(h['body'])
                        k0, p0 = h['body'][i]
                        h['body'][i] = ('+' if k0 == '-' else '-', p0)
                    if jj == j + 1:
                        want = len(dl) + 1          # the header of the next hunk interrupts the damaged one
                    dl += render_hunk(h)
                if want is None:
                    want = len(dl)                  # end of input: the last line is named
                for ig in (False, True):
                    yield dict(kind='damage-flip', lines=[hx(x) for x in dl], ig=ig, want=want)

    # (size boundaries are generated in cases(): see 'ast-big')
    @staticmethod
    def _ast_json(h):
        d = dict(h)
        d['body'] = [[k, hx(p)] for k, p in h['body']]
        d['ctx'] = None if h['ctx'] is None else hx(h['ctx'])
        d['markers'] = [[i, hx(m)] for i, m in h['markers']]
        return d

    @staticmethod
    def _ast_load(d):
        h = dict(d)
        h['body'] = [(k, unhx(p)) for k, p in d['body']]
        h['ctx'] = None if d['ctx'] is None else unhx(d['ctx'])
        h['markers'] = [(i, unhx(m)) for i, m in d['markers']]
        return h

    def _impl(self, c):
        if '_impl' not in c:
            c['_impl'] = run_impl([unhx(x) for x in c['lines']], c['ig'])
        return c['_impl']

    def model_line(self, c):
        return L('hunks', Lst(['#' + x for x in c['lines']]), Bool(c['ig']))

    def impl_obs(self, c):
        return self._impl(c)[0]

    def normalize_model(self, line):
        return line

    def nontrivial(self, c):
        return any(unhx(x).startswith(b'@@ -') for x in c['lines'])

    def bucket(self, c):
        return c['kind']

    def oracle(self, c, obs):
        """C14 stated on the implementation: a reference parse derived from the hunk AST / a direct scan."""
        obs_s, r = self._impl(c)
        if r[0] == 'exc':
            return [('C14', 'other-exception', 'get_unified_diff_hunks raised %s' % r[1])]
        lines = [unhx(x) for x in c['lines']]
        out = []
        if r[0] == 'malformed':
            if not (1 <= r[2] <= len(lines)) or lines[r[2] - 1] != r[1]:
                out.append(('C14', 'error-position', 'MalformedHunkError names line %d %r which is not that line' % (r[2], r[1])))
        if c['kind'] == 'damage-replace':
            want = ('malformed', unhx(c['foreign']), c['at'] + 1)
            if tuple(r[:3]) != want:
                out.append(('C14', 'damaged-hunk-not-rejected', 'line %d of a hunk replaced by %r: expected MalformedHunkError '
                            'naming it, got %r' % (c['at'] + 1, unhx(c['foreign']), r[:3] if r[0] != 'ok' else 'a normal result')))
        if c['kind'] == 'damage-flip':
            if r[0] != 'malformed' or r[2] != c['want']:
                out.append(('C14', 'short-hunk-not-rejected', 'a hunk with one changed line of the wrong sign (one side ends '
                            'early): expected MalformedHunkError at line %d, got %r' % (c['want'], r[:3] if r[0] != 'ok' else 'a normal result')))
        if c['kind'] == 'ast':
            hs = [self._ast_load(d) for d in c['ast']]
            seps = [[unhx(x) for x in s] for s in c['seps']]
            # a separator that is itself a matching hunk header is not a separator; none of SEPS is
            if c['ig'] or not any(seps[:-1]) and not seps[0]:
                want_h = [spec_geometry(h) for h in hs]
                nlines = len(lines)
                if not c['ig']:
                    nlines = len(lines) - len(seps[-1])
                if r[0] != 'ok':
                    out.append(('C14', 'wellformed-rejected', 'well-formed hunks raised %r' % (r[1:3],)))
                else:
                    res = r[1]
                    if res['hunks'] != want_h:
                        out.append(('C14', 'geometry', 'hunk geometry %r differs from the AST geometry %r' % (res['hunks'], want_h)))
                    ins = sum(1 for h in hs for k, _ in h['body'] if k == '+')
                    dels = sum(1 for h in hs for k, _ in h['body'] if k == '-')
                    if (res['total_inserts'], res['total_deletes']) != (ins, dels):
                        out.append(('C14', 'totals', 'totals %r, expected %r' % ((res['total_inserts'], res['total_deletes']), (ins, dels))))
                    if res['num_processed_lines'] != nlines:
                        out.append(('C14', 'processed', 'num_processed_lines %d, expected %d' % (res['num_processed_lines'], nlines)))
        return out
