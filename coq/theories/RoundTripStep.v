(* RoundTripStep.v — the per-call step of the writer/reader simulation for the content calls
   (write_diff, write_preamble, write_meta), and the combined step lemma [sim_step] (C01, whole sequences). *)
From Coq Require Import List Arith NArith ZArith Bool Strings.Byte Lia Sorting.Permutation.
From Coq Require Strings.String.
From DX Require Import Bytes Res Codec Text Sections Header Stream Json Reader Writer.
From DX Require HeaderFacts TextFacts StreamFacts SectionsFacts ReaderSpecFacts WriterFacts WriterCanonFacts Encodings.
From DX Require Import RoundTripBase RoundTripSim.
From DX Require Import RoundTripCodec RoundTripContent RoundTripGuess RoundTripAll.
From DXGen Require GenSections GenText GenCodecs.
Import ListNotations.
Import String.StringSyntax.
Local Open Scope string_scope.
Local Open Scope list_scope.
Import WriterCanonFacts.

(* ------------------------------------------------------------------------------------------------ *)
(* 1. the reader's line counter: lines of the content, split on the section's encoded newline          *)

Definition enc_bytes (v : wv) : option bytes := match v with WStr t => Some (map n_byte t) | _ => None end.

Definition nlines_of (data : bytes) (le_out : wv) (enc : option bytes) : nat :=
  match le_out with
  | WStr l => match get_newline_for_type (map n_byte l) enc with
              | Ok nlb => match split_lines data nlb true with Ok ls => length ls | Err _ => 0 end
              | Err _ => 0
              end
  | _ => 0
  end.

(* text sections: the lines of the encoded final text (before indentation) in the effective encoding *)
Definition text_nlines (s : wstate) (t : text) (enc le le_out : wv) : nat :=
  match enc_bytes (Encodings.w_content_encoding enc true (hd WNone (w_stack s))) with
  | Some eb => match py_encode (final_text (snd (resolve_le le t)) t) eb with
               | Ok y => nlines_of y le_out (Some eb)
               | Err _ => 0
               end
  | None => 0
  end.

Definition call_nlines (s : wstate) (c : call) : nat :=
  let le_out := snd (call_prepared s c) in
  match c with
  | WritePreamble (WStr t) enc _ le _ => text_nlines s t enc le le_out
  | WriteMeta (WDict j) enc _ =>
      match json_dump j with
      | Ok d => if meta_enc_b s c then text_nlines s (ascii_text d) enc WNone le_out
                else nlines_of (fst (call_prepared s c)) le_out None   (* no encoding in force: the JSON bytes *)
      | Err _ => 0
      end
  | WriteDiff _ _ enc _ => nlines_of (fst (call_prepared s c)) le_out (enc_bytes enc)
  | _ => 0
  end.

(* ------------------------------------------------------------------------------------------------ *)
(* 2. the json.loads oracle and the newline guess of metadata sections                                 *)

(* loads (dumps j ++ "\n") = j, the assumption recorded in DESIGN *)
Definition oracle_ok_call (orc : oracle) (c : call) : Prop :=
  match c with
  | WriteMeta (WDict j) _ _ =>
      forall d, json_dump j = Ok d ->
        assoc_get beq (oracle_key_text (ascii_text d ++ [10%N])) orc = Some (LoadsOk j)
  | _ => True
  end.

(* ... and, where write_meta hands the JSON on as BYTES (no encoding in force, [meta_enc_b] false), json.loads is
   asked about bytes: loads (dumps j ++ b"\n") = j *)
Definition meta_bytes_oracle (orc : oracle) (c : call) : Prop :=
  match c with
  | WriteMeta (WDict j) _ _ =>
      forall d, json_dump j = Ok d -> assoc_get beq (oracle_key_bytes (d ++ [x0a])) orc = Some (LoadsOk j)
  | _ => True
  end.
Definition meta_oracle_at (orc : oracle) (s : wstate) (c : call) : Prop :=
  meta_enc_b s c = true \/ meta_bytes_oracle orc c.

Definition aligned_canon (canon : bytes) : Prop := In canon [B "ascii"; B "iso8859-1"; B "utf-8"; B "utf-8-sig"].
Definition aligned_b (eb : bytes) : bool :=
  match lookup_codec eb with
  | LOk canon _ => mem beq canon [B "ascii"; B "iso8859-1"; B "utf-8"; B "utf-8-sig"]
  | _ => false
  end.

(* metadata sections carry no line_endings option: the reader guesses the newline from the bytes.  For the
   codecs whose LF is one byte (ascii, latin-1, utf-8, utf-8-sig) the guess is always right; for the UTF-16/32
   family it is a condition on the bytes written, decidable by running the model: *)
Definition meta_guess_b (s : wstate) (c : call) : bool :=
  match c with
  | WriteMeta (WDict j) enc _ =>
      match enc_bytes (Encodings.w_content_encoding enc true (hd WNone (w_stack s))) with
      | Some eb =>
          aligned_b eb ||
          match get_newline_for_type GenText.le_unix (Some eb),
                guess_line_endings_bytes (fst (call_prepared s c)) (Some eb) with
          | Ok nlb, Ok (_, nlb') => beq nlb nlb'
          | _, _ => false
          end
      | None => true
      end
  | _ => true
  end.

(* 3. one step of the simulation *)
Definition step_ok (orc : oracle) (chunk : nat) (s : wstate) (st : rstate) (valid : list bytes)
           (encs : list (option pv)) (prev : nat) (c : call) (s' : wstate) : Prop :=
  exists new, w_out s' = w_out s ++ new /\
    forall rest, remaining (st_stream st) = new ++ rest ->
      exists st' valid' encs' prev',
        iter_step orc chunk st valid encs prev = SYield (expected_record_of s (st_linenum st) c) st' valid' encs' prev' /\
        Sim s' st' valid' encs' prev' /\ remaining (st_stream st') = rest /\
        st_linenum st' = (st_linenum st + 1 + Z.of_nat (call_nlines s c))%Z.

(* ------------------------------------------------------------------------------------------------ *)
(* section ids of content calls *)

Lemma content_id_class : forall k name, k <= 3 -> In name WriterFacts.content_names ->
  In (build_id k name) WriterFacts.ids ->
  is_content (build_id k name) = true /\
  (name = B "preamble" -> is_preamble (build_id k name) = true) /\
  (name = B "meta" -> is_preamble (build_id k name) = false /\ is_meta (build_id k name) = true) /\
  (name = B "diff" -> build_id k name = GenSections.sec_file_diff).
Proof.
  intros k name Hk Hn Hin. apply HeaderFacts.in_ids_In in Hin.
  unfold WriterFacts.content_names in Hn. cbn [In] in Hn.
  assert (Hk4 : k = 0 \/ k = 1 \/ k = 2 \/ k = 3) by lia.
  destruct Hk4 as [-> | [-> | [-> | ->]]]; destruct Hn as [<- | [<- | [<- | []]]];
    vm_compute in Hin; try discriminate Hin;
    (split; [vm_compute; reflexivity|]);
    (split; [intro E; try discriminate E; vm_compute; reflexivity|]);
    (split; [intro E; try discriminate E; split; vm_compute; reflexivity|]);
    intro E; try discriminate E; vm_compute; reflexivity.
Qed.

Lemma sim_content_id : forall s st valid encs prev c s' name,
  Sim s st valid encs prev -> do_call c s = (s', Ok tt) ->
  WriterFacts.target s c = build_id (cur_level s) name -> In name WriterFacts.content_names ->
  is_content (build_id (cur_level s) name) = true /\
  (name = B "preamble" -> is_preamble (build_id (cur_level s) name) = true) /\
  (name = B "meta" -> is_preamble (build_id (cur_level s) name) = false /\ is_meta (build_id (cur_level s) name) = true) /\
  (name = B "diff" -> build_id (cur_level s) name = GenSections.sec_file_diff).
Proof.
  intros s st valid encs prev c s' name HS H Ht Hn.
  apply content_id_class; [eapply sim_cur_level; eauto | exact Hn |].
  destruct (C02_ids_legal s c s' (sim_reach _ _ _ _ _ HS) H) as (p & dots & nm & pairs & rest & _ & _ & _ & _ & _ & Hin & _).
  rewrite Ht in Hin. exact Hin.
Qed.

Lemma target_content : forall s c, match c with NewChange _ | NewFile _ => False | _ => True end ->
  WriterFacts.target s c = build_id (cur_level s) (call_name c).
Proof. intros s c H. destruct c; try contradiction; cbn [WriterFacts.target call_name]; rewrite Nat.add_sub; reflexivity. Qed.

Lemma yield_unfold : forall level line opts id name st2 p encs prev nxt,
  table_get id = Some nxt ->
  Encodings.yield level line opts id name st2 p encs prev =
  SYield {| r_level := level; r_line := line; r_opts := opts; r_id := id; r_type := name; r_payload := p |} st2 nxt encs prev.
Proof. intros. unfold Encodings.yield. rewrite H. reflexivity. Qed.

Lemma Ok_pair_inj : forall {A C} (a a' : A) (b b' : C), @Ok (A * C) (a, b) = Ok (a', b') -> a = a' /\ b = b'.
Proof. intros A C a a' b b' H. inversion H. auto. Qed.

(* ------------------------------------------------------------------------------------------------ *)
(* 4. write_diff                                                                                       *)

Lemma sim_step_diff : forall orc chunk s s' st valid encs prev content dt enc le,
  Sim s st valid encs prev -> enc_ok enc -> le_arg le ->
  do_call (WriteDiff content dt enc le) s = (s', Ok tt) -> 0 < chunk ->
  (Z.of_nat (length (w_out s')) <= sys_maxsize)%Z ->
  step_ok orc chunk s st valid encs prev (WriteDiff content dt enc le) s'.
Proof.
  intros orc chunk s s' st valid encs prev content dt enc le HS Henc Hle Hcall Hchunk Hsize.
  set (c := WriteDiff content dt enc le) in *.
  destruct (diff_call_inv _ _ _ _ _ _ Hcall) as (b & -> & Hdt & Hncs).
  pose proof (target_content s c I) as Htarget. cbn [call_name c] in Htarget.
  assert (Hname : In (B "diff") WriterFacts.content_names) by (cbn; auto).
  destruct (choice_good_exact dt GenText.diff_types choice_sub_diff_types Hdt) as (Hdtg & Hdtx & _).
  destruct (sim_content_header chunk s st valid encs prev c s' (B "diff") (CBytes b) le enc WNone true false (B "type") dt
              HS Hcall Htarget Hncs Hname Henc GV_none I (key_spec "type" eq_refl) Hdtg Hdtx Hchunk Hsize)
    as (body & le_out & r & nxt & Hprep & Hout & Hbody & Htab & Hsim' & Hget & Hread).
  destruct (sim_content_id _ _ _ _ _ _ _ _ HS Hcall Htarget Hname) as (_ & _ & _ & Hid). specialize (Hid eq_refl).
  (* the codec *)
  assert (Hcodec : exists eb, codec_ok eb /\ diff_enc_ok eb enc /\ enc_pv eb enc = rd_enc enc /\
                              enc_bytes enc = match enc with WStr _ => Some eb | _ => None end).
  { destruct Henc as [->|(eb & canon & cd & -> & Hlk)].
    - exists (B "ascii"). split; [exact codec_ok_sp_ascii|]. split; [apply dk_none; reflexivity|]. split; reflexivity.
    - exists eb. split; [eapply codec_ok_modelled; exact Hlk|].
      split; [apply dk_str; apply (spelling_facts _ _ _ Hlk)|].
      cbn [enc_pv rd_enc enc_bytes]. rewrite map_n_byte_ascii_text. split; reflexivity. }
  destruct Hcodec as (eb & Hok & Hdk & Hpv & Heb).
  assert (Hb : b <> []).
  { destruct (prepare_content_unfold _ _ _ _ _ _ _ _ Hprep) as (_ & _ & _ & _ & _ & _ & _ & _ & Hnil & _).
    destruct b; [discriminate Hnil|discriminate]. }
  destruct (diff_round_trip_ok eb Hok s b le enc Hb Hle Hdk)
    as (body2 & le' & nlb & lines & Hlv & Hnl & _ & _ & _ & Hsplit & Hprep2 & Hrc).
  rewrite Hprep in Hprep2. apply Ok_pair_inj in Hprep2. destruct Hprep2 as [<- ->].
  exists ((("#"%byte :: r) ++ [x0a]) ++ body). split; [exact Hout|].
  intros rest Hrem. destruct (Hread rest Hrem) as [Hh Hrem1].
  set (st1 := after_line st (length ("#"%byte :: r))) in *.
  destruct (Hrc st1 rest Hrem1 Hbody) as (st' & Hrcok & Hrem' & Hline' & Hfnl').
  destruct (sim_top _ _ _ _ _ HS) as (tw & p' & e0 & _ & Hencs & _ & _).
  set (opts := expected_opts (content_opts body (WStr (ascii_text le')) enc WNone true [(B "type", dt)])) in *.
  assert (Hlen : opt_get "length" opts = Some (VInt (Z.of_nat (length body)))).
  { unfold opt_get, opts. rewrite Hget, content_opts_get. cbeq. reflexivity. }
  assert (Hoe : opt_get "encoding" opts = rd_enc enc).
  { unfold opt_get, opts. rewrite Hget, content_opts_get. cbeq. apply enc_ok_read_back. exact Henc. }
  assert (Hol : opt_get "line_endings" opts = Some (VStr le')).
  { unfold opt_get, opts. rewrite Hget, content_opts_get. cbeq. cbn [read_back].
    destruct (prepared_le_out _ _ _ _ _ _ _ _ Hprep) as (x & _ & Ex & _ & _ & Hrb).
    apply (f_equal (fun v => match v with WStr t => t | _ => [] end)) in Ex. apply ascii_text_inj in Ex. subst x.
    exact Hrb. }
  rewrite Hid in Hh.
  pose proof (Encodings.reader_diff_encoding orc chunk st valid encs prev _ _ _ _ _ (rd_enc tw) _ Hh
                (f_equal (@top _) Hencs) Hlen) as Hstep.
  rewrite Hstep by (apply Z.ltb_ge; lia).
  unfold Encodings.diff_encoding. rewrite Hoe, Hol, <- Hpv, Hrcok.
  rewrite Hid in Htab. rewrite (yield_unfold _ _ _ _ _ _ _ _ _ _ Htab).
  exists st', nxt, encs, prev. split; [|split; [|split]].
  - unfold expected_record_of, expected_record. cbn [call_prepared c]. rewrite Hprep. cbn [fst snd].
    cbn [call_dots call_opts call_payload call_name]. rewrite Htarget, Hid. reflexivity.
  - apply Hsim'. rewrite Hfnl'. reflexivity.
  - exact Hrem'.
  - rewrite Hline'. unfold st1 at 1. cbn [after_line st_linenum].
    unfold call_nlines. cbn [call_prepared c]. rewrite Hprep. cbn [fst snd].
    unfold nlines_of. rewrite map_n_byte_ascii_text.
    replace (get_newline_for_type le' (enc_bytes enc)) with (Ok nlb : res bytes).
    + rewrite Hsplit. lia.
    + rewrite Heb. destruct Hdk as [-> | e He]; [symmetry; exact Hnl | symmetry; exact Hnl].
Qed.

(* ------------------------------------------------------------------------------------------------ *)
(* 5. text sections: the effective encoding on both sides                                              *)

Lemma text_prepared : forall s st valid encs prev t ind le enc body le_out,
  Sim s st valid encs prev -> enc_ok enc ->
  prepare_content s (CText t) ind le enc true = Ok (body, le_out) ->
  exists eb canon cd inh,
    lookup_codec eb = LOk canon cd /\
    Encodings.w_content_encoding enc true (hd WNone (w_stack s)) = WStr (ascii_text eb) /\
    t <> [] /\ (exists x, py_encode t eb = Ok x) /\
    top encs = Some inh /\ Encodings.content_encoding (rd_enc enc) inh = Some (VStr eb) /\
    prepare_content s (CText t) ind le (WStr (ascii_text eb)) true = Ok (body, le_out).
Proof.
  intros s st valid encs prev t ind le enc body le_out HS Henc Hprep.
  destruct (sim_top _ _ _ _ _ HS) as (tw & p' & e0 & Hst & Hencs & Htw & Hcur).
  rewrite Hst. cbn [hd].
  set (eff := Encodings.w_content_encoding enc true tw).
  rewrite (Encodings.prepare_content_encoding s s (CText t) ind le enc true tw Hcur) in Hprep. fold eff in Hprep.
  destruct (prepare_content_unfold _ _ _ _ _ _ _ _ Hprep) as (e1 & nl0 & nb & cb & H1 & _ & _ & H4 & Hnil & _).
  unfold eff_enc in H1. rewrite andb_false_r in H1. injection H1 as <-.
  cbn [encode_content] in H4. apply encode_dyn_ok in H4. destruct H4 as (e & eb & Eeff & Hce & Hpy).
  assert (Heffok : enc_ok eff).
  { unfold eff, Encodings.w_content_encoding. destruct (negb (wv_truthy enc) && true); assumption. }
  destruct Heffok as [E|(eb' & canon & cd & E & Hlk)]; [rewrite E in Eeff; discriminate Eeff|].
  rewrite E in Eeff. injection Eeff as <-.
  destruct (spelling_facts _ _ _ Hlk) as (_ & Hce' & _ & _). rewrite Hce' in Hce. injection Hce as <-.
  exists eb', canon, cd, (rd_enc tw).
  split; [exact Hlk|]. split; [exact E|].
  split; [destruct t; [discriminate Hnil|discriminate]|]. split; [eauto|].
  split; [rewrite Hencs; reflexivity|]. split.
  - assert (Hce2 : Encodings.content_encoding (rd_enc enc) (rd_enc tw) = rd_enc eff).
    { unfold eff, Encodings.w_content_encoding, Encodings.content_encoding.
      rewrite (enc_ok_truthy enc Henc). destruct Henc as [->|(eb0 & ? & ? & -> & ?)]; reflexivity. }
    rewrite Hce2, E. cbn [rd_enc]. rewrite map_n_byte_ascii_text. reflexivity.
  - rewrite (Encodings.prepare_content_encoding s s (CText t) ind le (WStr (ascii_text eb')) true tw Hcur).
    replace (Encodings.w_content_encoding (WStr (ascii_text eb')) true tw) with eff; [exact Hprep|].
    rewrite E. unfold Encodings.w_content_encoding.
    assert (Ht : wv_truthy (WStr (ascii_text eb')) = true).
    { rewrite enc_ok_truthy; [reflexivity|]. right. eauto. }
    rewrite Ht. reflexivity.
Qed.

(* ------------------------------------------------------------------------------------------------ *)
(* 6. write_preamble                                                                                   *)

Lemma indent_body_bound : forall k y nlb lines le eb,
  (0 < k)%Z -> get_newline_for_type le eb = Ok nlb -> split_lines y nlb true = Ok lines ->
  Z.to_nat k <= length (indent_body (WInt k) y lines).
Proof.
  intros k y nlb lines le eb Hk Hnl Hsp. unfold indent_body.
  replace (0 <? k)%Z with true by (symmetry; apply Z.ltb_lt; exact Hk).
  destruct (TextFacts.model_newlines_unbordered _ _ _ Hnl) as [Hne Hub].
  destruct (split_lines_ok_ne _ _ _ _ Hsp) as [Hy _].
  pose proof (TextFacts.C16b_concat y nlb lines Hy Hne Hub Hsp) as Hc.
  destruct lines as [|l ls]; [cbn in Hc; congruence|].
  cbn [map concat]. rewrite !app_length, repeat_b_length. lia.
Qed.

Lemma sim_step_preamble : forall orc chunk s s' st valid encs prev text enc ind le mt,
  Sim s st valid encs prev -> enc_ok enc -> indent_ok ind -> le_arg le ->
  do_call (WritePreamble text enc ind le mt) s = (s', Ok tt) -> 0 < chunk ->
  (Z.of_nat (length (w_out s')) <= sys_maxsize)%Z ->
  step_ok orc chunk s st valid encs prev (WritePreamble text enc ind le mt) s'.
Proof.
  intros orc chunk s s' st valid encs prev text enc ind le mt HS Henc Hind Hle Hcall Hchunk Hsize.
  set (c := WritePreamble text enc ind le mt) in *.
  destruct (preamble_call_inv _ _ _ _ _ _ _ Hcall) as (t & -> & Hmt & Hncs).
  pose proof (target_content s c I) as Htarget. cbn [call_name c] in Htarget.
  assert (Hname : In (B "preamble") WriterFacts.content_names) by (cbn; auto).
  destruct (choice_good_exact mt GenText.mimetypes choice_sub_mimetypes Hmt) as (Hmtg & Hmtx & _).
  assert (Hia : indent_arg (preamble_indent ind)).
  { unfold preamble_indent. destruct ind as [v|]; [exact Hind|]. apply ia_int. vm_compute. discriminate. }
  remember (preamble_indent ind) as ind' eqn:Eind.
  (* what was prepared, and by which codec *)
  destruct (C02_length_exact _ _ _ _ _ _ _ _ _ _ Hncs) as (body & le_out & h & Hprep & _ & _ & Hout & _ & _).
  assert (Hbody : (Z.of_nat (length body) <= sys_maxsize)%Z) by (rewrite Hout, !app_length in Hsize; lia).
  destruct (text_prepared _ _ _ _ _ _ _ _ _ _ _ HS Henc Hprep)
    as (eb & canon & cd & inh & Hlk & Heff & Htne & (x & Hpy) & Htop & Hce & Hprep1).
  destruct (spelling_facts _ _ _ Hlk) as (_ & Hascii & _ & _).
  destruct (content_round_trip_ok eb (codec_ok_modelled _ _ _ Hlk) s (ascii_text eb) t x le ind' Hascii Htne Hpy Hle Hia)
    as (body2 & le' & nl & nlb & y & lines & Hres & _ & Hnl & Hy & Hsplit & Hbody2 & Hprep2 & Hrc).
  rewrite Hprep1 in Hprep2. apply Ok_pair_inj in Hprep2. destruct Hprep2 as [<- ->].
  assert (Hindg : good_value ind' /\ exact_value ind').
  { destruct Hia as [|k Hk]; (split; [|exact I]); [constructor|]. constructor.
    destruct (Z.eq_dec k 0) as [->|Hk0]; [apply small_of_maxsize_z; vm_compute; split; discriminate|].
    apply small_of_maxsize_z. split; [exact Hk|].
    pose proof (indent_body_bound k y nlb lines le' (Some eb) ltac:(lia) Hnl Hsplit) as Hb.
    rewrite <- Hbody2 in Hb. lia. }
  destruct Hindg as [Hindg Hindx].
  destruct (sim_content_header chunk s st valid encs prev c s' (B "preamble") (CText t) le enc ind' true true (B "mimetype") mt
              HS Hcall Htarget Hncs Hname Henc Hindg Hindx (key_spec "mimetype" eq_refl) Hmtg Hmtx Hchunk Hsize)
    as (body3 & le_out3 & r & nxt & Hprep3 & Hout3 & _ & Htab & Hsim' & Hget & Hread).
  rewrite Hprep in Hprep3. apply Ok_pair_inj in Hprep3. destruct Hprep3 as [<- <-].
  destruct (sim_content_id _ _ _ _ _ _ _ _ HS Hcall Htarget Hname) as (Hic & Hip & _ & _). specialize (Hip eq_refl).
  exists ((("#"%byte :: r) ++ [x0a]) ++ body). split; [exact Hout3|].
  intros rest Hrem. destruct (Hread rest Hrem) as [Hh Hrem1].
  set (st1 := after_line st (length ("#"%byte :: r))) in *.
  destruct (Hrc st1 rest Hrem1 Hbody) as (st' & Hrcok & Hrem' & Hline' & Hfnl').
  set (opts := expected_opts (content_opts body (WStr (ascii_text le')) enc ind' true [(B "mimetype", mt)])) in *.
  assert (Hlen : opt_get "length" opts = Some (VInt (Z.of_nat (length body)))).
  { unfold opt_get, opts. rewrite Hget, content_opts_get. cbeq. reflexivity. }
  assert (Hoe : opt_get "encoding" opts = rd_enc enc).
  { unfold opt_get, opts. rewrite Hget, content_opts_get. cbeq. apply enc_ok_read_back. exact Henc. }
  assert (Hoi : opt_get "indent" opts = indent_pv ind').
  { unfold opt_get, opts. rewrite Hget, content_opts_get. cbeq. destruct Hia; reflexivity. }
  assert (Hol : opt_get "line_endings" opts = Some (VStr le')).
  { unfold opt_get, opts. rewrite Hget, content_opts_get. cbeq.
    destruct (prepared_le_out _ _ _ _ _ _ _ _ Hprep) as (x0 & _ & Ex & _ & _ & Hrb).
    apply (f_equal (fun v => match v with WStr t => t | _ => [] end)) in Ex. apply ascii_text_inj in Ex. subst x0.
    exact Hrb. }
  pose proof (Encodings.reader_preamble_encoding orc chunk st valid encs prev _ _ _ _ _ _ inh _ Hh Hic Hip Htop Hlen) as Hstep.
  rewrite Hstep by (apply Z.ltb_ge; lia).
  rewrite Hoe, Hce, Hoi, Hol, Hrcok.
  rewrite (yield_unfold _ _ _ _ _ _ _ _ _ _ Htab).
  exists st', nxt, encs, prev. split; [|split; [|split]].
  - unfold expected_record_of, expected_record. cbn [call_prepared c]. rewrite <- Eind, Hprep. cbn [fst snd].
    unfold c. cbn [call_dots call_opts call_payload call_name]. rewrite <- Eind. fold c. rewrite Htarget, Hres. reflexivity.
  - apply Hsim'. rewrite Hfnl'. reflexivity.
  - exact Hrem'.
  - rewrite Hline'. unfold st1 at 1. cbn [after_line st_linenum].
    unfold call_nlines. cbn [call_prepared c]. rewrite <- Eind, Hprep. cbn [fst snd].
    unfold text_nlines. rewrite Heff. cbn [enc_bytes]. rewrite map_n_byte_ascii_text, Hres. cbn [snd].
    rewrite Hy. unfold nlines_of. rewrite map_n_byte_ascii_text, Hnl, Hsplit. lia.
Qed.

(* ------------------------------------------------------------------------------------------------ *)
(* 7. write_meta: 7a an encoding is in force (text path), 7b none is (bytes path), 7 both                 *)

(* the metadata content round trip for every modelled codec: unconditional for the single-byte-newline codecs,
   under [guess_agrees] for the others *)
Lemma meta_rt : forall eb canon cd, lookup_codec eb = LOk canon cd ->
  forall (s : wstate) (t : text) (x : bytes),
    t <> [] -> py_encode t eb = Ok x -> find N.eqb (nl_text GenText.le_unix) t <> None ->
    exists body le nl nlb lines,
      guess_line_endings_text t = (le, nl) /\
      get_newline_for_type le (Some eb) = Ok nlb /\
      py_encode (final_text nl t) eb = Ok body /\
      split_lines body nlb true = Ok lines /\
      prepare_content s (CText t) WNone WNone (WStr (ascii_text eb)) true = Ok (body, WStr (ascii_text le)) /\
      forall st rest, (aligned_canon canon \/ guess_agrees eb body nlb) ->
        remaining (st_stream st) = body ++ rest -> (Z.of_nat (length body) <= sys_maxsize)%Z ->
        exists st',
          read_content st (Z.of_nat (length body)) (Some (VStr eb)) None None false
            = COk (PText (final_text nl t)) st' /\
          remaining (st_stream st') = rest /\
          st_linenum st' = (st_linenum st + Z.of_nat (length lines))%Z /\
          st_fnl st' = st_fnl st.
Proof.
  intros eb canon cd Hlk s t x Ht Hx Hlf.
  destruct (spelling_facts _ _ _ Hlk) as (_ & He & _ & _).
  destruct (codec_ok_modelled _ _ _ Hlk) as [c [bom [enc0 laws]]].
  destruct (encodable_of_py_encode eb c bom enc0 laws t x Hx) as [b [Hb _]].
  destruct (content_round_trip_guess eb c bom enc0 laws s (ascii_text eb) t b WNone WNone He Ht Hb la_none ia_none)
    as [body [le [nl [nlb [b' [lines [H1 [H2 [H3 [H4 [H5 [H6 [H7 H8]]]]]]]]]]]]].
  cbn [resolve_le] in H1. cbn [indent_body] in H6. subst body.
  destruct (resolve_le_ok WNone t le nl la_none H1) as [Hv [Hassoc _]].
  destruct (newline_bytes eb c bom enc0 laws le Hv) as [nlb' [N1 [_ [N3 _]]]].
  destruct (le_values_facts le Hv) as [_ [_ [Hassoc' _]]].
  assert (nl = nl_text le) by congruence. subst nl. rewrite H3 in N1. injection N1 as <-.
  pose proof (py_encode_laws eb c bom enc0 laws _ _ H4) as Hpy.
  exists (bom ++ b'), le, (nl_text le), nlb, lines.
  split; [exact H1|]. split; [exact N3|]. split; [exact Hpy|]. split; [exact H5|]. split; [exact H7|].
  intros st rest [Hal|Hg] Hrem Hsz.
  - destruct (content_round_trip_meta eb (codec_ok_aligned_modelled _ _ _ Hlk Hal) s (ascii_text eb) t x He Ht Hx Hlf)
      as (body2 & le2 & nl2 & nlb2 & lines2 & G1 & G2 & G3 & G4 & _ & G6).
    rewrite H1 in G1. injection G1 as <- <-. rewrite N3 in G2. injection G2 as <-.
    rewrite Hpy in G3. injection G3 as <-. rewrite H5 in G4. injection G4 as <-.
    exact (G6 st rest Hrem Hsz).
  - exact (H8 st rest Hg Hrem Hsz).
Qed.

Lemma json_obj_text : forall kv d, kv <> [] -> json_dump (JObj kv) = Ok d ->
  (exists r, ascii_text d = 123%N :: 10%N :: r) /\ (exists q, ascii_text d = q ++ [125%N]).
Proof.
  intros kv d Hkv Ed. unfold json_dump in Ed. rewrite dump_obj in Ed by exact Hkv.
  destruct (dump_members 0 kv); [|discriminate Ed]. apply Ok_inj in Ed. subst d. split.
  - eexists. unfold ascii_text. rewrite !map_app. reflexivity.
  - eexists. unfold ascii_text. rewrite !app_assoc. rewrite map_app. reflexivity.
Qed.

Lemma find_lf_json : forall r, find N.eqb (nl_text GenText.le_unix) (123%N :: 10%N :: r) <> None.
Proof. intros r. change (nl_text GenText.le_unix) with [10%N]. cbn. discriminate. Qed.

Lemma final_text_json : forall t q, t = q ++ [125%N] -> final_text (nl_text GenText.le_unix) t = t ++ [10%N].
Proof.
  intros t q E. unfold final_text. change (nl_text GenText.le_unix) with [10%N].
  destruct (suffixb N.eqb [10%N] t) eqn:Es; [|reflexivity]. exfalso.
  apply (TextFacts.suffixb_spec N.eqb N_eqb_spec) in Es. destruct Es as [q' Es]. rewrite E in Es.
  apply app_inj_tail in Es. destruct Es as [_ Es]. discriminate Es.
Qed.

(* 7a. an encoding is in force: the JSON text goes through the text path *)
Lemma sim_step_meta_text : forall orc chunk s s' st valid encs prev kv enc fmt,
  let c := WriteMeta (WDict (JObj kv)) enc fmt in
  Sim s st valid encs prev -> enc_ok enc -> meta_enc_b s c = true -> meta_guess_b s c = true -> oracle_ok_call orc c ->
  do_call c s = (s', Ok tt) -> 0 < chunk ->
  (Z.of_nat (length (w_out s')) <= sys_maxsize)%Z ->
  step_ok orc chunk s st valid encs prev c s'.
Proof.
  intros orc chunk s s' st valid encs prev kv enc fmt c HS Henc Hmenc Hguess Horc Hcall Hchunk Hsize.
  destruct (meta_call_inv _ _ _ _ _ (sim_stack_ne _ _ _ _ _ HS) Hmenc Hcall) as (j & d & Ej & Htruthy & Hfmt & Hdump & Hncs).
  injection Ej as <-.
  assert (Hkv : kv <> []) by (intros ->; discriminate Htruthy).
  pose proof (target_content s c I) as Htarget. cbn [call_name c] in Htarget.
  assert (Hname : In (B "meta") WriterFacts.content_names) by (cbn; auto).
  assert (Hfj : meta_fmt fmt = WStr (ascii_text (B "json"))).
  { apply in_strset_true in Hfmt. destruct Hfmt as (x & Hx & ->). destruct Hx as [<-|[]]. reflexivity. }
  assert (Hfg : good_value (meta_fmt fmt) /\ exact_value (meta_fmt fmt)).
  { rewrite Hfj. assert (Hin : In (B "json") choice_values) by (apply choice_sub_meta_formats; left; reflexivity).
    destruct (choice_exact _ Hin). auto. }
  destruct Hfg as [Hfg Hfx].
  assert (Hmc : meta_content s enc d = CText (ascii_text d)).
  { unfold meta_content. unfold c in Hmenc. cbn [meta_enc_b] in Hmenc. rewrite Hmenc. reflexivity. }
  set (t := ascii_text d) in *.
  destruct (sim_content_header chunk s st valid encs prev c s' (B "meta") (CText t) WNone enc WNone false true (B "format") (meta_fmt fmt)
              HS Hcall Htarget Hncs Hname Henc GV_none I (key_spec "format" eq_refl) Hfg Hfx Hchunk Hsize)
    as (body & le_out & r & nxt & Hprep & Hout & Hbody & Htab & Hsim' & Hget & Hread).
  destruct (text_prepared _ _ _ _ _ _ _ _ _ _ _ HS Henc Hprep)
    as (eb & canon & cd & inh & Hlk & Heff & Htne & (x & Hpy) & Htop & Hce & Hprep1).
  destruct (json_obj_text kv d Hkv Hdump) as [(r0 & Hr0) (q & Hq)]. fold t in Hr0, Hq.
  assert (Hlf : find N.eqb (nl_text GenText.le_unix) t <> None) by (rewrite Hr0; apply find_lf_json).
  destruct (meta_rt eb canon cd Hlk s t x Htne Hpy Hlf)
    as (body2 & le' & nl & nlb & lines & Hgt & Hnl & Hy & Hsplit & Hprep2 & Hrc).
  rewrite Hprep1 in Hprep2. apply Ok_pair_inj in Hprep2. destruct Hprep2 as [<- ->].
  rewrite Hr0, guess_json_text in Hgt. injection Hgt as <- <-.
  destruct (sim_content_id _ _ _ _ _ _ _ _ HS Hcall Htarget Hname) as (Hic & _ & Him & _).
  destruct (Him eq_refl) as [Hnp Hm].
  (* the guess *)
  assert (Hga : aligned_canon canon \/ guess_agrees eb body nlb).
  { unfold meta_guess_b, c in Hguess. rewrite Heff in Hguess. cbn [enc_bytes] in Hguess.
    rewrite map_n_byte_ascii_text in Hguess. apply orb_true_iff in Hguess. destruct Hguess as [Ha|Hg].
    - left. unfold aligned_b in Ha. rewrite Hlk in Ha. apply (HeaderFacts.mem_In byte_eqb HeaderFacts.byte_eqb_spec). exact Ha.
    - right. rewrite Hnl in Hg. cbn [call_prepared] in Hg. rewrite Hdump, Hmc in Hg. rewrite Hprep in Hg. cbn [fst] in Hg.
      destruct (guess_line_endings_bytes body (Some eb)) as [[le2 nlb2]|] eqn:Eg; [|discriminate Hg].
      apply TextFacts.beq_eq in Hg. subst nlb2. exists le2. exact Eg. }
  exists ((("#"%byte :: r) ++ [x0a]) ++ body). split; [exact Hout|].
  intros rest Hrem. destruct (Hread rest Hrem) as [Hh Hrem1].
  set (st1 := after_line st (length ("#"%byte :: r))) in *.
  destruct (Hrc st1 rest Hga Hrem1 Hbody) as (st' & Hrcok & Hrem' & Hline' & Hfnl').
  set (opts := expected_opts (content_opts body (WStr (ascii_text GenText.le_unix)) enc WNone false [(B "format", meta_fmt fmt)])) in *.
  assert (Hlen : opt_get "length" opts = Some (VInt (Z.of_nat (length body)))).
  { unfold opt_get, opts. rewrite Hget, content_opts_get. cbeq. reflexivity. }
  assert (Hoe : opt_get "encoding" opts = rd_enc enc).
  { unfold opt_get, opts. rewrite Hget, content_opts_get. cbeq. apply enc_ok_read_back. exact Henc. }
  assert (Hol : opt_get "line_endings" opts = None).
  { unfold opt_get, opts. rewrite Hget, content_opts_get. cbeq. reflexivity. }
  assert (Hof : opt_get "format" opts = Some (VStr (B "json"))).
  { unfold opt_get, opts. rewrite Hget, content_opts_get. cbeq. rewrite Hfj.
    apply choice_values_spec. apply choice_sub_meta_formats. left. reflexivity. }
  pose proof (Encodings.reader_meta_encoding orc chunk st valid encs prev _ _ _ _ _ _ inh _ Hh Hic Hnp Hm Htop Hlen) as Hstep.
  rewrite Hstep; [|apply Z.ltb_ge; lia | rewrite Hof; vm_compute; reflexivity].
  rewrite Hoe, Hce, Hol, Hrcok. cbv zeta.
  rewrite (final_text_json t q Hq).
  cbn [oracle_ok_call c] in Horc. specialize (Horc d Hdump). fold t in Horc. rewrite Horc.
  rewrite (yield_unfold _ _ _ _ _ _ _ _ _ _ Htab).
  exists st', nxt, encs, prev. split; [|split; [|split]].
  - unfold expected_record_of, expected_record. cbn [call_prepared c]. rewrite Hdump, Hmc. rewrite Hprep. cbn [fst snd].
    unfold c. cbn [call_dots call_opts call_payload call_name]. fold c. rewrite Htarget. reflexivity.
  - apply Hsim'. rewrite Hfnl'. reflexivity.
  - exact Hrem'.
  - rewrite Hline'. unfold st1 at 1. cbn [after_line st_linenum].
    unfold call_nlines. cbn [call_prepared c]. rewrite Hdump, Hmc. rewrite Hprep. cbn [fst snd]. fold c. rewrite Hmenc. fold t.
    unfold text_nlines. rewrite Heff. cbn [enc_bytes resolve_le]. rewrite map_n_byte_ascii_text.
    rewrite Hr0 at 1. rewrite guess_json_text. cbn [snd].
    rewrite Hy. unfold nlines_of. rewrite map_n_byte_ascii_text, Hnl, Hsplit. lia.
Qed.

(* 7b. no encoding in force: the pure-ASCII JSON is written as bytes under a header without encoding, the reader
   returns bytes (PBytes) and json.loads is asked about bytes *)
Lemma is_nil_false_ne : forall {A} (l : list A), l <> [] -> is_nil l = false.
Proof. intros A l H. destruct l; [congruence|reflexivity]. Qed.

Lemma meta_bytes_rt : forall (s : wstate) (d r : bytes),
  cur_encoding s = Ok WNone -> d = x7b :: x0a :: r ->
  exists body lines,
    body = add_newline [x0a] d /\
    split_lines body [x0a] true = Ok lines /\
    prepare_content s (CBytes d) WNone WNone WNone true = Ok (body, WStr (ascii_text GenText.le_unix)) /\
    forall st rest, remaining (st_stream st) = body ++ rest -> (Z.of_nat (length body) <= sys_maxsize)%Z ->
      exists st',
        read_content st (Z.of_nat (length body)) None None None false = COk (PBytes body) st' /\
        remaining (st_stream st') = rest /\
        st_linenum st' = (st_linenum st + Z.of_nat (length lines))%Z /\
        st_fnl st' = st_fnl st.
Proof.
  intros s d r Hcur Hd.
  assert (Hdne : d <> []) by (rewrite Hd; discriminate).
  destruct (diff_round_trip_ok (B "ascii") codec_ok_sp_ascii s d WNone WNone Hdne la_none (dk_none _ eq_refl))
    as (body & le & nlb & lines & _ & _ & Hg & _ & Hbody & Hsplit & Hprep & _).
  specialize (Hg eq_refl). rewrite Hd in Hg at 1. rewrite guess_json_bytes in Hg. injection Hg as <- <-.
  exists body, lines. split; [exact Hbody|]. split; [exact Hsplit|]. split.
  - rewrite (Encodings.prepare_content_encoding s s (CBytes d) WNone WNone WNone true WNone Hcur). exact Hprep.
  - intros st rest Hrem Hmax.
    assert (Hb2 : exists r', body = x7b :: x0a :: r').
    { rewrite Hbody, Hd. destruct (bends [x0a] (x7b :: x0a :: r)); eexists; reflexivity. }
    destruct Hb2 as (r' & Hb2).
    assert (Hbne : body <> []) by (rewrite Hb2; discriminate).
    assert (Hends : bends [x0a] body = true).
    { rewrite Hbody. destruct (bends [x0a] d) eqn:E; [exact E|]. apply TextFacts.bends_spec. exists d. reflexivity. }
    destruct (sread_exact (st_stream st) body rest Hrem) as [Hs1 Hs2].
    unfold read_content. rewrite Hrem, (read_size body rest Hmax), Hs1.
    rewrite (is_nil_false_ne body Hbne). cbn [pv_given].
    assert (Hguess : guess_line_endings_bytes body None = Ok (GenText.le_unix, [x0a])).
    { change (guess_line_endings_bytes body None) with (guess_line_endings_bytes body (Some (B "ascii"))).
      rewrite Hb2. apply guess_json_bytes. }
    rewrite Hguess. cbn [bind snd].
    rewrite Hsplit, Hends. cbn [negb].
    eexists. split; [reflexivity|]. cbn [st_stream st_linenum st_fnl]. auto.
Qed.

Lemma json_obj_bytes : forall kv d, kv <> [] -> json_dump (JObj kv) = Ok d ->
  (exists r, d = x7b :: x0a :: r) /\ (exists q, d = q ++ [x7d]).
Proof.
  intros kv d Hkv Ed. unfold json_dump in Ed. rewrite dump_obj in Ed by exact Hkv.
  destruct (dump_members 0 kv); [|discriminate Ed]. apply Ok_inj in Ed. subst d. split.
  - eexists. reflexivity.
  - eexists. rewrite !app_assoc. reflexivity.
Qed.

Lemma add_newline_json : forall d q, d = q ++ [x7d] -> add_newline [x0a] d = d ++ [x0a].
Proof.
  intros d q E. unfold add_newline. destruct (bends [x0a] d) eqn:Es; [|reflexivity]. exfalso.
  apply TextFacts.bends_spec in Es. destruct Es as [q' Es]. rewrite E in Es.
  apply app_inj_tail in Es. destruct Es as [_ Es]. discriminate Es.
Qed.

Lemma enc_ok_falsy : forall v, enc_ok v -> wv_truthy v = false -> v = WNone.
Proof.
  intros v H Hf. rewrite (enc_ok_truthy v H) in Hf. destruct H as [->|(eb & ? & ? & -> & ?)]; [reflexivity|discriminate Hf].
Qed.

Lemma sim_step_meta_bytes : forall orc chunk s s' st valid encs prev kv enc fmt,
  let c := WriteMeta (WDict (JObj kv)) enc fmt in
  Sim s st valid encs prev -> enc_ok enc -> meta_enc_b s c = false -> meta_bytes_oracle orc c ->
  do_call c s = (s', Ok tt) -> 0 < chunk ->
  (Z.of_nat (length (w_out s')) <= sys_maxsize)%Z ->
  step_ok orc chunk s st valid encs prev c s'.
Proof.
  intros orc chunk s s' st valid encs prev kv enc fmt c HS Henc Hmenc Horc Hcall Hchunk Hsize.
  pose proof (sim_stack_ne _ _ _ _ _ HS) as Hne.
  destruct (meta_call_inv_gen _ _ _ _ _ Hcall) as (j & d & he & Ej & Htruthy & Hfmt & Hdump & Hhe & Hncs).
  injection Ej as <-.
  pose proof (has_enc_meta_enc s (WDict (JObj kv)) enc fmt he Hne Hhe) as Ehe. fold c in Ehe. rewrite Hmenc in Ehe. subst he.
  assert (Hkv : kv <> []) by (intros ->; discriminate Htruthy).
  pose proof (target_content s c I) as Htarget. cbn [call_name c] in Htarget.
  assert (Hname : In (B "meta") WriterFacts.content_names) by (cbn; auto).
  assert (Hfj : meta_fmt fmt = WStr (ascii_text (B "json"))).
  { apply in_strset_true in Hfmt. destruct Hfmt as (x & Hx & ->). destruct Hx as [<-|[]]. reflexivity. }
  assert (Hfg : good_value (meta_fmt fmt) /\ exact_value (meta_fmt fmt)).
  { rewrite Hfj. assert (Hin : In (B "json") choice_values) by (apply choice_sub_meta_formats; left; reflexivity).
    destruct (choice_exact _ Hin). auto. }
  destruct Hfg as [Hfg Hfx].
  (* no encoding in force: the argument and the innermost container's encoding are None *)
  destruct (sim_top _ _ _ _ _ HS) as (tw & p' & e0 & Hst & Hencs & Htw & Hcur).
  assert (Hmenc' : wv_truthy (Encodings.w_content_encoding enc true (hd WNone (w_stack s))) = false) by exact Hmenc.
  assert (Hnone : enc = WNone /\ tw = WNone).
  { rewrite Hst in Hmenc'. cbn [hd] in Hmenc'. unfold Encodings.w_content_encoding in Hmenc'.
    destruct (wv_truthy enc) eqn:E; cbn [negb andb] in Hmenc'; [congruence|].
    split; apply enc_ok_falsy; assumption. }
  destruct Hnone as [-> ->].
  assert (Hmc : meta_content s WNone d = CBytes d) by (unfold meta_content; rewrite Hmenc'; reflexivity).
  cbv iota in Hncs.
  destruct (sim_content_header chunk s st valid encs prev c s' (B "meta") (CBytes d) WNone WNone WNone false true (B "format") (meta_fmt fmt)
              HS Hcall Htarget Hncs Hname (or_introl eq_refl) GV_none I (key_spec "format" eq_refl) Hfg Hfx Hchunk Hsize)
    as (body & le_out & r & nxt & Hprep & Hout & Hbody & Htab & Hsim' & Hget & Hread).
  destruct (json_obj_bytes kv d Hkv Hdump) as [(r0 & Hr0) (q & Hq)].
  destruct (meta_bytes_rt s d r0 Hcur Hr0) as (body2 & lines & Hb2 & Hsplit & Hprep2 & Hrc).
  rewrite Hprep in Hprep2. apply Ok_pair_inj in Hprep2. destruct Hprep2 as [<- ->].
  destruct (sim_content_id _ _ _ _ _ _ _ _ HS Hcall Htarget Hname) as (Hic & _ & Him & _).
  destruct (Him eq_refl) as [Hnp Hm].
  exists ((("#"%byte :: r) ++ [x0a]) ++ body). split; [exact Hout|].
  intros rest Hrem. destruct (Hread rest Hrem) as [Hh Hrem1].
  set (st1 := after_line st (length ("#"%byte :: r))) in *.
  destruct (Hrc st1 rest Hrem1 Hbody) as (st' & Hrcok & Hrem' & Hline' & Hfnl').
  set (opts := expected_opts (content_opts body (WStr (ascii_text GenText.le_unix)) WNone WNone false [(B "format", meta_fmt fmt)])) in *.
  assert (Hlen : opt_get "length" opts = Some (VInt (Z.of_nat (length body)))).
  { unfold opt_get, opts. rewrite Hget, content_opts_get. cbeq. reflexivity. }
  assert (Hoe : opt_get "encoding" opts = None).
  { unfold opt_get, opts. rewrite Hget, content_opts_get. cbeq. reflexivity. }
  assert (Hol : opt_get "line_endings" opts = None).
  { unfold opt_get, opts. rewrite Hget, content_opts_get. cbeq. reflexivity. }
  assert (Hof : opt_get "format" opts = Some (VStr (B "json"))).
  { unfold opt_get, opts. rewrite Hget, content_opts_get. cbeq. rewrite Hfj.
    apply choice_values_spec. apply choice_sub_meta_formats. left. reflexivity. }
  assert (Htop : top encs = Some (rd_enc WNone)) by (rewrite Hencs; reflexivity).
  pose proof (Encodings.reader_meta_encoding orc chunk st valid encs prev _ _ _ _ _ _ (rd_enc WNone) _ Hh Hic Hnp Hm Htop Hlen) as Hstep.
  rewrite Hstep; [|apply Z.ltb_ge; lia | rewrite Hof; vm_compute; reflexivity].
  rewrite Hoe, Hol. cbn [rd_enc Encodings.content_encoding]. rewrite Hrcok. cbv zeta.
  rewrite Hb2, (add_newline_json d q Hq).
  cbn [meta_bytes_oracle c] in Horc. specialize (Horc d Hdump). rewrite Horc.
  rewrite (yield_unfold _ _ _ _ _ _ _ _ _ _ Htab).
  exists st', nxt, encs, prev. split; [|split; [|split]].
  - unfold expected_record_of, expected_record. cbn [call_prepared c]. rewrite Hdump, Hmc, Hprep. cbn [fst snd].
    unfold c. cbn [call_dots call_opts call_payload call_name]. fold c. rewrite Htarget. reflexivity.
  - apply Hsim'. rewrite Hfnl'. reflexivity.
  - exact Hrem'.
  - rewrite Hline'. unfold st1 at 1. cbn [after_line st_linenum].
    unfold call_nlines. cbn [call_prepared c]. rewrite Hdump, Hmc, Hprep. cbn [fst snd]. fold c. rewrite Hmenc.
    unfold nlines_of. rewrite map_n_byte_ascii_text.
    replace (get_newline_for_type GenText.le_unix None) with (Ok [x0a] : res bytes) by (vm_compute; reflexivity).
    rewrite Hsplit. lia.
Qed.

(* 7. write_meta, both cases: [meta_oracle_at orc s c] = an encoding is in force, or the oracle answers for the bytes *)
Lemma sim_step_meta : forall orc chunk s s' st valid encs prev kv enc fmt,
  let c := WriteMeta (WDict (JObj kv)) enc fmt in
  Sim s st valid encs prev -> enc_ok enc -> meta_oracle_at orc s c -> meta_guess_b s c = true -> oracle_ok_call orc c ->
  do_call c s = (s', Ok tt) -> 0 < chunk ->
  (Z.of_nat (length (w_out s')) <= sys_maxsize)%Z ->
  step_ok orc chunk s st valid encs prev c s'.
Proof.
  intros orc chunk s s' st valid encs prev kv enc fmt c HS Henc Hmo Hguess Horc Hcall Hchunk Hsize.
  destruct (meta_enc_b s c) eqn:Eb.
  - eapply sim_step_meta_text; eauto.
  - destruct Hmo as [Hmo|Hmo]; [congruence|]. eapply sim_step_meta_bytes; eauto.
Qed.
