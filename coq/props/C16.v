(* C16 — Line splitting is lossless and consistent between its two modes.
   Statements only; proofs are in theories/TextFacts.v.
   [unbordered nl]: no proper non-empty prefix of nl is also a suffix of nl (nl cannot overlap itself).
   The hypothesis is necessary (C16_needs_unbordered) and holds for every newline the library uses
   (C16_library_newlines_unbordered, C16_model_newlines_unbordered, C16_ten_newlines_unbordered). *)
From Coq Require Import List Arith Bool Strings.Byte.
From DX Require Import Bytes Res Codec Text TextFacts.
From DXGen Require GenCodecs GenText.
Import ListNotations.
Local Open Scope list_scope.

(* ---- meaning of the vocabulary used below ---- *)

Theorem C16_bstarts_spec : forall p l : bytes, bstarts p l = true <-> exists r, l = p ++ r.
Proof. exact bstarts_spec. Qed.
Print Assumptions C16_bstarts_spec.

Theorem C16_bends_spec : forall s l : bytes, bends s l = true <-> exists q, l = q ++ s.
Proof. exact bends_spec. Qed.
Print Assumptions C16_bends_spec.

(* occurrences = 0 means: the pattern starts at no position *)
Theorem C16_occurrences_zero : forall pat l : bytes,
  occurrences byte_eqb pat l = 0 <-> (forall i, i < length l -> bstarts pat (skipn i l) = false).
Proof. exact (occurrences_zero_iff byte_eqb). Qed.
Print Assumptions C16_occurrences_zero.

(* a terminated line is body ++ nl with nl starting at no position inside body (overlaps with the end included) *)
Theorem C16_terminated_spec : forall nl ln : bytes, nl <> [] ->
  (b_terminated nl ln <->
   exists body, ln = body ++ nl /\ forall i, i < length body -> bstarts nl (skipn i ln) = false).
Proof. exact b_terminated_positions. Qed.
Print Assumptions C16_terminated_spec.

Theorem C16_terminated_def : forall nl ln : bytes,
  b_terminated nl ln <-> exists body, ln = body ++ nl /\ occurrences byte_eqb nl ln = 1.
Proof. intros; reflexivity. Qed.
Print Assumptions C16_terminated_def.

(* an unterminated line is non-empty, does not end with nl and contains nl nowhere *)
Theorem C16_unterminated_def : forall nl ln : bytes,
  b_unterminated nl ln <-> ln <> [] /\ bends nl ln = false /\ occurrences byte_eqb nl ln = 0.
Proof. intros; reflexivity. Qed.
Print Assumptions C16_unterminated_def.

Theorem C16_unterminated_spec : forall nl ln : bytes,
  b_unterminated nl ln ->
  ln <> [] /\ bends nl ln = false /\ forall i, i < length ln -> bstarts nl (skipn i ln) = false.
Proof. exact b_unterminated_positions. Qed.
Print Assumptions C16_unterminated_spec.

(* strip_one removes exactly one trailing newline from a line that ends with it, and nothing otherwise *)
Theorem C16_strip_one_spec : forall nl body ln : bytes,
  b_strip_one nl (body ++ nl) = body /\ (bends nl ln = false -> b_strip_one nl ln = ln).
Proof. exact b_strip_one_spec. Qed.
Print Assumptions C16_strip_one_spec.

Theorem C16_unbordered_def : forall nl : bytes,
  unbordered nl <->
  (forall b, b <> [] -> length b < length nl -> (exists r, nl = b ++ r) -> (exists q, nl = q ++ b) -> False).
Proof. intros; reflexivity. Qed.
Print Assumptions C16_unbordered_def.

(* ---- the split underneath ---- *)

Theorem C16_join_split : forall sep l : bytes, sep <> [] -> join sep (bsplit sep l) = l.
Proof. exact bjoin_bsplit. Qed.
Print Assumptions C16_join_split.

(* ---- the property ---- *)

Theorem C16_total : forall (d nl : bytes) (k : bool),
  (d <> [] -> nl <> [] -> exists ls, split_lines d nl k = Ok ls) /\
  (d = [] \/ nl = [] -> split_lines d nl k = Err EAssertion).
Proof. intros; split; [apply C16b_total_ok | apply C16b_total_err]. Qed.
Print Assumptions C16_total.

Theorem C16_concat : forall (d nl : bytes) (ls : list bytes),
  d <> [] -> nl <> [] -> unbordered nl ->
  split_lines d nl true = Ok ls -> concat ls = d.
Proof. exact C16b_concat. Qed.
Print Assumptions C16_concat.

Theorem C16_shape : forall (d nl : bytes) (ls : list bytes),
  d <> [] -> nl <> [] -> unbordered nl ->
  split_lines d nl true = Ok ls ->
  exists init lst, ls = init ++ [lst] /\
                   Forall (b_terminated nl) init /\
                   (b_terminated nl lst <-> bends nl d = true) /\
                   (b_unterminated nl lst <-> bends nl d = false).
Proof. exact C16b_shape. Qed.
Print Assumptions C16_shape.

Theorem C16_count : forall (d nl : bytes) (ls : list bytes),
  d <> [] -> nl <> [] -> unbordered nl ->
  split_lines d nl true = Ok ls ->
  length ls = occurrences byte_eqb nl d + (if bends nl d then 0 else 1).
Proof. exact C16b_count. Qed.
Print Assumptions C16_count.

Theorem C16_count_nokeep : forall (d nl : bytes) (ls : list bytes),
  d <> [] -> nl <> [] -> unbordered nl ->
  split_lines d nl false = Ok ls ->
  length ls = occurrences byte_eqb nl d + (if bends nl d then 0 else 1).
Proof. exact C16b_count_nokeep. Qed.
Print Assumptions C16_count_nokeep.

(* holds without [unbordered] *)
Theorem C16_modes : forall (d nl : bytes) (ls : list bytes),
  d <> [] -> nl <> [] ->
  split_lines d nl true = Ok ls ->
  split_lines d nl false = Ok (map (b_strip_one nl) ls).
Proof. exact C16b_modes. Qed.
Print Assumptions C16_modes.

(* all clauses at once *)
Theorem C16_all : forall d nl : bytes, d <> [] -> nl <> [] -> unbordered nl ->
  exists ls,
    split_lines d nl true = Ok ls /\
    concat ls = d /\
    (exists init lst, ls = init ++ [lst] /\
                      Forall (b_terminated nl) init /\
                      (b_terminated nl lst <-> bends nl d = true) /\
                      (b_unterminated nl lst <-> bends nl d = false)) /\
    length ls = occurrences byte_eqb nl d + (if bends nl d then 0 else 1) /\
    split_lines d nl false = Ok (map (b_strip_one nl) ls).
Proof. exact C16b_all. Qed.
Print Assumptions C16_all.

(* ---- the hypothesis [unbordered] is necessary ... ---- *)

Theorem C16_needs_unbordered :
  let a := x61 in
  split_lines [a; a; a] [a; a] true = Ok [[a; a]] /\
  concat [[a; a]] <> [a; a; a] /\
  ~ unbordered [a; a].
Proof. exact bordered_newline_loses_a_byte. Qed.
Print Assumptions C16_needs_unbordered.

(* ---- ... and holds for every newline sequence the library uses ---- *)

(* the ten patterns named in the property: LF, CRLF and their UTF-16/32 LE/BE encodings *)
Theorem C16_ten_newlines_unbordered : forall nl,
  In nl [ [x0a]; [x0d; x0a];
          [x0a; x00]; [x0d; x00; x0a; x00];
          [x00; x0a]; [x00; x0d; x00; x0a];
          [x0a; x00; x00; x00]; [x0d; x00; x00; x00; x0a; x00; x00; x00];
          [x00; x00; x00; x0a]; [x00; x00; x00; x0d; x00; x00; x00; x0a] ] ->
  nl <> [] /\ unbordered nl.
Proof. exact ten_newlines_unbordered. Qed.
Print Assumptions C16_ten_newlines_unbordered.

(* the mid-stream LF / CRLF encodings of every stateless codec of the generated catalogue *)
Theorem C16_library_newlines_unbordered : forall r, In r GenCodecs.rows -> GenCodecs.cr_stateless r = true ->
  (GenCodecs.cr_lf_mid r <> [] -> unbordered (GenCodecs.cr_lf_mid r)) /\
  (GenCodecs.cr_crlf_mid r <> [] -> unbordered (GenCodecs.cr_crlf_mid r)).
Proof. exact library_newlines_unbordered. Qed.
Print Assumptions C16_library_newlines_unbordered.

(* all four newline fields of every row, stateless or not; stateless rows have non-empty patterns *)
Theorem C16_library_all_newlines_unbordered : forall r, In r GenCodecs.rows ->
  (forall nl, In nl [GenCodecs.cr_lf r; GenCodecs.cr_crlf r; GenCodecs.cr_lf_mid r; GenCodecs.cr_crlf_mid r] ->
              nl <> [] -> unbordered nl) /\
  (GenCodecs.cr_stateless r = true -> GenCodecs.cr_lf_mid r <> [] /\ GenCodecs.cr_crlf_mid r <> []).
Proof. exact library_all_newlines_unbordered. Qed.
Print Assumptions C16_library_all_newlines_unbordered.

(* every newline the model of get_newline_for_type returns, for any line-endings name and encoding spelling *)
Theorem C16_model_newlines_unbordered : forall le enc nl,
  get_newline_for_type le enc = Ok nl -> nl <> [] /\ unbordered nl.
Proof. exact model_newlines_unbordered. Qed.
Print Assumptions C16_model_newlines_unbordered.

(* ---- hence the property, hypothesis-free, for the library's newlines ---- *)

Theorem C16_for_ten_newlines : forall d nl : bytes, In nl ten_newlines -> d <> [] -> C16_statement d nl.
Proof. exact C16b_ten. Qed.
Print Assumptions C16_for_ten_newlines.

Theorem C16_for_model_newlines : forall le enc nl d,
  get_newline_for_type le enc = Ok nl -> d <> [] -> C16_statement d nl.
Proof. exact C16b_model_newlines. Qed.
Print Assumptions C16_for_model_newlines.

Theorem C16_for_catalogue_newlines : forall r nl d, In r GenCodecs.rows ->
  In nl [GenCodecs.cr_lf r; GenCodecs.cr_crlf r; GenCodecs.cr_lf_mid r; GenCodecs.cr_crlf_mid r] ->
  nl <> [] -> d <> [] -> C16_statement d nl.
Proof. exact C16b_catalogue. Qed.
Print Assumptions C16_for_catalogue_newlines.
