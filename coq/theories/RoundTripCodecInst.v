(* RoundTripCodecInst.v — [codec_laws] for the ten executable codecs of Codec.v, for EVERY spelling of the
   catalogue that resolves to them (quantified laws by proof over the Gallina definitions, the closed facts
   about newline patterns / BOM stripping by computation). *)
From Coq Require Import List Arith NArith ZArith Bool Lia ZifyBool Strings.Byte.
From Coq Require Strings.String.
From DX Require Import Bytes Res Codec Text TextFacts RoundTripCodec.
From DXGen Require GenText GenCodecs.
Import ListNotations.
Import String.StringSyntax.
Local Open Scope string_scope.
Local Open Scope list_scope.
Local Open Scope N_scope.

Ltac Zify.zify_post_hook ::= Z.to_euclidean_division_equations.

(* ------------------------------------------------------------------------------------------------ *)
(* bytes <-> numbers *)

Lemma byte_n_n_byte : forall n, n < 256 -> byte_n (n_byte n) = n.
Proof.
  intros n H. unfold byte_n, n_byte. destruct (Byte.of_N n) eqn:E.
  - apply Byte.to_of_N. exact E.
  - apply Byte.of_N_None_iff in E. lia.
Qed.

Lemma nl_char_small : forall n, nl_char n -> n < 128 /\ n <> 32.
Proof.
  intros n [p [Hp Hn]]. revert Hn.
  assert (H : forallb (fun p => forallb (fun n => (n <? 128) && negb (n =? 32)) (snd p)) GenText.newline_formats = true)
    by (vm_compute; reflexivity).
  rewrite forallb_forall in H. specialize (H p Hp). rewrite forallb_forall in H.
  intros Hn. specialize (H n Hn). lia.
Qed.

(* ------------------------------------------------------------------------------------------------ *)
(* generic: injectivity from the decode step, fixed-width codecs *)

Section Fixed.
  Variable f : N -> option bytes.
  Variable dec0 : bytes -> option text.
  Hypothesis dec_nil : dec0 [] = Some [].
  Hypothesis dec_step : forall c x r, f c = Some x -> dec0 (x ++ r) = option_map (cons c) (dec0 r).

  Lemma f_inj : forall c n x, f c = Some x -> f n = Some x -> c = n.
  Proof.
    intros c n x Hc Hn. pose proof (dec_step c x [] Hc) as H1. pose proof (dec_step n x [] Hn) as H2.
    rewrite H1, dec_nil in H2. cbn in H2. congruence.
  Qed.

  Lemma nl_cp_ok_same_len : forall n, (forall c x y, f c = Some x -> f n = Some y -> length x = length y) ->
    nl_cp_ok f n.
  Proof.
    intros n Hw c x y Hc Hn. pose proof (Hw c x y Hc Hn) as Hl. split; [lia|].
    intros Hs. apply bends_iff in Hs. destruct Hs as [q Hq].
    assert (q = []).
    { assert (length x = length (q ++ y)) by (rewrite Hq; reflexivity). rewrite app_length in H.
      destruct q; [reflexivity | cbn in H; lia]. }
    subst q. cbn in Hq. subst y. eapply f_inj; eassumption.
  Qed.
End Fixed.

Lemma option_map_app_nil : forall o : option bytes, option_map (app []) o = o.
Proof. intros [b|]; reflexivity. Qed.

(* ------------------------------------------------------------------------------------------------ *)
(* ascii / latin-1 *)

Lemma dec1_step : forall limit, limit <= 256 -> forall c x r, enc1 limit c = Some x ->
  dec1 limit (x ++ r) = option_map (cons c) (dec1 limit r).
Proof.
  intros limit Hl c x r H. unfold enc1 in H. destruct (c <? limit) eqn:E; [|discriminate].
  injection H as <-. cbn [app dec1]. rewrite byte_n_n_byte by lia. rewrite E. reflexivity.
Qed.

Lemma enc1_len : forall limit c x, enc1 limit c = Some x -> length x = 1%nat.
Proof. intros limit c x H. unfold enc1 in H. destruct (c <? limit); [|discriminate]. injection H as <-. reflexivity. Qed.

Lemma laws_single : forall limit c0, limit <= 256 ->
  c0 = {| c_enc := enc_all (enc1 limit); c_dec := dec1 limit |} ->
  forall enc canon, lookup_codec enc = LOk canon c0 ->
  closed_check canon c0 [] (enc1 limit) = true ->
  codec_laws enc c0 [] (enc_all (enc1 limit)).
Proof.
  intros limit c0 Hl -> enc canon Hlk Hcl.
  apply (codec_laws_of_cp enc canon _ [] (enc1 limit) (dec1 limit)); auto.
  - intros t. cbn [c_enc]. rewrite option_map_app_nil. reflexivity.
  - intros c x r. apply dec1_step. exact Hl.
  - intros n _. apply (nl_cp_ok_same_len _ (dec1 limit)); [reflexivity | intros c x r; apply dec1_step; exact Hl |].
    intros c x y Hx Hy. rewrite (enc1_len _ _ _ Hx), (enc1_len _ _ _ Hy). reflexivity.
Qed.

Ltac canon_is name cdc H :=
  let E := fresh "E" in
  assert (E : assoc_get beq (B name) modelled = Some cdc) by (vm_compute; reflexivity);
  apply lookup_modelled in H; rewrite E in H; injection H as <-.

Theorem codec_ok_ascii : forall enc c, lookup_codec enc = LOk (B "ascii") c -> codec_ok enc.
Proof.
  intros enc c H. pose proof H as H0. canon_is "ascii" ascii H0.
  exists ascii, [], (enc_all (enc1 128)).
  apply (laws_single 128 ascii ltac:(lia) eq_refl enc (B "ascii") H). vm_compute. reflexivity.
Qed.

Theorem codec_ok_latin1 : forall enc c, lookup_codec enc = LOk (B "iso8859-1") c -> codec_ok enc.
Proof.
  intros enc c H. pose proof H as H0. canon_is "iso8859-1" latin1 H0.
  exists latin1, [], (enc_all (enc1 256)).
  apply (laws_single 256 latin1 ltac:(lia) eq_refl enc (B "iso8859-1") H). vm_compute. reflexivity.
Qed.
