(* SpecReaderContent.v — _read_content on the content of a section of the spec AST (SpecReader.v):
   text sections (lines rendered as indent ++ encoded line ++ encoded newline, optional BOM, declared or detected
   line endings) and diffs.  Built on the codec laws (RoundTripCodec) and the read side of the content round
   trip (RoundTripContent.read_text_eval_gen); [read_content] is unfolded only for diffs. *)
From Coq Require Import List Arith NArith ZArith Bool Strings.Byte Lia.
From Coq Require Strings.String.
From DX Require Import Bytes Res Codec Text Sections Header Stream Json Reader Writer SectionsSpec SpecReader SpecReaderBase.
From DX Require Import TextFacts RoundTripCodec RoundTripContent.
From DX Require HeaderFacts StreamFacts ReaderSpecFacts RoundTripAll.
From DXGen Require GenSections GenText.
Import ListNotations.
Import String.StringSyntax.
Local Open Scope string_scope.
Local Open Scope list_scope.

(* ================================================================================================ *)
(** * Line-ending kinds against the generated table *)

Lemma le_in : forall k, In (le_name k, le_text k) GenText.newline_formats.
Proof. destruct k; [right; left|left]; reflexivity. Qed.
Lemma le_values : forall k, In (le_name k) GenText.line_endings_values.
Proof. destruct k; [right; left|left]; reflexivity. Qed.
Lemma le_assoc : forall k, assoc_get beq (le_name k) GenText.newline_formats = Some (le_text k).
Proof. destruct k; reflexivity. Qed.
Lemma nl_text_le : forall k, nl_text (le_name k) = le_text k.
Proof. destruct k; reflexivity. Qed.
Lemma le_kind_eqb_eq : forall a b, le_kind_eqb a b = true -> a = b.
Proof. destruct a, b; intro H; try reflexivity; discriminate H. Qed.

(* a modelled codec satisfies the laws *)
Lemma codec_of_laws : forall eb c, codec_of eb = Some c -> exists bom enc0, codec_laws eb c bom enc0.
Proof.
  intros eb c H. unfold codec_of in H. destruct (lookup_codec eb) as [canon c'| |] eqn:E; try discriminate H.
  injection H as ->. destruct (RoundTripAll.codec_ok_modelled eb canon c E) as (c2 & bom & enc0 & laws).
  destruct (cl_lookup _ _ _ _ laws) as [canon2 E2]. rewrite E in E2. injection E2 as _ <-.
  exists bom, enc0. exact laws.
Qed.

Lemma codec_of_not_int : forall eb c, codec_of eb = Some c -> int_ok eb = false.
Proof.
  intros eb c H. unfold codec_of in H. destruct (lookup_codec eb) as [canon c'| |] eqn:E; try discriminate H.
  unfold lookup_codec in E. destruct (find_row eb GenCodecs.rows) as [r|] eqn:Er; [|discriminate E].
  apply TextFacts.find_row_some in Er. destruct Er as [Hin ->].
  assert (F : forallb (fun r => negb (int_ok (GenCodecs.cr_spelling r))) GenCodecs.rows = true) by (vm_compute; reflexivity).
  rewrite forallb_forall in F. specialize (F r Hin). destruct (int_ok _); [discriminate F | reflexivity].
Qed.

Lemma map_app_nil : forall (ls : list bytes), map (app []) ls = ls.
Proof. intros ls. rewrite <- (map_id ls) at 2. apply map_ext. reflexivity. Qed.

(* ================================================================================================ *)
(** * A codec under its laws *)

Section WithLaws.
  Variables (eb : bytes) (c : codec) (bom : bytes) (enc0 : text -> option bytes).
  Hypothesis laws : codec_laws eb c bom enc0.

  Lemma enc0_nil : enc0 [] = Some [].
  Proof.
    destruct (cl_nl _ _ _ _ laws _ _ (le_in LUnix)) as (nlb & Hn & _).
    pose proof (cl_hom _ _ _ _ laws [] (le_text LUnix)) as H. cbn [app] in H. rewrite Hn in H.
    destruct (enc0 []) as [x|]; cbn in H; [|discriminate H]. injection H as H.
    assert (Hl : length nlb = length (x ++ nlb)) by congruence. rewrite app_length in Hl.
    destruct x; [reflexivity | cbn in Hl; lia].
  Qed.

  Lemma enc_bom_eq : enc_bom c = bom.
  Proof. unfold enc_bom. rewrite (cl_enc _ _ _ _ laws), enc0_nil. cbn. apply app_nil_r. Qed.

  Lemma enc_nobom_eq : forall t, enc_nobom c t = enc0 t.
  Proof.
    intros t. unfold enc_nobom. rewrite (cl_enc _ _ _ _ laws), enc_bom_eq.
    destruct (enc0 t) as [b|]; cbn [option_map]; [|reflexivity].
    rewrite skipn_app, skipn_all, Nat.sub_diag. reflexivity.
  Qed.

  Lemma nl_bytes_laws : forall k,
    enc0 (le_text k) = Some (nl_bytes c k) /\ nl_bytes c k <> [] /\ unbordered (nl_bytes c k) /\ ~ In x20 (nl_bytes c k).
  Proof.
    intros k. destruct (cl_nl _ _ _ _ laws _ _ (le_in k)) as (nlb & Hn & H2 & H3 & H4 & _).
    unfold nl_bytes. rewrite enc_nobom_eq, Hn. auto.
  Qed.

  Lemma nl_bytes_get : forall k, get_newline_for_type (le_name k) (Some eb) = Ok (nl_bytes c k).
  Proof.
    intros k. destruct (newline_bytes eb c bom enc0 laws _ (le_values k)) as (nlb & N1 & _ & N3 & _).
    rewrite nl_text_le in N1. destruct (nl_bytes_laws k) as [E _]. rewrite E in N1. injection N1 as <-. exact N3.
  Qed.

  Definition ql (l : text) : bytes := match enc0 l with Some b => b | None => [] end.

  Lemma encodable_line : forall k l, encodable c (le_text k) l = true ->
    enc0 (l ++ le_text k) = Some (enc_line c (le_text k) l) /\ enc_line c (le_text k) l = ql l ++ nl_bytes c k.
  Proof.
    intros k l H. unfold encodable in H. unfold enc_line. rewrite enc_nobom_eq in *.
    destruct (nl_bytes_laws k) as [En _]. rewrite (cl_hom _ _ _ _ laws), En in *. unfold ql.
    destruct (enc0 l) as [b|]; cbn in *; [auto | discriminate H].
  Qed.

  Lemma joined_enc : forall k ls, forallb (encodable c (le_text k)) ls = true ->
    enc0 (concat (map (fun l => l ++ le_text k) ls)) = Some (concat (map (enc_line c (le_text k)) ls)).
  Proof.
    intros k. induction ls as [|l ls IH]; intros H; [exact enc0_nil|].
    cbn [forallb] in H. apply andb_true_iff in H. destruct H as [Hl Hls].
    cbn [map concat]. rewrite (cl_hom _ _ _ _ laws), (proj1 (encodable_line k l Hl)), (IH Hls). reflexivity.
  Qed.

  Lemma joined_ends : forall k ls, ls <> [] -> suffixb N.eqb (le_text k) (concat (map (fun l => l ++ le_text k) ls)) = true.
  Proof.
    intros k ls H. destruct (exists_last H) as (ls' & l & ->).
    rewrite map_app, concat_app. cbn [map concat]. rewrite app_nil_r, app_assoc.
    apply (suffixb_app N.eqb N_eqb_spec).
  Qed.

  Lemma pieces_concat : forall nl ls, ls <> [] ->
    concat (text_pieces c nl bom ls) = bom ++ concat (map (enc_line c nl) ls).
  Proof. intros nl [|l0 t] H; [congruence|]. cbn [text_pieces map concat]. rewrite app_assoc. reflexivity. Qed.

  Lemma pieces_length : forall nl mark ls, length (text_pieces c nl mark ls) = length ls.
  Proof. intros nl mark [|l0 t]; [reflexivity|]. cbn [text_pieces length]. rewrite map_length. reflexivity. Qed.

  Lemma pieces_shape : forall k ls, forallb (encodable c (le_text k)) ls = true ->
    exists qs, text_pieces c (le_text k) bom ls = map (fun q => q ++ nl_bytes c k) qs.
  Proof.
    intros k [|l0 t] H; [exists []; reflexivity|].
    cbn [forallb] in H. apply andb_true_iff in H. destruct H as [H0 Ht].
    exists ((bom ++ ql l0) :: map ql t). cbn [text_pieces map]. f_equal.
    - rewrite (proj2 (encodable_line k l0 H0)). apply app_assoc.
    - rewrite map_map. apply map_ext_in. intros l Hl. rewrite forallb_forall in Ht.
      apply (proj2 (encodable_line k l (Ht l Hl))).
  Qed.

  (* the byte-level split of the encoded text is its line structure *)
  Lemma pieces_split : forall k ls, ls <> [] -> forallb (encodable c (le_text k)) ls = true ->
    lines_clean (nl_bytes c k) (text_pieces c (le_text k) bom ls) = true ->
    split_lines (bom ++ concat (map (enc_line c (le_text k)) ls)) (nl_bytes c k) true
      = Ok (text_pieces c (le_text k) bom ls).
  Proof.
    intros k ls Hne Henc Hclean. destruct (nl_bytes_laws k) as (_ & Hn2 & _).
    set (nlb := nl_bytes c k) in *.
    rewrite <- (pieces_concat _ ls Hne).
    destruct (pieces_shape k ls Henc) as [qs Hqs]. fold nlb in Hqs. rewrite Hqs in *.
    assert (Hq : qs <> []).
    { intros ->. destruct ls; [congruence | discriminate Hqs]. }
    assert (Hf : Forall (fun p => occurrences byte_eqb nlb (p ++ nlb) = 1) qs).
    { apply Forall_forall. intros q Hin. unfold lines_clean in Hclean. rewrite forallb_forall in Hclean.
      apply Nat.eqb_eq. apply Hclean. apply in_map_iff. exists q. auto. }
    pose proof (split_unique byte_eqb byte_eqb_spec nlb Hn2 qs [] Hf eq_refl) as E. rewrite app_nil_r in E.
    assert (Hs : suffixb byte_eqb nlb (concat (map (fun q => q ++ nlb) qs)) = true).
    { destruct (exists_last Hq) as (q0 & p & ->). rewrite map_app, concat_app. cbn [map concat].
      rewrite app_nil_r, app_assoc. apply (suffixb_app byte_eqb byte_eqb_spec). }
    assert (Hd : concat (map (fun q => q ++ nlb) qs) <> []).
    { intros Hn. rewrite Hn in Hs. apply (suffixb_spec byte_eqb byte_eqb_spec) in Hs. destruct Hs as [q0 Hq0].
      destruct q0; destruct nlb; cbn in Hq0; congruence. }
    unfold split_lines. rewrite (split_lines_keep byte_eqb _ nlb qs [] Hd Hn2 E), Hs. reflexivity.
  Qed.

  Definition indent_nat (indent : wv) : nat := match indent with WInt z => Z.to_nat z | _ => 0 end.

  Lemma text_body_indent : forall nl ls indent, ls <> [] -> indent_arg indent ->
    text_body c nl bom (indent_nat indent) ls
    = indent_body indent (bom ++ concat (map (enc_line c nl) ls)) (text_pieces c nl bom ls).
  Proof.
    intros nl ls indent Hne Hind. unfold text_body, indent_body. destruct Hind as [|z Hz]; cbn [indent_nat].
    - cbn [repeat_b]. rewrite map_app_nil. apply pieces_concat. exact Hne.
    - destruct (0 <? z)%Z eqn:E; [reflexivity|].
      replace (Z.to_nat z) with 0 by lia. cbn [repeat_b]. rewrite map_app_nil. apply pieces_concat. exact Hne.
  Qed.

  (* the newline the reader works with *)
  Lemma reader_newline_decl : forall k content,
    reader_newline eb (Some (VStr (le_name k))) content = Ok (nl_bytes c k).
  Proof.
    intros k content. apply (reader_newline_declared eb c bom enc0 laws (le_name k) (le_text k)).
    - apply le_values.
    - apply le_assoc.
    - apply nl_bytes_laws.
  Qed.

  Lemma guess_detect : forall body,
    guess_line_endings_bytes body (Some eb) =
      Ok (le_name (detect_kind (nl_bytes c LUnix) (nl_bytes c LDos) body),
          nl_bytes c (detect_kind (nl_bytes c LUnix) (nl_bytes c LDos) body)).
  Proof.
    intros body.
    destruct (newline_bytes eb c bom enc0 laws _ (le_values LUnix)) as (nu & U1 & _ & _ & U4 & U5 & _).
    destruct (newline_bytes eb c bom enc0 laws _ (le_values LDos)) as (nd & D1 & _ & _ & D4 & D5 & _).
    rewrite nl_text_le in U1, D1.
    destruct (nl_bytes_laws LUnix) as [Eu _]. destruct (nl_bytes_laws LDos) as [Ed _].
    rewrite Eu in U1. rewrite Ed in D1. injection U1 as <-. injection D1 as <-.
    unfold guess_line_endings_bytes. cbn [enc_or_ascii].
    change GenText.le_unix with (le_name LUnix). change GenText.le_dos with (le_name LDos).
    rewrite U4, D4. cbn [bind]. rewrite U5, D5. unfold detect_kind.
    destruct (bfind (nl_bytes c LUnix) body); [destruct (bends _ _)|]; reflexivity.
  Qed.

  Lemma reader_newline_detect : forall body k,
    detect_kind (nl_bytes c LUnix) (nl_bytes c LDos) body = k -> reader_newline eb None body = Ok (nl_bytes c k).
  Proof.
    intros body k H. unfold reader_newline. cbn [pv_truthy]. rewrite guess_detect, H. reflexivity.
  Qed.

  (* ---------------------------------------------------------------------------------------------- *)
  (* text sections *)

  Lemma read_text_spec : forall st rest k ls indent le_pv,
    ls <> [] -> forallb (encodable c (le_text k)) ls = true ->
    lines_clean (nl_bytes c k) (text_pieces c (le_text k) bom ls) = true ->
    indent_arg indent ->
    let body := text_body c (le_text k) bom (indent_nat indent) ls in
    reader_newline eb le_pv body = Ok (nl_bytes c k) ->
    remaining (st_stream st) = body ++ rest ->
    (Z.of_nat (length body) <= sys_maxsize)%Z ->
    exists st',
      read_content st (Z.of_nat (length body)) (Some (VStr eb)) (indent_pv indent) le_pv false
        = COk (PText (concat (map (fun l => l ++ le_text k) ls))) st' /\
      remaining (st_stream st') = rest /\
      st_linenum st' = (st_linenum st + Z.of_nat (length ls))%Z /\
      st_fnl st' = st_fnl st.
  Proof.
    intros st rest k ls indent le_pv Hne Henc Hclean Hind body Hrn Hrem Hmax.
    destruct (nl_bytes_laws k) as (En & _).
    pose proof (joined_enc k ls Henc) as Hb'.
    pose proof (pieces_split k ls Hne Henc Hclean) as Hsplit.
    assert (Ebody : body = indent_body indent (bom ++ concat (map (enc_line c (le_text k)) ls))
                                       (text_pieces c (le_text k) bom ls)).
    { unfold body. apply text_body_indent; assumption. }
    clearbody body. subst body.
    destruct (read_text_eval_gen eb c bom enc0 laws st rest indent le_pv (le_name k) (le_text k) (nl_bytes c k)
                _ _ _ (le_in k) En Hind Hb' (joined_ends k ls Hne) Hsplit Hrn Hrem Hmax) as [R1 R2].
    eexists. split; [exact R1|]. cbn [st_stream st_linenum st_fnl]. rewrite pieces_length. auto.
  Qed.

  (* ---------------------------------------------------------------------------------------------- *)
  (* diffs: bytes in, bytes out *)

  Lemma content_bytes_exact : forall st (raw rest : bytes),
    remaining (st_stream st) = raw ++ rest -> (Z.of_nat (length raw) <= sys_maxsize)%Z ->
    ReaderSpecFacts.content_bytes st (Z.of_nat (length raw)) = raw.
  Proof.
    intros st raw rest Hrem Hmax. unfold ReaderSpecFacts.content_bytes, ReaderSpecFacts.content_len.
    rewrite Hrem. rewrite (read_size raw rest Hmax). rewrite firstn_app, Nat.sub_diag, firstn_all. cbn. apply app_nil_r.
  Qed.

  Lemma read_diff_spec : forall st rest raw k enc_o le_pv,
    raw <> [] -> bends (nl_bytes c k) raw = true ->
    match enc_o with Some (VInt _) => False | _ => True end ->
    ReaderSpecFacts.nl_res_of le_pv (ReaderSpecFacts.enc_name enc_o) raw = Ok (nl_bytes c k) ->
    remaining (st_stream st) = raw ++ rest ->
    (Z.of_nat (length raw) <= sys_maxsize)%Z ->
    exists st',
      read_content st (Z.of_nat (length raw)) enc_o None le_pv true = COk (PBytes raw) st' /\
      remaining (st_stream st') = rest /\
      st_linenum st' = (st_linenum st + Z.of_nat (occurrences byte_eqb (nl_bytes c k) raw))%Z /\
      st_fnl st' = st_fnl st.
  Proof.
    intros st rest raw k enc_o le_pv Hne Hends Henc Hnl Hrem Hmax.
    destruct (nl_bytes_laws k) as (_ & Hn2 & Hn3 & _).
    destruct (C16b_total_ok raw (nl_bytes c k) true Hne Hn2) as [lines Hl].
    pose proof (C16b_count raw (nl_bytes c k) lines Hne Hn2 Hn3 Hl) as Hcount. rewrite Hends, Nat.add_0_r in Hcount.
    rewrite ReaderSpecFacts.read_content_eq. cbv zeta.
    rewrite (content_bytes_exact st raw rest Hrem Hmax).
    rewrite (is_nil_false raw Hne).
    assert (Hbody :
      (if ReaderSpecFacts.indent_bad None then CParse (st_linenum st - 1)%Z
       else match ReaderSpecFacts.nl_res_of le_pv (ReaderSpecFacts.enc_name enc_o) raw with
            | Ok newline =>
                match split_lines raw newline true with
                | Ok lines0 => if negb (bends newline raw) then CParse (st_linenum st) else
                              ReaderSpecFacts.decode_check st (ReaderSpecFacts.stream_after st (Z.of_nat (length raw)))
                                (length lines0) (ReaderSpecFacts.enc_name enc_o) true newline
                                (ReaderSpecFacts.strip_indent None raw lines0)
                | Err e => CExc e
                end
            | Err e => if caught_as_parse e then CParse (st_linenum st) else CExc e
            end) =
      COk (PBytes raw) (ReaderSpecFacts.state_after st (ReaderSpecFacts.stream_after st (Z.of_nat (length raw))) (length lines))).
    { cbn [ReaderSpecFacts.indent_bad]. rewrite Hnl, Hl, Hends. cbn [negb ReaderSpecFacts.strip_indent].
      unfold ReaderSpecFacts.decode_check, ReaderSpecFacts.finish.
      destruct (ReaderSpecFacts.enc_name enc_o); rewrite Hends; reflexivity. }
    eexists. split.
    - destruct enc_o as [[z|e]|]; [contradiction Henc | exact Hbody | exact Hbody].
    - cbn [ReaderSpecFacts.state_after st_stream st_linenum st_fnl]. rewrite Hcount.
      split; [|split; reflexivity].
      pose proof (ReaderSpecFacts.content_bytes_split st (Z.of_nat (length raw))) as [Hsp _].
      rewrite (content_bytes_exact st raw rest Hrem Hmax), Hrem in Hsp. apply app_inv_head in Hsp. symmetry. exact Hsp.
  Qed.

  (* the newline of a diff: declared, or detected on its bytes; with the section's own encoding *)
  Lemma diff_nl_res : forall le_pv raw k,
    (le_pv = Some (VStr (le_name k)) \/
     (le_pv = None /\ detect_kind (nl_bytes c LUnix) (nl_bytes c LDos) raw = k)) ->
    ReaderSpecFacts.nl_res_of le_pv (Some eb) raw = Ok (nl_bytes c k).
  Proof.
    intros le_pv raw k [-> | [-> Hd]].
    - exact (reader_newline_decl k raw).
    - exact (reader_newline_detect raw k Hd).
  Qed.
End WithLaws.

(* a diff without an encoding option: the newline is the ASCII one *)
Lemma nl_res_ascii : forall le_pv raw, ReaderSpecFacts.nl_res_of le_pv None raw = ReaderSpecFacts.nl_res_of le_pv (Some (B "ascii")) raw.
Proof. reflexivity. Qed.
