(* HunksFacts.v — specification layer and proofs for property C14 (unified-diff hunk parser).
   The SPEC LAYER (hunk ASTs, rendering, geometry) is written from the property text, not from the parser. *)
From Coq Require Import List Arith NArith ZArith Bool Strings.Byte Lia ZifyBool.
From Coq Require Strings.String.
From DX Require Import Bytes Res Hunks.
From DXGen Require GenText.
Import ListNotations.
Import String.StringSyntax.
Local Open Scope string_scope.
Local Open Scope list_scope.
Local Open Scope Z_scope.

(* ------------------------------------------------------------------------------------------------ *)
(** * Generic list / byte facts *)

Lemma frev_rev {A} (l : list A) : frev l = rev l.
Proof. unfold frev. symmetry. apply rev_alt. Qed.

Lemma byte_eqb_refl (a : byte) : byte_eqb a a = true.
Proof. apply Byte.byte_dec_lb. reflexivity. Qed.

Lemma bstarts_app (p l : bytes) : bstarts p (p ++ l) = true.
Proof.
  unfold bstarts. induction p as [|a p IH]; cbn; [reflexivity|].
  rewrite byte_eqb_refl. exact IH.
Qed.

Lemma skipn_length_app {A} (p l : list A) : skipn (List.length p) (p ++ l) = l.
Proof. induction p; cbn; auto. Qed.

Lemma strip_prefix_app (p l : bytes) : strip_prefix p (p ++ l) = Some l.
Proof. unfold strip_prefix. rewrite bstarts_app, skipn_length_app. reflexivity. Qed.

Lemma strip_prefix_starts (p l r : bytes) : strip_prefix p l = Some r -> bstarts p l = true.
Proof. unfold strip_prefix. destruct (bstarts p l); congruence. Qed.

Lemma last_cons_default {A} (a : A) (l : list A) (d : A) : last (a :: l) d = last l a.
Proof. revert a d. induction l as [|b l IH]; intros; [reflexivity|].
  change (last (a :: b :: l) d) with (last (b :: l) d). rewrite !IH. reflexivity. Qed.

Lemma last_app_default {A} (l1 l2 : list A) (d : A) : last (l1 ++ l2) d = last l2 (last l1 d).
Proof.
  revert d. induction l1 as [|a l1 IH]; intros d; [reflexivity|].
  cbn [app]. rewrite !last_cons_default. apply IH.
Qed.

(* ------------------------------------------------------------------------------------------------ *)
(** * Decimal round trip *)

Definition dstep (acc : N) (b : byte) : N := (acc * 10 + (byte_n b - 48))%N.

Lemma dec_to_N_fold l : dec_to_N l = fold_left dstep l 0%N.
Proof. reflexivity. Qed.

Lemma digit_byte_n (r : N) : (r < 10)%N -> byte_n (n_byte (48 + r)) = (48 + r)%N.
Proof.
  intros H. destruct r as [|p]; [reflexivity|].
  do 4 (destruct p as [p|p|]; try lia; try reflexivity).
Qed.

Lemma digit_is_digit (r : N) : (r < 10)%N -> is_digit (n_byte (48 + r)) = true.
Proof.
  intros H. destruct r as [|p]; [reflexivity|].
  do 4 (destruct p as [p|p|]; try lia; try reflexivity).
Qed.

Lemma N_digits_fuel_fold : forall fuel n acc,
  (n < 10 ^ N.of_nat fuel)%N ->
  exists k : N, forall a, fold_left dstep (N_digits_fuel fuel n acc) a = fold_left dstep acc (a * 10 ^ k + n)%N.
Proof.
  induction fuel as [|f IH]; intros n acc Hn.
  - exists 0%N. intros a. cbn [N_digits_fuel]. change (10 ^ N.of_nat 0)%N with 1%N in Hn.
    f_equal. rewrite N.pow_0_r. lia.
  - cbn [N_digits_fuel].
    assert (Hr : (n mod 10 < 10)%N) by (apply N.mod_lt; lia).
    assert (Hdm : n = (10 * (n / 10) + n mod 10)%N) by (apply N.div_mod; lia).
    destruct (N.eqb (n / 10) 0) eqn:E.
    + apply N.eqb_eq in E. exists 1%N. intros a. cbn [fold_left]. unfold dstep at 2.
      rewrite digit_byte_n by assumption. f_equal. rewrite N.pow_1_r. lia.
    + apply N.eqb_neq in E.
      assert (Hq : (n / 10 < 10 ^ N.of_nat f)%N).
      { apply N.div_lt_upper_bound; [lia|].
        replace (N.of_nat (S f)) with (N.succ (N.of_nat f)) in Hn by lia.
        rewrite N.pow_succ_r in Hn by lia. exact Hn. }
      destruct (IH (n / 10)%N (n_byte (48 + n mod 10) :: acc) Hq) as [k Hk].
      exists (N.succ k). intros a. rewrite Hk. cbn [fold_left]. unfold dstep at 2.
      rewrite digit_byte_n by assumption. f_equal.
      rewrite N.pow_succ_r by lia. set (P := (10 ^ k)%N). clearbody P.
      set (q := (n / 10)%N) in *. set (r := (n mod 10)%N) in *. clearbody q r. subst n. nia.
Qed.

Lemma N_lt_pow10_log2 (n : N) : (n < 10 ^ N.of_nat (S (N.to_nat (N.log2 n))))%N.
Proof.
  replace (N.of_nat (S (N.to_nat (N.log2 n)))) with (N.succ (N.log2 n)) by lia.
  destruct (N.eq_dec n 0) as [->|Hn].
  - reflexivity.
  - assert (H := N.log2_spec n ltac:(lia)).
    eapply N.lt_le_trans; [apply H|].
    apply N.pow_le_mono_l. lia.
Qed.

Theorem dec_roundtrip : forall n, dec_to_N (N_to_dec n) = n.
Proof.
  intros n. unfold N_to_dec. rewrite dec_to_N_fold.
  destruct (N_digits_fuel_fold _ n [] (N_lt_pow10_log2 n)) as [k Hk].
  rewrite Hk. cbn [fold_left]. lia.
Qed.

Lemma N_digits_fuel_digits : forall fuel n acc,
  all_b is_digit acc = true -> all_b is_digit (N_digits_fuel fuel n acc) = true.
Proof.
  induction fuel as [|f IH]; intros n acc Hacc; cbn [N_digits_fuel]; [assumption|].
  assert (Hr : (n mod 10 < 10)%N) by (apply N.mod_lt; lia).
  destruct (N.eqb (n / 10) 0).
  - cbn [all_b]. rewrite digit_is_digit by assumption. exact Hacc.
  - apply IH. cbn [all_b]. rewrite digit_is_digit by assumption. exact Hacc.
Qed.

Lemma N_digits_fuel_length : forall fuel n acc,
  (List.length acc <= List.length (N_digits_fuel fuel n acc))%nat.
Proof.
  induction fuel as [|f IH]; intros n acc; cbn [N_digits_fuel]; [lia|].
  destruct (N.eqb (n / 10) 0).
  - cbn [List.length]. lia.
  - etransitivity; [|apply IH]. cbn [List.length]. lia.
Qed.

Lemma N_to_dec_digits n : all_b is_digit (N_to_dec n) = true.
Proof. apply N_digits_fuel_digits. reflexivity. Qed.

Lemma N_to_dec_nonempty n : N_to_dec n <> [].
Proof.
  unfold N_to_dec. cbn [N_digits_fuel]. intros H.
  destruct (N.eqb (n / 10) 0); [discriminate|].
  match type of H with N_digits_fuel ?f ?q ?acc = [] =>
    pose proof (N_digits_fuel_length f q acc) as L; rewrite H in L; cbn in L; lia end.
Qed.

(* ------------------------------------------------------------------------------------------------ *)
(** * The header regex on rendered headers *)

Lemma take_digits_app (d r : bytes) :
  all_b is_digit d = true -> (match r with c :: _ => is_digit c = false | [] => True end) ->
  take_digits (d ++ r) = (d, r).
Proof.
  intros Hd Hr. induction d as [|c d IH]; cbn [app].
  - destruct r as [|c r]; [reflexivity|]. cbn [take_digits]. rewrite Hr. reflexivity.
  - cbn [all_b] in Hd. apply andb_true_iff in Hd as [Hc Hd].
    cbn [take_digits]. rewrite Hc, (IH Hd). reflexivity.
Qed.

Definition digits_ok (d : bytes) : Prop := d <> [] /\ all_b is_digit d = true.

Lemma parse_range_digits (d1 : bytes) (c : option bytes) (rest : bytes) :
  digits_ok d1 -> (match c with Some d2 => digits_ok d2 | None => True end) ->
  parse_range (d1 ++ (match c with Some d2 => ","%byte :: d2 | None => [] end) ++ " "%byte :: rest) =
  Some (Z.of_N (dec_to_N d1), option_map (fun d => Z.of_N (dec_to_N d)) c, " "%byte :: rest).
Proof.
  intros [Hne1 Hd1] Hc. unfold parse_range.
  destruct c as [d2|].
  - destruct Hc as [Hne2 Hd2]. cbn [app].
    rewrite (take_digits_app d1) by (auto; reflexivity).
    destruct d1 as [|x d1]; [congruence|].
    change (byte_eqb ","%byte ","%byte) with true. cbv iota.
    rewrite (take_digits_app d2) by (auto; reflexivity).
    destruct d2 as [|y d2]; [congruence|]. reflexivity.
  - cbn [app]. rewrite (take_digits_app d1) by (auto; reflexivity).
    destruct d1 as [|x d1]; [congruence|]. reflexivity.
Qed.

Lemma until_lf_id (c : bytes) : all_b (fun x => negb (byte_eqb x x0a)) c = true -> until_lf c = c.
Proof.
  induction c as [|x c IH]; cbn [all_b until_lf]; intros H; [reflexivity|].
  apply andb_true_iff in H as [Hx Hc]. apply negb_true_iff in Hx. rewrite Hx, (IH Hc). reflexivity.
Qed.

(* ================================================================================================ *)
(** * SPEC LAYER (from the property text) *)

(** Body lines of a hunk.  Payloads are arbitrary bytes.  A [Marker] is a whole line. *)
Inductive bline := Ctx (p : bytes) | Ins (p : bytes) | Del (p : bytes) | Marker (m : bytes).

(** A hunk header as it is printed: start lines, optional counts (omitted = 1), optional context. *)
Record hdr := { hd_os : N; hd_on : option N; hd_ms : N; hd_mn : option N; hd_ctx : option bytes }.

(** A hunk: the counts are those of the body itself; [a_on_omit]/[a_mn_omit] say the header omits ",count". *)
Record hunk_ast := { a_os : N; a_on_omit : bool; a_ms : N; a_mn_omit : bool; a_ctx : option bytes;
                     a_body : list bline }.

Definition on_orig (b : bline) : bool := match b with Ctx _ | Del _ => true | _ => false end.
Definition on_mod  (b : bline) : bool := match b with Ctx _ | Ins _ => true | _ => false end.
Definition is_del  (b : bline) : bool := match b with Del _ => true | _ => false end.
Definition is_ins  (b : bline) : bool := match b with Ins _ => true | _ => false end.
Definition is_marker (b : bline) : bool := match b with Marker _ => true | _ => false end.

Fixpoint countb (f : bline -> bool) (l : list bline) : nat :=
  match l with [] => 0 | b :: t => (if f b then 1 else 0) + countb f t end.

Definition a_on (a : hunk_ast) : nat := countb on_orig (a_body a).   (* #Ctx + #Del *)
Definition a_mn (a : hunk_ast) : nat := countb on_mod (a_body a).    (* #Ctx + #Ins *)

Definition hdr_of (a : hunk_ast) : hdr :=
  {| hd_os := a_os a; hd_on := if a_on_omit a then None else Some (N.of_nat (a_on a));
     hd_ms := a_ms a; hd_mn := if a_mn_omit a then None else Some (N.of_nat (a_mn a));
     hd_ctx := a_ctx a |}.

(** ** Rendering *)
Definition render_range (s : N) (c : option N) : bytes :=
  N_to_dec s ++ match c with Some k => ","%byte :: N_to_dec k | None => [] end.
Definition render_tail (ctx : option bytes) : bytes :=
  match ctx with Some c => " "%byte :: c | None => [] end.
Definition render_hdr (h : hdr) : bytes :=
  B "@@ -" ++ render_range (hd_os h) (hd_on h) ++ B " +" ++ render_range (hd_ms h) (hd_mn h) ++ B " @@"
    ++ render_tail (hd_ctx h).
Definition render_line (b : bline) : bytes :=
  match b with
  | Ctx p => " "%byte :: p
  | Ins p => "+"%byte :: p
  | Del p => "-"%byte :: p
  | Marker m => m
  end.
Definition render_header (a : hunk_ast) : bytes := render_hdr (hdr_of a).
Definition render_hunk (a : hunk_ast) : list bytes := render_header a :: map render_line (a_body a).

(** ** Well-formedness (boolean) *)
Definition no_lf (c : bytes) : bool := all_b (fun x => negb (byte_eqb x x0a)) c.
Definition wf_ctx (ctx : option bytes) : bool := match ctx with Some c => no_lf c | None => true end.
(** a marker line: strips to the marker text and is not mistaken for a context/insert/delete/"@@" line *)
Definition wf_marker (m : bytes) : bool :=
  beq (strip m) GenText.no_newline_marker
  && negb (first_is " "%byte m) && negb (first_is "+"%byte m) && negb (first_is "-"%byte m)
  && negb (bstarts (B "@@") m).
Definition wf_bline (b : bline) : bool := match b with Marker m => wf_marker m | _ => true end.
(** the body ends at the first prefix that reaches both counts: its last line is a counted line
    (a marker after that point is a non-hunk line); the empty body is complete on the header line *)
Definition ends_counted (body : list bline) : bool :=
  match rev body with b :: _ => negb (is_marker b) | [] => true end.
Definition wf_hunkb (a : hunk_ast) : bool :=
  wf_ctx (a_ctx a)
  && implb (a_on_omit a) (Nat.eqb (a_on a) 1) && implb (a_mn_omit a) (Nat.eqb (a_mn a) 1)
  && forallb wf_bline (a_body a) && ends_counted (a_body a).
Definition wf_hunk (a : hunk_ast) : Prop := wf_hunkb a = true.

(** ** Geometry, from the body alone *)
(** number of lines of one side that precede the first changed line of that side *)
Fixpoint lead (side chg : bline -> bool) (body : list bline) : option nat :=
  match body with
  | [] => None
  | b :: t => if chg b then Some 0%nat
              else match lead side chg t with
                   | Some i => Some (if side b then S i else i)
                   | None => None
                   end
  end.
(** ... that follow the last changed line of that side *)
Definition trail (side chg : bline -> bool) (body : list bline) : option nat := lead side chg (rev body).

Definition spec_side (start1 : N) (side chg : bline -> bool) (body : list bline) : Hunks.side :=
  let start := Z.of_N start1 - 1 in
  let n := Z.of_nat (countb side body) in
  {| sd_first := option_map (fun k => start + Z.of_nat k) (lead side chg body);
     sd_last := option_map (fun t => start + n - 1 - Z.of_nat t) (trail side chg body);
     sd_num := n;
     sd_changed := Z.of_nat (countb chg body);
     sd_start := start |}.

(** min over the sides that have changes, 0 if none *)
Definition ctx_lines (a b : option nat) : Z :=
  match a, b with
  | Some x, Some y => Z.min (Z.of_nat x) (Z.of_nat y)
  | Some x, None => Z.of_nat x
  | None, Some y => Z.of_nat y
  | None, None => 0
  end.

Definition spec_geometry (a : hunk_ast) : hunk :=
  {| h_context := a_ctx a;
     h_orig := spec_side (a_os a) on_orig is_del (a_body a);
     h_mod := spec_side (a_ms a) on_mod is_ins (a_body a);
     h_pre := ctx_lines (lead on_orig is_del (a_body a)) (lead on_mod is_ins (a_body a));
     h_post := ctx_lines (trail on_orig is_del (a_body a)) (trail on_mod is_ins (a_body a)) |}.

Definition total_del (hs : list hunk_ast) : nat := fold_right (fun a n => (countb is_del (a_body a) + n)%nat) 0%nat hs.
Definition total_ins (hs : list hunk_ast) : nat := fold_right (fun a n => (countb is_ins (a_body a) + n)%nat) 0%nat hs.

(** ** Documents: hunks interleaved with separator (non-hunk) lines *)
Definition non_header (l : bytes) : Prop := match_hunk_header l = None.

Fixpoint interleave (seps : list (list bytes)) (hs : list (list bytes)) : list bytes :=
  match seps, hs with
  | s :: seps', h :: hs' => s ++ h ++ interleave seps' hs'
  | s :: _, [] => s
  | [], _ => []
  end.

(* ================================================================================================ *)
(** * Header characterisation *)

Lemma render_range_parse (s : N) (c : option N) (rest : bytes) :
  parse_range (render_range s c ++ " "%byte :: rest) =
  Some (Z.of_N s, option_map Z.of_N c, " "%byte :: rest).
Proof.
  unfold render_range. rewrite <- app_assoc.
  pose proof (parse_range_digits (N_to_dec s) (option_map N_to_dec c) rest) as H.
  destruct c as [k|]; cbn [option_map] in *.
  - rewrite H; [|split; [apply N_to_dec_nonempty|apply N_to_dec_digits]..].
    rewrite !dec_roundtrip. reflexivity.
  - rewrite H; [|split; [apply N_to_dec_nonempty|apply N_to_dec_digits] | exact I].
    rewrite !dec_roundtrip. reflexivity.
Qed.

(** general form: any tail after the closing "@@" *)
Lemma match_hunk_header_core (os : N) (on : option N) (ms : N) (mn : option N) (tl : bytes) :
  match_hunk_header (B "@@ -" ++ render_range os on ++ B " +" ++ render_range ms mn ++ B " @@" ++ tl) =
  match tl with
  | [] => Some (Z.of_N os, option_map Z.of_N on, Z.of_N ms, option_map Z.of_N mn, None)
  | c :: t =>
      if byte_eqb c " "%byte then Some (Z.of_N os, option_map Z.of_N on, Z.of_N ms, option_map Z.of_N mn, Some (until_lf t))
      else if byte_eqb c x0a then Some (Z.of_N os, option_map Z.of_N on, Z.of_N ms, option_map Z.of_N mn, None)
      else None
  end.
Proof.
  unfold match_hunk_header. rewrite strip_prefix_app.
  change (B " +" ++ render_range ms mn ++ B " @@" ++ tl)
    with (" "%byte :: ("+"%byte :: render_range ms mn ++ B " @@" ++ tl)).
  rewrite render_range_parse.
  change (strip_prefix (B " +") (" "%byte :: "+"%byte :: render_range ms mn ++ B " @@" ++ tl))
    with (Some (render_range ms mn ++ B " @@" ++ tl)).
  cbv iota beta.
  change (B " @@" ++ tl) with (" "%byte :: ("@"%byte :: "@"%byte :: tl)).
  rewrite render_range_parse.
  change (strip_prefix (B " @@") (" "%byte :: "@"%byte :: "@"%byte :: tl)) with (Some tl).
  cbv iota beta. reflexivity.
Qed.

(** the rendered header of an AST is parsed back to its numbers; omitted count = absent; context preserved *)
Theorem match_hunk_header_render_hdr (h : hdr) :
  wf_ctx (hd_ctx h) = true ->
  match_hunk_header (render_hdr h) =
  Some (Z.of_N (hd_os h), option_map Z.of_N (hd_on h), Z.of_N (hd_ms h), option_map Z.of_N (hd_mn h), hd_ctx h).
Proof.
  intros Hc. unfold render_hdr. rewrite match_hunk_header_core.
  destruct (hd_ctx h) as [c|]; cbn [render_tail]; [|reflexivity].
  change (byte_eqb " "%byte " "%byte) with true. cbv iota.
  cbn [wf_ctx] in Hc. unfold no_lf in Hc. rewrite (until_lf_id c Hc). reflexivity.
Qed.

Lemma match_header_starts (l : bytes) r : match_hunk_header l = Some r -> bstarts (B "@@") l = true.
Proof.
  unfold match_hunk_header. destruct (strip_prefix (B "@@ -") l) eqn:E; [|discriminate]. intros _.
  apply strip_prefix_starts in E. unfold bstarts in *.
  destruct l as [|a [|b t]]; [vm_compute in E; discriminate| |].
  { change (prefixb byte_eqb (B "@@ -") [a]) with (byte_eqb a "@"%byte && false) in E.
    rewrite andb_false_r in E. discriminate. }
  change (prefixb byte_eqb (B "@@ -") (a :: b :: t))
    with (byte_eqb a "@"%byte && (byte_eqb b "@"%byte && prefixb byte_eqb (B " -") t)) in E.
  change (prefixb byte_eqb (B "@@") (a :: b :: t)) with (byte_eqb a "@"%byte && (byte_eqb b "@"%byte && true)).
  destruct (byte_eqb a "@"%byte), (byte_eqb b "@"%byte); auto.
Qed.

(* ================================================================================================ *)
(** * Parser steps *)

Definition closed (hs : list hunk) (ins del : Z) : pstate :=
  {| ps_hunks := hs; ps_cur := None; ps_oi := 0; ps_mi := 0; ps_ins := ins; ps_del := del |}.

Definition opened (hs : list hunk) (ins del : Z) (ctx : option bytes) (os : Z) (on : option Z) (ms : Z) (mn : option Z) : pstate :=
  {| ps_hunks := hs;
     ps_cur := Some {| oh_context := ctx; oh_orig := new_side os on; oh_mod := new_side ms mn |};
     ps_oi := 0; ps_mi := 0; ps_ins := ins; ps_del := del |}.

(** the state after a body line, before the completion check *)
Definition feed (s : pstate) (b : bline) : pstate :=
  match ps_cur s with
  | None => s
  | Some o =>
      match b with
      | Del _ => {| ps_hunks := ps_hunks s;
                    ps_cur := Some {| oh_context := oh_context o; oh_orig := bump (oh_orig o) (ps_oi s); oh_mod := oh_mod o |};
                    ps_oi := ps_oi s + 1; ps_mi := ps_mi s; ps_ins := ps_ins s; ps_del := ps_del s + 1 |}
      | Ins _ => {| ps_hunks := ps_hunks s;
                    ps_cur := Some {| oh_context := oh_context o; oh_orig := oh_orig o; oh_mod := bump (oh_mod o) (ps_mi s) |};
                    ps_oi := ps_oi s; ps_mi := ps_mi s + 1; ps_ins := ps_ins s + 1; ps_del := ps_del s |}
      | Ctx _ => {| ps_hunks := ps_hunks s; ps_cur := Some o; ps_oi := ps_oi s + 1; ps_mi := ps_mi s + 1;
                    ps_ins := ps_ins s; ps_del := ps_del s |}
      | Marker _ => s
      end
  end.

Lemma bstarts_at2 (l : bytes) :
  bstarts (B "@@") l = match l with a :: b :: _ => byte_eqb a "@"%byte && byte_eqb b "@"%byte | _ => false end.
Proof.
  destruct l as [|a [|b t]]; try reflexivity.
  - change (bstarts (B "@@") [a]) with (byte_eqb a "@"%byte && false). apply andb_false_r.
  - change (bstarts (B "@@") (a :: b :: t)) with (byte_eqb a "@"%byte && (byte_eqb b "@"%byte && true)).
    rewrite andb_true_r. reflexivity.
Qed.

Lemma step_body_line (ig : bool) (s : pstate) (o : open_hunk) (b : bline) :
  ps_cur s = Some o -> wf_bline b = true ->
  step_line ig s (render_line b) = LNext (complete (feed s b)).
Proof.
  intros Hc Hw. unfold step_line, feed. rewrite Hc.
  destruct b as [p|p|p|m]; cbn [render_line].
  - rewrite bstarts_at2. destruct p; reflexivity.
  - rewrite bstarts_at2. destruct p; reflexivity.
  - rewrite bstarts_at2. destruct p; reflexivity.
  - cbn [wf_bline] in Hw. unfold wf_marker in Hw.
    repeat (apply andb_true_iff in Hw; destruct Hw as [Hw ?]).
    repeat match goal with H : negb _ = true |- _ => apply negb_true_iff in H end.
    repeat match goal with H : _ = _ |- _ => rewrite H end. reflexivity.
Qed.

Lemma step_header (ig : bool) (s : pstate) (l : bytes) os on ms mn ctx :
  match_hunk_header l = Some (os, on, ms, mn, ctx) -> ps_cur s = None ->
  step_line ig s l = LNext (complete (opened (ps_hunks s) (ps_ins s) (ps_del s) ctx os on ms mn)).
Proof.
  intros Hm Hc. unfold step_line. rewrite (match_header_starts _ _ Hm), Hm, Hc. reflexivity.
Qed.

Lemma step_header_open (ig : bool) (s : pstate) (l : bytes) r :
  match_hunk_header l = Some r -> ps_cur s <> None -> step_line ig s l = LError.
Proof.
  intros Hm Hc. unfold step_line. rewrite (match_header_starts _ _ Hm), Hm.
  destruct r as [[[[os on] ms] mn] ctx]. destruct (ps_cur s); congruence.
Qed.

(** a line that is neither a header nor (inside a hunk) a body line *)
Definition not_body_line (l : bytes) : Prop :=
  first_is "-"%byte l = false /\ first_is "+"%byte l = false /\ first_is " "%byte l = false
  /\ beq (strip l) GenText.no_newline_marker = false.

Lemma step_garbage_open (ig : bool) (s : pstate) (l : bytes) :
  ps_cur s <> None -> match_hunk_header l = None -> (bstarts (B "@@") l = true \/ not_body_line l) ->
  step_line ig s l = LError.
Proof.
  intros Hc Hm Hl. unfold step_line. rewrite Hm.
  destruct (ps_cur s) as [o|]; [|congruence].
  destruct (bstarts (B "@@") l); [reflexivity|].
  destruct Hl as [Hl|(H1 & H2 & H3 & H4)]; [discriminate|].
  rewrite H1, H2, H3, H4. reflexivity.
Qed.

Lemma step_garbage_closed (ig : bool) (s : pstate) (l : bytes) :
  ps_cur s = None -> match_hunk_header l = None ->
  step_line ig s l = if ig then LNext s else LStop.
Proof.
  intros Hc Hm. unfold step_line. rewrite Hm, Hc. unfold complete. rewrite Hc.
  destruct (bstarts (B "@@") l); reflexivity.
Qed.

Lemma complete_open (s : pstate) (o : open_hunk) :
  ps_cur s = Some o -> (ps_oi s < sd_num (oh_orig o) \/ ps_mi s < sd_num (oh_mod o)) -> complete s = s.
Proof.
  intros Hc H. unfold complete. rewrite Hc.
  destruct ((sd_num (oh_orig o) <=? ps_oi s) && (sd_num (oh_mod o) <=? ps_mi s)) eqn:E; [|reflexivity].
  lia.
Qed.

Lemma complete_fires (s : pstate) (o : open_hunk) :
  ps_cur s = Some o -> sd_num (oh_orig o) <= ps_oi s -> sd_num (oh_mod o) <= ps_mi s ->
  complete s = closed (finalize o :: ps_hunks s) (ps_ins s) (ps_del s).
Proof.
  intros Hc H1 H2. unfold complete. rewrite Hc.
  destruct ((sd_num (oh_orig o) <=? ps_oi s) && (sd_num (oh_mod o) <=? ps_mi s)) eqn:E; [reflexivity|lia].
Qed.

Lemma feed_props (s : pstate) (o : open_hunk) (b : bline) :
  ps_cur s = Some o ->
  exists o1, ps_cur (feed s b) = Some o1
    /\ sd_num (oh_orig o1) = sd_num (oh_orig o) /\ sd_num (oh_mod o1) = sd_num (oh_mod o)
    /\ ps_oi (feed s b) = ps_oi s + (if on_orig b then 1 else 0)
    /\ ps_mi (feed s b) = ps_mi s + (if on_mod b then 1 else 0).
Proof.
  intros Hc. unfold feed. rewrite Hc.
  destruct b; eexists; cbn; (split; [first [reflexivity|eassumption]|]); repeat split; lia.
Qed.

(** running a list of body lines that leaves the hunk open *)
Lemma body_run (ig : bool) : forall (pre : list bline) (s : pstate) (o : open_hunk) (more : list bytes) (n : Z) (lst : bytes),
  ps_cur s = Some o -> forallb wf_bline pre = true ->
  (ps_oi s + Z.of_nat (countb on_orig pre) < sd_num (oh_orig o)
   \/ ps_mi s + Z.of_nat (countb on_mod pre) < sd_num (oh_mod o)) ->
  parse_loop ig s (map render_line pre ++ more) n lst =
  parse_loop ig (fold_left feed pre s) more (n + Z.of_nat (List.length pre)) (last (map render_line pre) lst).
Proof.
  induction pre as [|b pre IH]; intros s o more n lst Hc Hw Hopen.
  - cbn. f_equal. lia.
  - cbn [forallb] in Hw. apply andb_true_iff in Hw as [Hb Hw].
    cbn [map app parse_loop]. rewrite (step_body_line ig s o b Hc Hb).
    destruct (feed_props s o b Hc) as (o1 & Hc1 & Hn1 & Hn2 & Hoi & Hmi).
    cbn [countb] in Hopen.
    rewrite (complete_open _ o1 Hc1) by (rewrite Hn1, Hn2, Hoi, Hmi; destruct (on_orig b), (on_mod b); lia).
    rewrite (IH (feed s b) o1 more (n + 1) (render_line b) Hc1 Hw)
      by (rewrite Hn1, Hn2, Hoi, Hmi; destruct (on_orig b), (on_mod b); lia).
    cbn [fold_left]. rewrite last_cons_default. f_equal. cbn [List.length]. lia.
Qed.

(* ================================================================================================ *)
(** * What a body does to an open hunk *)

Fixpoint run_side (side chg : bline -> bool) (sd : Hunks.side) (i : Z) (body : list bline) : Hunks.side * Z :=
  match body with
  | [] => (sd, i)
  | b :: t => if chg b then run_side side chg (bump sd i) (i + 1) t
              else if side b then run_side side chg sd (i + 1) t
              else run_side side chg sd i t
  end.

Lemma feed_all : forall (body : list bline) (s : pstate) (o : open_hunk),
  ps_cur s = Some o ->
  fold_left feed body s =
  {| ps_hunks := ps_hunks s;
     ps_cur := Some {| oh_context := oh_context o;
                       oh_orig := fst (run_side on_orig is_del (oh_orig o) (ps_oi s) body);
                       oh_mod := fst (run_side on_mod is_ins (oh_mod o) (ps_mi s) body) |};
     ps_oi := snd (run_side on_orig is_del (oh_orig o) (ps_oi s) body);
     ps_mi := snd (run_side on_mod is_ins (oh_mod o) (ps_mi s) body);
     ps_ins := ps_ins s + Z.of_nat (countb is_ins body);
     ps_del := ps_del s + Z.of_nat (countb is_del body) |}.
Proof.
  induction body as [|b t IH]; intros s o Hc.
  - destruct s, o; cbn in *; subst. f_equal; lia.
  - cbn [fold_left]. unfold feed at 2. rewrite Hc.
    destruct b as [p|p|p|m].
    + erewrite IH by reflexivity. cbn [ps_hunks ps_oi ps_mi ps_ins ps_del oh_context oh_orig oh_mod
                                         run_side on_orig on_mod is_del is_ins countb]. f_equal; lia.
    + erewrite IH by reflexivity. cbn [ps_hunks ps_oi ps_mi ps_ins ps_del oh_context oh_orig oh_mod
                                         run_side on_orig on_mod is_del is_ins countb]. f_equal; lia.
    + erewrite IH by reflexivity. cbn [ps_hunks ps_oi ps_mi ps_ins ps_del oh_context oh_orig oh_mod
                                         run_side on_orig on_mod is_del is_ins countb]. f_equal; lia.
    + erewrite IH by eassumption. cbn [run_side on_orig on_mod is_del is_ins countb]. f_equal; lia.
Qed.

(** index (among the lines of one side) of the last changed line *)
Fixpoint last_idx (side chg : bline -> bool) (body : list bline) : option nat :=
  match body with
  | [] => None
  | b :: t => match last_idx side chg t with
              | Some i => Some (if side b then S i else i)
              | None => if chg b then Some 0%nat else None
              end
  end.

Section Side.
  Variables side chg : bline -> bool.
  Hypothesis chg_side : forall b, chg b = true -> side b = true.

  Lemma run_side_spec : forall (body : list bline) (sd : Hunks.side) (i : Z),
    run_side side chg sd i body =
    ({| sd_first := match sd_first sd with
                    | Some f => Some f
                    | None => option_map (fun k => sd_start sd + i + Z.of_nat k) (lead side chg body)
                    end;
        sd_last := match last_idx side chg body with
                   | Some j => Some (sd_start sd + i + Z.of_nat j)
                   | None => sd_last sd
                   end;
        sd_num := sd_num sd;
        sd_changed := sd_changed sd + Z.of_nat (countb chg body);
        sd_start := sd_start sd |},
     i + Z.of_nat (countb side body)).
  Proof.
    induction body as [|b t IH]; intros sd i.
    - cbn [run_side lead last_idx countb option_map]. destruct sd as [f l n c st].
      cbn [sd_first sd_last sd_num sd_changed sd_start]. f_equal; [|lia]. f_equal; [destruct f; reflexivity|lia].
    - cbn [run_side lead last_idx countb]. destruct (chg b) eqn:Ec.
      + rewrite (chg_side b Ec). rewrite IH. cbn [bump sd_first sd_last sd_num sd_changed sd_start].
        f_equal; [|lia]. f_equal.
        * destruct (sd_first sd); cbn [option_map]; first [reflexivity | f_equal; lia | lia].
        * destruct (last_idx side chg t); first [reflexivity | f_equal; lia | lia].
        * lia.
      + destruct (side b) eqn:Es; rewrite IH; (f_equal; try lia); (f_equal; try lia).
        * destruct (sd_first sd); [reflexivity|]. destruct (lead side chg t); cbn [option_map]; first [reflexivity | f_equal; lia].
        * destruct (last_idx side chg t); first [reflexivity | f_equal; lia].
        * destruct (sd_first sd); [reflexivity|]. destruct (lead side chg t); cbn [option_map]; first [reflexivity | f_equal; lia].
        * destruct (last_idx side chg t); first [reflexivity | f_equal; lia].
  Qed.

  Lemma countb_app f (l1 l2 : list bline) : countb f (l1 ++ l2) = (countb f l1 + countb f l2)%nat.
  Proof. induction l1; cbn [app countb]; lia. Qed.

  Lemma countb_rev f (l : list bline) : countb f (rev l) = countb f l.
  Proof. induction l; cbn [rev countb]; [reflexivity|]. rewrite countb_app. cbn [countb]. lia. Qed.

  Lemma lead_lt : forall body k, lead side chg body = Some k -> (k < countb side body)%nat.
  Proof.
    induction body as [|b t IH]; intros k; cbn [lead countb]; [discriminate|].
    destruct (chg b) eqn:Ec.
    - rewrite (chg_side b Ec). intros [= <-]. lia.
    - destruct (lead side chg t) as [i|]; [|discriminate]. specialize (IH i eq_refl).
      destruct (side b); intros [= <-]; lia.
  Qed.

  Lemma lead_app (l1 l2 : list bline) :
    lead side chg (l1 ++ l2) =
    match lead side chg l1 with
    | Some i => Some i
    | None => option_map (fun k => (countb side l1 + k)%nat) (lead side chg l2)
    end.
  Proof.
    induction l1 as [|b t IH]; cbn [app lead countb].
    - destruct (lead side chg l2); reflexivity.
    - destruct (chg b) eqn:Ec; [reflexivity|]. rewrite IH.
      destruct (lead side chg t); [reflexivity|].
      destruct (lead side chg l2); cbn [option_map]; [|reflexivity].
      destruct (side b); f_equal; lia.
  Qed.

  Lemma last_idx_trail : forall body,
    last_idx side chg body =
    option_map (fun t => (countb side body - 1 - t)%nat) (trail side chg body).
  Proof.
    unfold trail. induction body as [|b t IH]; [reflexivity|].
    cbn [last_idx rev countb]. rewrite lead_app, IH.
    destruct (lead side chg (rev t)) as [u|] eqn:El; cbn [option_map].
    - apply lead_lt in El. rewrite countb_rev in El. destruct (side b); f_equal; lia.
    - cbn [lead]. destruct (chg b) eqn:Ec; cbn [option_map]; [|reflexivity].
      rewrite (chg_side b Ec), countb_rev. f_equal. lia.
  Qed.
End Side.

(* ================================================================================================ *)
(** * One well-formed hunk *)

Lemma del_orig : forall b, is_del b = true -> on_orig b = true.
Proof. destruct b; auto. Qed.
Lemma ins_mod : forall b, is_ins b = true -> on_mod b = true.
Proof. destruct b; auto. Qed.

Definition decl (c : option N) : Z := match c with Some k => Z.of_N k | None => 1 end.

Lemma new_side_hdr (s : N) (c : option N) :
  new_side (Z.of_N s) (option_map Z.of_N c) =
  {| sd_first := None; sd_last := None; sd_num := decl c; sd_changed := 0; sd_start := Z.of_N s - 1 |}.
Proof. destruct c; reflexivity. Qed.

Lemma wf_hunk_parts (a : hunk_ast) : wf_hunk a ->
  wf_ctx (a_ctx a) = true /\ decl (hd_on (hdr_of a)) = Z.of_nat (a_on a) /\ decl (hd_mn (hdr_of a)) = Z.of_nat (a_mn a)
  /\ forallb wf_bline (a_body a) = true /\ ends_counted (a_body a) = true.
Proof.
  unfold wf_hunk, wf_hunkb. intros H.
  apply andb_true_iff in H as [H He]. apply andb_true_iff in H as [H Hb].
  apply andb_true_iff in H as [H Hm]. apply andb_true_iff in H as [Hc Ho].
  repeat split; auto; cbn [hdr_of hd_on hd_mn].
  - destruct (a_on_omit a); cbn [decl implb] in *; [apply Nat.eqb_eq in Ho|]; lia.
  - destruct (a_mn_omit a); cbn [decl implb] in *; [apply Nat.eqb_eq in Hm|]; lia.
Qed.

Lemma ctx_lines_pre (so sm : Z) (a b : option nat) :
  zmin_list (side_pre {| sd_first := option_map (fun k => so + Z.of_nat k) a; sd_last := None; sd_num := 0; sd_changed := 0; sd_start := so |}
             ++ side_pre {| sd_first := option_map (fun k => sm + Z.of_nat k) b; sd_last := None; sd_num := 0; sd_changed := 0; sd_start := sm |})
  = ctx_lines a b.
Proof.
  unfold side_pre; destruct a, b; cbn [option_map sd_first sd_start app zmin_list fold_left ctx_lines]; lia.
Qed.

Lemma hunk_final (a : hunk_ast) (hs : list hunk) (ins del : Z) :
  wf_hunk a ->
  complete (fold_left feed (a_body a)
     (opened hs ins del (a_ctx a) (Z.of_N (a_os a)) (option_map Z.of_N (hd_on (hdr_of a)))
                                 (Z.of_N (a_ms a)) (option_map Z.of_N (hd_mn (hdr_of a))))) =
  closed (spec_geometry a :: hs) (ins + Z.of_nat (countb is_ins (a_body a))) (del + Z.of_nat (countb is_del (a_body a))).
Proof.
  intros Hwf. destruct (wf_hunk_parts a Hwf) as (Hctx & Hon & Hmn & Hb & He).
  unfold opened. rewrite !new_side_hdr, Hon, Hmn.
  erewrite feed_all by reflexivity.
  cbn [ps_hunks ps_oi ps_mi ps_ins ps_del oh_context oh_orig oh_mod].
  rewrite (run_side_spec on_orig is_del del_orig), (run_side_spec on_mod is_ins ins_mod).
  cbn [fst snd sd_first sd_last sd_num sd_changed sd_start].
  erewrite complete_fires; [|reflexivity|cbn [oh_orig oh_mod sd_num ps_oi ps_mi]; unfold a_on, a_mn; lia..].
  cbn [ps_hunks ps_ins ps_del]. f_equal. f_equal.
  unfold finalize, spec_geometry, spec_side. cbn [oh_context oh_orig oh_mod].
  rewrite (last_idx_trail on_orig is_del del_orig), (last_idx_trail on_mod is_ins ins_mod).
  unfold a_on, a_mn.
  assert (To : forall t, trail on_orig is_del (a_body a) = Some t -> (t < countb on_orig (a_body a))%nat).
  { intros t Ht. apply (lead_lt on_orig is_del del_orig) in Ht. rewrite countb_rev in Ht. exact Ht. }
  assert (Tm : forall t, trail on_mod is_ins (a_body a) = Some t -> (t < countb on_mod (a_body a))%nat).
  { intros t Ht. apply (lead_lt on_mod is_ins ins_mod) in Ht. rewrite countb_rev in Ht. exact Ht. }
  destruct (lead on_orig is_del (a_body a)) as [lo|], (lead on_mod is_ins (a_body a)) as [lm|],
           (trail on_orig is_del (a_body a)) as [t_o|], (trail on_mod is_ins (a_body a)) as [tm|];
    try specialize (To _ eq_refl); try specialize (Tm _ eq_refl);
    cbn [option_map side_pre side_post sd_first sd_last sd_num sd_start app zmin_list fold_left ctx_lines];
    (f_equal; try lia; (f_equal; first [reflexivity | f_equal; lia | lia])).
Qed.

Lemma fold_feed_cur (body : list bline) (s : pstate) (o : open_hunk) :
  ps_cur s = Some o -> exists o', ps_cur (fold_left feed body s) = Some o'.
Proof. intros H. rewrite (feed_all body s o H). eexists. reflexivity. Qed.

Lemma list_last_case {A} (l : list A) : l = [] \/ exists pre b, l = pre ++ [b].
Proof. destruct l as [|a l]; [left; reflexivity|right]. destruct (exists_last (l := a :: l)) as (pre & b & E); [discriminate|]. eauto. Qed.

Lemma step_render_hdr (ig : bool) (h : hdr) (hs : list hunk) (ins del : Z) :
  wf_ctx (hd_ctx h) = true ->
  step_line ig (closed hs ins del) (render_hdr h) =
  LNext (complete (opened hs ins del (hd_ctx h) (Z.of_N (hd_os h)) (option_map Z.of_N (hd_on h))
                          (Z.of_N (hd_ms h)) (option_map Z.of_N (hd_mn h)))).
Proof.
  intros Hc. erewrite step_header; [reflexivity | apply match_hunk_header_render_hdr; exact Hc | reflexivity].
Qed.

Lemma hunk_run (ig : bool) (a : hunk_ast) : wf_hunk a ->
  forall (hs : list hunk) (ins del : Z) (more : list bytes) (n : Z) (lst : bytes),
  parse_loop ig (closed hs ins del) (render_hunk a ++ more) n lst =
  parse_loop ig (closed (spec_geometry a :: hs) (ins + Z.of_nat (countb is_ins (a_body a)))
                        (del + Z.of_nat (countb is_del (a_body a))))
             more (n + Z.of_nat (List.length (render_hunk a))) (last (render_hunk a) lst).
Proof.
  intros Hwf hs ins del more n lst.
  destruct (wf_hunk_parts a Hwf) as (Hctx & Hon & Hmn & Hb & He).
  pose proof (hunk_final a hs ins del Hwf) as HF.
  unfold render_hunk, render_header. cbn [app parse_loop].
  rewrite step_render_hdr by exact Hctx.
  change (hd_ctx (hdr_of a)) with (a_ctx a). change (hd_os (hdr_of a)) with (a_os a).
  change (hd_ms (hdr_of a)) with (a_ms a).
  set (s0 := opened hs ins del (a_ctx a) (Z.of_N (a_os a)) (option_map Z.of_N (hd_on (hdr_of a)))
                    (Z.of_N (a_ms a)) (option_map Z.of_N (hd_mn (hdr_of a)))) in *.
  rewrite last_cons_default. cbn [List.length].
  destruct (list_last_case (a_body a)) as [E|(pre & b & E)].
  - rewrite E in *. cbn [fold_left map app List.length last] in *. rewrite HF. f_equal; lia.
  - assert (Hs0 : ps_cur s0 = Some {| oh_context := a_ctx a;
                                      oh_orig := new_side (Z.of_N (a_os a)) (option_map Z.of_N (hd_on (hdr_of a)));
                                      oh_mod := new_side (Z.of_N (a_ms a)) (option_map Z.of_N (hd_mn (hdr_of a))) |})
      by reflexivity.
    unfold ends_counted in He. unfold a_on, a_mn in Hon, Hmn. rewrite E in He, Hb, Hon, Hmn.
    rewrite rev_app_distr in He. cbn [rev app] in He.
    rewrite forallb_app in Hb. apply andb_true_iff in Hb as [Hpre Hb1]. cbn [forallb] in Hb1. rewrite andb_true_r in Hb1.
    rewrite countb_app in Hon, Hmn. cbn [countb] in Hon, Hmn.
    assert (Hopen : ps_oi s0 + Z.of_nat (countb on_orig pre) < decl (hd_on (hdr_of a))
                    \/ ps_mi s0 + Z.of_nat (countb on_mod pre) < decl (hd_mn (hdr_of a))).
    { change (ps_oi s0) with 0. change (ps_mi s0) with 0. destruct b; cbn in He; try discriminate;
        cbn [on_orig on_mod] in Hon, Hmn; lia. }
    rewrite (complete_open s0 _ Hs0)
      by (cbn [oh_orig oh_mod]; rewrite !new_side_hdr; cbn [sd_num]; change (ps_oi s0) with 0 in *; change (ps_mi s0) with 0 in *; lia).
    rewrite E at 1. rewrite map_app, <- app_assoc. cbn [map app].
    rewrite (body_run ig pre s0 _ _ _ _ Hs0 Hpre)
      by (cbn [oh_orig oh_mod]; rewrite !new_side_hdr; cbn [sd_num]; exact Hopen).
    destruct (fold_feed_cur pre s0 _ Hs0) as (o' & Ho').
    cbn [parse_loop]. rewrite (step_body_line ig _ o' b Ho' Hb1).
    replace (feed (fold_left feed pre s0) b) with (fold_left feed (a_body a) s0)
      by (rewrite E, fold_left_app; reflexivity).
    rewrite HF. f_equal.
    + rewrite map_length, E, app_length. cbn [List.length]. lia.
    + rewrite E, map_app. cbn [map]. rewrite last_last. reflexivity.
Qed.

(* ================================================================================================ *)
(** * Documents *)

Lemma parse_loop_eq ig s s' more n n' l l' :
  s = s' -> n = n' -> l = l' -> parse_loop ig s more n l = parse_loop ig s' more n' l'.
Proof. intros; subst; reflexivity. Qed.

Lemma closed_eq hs hs' i i' d d' : hs = hs' -> i = i' -> d = d' -> closed hs i d = closed hs' i' d'.
Proof. intros; subst; reflexivity. Qed.

Lemma sep_run : forall (sep : list bytes) (s : pstate) (more : list bytes) (n : Z) (lst : bytes),
  ps_cur s = None -> Forall non_header sep ->
  parse_loop true s (sep ++ more) n lst = parse_loop true s more (n + Z.of_nat (List.length sep)) (last sep lst).
Proof.
  induction sep as [|l sep IH]; intros s more n lst Hc Hs.
  - cbn. f_equal. lia.
  - inversion Hs as [|? ? Hl Hs']; subst. cbn [app parse_loop].
    rewrite (step_garbage_closed true s l Hc Hl). rewrite (IH s more (n + 1) l Hc Hs').
    rewrite last_cons_default. f_equal. cbn [List.length]. lia.
Qed.

(** separator lists: non-header lines; when garbage is not ignored there are none *)
Definition sep_ok (ig : bool) (sep : list bytes) : Prop := Forall non_header sep /\ (ig = false -> sep = []).
Definition seps_ok (ig : bool) (seps : list (list bytes)) : Prop := Forall (sep_ok ig) seps.

Lemma sep_run_ok (ig : bool) (sep : list bytes) (hs : list hunk) (ins del : Z) (more : list bytes) (n : Z) (lst : bytes) :
  sep_ok ig sep ->
  parse_loop ig (closed hs ins del) (sep ++ more) n lst =
  parse_loop ig (closed hs ins del) more (n + Z.of_nat (List.length sep)) (last sep lst).
Proof.
  intros [Hs He]. destruct ig.
  - apply sep_run; [reflexivity|exact Hs].
  - rewrite (He eq_refl). cbn. f_equal. lia.
Qed.

Lemma run_prefix (ig : bool) : forall (hs : list hunk_ast) (seps : list (list bytes)),
  Forall wf_hunk hs -> List.length seps = S (List.length hs) -> seps_ok ig seps ->
  forall (acc : list hunk) (ins del : Z) (more : list bytes) (n : Z) (lst : bytes),
  parse_loop ig (closed acc ins del) (interleave seps (map render_hunk hs) ++ more) n lst =
  parse_loop ig (closed (rev (map spec_geometry hs) ++ acc) (ins + Z.of_nat (total_ins hs)) (del + Z.of_nat (total_del hs)))
             more (n + Z.of_nat (List.length (interleave seps (map render_hunk hs))))
             (last (interleave seps (map render_hunk hs)) lst).
Proof.
  induction hs as [|a hs IH]; intros seps Hwf Hlen Hseps acc ins del more n lst.
  - destruct seps as [|s [|s2 seps]]; try discriminate. inversion Hseps as [|? ? Hs _]; subst.
    cbn [map interleave]. rewrite (sep_run_ok ig s acc ins del more n lst Hs).
    apply parse_loop_eq; [apply closed_eq; cbn; [reflexivity|lia|lia]|reflexivity|reflexivity].
  - destruct seps as [|s seps]; [discriminate|]. inversion Hseps as [|? ? Hs Hseps']; subst.
    inversion Hwf as [|? ? Ha Hwf']; subst. cbn [List.length] in Hlen.
    cbn [map interleave]. rewrite <- !app_assoc.
    rewrite (sep_run_ok ig s acc ins del _ n lst Hs).
    rewrite (hunk_run ig a Ha).
    rewrite (IH seps Hwf' ltac:(lia) Hseps').
    apply parse_loop_eq; [apply closed_eq| |].
    + cbn [map rev]. rewrite <- app_assoc. reflexivity.
    + cbn [total_ins fold_right]. fold (total_ins hs). lia.
    + cbn [total_del fold_right]. fold (total_del hs). lia.
    + rewrite !app_length. lia.
    + rewrite !last_app_default. reflexivity.
Qed.

Lemma interleave_nils (hs : list (list bytes)) : interleave (repeat [] (S (List.length hs))) hs = concat hs.
Proof. induction hs as [|h hs IH]; [reflexivity|]. cbn [List.length repeat interleave concat app] in *. rewrite IH. reflexivity. Qed.

Lemma seps_ok_nils (ig : bool) (k : nat) : seps_ok ig (repeat [] k).
Proof. induction k; constructor; auto. split; [constructor|reflexivity]. Qed.

Lemma init_closed : init_pstate = closed [] 0 0.
Proof. reflexivity. Qed.

Lemma frev_rev_app_nil {A} (l : list A) : frev (rev l ++ []) = l.
Proof. rewrite app_nil_r, frev_rev. apply rev_involutive. Qed.

(** ** C14, tolerant mode *)
Theorem C14_tolerant_thm : forall (hs : list hunk_ast) (seps : list (list bytes)),
  Forall wf_hunk hs -> List.length seps = S (List.length hs) -> Forall (Forall non_header) seps ->
  get_unified_diff_hunks (interleave seps (map render_hunk hs)) true =
  HunksOk (map spec_geometry hs) (Z.of_nat (List.length (interleave seps (map render_hunk hs))))
          (Z.of_nat (total_del hs)) (Z.of_nat (total_ins hs)).
Proof.
  intros hs seps Hwf Hlen Hseps. unfold get_unified_diff_hunks. rewrite init_closed.
  rewrite <- (app_nil_r (interleave seps (map render_hunk hs))) at 1.
  rewrite (run_prefix true hs seps Hwf Hlen).
  - cbn [parse_loop closed ps_cur ps_hunks ps_del ps_ins]. rewrite frev_rev_app_nil. f_equal; lia.
  - eapply Forall_impl; [|exact Hseps]. intros s Hs. split; [exact Hs|discriminate].
Qed.

Corollary C14_tolerant_single : forall (a : hunk_ast) (before after : list bytes),
  wf_hunk a -> Forall non_header before -> Forall non_header after ->
  get_unified_diff_hunks (before ++ render_hunk a ++ after) true =
  HunksOk [spec_geometry a] (Z.of_nat (List.length (before ++ render_hunk a ++ after)))
          (Z.of_nat (countb is_del (a_body a))) (Z.of_nat (countb is_ins (a_body a))).
Proof.
  intros a before after Hwf Hb Ha.
  pose proof (C14_tolerant_thm [a] [before; after]) as H. cbn [map interleave total_del total_ins fold_right] in H.
  rewrite !Nat.add_0_r in H. apply H; auto.
Qed.

(** ** C14, strict mode: parsing stops at the first non-hunk line after a complete hunk *)
Theorem C14_strict_thm : forall (hs : list hunk_ast) (rest : list bytes),
  Forall wf_hunk hs ->
  (rest = [] \/ exists g t, rest = g :: t /\ non_header g) ->
  get_unified_diff_hunks (concat (map render_hunk hs) ++ rest) false =
  HunksOk (map spec_geometry hs) (Z.of_nat (List.length (concat (map render_hunk hs))))
          (Z.of_nat (total_del hs)) (Z.of_nat (total_ins hs)).
Proof.
  intros hs rest Hwf Hrest. unfold get_unified_diff_hunks. rewrite init_closed.
  rewrite <- (interleave_nils (map render_hunk hs)). rewrite map_length.
  rewrite (run_prefix false hs _ Hwf); [|rewrite repeat_length; reflexivity|apply seps_ok_nils].
  destruct Hrest as [->|(g & t & -> & Hg)].
  - cbn [parse_loop closed ps_cur ps_hunks ps_del ps_ins]. rewrite frev_rev_app_nil. f_equal; lia.
  - cbn [parse_loop]. rewrite (step_garbage_closed false (closed _ _ _) g eq_refl Hg).
    cbn [closed ps_hunks ps_del ps_ins]. rewrite frev_rev_app_nil. f_equal; lia.
Qed.

(* ================================================================================================ *)
(** * Damage *)

(** an open hunk: a header and body lines that do not reach both declared counts *)
Definition open_fragment (h : hdr) (pre : list bline) : Prop :=
  wf_ctx (hd_ctx h) = true /\ forallb wf_bline pre = true
  /\ (Z.of_nat (countb on_orig pre) < decl (hd_on h) \/ Z.of_nat (countb on_mod pre) < decl (hd_mn h)).

Definition render_open (h : hdr) (pre : list bline) : list bytes := render_hdr h :: map render_line pre.

Lemma open_run (ig : bool) (h : hdr) (pre : list bline) : open_fragment h pre ->
  forall (hs : list hunk) (ins del : Z) (more : list bytes) (n : Z) (lst : bytes),
  exists s', ps_cur s' <> None /\
    parse_loop ig (closed hs ins del) (render_open h pre ++ more) n lst =
    parse_loop ig s' more (n + Z.of_nat (List.length (render_open h pre))) (last (render_open h pre) lst).
Proof.
  intros (Hctx & Hpre & Hopen) hs ins del more n lst.
  unfold render_open. cbn [app parse_loop]. rewrite (step_render_hdr ig h hs ins del Hctx).
  set (s0 := opened hs ins del (hd_ctx h) (Z.of_N (hd_os h)) (option_map Z.of_N (hd_on h))
                    (Z.of_N (hd_ms h)) (option_map Z.of_N (hd_mn h))).
  assert (Hs0 : ps_cur s0 = Some {| oh_context := hd_ctx h;
                                    oh_orig := new_side (Z.of_N (hd_os h)) (option_map Z.of_N (hd_on h));
                                    oh_mod := new_side (Z.of_N (hd_ms h)) (option_map Z.of_N (hd_mn h)) |})
    by reflexivity.
  rewrite (complete_open s0 _ Hs0)
    by (cbn [oh_orig oh_mod]; rewrite !new_side_hdr; cbn [sd_num]; change (ps_oi s0) with 0; change (ps_mi s0) with 0; lia).
  rewrite (body_run ig pre s0 _ _ _ _ Hs0 Hpre)
    by (cbn [oh_orig oh_mod]; rewrite !new_side_hdr; cbn [sd_num]; change (ps_oi s0) with 0; change (ps_mi s0) with 0; lia).
  destruct (fold_feed_cur pre s0 _ Hs0) as (o' & Ho').
  exists (fold_left feed pre s0). split; [congruence|].
  rewrite last_cons_default. apply parse_loop_eq; [reflexivity| |reflexivity].
  cbn [List.length]. rewrite map_length. lia.
Qed.

(** a proper prefix of the body of a well-formed hunk leaves the hunk open *)
Lemma wf_prefix_open (a : hunk_ast) (k : nat) :
  wf_hunk a -> (k < List.length (a_body a))%nat -> open_fragment (hdr_of a) (firstn k (a_body a)).
Proof.
  intros Hwf Hk. destruct (wf_hunk_parts a Hwf) as (Hctx & Hon & Hmn & Hb & He).
  unfold open_fragment. split; [exact Hctx|].
  rewrite <- (firstn_skipn k (a_body a)) in Hb, He. unfold a_on, a_mn in Hon, Hmn.
  rewrite <- (firstn_skipn k (a_body a)) in Hon, Hmn.
  rewrite forallb_app in Hb. apply andb_true_iff in Hb as [Hb1 _]. split; [exact Hb1|].
  rewrite Hon, Hmn, !countb_app.
  destruct (list_last_case (skipn k (a_body a))) as [E|(pre & b & E)].
  - apply (f_equal (@List.length _)) in E. rewrite skipn_length in E. cbn in E. lia.
  - rewrite E in He |- *. unfold ends_counted in He. rewrite app_assoc, rev_app_distr in He. cbn [rev app] in He.
    rewrite !countb_app. cbn [countb]. destruct b; cbn in He; try discriminate; cbn [on_orig on_mod]; lia.
Qed.

Definition damage_result (ig : bool) (lines : list bytes) (l : bytes) (n : Z) (eof : bool) : Prop :=
  get_unified_diff_hunks lines ig = Malformed l n eof.

Section Damage.
  Variable ig : bool.
  Variables (hs : list hunk_ast) (seps : list (list bytes)).
  Hypothesis Hwf : Forall wf_hunk hs.
  Hypothesis Hlen : List.length seps = S (List.length hs).
  Hypothesis Hseps : seps_ok ig seps.
  Variables (h : hdr) (pre : list bline).
  Hypothesis Hopen : open_fragment h pre.

  Let P := interleave seps (map render_hunk hs).
  Let F := render_open h pre.

  Lemma damage_state : forall more,
    exists s', ps_cur s' <> None /\
      get_unified_diff_hunks (P ++ F ++ more) ig =
      parse_loop ig s' more (Z.of_nat (List.length (P ++ F))) (last F []).
  Proof.
    intros more. unfold get_unified_diff_hunks. rewrite init_closed.
    unfold P. rewrite (run_prefix ig hs seps Hwf Hlen Hseps).
    edestruct (open_run ig h pre Hopen) as (s' & Hs' & E). exists s'. split; [exact Hs'|].
    rewrite E. fold P F. apply parse_loop_eq; [reflexivity| |].
    - rewrite app_length. lia.
    - unfold F, render_open. rewrite !last_cons_default. reflexivity.
  Qed.

  (** (a) the lines end while the hunk is open *)
  Lemma damage_eof :
    get_unified_diff_hunks (P ++ F) ig = Malformed (last F []) (Z.of_nat (List.length (P ++ F))) true.
  Proof.
    destruct (damage_state []) as (s' & Hs' & E). rewrite app_nil_r in E. rewrite E.
    cbn [parse_loop]. destruct (ps_cur s'); [reflexivity|congruence].
  Qed.

  (** (b) a non-header line that starts with "@@" or is no context/insert/delete/marker line *)
  Lemma damage_garbage (bad : bytes) (rest : list bytes) :
    non_header bad -> (bstarts (B "@@") bad = false -> not_body_line bad) ->
    get_unified_diff_hunks (P ++ F ++ bad :: rest) ig = Malformed bad (Z.of_nat (List.length (P ++ F)) + 1) false.
  Proof.
    intros Hnh Hbad. destruct (damage_state (bad :: rest)) as (s' & Hs' & E). rewrite E.
    cbn [parse_loop]. rewrite (step_garbage_open ig s' bad Hs' Hnh); [reflexivity|].
    destruct (bstarts (B "@@") bad); auto.
  Qed.

  (** (c) a hunk header *)
  Lemma damage_header (bad : bytes) (rest : list bytes) r :
    match_hunk_header bad = Some r ->
    get_unified_diff_hunks (P ++ F ++ bad :: rest) ig = Malformed bad (Z.of_nat (List.length (P ++ F)) + 1) false.
  Proof.
    intros Hm. destruct (damage_state (bad :: rest)) as (s' & Hs' & E). rewrite E.
    cbn [parse_loop]. rewrite (step_header_open ig s' bad r Hm Hs'). reflexivity.
  Qed.
End Damage.

Lemma not_at_non_header (l : bytes) : bstarts (B "@@") l = false -> non_header l.
Proof.
  intros H. unfold non_header. destruct (match_hunk_header l) eqn:E; [|reflexivity].
  apply match_header_starts in E. congruence.
Qed.

Theorem C14_damage_thm : forall (ig : bool) (hs : list hunk_ast) (seps : list (list bytes)) (h : hdr) (pre : list bline),
  Forall wf_hunk hs -> List.length seps = S (List.length hs) -> seps_ok ig seps -> open_fragment h pre ->
  let P := interleave seps (map render_hunk hs) in
  let F := render_open h pre in
  (* (a) *)
  get_unified_diff_hunks (P ++ F) ig = Malformed (last F []) (Z.of_nat (List.length (P ++ F))) true
  (* (b) *)
  /\ (forall bad rest, bstarts (B "@@") bad = false -> not_body_line bad ->
        get_unified_diff_hunks (P ++ F ++ bad :: rest) ig = Malformed bad (Z.of_nat (List.length (P ++ F)) + 1) false)
  (* (b') a line starting with "@@" that is not a header *)
  /\ (forall bad rest, bstarts (B "@@") bad = true -> non_header bad ->
        get_unified_diff_hunks (P ++ F ++ bad :: rest) ig = Malformed bad (Z.of_nat (List.length (P ++ F)) + 1) false)
  (* (c) *)
  /\ (forall bad rest r, match_hunk_header bad = Some r ->
        get_unified_diff_hunks (P ++ F ++ bad :: rest) ig = Malformed bad (Z.of_nat (List.length (P ++ F)) + 1) false).
Proof.
  intros ig hs seps h pre Hwf Hlen Hseps Hopen P F. repeat split.
  - apply damage_eof; assumption.
  - intros bad rest H1 H2. apply damage_garbage; auto. apply not_at_non_header; assumption.
  - intros bad rest H1 H2. apply damage_garbage; auto. congruence.
  - intros bad rest r Hm. eapply damage_header; eassumption.
Qed.

(* ================================================================================================ *)
(** * No other outcome, and errors name an existing line *)

Lemma parse_loop_shape (ig : bool) : forall (lines pre : list bytes) (s : pstate) (lst : bytes),
  (ps_cur s <> None -> exists pre', pre = pre' ++ [lst]) ->
  let r := parse_loop ig s lines (Z.of_nat (List.length pre)) lst in
  (exists hs n d i, r = HunksOk hs n d i /\ Z.of_nat (List.length pre) <= n <= Z.of_nat (List.length (pre ++ lines)))
  \/ (exists l n e, r = Malformed l n e /\ 1 <= n <= Z.of_nat (List.length (pre ++ lines))
                    /\ nth_error (pre ++ lines) (Z.to_nat (n - 1)) = Some l
                    /\ (e = true -> n = Z.of_nat (List.length (pre ++ lines)))).
Proof.
  induction lines as [|l t IH]; intros pre s lst Hinv; cbn zeta.
  - cbn [parse_loop]. rewrite app_nil_r. destruct (ps_cur s) as [o|].
    + right. destruct Hinv as (pre' & ->); [discriminate|].
      exists lst, (Z.of_nat (List.length (pre' ++ [lst]))), true.
      rewrite app_length. cbn [List.length]. repeat split; try lia.
      replace (Z.to_nat (Z.of_nat (List.length pre' + 1) - 1)) with (List.length pre' + 0)%nat by lia.
      rewrite nth_error_app2 by lia. replace (List.length pre' + 0 - List.length pre')%nat with 0%nat by lia. reflexivity.
    + left. do 4 eexists. split; [reflexivity|lia].
  - cbn [parse_loop]. rewrite app_length. cbn [List.length].
    destruct (step_line ig s l) as [s'| |].
    + specialize (IH (pre ++ [l]) s' l (fun _ => ex_intro _ pre eq_refl)). cbn zeta in IH.
      rewrite app_length in IH. cbn [List.length] in IH.
      replace (Z.of_nat (List.length pre + 1)) with (Z.of_nat (List.length pre) + 1) in IH by lia.
      rewrite <- app_assoc in IH. cbn [app] in IH. rewrite app_length in IH. cbn [List.length] in IH.
      destruct IH as [(hs & n & d & i & E & Hn)|(l' & n & e & E & Hn & Hnth & He)].
      * left. exists hs, n, d, i. split; [exact E|lia].
      * right. exists l', n, e. repeat split; auto; lia.
    + left. do 4 eexists. split; [reflexivity|lia].
    + right. exists l, (Z.of_nat (List.length pre) + 1), false. repeat split; try lia; try discriminate.
      replace (Z.to_nat (Z.of_nat (List.length pre) + 1 - 1)) with (List.length pre + 0)%nat by lia.
      rewrite nth_error_app2 by lia. replace (List.length pre + 0 - List.length pre)%nat with 0%nat by lia. reflexivity.
Qed.

Theorem C14_no_other_thm : forall (lines : list bytes) (ig : bool),
  (exists hs n d i, get_unified_diff_hunks lines ig = HunksOk hs n d i /\ 0 <= n <= Z.of_nat (List.length lines))
  \/ (exists l n e, get_unified_diff_hunks lines ig = Malformed l n e
                    /\ 1 <= n <= Z.of_nat (List.length lines)
                    /\ nth_error lines (Z.to_nat (n - 1)) = Some l
                    /\ (e = true -> n = Z.of_nat (List.length lines))).
Proof.
  intros lines ig. unfold get_unified_diff_hunks.
  pose proof (parse_loop_shape ig lines [] init_pstate []) as H. cbn zeta in H. cbn [List.length app] in H.
  apply H. cbn. congruence.
Qed.

Theorem C14_empty : forall ig, get_unified_diff_hunks [] ig = HunksOk [] 0 0 0.
Proof. reflexivity. Qed.

(* ================================================================================================ *)
(** * Corollaries in terms of hunk ASTs *)

Theorem match_hunk_header_render_header (a : hunk_ast) : wf_hunk a ->
  match_hunk_header (render_header a) =
  Some (Z.of_N (a_os a), (if a_on_omit a then None else Some (Z.of_nat (a_on a))),
        Z.of_N (a_ms a), (if a_mn_omit a then None else Some (Z.of_nat (a_mn a))), a_ctx a).
Proof.
  intros Hwf. destruct (wf_hunk_parts a Hwf) as (Hctx & _).
  unfold render_header. rewrite match_hunk_header_render_hdr by exact Hctx.
  cbn [hdr_of hd_os hd_on hd_ms hd_mn hd_ctx].
  destruct (a_on_omit a), (a_mn_omit a); cbn [option_map]; repeat f_equal; lia.
Qed.

(** a well-formed hunk cut short anywhere (header alone, or header and a proper prefix of its body) *)
Theorem C14_damage_truncated : forall (ig : bool) (hs : list hunk_ast) (seps : list (list bytes)) (a : hunk_ast) (k : nat),
  Forall wf_hunk hs -> List.length seps = S (List.length hs) -> seps_ok ig seps ->
  wf_hunk a -> (k < List.length (a_body a))%nat ->
  let lines := interleave seps (map render_hunk hs) ++ firstn (S k) (render_hunk a) in
  get_unified_diff_hunks lines ig = Malformed (last lines []) (Z.of_nat (List.length lines)) true.
Proof.
  intros ig hs seps a k Hwf Hlen Hseps Ha Hk lines.
  pose proof (damage_eof ig hs seps Hwf Hlen Hseps (hdr_of a) (firstn k (a_body a)) (wf_prefix_open a k Ha Hk)) as H.
  unfold lines.
  change (firstn (S k) (render_hunk a)) with (render_header a :: firstn k (map render_line (a_body a))).
  rewrite firstn_map.
  change (render_header a :: map render_line (firstn k (a_body a))) with (render_open (hdr_of a) (firstn k (a_body a))).
  rewrite H. f_equal. rewrite last_app_default. unfold render_open. rewrite !last_cons_default. reflexivity.
Qed.

(* ================================================================================================ *)
(** * Examples: the hypotheses are satisfiable, and the model computes the spec geometry *)

Definition ex_marker : bytes := B "\ No newline at end of file".
Definition ex_h1 : hunk_ast :=
  {| a_os := 1; a_on_omit := false; a_ms := 1; a_mn_omit := false; a_ctx := Some (B "def f():");
     a_body := [Ctx (B "a"); Del (B "b"); Marker ex_marker; Ins (B "B")] |}.
Definition ex_h2 : hunk_ast :=
  {| a_os := 10; a_on_omit := true; a_ms := 12; a_mn_omit := false; a_ctx := None;
     a_body := [Del (B "--- x"); Ins (B "+++ y"); Ins (B "@@ -1 +1 @@")] |}.
Definition ex_h0 : hunk_ast :=   (* empty body: complete on its header line *)
  {| a_os := 0; a_on_omit := false; a_ms := 0; a_mn_omit := false; a_ctx := None; a_body := [] |}.
Definition ex_hs : list hunk_ast := [ex_h1; ex_h2; ex_h0].
Definition ex_seps : list (list bytes) :=
  [[B "diff --git a b"; B "--- a"; B "+++ b"]; [B "@@ not a header"]; []; [ex_marker]].
Definition ex_lines : list bytes := interleave ex_seps (map render_hunk ex_hs).

Example ex_wf : Forall wf_hunk ex_hs.
Proof. repeat constructor. Qed.
Example ex_seps_non_header : Forall (Forall non_header) ex_seps.
Proof. repeat constructor. Qed.
Example ex_lines_text :
  ex_lines = [B "diff --git a b"; B "--- a"; B "+++ b";
              B "@@ -1,2 +1,2 @@ def f():"; B " a"; B "-b"; B "\ No newline at end of file"; B "+B";
              B "@@ not a header";
              B "@@ -10 +12,2 @@"; B "---- x"; B "++++ y"; B "+@@ -1 +1 @@";
              B "@@ -0,0 +0,0 @@";
              B "\ No newline at end of file"].
Proof. vm_compute. reflexivity. Qed.

Example ex_tolerant_computed :
  get_unified_diff_hunks ex_lines true = HunksOk (map spec_geometry ex_hs) 15 2 3.
Proof. vm_compute. reflexivity. Qed.
Example ex_tolerant_by_theorem :
  get_unified_diff_hunks ex_lines true =
  HunksOk (map spec_geometry ex_hs) (Z.of_nat (List.length ex_lines)) (Z.of_nat (total_del ex_hs)) (Z.of_nat (total_ins ex_hs)).
Proof. apply C14_tolerant_thm; [exact ex_wf | reflexivity | exact ex_seps_non_header]. Qed.

Example ex_geometry :
  map spec_geometry ex_hs =
  [ {| h_context := Some (B "def f():");
       h_orig := {| sd_first := Some 1; sd_last := Some 1; sd_num := 2; sd_changed := 1; sd_start := 0 |};
       h_mod := {| sd_first := Some 1; sd_last := Some 1; sd_num := 2; sd_changed := 1; sd_start := 0 |};
       h_pre := 1; h_post := 0 |};
    {| h_context := None;
       h_orig := {| sd_first := Some 9; sd_last := Some 9; sd_num := 1; sd_changed := 1; sd_start := 9 |};
       h_mod := {| sd_first := Some 11; sd_last := Some 12; sd_num := 2; sd_changed := 2; sd_start := 11 |};
       h_pre := 0; h_post := 0 |};
    {| h_context := None;
       h_orig := {| sd_first := None; sd_last := None; sd_num := 0; sd_changed := 0; sd_start := -1 |};
       h_mod := {| sd_first := None; sd_last := None; sd_num := 0; sd_changed := 0; sd_start := -1 |};
       h_pre := 0; h_post := 0 |} ].
Proof. vm_compute. reflexivity. Qed.

(** strict mode: the two hunks, then a separator stops the parse after 9 lines *)
Example ex_strict_computed :
  get_unified_diff_hunks (concat (map render_hunk [ex_h1; ex_h2]) ++ [B "@@ not a header"; B "@@ -1 +1 @@"]) false =
  HunksOk (map spec_geometry [ex_h1; ex_h2]) 9 2 3.
Proof. vm_compute. reflexivity. Qed.
Example ex_strict_by_theorem :
  get_unified_diff_hunks (concat (map render_hunk [ex_h1; ex_h2]) ++ [B "@@ not a header"; B "@@ -1 +1 @@"]) false =
  HunksOk (map spec_geometry [ex_h1; ex_h2]) 9 (Z.of_nat (total_del [ex_h1; ex_h2])) (Z.of_nat (total_ins [ex_h1; ex_h2])).
Proof.
  apply (C14_strict_thm [ex_h1; ex_h2]); [repeat constructor|].
  right. do 2 eexists. split; reflexivity.
Qed.

(** damage: hunk 2 cut after its first body line / followed by a bad line / by a header *)
Example ex_open : open_fragment (hdr_of ex_h2) [Del (B "--- x")].
Proof. repeat split. right. vm_compute. reflexivity. Qed.
Example ex_seps_ok_tolerant : seps_ok true [[B "--- a"]; [B "@@ not a header"]].
Proof. repeat constructor; discriminate. Qed.
Example ex_damage_eof :
  get_unified_diff_hunks ([B "--- a"] ++ render_hunk ex_h1 ++ [B "@@ not a header"] ++ [B "@@ -10 +12,2 @@"; B "---- x"]) true
  = Malformed (B "---- x") 9 true.
Proof. vm_compute. reflexivity. Qed.
Example ex_damage_garbage :
  get_unified_diff_hunks (render_hunk ex_h1 ++ [B "@@ -10 +12,2 @@"; B "---- x"; B "oops"; B "+y"]) false
  = Malformed (B "oops") 8 false.
Proof. vm_compute. reflexivity. Qed.
Example ex_damage_header :
  get_unified_diff_hunks (render_hunk ex_h1 ++ [B "@@ -10 +12,2 @@"; B "---- x"; B "@@ -20 +22 @@ ctx"; B "+y"]) false
  = Malformed (B "@@ -20 +22 @@ ctx") 8 false.
Proof. vm_compute. reflexivity. Qed.
Example ex_damage_by_theorem :
  get_unified_diff_hunks (interleave [[B "--- a"]; [B "@@ not a header"]] (map render_hunk [ex_h1])
                          ++ render_open (hdr_of ex_h2) [Del (B "--- x")]) true
  = Malformed (B "---- x") 9 true.
Proof.
  refine (proj1 (C14_damage_thm true [ex_h1] [[B "--- a"]; [B "@@ not a header"]] (hdr_of ex_h2) [Del (B "--- x")] _ _ _ _)).
  - repeat constructor.
  - reflexivity.
  - exact ex_seps_ok_tolerant.
  - exact ex_open.
Qed.

(** strict mode, both cases spelled out *)
Theorem C14_strict_both : forall (hs : list hunk_ast), Forall wf_hunk hs ->
  let body := concat (map render_hunk hs) in
  let result := HunksOk (map spec_geometry hs) (Z.of_nat (List.length body))
                        (Z.of_nat (total_del hs)) (Z.of_nat (total_ins hs)) in
  get_unified_diff_hunks body false = result
  /\ (forall (g : bytes) (rest : list bytes), non_header g -> get_unified_diff_hunks (body ++ g :: rest) false = result).
Proof.
  intros hs Hwf body result. split.
  - rewrite <- (app_nil_r body). apply C14_strict_thm; auto.
  - intros g rest Hg. apply C14_strict_thm; eauto.
Qed.
