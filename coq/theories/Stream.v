(* Stream.v — io.BytesIO as the reader uses it: read(n), seek(off, SEEK_CUR), and _read_until in its chunked
   (as coded) and abstract (first LF or end of data) forms. *)
From Coq Require Import List Arith NArith ZArith Bool Strings.Byte.
From DX Require Import Bytes Res.
Import ListNotations.
Local Open Scope list_scope.

Record stream := { s_data : bytes; s_pos : nat }.

Definition remaining (s : stream) : bytes := skipn (s_pos s) (s_data s).

(* fp.read(n) for n >= 0: short at end of data *)
Definition sread (n : nat) (s : stream) : bytes * stream :=
  let c := firstn n (remaining s) in
  (c, {| s_data := s_data s; s_pos := s_pos s + length c |}).

(* fp.seek(off, os.SEEK_CUR): a negative resulting position raises ValueError *)
Definition sseek_cur (off : Z) (s : stream) : res stream :=
  let p := (Z.of_nat (s_pos s) + off)%Z in
  if (p <? 0)%Z then Err EValue else Ok {| s_data := s_data s; s_pos := Z.to_nat p |}.

Definition lf : byte := x0a.

Fixpoint find_byte (c : byte) (l : bytes) (i : nat) : option nat :=
  match l with
  | [] => None
  | x :: t => if byte_eqb x c then Some i else find_byte c t (S i)
  end.

(* _read_until(b'\n', chunk_size): result bytes, eof flag, stream afterwards *)
Fixpoint read_until_chunked (fuel : nat) (chunk_size : nat) (acc : bytes) (s : stream) : res (bytes * bool * stream) :=
  match fuel with
  | O => Ok (acc, true, s)     (* out of fuel: excluded by the theorems (fuel = S (remaining length)) *)
  | S f =>
      let (chunk, s1) := sread chunk_size s in
      match chunk with
      | [] => Ok (acc, true, s1)
      | _ =>
          match find_byte lf chunk 0 with
          | None => read_until_chunked f chunk_size (acc ++ chunk) s1
          | Some i =>
              do s2 <- sseek_cur (Z.of_nat (i + 1) - Z.of_nat (length chunk)) s1;
              Ok (acc ++ firstn (i + 1) chunk, false, s2)
          end
      end
  end.

Definition read_until (chunk_size : nat) (s : stream) : res (bytes * bool * stream) :=
  read_until_chunked (S (length (remaining s))) chunk_size [] s.

(* the abstract reading: bytes up to and including the first LF, or everything that is left with eof *)
Definition read_until_abs (s : stream) : bytes * bool * stream :=
  let r := remaining s in
  match find_byte lf r 0 with
  | Some i => (firstn (i + 1) r, false, {| s_data := s_data s; s_pos := s_pos s + (i + 1) |})
  | None => (r, true, {| s_data := s_data s; s_pos := s_pos s + length r |})
  end.
