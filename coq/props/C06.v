(* C06 — parse then re-serialise.
   "For every file the library itself can produce, parsing it into the object model and serialising it again
   returns the identical bytes. For every well-formed file from another producer that the object model accepts,
   re-serialising succeeds, carries the same section contents, and is a fixed point: parsing and serialising the
   result again changes nothing."

   Object-model level results (definitions in DX.DomSpec, proofs in DX.DomSpecFacts / DX.DomSpecText):
     C06_normalise_idem          normalise is idempotent on typed trees (no other hypothesis)
     C06_tree_calls_normalised   the normalised tree issues the same calls, derived arguments now explicit
     C06_prepare_idem_diff       re-preparing a prepared diff is the identity (all encodings; the BOM fact it
                                 needs is checked on every row of the generated codec table)
     C06_prepare_idem_text(_inherited)   the same for preamble text, from the codec laws of C01 ([codec_ok])
     C06_reserialise             dom_write (normalise t) = dom_write t; hypothesis [pre_ok_run]: each preamble
                                 text re-prepares to the same bytes in the state the writer is in (discharged by
                                 C06_prepare_idem_text*; none needed for metadata and diffs)
     C06_round_trip              dom_read (dom_write t) = t' , dom_write t' = the same bytes, t' a fixed point
                                 (with C05's hypothesis reader_returns_expected = C01).
   Applied to t := the tree parsed from any file (library-made or foreign) this is the fixed-point part of C06:
   if dom_write t = Ok b1 then parsing b1 gives normalise t and serialising that gives b1 again.
   NOT covered here (needs C01/C02/C03 composition over whole files): that the tree parsed from a
   streaming-writer file or a foreign file serialises, and carries the same section contents as that file. *)
From Coq Require Import List NArith ZArith Bool Strings.Byte.
From Coq Require Strings.String.
From DX Require Import Bytes Res Codec Text Sections Header Json Reader Writer Dom RoundTripCodec.
From DX Require RoundTripContent.
From DX Require Import DomSpec DomSpecFacts DomSpecText.
From DXGen Require GenSections GenText.
Import ListNotations.
Import String.StringSyntax.
Local Open Scope string_scope.
Local Open Scope list_scope.

Theorem C06_normalise_idem : forall t, typed_tree t = true -> normalise (normalise t) = normalise t.
Proof. exact DomSpecFacts.C06_normalise_idem_typed. Qed.
Print Assumptions C06_normalise_idem.

Theorem C06_tree_calls_normalised : forall t cs, typed_tree t = true -> tree_calls t = Ok cs ->
  exists cs', tree_calls (normalise t) = Ok cs' /\ Forall2 calls_equiv cs cs'.
Proof. exact DomSpecFacts.C06_tree_calls_normalised. Qed.
Print Assumptions C06_tree_calls_normalised.

Theorem C06_main_header_normalised : forall t, typed_opts (d_opts t) = true ->
  tree_encoding (normalise t) = tree_encoding t /\ tree_version (normalise t) = tree_version t /\
  main_keys_ok (normalise t) = true.
Proof. exact DomSpecFacts.norm_main. Qed.
Print Assumptions C06_main_header_normalised.

Theorem C06_prepare_idem_diff : forall le enc b body lo,
  diff_prepare le enc b = Ok (body, lo) -> diff_prepare lo enc body = Ok (body, lo).
Proof. exact DomSpecFacts.C06_prepare_idem_diff. Qed.
Print Assumptions C06_prepare_idem_diff.

(* in any writer state (diffs do not inherit) *)
Theorem C06_prepare_idem_diff_state : forall s le enc b body lo,
  prepare_content s (CBytes b) WNone le enc false = Ok (body, lo) ->
  prepare_content s (CBytes body) WNone lo enc false = Ok (body, lo).
Proof. intros s le enc b body lo. rewrite !diff_prepare_state. apply DomSpecFacts.C06_prepare_idem_diff. Qed.
Print Assumptions C06_prepare_idem_diff_state.

Theorem C06_prepare_idem_text : forall enc (s : wstate) (e t : text) (x : bytes) (lev indent : wv),
  codec_ok enc -> c_enc ascii e = Some enc -> t <> [] -> py_encode t enc = Ok x ->
  RoundTripContent.le_arg lev -> RoundTripContent.indent_arg indent ->
  prepare_content s (CText (final_text (snd (pre_resolve lev t)) t)) indent (fst (pre_resolve lev t)) (WStr e) true
  = prepare_content s (CText t) indent lev (WStr e) true.
Proof. exact DomSpecText.C06_prepare_idem_text_ok. Qed.
Print Assumptions C06_prepare_idem_text.

Theorem C06_prepare_idem_text_inherited : forall enc (s : wstate) (e t : text) (x : bytes) (lev indent : wv),
  codec_ok enc -> cur_encoding s = Ok (WStr e) -> c_enc ascii e = Some enc -> t <> [] -> py_encode t enc = Ok x ->
  RoundTripContent.le_arg lev -> RoundTripContent.indent_arg indent ->
  prepare_content s (CText (final_text (snd (pre_resolve lev t)) t)) indent (fst (pre_resolve lev t)) WNone true
  = prepare_content s (CText t) indent lev WNone true.
Proof. exact DomSpecText.C06_prepare_idem_text_inherited_ok. Qed.
Print Assumptions C06_prepare_idem_text_inherited.

Theorem C06_reserialise : forall t b cs s0,
  typed_tree t = true -> dom_write t = Ok b -> tree_calls t = Ok cs ->
  writer_init (tree_encoding t) (tree_version t) = (s0, Ok tt) -> pre_ok_run s0 cs ->
  dom_write (normalise t) = Ok b.
Proof. exact DomSpecFacts.C06_reserialise. Qed.
Print Assumptions C06_reserialise.

Theorem C06_reserialise_no_preamble : forall t b cs,
  typed_tree t = true -> dom_write t = Ok b -> tree_calls t = Ok cs -> forallb no_preamble_call cs = true ->
  dom_write (normalise t) = Ok b.
Proof. exact DomSpecFacts.C06_reserialise_no_preamble. Qed.
Print Assumptions C06_reserialise_no_preamble.

Theorem C06_round_trip : forall orc t b cs s0,
  typed_tree t = true -> dom_write t = Ok b -> reader_returns_expected orc t b ->
  tree_calls t = Ok cs -> writer_init (tree_encoding t) (tree_version t) = (s0, Ok tt) -> pre_ok_run s0 cs ->
  exists t', dom_read orc b = Ok t' /\ dom_write t' = Ok b /\ t' = normalise t /\ normalise t' = t'.
Proof. exact DomSpecFacts.C06_round_trip. Qed.
Print Assumptions C06_round_trip.

(* ---- instances ---- *)
Example C06_ex_hypotheses : exists cs s0, tree_calls ex_tree = Ok cs /\ List.length cs = 5 /\
  writer_init (tree_encoding ex_tree) (tree_version ex_tree) = (s0, Ok tt) /\ pre_ok_run s0 cs.
Proof. exact DomSpecFacts.ex_calls. Qed.
Example C06_ex_read : dom_read ex_orc ex_bytes = Ok ex_norm.
Proof. vm_compute. reflexivity. Qed.
Example C06_ex_rewrite : dom_write ex_norm = Ok ex_bytes.
Proof. vm_compute. reflexivity. Qed.
Example C06_ex_idem : normalise ex_norm = ex_norm.
Proof. vm_compute. reflexivity. Qed.
Example C06_ex2_rewrite : dom_write (normalise ex_tree2) = Ok ex_bytes2.
Proof. vm_compute. reflexivity. Qed.
Example C06_ex2_idem : normalise (normalise ex_tree2) = normalise ex_tree2.
Proof. vm_compute. reflexivity. Qed.
(* the diff of ex_tree: prepared once, then again *)
Example C06_ex_prepare : exists body lo,
  diff_prepare WNone WNone (B "--- a" ++ [x0a] ++ B "+++ b") = Ok (body, lo) /\
  body = B "--- a" ++ [x0a] ++ B "+++ b" ++ [x0a] /\ lo = S_ "unix" /\ diff_prepare lo WNone body = Ok (body, lo).
Proof. eexists. eexists. split; [vm_compute; reflexivity|]. repeat split. Qed.
