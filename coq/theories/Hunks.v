(* Hunks.v — model of pydiffx/utils/unified_diffs.py (get_unified_diff_hunks). *)
From Coq Require Import List Arith NArith ZArith Bool Strings.Byte.
From Coq Require Strings.String.
From DX Require Import Bytes Res.
From DXGen Require GenText.
Import ListNotations.
Import String.StringSyntax.
Local Open Scope string_scope.
Local Open Scope list_scope.
Local Open Scope Z_scope.

Record side := { sd_first : option Z; sd_last : option Z; sd_num : Z; sd_changed : Z; sd_start : Z }.
Record hunk := { h_context : option bytes; h_orig : side; h_mod : side; h_pre : Z; h_post : Z }.

(* ---- the hunk header regex, on one element of the line list ---- *)
Fixpoint take_digits (l : bytes) : bytes * bytes :=
  match l with
  | c :: t => if is_digit c then let (d, r) := take_digits t in (c :: d, r) else ([], l)
  | [] => ([], [])
  end.

Fixpoint until_lf (l : bytes) : bytes :=
  match l with
  | [] => []
  | c :: t => if byte_eqb c x0a then [] else c :: until_lf t
  end.

(* -(\d+)(,(\d+))?  : start, optional count *)
Definition parse_range (l : bytes) : option (Z * option Z * bytes) :=
  let (d, r) := take_digits l in
  match d with
  | [] => None
  | _ =>
      match r with
      | c :: r' =>
          if byte_eqb c ","%byte then
            let (d2, r2) := take_digits r' in
            match d2 with
            | [] => Some (Z.of_N (dec_to_N d), None, r)      (* ",": the optional group does not match *)
            | _ => Some (Z.of_N (dec_to_N d), Some (Z.of_N (dec_to_N d2)), r2)
            end
          else Some (Z.of_N (dec_to_N d), None, r)
      | [] => Some (Z.of_N (dec_to_N d), None, r)
      end
  end.

Definition strip_prefix (p l : bytes) : option bytes :=
  if bstarts p l then Some (skipn (length p) l) else None.

(* UNIFIED_DIFF_HUNK_HEADER_RE.match(line): (orig_start, orig_count?, mod_start, mod_count?, context?) *)
Definition match_hunk_header (line : bytes) : option (Z * option Z * Z * option Z * option bytes) :=
  match strip_prefix (B "@@ -") line with
  | None => None
  | Some r0 =>
      match parse_range r0 with
      | None => None
      | Some (os, on, r1) =>
          match strip_prefix (B " +") r1 with
          | None => None
          | Some r2 =>
              match parse_range r2 with
              | None => None
              | Some (ms, mn, r3) =>
                  match strip_prefix (B " @@") r3 with
                  | None => None
                  | Some r4 =>
                      match r4 with
                      | [] => Some (os, on, ms, mn, None)
                      | c :: t =>
                          if byte_eqb c " "%byte then Some (os, on, ms, mn, Some (until_lf t))
                          else if byte_eqb c x0a then Some (os, on, ms, mn, None)     (* re.M: $ before a newline *)
                          else None
                      end
                  end
              end
          end
      end
  end.

Inductive hunks_result :=
| HunksOk (hs : list hunk) (processed : Z) (deletes inserts : Z)
| Malformed (line : bytes) (line_num : Z) (eof : bool).

Record open_hunk := { oh_context : option bytes; oh_orig : side; oh_mod : side }.

Record pstate := { ps_hunks : list hunk (* reversed *); ps_cur : option open_hunk; ps_oi : Z; ps_mi : Z;
                   ps_ins : Z; ps_del : Z }.

Definition zmin_list (l : list Z) : Z :=
  match l with
  | [] => 0
  | x :: t => fold_left Z.min t x
  end.

Definition side_pre (s : side) : list Z :=
  match sd_first s with Some f => [f - sd_start s] | None => [] end.
Definition side_post (s : side) : list Z :=
  match sd_last s with Some l => [sd_num s - (l - sd_start s + 1)] | None => [] end.

Definition finalize (o : open_hunk) : hunk :=
  {| h_context := oh_context o; h_orig := oh_orig o; h_mod := oh_mod o;
     h_pre := zmin_list (side_pre (oh_orig o) ++ side_pre (oh_mod o));
     h_post := zmin_list (side_post (oh_orig o) ++ side_post (oh_mod o)) |}.

Definition bump (s : side) (i : Z) : side :=
  {| sd_first := match sd_first s with None => Some (sd_start s + i) | f => f end;
     sd_last := Some (sd_start s + i); sd_num := sd_num s; sd_changed := sd_changed s + 1; sd_start := sd_start s |}.

Definition new_side (start : Z) (count : option Z) : side :=
  {| sd_first := None; sd_last := None; sd_num := match count with Some c => c | None => 1 end;
     sd_changed := 0; sd_start := start - 1 |}.

Inductive line_step :=
| LNext (s : pstate)
| LStop                       (* garbage outside a hunk, not ignored: line_num -= 1; break *)
| LError.                     (* MalformedHunkError(line, line_num) *)

Definition first_is (c : byte) (l : bytes) : bool := match l with x :: _ => byte_eqb x c | [] => false end.

(* See if we've finished up with a hunk. *)
Definition complete (s : pstate) : pstate :=
  match ps_cur s with
  | Some o =>
      if (sd_num (oh_orig o) <=? ps_oi s) && (sd_num (oh_mod o) <=? ps_mi s)
      then {| ps_hunks := finalize o :: ps_hunks s; ps_cur := None; ps_oi := 0; ps_mi := 0;
              ps_ins := ps_ins s; ps_del := ps_del s |}
      else s
  | None => s
  end.

Definition step_line (ignore_garbage : bool) (s : pstate) (line : bytes) : line_step :=
  let garbage (s : pstate) : line_step :=
    match ps_cur s with
    | Some _ => LError
    | None => if ignore_garbage then LNext (complete s) else LStop
    end in
  if bstarts (B "@@") line then
    match match_hunk_header line with
    | Some (os, on, ms, mn, ctx) =>
        match ps_cur s with
        | Some _ => LError
        | None =>
            LNext (complete {| ps_hunks := ps_hunks s;
                               ps_cur := Some {| oh_context := ctx; oh_orig := new_side os on; oh_mod := new_side ms mn |};
                               ps_oi := 0; ps_mi := 0; ps_ins := ps_ins s; ps_del := ps_del s |})
        end
    | None => garbage s
    end
  else
    match ps_cur s with
    | Some o =>
        if first_is "-"%byte line then
          LNext (complete {| ps_hunks := ps_hunks s;
                             ps_cur := Some {| oh_context := oh_context o; oh_orig := bump (oh_orig o) (ps_oi s); oh_mod := oh_mod o |};
                             ps_oi := ps_oi s + 1; ps_mi := ps_mi s; ps_ins := ps_ins s; ps_del := ps_del s + 1 |})
        else if first_is "+"%byte line then
          LNext (complete {| ps_hunks := ps_hunks s;
                             ps_cur := Some {| oh_context := oh_context o; oh_orig := oh_orig o; oh_mod := bump (oh_mod o) (ps_mi s) |};
                             ps_oi := ps_oi s; ps_mi := ps_mi s + 1; ps_ins := ps_ins s + 1; ps_del := ps_del s |})
        else if first_is " "%byte line then
          LNext (complete {| ps_hunks := ps_hunks s; ps_cur := ps_cur s; ps_oi := ps_oi s + 1; ps_mi := ps_mi s + 1;
                             ps_ins := ps_ins s; ps_del := ps_del s |})
        else if beq (strip line) GenText.no_newline_marker then LNext (complete s)
        else LError
    | None => garbage s
    end.

Fixpoint parse_loop (ignore_garbage : bool) (s : pstate) (lines : list bytes) (line_num : Z) (last : bytes) : hunks_result :=
  match lines with
  | [] =>
      match ps_cur s with
      | Some _ => Malformed last line_num true
      | None => HunksOk (frev (ps_hunks s)) line_num (ps_del s) (ps_ins s)
      end
  | l :: t =>
      let n := line_num + 1 in
      match step_line ignore_garbage s l with
      | LNext s' => parse_loop ignore_garbage s' t n l
      | LStop => HunksOk (frev (ps_hunks s)) (n - 1) (ps_del s) (ps_ins s)
      | LError => Malformed l n false
      end
  end.

Definition init_pstate : pstate :=
  {| ps_hunks := []; ps_cur := None; ps_oi := 0; ps_mi := 0; ps_ins := 0; ps_del := 0 |}.

Definition get_unified_diff_hunks (lines : list bytes) (ignore_garbage : bool) : hunks_result :=
  parse_loop ignore_garbage init_pstate lines 0 [].
