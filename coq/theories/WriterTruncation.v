(* C07 for the library's own output: truncating what the writer produced for ANY accepted call list at any byte
   position.  Composition of TruncationFacts.truncation_partial with GuessFacts.C01_round_trip_noguess: the comparison
   is with the records the calls denote (expected_records), not with another run of the reader. *)
From Coq Require Import List Arith NArith ZArith Bool Strings.Byte Lia.
From Coq Require Strings.String.
From DX Require Import Bytes Res Codec Text Sections Header Stream Json Reader Writer.
From DX Require Import RoundTripCodec RoundTripContent RoundTripBase RoundTripSim RoundTripStep RoundTrip RoundTripCor.
From DX Require Import GuessFacts StreamFacts TruncationFacts.
Import ListNotations.
Import String.StringSyntax.
Local Open Scope string_scope.
Local Open Scope list_scope.

Theorem writer_truncation_partial : forall (enc0 ver : wv) (s0 : wstate) (cs : list call) (orc : oracle) (chunk k : nat),
  writer_init enc0 ver = (s0, Ok tt) -> enc_ok enc0 -> Forall call_good cs -> accepted s0 cs ->
  metas_oracle_ok orc s0 cs -> oracle_ok orc cs -> 0 < chunk ->
  (Z.of_nat (length (w_out (snd (run_calls s0 cs)))) <= sys_maxsize)%Z ->
  k <= length (w_out (snd (run_calls s0 cs))) ->
  let out := w_out (snd (run_calls s0 cs)) in
  let want := main_record enc0 ver :: expected_records s0 1 cs in
  let resT := read_all orc chunk (firstn k out) in
  exists rs1 extra,
    fst resT = rs1 ++ extra /\ prefix rs1 want /\ List.length extra <= 1 /\
    (forall r, extra = [r] ->
       is_content (r_id r) = true /\
       (exists n, opt_get "length" (r_opts r) = Some (VInt n) /\ (0 < n)%Z) /\
       (exists st valid encs prev,
           reachable orc chunk (firstn k out) st valid encs prev /\ short_read orc chunk st valid encs prev r) /\
       (forall r', nth_error want (List.length rs1) = Some r' -> hdr_eq r r') /\
       snd resT = TEnd) /\
    snd resT <> TFuel.
Proof.
  intros enc0 ver s0 cs orc chunk k Hi He Hg Ha Hm Ho Hc Hmax Hk.
  pose proof (truncation_partial orc chunk (w_out (snd (run_calls s0 cs))) k Hc Hk) as H.
  cbv zeta in H. rewrite (C01_round_trip_noguess enc0 ver s0 cs orc chunk Hi He Hg Ha Hm Ho Hc Hmax) in H.
  cbn [fst snd] in H. cbv zeta. exact H.
Qed.

Corollary writer_truncation_without_short_read :
  forall (enc0 ver : wv) (s0 : wstate) (cs : list call) (orc : oracle) (chunk k : nat),
  writer_init enc0 ver = (s0, Ok tt) -> enc_ok enc0 -> Forall call_good cs -> accepted s0 cs ->
  metas_oracle_ok orc s0 cs -> oracle_ok orc cs -> 0 < chunk ->
  (Z.of_nat (length (w_out (snd (run_calls s0 cs)))) <= sys_maxsize)%Z ->
  k <= length (w_out (snd (run_calls s0 cs))) ->
  (forall st valid encs prev r,
      reachable orc chunk (firstn k (w_out (snd (run_calls s0 cs)))) st valid encs prev ->
      ~ short_read orc chunk st valid encs prev r) ->
  prefix (fst (read_all orc chunk (firstn k (w_out (snd (run_calls s0 cs))))))
         (main_record enc0 ver :: expected_records s0 1 cs).
Proof.
  intros enc0 ver s0 cs orc chunk k Hi He Hg Ha Hm Ho Hc Hmax Hk Hno.
  pose proof (truncation_without_short_read orc chunk _ k Hc Hk Hno) as H.
  rewrite (C01_round_trip_noguess enc0 ver s0 cs orc chunk Hi He Hg Ha Hm Ho Hc Hmax) in H. exact H.
Qed.
