(* LexerWriterUtf.v — UTF-8 and "#." facts needed to carry the writer's BYTES over to the lexer's TEXT (C20, second
   half, gap (a)): the strict UTF-8 decoder of Codec.v is a homomorphism on valid pieces, a prefix of a valid byte
   string that ends right before an ASCII byte is itself valid (so a valid string can be cut after every LF), and
   the two-character sequence "#." is neither created by appending a newline nor by inserting spaces.
   Proof file: nothing of the model is changed here. *)
From Coq Require Import List Arith NArith Bool Lia ZifyBool Strings.Byte.
From DX Require Import Bytes Codec.
From DX Require RoundTripCodecUtf.
Import ListNotations.
Local Open Scope list_scope.

(* ------------------------------------------------------------------------------------------------ *)
(** * 1. the marker "#." with an explicit "previous character was #" flag *)

Fixpoint hm (p : bool) (t : text) : bool :=
  match t with
  | [] => false
  | x :: r => (p && N.eqb x 46) || hm (N.eqb x 35) r
  end.

(* is the last character a '#' ([p]: the answer for the empty text) *)
Fixpoint lastsharp (p : bool) (t : text) : bool :=
  match t with [] => p | x :: r => lastsharp (N.eqb x 35) r end.

Lemma hm_app : forall a p b, hm p (a ++ b) = hm p a || hm (lastsharp p a) b.
Proof.
  induction a as [|x a IH]; intros p b; [reflexivity|].
  cbn [app hm lastsharp]. rewrite IH, orb_assoc. reflexivity.
Qed.

Lemma lastsharp_app : forall a p b, lastsharp p (a ++ b) = lastsharp (lastsharp p a) b.
Proof. induction a as [|x a IH]; intros p b; [reflexivity|]. cbn [app lastsharp]. apply IH. Qed.

Lemma hm_weaken : forall t p, hm p t = false -> hm false t = false.
Proof.
  intros [|x r] p H; [reflexivity|]. cbn [hm] in *. apply orb_false_iff in H. destruct H as [_ H].
  rewrite H. reflexivity.
Qed.

(* characters that are neither '#' nor '.' *)
Definition neutral (x : N) : bool := negb (N.eqb x 35) && negb (N.eqb x 46).

Lemma hm_neutral_cons : forall x r p, neutral x = true -> hm p (x :: r) = hm false r.
Proof.
  intros x r p H. unfold neutral in H. apply andb_true_iff in H. destruct H as [H1 H2].
  apply negb_true_iff in H1. apply negb_true_iff in H2. cbn [hm]. rewrite H1, H2, andb_false_r. reflexivity.
Qed.

(* a run of neutral characters in front creates nothing *)
Lemma hm_neutral_prefix : forall sp t p, forallb neutral sp = true -> hm p t = false -> hm p (sp ++ t) = false.
Proof.
  induction sp as [|x sp IH]; intros t p Hs H; [exact H|].
  cbn [forallb] in Hs. apply andb_true_iff in Hs. destruct Hs as [Hx Hs].
  cbn [app]. rewrite (hm_neutral_cons x _ p Hx). apply IH; [exact Hs|]. eapply hm_weaken. exact H.
Qed.

(* ... nor does a run of neutral characters at the end *)
Lemma hm_neutral_suffix : forall nl t p, forallb neutral nl = true -> hm p t = false -> hm p (t ++ nl) = false.
Proof.
  intros nl t p Hn H. rewrite hm_app, H. cbn [orb].
  generalize (lastsharp p t). induction nl as [|x nl IH]; intros q; [reflexivity|].
  cbn [forallb] in Hn. apply andb_true_iff in Hn. destruct Hn as [Hx Hn].
  rewrite (hm_neutral_cons x nl q Hx). pose proof (IH Hn false) as H0. exact H0.
Qed.

(* ------------------------------------------------------------------------------------------------ *)
(** * 2. the strict UTF-8 decoder, one character at a time *)

Definition hi_byte (y : byte) : Prop := (128 <= byte_n y)%N.

(* [u8_dec b = Some t]: either both are empty, or b = pre ++ r where [pre] is the encoding of the first character
   c: a single ASCII byte, or 2-4 bytes all >= 0x80; the rest decodes on its own, and [pre] decodes to c in front
   of anything *)
Lemma u8_dec_inv : forall b t, u8_dec b = Some t ->
  (b = [] /\ t = []) \/
  exists pre r c t', b = pre ++ r /\ t = c :: t' /\ u8_dec r = Some t' /\ pre <> [] /\
    (forall r', u8_dec (pre ++ r') = option_map (cons c) (u8_dec r')) /\
    ((exists x0, pre = [x0] /\ (byte_n x0 < 128)%N /\ c = byte_n x0) \/ Forall hi_byte pre).
Proof.
  intros [|x0 r0] t H; [left; split; [reflexivity|]; cbn in H; congruence|]. right.
  destruct (N.ltb (byte_n x0) 0x80) eqn:E1.
  { rewrite RoundTripCodecUtf.u8_dec_1 in H by lia.
    destruct (u8_dec r0) as [t0|] eqn:E0; [|discriminate H]. cbn [option_map] in H. injection H as <-.
    exists [x0], r0, (byte_n x0), t0. split; [reflexivity|]. split; [reflexivity|]. split; [exact E0|]. split; [discriminate|]. split.
    - intros r'. cbn [app]. apply RoundTripCodecUtf.u8_dec_1. lia.
    - left. exists x0. split; [reflexivity|]. split; [lia|reflexivity]. }
  destruct (rng 0xC2 0xDF (byte_n x0)) eqn:E2.
  { destruct r0 as [|x1 r1]; cbn [u8_dec] in H; rewrite E1, E2 in H; [discriminate H|].
    destruct (cont (byte_n x1)) eqn:C1; [|discriminate H].
    destruct (u8_dec r1) as [t1|] eqn:E0; [|discriminate H]. cbn [option_map] in H. injection H as <-.
    exists [x0; x1], r1, ((byte_n x0 - 0xC0) * 64 + (byte_n x1 - 0x80))%N, t1.
    split; [reflexivity|]. split; [reflexivity|]. split; [exact E0|]. split; [discriminate|]. split.
    - intros r'. cbn [app]. apply RoundTripCodecUtf.u8_dec_2; assumption.
    - right. unfold rng, cont, hi_byte in *. repeat constructor; lia. }
  destruct (rng 0xE0 0xEF (byte_n x0)) eqn:E3.
  { destruct r0 as [|x1 [|x2 r2]]; cbn [u8_dec] in H; rewrite E1, E2, E3 in H; try discriminate H.
    match type of H with (if ?c && _ then _ else _) = _ => destruct c eqn:C1 end; [|discriminate H].
    destruct (cont (byte_n x2)) eqn:C2; [|discriminate H]. cbn [andb] in H.
    destruct (u8_dec r2) as [t2|] eqn:E0; [|discriminate H]. cbn [option_map] in H. injection H as <-.
    exists [x0; x1; x2], r2, ((byte_n x0 - 0xE0) * 4096 + (byte_n x1 - 0x80) * 64 + (byte_n x2 - 0x80))%N, t2.
    split; [reflexivity|]. split; [reflexivity|]. split; [exact E0|]. split; [discriminate|]. split.
    - intros r'. cbn [app]. apply RoundTripCodecUtf.u8_dec_3; assumption.
    - right. unfold hi_byte. repeat constructor; unfold rng, cont in *; try lia.
      destruct (N.eqb (byte_n x0) 0xE0); [lia|]. destruct (N.eqb (byte_n x0) 0xED); lia. }
  destruct (rng 0xF0 0xF4 (byte_n x0)) eqn:E4.
  { destruct r0 as [|x1 [|x2 [|x3 r3]]]; cbn [u8_dec] in H; rewrite E1, E2, E3, E4 in H; try discriminate H.
    match type of H with (if ?c && _ && _ then _ else _) = _ => destruct c eqn:C1 end; [|discriminate H].
    destruct (cont (byte_n x2)) eqn:C2; [|discriminate H].
    destruct (cont (byte_n x3)) eqn:C3; [|discriminate H]. cbn [andb] in H.
    destruct (u8_dec r3) as [t3|] eqn:E0; [|discriminate H]. cbn [option_map] in H. injection H as <-.
    exists [x0; x1; x2; x3], r3,
      ((byte_n x0 - 0xF0) * 262144 + (byte_n x1 - 0x80) * 4096 + (byte_n x2 - 0x80) * 64 + (byte_n x3 - 0x80))%N, t3.
    split; [reflexivity|]. split; [reflexivity|]. split; [exact E0|]. split; [discriminate|]. split.
    - intros r'. cbn [app]. apply RoundTripCodecUtf.u8_dec_4; assumption.
    - right. unfold hi_byte. repeat constructor; unfold rng, cont in *; try lia.
      destruct (N.eqb (byte_n x0) 0xF0); [lia|]. destruct (N.eqb (byte_n x0) 0xF4); lia. }
  cbn [u8_dec] in H. rewrite E1, E2, E3, E4 in H. discriminate H.
Qed.

Lemma u8_dec_nonempty : forall b, u8_dec b = Some [] -> b = [].
Proof.
  intros b H. destruct (u8_dec_inv b [] H) as [[Hb _]|(pre & r & c & t' & _ & Ht & _)]; [exact Hb|discriminate Ht].
Qed.

(* the decoder is a homomorphism on valid pieces *)
Lemma u8_dec_app_gen : forall n a, length a <= n -> forall ta b,
  u8_dec a = Some ta -> u8_dec (a ++ b) = option_map (app ta) (u8_dec b).
Proof.
  induction n as [|n IH]; intros a Hn ta b H.
  - destruct a; [|cbn in Hn; lia]. cbn in H. injection H as <-. cbn [app]. destruct (u8_dec b); reflexivity.
  - destruct (u8_dec_inv a ta H) as [[-> ->]|(pre & r & c & t' & -> & -> & Hr & Hne & Hpre & _)].
    + cbn [app]. destruct (u8_dec b); reflexivity.
    + rewrite <- app_assoc, Hpre. rewrite (IH r) with (ta := t'); [|rewrite app_length in Hn; destruct pre; [congruence|cbn in Hn; lia]|exact Hr].
      destruct (u8_dec b); reflexivity.
Qed.

Lemma u8_dec_app : forall a b ta tb, u8_dec a = Some ta -> u8_dec b = Some tb -> u8_dec (a ++ b) = Some (ta ++ tb).
Proof. intros a b ta tb Ha Hb. rewrite (u8_dec_app_gen (length a) a (le_n _) ta b Ha), Hb. reflexivity. Qed.

Lemma u8_dec_ascii : forall b, Forall (fun x => (byte_n x < 128)%N) b -> u8_dec b = Some (map byte_n b).
Proof.
  induction b as [|x b IH]; intros H; [reflexivity|]. inversion H as [|? ? Hx Hb]; subst.
  rewrite RoundTripCodecUtf.u8_dec_1 by exact Hx. rewrite (IH Hb). reflexivity.
Qed.

(* bytes.decode inverts str.encode *)
Lemma u8_dec_enc : forall t b, u8_enc t = Some b -> u8_dec b = Some t.
Proof.
  unfold u8_enc. induction t as [|c t IH]; intros b H; cbn [enc_all] in H.
  - injection H as <-. reflexivity.
  - destruct (u8_enc_cp c) as [x|] eqn:Ec; [|discriminate H].
    destruct (enc_all u8_enc_cp t) as [b'|] eqn:Et; [|discriminate H]. injection H as <-.
    rewrite (RoundTripCodecUtf.u8_step c x b' Ec), (IH b' eq_refl). reflexivity.
Qed.

(* a common prefix made of high bytes cannot run past an ASCII byte *)
Lemma hi_prefix_split : forall pre r a x rest,
  pre ++ r = a ++ x :: rest -> Forall hi_byte pre -> (byte_n x < 128)%N ->
  exists a', a = pre ++ a' /\ r = a' ++ x :: rest.
Proof.
  induction pre as [|p pre IH]; intros r a x rest E Hp Hx.
  - exists a. split; [reflexivity|exact E].
  - inversion Hp as [|? ? Hp0 Hp']; subst. destruct a as [|y a].
    + cbn [app] in E. injection E as -> _. unfold hi_byte in Hp0. lia.
    + cbn [app] in E. injection E as -> E. destruct (IH r a x rest E Hp' Hx) as (a' & -> & ->).
      exists a'. split; reflexivity.
Qed.

(* the part of a valid byte string in front of an ASCII byte is valid *)
Lemma u8_prefix_valid : forall n a, length a <= n -> forall x rest t,
  (byte_n x < 128)%N -> u8_dec (a ++ x :: rest) = Some t -> exists ta, u8_dec a = Some ta.
Proof.
  induction n as [|n IH]; intros a Hn x rest t Hx H.
  - destruct a; [|cbn in Hn; lia]. exists []. reflexivity.
  - destruct a as [|y a]; [exists []; reflexivity|].
    destruct (u8_dec_inv _ t H) as [[E _]|(pre & r & c & t' & E & -> & Hr & Hne & Hpre & Hshape)]; [discriminate E|].
    assert (Hsplit : exists a', y :: a = pre ++ a' /\ r = a' ++ x :: rest).
    { destruct Hshape as [(x0 & -> & _ & _)|Hhi].
      - cbn [app] in E. injection E as -> E. exists a. split; [reflexivity|symmetry; exact E].
      - symmetry in E. exact (hi_prefix_split pre r (y :: a) x rest E Hhi Hx). }
    destruct Hsplit as (a' & Ea & ->).
    assert (Hl : length a' <= n).
    { apply (f_equal (@length _)) in Ea. rewrite app_length in Ea. cbn [length] in *.
      destruct pre; [congruence|cbn [length] in Ea; lia]. }
    destruct (IH a' Hl x rest t' Hx Hr) as (ta' & Ha').
    exists (c :: ta'). rewrite Ea, Hpre, Ha'. reflexivity.
Qed.

(* a valid byte string can be cut after an ASCII byte *)
Lemma u8_dec_cut : forall a x rest t, (byte_n x < 128)%N -> u8_dec ((a ++ [x]) ++ rest) = Some t ->
  exists ta tr, u8_dec (a ++ [x]) = Some ta /\ u8_dec rest = Some tr /\ t = ta ++ tr.
Proof.
  intros a x rest t Hx H. rewrite <- app_assoc in H. cbn [app] in H.
  destruct (u8_prefix_valid (length a) a (le_n _) x rest t Hx H) as (ta & Ha).
  rewrite (u8_dec_app_gen (length a) a (le_n _) ta _ Ha) in H.
  rewrite RoundTripCodecUtf.u8_dec_1 in H by exact Hx.
  destruct (u8_dec rest) as [tr|] eqn:Er; [|discriminate H]. cbn [option_map] in H. injection H as <-.
  exists (ta ++ [byte_n x]), tr. split; [|split; [reflexivity|rewrite <- app_assoc; reflexivity]].
  apply u8_dec_app; [exact Ha|]. rewrite RoundTripCodecUtf.u8_dec_1 by exact Hx. reflexivity.
Qed.

(* ------------------------------------------------------------------------------------------------ *)
(** * 3. indentation: [k] spaces in front of every line of a valid, "#."-free content *)

Definition lf_ended (l : bytes) : Prop := exists q, l = q ++ [x0a].

Lemma spaces_dec : forall k, u8_dec (repeat_b x20 k) = Some (repeat 32%N k) /\ forallb neutral (repeat 32%N k) = true.
Proof.
  induction k as [|k [IH1 IH2]]; [split; reflexivity|]. split.
  - cbn [repeat_b repeat]. rewrite RoundTripCodecUtf.u8_dec_1 by (vm_compute; reflexivity). rewrite IH1. reflexivity.
  - cbn [repeat forallb]. rewrite IH2. reflexivity.
Qed.

Lemma indent_dec : forall k ls tc, Forall lf_ended ls -> u8_dec (concat ls) = Some tc ->
  exists tb, u8_dec (concat (map (fun l => repeat_b x20 k ++ l) ls)) = Some tb /\
             (forall p, hm p tc = false -> hm p tb = false) /\ (ls <> [] -> tb <> []).
Proof.
  intros k. destruct (spaces_dec k) as [Hsp Hneu].
  induction ls as [|l ls IH]; intros tc Hl H.
  - cbn in H. injection H as <-. exists []. split; [reflexivity|]. split; [auto|congruence].
  - inversion Hl as [|? ? [q ->] Hl']; subst. cbn [concat] in H.
    destruct (u8_dec_cut q x0a (concat ls) tc ltac:(vm_compute; reflexivity) H) as (t1 & tr & H1 & Hr & ->).
    destruct (IH tr Hl' Hr) as (tb' & Hb' & Hm' & _).
    exists ((repeat 32%N k ++ t1) ++ tb'). split; [|split].
    + cbn [map concat]. apply u8_dec_app; [|exact Hb']. apply u8_dec_app; assumption.
    + intros p Hp. rewrite hm_app in Hp. apply orb_false_iff in Hp. destruct Hp as [Hp1 Hp2].
      rewrite <- app_assoc. apply hm_neutral_prefix; [exact Hneu|].
      rewrite hm_app, Hp1. cbn [orb]. apply Hm'. exact Hp2.
    + intros _ E. apply app_eq_nil in E. destruct E as [E _]. apply app_eq_nil in E. destruct E as [_ E]. subst t1.
      apply u8_dec_nonempty in H1. destruct q; discriminate H1.
Qed.
