(* C12, file level — "adding any number of syntactically valid options the library does not know to any header
   of a well-formed file, at any position in the option list, leaves the reader's output unchanged except that
   each affected record's options additionally contain those keys with their values (integers converted)".
   Spec: theories/SpecReader.v.  Proofs: theories/SpecReaderC12.v, on top of C03_reads_spec (props/C03_spec.v)
   and HeaderFacts.C12_header (props/C12.v).

   [file_ext f f' extras]: f' is f with, in the header of the i-th section, the options [extras_i] inserted at
   arbitrary positions ([HeaderFacts.interleave]); the added options are in the header grammar, their keys are
   pairwise distinct, not among the section's own keys, and not among the six keys the reader interprets
   ([known_keys]: encoding, version, length, line_endings, indent, format).
   [recs_ext rs rs' extras]: record by record, level / line / id / type / payload are equal, every key that was
   not added reads the same in both options dicts, and each added key reads as its value (integers converted)
   in the new dict and is absent from the old one. *)
From Coq Require Import List Arith NArith ZArith Bool Strings.Byte Lia.
From Coq Require Strings.String.
From DX Require Import Bytes Res Codec Text Sections Header Stream Json Reader SectionsSpec
                       SpecReader SpecReaderFacts SpecReaderC12 SpecReaderExamples.
From DX Require HeaderFacts.
Import ListNotations.
Import String.StringSyntax.
Local Open Scope string_scope.
Local Open Scope list_scope.

(* the extended file is well-formed *)
Theorem C12_wf : forall f f' extras, file_ext f f' extras -> wf_file f = true -> wf_file f' = true.
Proof. exact SpecReaderC12.C12_wf. Qed.
Print Assumptions C12_wf.

(* its specified records are those of f with the added keys *)
Theorem C12_records : forall f f' extras, file_ext f f' extras -> wf_file f = true ->
  recs_ext (spec_records f) (spec_records f') extras.
Proof. exact SpecReaderC12.C12_records. Qed.
Print Assumptions C12_records.

(* hence the reader reads the extended file as specified ... *)
Theorem C12_file : forall f f' extras orc chunk,
  wf_file f = true -> oracle_ok_file orc f -> file_ext f f' extras -> 0 < chunk ->
  (Z.of_nat (length (render_file f')) <= sys_maxsize)%Z ->
  wf_file f' = true /\
  read_all orc chunk (render_file f') = (spec_records f', TEnd) /\
  recs_ext (spec_records f) (spec_records f') extras.
Proof. exact SpecReaderC12.C12_file. Qed.
Print Assumptions C12_file.

(* ... and its output on the two files differs only by the added keys *)
Theorem C12_file_reader : forall f f' extras orc chunk,
  wf_file f = true -> oracle_ok_file orc f -> file_ext f f' extras -> 0 < chunk ->
  (Z.of_nat (length (render_file f)) <= sys_maxsize)%Z ->
  (Z.of_nat (length (render_file f')) <= sys_maxsize)%Z ->
  exists rs rs',
    read_all orc chunk (render_file f) = (rs, TEnd) /\
    read_all orc chunk (render_file f') = (rs', TEnd) /\
    recs_ext rs rs' extras.
Proof. exact SpecReaderC12.C12_file_reader. Qed.
Print Assumptions C12_file_reader.

(* ---- Example: sx_foreign with zz=1 put in front of the main header's options, my-opt=-7 inside and Tag=a/b at
        the end of the preamble's (SpecReaderExamples.sx_foreign_ext) ---- *)
Example C12_file_ex_hyps : file_ext sx_foreign sx_foreign_ext sx_extras.
Proof.
  split; [reflexivity|]. split; [reflexivity|].
  unfold sx_foreign, sx_foreign_ext, sx_extras. cbn [ff_sections skipn app].
  constructor.
  { apply sec_ext_intro; try reflexivity. cbn [fs_opts]. apply HeaderFacts.il_r, HeaderFacts.il_l, HeaderFacts.il_l, HeaderFacts.il_nil. }
  constructor.
  { apply sec_ext_intro; try reflexivity. cbn [fs_opts].
    apply HeaderFacts.il_l, HeaderFacts.il_r, HeaderFacts.il_l, HeaderFacts.il_l, HeaderFacts.il_l, HeaderFacts.il_r, HeaderFacts.il_nil. }
  repeat (constructor; [apply sec_ext_refl|]). constructor.
Qed.

Example C12_file_ex : forall chunk, 0 < chunk ->
  wf_file sx_foreign_ext = true /\
  read_all sx_foreign_orc chunk (render_file sx_foreign_ext) = (spec_records sx_foreign_ext, TEnd) /\
  recs_ext (spec_records sx_foreign) (spec_records sx_foreign_ext) sx_extras.
Proof.
  intros chunk Hc. apply C12_file.
  - vm_compute. reflexivity.
  - unfold oracle_ok_file. repeat constructor.
  - exact C12_file_ex_hyps.
  - exact Hc.
  - vm_compute. discriminate.
Qed.

(* the two affected records, before and after *)
Example C12_file_ex_opts :
  map r_opts (firstn 2 (spec_records sx_foreign)) =
    [ [(B "version", VStr (B "1.0")); (B "encoding", VStr (B "utf-8"))];
      [(B "length", VInt 20); (B "x-producer", VStr (B "other/1.0")); (B "indent", VInt 2);
       (B "encoding", VStr (B "utf-8-sig"))] ] /\
  map r_opts (firstn 2 (spec_records sx_foreign_ext)) =
    [ [(B "zz", VInt 1); (B "version", VStr (B "1.0")); (B "encoding", VStr (B "utf-8"))];
      [(B "length", VInt 20); (B "my-opt", VInt (-7)); (B "x-producer", VStr (B "other/1.0")); (B "indent", VInt 2);
       (B "encoding", VStr (B "utf-8-sig")); (B "Tag", VStr (B "a/b"))] ] /\
  skipn 2 (spec_records sx_foreign_ext) = skipn 2 (spec_records sx_foreign) /\
  map r_payload (spec_records sx_foreign_ext) = map r_payload (spec_records sx_foreign) /\
  map r_line (spec_records sx_foreign_ext) = map r_line (spec_records sx_foreign).
Proof. repeat split; vm_compute; reflexivity. Qed.

(* a key the reader interprets is not an "unknown option": adding indent=4 to a preamble changes its reading *)
Example C12_file_known_key :
  In (B "indent") known_keys /\
  wf_file (one_preamble [(B "length", B "3")] {| tc_lines := [asc "ab"]; tc_kind := LUnix; tc_bom := false |}) = true /\
  wf_file (one_preamble [(B "indent", B "4"); (B "length", B "3")]
                        {| tc_lines := [asc "ab"]; tc_kind := LUnix; tc_bom := false |}) = false.
Proof. split; [cbn; auto 10|]. split; vm_compute; reflexivity. Qed.
