(* C01 / C05 / C06 — the newline-guess premise is a theorem.

   C01_round_trip (props/C01_sequence.v), C05_full (props/C05_full.v), C06_full and C06_canonical (props/C06_full.v)
   carry the premise [guesses_ok s0 cs] / [tree_guesses_ok t]: at every write_meta whose effective encoding is of the
   UTF-16/32 family, the reader's guess of the line ending on the BYTES of the metadata body ([meta_guess_b]) is the
   unix newline the writer used.  It was discharged only for ascii / latin-1 / utf-8 / utf-8-sig
   (C01_guesses_ok_aligned), because for arbitrary text in UTF-16/32 a misaligned occurrence of the encoded LF exists
   (props/C01.v, C01_utf16_misaligned).  The metadata body, however, is json.dumps output handed to the encoder as
   the text of a byte string: every code point is < 256, so each is one fixed-width unit whose bytes are all 0x00 but
   one, the BOMs contain no 0x0a, and the byte 0x0a occurs in the body only as the distinguished byte of an encoded
   LF.  Hence the premise ALWAYS holds for accepted calls of the C01 domain, and the four flagship theorems hold
   without it (the old statements are kept, these are corollaries).

   Statements only; proofs in theories/GuessFacts.v.

   STATUS: full.  Nothing is assumed but the hypotheses spelled out in each statement.  The JSON characterisation
   (C01_json_dump_ok_bytes) needs one premise because float reprs are opaque byte strings in the model
   ([floats_printable]: every float repr consists of printable ASCII); the round-trip corollaries do NOT need it
   (code points < 256 and the leading "{" LF of a non-empty object suffice).

   Vocabulary (theories/GuessFacts.v):
   * [cp256 c]            the code point c is < 256.
   * [stk_ok s]           (DomCompose) the writer's encoding stack is non-empty and every entry is [enc_ok].
   * [ok_json_byte b]     b is LF (0x0a) or printable ASCII (0x20..0x7e): in particular not CR, not NUL, < 0x7f.
   * [floats_printable j] every float repr inside j consists of printable ASCII bytes. *)
From Coq Require Import List Arith NArith ZArith Bool Strings.Byte.
From Coq Require Strings.String.
From DX Require Import Bytes Res Codec Text Sections Header Stream Json Reader Writer Dom.
From DX Require Import RoundTripCodec RoundTripContent RoundTripBase RoundTripSim RoundTripStep RoundTrip RoundTripCor.
From DX Require Import DomSpec DomSpecFacts DomCompose DomComposeCanon GuessFacts.
From DX Require Import RoundTripSeqExample.   (* last: ex_orc, T, ... are those of the C01 example *)
From DXGen Require GenSections GenText GenCodecs.
Import ListNotations.
Import String.StringSyntax.
Local Open Scope string_scope.
Local Open Scope list_scope.

(* ---- vocabulary ---- *)

Theorem C01_noguess_defs : forall c b s,
  (cp256 c <-> (c < 256)%N) /\
  (ok_json_byte b <-> b = x0a \/ (32 <= byte_n b <= 126)%N) /\
  (stk_ok s <-> w_stack s <> [] /\ Forall enc_ok (w_stack s)).
Proof. intros c b s. split; [reflexivity|]. split; [apply GuessFacts.ok_json_byte_spec|reflexivity]. Qed.

(* ---- the guess on the bytes is the guess on the text ---- *)

(* every modelled codec (any catalogue spelling, the UTF-16/32 family with or without BOM included), every text of
   code points < 256: the reader's guess on the encoded bytes is the guess on the text, with the newline bytes
   get_newline_for_type gives for that kind *)
Theorem C01_guess_cp256 : forall eb canon cd, lookup_codec eb = LOk canon cd ->
  forall t body le nl nlb, Forall cp256 t -> py_encode t eb = Ok body ->
    guess_line_endings_text t = (le, nl) -> get_newline_for_type le (Some eb) = Ok nlb ->
    guess_line_endings_bytes body (Some eb) = Ok (le, nlb).
Proof. exact GuessFacts.guess_cp256. Qed.
Print Assumptions C01_guess_cp256.

(* the prepared body of an accepted write_meta, whatever modelled codec is in force (the call's own or inherited) *)
Theorem C01_meta_body_guess : forall s s' kv enc fmt,
  stk_ok s -> enc_ok enc -> do_call (WriteMeta (WDict (JObj kv)) enc fmt) s = (s', Ok tt) ->
  forall eb, Encodings.w_content_encoding enc true (hd WNone (w_stack s)) = WStr (ascii_text eb) ->
  exists nlb, get_newline_for_type GenText.le_unix (Some eb) = Ok nlb /\
              guess_line_endings_bytes (fst (call_prepared s (WriteMeta (WDict (JObj kv)) enc fmt))) (Some eb)
                = Ok (GenText.le_unix, nlb).
Proof. exact GuessFacts.meta_body_guess. Qed.
Print Assumptions C01_meta_body_guess.

(* ---- the premise is a theorem ---- *)

Theorem C01_meta_guess_always : forall s s' c,
  stk_ok s -> call_good c -> do_call c s = (s', Ok tt) -> meta_guess_b s c = true.
Proof. exact GuessFacts.meta_guess_always. Qed.
Print Assumptions C01_meta_guess_always.

Theorem C01_guesses_ok_always : forall cs s, stk_ok s -> Forall call_good cs -> accepted s cs -> guesses_ok s cs.
Proof. exact GuessFacts.guesses_ok_always. Qed.
Print Assumptions C01_guesses_ok_always.

Theorem C01_guesses_ok_init : forall enc0 ver s0 cs,
  writer_init enc0 ver = (s0, Ok tt) -> enc_ok enc0 -> Forall call_good cs -> accepted s0 cs -> guesses_ok s0 cs.
Proof. exact GuessFacts.guesses_ok_init. Qed.
Print Assumptions C01_guesses_ok_init.

Theorem C05_tree_guesses_always : forall t b,
  tree_encs_ok t = true -> tree_indents_ok t = true -> dom_write t = Ok b -> tree_guesses_ok t.
Proof. exact GuessFacts.tree_guesses_always. Qed.
Print Assumptions C05_tree_guesses_always.

(* ---- the flagship theorems without it ---- *)

(* = C01_round_trip (props/C01_sequence.v) minus [guesses_ok s0 cs] *)
Theorem C01_round_trip_noguess : forall (enc0 ver : wv) (s0 : wstate) (cs : list call) (orc : oracle) (chunk : nat),
  writer_init enc0 ver = (s0, Ok tt) ->
  enc_ok enc0 ->
  Forall call_good cs ->
  accepted s0 cs ->
  metas_oracle_ok orc s0 cs ->
  oracle_ok orc cs ->
  0 < chunk ->
  (Z.of_nat (length (w_out (snd (run_calls s0 cs)))) <= sys_maxsize)%Z ->
  read_all orc chunk (w_out (snd (run_calls s0 cs))) = (main_record enc0 ver :: expected_records s0 1 cs, TEnd).
Proof. exact GuessFacts.C01_round_trip_noguess. Qed.
Print Assumptions C01_round_trip_noguess.

(* = C01_round_trip_encoded minus [guesses_ok s0 cs]: a writer constructed with an encoding needs neither the guess
   nor the bytes-oracle premise *)
Theorem C01_round_trip_encoded_noguess : forall (enc0 ver : wv) (s0 : wstate) (cs : list call) (orc : oracle) (chunk : nat),
  writer_init enc0 ver = (s0, Ok tt) -> enc_ok enc0 -> wv_truthy enc0 = true ->
  Forall call_good cs -> accepted s0 cs -> oracle_ok orc cs ->
  0 < chunk -> (Z.of_nat (length (w_out (snd (run_calls s0 cs)))) <= sys_maxsize)%Z ->
  read_all orc chunk (w_out (snd (run_calls s0 cs))) = (main_record enc0 ver :: expected_records s0 1 cs, TEnd).
Proof. exact GuessFacts.C01_round_trip_encoded_noguess. Qed.
Print Assumptions C01_round_trip_encoded_noguess.

(* = C05_full (props/C05_full.v) minus [tree_guesses_ok t] *)
Theorem C05_full_noguess : forall orc t b,
  typed_tree t = true -> tree_encs_ok t = true -> tree_indents_ok t = true ->
  dom_write t = Ok b ->
  tree_oracle_ok orc t -> tree_metas_oracle_ok orc t ->
  (Z.of_nat (length b) <= sys_maxsize)%Z ->
  dom_read orc b = Ok (normalise t).
Proof. exact GuessFacts.C05_full_noguess. Qed.
Print Assumptions C05_full_noguess.

(* = C06_full (props/C06_full.v) minus [tree_guesses_ok t] *)
Theorem C06_full_noguess : forall orc t b,
  typed_tree t = true -> tree_encs_ok t = true -> tree_indents_ok t = true ->
  dom_write t = Ok b ->
  tree_oracle_ok orc t -> tree_metas_oracle_ok orc t ->
  (Z.of_nat (length b) <= sys_maxsize)%Z ->
  exists t', dom_read orc b = Ok t' /\ t' = normalise t /\
             dom_write t' = Ok b /\ normalise t' = t' /\
             (forall b', dom_write t' = Ok b' -> dom_read orc b' = Ok t').
Proof. exact GuessFacts.C06_full_noguess. Qed.
Print Assumptions C06_full_noguess.

(* = C06_canonical (props/C06_full.v) minus [guesses_ok s0 cs] *)
Theorem C06_canonical_noguess : forall enc0 ver s0 cs orc,
  writer_init enc0 ver = (s0, Ok tt) -> enc_ok enc0 ->
  Forall call_good cs -> Forall indent_explicit cs -> accepted s0 cs ->
  metas_oracle_ok orc s0 cs -> oracle_ok orc cs ->
  (Z.of_nat (length (w_out (snd (run_calls s0 cs)))) <= sys_maxsize)%Z ->
  exists t', dom_read orc (w_out (snd (run_calls s0 cs))) = Ok t' /\
             dom_write t' = Ok (w_out (snd (run_calls s0 cs))) /\ normalise t' = t' /\
             (forall b', dom_write t' = Ok b' -> dom_read orc b' = Ok t') /\
             exists t0, tree_calls t0 = Ok cs /\ t' = normalise t0.
Proof. exact GuessFacts.C06_canonical_noguess. Qed.
Print Assumptions C06_canonical_noguess.

(* ---- what json.dumps writes ---- *)

(* LF and printable ASCII only: no CR, no NUL, nothing >= 0x7f (strengthens C02_json_ascii) *)
Theorem C01_json_dump_ok_bytes : forall j d, floats_printable j -> json_dump j = Ok d -> Forall ok_json_byte d.
Proof. exact GuessFacts.json_dump_ok_bytes. Qed.
Print Assumptions C01_json_dump_ok_bytes.

Theorem C01_json_text_no_cr : forall j d, floats_printable j -> json_dump j = Ok d ->
  ~ In 13%N (ascii_text d) /\ ~ In 0%N (ascii_text d) /\ Forall (fun c => (c < 128)%N) (ascii_text d).
Proof. exact GuessFacts.json_text_no_cr. Qed.
Print Assumptions C01_json_text_no_cr.

(* the dump of EVERY JSON value (object or not), LF-terminated as the writer does, encoded in any modelled codec,
   is guessed (unix, the unix newline bytes) by the reader *)
Theorem C01_json_guess_unix : forall j d eb canon cd body nlb,
  floats_printable j -> json_dump j = Ok d -> lookup_codec eb = LOk canon cd ->
  py_encode (final_text (nl_text GenText.le_unix) (ascii_text d)) eb = Ok body ->
  get_newline_for_type GenText.le_unix (Some eb) = Ok nlb ->
  guess_line_endings_bytes body (Some eb) = Ok (GenText.le_unix, nlb).
Proof. exact GuessFacts.json_guess_unix. Qed.
Print Assumptions C01_json_guess_unix.

(* ---- non-vacuity ---- *)

(* the call list of props/C01_sequence.v (metadata in utf-8, utf-16 with BOM (own encoding), utf-32-be (inherited
   from the file), ascii): all hypotheses of C01_round_trip_noguess hold, and its conclusion *)
Example C01_round_trip_noguess_ex :
  writer_init ex_enc0 ex_ver = (ex_s0, Ok tt) /\ enc_ok ex_enc0 /\
  Forall call_good ex_cs /\ accepted ex_s0 ex_cs /\ metas_oracle_ok ex_orc ex_s0 ex_cs /\ oracle_ok ex_orc ex_cs /\
  (Z.of_nat (length (w_out (snd (run_calls ex_s0 ex_cs)))) <= sys_maxsize)%Z /\
  In (WriteMeta (WDict ex_j2) (WStr (T "utf-16")) None) ex_cs /\
  In (NewFile (WStr (T "utf-32-be"))) ex_cs /\
  read_all ex_orc 96 (w_out (snd (run_calls ex_s0 ex_cs)))
    = (main_record ex_enc0 ex_ver :: expected_records ex_s0 1 ex_cs, TEnd).
Proof. exact GuessFacts.C01_round_trip_noguess_ex. Qed.

(* a metadata value made to provoke a misaligned match (keys and strings with CR LF, NUL, U+0A0D, U+0D0A,
   U+0A41 U+4100: all of them leave json.dumps as escapes), written in utf-16-be, utf-32 and utf-16 *)
Example C01_round_trip_noguess_hard :
  hard_j = JObj [([13; 10; 0x0A0D; 0]%N, JStr [0x0A41; 0x4100; 0x0D0A; 13; 10; 0; 0x0A00; 0x000A]%N);
                 (T "n", JList [JInt (-2570); JNull; JStr [0x0D00; 0x0A00]%N])] /\
  hard_cs = [ WriteMeta (WDict hard_j) (WStr (T "utf-16-be")) None;
              NewChange (WStr (T "utf-32"));
              WriteMeta (WDict hard_j) WNone None;
              NewFile (WStr (T "utf-16"));
              WriteMeta (WDict hard_j) WNone None ] /\
  Forall call_good hard_cs /\ accepted ex_s0 hard_cs /\ metas_oracle_ok hard_orc ex_s0 hard_cs /\
  oracle_ok hard_orc hard_cs /\ guesses_ok ex_s0 hard_cs /\
  map r_payload (fst (read_all hard_orc 96 (w_out (snd (run_calls ex_s0 hard_cs)))))
    = [PNone; PMeta hard_j; PNone; PMeta hard_j; PNone; PMeta hard_j] /\
  read_all hard_orc 96 (w_out (snd (run_calls ex_s0 hard_cs)))
    = (main_record ex_enc0 ex_ver :: expected_records ex_s0 1 hard_cs, TEnd).
Proof. split; [reflexivity|]. split; [reflexivity|]. exact GuessFacts.C01_round_trip_noguess_hard. Qed.

(* one concrete body and its guess: {"k": "\r\n\u0a0d"} in utf-16 (BOM ff fe, then 7b 00 0a 00 ...) *)
Example C01_json_guess_unix_ex :
  exists d body,
    json_dump (JObj [(T "k", JStr [13; 10; 0x0A0D]%N)]) = Ok d /\
    py_encode (final_text (nl_text GenText.le_unix) (ascii_text d)) (B "utf-16") = Ok body /\
    firstn 8 body = [xff; xfe; x7b; x00; x0a; x00; x20; x00] /\
    guess_line_endings_bytes body (Some (B "utf-16")) = Ok (GenText.le_unix, [x0a; x00]).
Proof. exact GuessFacts.json_guess_unix_ex. Qed.
