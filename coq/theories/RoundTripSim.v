(* RoundTripSim.v — the simulation between the writer model and the reader loop (C01, whole sequences):
   argument domains, expected records, the relation [Sim], and the step lemmas for the main header and
   the container calls. *)
From Coq Require Import List Arith NArith ZArith Bool Strings.Byte Lia Sorting.Permutation.
From Coq Require Strings.String.
From DX Require Import Bytes Res Codec Text Sections Header Stream Json Reader Writer.
From DX Require HeaderFacts TextFacts StreamFacts SectionsFacts ReaderSpecFacts WriterFacts WriterCanonFacts Encodings.
From DX Require Import RoundTripBase.
From DX Require Import RoundTripCodec RoundTripContent.
From DXGen Require GenSections GenText GenCodecs.
Import ListNotations.
Import String.StringSyntax.
Local Open Scope string_scope.
Local Open Scope list_scope.
Import WriterCanonFacts.

(* ------------------------------------------------------------------------------------------------ *)
(* 1. encodings: None, or a catalogue spelling of one of the ten modelled codecs, as an ASCII str      *)

Definition enc_ok (v : wv) : Prop :=
  v = WNone \/ exists eb canon c, v = WStr (ascii_text eb) /\ lookup_codec eb = LOk canon c.

(* the encoding as the reader holds it (header option / stack entry) *)
Definition rd_enc (v : wv) : option pv := match v with WStr t => Some (VStr (map n_byte t)) | _ => None end.

Lemma lookup_find_row : forall eb canon c, lookup_codec eb = LOk canon c -> exists r, find_row eb GenCodecs.rows = Some r.
Proof.
  intros eb canon c H. unfold lookup_codec in H. destruct (find_row eb GenCodecs.rows) as [r|]; [eauto|discriminate].
Qed.

Lemma spellings_not_int : forallb (fun r => negb (int_ok (GenCodecs.cr_spelling r))) GenCodecs.rows = true.
Proof. vm_compute. reflexivity. Qed.

Lemma spelling_facts : forall eb canon c, lookup_codec eb = LOk canon c ->
  int_ok eb = false /\ c_enc ascii (ascii_text eb) = Some eb /\ eb <> [] /\ HeaderFacts.spec_val eb.
Proof.
  intros eb canon c H. destruct (lookup_find_row _ _ _ H) as [r Hr].
  apply TextFacts.find_row_some in Hr. destruct Hr as [Hin ->].
  pose proof spellings_not_int as H1. rewrite forallb_forall in H1. specialize (H1 r Hin).
  pose proof spellings_b as H2. rewrite forallb_forall in H2. specialize (H2 r Hin).
  apply HeaderFacts.spec_val_iff in H2.
  split; [destruct (int_ok _); [discriminate H1|reflexivity]|].
  split; [apply enc_ascii_complete; apply spec_val_ascii; exact H2|].
  split; [apply H2 | exact H2].
Qed.

Lemma enc_ok_good : forall v, enc_ok v -> enc_good v.
Proof.
  intros v [->|(eb & canon & c & -> & H)]; [left; reflexivity|]. right.
  destruct (lookup_find_row _ _ _ H) as [r Hr]. eauto.
Qed.

Lemma enc_ok_good_value : forall v, enc_ok v -> good_value v.
Proof. intros v H. apply enc_good_value. apply enc_ok_good. exact H. Qed.

Lemma enc_ok_exact : forall v, enc_ok v -> exact_value v.
Proof.
  intros v [->|(eb & canon & c & -> & H)]; [exact I|]. cbn [exact_value].
  rewrite map_n_byte_ascii_text. apply (spelling_facts _ _ _ H).
Qed.

Lemma enc_ok_read_back : forall v, enc_ok v -> read_back v = rd_enc v.
Proof.
  intros v [->|(eb & canon & c & -> & H)]; [reflexivity|]. cbn [read_back rd_enc].
  rewrite map_n_byte_ascii_text. rewrite convert_value_not_int; [reflexivity | apply (spelling_facts _ _ _ H)].
Qed.

Lemma enc_ok_truthy : forall v, enc_ok v -> wv_truthy v = match v with WStr _ => true | _ => false end.
Proof.
  intros v [->|(eb & canon & c & -> & H)]; [reflexivity|]. cbn [wv_truthy].
  destruct (spelling_facts _ _ _ H) as (_ & _ & Hne & _). destruct eb; [congruence|reflexivity].
Qed.

(* ------------------------------------------------------------------------------------------------ *)
(* 2. what the reader must yield                                                                       *)

Definition call_name (c : call) : bytes :=
  match c with
  | NewChange _ => B "change" | NewFile _ => B "file"
  | WritePreamble _ _ _ _ _ => B "preamble" | WriteMeta _ _ _ => B "meta" | WriteDiff _ _ _ _ => B "diff"
  end.

(* number of dots of the section id the call writes *)
Definition call_dots (s : wstate) (c : call) : nat :=
  match c with
  | NewChange _ => GenText.writer_level_change - 1
  | NewFile _ => GenText.writer_level_file - 1
  | _ => cur_level s
  end.

Definition preamble_indent (ind : option wv) : wv := match ind with Some v => v | None => WInt GenText.default_indent end.
Definition meta_fmt (fmt : option wv) : wv := match fmt with Some v => v | None => WStr (ascii_text GenText.meta_format_json) end.

(* write_meta after the fix `if not (encoding or self._cur_encoding): content = content.encode('ascii')`:
   [meta_enc_b s c]: at the write_meta call c made in state s an encoding IS in force (the argument, or else the
   innermost open container's, is truthy).  Then the call behaves exactly as before the fix (the JSON text is
   encoded like any text content: [CText]).  With NO encoding in force — only possible in a writer constructed with
   encoding=None, [enc_ok] allows that — the call used to raise TypeError and is now accepted, the pure-ASCII JSON
   being handed on as bytes ([CBytes]); the reader then yields bytes and asks json.loads about BYTES.
   [metas_encoded s cs]: the first case at every write_meta of cs; [RoundTripCor.metas_encoded_init]: it holds for
   every program of a writer constructed with an encoding. *)
Definition meta_enc_b (s : wstate) (c : call) : bool :=
  match c with
  | WriteMeta _ enc _ => wv_truthy (Encodings.w_content_encoding enc true (hd WNone (w_stack s)))
  | _ => true
  end.

Fixpoint metas_encoded (s : wstate) (cs : list call) : Prop :=
  match cs with
  | [] => True
  | c :: t => meta_enc_b s c = true /\ metas_encoded (fst (do_call c s)) t
  end.

(* the content write_meta hands to _new_content_section for the dumped JSON [d] *)
Definition meta_content (s : wstate) (enc : wv) (d : bytes) : wcontent :=
  if wv_truthy (Encodings.w_content_encoding enc true (hd WNone (w_stack s))) then CText (ascii_text d) else CBytes d.

(* what _prepare_content returned for the call: (body, line_endings value); ([], None) for containers *)
Definition call_prepared (s : wstate) (c : call) : bytes * wv :=
  let get (r : res (bytes * wv)) := match r with Ok p => p | Err _ => ([], WNone) end in
  match c with
  | WritePreamble (WStr t) enc ind le _ => get (prepare_content s (CText t) (preamble_indent ind) le enc true)
  | WriteMeta (WDict j) enc _ =>
      match json_dump j with
      | Ok d => get (prepare_content s (meta_content s enc d) WNone WNone enc true)
      | Err _ => ([], WNone)
      end
  | WriteDiff (WBytes b) _ enc le => get (prepare_content s (CBytes b) WNone le enc false)
  | _ => ([], WNone)
  end.

(* the options dict handed to _write_section_header *)
Definition call_opts (c : call) (body : bytes) (le_out : wv) : list (bytes * wv) :=
  match c with
  | NewChange e | NewFile e => dict_set "encoding" e []
  | WritePreamble _ enc ind _ mt => content_opts body le_out enc (preamble_indent ind) true [(B "mimetype", mt)]
  | WriteMeta _ enc fmt => content_opts body le_out enc WNone false [(B "format", meta_fmt fmt)]
  | WriteDiff _ dt enc _ => content_opts body le_out enc WNone true [(B "type", dt)]
  end.

Definition call_payload (c : call) (body : bytes) : payload :=
  match c with
  | NewChange _ | NewFile _ => PNone
  | WritePreamble (WStr t) _ _ le _ => PText (final_text (snd (resolve_le le t)) t)
  | WriteMeta (WDict j) _ _ => PMeta j
  | WriteDiff _ _ _ _ => PBytes body
  | _ => PNone
  end.

(* 1. expected_record *)
Definition expected_record (s : wstate) (line : Z) (c : call) (body : bytes) (le_out : wv) : record :=
  {| r_level := call_dots s c; r_line := line; r_opts := expected_opts (call_opts c body le_out);
     r_id := WriterFacts.target s c; r_type := call_name c; r_payload := call_payload c body |}.

Definition expected_record_of (s : wstate) (line : Z) (c : call) : record :=
  expected_record s line c (fst (call_prepared s c)) (snd (call_prepared s c)).

(* ------------------------------------------------------------------------------------------------ *)
(* 3. the simulation relation                                                                          *)

Record Sim (s : wstate) (st : rstate) (valid : list bytes) (encs : list (option pv)) (prev : nat) : Prop := {
  sim_reach : WriterFacts.reachable s;
  sim_good : Forall enc_ok (w_stack s);
  sim_fnl : st_fnl st = Some [lf];
  sim_valid : exists p, w_prev s = Some p /\ table_get p = Some valid;
  sim_stack : exists p e0, w_stack s = p ++ [e0] /\ encs = map rd_enc p ++ [None];
  sim_prev : length (w_stack s) = prev + 2
}.

Lemma pop_n_skipn : forall {A} n (l : list A), n <= length l -> pop_n n l = Some (skipn n l).
Proof.
  induction n as [|n IH]; intros l H; [reflexivity|]. destruct l as [|x l]; [cbn in H; lia|].
  cbn [pop_n skipn]. apply IH. cbn in H. lia.
Qed.

Lemma Forall_skipn : forall {A} (P : A -> Prop) n l, Forall P l -> Forall P (skipn n l).
Proof.
  intros A P n l H. rewrite <- (firstn_skipn n l) in H. apply Forall_app in H. apply H.
Qed.

(* the reader's iteration on a container header that _read_header accepted *)
Lemma iter_step_container : forall orc chunk st valid encs prev level name id opts line st1 encs1 cur nxt,
  read_header chunk valid st = HdrOk level name id opts line st1 ->
  id = GenSections.sec_change \/ id = GenSections.sec_file ->
  pop_n (prev + 1 - level) encs = Some encs1 -> top encs1 = Some cur -> table_get id = Some nxt ->
  iter_step orc chunk st valid encs prev =
    SYield {| r_level := level; r_line := line; r_opts := opts; r_id := id; r_type := name; r_payload := PNone |}
           st1 nxt ((match opt_get "encoding" opts with Some v => Some v | None => cur end) :: encs1) level.
Proof.
  intros orc chunk st valid encs prev level name id opts line st1 encs1 cur nxt Hh Hid Hpop Htop Htab.
  unfold iter_step. rewrite Hh. cbv zeta.
  destruct Hid as [-> | ->].
  - replace (is_content GenSections.sec_change) with false by (vm_compute; reflexivity).
    replace (beq GenSections.sec_change GenSections.sec_main) with false by (vm_compute; reflexivity).
    replace (beq GenSections.sec_change GenSections.sec_change) with true by (vm_compute; reflexivity).
    cbn [orb]. rewrite Hpop, Htop, Htab. reflexivity.
  - replace (is_content GenSections.sec_file) with false by (vm_compute; reflexivity).
    replace (beq GenSections.sec_file GenSections.sec_main) with false by (vm_compute; reflexivity).
    replace (beq GenSections.sec_file GenSections.sec_file) with true by (vm_compute; reflexivity).
    rewrite orb_true_r. rewrite Hpop, Htop, Htab. reflexivity.
Qed.

Lemma sim_target_valid : forall s st valid encs prev c s',
  Sim s st valid encs prev -> do_call c s = (s', Ok tt) -> In (WriterFacts.target s c) valid.
Proof.
  intros s st valid encs prev c s' HS H. destruct (sim_valid _ _ _ _ _ HS) as (p & Hp & Ht).
  destruct (WriterFacts.C09_accept_order s c s' (sim_reach _ _ _ _ _ HS) H) as (p' & Hp' & Hin).
  rewrite Hp in Hp'. injection Hp' as <-. unfold WriterFacts.table in Hin. rewrite Ht in Hin. exact Hin.
Qed.

Lemma sim_stack_ne : forall s st valid encs prev, Sim s st valid encs prev -> w_stack s <> [].
Proof. intros s st valid encs prev HS E. pose proof (sim_prev _ _ _ _ _ HS) as H. rewrite E in H. cbn in H. lia. Qed.

(* the container calls *)
Lemma sim_step_container : forall orc chunk c e s s' st valid encs prev,
  (c = NewChange e \/ c = NewFile e) ->
  Sim s st valid encs prev -> enc_ok e -> do_call c s = (s', Ok tt) -> 0 < chunk ->
  exists new, w_out s' = w_out s ++ new /\
    forall rest, remaining (st_stream st) = new ++ rest ->
      exists st' valid' encs' prev',
        iter_step orc chunk st valid encs prev = SYield (expected_record s (st_linenum st) c [] WNone) st' valid' encs' prev' /\
        Sim s' st' valid' encs' prev' /\ remaining (st_stream st') = rest /\
        st_linenum st' = (st_linenum st + 1)%Z.
Proof.
  intros orc chunk c e s s' st valid encs prev Hc HS He H Hchunk.
  pose proof (sim_target_valid _ _ _ _ _ _ _ HS H) as Hvalid.
  pose proof (sim_stack_ne _ _ _ _ _ HS) as Hne.
  pose proof (sim_reach _ _ _ _ _ HS) as Hreach.
  assert (Hreach' : WriterFacts.reachable s') by (eapply WriterFacts.reachable_step; eauto).
  pose proof (WriterFacts.C09_accept_prev s c s' Hreach H) as Hprev'.
  destruct (WriterFacts.C09_state_shape s' Hreach') as (p' & Hp' & _ & Hlen' & _).
  rewrite Hprev' in Hp'. injection Hp' as <-.
  set (name := call_name c). set (lvl := match c with NewChange _ => GenText.writer_level_change | _ => GenText.writer_level_file end).
  assert (Hcall : do_call c s = new_container_section name lvl e [] s) by (destruct Hc as [-> | ->]; reflexivity).
  assert (Htarget : WriterFacts.target s c = build_id (lvl - 1) name) by (destruct Hc as [-> | ->]; reflexivity).
  assert (Hdots : call_dots s c = lvl - 1) by (destruct Hc as [-> | ->]; reflexivity).
  assert (Hlvl : (lvl = 2 /\ name = B "change" /\ build_id (lvl - 1) name = GenSections.sec_change) \/
                 (lvl = 3 /\ name = B "file" /\ build_id (lvl - 1) name = GenSections.sec_file)).
  { destruct Hc as [-> | ->]; [left|right]; repeat split; reflexivity. }
  assert (Hopts : call_opts c [] WNone = [(B "encoding", e)]) by (destruct Hc as [-> | ->]; reflexivity).
  rewrite Hcall in H. rewrite WriterFacts.ncs_eq in H by (try exact Hne; destruct Hlvl as [[-> _]|[-> _]]; lia).
  destruct (validate_section s _) as [[]|err]; [|inversion H].
  destruct (render_header _ _) as [h|err] eqn:Eh; [|inversion H]. cbv zeta in H.
  change (dict_set "encoding" e []) with [(B "encoding", e)] in Eh.
  rewrite Htarget in *.
  assert (Hname : In name HeaderFacts.spec_names) by (destruct Hlvl as [(_ & -> & _)|(_ & -> & _)]; cbn; auto 10).
  assert (Hd3 : lvl - 1 <= 3) by (destruct Hlvl as [[-> _]|[-> _]]; lia).
  destruct (header_rt valid (lvl - 1) name [(B "encoding", e)] Hd3 Hname Hvalid) as (r & Hr & Hparse & Hlf & Hcr & Hget).
  { cbn. constructor; [intros []|constructor]. }
  { constructor; [|constructor]. split; [apply key_spec; reflexivity | apply enc_ok_good_value; exact He]. }
  { constructor; [|constructor]. apply enc_ok_exact. exact He. }
  rewrite Hr in Eh. injection Eh as <-.
  assert (Es' : s' = {| w_out := w_out s ++ ("#"%byte :: r) ++ [x0a];
                        w_stack := (if wv_truthy e then e else hd WNone (skipn (length (w_stack s) - lvl) (w_stack s)))
                                   :: skipn (length (w_stack s) - lvl) (w_stack s);
                        w_prev := Some (build_id (lvl - 1) name) |}) by (inversion H; reflexivity).
  clear H.
  exists (("#"%byte :: r) ++ [x0a]). split; [rewrite Es'; reflexivity|].
  intros rest Hrem.
  destruct (read_header_line chunk valid st "#"%byte r rest Hchunk) as [Hh Hrem'].
  { rewrite Hrem. rewrite <- app_assoc. reflexivity. }
  { exact hash_not_space. } { exact Hlf. } { exact Hcr. } { right. exact (sim_fnl _ _ _ _ _ HS). }
  rewrite Hparse in Hh.
  (* the two stacks *)
  destruct (sim_stack _ _ _ _ _ HS) as (p & e0 & Hst & Hencs).
  pose proof (sim_prev _ _ _ _ _ HS) as Hlen.
  assert (Hlp : length p = prev + 1) by (rewrite Hst, app_length in Hlen; cbn in Hlen; lia).
  set (n := prev + 1 - (lvl - 1)).
  assert (Hn : length (w_stack s) - lvl = n) by (unfold n; destruct Hlvl as [[-> _]|[-> _]]; lia).
  assert (Hnp : n < length p) by (unfold n; destruct Hlvl as [[-> _]|[-> _]]; lia).
  rewrite Hn in Es'.
  assert (Hsk : skipn n (w_stack s) = skipn n p ++ [e0]).
  { rewrite Hst, skipn_app. replace (n - length p) with 0 by lia. reflexivity. }
  destruct (skipn n p) as [|x p1] eqn:Ep1.
  { exfalso. apply (f_equal (@length _)) in Ep1. rewrite skipn_length in Ep1. cbn in Ep1. lia. }
  assert (Hpop : pop_n n encs = Some (map rd_enc (x :: p1) ++ [None])).
  { rewrite pop_n_skipn by (rewrite Hencs, app_length, map_length; cbn; lia).
    rewrite Hencs, skipn_app, map_length. replace (n - length p) with 0 by lia.
    rewrite skipn_map, Ep1. reflexivity. }
  assert (Htab : exists nxt, table_get (build_id (lvl - 1) name) = Some nxt).
  { destruct Hlvl as [(_ & _ & ->)|(_ & _ & ->)]; eexists; vm_compute; reflexivity. }
  destruct Htab as [nxt Htab].
  assert (Hid : build_id (lvl - 1) name = GenSections.sec_change \/ build_id (lvl - 1) name = GenSections.sec_file)
    by (destruct Hlvl as [(_ & _ & ->)|(_ & _ & ->)]; auto).
  pose proof (iter_step_container orc chunk st valid encs prev _ _ _ _ _ _ _ (rd_enc x) nxt Hh Hid Hpop eq_refl Htab) as Hstep.
  do 4 eexists. split; [|split; [|split; [exact Hrem'|reflexivity]]].
  - rewrite Hstep. unfold expected_record. rewrite Hopts, Hdots, Htarget.
    replace (call_payload c []) with PNone by (destruct Hc as [-> | ->]; reflexivity). reflexivity.
  - assert (Hgood : Forall enc_ok (w_stack s)) by exact (sim_good _ _ _ _ _ HS).
    assert (Hgx : Forall enc_ok (x :: p1 ++ [e0])).
    { change (x :: p1 ++ [e0]) with ((x :: p1) ++ [e0]). rewrite <- Hsk. apply Forall_skipn. exact Hgood. }
    rewrite Hsk in Es'. cbn [hd app] in Es'.
    constructor.
    + exact Hreach'.
    + rewrite Es'. cbn [w_stack]. constructor; [|exact Hgx].
      destruct (wv_truthy e); [exact He | inversion Hgx; assumption].
    + reflexivity.
    + exists (build_id (lvl - 1) name). split; [rewrite Es'; reflexivity | exact Htab].
    + exists ((if wv_truthy e then e else x) :: x :: p1), e0. split; [rewrite Es'; reflexivity|].
      cbn [map app]. f_equal.
      unfold opt_get. rewrite (Hget (B "encoding")). cbn [assoc_get].
      replace (beq (B "encoding") (B "encoding")) with true by (vm_compute; reflexivity).
      rewrite (enc_ok_read_back e He), (enc_ok_truthy e He).
      destruct e; reflexivity.
    + rewrite Hlen'. destruct Hlvl as [(-> & _ & ->)|(-> & _ & ->)]; vm_compute; reflexivity.
Qed.

(* ------------------------------------------------------------------------------------------------ *)
(* 4. the constructor: the main header                                                                 *)

Definition main_opts (enc0 ver : wv) : list (bytes * wv) := dict_set "encoding" enc0 [(B "version", ver)].
Definition main_record (enc0 ver : wv) : record :=
  {| r_level := 0; r_line := 0%Z; r_opts := expected_opts (main_opts enc0 ver);
     r_id := GenSections.sec_main; r_type := B "diffx"; r_payload := PNone |}.

Lemma choice_exact : forall x, In x choice_values -> exact_value (WStr (ascii_text x)) /\ good_value (WStr (ascii_text x)).
Proof.
  intros x H. split; [|apply choice_values_spec; exact H]. cbn [exact_value]. rewrite map_n_byte_ascii_text.
  pose proof choice_values_b as Hb. rewrite forallb_forall in Hb. specialize (Hb x H).
  apply andb_true_iff in Hb. destruct Hb as [_ Hb]. destruct (int_ok x); [discriminate Hb|reflexivity].
Qed.

Lemma sim_init : forall orc chunk enc0 ver s0,
  writer_init enc0 ver = (s0, Ok tt) -> enc_ok enc0 -> 0 < chunk ->
  forall rest, exists st1 valid' encs',
    iter_step orc chunk (ReaderSpecFacts.init_state (w_out s0 ++ rest)) [GenSections.sec_main] [None] 0
      = SYield (main_record enc0 ver) st1 valid' encs' 0 /\
    Sim s0 st1 valid' encs' 0 /\ remaining (st_stream st1) = rest /\ st_linenum st1 = 1%Z /\
    s_data (st_stream st1) = w_out s0 ++ rest.
Proof.
  intros orc chunk enc0 ver s0 H He Hchunk rest.
  pose proof (WriterFacts.reachable_init _ _ _ H) as Hreach.
  unfold writer_init in H.
  destruct (in_strset ver GenText.versions) as [[|]|] eqn:Ev; try (inversion H; fail).
  apply in_strset_true in Ev. destruct Ev as (x & Hx & ->).
  rewrite WriterFacts.ncs_eq in H by (first [discriminate | unfold GenText.writer_level_main; lia]).
  cbn [validate_section w_prev] in H.
  fold (main_opts enc0 (WStr (ascii_text x))) in H.
  assert (Hmo : main_opts enc0 (WStr (ascii_text x)) = [(B "version", WStr (ascii_text x)); (B "encoding", enc0)]) by reflexivity.
  assert (Hxc : In x choice_values) by (unfold choice_values; do 4 (apply in_or_app; right); exact Hx).
  destruct (choice_exact x Hxc) as [Hxe Hxg].
  destruct (header_rt [GenSections.sec_main] 0 (B "diffx") (main_opts enc0 (WStr (ascii_text x))))
    as (r & Hr & Hparse & Hlf & Hcr & Hget).
  { lia. } { cbn; auto. } { left. reflexivity. }
  { rewrite Hmo. cbn. constructor; [intros [E|[]]; discriminate E|]. constructor; [intros []|constructor]. }
  { rewrite Hmo. constructor; [split; [apply key_spec; reflexivity|exact Hxg]|].
    constructor; [split; [apply key_spec; reflexivity|apply enc_ok_good_value; exact He]|constructor]. }
  { rewrite Hmo. constructor; [exact Hxe|]. constructor; [apply enc_ok_exact; exact He|constructor]. }
  change (build_id (GenText.writer_level_main - 1) (B "diffx")) with (build_id 0 (B "diffx")) in H.
  rewrite Hr in H. cbv zeta in H. cbn [w_out w_stack length Nat.sub skipn hd app] in H.
  assert (Es0 : s0 = {| w_out := ("#"%byte :: r) ++ [x0a]; w_stack := [enc0; enc0]; w_prev := Some (build_id 0 (B "diffx")) |}).
  { inversion H. destruct (wv_truthy enc0); reflexivity. }
  clear H.
  set (st0 := ReaderSpecFacts.init_state (w_out s0 ++ rest)).
  destruct (read_header_line chunk [GenSections.sec_main] st0 "#"%byte r rest Hchunk) as [Hh Hrem'].
  { unfold st0, ReaderSpecFacts.init_state, remaining. cbn [st_stream s_data s_pos skipn]. rewrite Es0. cbn [w_out].
    rewrite <- app_assoc. reflexivity. }
  { exact hash_not_space. } { exact Hlf. } { exact Hcr. } { left. reflexivity. }
  rewrite Hparse in Hh.
  assert (Hver : opt_get "version" (expected_opts (main_opts enc0 (WStr (ascii_text x)))) = Some (VStr x)).
  { unfold opt_get. rewrite (Hget (B "version")), Hmo. cbn [assoc_get].
    replace (beq (B "version") (B "version")) with true by (vm_compute; reflexivity).
    apply choice_values_spec. exact Hxc. }
  assert (Henc : opt_get "encoding" (expected_opts (main_opts enc0 (WStr (ascii_text x)))) = rd_enc enc0).
  { unfold opt_get. rewrite (Hget (B "encoding")), Hmo. cbn [assoc_get].
    replace (beq (B "encoding") (B "version")) with false by (vm_compute; reflexivity).
    replace (beq (B "encoding") (B "encoding")) with true by (vm_compute; reflexivity).
    apply enc_ok_read_back. exact He. }
  assert (Htab : exists nxt, table_get GenSections.sec_main = Some nxt) by (eexists; vm_compute; reflexivity).
  destruct Htab as [nxt Htab].
  exists (after_line st0 (length ("#"%byte :: r))), nxt, [rd_enc enc0; None].
  split; [|split; [|split; [exact Hrem'|split; reflexivity]]].
  - unfold iter_step. rewrite Hh. cbv zeta.
    change (build_id 0 (B "diffx")) with GenSections.sec_main.
    replace (is_content GenSections.sec_main) with false by (vm_compute; reflexivity).
    replace (beq GenSections.sec_main GenSections.sec_main) with true by (vm_compute; reflexivity).
    rewrite Hver. apply HeaderFacts.in_ids_In in Hx. rewrite Hx. cbn [top]. rewrite Htab, Henc.
    unfold main_record. destruct (rd_enc enc0); reflexivity.
  - constructor.
    + exact Hreach.
    + rewrite Es0. cbn [w_stack]. constructor; [exact He|constructor; [exact He|constructor]].
    + reflexivity.
    + exists GenSections.sec_main. split; [rewrite Es0; reflexivity | exact Htab].
    + exists [enc0], enc0. split; [rewrite Es0; reflexivity | reflexivity].
    + rewrite Es0. reflexivity.
Qed.

(* ------------------------------------------------------------------------------------------------ *)
(* 5. content calls: argument domains, inversion of accepted calls                                     *)

Definition indent_ok (ind : option wv) : Prop := match ind with None => True | Some v => indent_arg v end.

(* The argument domain: encodings None or a catalogue spelling of a modelled codec; indent omitted, None or an
   int >= 0; line_endings None, "dos" or "unix"; the metadata a dict.  Everything else the property's quantifier
   mentions (text non-empty and encodable in the effective encoding, mimetype / type / format legal, the dict
   non-empty and accepted by json.dumps, diff bytes non-empty) follows from the call having been accepted. *)
Definition call_good (c : call) : Prop :=
  match c with
  | NewChange e | NewFile e => enc_ok e
  | WritePreamble _ e ind le _ => enc_ok e /\ indent_ok ind /\ le_arg le
  | WriteMeta md e _ => enc_ok e /\ exists kv, md = WDict (JObj kv)
  | WriteDiff _ _ e le => enc_ok e /\ le_arg le
  end.

Lemma lift_err_no : forall (e : exn) (s s' : wstate), @lift unit (Err e) s = (s', Ok tt) -> False.
Proof. intros e s s' H. unfold lift in H. inversion H. Qed.

Lemma preamble_call_inv : forall text enc ind le mt s s',
  do_call (WritePreamble text enc ind le mt) s = (s', Ok tt) ->
  exists t, text = WStr t /\
    (match mt with WNone => Ok true | v => in_strset v GenText.mimetypes end) = Ok true /\
    new_content_section (B "preamble") (CText t) le enc (preamble_indent ind) true true [(B "mimetype", mt)] s = (s', Ok tt).
Proof.
  intros text enc ind le mt s s' H. cbn [do_call] in H.
  destruct text; try (exfalso; eapply lift_err_no; eassumption).
  rewrite WriterFacts.bind_lift in H.
  destruct (match mt with WNone => Ok true | _ => _ end) as [mok|e1] eqn:Em; [|inversion H].
  destruct mok; cbn [negb] in H; [|exfalso; eapply lift_err_no; eassumption].
  exists t. split; [reflexivity|]. split; [reflexivity|exact H].
Qed.

Lemma meta_enc_has_enc : forall s md enc fmt, w_stack s <> [] -> meta_enc_b s (WriteMeta md enc fmt) = true ->
  (if wv_truthy enc then Ok true else do ce <- cur_encoding s; Ok (wv_truthy ce)) = Ok true.
Proof. intros s md enc fmt Hne H. apply WriterFacts.meta_has_enc; [exact Hne|exact H]. Qed.

(* the writer's test is [meta_enc_b] *)
Lemma has_enc_meta_enc : forall s md enc fmt b, w_stack s <> [] ->
  (if wv_truthy enc then Ok true else do ce <- cur_encoding s; Ok (wv_truthy ce)) = Ok b ->
  meta_enc_b s (WriteMeta md enc fmt) = b.
Proof.
  intros s md enc fmt b Hne H. cbn [meta_enc_b]. unfold Encodings.w_content_encoding.
  destruct (wv_truthy enc) eqn:E; cbn [negb andb].
  - injection H as <-. exact E.
  - rewrite (WriterFacts.cur_encoding_hd s Hne) in H. cbn [bind] in H. injection H as <-. reflexivity.
Qed.

(* inversion of an accepted write_meta, whatever the encodings: [has_enc] is the writer's test *)
Lemma meta_call_inv_gen : forall md enc fmt s s',
  do_call (WriteMeta md enc fmt) s = (s', Ok tt) ->
  exists j d has_enc, md = WDict j /\ wv_truthy md = true /\
    in_strset (meta_fmt fmt) GenText.meta_formats = Ok true /\ json_dump j = Ok d /\
    (if wv_truthy enc then Ok true else do ce <- cur_encoding s; Ok (wv_truthy ce)) = Ok has_enc /\
    new_content_section (B "meta") (if has_enc then CText (ascii_text d) else CBytes d)
      WNone enc WNone false true [(B "format", meta_fmt fmt)] s = (s', Ok tt).
Proof.
  intros md enc fmt s s' H. cbn [do_call] in H.
  destruct md; try (exfalso; eapply lift_err_no; eassumption).
  destruct (wv_truthy (WDict j)) eqn:Et; cbn [negb] in H; [|exfalso; eapply lift_err_no; eassumption].
  rewrite WriterFacts.bind_lift in H. fold (meta_fmt fmt) in H.
  destruct (in_strset (meta_fmt fmt) GenText.meta_formats) as [fok|e1] eqn:Ef; [|inversion H].
  destruct fok; cbn [negb] in H; [|exfalso; eapply lift_err_no; eassumption].
  rewrite WriterFacts.bind_lift in H.
  destruct (json_dump j) as [d|e1] eqn:Ed; [|inversion H].
  rewrite WriterFacts.bind_get, WriterFacts.bind_lift in H.
  destruct (if wv_truthy enc then _ else _) as [has_enc|e1] eqn:Eh; [|inversion H].
  exists j, d, has_enc. repeat split; auto.
Qed.

(* ... with an encoding in force: the JSON text goes through the text path *)
Lemma meta_call_inv : forall md enc fmt s s',
  w_stack s <> [] -> meta_enc_b s (WriteMeta md enc fmt) = true ->
  do_call (WriteMeta md enc fmt) s = (s', Ok tt) ->
  exists j d, md = WDict j /\ wv_truthy md = true /\
    in_strset (meta_fmt fmt) GenText.meta_formats = Ok true /\ json_dump j = Ok d /\
    new_content_section (B "meta") (CText (ascii_text d)) WNone enc WNone false true [(B "format", meta_fmt fmt)] s = (s', Ok tt).
Proof.
  intros md enc fmt s s' Hne Hme H.
  destruct (meta_call_inv_gen _ _ _ _ _ H) as (j & d & he & Ej & Ht & Hf & Hd & Hhe & Hn).
  rewrite (meta_enc_has_enc s md enc fmt Hne Hme) in Hhe. injection Hhe as <-.
  exists j, d. repeat split; auto.
Qed.

Lemma diff_call_inv : forall content dt enc le s s',
  do_call (WriteDiff content dt enc le) s = (s', Ok tt) ->
  exists b, content = WBytes b /\
    (match dt with WNone => Ok true | v => in_strset v GenText.diff_types end) = Ok true /\
    new_content_section (B "diff") (CBytes b) le enc WNone true false [(B "type", dt)] s = (s', Ok tt).
Proof.
  intros content dt enc le s s' H. cbn [do_call] in H.
  destruct content; try (exfalso; eapply lift_err_no; eassumption).
  rewrite WriterFacts.bind_lift in H.
  destruct (match dt with WNone => Ok true | _ => _ end) as [tok|e1] eqn:Em; [|inversion H].
  destruct tok; cbn [negb] in H; [|exfalso; eapply lift_err_no; eassumption].
  exists b. split; [reflexivity|]. split; [reflexivity|exact H].
Qed.

(* a value of a choice set, or None *)
Lemma choice_good_exact : forall v set, (forall x, In x set -> In x choice_values) ->
  match v with WNone => Ok true | v' => in_strset v' set end = Ok true ->
  good_value v /\ exact_value v /\ (v = WNone \/ exists x, In x set /\ v = WStr (ascii_text x)).
Proof.
  intros v set Hsub H.
  destruct v; try (split; [constructor|split; [exact I|left; reflexivity]]; fail);
    apply in_strset_true in H; destruct H as (x & Hx & E); try discriminate E.
  inversion E; subst. destruct (choice_exact x (Hsub x Hx)) as [H1 H2].
  split; [exact H2|]. split; [exact H1|]. right. eauto.
Qed.

Lemma le_names_not_int : forallb (fun x => negb (int_ok x)) (map fst GenText.newline_formats) = true.
Proof. vm_compute. reflexivity. Qed.

(* the line_endings value _prepare_content returns is one of the generated names *)
Lemma prepared_le_out : forall s content ind le enc inh body le_out,
  prepare_content s content ind le enc inh = Ok (body, le_out) ->
  exists x, In x (map fst GenText.newline_formats) /\ le_out = WStr (ascii_text x) /\
            good_value le_out /\ exact_value le_out /\ read_back le_out = Some (VStr x).
Proof.
  intros s content ind le enc inh body le_out H.
  assert (Hx : exists x, In x (map fst GenText.newline_formats) /\ le_out = WStr (ascii_text x)).
  { destruct content as [t|b].
    - destruct (C02_text_section_newline _ _ _ _ _ _ _ _ H) as (e & eb & x & nl & _ & _ & Hin & -> & _). eauto.
    - destruct (C02_bytes_section_newline _ _ _ _ _ _ _ _ H) as (e1 & eb & x & nl & _ & _ & Hin & -> & _). eauto. }
  destruct Hx as (x & Hin & ->). exists x. split; [exact Hin|]. split; [reflexivity|].
  pose proof le_names_not_int as Hb. rewrite forallb_forall in Hb. specialize (Hb x Hin).
  assert (Hni : int_ok x = false) by (destruct (int_ok x); [discriminate Hb|reflexivity]).
  split; [apply le_name_good; exact Hin|]. split.
  - cbn [exact_value]. rewrite map_n_byte_ascii_text. exact Hni.
  - cbn [read_back]. rewrite map_n_byte_ascii_text, convert_value_not_int by exact Hni. reflexivity.
Qed.

Lemma sys_maxsize_small : (Z.to_N sys_maxsize < 10 ^ 4300)%N.
Proof. vm_compute. reflexivity. Qed.

Lemma small_of_maxsize : forall n, (Z.of_nat n <= sys_maxsize)%Z -> small_int (Z.of_nat n).
Proof.
  intros n H. apply small_int_of_nat. eapply N.le_lt_trans; [|exact sys_maxsize_small].
  apply N2Z.inj_le. rewrite nat_N_Z, Z2N.id; [exact H | vm_compute; discriminate].
Qed.

Lemma small_of_maxsize_z : forall z, (0 <= z <= sys_maxsize)%Z -> small_int z.
Proof.
  intros z H. replace z with (Z.of_nat (Z.to_nat z)) by lia. apply small_of_maxsize. lia.
Qed.

(* ------------------------------------------------------------------------------------------------ *)
(* 6. content calls: the header                                                                        *)

Lemma content_opts_get : forall body lo enc ind wle key v k,
  assoc_get beq k (content_opts body lo enc ind wle [(key, v)]) =
    if wle && beq k (B "line_endings") then Some lo
    else if beq k (B "length") then Some (WInt (Z.of_nat (length body)))
    else if beq k (B "indent") then Some ind
    else if beq k (B "encoding") then Some enc
    else if beq k key then Some v else None.
Proof.
  intros. unfold content_opts, dict_set.
  destruct wle; rewrite !(HeaderFacts.assoc_get_set beq HeaderFacts.beq_spec); cbn [assoc_get andb];
    repeat match goal with |- context [beq k ?x] => destruct (beq k x) end; reflexivity.
Qed.

Ltac cbeq :=
  repeat match goal with
         | |- context [beq (B ?a) (B ?b)] =>
             let r := eval vm_compute in (beq (B a) (B b)) in change (beq (B a) (B b)) with r
         end; cbn [andb].

Lemma sim_top : forall s st valid encs prev, Sim s st valid encs prev ->
  exists tw p' e0, w_stack s = tw :: p' ++ [e0] /\ encs = rd_enc tw :: map rd_enc p' ++ [None] /\
                   enc_ok tw /\ cur_encoding s = Ok tw.
Proof.
  intros s st valid encs prev HS. destruct (sim_stack _ _ _ _ _ HS) as (p & e0 & Hst & Hencs).
  pose proof (sim_prev _ _ _ _ _ HS) as Hlen. pose proof (sim_good _ _ _ _ _ HS) as Hg.
  destruct p as [|tw p']; [rewrite Hst in Hlen; cbn in Hlen; lia|].
  exists tw, p', e0. split; [exact Hst|]. split; [exact Hencs|].
  split; [rewrite Hst in Hg; inversion Hg; assumption|]. unfold cur_encoding. rewrite Hst. reflexivity.
Qed.

Lemma sim_cur_level : forall s st valid encs prev, Sim s st valid encs prev -> cur_level s <= 3.
Proof.
  intros s st valid encs prev HS.
  destruct (WriterFacts.C09_state_shape s (sim_reach _ _ _ _ _ HS)) as (p & _ & _ & _ & ->). apply level_of_le3.
Qed.

Lemma sim_content_header : forall chunk s st valid encs prev c s' name content le enc ind wle inh key v,
  Sim s st valid encs prev -> do_call c s = (s', Ok tt) ->
  WriterFacts.target s c = build_id (cur_level s) name ->
  new_content_section name content le enc ind wle inh [(key, v)] s = (s', Ok tt) ->
  In name WriterFacts.content_names ->
  enc_ok enc -> good_value ind -> exact_value ind -> HeaderFacts.spec_key key -> good_value v -> exact_value v ->
  0 < chunk -> (Z.of_nat (length (w_out s')) <= sys_maxsize)%Z ->
  exists body le_out r nxt,
    prepare_content s content ind le enc inh = Ok (body, le_out) /\
    w_out s' = w_out s ++ (("#"%byte :: r) ++ [x0a]) ++ body /\
    (Z.of_nat (length body) <= sys_maxsize)%Z /\
    table_get (build_id (cur_level s) name) = Some nxt /\
    (forall st2, st_fnl st2 = Some [lf] -> Sim s' st2 nxt encs prev) /\
    (forall k, assoc_get beq k (expected_opts (content_opts body le_out enc ind wle [(key, v)])) =
               match assoc_get beq k (content_opts body le_out enc ind wle [(key, v)]) with
               | Some v => read_back v | None => None end) /\
    forall rest, remaining (st_stream st) = ((("#"%byte :: r) ++ [x0a]) ++ body) ++ rest ->
      read_header chunk valid st =
        HdrOk (cur_level s) name (build_id (cur_level s) name)
              (expected_opts (content_opts body le_out enc ind wle [(key, v)]))
              (st_linenum st) (after_line st (length ("#"%byte :: r))) /\
      remaining (st_stream (after_line st (length ("#"%byte :: r)))) = body ++ rest.
Proof.
  intros chunk s st valid encs prev c s' name content le enc ind wle inh key v
         HS Hcall Htarget H Hname Henc Hind Hindx Hkey Hv Hvx Hchunk Hsize.
  pose proof (sim_target_valid _ _ _ _ _ _ _ HS Hcall) as Hvalid. rewrite Htarget in Hvalid.
  pose proof (sim_reach _ _ _ _ _ HS) as Hreach.
  assert (Hreach' : WriterFacts.reachable s') by (eapply WriterFacts.reachable_step; eauto).
  destruct (C02_length_exact _ _ _ _ _ _ _ _ _ _ H) as (body & le_out & h & Hprep & Hh & _ & Hout & Hprev' & Hstack').
  destruct (prepared_le_out _ _ _ _ _ _ _ _ Hprep) as (x & Hxin & Hlo & Hlog & Hlox & _).
  assert (Hbody : (Z.of_nat (length body) <= sys_maxsize)%Z).
  { rewrite Hout, !app_length in Hsize. lia. }
  destruct (content_opts_good body le_out enc ind wle key v (small_of_maxsize _ Hbody) Hlog
              (enc_ok_good_value _ Henc) Hind Hkey Hv) as [Hg Hnd].
  assert (Hex : Forall (fun kv => exact_value (snd kv)) (content_opts body le_out enc ind wle [(key, v)])).
  { apply Forall_forall. intros [k w] Hin. cbn [snd].
    pose proof (nodup_assoc_get _ k w Hnd Hin) as Hget. rewrite content_opts_get in Hget.
    destruct (wle && beq k (B "line_endings")); [injection Hget as <-; exact Hlox|].
    destruct (beq k (B "length")); [injection Hget as <-; exact I|].
    destruct (beq k (B "indent")); [injection Hget as <-; exact Hindx|].
    destruct (beq k (B "encoding")); [injection Hget as <-; apply enc_ok_exact; exact Henc|].
    destruct (beq k key); [injection Hget as <-; exact Hvx|discriminate Hget]. }
  destruct (header_rt valid (cur_level s) name _ (sim_cur_level _ _ _ _ _ HS) (content_names_spec _ Hname) Hvalid Hnd Hg Hex)
    as (r & Hr & Hparse & Hlf & Hcr & Hget).
  rewrite Hr in Hh. injection Hh as <-.
  destruct (sim_valid _ _ _ _ _ HS) as (p & Hp & Htp).
  destruct (table_get (build_id (cur_level s) name)) as [nxt|] eqn:Etab.
  2:{ exfalso. exact (SectionsFacts.table_closed p valid _ Htp Hvalid Etab). }
  exists body, le_out, r, nxt.
  split; [exact Hprep|]. split; [exact Hout|]. split; [exact Hbody|]. split; [reflexivity|].
  split; [|split; [exact Hget|]].
  - intros st2 Hfnl. constructor.
    + exact Hreach'.
    + rewrite Hstack'. exact (sim_good _ _ _ _ _ HS).
    + exact Hfnl.
    + exists (build_id (cur_level s) name). split; [exact Hprev'|exact Etab].
    + rewrite Hstack'. exact (sim_stack _ _ _ _ _ HS).
    + rewrite Hstack'. exact (sim_prev _ _ _ _ _ HS).
  - intros rest Hrem.
    destruct (read_header_line chunk valid st "#"%byte r (body ++ rest) Hchunk) as [Hh Hrem'].
    { rewrite Hrem. rewrite <- !app_assoc. reflexivity. }
    { exact hash_not_space. } { exact Hlf. } { exact Hcr. } { right. exact (sim_fnl _ _ _ _ _ HS). }
    rewrite Hparse in Hh. split; [exact Hh|exact Hrem'].
Qed.
