(* ReaderFacts.v — C08: the reader's error contract.
   For every byte string, every json oracle and every read-ahead block size > 0 the streaming reader of Reader.v
   terminates (the fuel of the model is never exhausted), ends either normally or with a DiffXParseError whose line
   number lies inside the input, and never lets another exception type escape; the two model artefacts EUnmodelled
   (a codec CPython knows and the model does not execute) and EOracleMiss (no json.loads answer recorded) excepted.
   The DOM loader on top of it (Dom.dom_read) fails only with errors of the library's own family.

   C08_message: the model carries no message strings. DiffXParseError.__init__ derives the message prefix
   ("Error on line N[, column M]: ...") from its linenum/column arguments alone (linenum + 1, column + 1), so agreement
   of message and attributes is a property of that constructor, not of the reader; it is checked by the harness
   oracle on every fuzz case (family `fuzz`), and there is no theorem about it here. *)
From Coq Require Import List Arith NArith ZArith Bool Strings.Byte Lia ZifyBool.
From Coq Require Strings.String.
From DX Require Import Bytes Res Codec Text Sections Header Stream Json Reader StreamFacts.
From DXGen Require GenSections GenText GenCodecs.
Import ListNotations.
Import String.StringSyntax.
Local Open Scope string_scope.
Local Open Scope list_scope.

(* ------------------------------------------------------------------------------------------------ *)
(* equality tests                                                                                    *)

Lemma beq_true : forall a b : bytes, beq a b = true -> a = b.
Proof.
  unfold beq. induction a as [|x a IH]; intros [|y b] H; cbn in H; try discriminate; [reflexivity|].
  apply andb_true_iff in H. destruct H as [H1 H2]. apply Byte.byte_dec_bl in H1. subst. f_equal. auto.
Qed.

Lemma mem_beq_in : forall (x : bytes) l, mem beq x l = true -> In x l.
Proof.
  induction l as [|y t IH]; cbn [mem]; intros H; [discriminate|].
  apply orb_true_iff in H. destruct H as [H|H]; [left; symmetry; apply beq_true; exact H|right; auto].
Qed.

Lemma assoc_get_in {V} : forall (k : bytes) (d : list (bytes * V)) v, assoc_get beq k d = Some v -> In (k, v) d.
Proof.
  induction d as [|[k' v'] d IH]; intros v H; cbn [assoc_get] in H; [discriminate|].
  destruct (beq k k') eqn:E.
  - apply beq_true in E. inversion H; subst. left; reflexivity.
  - right; auto.
Qed.

(* ------------------------------------------------------------------------------------------------ *)
(* split_lines: how many lines                                                                       *)

Section SplitBound.
  Context {A : Type} (eqb : A -> A -> bool).

  Lemma split_aux_len : forall sep l cur skip,
    List.length (split_aux eqb sep cur l skip) <= List.length l - skip + 1.
  Proof.
    intros sep. induction l as [|x t IH]; intros cur skip; cbn [split_aux List.length].
    - lia.
    - destruct skip as [|k].
      + destruct (prefixb eqb sep (x :: t)) eqn:P.
        * cbn [List.length]. specialize (IH [] (List.length sep - 1)). lia.
        * specialize (IH (x :: cur) 0). lia.
      + specialize (IH cur k). lia.
  Qed.

  Lemma prefixb_len : forall p l, prefixb eqb p l = true -> List.length p <= List.length l.
  Proof.
    induction p as [|a p IH]; intros [|b l] H; cbn [prefixb List.length] in *; try lia; try discriminate.
    apply andb_true_iff in H. destruct H as [_ H]. apply IH in H. lia.
  Qed.

  Lemma prefixb_app : forall p l r, prefixb eqb p l = true -> prefixb eqb p (l ++ r) = true.
  Proof.
    induction p as [|a p IH]; intros [|b l] r H; cbn [prefixb app] in *; try reflexivity; try discriminate.
    apply andb_true_iff in H. destruct H as [H1 H2]. rewrite H1. cbn. apply IH; exact H2.
  Qed.

  Lemma suffixb_cons : forall s l x, suffixb eqb s l = true -> suffixb eqb s (x :: l) = true.
  Proof.
    intros s l x H. unfold suffixb, frev in *. cbn [rev_append].
    rewrite (rev_append_rev l [x]). rewrite (rev_append_rev l []), app_nil_r in H. apply prefixb_app; exact H.
  Qed.

  (* as many pieces as elements + 1 only if the data ends with a separator *)
  Lemma split_aux_full : forall sep l cur, sep <> [] -> l <> [] ->
    List.length (split_aux eqb sep cur l 0) = List.length l + 1 -> suffixb eqb sep l = true.
  Proof.
    intros sep. induction l as [|x t IH]; intros cur Hs Hl H; [congruence|].
    cbn [split_aux List.length] in H.
    destruct (prefixb eqb sep (x :: t)) eqn:P.
    - cbn [List.length] in H.
      pose proof (split_aux_len sep t [] (List.length sep - 1)) as B.
      pose proof (prefixb_len _ _ P) as C. cbn [List.length] in C.
      assert (List.length sep = 1) as L1 by (destruct sep; [congruence|cbn [List.length] in *; lia]).
      rewrite L1 in H. cbn [Nat.sub] in H.
      destruct t as [|y t'].
      + destruct sep as [|c [|? ?]]; cbn [List.length] in L1; try lia.
        unfold suffixb, frev. cbn [rev_append]. exact P.
      + apply suffixb_cons. apply (IH []); [exact Hs|discriminate|lia].
    - pose proof (split_aux_len sep t (x :: cur) 0) as B. lia.
  Qed.

  Lemma removelast_len : forall (l : list (list A)), List.length (removelast l) = List.length l - 1.
  Proof.
    induction l as [|x t IH]; [reflexivity|]. cbn [removelast]. destruct t as [|y t']; [reflexivity|].
    cbn [List.length] in *. lia.
  Qed.

  Lemma cut_last_g_len : forall n (l : list (list A)), List.length (cut_last_g n l) = List.length l.
  Proof.
    induction l as [|x t IH]; [reflexivity|]. cbn [cut_last_g]. destruct t as [|y t']; [reflexivity|].
    cbn [List.length] in *. lia.
  Qed.

  Lemma split_lines_g_len : forall d nl ls,
    split_lines_g eqb d nl true = Ok ls -> List.length ls <= List.length d.
  Proof.
    intros d nl ls H. unfold split_lines_g in H.
    destruct d as [|d0 d']; [discriminate|]. destruct nl as [|n0 nl']; [discriminate|].
    cbn [is_nil] in H.
    set (d := d0 :: d') in *. set (nl := n0 :: nl') in *.
    pose proof (split_aux_len nl d [] 0) as B. fold (split eqb nl d) in B.
    destruct (suffixb eqb nl d) eqn:S; inversion H; subst ls; clear H.
    - rewrite removelast_len, map_length. lia.
    - rewrite cut_last_g_len, map_length.
      destruct (Nat.eq_dec (List.length (split eqb nl d)) (List.length d + 1)) as [E|E]; [|lia].
      apply split_aux_full in E; [congruence|discriminate|discriminate].
  Qed.

  Lemma split_lines_g_ok : forall d nl k, d <> [] -> nl <> [] -> exists ls, split_lines_g eqb d nl k = Ok ls.
  Proof.
    intros d nl k Hd Hn. unfold split_lines_g.
    destruct d; [congruence|]. destruct nl; [congruence|]. cbn [is_nil].
    destruct (suffixb _ _ _); [eauto|]. destruct k; eauto.
  Qed.
End SplitBound.

Lemma split_lines_len : forall d nl ls, split_lines d nl true = Ok ls -> List.length ls <= List.length d.
Proof. intros d nl ls. apply split_lines_g_len. Qed.

Lemma split_lines_ok : forall d nl k, d <> [] -> nl <> [] -> exists ls, split_lines d nl k = Ok ls.
Proof. intros d nl k. apply split_lines_g_ok. Qed.
