"""Which families and generated modules decide which property."""
import fam_text
import fam_stream
import fam_hunks
import fam_dom

_split = fam_text.Split()
_codec = fam_text.CodecFam()
_spelling = fam_text.Spelling()

_stream = fam_stream.Stream()
_calls = fam_stream.Calls()
_foreign = fam_stream.Foreign()
_truncate = fam_stream.Truncate()
_order = fam_stream.Order()
_header = fam_stream.HeaderFam()
_chunk = fam_stream.Chunk()
_nesting = fam_stream.Nesting()
_fuzz = fam_stream.Fuzz()
_hunks = fam_hunks.HunksFam()
_dom = fam_dom.Dom()
_stats = fam_dom.Stats()
_alias = fam_dom.Alias()
_attrs = fam_dom.Attrs()

FAMILIES = {f.name: f for f in [_split, _codec, _spelling, _stream, _calls, _foreign, _truncate, _order, _header, _chunk, _nesting, _fuzz, _hunks, _dom, _stats, _alias, _attrs]}

PROPS = {
    'C16': dict(families=[_split], trusted_base=[
        'Python bytes.split/endswith/slicing behave as Bytes.split/suffixb/firstn (validated by the split family)']),
}
