(* DomSpecText.v — C06, preamble text: re-preparing a text that already ends with its newline, with the recorded
   line_endings declared, gives the same bytes (the hypothesis [text_prep_stable] of DomSpecFacts.C06_reserialise),
   from the codec laws used for C01 (RoundTripCodec.codec_laws, RoundTripContent.prepare_text_eval). *)
From Coq Require Import List Arith NArith ZArith Bool Strings.Byte Lia.
From Coq Require Strings.String.
From DX Require Import Bytes Res Codec Text Sections Header Json Reader Writer Dom RoundTripCodec.
From DX Require RoundTripContent.
From DX Require Import DomSpec DomSpecFacts.
From DXGen Require GenSections GenText.
Import ListNotations.
Import String.StringSyntax.
Local Open Scope string_scope.
Local Open Scope list_scope.

Module RC := RoundTripContent.

Lemma final_text_same : forall nl t, RC.final_text nl t = final_text nl t.
Proof. reflexivity. Qed.

(* DomSpec.pre_resolve is RoundTripContent.resolve_le on the C01 domain of line_endings arguments *)
Lemma pre_resolve_resolve : forall lev t le nl, RC.le_arg lev -> RC.resolve_le lev t = (le, nl) ->
  pre_resolve lev t = (WStr (ascii_text le), nl).
Proof.
  intros lev t le nl Hle H. destruct (RC.resolve_le_ok lev t le nl Hle H) as [Hv [Ha _]].
  unfold pre_resolve. destruct Hle as [|le0 H0]; cbn [RC.resolve_le declared_newline] in *.
  - rewrite H. reflexivity.
  - destruct (RC.le_values_facts le0 H0) as [F1 [_ [F3 _]]]. rewrite F1 in *. injection H as <- <-.
    rewrite F3. reflexivity.
Qed.

Section WithCodec.
  Variables (enc : bytes) (c : codec) (bom : bytes) (enc0 : text -> option bytes).
  Hypothesis laws : codec_laws enc c bom enc0.

  Theorem C06_prepare_idem_text : forall (s : wstate) (e t : text) (b : bytes) (lev indent : wv),
    c_enc ascii e = Some enc -> t <> [] -> enc0 t = Some b -> RC.le_arg lev -> RC.indent_arg indent ->
    text_prep_stable s t (WStr e) indent lev.
  Proof.
    intros s e t b lev indent He Ht Hb Hle Hind. unfold text_prep_stable.
    destruct (RC.resolve_le lev t) as [le nl] eqn:Hres.
    destruct (RC.resolve_le_ok lev t le nl Hle Hres) as [Hv [Ha Hin]].
    rewrite (pre_resolve_resolve lev t le nl Hle Hres). cbn [fst snd].
    destruct (cl_nl _ _ _ _ laws le nl Hin) as [nlb [Hnl _]].
    (* the text with its final newline, and its encoding *)
    set (t' := final_text nl t).
    set (b' := if suffixb N.eqb nl t then b else b ++ nlb).
    assert (Hb' : enc0 t' = Some b').
    { unfold t', b', final_text. destruct (suffixb N.eqb nl t); [exact Hb|].
      rewrite (cl_hom _ _ _ _ laws), Hb, Hnl. reflexivity. }
    assert (Ht' : t' <> []).
    { unfold t', final_text. destruct (suffixb N.eqb nl t); [exact Ht|]. destruct t; [congruence | discriminate]. }
    assert (Hends : suffixb N.eqb nl t' = true).
    { unfold t', final_text. destruct (suffixb N.eqb nl t) eqn:S; [exact S | apply suffixb_app_self; apply N.eqb_refl]. }
    assert (Hle' : RC.le_arg (WStr (ascii_text le))) by (constructor; exact Hv).
    assert (Hres' : RC.resolve_le (WStr (ascii_text le)) t' = (le, nl)).
    { cbn [RC.resolve_le]. destruct (RC.le_values_facts le Hv) as [F1 [_ [F3 _]]]. rewrite F1.
      unfold nl_text. rewrite Ha. reflexivity. }
    rewrite (RC.prepare_text_eval enc c bom enc0 laws s e t' b' He Ht' Hb' _ indent le nl nlb Hle' Hind Hres' Hnl).
    rewrite (RC.prepare_text_eval enc c bom enc0 laws s e t b He Ht Hb lev indent le nl nlb Hle Hind Hres Hnl).
    cbv zeta. rewrite Hends. unfold b'. destruct (suffixb N.eqb nl t); [reflexivity|].
    rewrite app_assoc. reflexivity.
  Qed.

  (* the usual case for the object model: no encoding on the section, the one in force is inherited *)
  Lemma prepare_inherit : forall s cnt ind lev e, cur_encoding s = Ok (WStr e) -> nonempty e = true ->
    prepare_content s cnt ind lev WNone true = prepare_content s cnt ind lev (WStr e) true.
  Proof.
    intros s cnt ind lev e Hc Hn. unfold prepare_content.
    change (wv_truthy WNone) with false. change (wv_truthy (WStr e)) with (nonempty e). rewrite Hn, Hc.
    reflexivity.
  Qed.

  Theorem C06_prepare_idem_text_inherited : forall (s : wstate) (e t : text) (b : bytes) (lev indent : wv),
    cur_encoding s = Ok (WStr e) ->
    c_enc ascii e = Some enc -> t <> [] -> enc0 t = Some b -> RC.le_arg lev -> RC.indent_arg indent ->
    text_prep_stable s t WNone indent lev.
  Proof.
    intros s e t b lev indent Hc He Ht Hb Hle Hind.
    destruct (cl_lookup _ _ _ _ laws) as [canon Hlk].
    pose proof (RC.encode_ascii_nonempty e enc He (RC.lookup_nonempty enc canon c Hlk)) as Hne.
    pose proof (C06_prepare_idem_text s e t b lev indent He Ht Hb Hle Hind) as H.
    unfold text_prep_stable in *. rewrite !(prepare_inherit s _ _ _ e Hc Hne). exact H.
  Qed.
End WithCodec.

(* the same with the codec abstraction hidden: the only codec hypothesis is [codec_ok enc] (proved for every
   spelling of the executable codecs in RoundTripCodecInst / RoundTripCodecUtf), and the text is encodable *)
Theorem C06_prepare_idem_text_ok : forall enc (s : wstate) (e t : text) (x : bytes) (lev indent : wv),
  codec_ok enc -> c_enc ascii e = Some enc -> t <> [] -> py_encode t enc = Ok x ->
  RC.le_arg lev -> RC.indent_arg indent ->
  text_prep_stable s t (WStr e) indent lev.
Proof.
  intros enc s e t x lev indent [c [bom [enc0 laws]]] He Ht Hx Hle Hind.
  destruct (RC.encodable_of_py_encode enc c bom enc0 laws t x Hx) as [b [Hb _]].
  exact (C06_prepare_idem_text enc c bom enc0 laws s e t b lev indent He Ht Hb Hle Hind).
Qed.

Theorem C06_prepare_idem_text_inherited_ok : forall enc (s : wstate) (e t : text) (x : bytes) (lev indent : wv),
  codec_ok enc -> cur_encoding s = Ok (WStr e) -> c_enc ascii e = Some enc -> t <> [] -> py_encode t enc = Ok x ->
  RC.le_arg lev -> RC.indent_arg indent ->
  text_prep_stable s t WNone indent lev.
Proof.
  intros enc s e t x lev indent [c [bom [enc0 laws]]] Hc He Ht Hx Hle Hind.
  destruct (RC.encodable_of_py_encode enc c bom enc0 laws t x Hx) as [b [Hb _]].
  exact (C06_prepare_idem_text_inherited enc c bom enc0 laws s e t b lev indent Hc He Ht Hb Hle Hind).
Qed.

(* the hypotheses are satisfiable: the preamble of DomSpecFacts.ex_tree (text "hello", no options) in utf-8 *)
From DX Require RoundTripCodecUtf.
Example ex_text_hypotheses :
  codec_ok (B "utf-8") /\ c_enc ascii (tx "utf-8") = Some (B "utf-8") /\ tx "hello" <> [] /\
  (exists x, py_encode (tx "hello") (B "utf-8") = Ok x) /\ RC.le_arg WNone /\ RC.indent_arg (WInt 4).
Proof.
  split; [apply (RoundTripCodecUtf.codec_ok_utf8 (B "utf-8") utf8); reflexivity|].
  split; [vm_compute; reflexivity|]. split; [discriminate|]. split; [eexists; vm_compute; reflexivity|].
  split; constructor. discriminate.
Qed.
