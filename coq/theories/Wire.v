(* Wire.v — S-expression encodings of the model's data (json, option values, records, calls). Glue only. *)
From Coq Require Import List Arith NArith ZArith Bool Strings.Byte.
From Coq Require Strings.String.
From DX Require Import Bytes Sx Res Json Header Reader Writer.
Import ListNotations.
Import String.StringSyntax.
Local Open Scope string_scope.
Local Open Scope list_scope.

(* ---- json ---- *)
Fixpoint sx_of_json (j : json) : sx :=
  match j with
  | JNull => sym "null"
  | JBool b => sx_of_bool b
  | JInt z => tagged "i" [sx_of_Z z]
  | JFloat r => tagged "f" [Hex r]
  | JStr s => tagged "s" [sx_of_text s]
  | JList l => Li (sym "l" :: map sx_of_json l)
  | JObj kv =>
      let fix go (l : list (text * json)) : list (text * sx) :=
        match l with [] => [] | (k, v) :: t => (k, sx_of_json v) :: go t end in
      Li (sym "o" :: map (fun p => Li [sx_of_text (fst p); snd p])
                         (isort (fun a b => text_leb (fst a) (fst b)) (go kv)))
  | JBad => sym "bad"
  end.

Fixpoint json_of_sx (fuel : nat) (s : sx) : option json :=
  match fuel with
  | O => None
  | S f =>
      match s with
      | Sym _ => if sym_is s "null" then Some JNull
                 else if sym_is s "true" then Some (JBool true)
                 else if sym_is s "false" then Some (JBool false)
                 else if sym_is s "bad" then Some JBad else None
      | Hex _ => None
      | Li (t :: args) =>
          if sym_is t "i" then match args with [z] => option_map JInt (sx_Z z) | _ => None end
          else if sym_is t "f" then match args with [Hex r] => Some (JFloat r) | _ => None end
          else if sym_is t "s" then match args with [x] => option_map JStr (sx_text x) | _ => None end
          else if sym_is t "l" then option_map JList (map_opt (json_of_sx f) args)
          else if sym_is t "o" then
            option_map JObj (map_opt (fun p => match p with
                                               | Li [k; v] => match sx_text k, json_of_sx f v with
                                                              | Some k, Some v => Some (k, v)
                                                              | _, _ => None
                                                              end
                                               | _ => None
                                               end) args)
          else None
      | Li [] => None
      end
  end.

Fixpoint sx_depth (s : sx) : nat :=
  match s with
  | Li l => S (fold_right (fun x acc => Nat.max (sx_depth x) acc) 0 l)
  | _ => 1
  end.
Definition sx_json (s : sx) : option json := json_of_sx (S (sx_depth s)) s.

(* ---- reader side ---- *)
Definition sx_of_pv (v : pv) : sx :=
  match v with VInt z => tagged "i" [sx_of_Z z] | VStr s => tagged "s" [Hex s] end.
Definition sx_of_options (o : options) : sx :=
  Li (map (fun p => Li [Hex (fst p); sx_of_pv (snd p)]) (sort_opts o)).
Definition sx_of_payload (p : payload) : sx :=
  match p with
  | PNone => sym "none"
  | PText t => tagged "text" [sx_of_text t]
  | PBytes b => tagged "bytes" [Hex b]
  | PMeta j => tagged "meta" [sx_of_json j]
  end.
Definition sx_of_record (r : record) : sx :=
  Li [sx_of_nat (r_level r); sx_of_Z (r_line r); Hex (r_id r); Hex (r_type r); sx_of_options (r_opts r); sx_of_payload (r_payload r)].
Definition sx_of_term (t : term) (exn_sx : exn -> sx) : sx :=
  match t with
  | TEnd => sym "end"
  | TParse l c => tagged "parse" [sx_of_Z l; sx_of_option sx_of_Z c]
  | TExc e => exn_sx e
  | TFuel => sym "fuel"
  end.

Definition sx_loads_answer (s : sx) : option loads_answer :=
  match s with
  | Li [t; j] => if sym_is t "ok" then option_map LoadsOk (sx_json j) else None
  | Sym _ => if sym_is s "valueerror" then Some LoadsValueError
             else if sym_is s "recursion" then Some LoadsRecursion else None
  | _ => None
  end.
Definition sx_oracle (s : sx) : option oracle :=
  sx_list (fun e => match e with
                    | Li [Hex k; a] => option_map (fun a => (k, a)) (sx_loads_answer a)
                    | _ => None
                    end) s.

(* ---- writer side ---- *)
Definition sx_wv (s : sx) : option wv :=
  match s with
  | Sym _ => if sym_is s "none" then Some WNone
             else if sym_is s "true" then Some (WBool true)
             else if sym_is s "false" then Some (WBool false)
             else if sym_is s "other" then Some WOther else None
  | Hex b => Some (WBytes b)
  | Li [t; x] =>
      if sym_is t "i" then option_map WInt (sx_Z x)
      else if sym_is t "u" then option_map WStr (sx_text s)
      else if sym_is t "d" then option_map WDict (sx_json x)
      else None
  | _ => None
  end.
(* 'omitted' = the keyword argument was not passed (default applies) *)
Definition sx_wv_opt (s : sx) : option (option wv) :=
  if sym_is s "omitted" then Some None else option_map Some (sx_wv s).

Definition sx_call (s : sx) : option call :=
  match s with
  | Li (t :: args) =>
      if sym_is t "new_change" then match args with [e] => option_map NewChange (sx_wv e) | _ => None end
      else if sym_is t "new_file" then match args with [e] => option_map NewFile (sx_wv e) | _ => None end
      else if sym_is t "write_preamble" then
        match args with
        | [x; e; i; le; m] =>
            match sx_wv x, sx_wv e, sx_wv_opt i, sx_wv le, sx_wv m with
            | Some x, Some e, Some i, Some le, Some m => Some (WritePreamble x e i le m)
            | _, _, _, _, _ => None
            end
        | _ => None
        end
      else if sym_is t "write_meta" then
        match args with
        | [x; e; f] =>
            match sx_wv x, sx_wv e, sx_wv_opt f with
            | Some x, Some e, Some f => Some (WriteMeta x e f)
            | _, _, _ => None
            end
        | _ => None
        end
      else if sym_is t "write_diff" then
        match args with
        | [x; ty; e; le] =>
            match sx_wv x, sx_wv ty, sx_wv e, sx_wv le with
            | Some x, Some ty, Some e, Some le => Some (WriteDiff x ty e le)
            | _, _, _, _ => None
            end
        | _ => None
        end
      else None
  | _ => None
  end.
