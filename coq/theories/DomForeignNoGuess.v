(* DomForeignNoGuess.v — C06_foreign with the guess premise discharged (GuessFacts.tree_guesses_always): the
   line-ending guess on re-serialised metadata is always right, so it need not be assumed. *)
From Coq Require Import List Arith NArith ZArith Bool Strings.Byte.
From DX Require Import Bytes Res Codec Text Sections Header Stream Json Reader Writer Dom SectionsSpec SpecReader.
From DX Require Import DomSpec DomCompose DomForeign DomForeignFacts.
From DX Require GuessFacts.
Import ListNotations.

Theorem C06_foreign_noguess : forall f orc t,
  wf_file f = true -> oracle_ok_file orc f ->
  (Z.of_nat (length (render_file f)) <= sys_maxsize)%Z ->
  dom_read orc (render_file f) = Ok t ->
  opts_known f = true -> choice_values_ok f = true ->
  sub_metas_nonempty f = true -> metas_plain f = true ->
  exists b, dom_write t = Ok b /\ same_contents t (normalise t) /\
    (tree_oracle_ok orc t -> tree_metas_oracle_ok orc t ->
     (Z.of_nat (length b) <= sys_maxsize)%Z ->
     dom_read orc b = Ok (normalise t) /\ dom_write (normalise t) = Ok b /\
     normalise (normalise t) = normalise t /\
     (forall b', dom_write (normalise t) = Ok b' -> dom_read orc b' = Ok (normalise t))).
Proof.
  intros f orc t Hwf Ho Hsz Hr H1 H3 H4 H5.
  destruct (DomForeignFacts.C06_foreign f orc t Hwf Ho Hsz Hr H1 H3 H4 H5) as (b & Hw & Hs & Hrest).
  exists b. split; [exact Hw|]. split; [exact Hs|].
  intros Hto Hmo Hb. apply Hrest; try assumption.
  (* the tree that was read is tree_of_file f, whose encodings and indents are valid *)
  pose proof (DomForeignFacts.foreign_read f orc Hwf Ho Hsz) as Hread.
  rewrite Hr in Hread.
  destruct (dom_accepts f) eqn:Ha; [|discriminate Hread].
  injection Hread as ->.
  destruct (DomForeignFacts.foreign_domain_wf f Hwf Ha H1 H3 H4 H5) as (_ & He & Hi & _).
  exact (GuessFacts.tree_guesses_always _ b He Hi Hw).
Qed.
