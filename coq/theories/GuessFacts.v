(* GuessFacts.v — the metadata newline guess is ALWAYS right: the premise [guesses_ok] / [tree_guesses_ok] of
   C01_round_trip, C05_full, C06_full and C06_canonical is a theorem.

   A metadata section carries no line_endings option: the reader guesses the newline from the BYTES of the body
   (first occurrence of the encoded LF; is it preceded by the encoded CR?).  For ascii / latin-1 / utf-8 / utf-8-sig
   the encoded LF is the single byte 0x0a, which occurs in no other code point's encoding (RoundTripGuess.v).  For the
   UTF-16/32 family a misaligned occurrence is possible for general text (U+0A41 U+4100 is 41 0a 00 41 in UTF-16-LE:
   [RoundTripAll.utf16_misaligned]).  But the metadata text is json.dumps output with ensure_ascii, handed to the
   encoder as [ascii_text d] for a byte string d: every code point is < 256.  A code point < 256 is one 2-byte
   (4-byte) unit with all bytes but one equal to 0x00, the BOMs contain no 0x0a, so the byte 0x0a occurs in the body
   only as the distinguished byte of an encoded LF; hence the first occurrence of the encoded LF in the bytes is
   the first LF of the text (section 2, [aligned_on]), the byte-level guess is the text-level guess (section 3), and
   the text-level guess of a non-empty JSON object ("{" LF ...) is unix.
   Proof file: nothing of the model is changed here. *)
From Coq Require Import List Arith NArith ZArith Bool Lia ZifyBool Strings.Byte.
From Coq Require Strings.String.
From DX Require Import Bytes Res Codec Text Sections Header Stream Json Reader Writer Dom.
From DX Require Import TextFacts.
From DX Require HeaderFacts StreamFacts SectionsFacts ReaderSpecFacts WriterFacts WriterCanonFacts Encodings.
From DX Require Import RoundTripCodec RoundTripCodecInst RoundTripCodecUtf RoundTripContent RoundTripGuess RoundTripAll.
From DX Require Import RoundTripBase RoundTripSim RoundTripStep RoundTrip RoundTripCor.
From DX Require Import DomSpec DomSpecFacts DomSpecText DomCompose DomComposeCanon.
From DXGen Require GenSections GenText GenCodecs.
Import ListNotations.
Import String.StringSyntax.
Local Open Scope string_scope.
Local Open Scope list_scope.

Ltac Zify.zify_post_hook ::= Z.to_euclidean_division_equations.

(* ================================================================================================ *)
(* 1. find: a pattern with a marked element z (pat = p1 ++ z :: p2, z not in p1) first occurs, in a list
      whose part before the pattern is free of z, exactly there                                        *)

Section FindMarked.
  Context {A : Type} (eqb : A -> A -> bool).
  Hypothesis eqb_spec : forall a b, eqb a b = true <-> a = b.

  Lemma mark_position : forall (a r u v : list A) z, a ++ z :: r = u ++ v -> ~ In z u -> length u <= length a.
  Proof.
    induction a as [|x a IH]; intros r u v z H Hu.
    - destruct u as [|y u]; [cbn; lia|]. cbn [app] in H. injection H as H _. subst. exfalso. apply Hu. left. reflexivity.
    - destruct u as [|y u]; [cbn; lia|]. cbn [app] in H. injection H as _ H. cbn [length]. apply le_n_S.
      apply (IH r u v z H). intros Hi. apply Hu. right. exact Hi.
  Qed.

  Lemma prefixb_marked_false : forall p1 p2 z (l : list A), ~ In z l -> prefixb eqb (p1 ++ z :: p2) l = false.
  Proof.
    intros p1 p2 z l H. destruct (prefixb eqb (p1 ++ z :: p2) l) eqn:E; [|reflexivity].
    apply (TextFacts.prefixb_spec eqb eqb_spec) in E. destruct E as [r ->]. exfalso. apply H.
    rewrite !in_app_iff. left. right. left. reflexivity.
  Qed.

  Lemma find_marked_none : forall p1 p2 z (l : list A), ~ In z l -> find eqb (p1 ++ z :: p2) l = None.
  Proof.
    intros p1 p2 z l. induction l as [|x l IH]; intros H.
    - unfold find. cbn [find_at]. rewrite prefixb_marked_false by exact H. reflexivity.
    - rewrite (find_cons eqb eqb_spec) by (apply prefixb_marked_false; exact H).
      rewrite IH; [reflexivity|]. intros Hi. apply H. right. exact Hi.
  Qed.

  Lemma find_marked_first : forall p1 p2 z (pre post : list A), ~ In z p1 -> ~ In z pre ->
    find eqb (p1 ++ z :: p2) (pre ++ (p1 ++ z :: p2) ++ post) = Some (length pre).
  Proof.
    intros p1 p2 z pre post Hp1. induction pre as [|x pre IH]; intros Hpre.
    - apply find_here. cbn [app]. apply (TextFacts.prefixb_app eqb eqb_spec).
    - cbn [app]. rewrite (find_cons eqb eqb_spec).
      + rewrite IH; [reflexivity|]. intros Hi. apply Hpre. right. exact Hi.
      + destruct (prefixb eqb (p1 ++ z :: p2) (x :: pre ++ (p1 ++ z :: p2) ++ post)) eqn:E; [|reflexivity]. exfalso.
        apply (TextFacts.prefixb_spec eqb eqb_spec) in E. destruct E as [r E].
        assert (E' : p1 ++ z :: (p2 ++ r) = ((x :: pre) ++ p1) ++ (z :: p2 ++ post)).
        { rewrite <- !app_assoc in E. cbn [app] in E. rewrite <- !app_assoc. cbn [app]. symmetry. exact E. }
        apply mark_position in E'.
        * rewrite app_length in E'. cbn [length] in E'. lia.
        * rewrite in_app_iff. tauto.
  Qed.
End FindMarked.

(* ================================================================================================ *)
(* 2. the alignment law restricted to the texts all of whose code points satisfy P                     *)

Definition aligned_on (P : N -> Prop) (bom : bytes) (enc0 : text -> option bytes) : Prop :=
  forall t b nlbu, Forall P t -> enc0 t = Some b -> enc0 (nl_text GenText.le_unix) = Some nlbu ->
    match find N.eqb (nl_text GenText.le_unix) t with
    | Some i => exists b1, enc0 (firstn (i + length (nl_text GenText.le_unix)) t) = Some b1 /\
                           bfind nlbu (bom ++ b) = Some (length (bom ++ b1) - length nlbu) /\
                           length nlbu <= length b1
    | None => bfind nlbu (bom ++ b) = None
    end.

Lemma aligned_on_all : forall P bom enc0, aligned_first_nl bom enc0 -> aligned_on P bom enc0.
Proof. intros P bom enc0 H t b nlbu _. apply H. Qed.

(* code-point codecs: the encoded LF is pat = p1 ++ z :: p2 with z not in p1, and among the code points
   satisfying P only LF has z in its encoding *)
Section AlignedWide.
  Variables (f : N -> option bytes) (bom : bytes) (n : N) (z : byte) (p1 p2 : bytes) (P : N -> Prop).
  Hypothesis Hunix : nl_text GenText.le_unix = [n].
  Hypothesis Hfn : f n = Some (p1 ++ z :: p2).
  Hypothesis Hp1 : ~ In z p1.
  Hypothesis Honly : forall c x, P c -> f c = Some x -> In z x -> c = n.
  Hypothesis Hbom : ~ In z bom.

  Lemma wide_aux : forall t pre b, Forall P t -> ~ In z pre -> enc_all f t = Some b ->
    match find N.eqb [n] t with
    | Some i => exists b1, enc_all f (firstn (i + 1) t) = Some b1 /\
                           bfind (p1 ++ z :: p2) (pre ++ b) = Some (length (pre ++ b1) - length (p1 ++ z :: p2)) /\
                           length (p1 ++ z :: p2) <= length b1
    | None => bfind (p1 ++ z :: p2) (pre ++ b) = None
    end.
  Proof.
    induction t as [|c r IH]; intros pre b HP Hpre Hb; cbn [enc_all] in Hb.
    - injection Hb as <-. rewrite app_nil_r. change (find N.eqb [n] []) with (@None nat).
      apply (find_marked_none byte_eqb byte_eqb_spec). exact Hpre.
    - inversion HP as [|? ? HPc HPr]; subst.
      destruct (f c) as [x|] eqn:Ec; [|discriminate]. destruct (enc_all f r) as [b'|] eqn:Er; [|discriminate].
      injection Hb as <-. destruct (N.eqb n c) eqn:E.
      + apply N.eqb_eq in E. subst c. rewrite find_here by (rewrite prefixb_one; apply N.eqb_refl).
        rewrite Hfn in Ec. injection Ec as <-.
        exists (p1 ++ z :: p2). cbn [Nat.add firstn enc_all]. rewrite Hfn, app_nil_r. split; [reflexivity|]. split; [|lia].
        unfold bfind. rewrite (find_marked_first byte_eqb byte_eqb_spec p1 p2 z pre b' Hp1 Hpre).
        rewrite app_length. f_equal. lia.
      + rewrite (find_cons N.eqb N_eqb_spec) by (rewrite prefixb_one; exact E).
        assert (Hx : ~ In z x).
        { intros Hi. apply (Honly c x HPc Ec) in Hi. subst c. rewrite N.eqb_refl in E. discriminate. }
        assert (Hpre' : ~ In z (pre ++ x)) by (rewrite in_app_iff; tauto).
        specialize (IH (pre ++ x) b' HPr Hpre' eq_refl). rewrite <- app_assoc in IH.
        destruct (find N.eqb [n] r) as [i|]; cbn [option_map].
        * destruct IH as [b1 [I1 [I2 I3]]]. exists (x ++ b1). cbn [Nat.add firstn enc_all]. rewrite Ec, I1.
          split; [reflexivity|]. split; [|rewrite (app_length x b1); lia].
          rewrite I2. rewrite <- app_assoc. reflexivity.
        * exact IH.
  Qed.

  Lemma aligned_on_of_cp : aligned_on P bom (enc_all f).
  Proof.
    intros t b nlbu HP Hb Hnu. rewrite Hunix in *. rewrite enc_all_one, Hfn in Hnu. injection Hnu as <-.
    pose proof (wide_aux t bom b HP Hbom Hb) as H. change (length [n]) with 1.
    destruct (find N.eqb [n] t) as [i|]; [|exact H].
    destruct H as [b1 [H1 [H2 H3]]]. exists b1. auto.
  Qed.
End AlignedWide.

(* ------------------------------------------------------------------------------------------------ *)
(* the UTF-16/32 family on code points < 256 *)

Local Open Scope N_scope.

Definition cp256 (c : N) : Prop := c < 256.

Lemma n_byte_lf : forall v, v < 256 -> n_byte v = x0a -> v = 10.
Proof. intros v Hv E. apply n_byte_eq in E; [exact E | exact Hv]. Qed.

Lemma u16_only : forall le c x, cp256 c -> u16_enc_cp le c = Some x -> In x0a x -> c = 10.
Proof.
  unfold cp256. intros le c x Hc H Hi. unfold u16_enc_cp in H.
  destruct (c <? 0x10000) eqn:E1; [|lia].
  destruct (is_surrogate c); [discriminate|]. apply some_inj in H; subst x.
  unfold pair16 in Hi. destruct le; cbn [In] in Hi; destruct Hi as [Hi|[Hi|[]]]; apply n_byte_lf in Hi; lia.
Qed.

Lemma u32_only : forall le c x, cp256 c -> u32_enc_cp le c = Some x -> In x0a x -> c = 10.
Proof.
  unfold cp256. intros le c x Hc H Hi. unfold u32_enc_cp in H.
  destruct (valid_cp c); [|discriminate]. apply some_inj in H; subst x.
  unfold quad32 in Hi. destruct le; cbn [In] in Hi; destruct Hi as [Hi|[Hi|[Hi|[Hi|[]]]]]; apply n_byte_lf in Hi; lia.
Qed.

Lemma unix_is_lf : nl_text GenText.le_unix = [10].
Proof. vm_compute. reflexivity. Qed.

Lemma aligned_u16 : forall le bom, ~ In x0a bom -> aligned_on cp256 bom (enc_all (u16_enc_cp le)).
Proof.
  intros le bom Hb. destruct le.
  - apply (aligned_on_of_cp (u16_enc_cp true) bom 10 x0a [] [x00] cp256);
      [exact unix_is_lf | reflexivity | intros [] | apply u16_only | exact Hb].
  - apply (aligned_on_of_cp (u16_enc_cp false) bom 10 x0a [x00] [] cp256);
      [exact unix_is_lf | reflexivity | cbv; intuition discriminate | apply u16_only | exact Hb].
Qed.

Lemma aligned_u32 : forall le bom, ~ In x0a bom -> aligned_on cp256 bom (enc_all (u32_enc_cp le)).
Proof.
  intros le bom Hb. destruct le.
  - apply (aligned_on_of_cp (u32_enc_cp true) bom 10 x0a [] [x00; x00; x00] cp256);
      [exact unix_is_lf | reflexivity | intros [] | apply u32_only | exact Hb].
  - apply (aligned_on_of_cp (u32_enc_cp false) bom 10 x0a [x00; x00; x00] [] cp256);
      [exact unix_is_lf | reflexivity | cbv; intuition discriminate | apply u32_only | exact Hb].
Qed.

Local Close Scope N_scope.

(* [codec_ok] with the alignment law on code points < 256 *)
Definition codec_ok_cp256 (enc : bytes) : Prop :=
  exists c bom enc0, codec_laws enc c bom enc0 /\ aligned_on cp256 bom enc0.

Lemma codec_ok_cp256_of_aligned : forall enc, codec_ok_aligned enc -> codec_ok_cp256 enc.
Proof. intros enc (c & bom & enc0 & laws & Hal). exists c, bom, enc0. split; [exact laws | apply aligned_on_all; exact Hal]. Qed.

Theorem codec_cp256_utf16le : forall enc c, lookup_codec enc = LOk (B "utf-16-le") c -> codec_ok_cp256 enc.
Proof.
  intros enc c H. pose proof H as H0. canon_is' "utf-16-le" utf16le H0.
  exists utf16le, [], (enc_all (u16_enc_cp true)). split.
  - apply (codec_laws_of_cp enc (B "utf-16-le") utf16le [] (u16_enc_cp true) (u16_dec true));
      [exact H | intros t; rewrite option_map_app_nil; reflexivity | reflexivity | reflexivity
      | exact (u16_step true) | exact (u16_nl_ok true) | vm_compute; reflexivity].
  - apply aligned_u16. intros [].
Qed.

Theorem codec_cp256_utf16be : forall enc c, lookup_codec enc = LOk (B "utf-16-be") c -> codec_ok_cp256 enc.
Proof.
  intros enc c H. pose proof H as H0. canon_is' "utf-16-be" utf16be H0.
  exists utf16be, [], (enc_all (u16_enc_cp false)). split.
  - apply (codec_laws_of_cp enc (B "utf-16-be") utf16be [] (u16_enc_cp false) (u16_dec false));
      [exact H | intros t; rewrite option_map_app_nil; reflexivity | reflexivity | reflexivity
      | exact (u16_step false) | exact (u16_nl_ok false) | vm_compute; reflexivity].
  - apply aligned_u16. intros [].
Qed.

Theorem codec_cp256_utf16 : forall enc c, lookup_codec enc = LOk (B "utf-16") c -> codec_ok_cp256 enc.
Proof.
  intros enc c H. pose proof H as H0. canon_is' "utf-16" utf16 H0.
  exists utf16, bom16le, (enc_all (u16_enc_cp true)). split.
  - apply (codec_laws_of_cp enc (B "utf-16") utf16 bom16le (u16_enc_cp true) (u16_dec true));
      [exact H | reflexivity | reflexivity | reflexivity
      | exact (u16_step true) | exact (u16_nl_ok true) | vm_compute; reflexivity].
  - apply aligned_u16. cbv. intuition discriminate.
Qed.

Theorem codec_cp256_utf32le : forall enc c, lookup_codec enc = LOk (B "utf-32-le") c -> codec_ok_cp256 enc.
Proof.
  intros enc c H. pose proof H as H0. canon_is' "utf-32-le" utf32le H0.
  exists utf32le, [], (enc_all (u32_enc_cp true)). split.
  - apply (codec_laws_of_cp enc (B "utf-32-le") utf32le [] (u32_enc_cp true) (u32_dec true));
      [exact H | intros t; rewrite option_map_app_nil; reflexivity | reflexivity | reflexivity
      | exact (u32_step true) | exact (u32_nl_ok true) | vm_compute; reflexivity].
  - apply aligned_u32. intros [].
Qed.

Theorem codec_cp256_utf32be : forall enc c, lookup_codec enc = LOk (B "utf-32-be") c -> codec_ok_cp256 enc.
Proof.
  intros enc c H. pose proof H as H0. canon_is' "utf-32-be" utf32be H0.
  exists utf32be, [], (enc_all (u32_enc_cp false)). split.
  - apply (codec_laws_of_cp enc (B "utf-32-be") utf32be [] (u32_enc_cp false) (u32_dec false));
      [exact H | intros t; rewrite option_map_app_nil; reflexivity | reflexivity | reflexivity
      | exact (u32_step false) | exact (u32_nl_ok false) | vm_compute; reflexivity].
  - apply aligned_u32. intros [].
Qed.

Theorem codec_cp256_utf32 : forall enc c, lookup_codec enc = LOk (B "utf-32") c -> codec_ok_cp256 enc.
Proof.
  intros enc c H. pose proof H as H0. canon_is' "utf-32" utf32 H0.
  exists utf32, bom32le, (enc_all (u32_enc_cp true)). split.
  - apply (codec_laws_of_cp enc (B "utf-32") utf32 bom32le (u32_enc_cp true) (u32_dec true));
      [exact H | reflexivity | reflexivity | reflexivity
      | exact (u32_step true) | exact (u32_nl_ok true) | vm_compute; reflexivity].
  - apply aligned_u32. cbv. intuition discriminate.
Qed.

(* every spelling of the catalogue that resolves to one of the ten executable codecs *)
Theorem codec_ok_cp256_modelled : forall enc canon c, lookup_codec enc = LOk canon c -> codec_ok_cp256 enc.
Proof.
  intros enc canon c H. pose proof (lookup_modelled enc canon c H) as Hm.
  unfold modelled in Hm. cbn [assoc_get] in Hm.
  repeat match type of Hm with
         | (if beq canon ?k then _ else _) = _ =>
             let E := fresh "E" in destruct (beq canon k) eqn:E; [apply beq_eq in E; subst canon; clear Hm | clear E]
         end; [.. | discriminate].
  - apply codec_ok_cp256_of_aligned. exact (codec_ok_aligned_ascii enc c H).
  - apply codec_ok_cp256_of_aligned. exact (codec_ok_aligned_latin1 enc c H).
  - apply codec_ok_cp256_of_aligned. exact (codec_ok_aligned_utf8 enc c H).
  - apply codec_ok_cp256_of_aligned. exact (codec_ok_aligned_utf8sig enc c H).
  - exact (codec_cp256_utf16 enc c H).
  - exact (codec_cp256_utf16le enc c H).
  - exact (codec_cp256_utf16be enc c H).
  - exact (codec_cp256_utf32 enc c H).
  - exact (codec_cp256_utf32le enc c H).
  - exact (codec_cp256_utf32be enc c H).
Qed.

(* ================================================================================================ *)
(* 3. the guess on the encoded bytes is the guess on the text (RoundTripGuess.guess_bytes_text, with the
      alignment law needed only for the text at hand)                                                  *)

Theorem guess_bytes_text_on : forall P enc c bom enc0, codec_laws enc c bom enc0 -> aligned_on P bom enc0 ->
  forall t b le nl nlb, Forall P t -> enc0 t = Some b -> guess_line_endings_text t = (le, nl) -> enc0 nl = Some nlb ->
    guess_line_endings_bytes (bom ++ b) (Some enc) = Ok (le, nlb).
Proof.
  intros P enc c bom enc0 laws Hal t b le nl nlb HP Hb Hg Hnl.
  destruct le_named as [Hu Hd].
  destruct (newline_bytes enc c bom enc0 laws _ Hu) as [nu [U1 [_ [_ [U4 [U5 _]]]]]].
  destruct (newline_bytes enc c bom enc0 laws _ Hd) as [nd [D1 [_ [_ [D4 [D5 _]]]]]].
  unfold guess_line_endings_bytes. cbn [enc_or_ascii]. rewrite U4, D4. cbn [bind]. rewrite U5, D5.
  specialize (Hal t b nu HP Hb U1). unfold guess_line_endings_text in Hg.
  destruct (find N.eqb (nl_text GenText.le_unix) t) as [i|].
  - destruct Hal as [b1 [E1 [E2 E3]]]. rewrite E2.
    destruct (firstn_prefix_enc enc c bom enc0 laws t b _ b1 Hb E1) as [b2 ->].
    replace (length (bom ++ b1) - length nu + length nu) with (length (bom ++ b1)) by (rewrite app_length; lia).
    rewrite app_assoc, firstn_app, Nat.sub_diag, firstn_all. cbn [firstn]. rewrite app_nil_r.
    set (t1 := firstn (i + length (nl_text GenText.le_unix)) t) in *.
    destruct (le_values_facts _ Hd) as [_ [_ [Ad _]]].
    assert (Ht1 : t1 <> []).
    { intros Hn. rewrite Hn in E1. destruct (cl_nl _ _ _ _ laws _ _ (assoc_get_In _ _ _ Ad)) as [x [X1 [X2 _]]].
      destruct (le_values_facts _ Hu) as [_ [_ [Au _]]].
      destruct (cl_nl _ _ _ _ laws _ _ (assoc_get_In _ _ _ Au)) as [y [Y1 [Y2 _]]].
      rewrite U1 in Y1. injection Y1 as <-.
      pose proof (cl_hom _ _ _ _ laws [] []) as H0. cbn [app] in H0. rewrite E1 in H0. cbn in H0.
      injection H0 as H0. assert (length b1 = length (b1 ++ b1)) by congruence. rewrite app_length in H.
      destruct nu; [congruence|]. cbn in E3. lia. }
    rewrite (bends_final enc c bom enc0 laws _ _ nd t1 b1 (assoc_get_In _ _ _ Ad) D1 Ht1 E1).
    destruct (suffixb N.eqb (nl_text GenText.le_dos) t1); injection Hg as <- <-; congruence.
  - rewrite Hal. injection Hg as <- <-. congruence.
Qed.

Lemma byte_n_lt : forall b, (byte_n b < 256)%N.
Proof. intros b. unfold byte_n. pose proof (Byte.to_N_bounded b). lia. Qed.

Lemma ascii_text_cp256 : forall d, Forall cp256 (ascii_text d).
Proof. intros d. unfold ascii_text. apply Forall_forall. intros c Hc. apply in_map_iff in Hc. destruct Hc as (b & <- & _). apply byte_n_lt. Qed.

(* every modelled codec (any catalogue spelling), every text of code points < 256 (in particular every text made of
   a byte string, as the JSON metadata is): the reader's guess on the encoded bytes is the guess on the text, with
   the newline bytes get_newline_for_type gives for that kind *)
Theorem guess_cp256 : forall eb canon cd, lookup_codec eb = LOk canon cd ->
  forall t body le nl nlb, Forall cp256 t -> py_encode t eb = Ok body ->
    guess_line_endings_text t = (le, nl) -> get_newline_for_type le (Some eb) = Ok nlb ->
    guess_line_endings_bytes body (Some eb) = Ok (le, nlb).
Proof.
  intros eb canon cd Hlk t body le nl nlb HP Hpy Hg Hnl.
  destruct (codec_ok_cp256_modelled eb canon cd Hlk) as (c & bom & enc0 & laws & Hal).
  destruct (encodable_of_py_encode eb c bom enc0 laws t body Hpy) as (b & Hb & ->).
  destruct (guess_text_in t) as [Hin Hsnd]. rewrite Hg in Hin, Hsnd. cbn [fst snd] in Hin, Hsnd. subst nl.
  destruct (newline_bytes eb c bom enc0 laws le Hin) as (nlb' & N1 & _ & N3 & _).
  rewrite Hnl in N3. injection N3 as <-.
  exact (guess_bytes_text_on cp256 eb c bom enc0 laws Hal t b le (nl_text le) nlb HP Hb Hg N1).
Qed.

(* ================================================================================================ *)
(* 4. write_meta: the guess of the reader on the prepared metadata body is the newline the writer used  *)

(* RoundTripStep.text_prepared without the reader: what an accepted text section was prepared with *)
Lemma text_prepared_stk : forall s t ind le enc body le_out,
  stk_ok s -> enc_ok enc ->
  prepare_content s (CText t) ind le enc true = Ok (body, le_out) ->
  exists eb canon cd,
    lookup_codec eb = LOk canon cd /\
    Encodings.w_content_encoding enc true (hd WNone (w_stack s)) = WStr (ascii_text eb) /\
    t <> [] /\ (exists x, py_encode t eb = Ok x) /\
    prepare_content s (CText t) ind le (WStr (ascii_text eb)) true = Ok (body, le_out).
Proof.
  intros s t ind le enc body le_out [Hne Hst] Henc Hprep.
  pose proof (WriterFacts.cur_encoding_hd s Hne) as Hcur.
  set (tw := hd WNone (w_stack s)) in *.
  assert (Htw : enc_ok tw).
  { unfold tw. destruct (w_stack s) as [|x l]; [congruence|]. inversion Hst; assumption. }
  set (eff := Encodings.w_content_encoding enc true tw).
  rewrite (Encodings.prepare_content_encoding s s (CText t) ind le enc true tw Hcur) in Hprep. fold eff in Hprep.
  destruct (WriterCanonFacts.prepare_content_unfold _ _ _ _ _ _ _ _ Hprep) as (e1 & nl0 & nb & cb & H1 & _ & _ & H4 & Hnil & _).
  unfold WriterCanonFacts.eff_enc in H1. rewrite andb_false_r in H1. injection H1 as <-.
  cbn [WriterCanonFacts.encode_content] in H4. apply WriterCanonFacts.encode_dyn_ok in H4. destruct H4 as (e & eb & Eeff & Hce & Hpy).
  assert (Heffok : enc_ok eff).
  { unfold eff, Encodings.w_content_encoding. destruct (negb (wv_truthy enc) && true); assumption. }
  destruct Heffok as [E|(eb' & canon & cd & E & Hlk)]; [rewrite E in Eeff; discriminate Eeff|].
  rewrite E in Eeff. injection Eeff as <-.
  destruct (spelling_facts _ _ _ Hlk) as (_ & Hce' & _ & _). rewrite Hce' in Hce. injection Hce as <-.
  exists eb', canon, cd.
  split; [exact Hlk|]. split; [exact E|].
  split; [destruct t; [discriminate Hnil|discriminate]|]. split; [eauto|].
  rewrite (Encodings.prepare_content_encoding s s (CText t) ind le (WStr (ascii_text eb')) true tw Hcur).
  replace (Encodings.w_content_encoding (WStr (ascii_text eb')) true tw) with eff; [exact Hprep|].
  rewrite E. unfold Encodings.w_content_encoding.
  assert (Ht : wv_truthy (WStr (ascii_text eb')) = true).
  { rewrite enc_ok_truthy; [reflexivity|]. right. eauto. }
  rewrite Ht. reflexivity.
Qed.

(* the statement about the prepared body itself: whatever modelled codec is in force (declared by the call or
   inherited), the reader's guess on the body of an accepted write_meta is (unix, the unix newline bytes) *)
Theorem meta_body_guess : forall s s' kv enc fmt,
  stk_ok s -> enc_ok enc -> do_call (WriteMeta (WDict (JObj kv)) enc fmt) s = (s', Ok tt) ->
  forall eb, Encodings.w_content_encoding enc true (hd WNone (w_stack s)) = WStr (ascii_text eb) ->
  exists nlb, get_newline_for_type GenText.le_unix (Some eb) = Ok nlb /\
              guess_line_endings_bytes (fst (call_prepared s (WriteMeta (WDict (JObj kv)) enc fmt))) (Some eb)
                = Ok (GenText.le_unix, nlb).
Proof.
  intros s s' kv enc fmt Hs Henc Hcall eb Heff.
  set (c := WriteMeta (WDict (JObj kv)) enc fmt) in *.
  assert (Hefok : enc_ok (WStr (ascii_text eb))).
  { rewrite <- Heff. unfold Encodings.w_content_encoding. destruct (negb (wv_truthy enc) && true); [|exact Henc].
    destruct Hs as [Hne Hst]. destruct (w_stack s) as [|x l]; [congruence|]. inversion Hst; assumption. }
  assert (Hmenc : meta_enc_b s c = true).
  { unfold c. cbn [meta_enc_b]. rewrite Heff. rewrite (enc_ok_truthy _ Hefok). reflexivity. }
  destruct (meta_call_inv _ _ _ _ _ (proj1 Hs) Hmenc Hcall) as (j & d & Ej & Htruthy & _ & Hdump & Hncs).
  injection Ej as <-.
  assert (Hkv : kv <> []) by (intros ->; discriminate Htruthy).
  assert (Hmc : meta_content s enc d = CText (ascii_text d)).
  { unfold meta_content. unfold c in Hmenc. cbn [meta_enc_b] in Hmenc. rewrite Hmenc. reflexivity. }
  set (t := ascii_text d) in *.
  destruct (WriterCanonFacts.C02_length_exact _ _ _ _ _ _ _ _ _ _ Hncs) as (body & le_out & h & Hprep & _).
  destruct (text_prepared_stk _ _ _ _ _ _ _ Hs Henc Hprep)
    as (eb' & canon & cd & Hlk & Heff' & Htne & (x & Hpy) & Hprep1).
  rewrite Heff in Heff'. injection Heff' as Heb. apply WriterCanonFacts.ascii_text_inj in Heb. subst eb'.
  destruct (json_obj_text kv d Hkv Hdump) as [(r0 & Hr0) _]. fold t in Hr0.
  assert (Hlf : find N.eqb (nl_text GenText.le_unix) t <> None) by (rewrite Hr0; apply find_lf_json).
  destruct (meta_rt eb canon cd Hlk s t x Htne Hpy Hlf)
    as (body2 & le' & nl & nlb & lines & Hgt & Hnl & Hy & _ & Hprep2 & _).
  rewrite Hprep1 in Hprep2. apply Ok_pair_inj in Hprep2. destruct Hprep2 as [<- _].
  assert (Hgt' : guess_line_endings_text t = (GenText.le_unix, nl_text GenText.le_unix))
    by (rewrite Hr0; apply WriterCanonFacts.guess_json_text).
  rewrite Hgt' in Hgt. injection Hgt as <- <-.
  exists nlb. split; [exact Hnl|].
  unfold c. cbn [call_prepared]. rewrite Hdump, Hmc, Hprep. cbn [fst].
  apply (guess_cp256 eb canon cd Hlk (final_text (nl_text GenText.le_unix) t) body GenText.le_unix (nl_text GenText.le_unix) nlb).
  - unfold final_text. destruct (suffixb N.eqb _ t); [apply ascii_text_cp256|].
    apply Forall_app. split; [apply ascii_text_cp256|]. rewrite unix_is_lf. constructor; [reflexivity|constructor].
  - exact Hy.
  - rewrite guess_text_final by exact Hlf. exact Hgt'.
  - exact Hnl.
Qed.

(* [stk_ok s]: the writer's encoding stack is non-empty and holds None or catalogue spellings of modelled codecs
   (DomCompose.stk_ok; true of every state reached from the constructor by calls whose encoding arguments are such,
   [stk_ok_init] / [stk_ok_step]) *)
Theorem meta_guess_always : forall s s' c,
  stk_ok s -> call_good c -> do_call c s = (s', Ok tt) -> meta_guess_b s c = true.
Proof.
  intros s s' c Hs Hg Hcall.
  destruct c as [e|e|text enc ind le mt|md enc fmt|content dt enc le]; try reflexivity.
  destruct Hg as (Henc & kv & ->). unfold meta_guess_b.
  assert (Hefok : enc_ok (Encodings.w_content_encoding enc true (hd WNone (w_stack s)))).
  { unfold Encodings.w_content_encoding. destruct (negb (wv_truthy enc) && true); [|exact Henc].
    destruct Hs as [Hne Hst]. destruct (w_stack s) as [|x l]; [congruence|]. inversion Hst; assumption. }
  destruct Hefok as [E|(eb & canon & cd & E & Hlk)]; rewrite E; [reflexivity|].
  cbn [enc_bytes]. rewrite WriterCanonFacts.map_n_byte_ascii_text.
  destruct (meta_body_guess s s' kv enc fmt Hs Henc Hcall eb E) as (nlb & Hnl & Hgb).
  rewrite Hnl, Hgb. apply orb_true_iff. right. apply beq_eq. reflexivity.
Qed.

Theorem guesses_ok_always : forall cs s, stk_ok s -> Forall call_good cs -> accepted s cs -> guesses_ok s cs.
Proof.
  induction cs as [|c t IH]; intros s Hs Hg Ha; [exact I|].
  inversion Hg as [|? ? Hgc Hgt]; subst. destruct (accepted_cons _ _ _ Ha) as (s' & Hc & Ha').
  cbn [guesses_ok]. split; [eapply meta_guess_always; eauto|].
  pose proof (stk_ok_step c s Hs (call_good_enc c Hgc)) as Hs'. rewrite Hc in *. cbn [fst] in *.
  apply IH; assumption.
Qed.

(* ... from the constructor *)
Theorem guesses_ok_init : forall enc0 ver s0 cs,
  writer_init enc0 ver = (s0, Ok tt) -> enc_ok enc0 -> Forall call_good cs -> accepted s0 cs -> guesses_ok s0 cs.
Proof. intros enc0 ver s0 cs Hi He Hg Ha. apply guesses_ok_always; [eapply stk_ok_init; eauto | exact Hg | exact Ha]. Qed.

(* the trees the object model serialises *)
Theorem tree_guesses_always : forall t b,
  tree_encs_ok t = true -> tree_indents_ok t = true -> dom_write t = Ok b -> tree_guesses_ok t.
Proof.
  intros t b He Hi Hw s0 cs Hinit Hc.
  destruct (dom_write_accepted t b Hw) as (s0' & cs' & Hinit' & Hc' & Ha & _).
  rewrite Hc in Hc'. injection Hc' as <-. rewrite Hinit in Hinit'. injection Hinit' as <-.
  apply (guesses_ok_init (tree_encoding t) (tree_version t) s0 cs Hinit (tree_enc_ok t He)); [|exact Ha].
  eapply tree_calls_good; eauto.
Qed.

(* ================================================================================================ *)
(* 5. the flagship theorems without the guess premise                                                  *)

Theorem C01_round_trip_noguess : forall enc0 ver s0 cs orc chunk,
  writer_init enc0 ver = (s0, Ok tt) -> enc_ok enc0 ->
  Forall call_good cs -> accepted s0 cs -> metas_oracle_ok orc s0 cs -> oracle_ok orc cs ->
  0 < chunk -> (Z.of_nat (length (w_out (snd (run_calls s0 cs)))) <= sys_maxsize)%Z ->
  read_all orc chunk (w_out (snd (run_calls s0 cs))) = (main_record enc0 ver :: expected_records s0 1 cs, TEnd).
Proof.
  intros enc0 ver s0 cs orc chunk Hinit He Hg Hacc Hme Horc Hchunk Hsize.
  apply C01_round_trip; try assumption. eapply guesses_ok_init; eauto.
Qed.

(* a writer constructed with an encoding (pydiffx's default is 'utf-8'): neither the guess nor the bytes-oracle premise *)
Theorem C01_round_trip_encoded_noguess : forall enc0 ver s0 cs orc chunk,
  writer_init enc0 ver = (s0, Ok tt) -> enc_ok enc0 -> wv_truthy enc0 = true ->
  Forall call_good cs -> accepted s0 cs -> oracle_ok orc cs ->
  0 < chunk -> (Z.of_nat (length (w_out (snd (run_calls s0 cs)))) <= sys_maxsize)%Z ->
  read_all orc chunk (w_out (snd (run_calls s0 cs))) = (main_record enc0 ver :: expected_records s0 1 cs, TEnd).
Proof.
  intros enc0 ver s0 cs orc chunk Hinit He Ht Hg Hacc Horc Hchunk Hsize.
  apply C01_round_trip_encoded; try assumption. eapply guesses_ok_init; eauto.
Qed.

Theorem C05_full_noguess : forall orc t b,
  typed_tree t = true -> tree_encs_ok t = true -> tree_indents_ok t = true ->
  dom_write t = Ok b ->
  tree_oracle_ok orc t -> tree_metas_oracle_ok orc t ->
  (Z.of_nat (length b) <= sys_maxsize)%Z ->
  dom_read orc b = Ok (normalise t).
Proof.
  intros orc t b Ht He Hi Hw Ho Hme Hsz.
  apply C05_full; try assumption. eapply tree_guesses_always; eauto.
Qed.

Theorem C06_full_noguess : forall orc t b,
  typed_tree t = true -> tree_encs_ok t = true -> tree_indents_ok t = true ->
  dom_write t = Ok b ->
  tree_oracle_ok orc t -> tree_metas_oracle_ok orc t ->
  (Z.of_nat (length b) <= sys_maxsize)%Z ->
  exists t', dom_read orc b = Ok t' /\ t' = normalise t /\
             dom_write t' = Ok b /\ normalise t' = t' /\
             (forall b', dom_write t' = Ok b' -> dom_read orc b' = Ok t').
Proof.
  intros orc t b Ht He Hi Hw Ho Hme Hsz.
  apply C06_full; try assumption. eapply tree_guesses_always; eauto.
Qed.

Theorem C06_canonical_noguess : forall enc0 ver s0 cs orc,
  writer_init enc0 ver = (s0, Ok tt) -> enc_ok enc0 ->
  Forall call_good cs -> Forall indent_explicit cs -> accepted s0 cs ->
  metas_oracle_ok orc s0 cs -> oracle_ok orc cs ->
  (Z.of_nat (length (w_out (snd (run_calls s0 cs)))) <= sys_maxsize)%Z ->
  exists t', dom_read orc (w_out (snd (run_calls s0 cs))) = Ok t' /\
             dom_write t' = Ok (w_out (snd (run_calls s0 cs))) /\ normalise t' = t' /\
             (forall b', dom_write t' = Ok b' -> dom_read orc b' = Ok t') /\
             exists t0, tree_calls t0 = Ok cs /\ t' = normalise t0.
Proof.
  intros enc0 ver s0 cs orc Hinit He Hg Hi Ha Hme Ho Hsz.
  apply (C06_canonical enc0 ver s0 cs orc Hinit He Hg Hi Ha); try assumption. eapply guesses_ok_init; eauto.
Qed.

(* ================================================================================================ *)
(* 6. what json.dumps writes: LF and printable ASCII only - no CR, no NUL, nothing >= 0x7f              *)
(*    (not needed for sections 4-5, where "code points < 256" and the leading "{" LF suffice; it gives  *)
(*    the guess for EVERY JSON value, not only non-empty objects)                                       *)

Module WC := WriterCanonFacts.

Definition printableb (b : byte) : bool := in_range 32 126 b.
Definition ok_json_byteb (b : byte) : bool := byte_eqb b x0a || printableb b.
Definition printable (b : byte) : Prop := printableb b = true.
Definition ok_json_byte (b : byte) : Prop := ok_json_byteb b = true.

Lemma ok_json_byte_spec : forall b, ok_json_byte b <-> b = x0a \/ (32 <= byte_n b <= 126)%N.
Proof.
  intros b. unfold ok_json_byte, ok_json_byteb, printableb, in_range. rewrite orb_true_iff, andb_true_iff, !N.leb_le.
  rewrite byte_eqb_spec. tauto.
Qed.

Lemma printable_ok : forall b, printable b -> ok_json_byte b.
Proof. intros b H. unfold ok_json_byte, ok_json_byteb. rewrite H. apply orb_true_r. Qed.

(* float reprs are opaque to the model: in CPython they consist of [0-9a-zA-Z.+-]; this is the only premise *)
Inductive floats_printable : json -> Prop :=
| FP_null : floats_printable JNull
| FP_bool b : floats_printable (JBool b)
| FP_int z : floats_printable (JInt z)
| FP_float r : Forall printable r -> floats_printable (JFloat r)
| FP_str s : floats_printable (JStr s)
| FP_list l : Forall floats_printable l -> floats_printable (JList l)
| FP_obj kv : Forall (fun p => floats_printable (snd p)) kv -> floats_printable (JObj kv)
| FP_bad : floats_printable JBad.

Lemma ok_B : forall s, forallb ok_json_byteb (B s) = true -> Forall ok_json_byte (B s).
Proof. intros s H. rewrite forallb_forall in H. apply Forall_forall. exact H. Qed.

Lemma n_byte_printable : forall c, (32 <= c <= 126)%N -> printable (n_byte c).
Proof. intros c H. unfold printable, printableb, in_range. rewrite byte_n_n_byte by lia. lia. Qed.

Lemma hex_digit_ok : forall n, (n < 16)%N -> ok_json_byte (hex_digit n).
Proof.
  intros n H. apply printable_ok. unfold hex_digit. destruct (N.ltb n 10) eqn:E; apply n_byte_printable; lia.
Qed.

Lemma u_escape_ok : forall c, Forall ok_json_byte (u_escape c).
Proof.
  intros c. unfold u_escape. apply Forall_app. split; [apply ok_B; reflexivity|].
  repeat constructor; apply hex_digit_ok; apply N.mod_lt; discriminate.
Qed.

Lemma esc_cp_ok : forall c, Forall ok_json_byte (esc_cp c).
Proof.
  intros c. unfold esc_cp.
  repeat match goal with |- Forall _ (if ?b then _ else _) => destruct b eqn:? end;
    try (apply ok_B; reflexivity); try apply u_escape_ok.
  - constructor; [|constructor]. apply printable_ok, n_byte_printable. lia.
  - apply Forall_app. split; apply u_escape_ok.
Qed.

Lemma dump_str_ok : forall s, Forall ok_json_byte (dump_str s).
Proof.
  intros s. unfold dump_str. apply Forall_app. split; [apply ok_B; reflexivity|].
  apply Forall_app. split; [|apply ok_B; reflexivity].
  induction s as [|c s IH]; [constructor|]. cbn [flat_map]. apply Forall_app. split; [apply esc_cp_ok|exact IH].
Qed.

Lemma nl_indent_ok : forall lvl, Forall ok_json_byte (nl_indent lvl).
Proof.
  intros. unfold nl_indent. apply Forall_app. split.
  - constructor; [vm_compute; reflexivity|constructor].
  - apply WC.repeat_b_Forall. vm_compute. reflexivity.
Qed.

Lemma Z_to_dec_ok : forall z, Forall ok_json_byte (Z_to_dec z).
Proof.
  intros z. destruct (WC.Z_to_dec_spec_val z) as [_ H]. eapply Forall_impl; [|exact H]. intros b Hb.
  assert (F : forallb ok_json_byteb (HeaderFacts.alpha_alphabet ++ HeaderFacts.digit_alphabet ++ B "/._-") = true)
    by (vm_compute; reflexivity).
  rewrite forallb_forall in F. apply F. exact Hb.
Qed.

Theorem dump_ok_bytes : forall j lvl d, floats_printable j -> dump lvl j = Ok d -> Forall ok_json_byte d.
Proof.
  induction j as [|b|z|r|s|l IHl|kv IHkv|] using WC.json_ind'; intros lvl d Hf H.
  - inversion H. apply ok_B. reflexivity.
  - destruct b; inversion H; apply ok_B; reflexivity.
  - inversion H. apply Z_to_dec_ok.
  - inversion H; subst. inversion Hf as [| | |? Hr| | | |]; subst. eapply Forall_impl; [|exact Hr]. apply printable_ok.
  - inversion H. apply dump_str_ok.
  - destruct l as [|x l']; [inversion H; apply ok_B; reflexivity|].
    rewrite WC.dump_list in H by discriminate.
    destruct (WC.dump_items lvl (x :: l')) as [body|e] eqn:E; [|discriminate H]. apply WC.Ok_inj in H. subst d.
    assert (Hbody : Forall (Forall ok_json_byte) body).
    { apply WC.dump_items_spec in E. inversion Hf as [| | | | |? Hfl| |]; subst. clear Hf.
      revert IHl Hfl. induction E as [|y b t bt Hy E IH]; intros IHl Hfl; [constructor|].
      inversion IHl; subst. inversion Hfl; subst. constructor; [eauto|apply IH; assumption]. }
    apply WC.Forall_app5; try (apply ok_B; reflexivity); try apply nl_indent_ok.
    apply WC.Forall_join; [|exact Hbody]. apply Forall_app. split; [apply ok_B; reflexivity|apply nl_indent_ok].
  - destruct kv as [|p kv']; [inversion H; apply ok_B; reflexivity|].
    rewrite WC.dump_obj in H by discriminate.
    destruct (WC.dump_members lvl (p :: kv')) as [body|e] eqn:E; [|discriminate H]. apply WC.Ok_inj in H. subst d.
    assert (Hbody : Forall (fun kb => Forall ok_json_byte (snd kb)) body).
    { apply WC.dump_members_spec in E. inversion Hf as [| | | | | |? Hfl|]; subst. clear Hf.
      revert IHkv Hfl. induction E as [|y b t bt [_ Hy] E IH]; intros IHkv Hfl; [constructor|].
      inversion IHkv; subst. inversion Hfl; subst. constructor; [eauto|apply IH; assumption]. }
    apply WC.Forall_app5; try (apply ok_B; reflexivity); try apply nl_indent_ok.
    apply WC.Forall_join; [apply Forall_app; split; [apply ok_B; reflexivity|apply nl_indent_ok]|].
    apply Forall_forall. intros m Hm. apply in_map_iff in Hm. destruct Hm as (kb & <- & Hkb).
    apply (Permutation.Permutation_in _ (Permutation.Permutation_sym (WC.sort_kb_perm body))) in Hkb.
    unfold WC.render_member. apply Forall_app. split; [apply dump_str_ok|].
    apply Forall_app. split; [apply ok_B; reflexivity|]. rewrite Forall_forall in Hbody. apply Hbody. exact Hkb.
  - discriminate H.
Qed.

Theorem json_dump_ok_bytes : forall j d, floats_printable j -> json_dump j = Ok d -> Forall ok_json_byte d.
Proof. intros j d. apply dump_ok_bytes. Qed.

(* ... hence the JSON text has no CR (and no NUL, and is ASCII) *)
Corollary json_text_no_cr : forall j d, floats_printable j -> json_dump j = Ok d ->
  ~ In 13%N (ascii_text d) /\ ~ In 0%N (ascii_text d) /\ Forall (fun c => (c < 128)%N) (ascii_text d).
Proof.
  intros j d Hf Hd. pose proof (json_dump_ok_bytes j d Hf Hd) as H. rewrite Forall_forall in H.
  assert (K : forall c, In c (ascii_text d) -> c = 10%N \/ (32 <= c <= 126)%N).
  { intros c Hc. unfold ascii_text in Hc. apply in_map_iff in Hc. destruct Hc as (b & <- & Hb).
    pose proof (H b Hb) as Hb'. apply ok_json_byte_spec in Hb'. destruct Hb' as [->|Hb']; [left; reflexivity|right; exact Hb']. }
  split; [|split].
  - intros Hi. apply K in Hi. lia.
  - intros Hi. apply K in Hi. lia.
  - apply Forall_forall. intros c Hc. apply K in Hc. lia.
Qed.

(* a text without CR is guessed unix, at the text level ... *)
Lemma guess_text_no_cr : forall t, ~ In 13%N t ->
  guess_line_endings_text t = (GenText.le_unix, nl_text GenText.le_unix).
Proof.
  intros t H. unfold guess_line_endings_text.
  destruct (find N.eqb (nl_text GenText.le_unix) t) as [i|]; [|reflexivity].
  destruct (suffixb N.eqb (nl_text GenText.le_dos) (firstn (i + length (nl_text GenText.le_unix)) t)) eqn:E; [|reflexivity].
  exfalso. apply (suffixb_spec N.eqb N_eqb_spec) in E. destruct E as [q E]. apply H.
  rewrite <- (firstn_skipn (i + length (nl_text GenText.le_unix)) t), E.
  change (nl_text GenText.le_dos) with [13%N; 10%N]. rewrite !in_app_iff. left. right. left. reflexivity.
Qed.

(* ... and, encoded in ANY modelled codec, at the byte level: the dump of every JSON value (object or not), with
   the final LF the writer appends, is guessed (unix, the unix newline bytes) *)
Theorem json_guess_unix : forall j d eb canon cd body nlb,
  floats_printable j -> json_dump j = Ok d -> lookup_codec eb = LOk canon cd ->
  py_encode (final_text (nl_text GenText.le_unix) (ascii_text d)) eb = Ok body ->
  get_newline_for_type GenText.le_unix (Some eb) = Ok nlb ->
  guess_line_endings_bytes body (Some eb) = Ok (GenText.le_unix, nlb).
Proof.
  intros j d eb canon cd body nlb Hf Hd Hlk Hpy Hnl.
  destruct (json_text_no_cr j d Hf Hd) as (Hcr & _ & _).
  assert (HP : Forall cp256 (final_text (nl_text GenText.le_unix) (ascii_text d))).
  { unfold final_text. destruct (suffixb N.eqb _ (ascii_text d)); [apply ascii_text_cp256|].
    apply Forall_app. split; [apply ascii_text_cp256|]. rewrite unix_is_lf. constructor; [reflexivity|constructor]. }
  apply (guess_cp256 eb canon cd Hlk _ body GenText.le_unix (nl_text GenText.le_unix) nlb HP Hpy); [|exact Hnl].
  apply guess_text_no_cr. unfold final_text. destruct (suffixb N.eqb _ (ascii_text d)); [exact Hcr|].
  rewrite in_app_iff, unix_is_lf. intros [Hi|[Hi|[]]]; [exact (Hcr Hi)|discriminate Hi].
Qed.

(* ================================================================================================ *)
(* 7. Examples                                                                                         *)

(* RoundTripSeqExample.ex_cs (metadata in utf-8, utf-16 (own), utf-32-be (inherited), ascii): every hypothesis of
   C01_round_trip_noguess holds; the guess premise is no longer among them *)
Import RoundTripSeqExample.

Example C01_round_trip_noguess_ex :
  writer_init ex_enc0 ex_ver = (ex_s0, Ok tt) /\ enc_ok ex_enc0 /\
  Forall call_good ex_cs /\ accepted ex_s0 ex_cs /\ metas_oracle_ok ex_orc ex_s0 ex_cs /\ oracle_ok ex_orc ex_cs /\
  (Z.of_nat (length (w_out (snd (run_calls ex_s0 ex_cs)))) <= sys_maxsize)%Z /\
  In (WriteMeta (WDict ex_j2) (WStr (T "utf-16")) None) ex_cs /\
  In (NewFile (WStr (T "utf-32-be"))) ex_cs /\
  read_all ex_orc 96 (w_out (snd (run_calls ex_s0 ex_cs)))
    = (main_record ex_enc0 ex_ver :: expected_records ex_s0 1 ex_cs, TEnd).
Proof.
  split; [exact ex_init|]. split; [exact ex_enc0_ok|]. split; [exact ex_good|]. split; [exact ex_accepted|].
  split; [exact ex_metas_oracle|]. split; [exact ex_oracle|]. split; [exact ex_size|].
  split; [unfold ex_cs; cbn [In]; tauto|]. split; [unfold ex_cs; cbn [In]; tauto|].
  apply (C01_round_trip_noguess ex_enc0 ex_ver ex_s0 ex_cs ex_orc 96 ex_init ex_enc0_ok ex_good ex_accepted ex_metas_oracle ex_oracle);
    [lia | exact ex_size].
Qed.

(* a metadata value made to provoke a misaligned match: keys and strings with CR LF, NUL, U+0A0D, U+0D0A, U+0A41 U+4100
   (all of them leave json.dumps as escapes), written in utf-16-be, utf-32 (with BOM) and utf-16 (with BOM) *)
Definition hard_j : json :=
  JObj [([13; 10; 0x0A0D; 0]%N, JStr [0x0A41; 0x4100; 0x0D0A; 13; 10; 0; 0x0A00; 0x000A]%N);
        (T "n", JList [JInt (-2570); JNull; JStr [0x0D00; 0x0A00]%N])].
Definition hard_cs : list call :=
  [ WriteMeta (WDict hard_j) (WStr (T "utf-16-be")) None;
    NewChange (WStr (T "utf-32"));
    WriteMeta (WDict hard_j) WNone None;
    NewFile (WStr (T "utf-16"));
    WriteMeta (WDict hard_j) WNone None ].
Definition hard_orc : oracle := [(oracle_key_text (ascii_text (dumped hard_j) ++ [10%N]), LoadsOk hard_j)].

Example hard_floats : floats_printable hard_j.
Proof. repeat constructor. Qed.

Example C01_round_trip_noguess_hard :
  Forall call_good hard_cs /\ accepted ex_s0 hard_cs /\ metas_oracle_ok hard_orc ex_s0 hard_cs /\
  oracle_ok hard_orc hard_cs /\ guesses_ok ex_s0 hard_cs /\
  map r_payload (fst (read_all hard_orc 96 (w_out (snd (run_calls ex_s0 hard_cs)))))
    = [PNone; PMeta hard_j; PNone; PMeta hard_j; PNone; PMeta hard_j] /\
  read_all hard_orc 96 (w_out (snd (run_calls ex_s0 hard_cs)))
    = (main_record ex_enc0 ex_ver :: expected_records ex_s0 1 hard_cs, TEnd).
Proof.
  assert (Hg : Forall call_good hard_cs).
  { unfold hard_cs. repeat (apply Forall_cons; [good_tac|]). apply Forall_nil. }
  assert (Ha : accepted ex_s0 hard_cs) by (unfold accepted; vm_compute; repeat constructor).
  assert (Hm : metas_oracle_ok hard_orc ex_s0 hard_cs).
  { apply metas_oracle_of_encoded. vm_compute. repeat split. }
  assert (Ho : oracle_ok hard_orc hard_cs).
  { unfold oracle_ok, hard_cs.
    repeat (constructor; [first [exact I | intros d Hd; vm_compute in Hd; injection Hd as <-; vm_compute; reflexivity]|]).
    constructor. }
  assert (Hsz : (Z.of_nat (length (w_out (snd (run_calls ex_s0 hard_cs)))) <= sys_maxsize)%Z) by (vm_compute; discriminate).
  pose proof (C01_round_trip_noguess ex_enc0 ex_ver ex_s0 hard_cs hard_orc 96 ex_init ex_enc0_ok Hg Ha Hm Ho ltac:(lia) Hsz) as Hrt.
  split; [exact Hg|]. split; [exact Ha|]. split; [exact Hm|]. split; [exact Ho|].
  split; [exact (guesses_ok_init _ _ _ _ ex_init ex_enc0_ok Hg Ha)|].
  split; [rewrite Hrt; vm_compute; reflexivity|exact Hrt].
Qed.

(* the guess itself, on one concrete body: {"k": "\r\n\u0a0d"} in utf-16 (BOM, little endian) *)
Definition guess_ex_j : json := JObj [(T "k", JStr [13; 10; 0x0A0D]%N)].
Example json_guess_unix_ex :
  exists d body,
    json_dump guess_ex_j = Ok d /\
    py_encode (final_text (nl_text GenText.le_unix) (ascii_text d)) (B "utf-16") = Ok body /\
    firstn 8 body = [xff; xfe; x7b; x00; x0a; x00; x20; x00] /\
    guess_line_endings_bytes body (Some (B "utf-16")) = Ok (GenText.le_unix, [x0a; x00]).
Proof.
  eexists. eexists. split; [vm_compute; reflexivity|]. split; [vm_compute; reflexivity|]. split; [reflexivity|].
  apply (json_guess_unix guess_ex_j (dumped guess_ex_j) (B "utf-16") (B "utf-16") utf16);
    [repeat constructor | vm_compute; reflexivity | reflexivity | vm_compute; reflexivity | vm_compute; reflexivity].
Qed.

Print Assumptions guess_cp256.
Print Assumptions meta_guess_always.
Print Assumptions guesses_ok_always.
Print Assumptions tree_guesses_always.
Print Assumptions C01_round_trip_noguess.
Print Assumptions C05_full_noguess.
Print Assumptions C06_full_noguess.
Print Assumptions C06_canonical_noguess.
Print Assumptions json_dump_ok_bytes.
Print Assumptions json_guess_unix.
