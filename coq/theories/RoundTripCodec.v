(* RoundTripCodec.v — what the content round trip (property C01) needs from a codec, stated abstractly
   ([codec_laws] / [codec_ok]), and a generic way to establish it for codecs that encode code point by
   code point ([codec_laws_of_cp]).  The instances for the ten executable codecs are in RoundTripCodecInst.v.
   Proof file: nothing of the model is changed here. *)
From Coq Require Import List Arith NArith ZArith Bool Lia ZifyBool Strings.Byte.
From Coq Require Strings.String.
From DX Require Import Bytes Res Codec Text TextFacts.
From DXGen Require GenText GenCodecs.
Import ListNotations.
Import String.StringSyntax.
Local Open Scope string_scope.
Local Open Scope list_scope.

(* ------------------------------------------------------------------------------------------------ *)
(* the laws *)

Definition opt_app (x y : option bytes) : option bytes :=
  match x, y with Some a, Some b => Some (a ++ b) | _, _ => None end.

(* [codec_laws enc c bom enc0]: the spelling [enc] names the codec [c]; [enc0] is its BOM-free encoder and
   [bom] the fixed prefix str.encode emits.
   L1 cl_hom    the encoder is stateless (an equation on options: a ++ b is encodable iff a and b are);
   L2 cl_enc    str.encode = bom ++ enc0;
   L3 cl_dec    bytes.decode inverts str.encode; (the decode of the bare newline is in cl_nl)
   L4/L5 cl_nl  for every newline text of NEWLINE_FORMATS: it is encodable, its BOM-free bytes are non-empty,
                unbordered, contain no 0x20, decode (without BOM) to the newline text, and strip_bom of
                the encoded newline yields them (and leaves them unchanged when applied a second time);
   L8 cl_suffix the writer tests the encoded BYTES for a final newline: that test agrees with the text. *)
Record codec_laws (enc : bytes) (c : codec) (bom : bytes) (enc0 : text -> option bytes) : Prop := {
  cl_lookup : exists canon, lookup_codec enc = LOk canon c;
  cl_hom : forall a b, enc0 (a ++ b) = opt_app (enc0 a) (enc0 b);
  cl_enc : forall t, c_enc c t = option_map (app bom) (enc0 t);
  cl_dec : forall t b, enc0 t = Some b -> c_dec c (bom ++ b) = Some t;
  cl_nl : forall le nl, In (le, nl) GenText.newline_formats ->
            exists nlb, enc0 nl = Some nlb /\ nlb <> [] /\ unbordered nlb /\ ~ In x20 nlb /\
                        c_dec c nlb = Some nl /\
                        strip_bom (bom ++ nlb) (Some enc) = nlb /\ strip_bom nlb (Some enc) = nlb;
  cl_suffix : forall le nl nlb t b, In (le, nl) GenText.newline_formats -> enc0 nl = Some nlb ->
            t <> [] -> enc0 t = Some b -> bends nlb (bom ++ b) = true -> suffixb N.eqb nl t = true
}.

Definition codec_ok (enc : bytes) : Prop := exists c bom enc0, codec_laws enc c bom enc0.

(* ------------------------------------------------------------------------------------------------ *)
(* strip_bom only looks at the canonical name *)

Definition strip_bom_canon (canon data : bytes) : bytes :=
  match assoc_get beq canon GenText.boms with
  | Some ((b0 :: _) as bs) => if existsb (fun b => bstarts b data) bs then skipn (length b0) data else data
  | _ => data
  end.

Lemma lookup_canonical : forall enc canon c, lookup_codec enc = LOk canon c -> canonical_or_same enc = canon.
Proof.
  intros enc canon c H. unfold lookup_codec in H. unfold canonical_or_same.
  destruct (find_row enc GenCodecs.rows) as [r|]; [|discriminate].
  destruct (assoc_get beq (GenCodecs.cr_canonical r) modelled); [|discriminate].
  injection H as H _. exact H.
Qed.

Lemma lookup_modelled : forall enc canon c, lookup_codec enc = LOk canon c -> assoc_get beq canon modelled = Some c.
Proof.
  intros enc canon c H. unfold lookup_codec in H.
  destruct (find_row enc GenCodecs.rows) as [r|]; [|discriminate].
  destruct (assoc_get beq (GenCodecs.cr_canonical r) modelled) eqn:E; [|discriminate].
  injection H as <- <-. exact E.
Qed.

Lemma strip_bom_lookup : forall enc canon c data, lookup_codec enc = LOk canon c ->
  strip_bom data (Some enc) = strip_bom_canon canon data.
Proof.
  intros enc canon c data H. unfold strip_bom, strip_bom_canon. rewrite (lookup_canonical enc canon c H). reflexivity.
Qed.

(* ------------------------------------------------------------------------------------------------ *)
(* small list facts *)

Lemma N_eqb_spec : forall a b : N, N.eqb a b = true <-> a = b.
Proof. intros. apply N.eqb_eq. Qed.

Lemma teq_eq : forall a b : text, teq a b = true <-> a = b.
Proof. apply (list_eqb_eq N.eqb N_eqb_spec). Qed.

Lemma app_suffix_len {A} : forall (a x q y : list A), a ++ x = q ++ y -> length y <= length x ->
  exists x', x = x' ++ y.
Proof.
  intros a x q y H Hl. apply app_eq_app in H. destruct H as [l [[H1 H2] | [H1 H2]]].
  - assert (length y = length (l ++ x)) by (rewrite H2; reflexivity). rewrite app_length in H.
    destruct l; [|cbn in H; lia]. exists []. cbn in H2. cbn. congruence.
  - exists l. exact H2.
Qed.

Lemma bends_iff : forall s l : bytes, bends s l = true <-> exists q, l = q ++ s.
Proof. exact bends_spec. Qed.

(* ------------------------------------------------------------------------------------------------ *)
(* codecs that encode code point by code point *)

Section CpCodec.
  Variable f : N -> option bytes.
  Variable dec0 : bytes -> option text.

  Lemma enc_all_app : forall a b, enc_all f (a ++ b) = opt_app (enc_all f a) (enc_all f b).
  Proof.
    induction a as [|c a IH]; intros b; cbn [app enc_all].
    - destruct (enc_all f b); reflexivity.
    - rewrite IH. destruct (f c); [|reflexivity].
      destruct (enc_all f a); [|reflexivity]. destruct (enc_all f b); [|reflexivity].
      cbn. rewrite app_assoc. reflexivity.
  Qed.

  Lemma enc_all_one : forall c, enc_all f [c] = f c.
  Proof. intros c. cbn. destruct (f c); [rewrite app_nil_r|]; reflexivity. Qed.

  Lemma enc_all_snoc : forall t c, enc_all f (t ++ [c]) = opt_app (enc_all f t) (f c).
  Proof. intros. rewrite enc_all_app, enc_all_one. reflexivity. Qed.

  Hypothesis dec_nil : dec0 [] = Some [].
  Hypothesis dec_step : forall c x r, f c = Some x -> dec0 (x ++ r) = option_map (cons c) (dec0 r).

  Lemma dec_enc_all : forall t b, enc_all f t = Some b -> dec0 b = Some t.
  Proof.
    induction t as [|c t IH]; intros b H; cbn [enc_all] in H.
    - injection H as <-. exact dec_nil.
    - destruct (f c) as [x|] eqn:Ec; [|discriminate]. destruct (enc_all f t) as [b'|]; [|discriminate].
      injection H as <-. rewrite (dec_step c x b' Ec), (IH b' eq_refl). reflexivity.
  Qed.

  (* the encodings of the newline code points are the shortest ones and are recognisable at the end of any
     code point's encoding *)
  Definition nl_cp_ok (n : N) : Prop :=
    forall c x y, f c = Some x -> f n = Some y -> length y <= length x /\ (bends y x = true -> c = n).

  Lemma suffix_one : forall n y pre t b, nl_cp_ok n -> f n = Some y -> t <> [] -> enc_all f t = Some b ->
    bends y (pre ++ b) = true -> exists t0 b0, t = t0 ++ [n] /\ enc_all f t0 = Some b0 /\ b = b0 ++ y.
  Proof.
    intros n y pre t b Hn Hy Ht Hb Hs.
    destruct (exists_last Ht) as [t0 [c ->]]. rewrite enc_all_snoc in Hb.
    destruct (enc_all f t0) as [b0|] eqn:E0; [|discriminate]. destruct (f c) as [x|] eqn:Ec; [|discriminate].
    cbn in Hb. injection Hb as <-.
    destruct (Hn c x y Ec Hy) as [Hlen Hc].
    apply bends_iff in Hs. destruct Hs as [q Hq]. rewrite app_assoc in Hq.
    destruct (app_suffix_len _ _ _ _ Hq Hlen) as [x' Hx'].
    assert (c = n) by (apply Hc; apply bends_iff; exists x'; exact Hx'). subst c.
    assert (x = y) by congruence.
    exists t0, b0. split; [reflexivity|]. split; [exact E0|]. congruence.
  Qed.

  Lemma suffix_nl1 : forall n nlb pre t b, nl_cp_ok n -> enc_all f [n] = Some nlb -> t <> [] ->
    enc_all f t = Some b -> bends nlb (pre ++ b) = true -> suffixb N.eqb [n] t = true.
  Proof.
    intros n nlb pre t b Hn Hy Ht Hb Hs. rewrite enc_all_one in Hy.
    destruct (suffix_one n nlb pre t b Hn Hy Ht Hb Hs) as [t0 [b0 [-> _]]].
    apply (suffixb_spec N.eqb N_eqb_spec). exists t0. reflexivity.
  Qed.

  Lemma suffix_nl2 : forall n1 n2 y1 nlb pre t b, nl_cp_ok n1 -> nl_cp_ok n2 ->
    f n1 = Some y1 -> bends y1 pre = false ->
    enc_all f [n1; n2] = Some nlb -> t <> [] ->
    enc_all f t = Some b -> bends nlb (pre ++ b) = true -> suffixb N.eqb [n1; n2] t = true.
  Proof.
    intros n1 n2 y1 nlb pre t b H1 H2 Hy1 Hpre Hnlb Ht Hb Hs.
    change [n1; n2] with ([n1] ++ [n2]) in Hnlb. rewrite enc_all_snoc, enc_all_one, Hy1 in Hnlb.
    destruct (f n2) as [y2|] eqn:Hy2; [|discriminate]. cbn in Hnlb. injection Hnlb as <-.
    apply bends_iff in Hs. destruct Hs as [q Hq].
    assert (Hs2 : bends y2 (pre ++ b) = true).
    { apply bends_iff. exists (q ++ y1). rewrite Hq, app_assoc. reflexivity. }
    destruct (suffix_one n2 y2 pre t b H2 Hy2 Ht Hb Hs2) as [t0 [b0 [-> [E0 ->]]]].
    rewrite !app_assoc in Hq. apply app_inv_tail in Hq.
    destruct t0 as [|c0 t0'].
    - cbn in E0. injection E0 as <-. rewrite app_nil_r in Hq.
      assert (bends y1 pre = true) by (apply bends_iff; exists q; exact Hq). congruence.
    - assert (Hs1 : bends y1 (pre ++ b0) = true) by (apply bends_iff; exists q; exact Hq).
      destruct (suffix_one n1 y1 pre (c0 :: t0') b0 H1 Hy1 ltac:(discriminate) E0 Hs1) as [t1 [b1 [E1 _]]].
      apply (suffixb_spec N.eqb N_eqb_spec). exists t1. rewrite E1, <- app_assoc. reflexivity.
  Qed.
End CpCodec.

(* the decidable part, checked by computation for each codec: one row per newline kind *)
Definition nl_check (canon : bytes) (c : codec) (bom : bytes) (f : N -> option bytes) (nl : text) : bool :=
  match enc_all f nl with
  | None => false
  | Some nlb =>
      negb (is_nil nlb) && unborderedb byte_eqb nlb && forallb (fun x => negb (byte_eqb x x20)) nlb
      && (match c_dec c nlb with Some t => teq t nl | None => false end)
      && beq (strip_bom_canon canon (bom ++ nlb)) nlb
      && beq (strip_bom_canon canon nlb) nlb
      && (match nl with
          | [_] => true
          | [n1; _] => match f n1 with Some y1 => negb (bends y1 bom) | None => false end
          | _ => false
          end)
  end.

Definition closed_check (canon : bytes) (c : codec) (bom : bytes) (f : N -> option bytes) : bool :=
  forallb (fun p => nl_check canon c bom f (snd p)) GenText.newline_formats.

(* the code points that occur in some newline text *)
Definition nl_char (n : N) : Prop := exists p, In p GenText.newline_formats /\ In n (snd p).

Theorem codec_laws_of_cp : forall enc canon c bom f dec0,
  lookup_codec enc = LOk canon c ->
  (forall t, c_enc c t = option_map (app bom) (enc_all f t)) ->
  (forall b, c_dec c (bom ++ b) = dec0 b) ->
  dec0 [] = Some [] ->
  (forall c x r, f c = Some x -> dec0 (x ++ r) = option_map (cons c) (dec0 r)) ->
  (forall n, nl_char n -> nl_cp_ok f n) ->
  closed_check canon c bom f = true ->
  codec_laws enc c bom (enc_all f).
Proof.
  intros enc canon c bom f dec0 Hl Henc Hdec Hnil Hstep Hnlc Hcl.
  unfold closed_check in Hcl. rewrite forallb_forall in Hcl.
  constructor.
  - exists canon. exact Hl.
  - apply enc_all_app.
  - exact Henc.
  - intros t b H. rewrite Hdec. apply (dec_enc_all f dec0 Hnil Hstep). exact H.
  - intros le nl Hin. specialize (Hcl (le, nl) Hin). cbn [snd] in Hcl. unfold nl_check in Hcl.
    destruct (enc_all f nl) as [nlb|]; [|discriminate].
    rewrite !andb_true_iff in Hcl. destruct Hcl as [[[[[[H1 H2] H3] H4] H5] H6] _].
    exists nlb. split; [reflexivity|]. split; [|split; [|split; [|split; [|split]]]].
    + intros ->. discriminate.
    + apply (unborderedb_sound byte_eqb byte_eqb_spec). exact H2.
    + intros Hi. rewrite forallb_forall in H3. specialize (H3 _ Hi). discriminate.
    + destruct (c_dec c nlb) as [t|]; [|discriminate]. apply teq_eq in H4. congruence.
    + rewrite (strip_bom_lookup enc canon c _ Hl). apply beq_eq. exact H5.
    + rewrite (strip_bom_lookup enc canon c _ Hl). apply beq_eq. exact H6.
  - intros le nl nlb t b Hin Hnlb Ht Hb Hs. pose proof (Hcl (le, nl) Hin) as Hc. cbn [snd] in Hc.
    unfold nl_check in Hc. rewrite Hnlb in Hc. rewrite !andb_true_iff in Hc. destruct Hc as [_ Hshape].
    assert (Hch : forall n, In n nl -> nl_cp_ok f n).
    { intros n Hn. apply Hnlc. exists (le, nl). split; [exact Hin | exact Hn]. }
    destruct nl as [|n1 [|n2 [|? ?]]]; try discriminate.
    + apply (suffix_nl1 f n1 nlb bom t b); auto. apply Hch. left. reflexivity.
    + destruct (f n1) as [y1|] eqn:Hy1; [|discriminate]. apply negb_true_iff in Hshape.
      apply (suffix_nl2 f n1 n2 y1 nlb bom t b); auto; apply Hch; cbn; auto.
Qed.
