"""Families over pydiffx.utils.text: split (C16), spelling/newline (C15), codec (model validation)."""
import itertools

import lib
from lib import H, T, L, Opt, Bool
from family import Family, hx, unhx

NEWLINES = [b'\n', b'\r\n', b'\n\x00', b'\x00\n', b'\r\x00\n\x00', b'\x00\r\x00\n',
            b'\n\x00\x00\x00', b'\x00\x00\x00\n', b'\r\x00\x00\x00\n\x00\x00\x00', b'\x00\x00\x00\r\x00\x00\x00\n']
ALPHA = [b'\r', b'\n', b'\x00', b' ', b'a']


def res_lines(f):
    try:
        r = f()
        return '(ok (' + ' '.join(H(x) for x in r) + '))'
    except AssertionError:
        return '(exc AssertionError)'
    except Exception as e:
        return '(exc %s)' % type(e).__name__


_COLLISIONS = None


def collision_pairs():
    global _COLLISIONS
    if _COLLISIONS is None:
        import zlib
        out = []
        for fn in (zlib.crc32, zlib.adler32):
            seen, found = {}, 0
            for i in range(400000):
                line = b'+ item %08d' % (i * 7919 % 100000000)
                h = fn(line)
                if h in seen and seen[h] != line:
                    out.append((seen[h], line))
                    found += 1
                    if found >= 3:
                        break
                seen[h] = line
        out += [(b'-same start and end, 1 middle', b'-same start and end, 2 middle'), (b'ab', b'ba'), (b'+x\x00y', b'+x\x01y')]
        _COLLISIONS = out
    return _COLLISIONS


class Split(Family):
    name = 'split'
    rule = ('exhaustive byte strings over {CR,LF,NUL,space,a} up to a bounded length x 10 newline patterns x both modes, '
            'plus random longer strings, size boundaries, harvested sizes, all byte values, lines colliding under crc32 / '
            'adler32, data starting with byte order marks / magic numbers; non-trivial = the data contains the newline at least once and at least one '
            'other byte; distinct by (data, newline, mode)')

    def cases(self, tier, rng, prop_id):
        maxlen = 4 if tier == 'quick' else 6
        for n in range(0, maxlen + 1):
            for tup in itertools.product(ALPHA, repeat=n):
                d = b''.join(tup)
                for nl in (NEWLINES if n <= 3 or tier != 'quick' else NEWLINES[:4]):
                    for k in (True, False):
                        yield dict(kind='exh%d' % n, data=hx(d), nl=hx(nl), keep=k)
        count = 1500 if tier == 'quick' else 20000
        for i in range(count):
            nl = rng.choice(NEWLINES)
            parts = []
            for _ in range(rng.randint(1, 12)):
                r = rng.random()
                if r < 0.35:
                    parts.append(nl)
                elif r < 0.5:
                    parts.append(nl[:rng.randint(0, len(nl))])
                elif r < 0.6:
                    parts.append(rng.choice(NEWLINES))
                else:
                    parts.append(bytes(rng.choice(b'\r\n\x00 ab\xff') for _ in range(rng.randint(0, 5))))
            yield dict(kind='random', data=hx(b''.join(parts)), nl=hx(nl), keep=rng.random() < 0.5)
        # data (and later lines) that START with a byte order mark of any Unicode codec or another magic number: bytes like
        # any other to a line splitter, under every newline pattern and both modes
        import codecs as _codecs
        magics = [_codecs.BOM_UTF8, _codecs.BOM_UTF16_LE, _codecs.BOM_UTF16_BE, _codecs.BOM_UTF32_LE, _codecs.BOM_UTF32_BE,
                  b'\x1f\x8b', b'#!', b'\x00', b'\xff', b'+/v8', b'\xef\xbb', b'\xbf']
        for mg in magics:
            for nl in NEWLINES:
                for k in (True, False):
                    for d in (mg + b'@@ -1 +1 @@' + nl + b'-a' + nl, mg + nl, mg, mg + b'x', b'a' + nl + mg + b'b' + nl, mg + nl + mg + nl + mg):
                        yield dict(kind='magic', data=hx(d), nl=hx(nl), keep=k)
        # different lines of equal length that the standard checksums / hashes cannot tell apart (zlib.crc32, zlib.adler32,
        # the first and last bytes, the length): lines are told apart by their bytes only
        for a, b in collision_pairs():
            for nl in (NEWLINES[0], NEWLINES[1]):
                for k in (True, False):
                    yield dict(kind='collide', data=hx(a + nl + b"x" + nl + b + nl + a + nl + b), nl=hx(nl), keep=k)
                    yield dict(kind='collide', data=hx(b + nl + a + nl), nl=hx(nl), keep=k)
        # size boundaries: the newline at / across offsets around powers of two, many lines, very long lines
        for nl in (NEWLINES[0], NEWLINES[1], NEWLINES[4] if len(NEWLINES) > 4 else NEWLINES[-1]):
            for n in (255, 256, 1023, 1024, 4095, 4096, 8191, 8192, 8193, 65535, 65536, 65537):
                for k in (True, False):
                    for off in (0, 1):
                        d = b'x' * (n - off) + nl + b'y' * 3 + nl
                        yield dict(kind='boundary', data=hx(d), nl=hx(nl), keep=k)
                    yield dict(kind='boundary', data=hx(b'x' * n), nl=hx(nl), keep=k)
            for k in (True, False):
                yield dict(kind='boundary', data=hx((b'ab' + nl) * 3000), nl=hx(nl), keep=k)
                yield dict(kind='boundary', data=hx(nl * 2050 + b'z'), nl=hx(nl), keep=k)
        # sizes harvested from the code under test (literals, module/class constants, usual buffer sizes): a multi-byte
        # newline starting at every offset around each of them; large inputs are given as a recipe and checked by the
        # oracle alone (no model run above 300 kB)
        import sizes
        for c0 in sizes.harvested_sizes():
            for nl in (NEWLINES[4], NEWLINES[8]):
                for j in range(0, len(nl) + 1):
                    if c0 - j > 0:
                        yield dict(kind='harvest', recipe=[c0 - j, 6], nl=hx(nl), keep=(j % 2 == 0))
        # data that uses EVERY byte value (no byte is free to serve as a private marker), in several arrangements
        allb = bytes(range(256))
        for nl in NEWLINES:
            for k in (True, False):
                yield dict(kind='allbytes', data=hx(b'+first' + nl + allb + nl + b'+last' + nl), nl=hx(nl), keep=k)
                yield dict(kind='allbytes', data=hx(allb[::-1] + nl + allb), nl=hx(nl), keep=k)
                yield dict(kind='allbytes', data=hx(bytes(b for b in range(256) if b not in nl) * 2 + nl), nl=hx(nl), keep=k)
        # empty newline (assertion)
        yield dict(kind='emptynl', data=hx(b'abc'), nl='', keep=True)

    @staticmethod
    def _d(c):
        if 'recipe' in c:
            n, m = c['recipe']
            nl = unhx(c['nl'])
            return b'a' * n + nl + b'b' * m + nl
        return unhx(c['data'])

    def model_line(self, c):
        d = self._d(c)
        if len(d) > 300000:
            return None
        return L('split_lines', H(d), H(unhx(c['nl'])), Bool(c['keep']))

    def impl_obs(self, c):
        from pydiffx.utils.text import split_lines
        d = self._d(c)
        if len(d) > 300000:
            try:
                r = split_lines(d, unhx(c['nl']), keep_ends=c['keep'])
                return '(big %d %s)' % (len(r), ' '.join(str(len(x)) for x in r[:8]))
            except Exception as e:
                return '(exc)'
        return res_lines(lambda: split_lines(d, unhx(c['nl']), keep_ends=c['keep']))

    def nontrivial(self, c):
        d, nl = self._d(c), unhx(c['nl'])
        return bool(nl) and nl in d and len(d) > len(nl)

    def oracle(self, c, obs):
        """C16 stated directly on the implementation."""
        from pydiffx.utils.text import split_lines
        d, nl = self._d(c), unhx(c['nl'])
        if not d or not nl:
            return []
        out = []
        try:
            kept = split_lines(d, nl, keep_ends=True)
            bare = split_lines(d, nl, keep_ends=False)
        except Exception as e:
            return [('C16', 'exception', 'split_lines raised %s' % type(e).__name__)]
        if b''.join(kept) != d:
            out.append(('C16', 'concat', 'concatenating the kept-ends lines does not give back the data'))
        for i, line in enumerate(kept):
            last = i == len(kept) - 1
            if not last or d.endswith(nl):
                if not line.endswith(nl) or nl in line[:-len(nl)] or line.count(nl) != 1:
                    out.append(('C16', 'shape', 'line %d is not terminated by exactly one newline' % i))
                    break
            elif nl in line:
                out.append(('C16', 'shape', 'unterminated last line contains the newline'))
        expect = d.count(nl) + (0 if d.endswith(nl) else 1)
        if len(kept) != expect:
            out.append(('C16', 'count', 'line count %d != %d' % (len(kept), expect)))
        stripped = [l[:-len(nl)] if l.endswith(nl) else l for l in kept]
        if stripped != bare:
            out.append(('C16', 'modes', 'the two modes disagree'))
        return out


class CodecFam(Family):
    """Validates the ten Gallina codecs against CPython (model validation only; decides nothing by itself)."""
    name = 'codec'
    rule = ('encode of random texts / decode of random and mutated byte strings under the ten modelled codecs; '
            'non-trivial = the text has a non-ASCII code point or the bytes are not valid ASCII')
    NAMES = ['ascii', 'latin-1', 'utf-8', 'utf-8-sig', 'utf-16', 'utf-16-le', 'utf-16-be', 'utf-32', 'utf-32-le',
             'utf-32-be', 'UTF-16', 'U32', 'utf_8', 'nope']
    CPS = [0x41, 0x0a, 0x0d, 0x20, 0x7f, 0x80, 0xe9, 0xff, 0x100, 0x7ff, 0x800, 0xa41, 0x4100, 0xd7ff, 0xd800, 0xdfff,
           0xe000, 0xfeff, 0xfffe, 0xffff, 0x10000, 0x1f600, 0x10ffff, 0x00]

    def cases(self, tier, rng, prop_id):
        n = 1500 if tier == 'quick' else 20000
        for i in range(n):
            name = rng.choice(self.NAMES)
            if rng.random() < 0.5:
                t = ''.join(chr(rng.choice(self.CPS)) for _ in range(rng.randint(0, 6)))
                yield dict(kind='enc', name=name, text=hx(t.encode('utf-32-be', 'surrogatepass')))
            else:
                r = rng.random()
                if r < 0.5:
                    t = ''.join(chr(rng.choice(self.CPS)) for _ in range(rng.randint(0, 5)))
                    try:
                        b = t.encode(name if name != 'nope' else 'utf-8')
                    except UnicodeError:
                        b = t.encode('utf-8', 'surrogatepass')
                    b = bytearray(b)
                    if b and rng.random() < 0.5:
                        p = rng.randrange(len(b))
                        if rng.random() < 0.5:
                            b[p] = rng.randrange(256)
                        else:
                            del b[p]
                    b = bytes(b)
                else:
                    b = bytes(rng.choice([0, 0x0a, 0x41, 0x80, 0xbf, 0xc0, 0xc2, 0xd8, 0xdc, 0xe0, 0xed, 0xf0, 0xf4, 0xf5,
                                          0xfe, 0xff]) for _ in range(rng.randint(0, 8)))
                yield dict(kind='dec', name=name, data=hx(b))

    def model_line(self, c):
        if c['kind'] == 'enc':
            return L('codec', 'enc', H(c['name'].encode()), '(u #' + c['text'] + ')')
        return L('codec', 'dec', H(c['name'].encode()), '#' + c['data'])

    def impl_obs(self, c):
        try:
            if c['kind'] == 'enc':
                t = unhx(c['text']).decode('utf-32-be', 'surrogatepass')
                return '(ok %s)' % H(t.encode(c['name']))
            return '(ok %s)' % T(unhx(c['data']).decode(c['name']))
        except UnicodeEncodeError:
            return '(exc UnicodeEncodeError)'
        except UnicodeDecodeError:
            return '(exc UnicodeDecodeError)'
        except LookupError:
            return '(exc LookupError)'

    def nontrivial(self, c):
        raw = unhx(c.get('text') or c.get('data') or '')
        return any(x >= 0x80 for x in raw)


def _misaligned():
    out = {}
    for canon, le_pair, be_pair in [('utf-16', '\u0a41\u4100', '\u4100\u0a41'), ('utf-32', '\u0a41\u4100', '\U00010000\U000a0041')]:
        crlf_le, crlf_be = '\u0d41\u0a00\u4100', '\u4100\u0d00\u0a41'
        out[canon] = ['a' + le_pair + 'b\r\nsecond\r\n', 'a' + crlf_le + 'b\nsecond\n', le_pair + ' x\r\n y\r\n']
        out[canon + '-le'] = out[canon]
        out[canon + '-be'] = ['a' + be_pair + 'b\r\nsecond\r\n', be_pair + ' x\r\n y\r\n'] + \
            (['a' + crlf_be + 'b\nsecond\n'] if canon == 'utf-16' else [])
    return out


MISALIGNED = _misaligned()


class Spelling(Family):
    """C15: newline/BOM handling per codec spelling."""
    name = 'spelling'
    rule = ('every spelling of the regenerated codec catalogue (alias x case x hyphen/underscore variants, not purely '
            'numeric, stateless text codecs) x {unix, dos}: get_newline_for_type and guess_line_endings against the '
            'model and against the BOM-free incremental encoding; plus a write/read round trip of a preamble, a meta '
            'and a diff under a seeded sample (quick) / all (thorough) of the spellings of the ten modelled codecs, and of '
            'texts whose encoded first line holds the newline bytes across a character boundary (wide codecs), each followed '
            'by sibling containers that fall back to the main encoding; '
            'non-trivial = the spelling differs from the canonical name; distinct by (spelling, kind)')

    def cases(self, tier, rng, prop_id):
        import sys
        sys.path.insert(0, lib.VERIF + '/gen')
        import gen_codecs
        rows = gen_codecs.catalogue()
        modelled = {'ascii', 'iso8859-1', 'utf-8', 'utf-8-sig', 'utf-16', 'utf-16-le', 'utf-16-be', 'utf-32',
                    'utf-32-le', 'utf-32-be'}
        for r in rows:
            if not r['stateless']:
                continue
            for le in ('unix', 'dos'):
                yield dict(kind='newline', spelling=r['spelling'], canonical=r['canonical'], le=le)
            yield dict(kind='guess', spelling=r['spelling'], canonical=r['canonical'],
                       data=hx('ab\r\ncd\n'.encode(r['spelling'])))
        rt = [r for r in rows if r['canonical'] in modelled]
        if tier == 'quick':
            rt = rng.sample(rt, min(60, len(rt)))
        for r in rt:
            yield dict(kind='roundtrip', spelling=r['spelling'], canonical=r['canonical'])
        # texts whose ENCODED first line contains the codec's LF / CRLF bytes across a character boundary (the line ending
        # is a property of the text): every wide codec under a few spellings each
        wide = [r for r in rows if r['canonical'] in MISALIGNED]
        by = {}
        for r in wide:
            by.setdefault(r['canonical'], []).append(r)
        for canon, rs in sorted(by.items()):
            pick = [x for x in rs if x['spelling'] == canon] + rng.sample(rs, min(3 if tier == 'quick' else 12, len(rs)))
            for r in pick:
                for v in range(len(MISALIGNED[canon])):
                    yield dict(kind='roundtrip', spelling=r['spelling'], canonical=canon, variant=v)

    def model_line(self, c):
        if c['kind'] == 'newline':
            return L('newline_for', H(c['le'].encode()), Opt(c['spelling'], lambda s: H(s.encode())))
        if c['kind'] == 'guess':
            return L('guess', '#' + c['data'], Opt(c['spelling'], lambda s: H(s.encode())))
        import streamlib as sl
        wobs, data, robs, rt, orc, per = self._rt(c)
        return L('write_read', sl.wv_sx(sl.S('utf-8')), sl.wv_sx(sl.S('1.0')),
                 '(' + ' '.join(sl.call_sx(x) for x in self._calls(c)) + ')', '96', orc)

    def _calls(self, c):
        import streamlib as sl
        s = c['spelling']
        text = 'h\xe9llo\nw\n' if c['canonical'] != 'ascii' else 'hello\nw\n'
        if c['canonical'].startswith('utf'):
            # later lines that START with U+FEFF / U+FFFE: only the very first bytes of the content can be a byte order mark
            text = 'h\xe9llo\n\ufeffw\n\ufffex\n \ufeff\n'
        if c.get('variant') is not None:
            text = MISALIGNED[c['canonical']][c['variant']]
        return [['write_preamble', sl.S(text), sl.S(s), 'omitted', None, None],
                ['new_change', sl.S(s)],
                ['write_preamble', sl.S(text + 'x'), None, {'i': 2}, sl.S('dos'), None],
                ['new_file', None],
                ['write_meta', {'d': {'k': 'v'}}, None, 'omitted'],
                ['write_diff', sl.Bv(('-a\n+b\n').encode(s)), None, sl.S(s), None],
                # a sibling change that declares nothing (the main encoding is back in force), then one under the spelling
                # again: the newline bytes are those of the codec in force for each section, whatever was written before
                ['new_change', None],
                # declared dos while the text's own lines end in LF: one CRLF-terminated line, the CRLF is appended
                ['write_preamble', sl.S(text), None, {'i': 2}, sl.S('dos'), None],
                ['write_meta', {'d': {'k': 'w'}}, None, 'omitted'],
                ['new_file', sl.S(s)],
                ['write_meta', {'d': {'k': 'x'}}, None, 'omitted'],
                ['new_file', None],
                ['write_meta', {'d': {'k': 'y'}}, None, 'omitted']]

    def _rt(self, c):
        import streamlib as sl
        if '_rt' not in c:
            wobs, data, per = sl.run_writer(sl.S('utf-8'), sl.S('1.0'), self._calls(c))
            robs, records, term, orc = sl.run_reader(data)
            c['_rt'] = (wobs, data, robs, (records, term), orc, per)
        return c['_rt']

    def impl_obs(self, c):
        from pydiffx.utils.text import get_newline_for_type, guess_line_endings
        if c['kind'] == 'newline':
            try:
                return '(ok %s)' % H(get_newline_for_type(c['le'], c['spelling']))
            except Exception:
                return '(exc)'
        if c['kind'] == 'guess':
            try:
                le, nl = guess_line_endings(unhx(c['data']), c['spelling'])
                return '(ok (%s %s))' % (H(le.encode()), H(nl))
            except Exception:
                return '(exc)'
        wobs, data, robs, rt, orc, per = self._rt(c)
        return '(%s %s)' % (wobs, robs)

    def normalize_model(self, line):
        import streamlib as sl
        return sl.collapse_exc(line)

    def nontrivial(self, c):
        return c['spelling'] != c['canonical']

    def bucket(self, c):
        return c['kind']

    def oracle(self, c, obs):
        import codecs
        from pydiffx.utils.text import get_newline_for_type, guess_line_endings
        s = c['spelling']

        def mid(text):
            e = codecs.getincrementalencoder(s)()
            e.encode('a')
            return e.encode(text)
        out = []
        if c['kind'] == 'newline':
            want = mid('\n' if c['le'] == 'unix' else '\r\n')
            try:
                got = get_newline_for_type(c['le'], s)
            except Exception as e:
                return [('C15', 'exception', '%s: %s' % (s, type(e).__name__))]
            if got != want:
                out.append(('C15', 'newline-has-bom-or-differs', 'newline for %s/%s under spelling %r is %r, the BOM-free '
                            'encoding is %r' % (c['canonical'], c['le'], s, got, want)))
        elif c['kind'] == 'guess':
            try:
                le, nl = guess_line_endings(unhx(c['data']), s)
            except Exception as e:
                return [('C15', 'exception', '%s: %s' % (s, type(e).__name__))]
            if (le, nl) != ('dos', mid('\r\n')):
                out.append(('C15', 'guess-differs', 'guess under %r gave %r' % (s, (le, nl))))
        else:
            wobs, data, robs, rt, orc, per = self._rt(c)
            records, term = rt
            if not all(p[0] for p in per) or term[0] != 'end':
                out.append(('C15', 'roundtrip-failed', 'write/read under spelling %r failed: %r %r'
                            % (s, [p[2] for p in per if not p[0]][:1], term[:2])))
            else:
                import gen_calls as gc
                import streamlib as sl
                d = gc.compare_records(gc.expected_records('utf-8', self._calls(c)), records)
                if d:
                    out.append(('C15', 'roundtrip-differs', 'spelling %r: %s' % (s, d)))
                # same bytes as under the canonical name, apart from the spelled name
                c2 = dict(c, spelling={'iso8859-1': 'latin-1'}.get(c['canonical'], c['canonical']))
                c2.pop('_rt', None)
                w2 = self._rt(c2)[1]
                def norm(b):
                    for n in sorted({s, c2['spelling'], 'utf-8'}, key=len, reverse=True):
                        b = b.replace(n.encode(), b'@')
                    return b
                if norm(data) != norm(w2):
                    out.append(('C15', 'bytes-depend-on-spelling', 'bytes under %r differ from those under %r'
                                % (s, c2['spelling'])))
        return out
