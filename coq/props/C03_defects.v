(* C03, rejection, file level — "A file with a single spec violation (unsupported or missing version, missing
   length, content not ending in its newline, format other than json, invalid JSON, unknown line_endings value)
   is rejected with a parse error whose line number designates the offending section."

   props/C03.v states each defect for ONE iteration of the reader, under hypotheses on the reader state at the
   offending header; props/C03_spec.v states the acceptance half for whole files of the spec AST.  Here the two are
   composed: [f] is a well-formed file of the spec AST (SpecReader.v), [k] a section index, [s] its section k.
   The defect catalogue is a set of functions on the AST (theories/SpecReaderDefects.v, mirroring the test
   generator harness/gen_foreign.py [inject]):
     d_bad_version v     Main: version set to v, v in the header grammar, v <> "1.0"
     d_missing_version   Main: version removed
     d_missing_length    content section: length removed
     d_unknown_le v      content section: line_endings set to v, v in the grammar, not "unix", not "dos"
                         (integers included, also 0 since pydiffx fix D19: see C03_unknown_le_zero_rejected)
     d_format v          metadata section: format set to v, v in the grammar, v <> "json"
     invalid JSON        the json.loads oracle answers ValueError / RecursionError for the text of section k
     no final newline    the header of section k with length set to the new byte count, followed by content bytes
                         that end with neither the LF nor the CR LF of the section's encoding
   Options can be repeated, the last one wins: "removed" removes every occurrence of the key, "set" removes every
   occurrence and appends the pair at the end of the header.
   In every case the reader yields exactly the first k records of [spec_records f] and raises
   DiffXParseError(l, None), where [sec_line f k] is the line [spec_records f] gives to section k (C03_sec_line) and
     l = sec_line f k       for bad/missing version, missing length, format, invalid JSON  (the header's line)
     l = sec_line f k + 1   for unknown line_endings and no final newline                  (the first content line).
   Premises besides the defect's own: [wf_file f], the oracle is right for [f] (only the sections before k matter),
   chunk > 0, and the defective file is not larger than sys.maxsize bytes. *)
From Coq Require Import List Arith NArith ZArith Bool Strings.Byte Lia.
From Coq Require Strings.String.
From DX Require Import Bytes Res Codec Text Sections Header Stream Json Reader SectionsSpec
                       SpecReader SpecReaderBase SpecReaderFacts SpecReaderExamples SpecReaderDefects.
Import ListNotations.
Import String.StringSyntax.
Local Open Scope string_scope.
Local Open Scope list_scope.

(* [sec_line f k] is the r_line of the k-th record of the specification's reading *)
Theorem C03_sec_line : forall f k s, nth_error (ff_sections f) k = Some s ->
  nth_error (spec_records f) k = Some (sec_record (sec_line f k) s).
Proof. exact SpecReaderDefects.sec_line_spec. Qed.
Print Assumptions C03_sec_line.

(* "set" and "removed" as the reader (and the spec's [opt]) sees them *)
Theorem C03_set_opt : forall k v ps, opt k (set_opt k v ps) = Some v.
Proof. exact SpecReaderDefects.opt_set_same. Qed.
Print Assumptions C03_set_opt.
Theorem C03_del_opt : forall k ps, opt k (del_opt k ps) = None.
Proof. exact SpecReaderDefects.opt_del_same. Qed.
Print Assumptions C03_del_opt.
Theorem C03_set_opt_other : forall k k' v ps, beq (B k) (B k') = false -> opt k' (set_opt k v ps) = opt k' ps.
Proof. exact SpecReaderDefects.opt_set_other. Qed.
Print Assumptions C03_set_opt_other.
Theorem C03_del_opt_other : forall k k' ps, beq (B k) (B k') = false -> opt k' (del_opt k ps) = opt k' ps.
Proof. exact SpecReaderDefects.opt_del_other. Qed.
Print Assumptions C03_del_opt_other.

(* ---- unsupported version ---- *)
Theorem C03_file_bad_version : forall f k s orc chunk v,
  wf_file f = true -> oracle_ok_file orc f -> nth_error (ff_sections f) k = Some s ->
  fs_id s = Main -> spec_valb v = true -> beq v (B "1.0") = false ->
  0 < chunk -> (Z.of_nat (length (render_file (inject (d_bad_version v) f k))) <= sys_maxsize)%Z ->
  read_all orc chunk (render_file (inject (d_bad_version v) f k))
  = (firstn k (spec_records f), TParse (sec_line f k) None).
Proof. exact SpecReaderDefects.bad_version_file. Qed.
Print Assumptions C03_file_bad_version.

(* ---- missing version ---- *)
Theorem C03_file_missing_version : forall f k s orc chunk,
  wf_file f = true -> oracle_ok_file orc f -> nth_error (ff_sections f) k = Some s ->
  fs_id s = Main ->
  0 < chunk -> (Z.of_nat (length (render_file (inject d_missing_version f k))) <= sys_maxsize)%Z ->
  read_all orc chunk (render_file (inject d_missing_version f k))
  = (firstn k (spec_records f), TParse (sec_line f k) None).
Proof. exact SpecReaderDefects.missing_version_file. Qed.
Print Assumptions C03_file_missing_version.

(* ---- missing length ---- *)
Theorem C03_file_missing_length : forall f k s orc chunk,
  wf_file f = true -> oracle_ok_file orc f -> nth_error (ff_sections f) k = Some s ->
  sid_kind (fs_id s) <> SContainer ->
  0 < chunk -> (Z.of_nat (length (render_file (inject d_missing_length f k))) <= sys_maxsize)%Z ->
  read_all orc chunk (render_file (inject d_missing_length f k))
  = (firstn k (spec_records f), TParse (sec_line f k) None).
Proof. exact SpecReaderDefects.missing_length_file. Qed.
Print Assumptions C03_file_missing_length.

(* ---- format other than json ---- *)
Theorem C03_file_format_not_json : forall f k s orc chunk v,
  wf_file f = true -> oracle_ok_file orc f -> nth_error (ff_sections f) k = Some s ->
  sid_kind (fs_id s) = SMeta -> spec_valb v = true -> beq v (B "json") = false ->
  0 < chunk -> (Z.of_nat (length (render_file (inject (d_format v) f k))) <= sys_maxsize)%Z ->
  read_all orc chunk (render_file (inject (d_format v) f k))
  = (firstn k (spec_records f), TParse (sec_line f k) None).
Proof. exact SpecReaderDefects.format_not_json_file. Qed.
Print Assumptions C03_file_format_not_json.

(* ---- unknown line_endings value: the error is on the line after the header.
        (Until pydiffx fix D19 there was a premise [spec_conv v <> VInt 0]: see C03_unknown_le_zero_rejected.) ---- *)
Theorem C03_file_unknown_line_endings : forall f k s orc chunk v,
  wf_file f = true -> oracle_ok_file orc f -> nth_error (ff_sections f) k = Some s ->
  sid_kind (fs_id s) <> SContainer -> spec_valb v = true ->
  beq v (B "unix") = false -> beq v (B "dos") = false ->
  0 < chunk -> (Z.of_nat (length (render_file (inject (d_unknown_le v) f k))) <= sys_maxsize)%Z ->
  read_all orc chunk (render_file (inject (d_unknown_le v) f k))
  = (firstn k (spec_records f), TParse (sec_line f k + 1) None).
Proof. exact SpecReaderDefects.unknown_line_endings_file. Qed.
Print Assumptions C03_file_unknown_line_endings.

(* ---- invalid JSON: [f] carries the (invalid) text at section k; the oracle is right for the sections before k
        and answers ValueError or RecursionError at the key of section k ---- *)
Theorem C03_file_invalid_json : forall f k s orc chunk,
  wf_file f = true -> nth_error (ff_sections f) k = Some s ->
  Forall (oracle_ok_section orc) (firstn k (ff_sections f)) -> oracle_bad_section orc s ->
  0 < chunk -> (Z.of_nat (length (render_file f)) <= sys_maxsize)%Z ->
  read_all orc chunk (render_file f) = (firstn k (spec_records f), TParse (sec_line f k) None).
Proof. exact SpecReaderDefects.invalid_json_file. Qed.
Print Assumptions C03_file_invalid_json.

(* ... as a change of the oracle of a well-formed file: [bad_oracle s orc] answers ValueError at the key of s.
   No section before k may carry the same JSON text (it would be the one rejected). *)
Theorem C03_file_invalid_json_override : forall f k s orc chunk key,
  wf_file f = true -> oracle_ok_file orc f -> nth_error (ff_sections f) k = Some s ->
  meta_key s = Some key -> Forall (fun s0 => meta_key s0 <> Some key) (firstn k (ff_sections f)) ->
  0 < chunk -> (Z.of_nat (length (render_file f)) <= sys_maxsize)%Z ->
  read_all (bad_oracle s orc) chunk (render_file f) = (firstn k (spec_records f), TParse (sec_line f k) None).
Proof. exact SpecReaderDefects.invalid_json_override. Qed.
Print Assumptions C03_file_invalid_json_override.

(* ---- content not ending in its newline.  [no_final_newline_bytes f k s lenv body' rest] is the rendering of
        the first k sections, the header of s with length set to [lenv], the bytes [body'], then [rest]
        (arbitrary: the reader stops before it).  [lenv] spells the byte length of [body'] as an integer;
        [body'] ends with the encoded newline of neither kind, in the codec of the section's effective encoding
        (a diff's own encoding; ASCII if none) ---- *)
Theorem C03_file_no_final_newline : forall f k s orc chunk lenv body' rest,
  wf_file f = true -> oracle_ok_file orc f -> nth_error (ff_sections f) k = Some s ->
  sid_kind (fs_id s) <> SContainer ->
  spec_valb lenv = true -> spec_conv lenv = VInt (Z.of_nat (length body')) ->
  body' <> [] ->
  (forall kd, bends (nl_bytes (newline_codec (sec_ectx f k) s) kd) body' = false) ->
  0 < chunk -> (Z.of_nat (length (no_final_newline_bytes f k s lenv body' rest)) <= sys_maxsize)%Z ->
  read_all orc chunk (no_final_newline_bytes f k s lenv body' rest)
  = (firstn k (spec_records f), TParse (sec_line f k + 1) None).
Proof. exact SpecReaderDefects.no_final_newline_file. Qed.
Print Assumptions C03_file_no_final_newline.

(* ---- the catalogue in one statement ([applicable], [defect_bytes], [defect_oracle], [defect_line] are the case
        distinctions of the theorems above) ---- *)
Theorem C03_single_defect_rejected : forall f k s orc chunk d,
  wf_file f = true -> oracle_ok_file orc f -> nth_error (ff_sections f) k = Some s ->
  applicable f k s d -> 0 < chunk ->
  (Z.of_nat (length (defect_bytes f k s d)) <= sys_maxsize)%Z ->
  read_all (defect_oracle s d orc) chunk (defect_bytes f k s d)
  = (firstn k (spec_records f), TParse (defect_line f k d) None) /\
  (sec_line f k <= defect_line f k d <= sec_line f k + Z.of_nat (content_nlines s))%Z.
Proof. exact SpecReaderDefects.single_defect_rejected. Qed.
Print Assumptions C03_single_defect_rejected.

(* in the words of the property: the records before section k, then a parse error whose line lies between the
   line of the header of section k and that line + the number of its content lines *)
Theorem C03_single_defect_line_in_section : forall f k s orc chunk d,
  wf_file f = true -> oracle_ok_file orc f -> nth_error (ff_sections f) k = Some s ->
  applicable f k s d -> 0 < chunk ->
  (Z.of_nat (length (defect_bytes f k s d)) <= sys_maxsize)%Z ->
  exists r l c,
    nth_error (spec_records f) k = Some r /\
    read_all (defect_oracle s d orc) chunk (defect_bytes f k s d) = (firstn k (spec_records f), TParse l c) /\
    (r_line r <= l <= r_line r + Z.of_nat (content_nlines s))%Z.
Proof. exact SpecReaderDefects.single_defect_rejected_ex. Qed.
Print Assumptions C03_single_defect_line_in_section.

(* ================================================================================================ *)
(* Examples on SpecReaderExamples.sx_foreign (7 sections; header lines 0 1 4 6 7 8 10; see props/C03_spec.v) *)

Example C03_defects_ex_base :
  wf_file sx_foreign = true /\ oracle_ok_file sx_foreign_orc sx_foreign /\
  map (sec_line sx_foreign) [0; 1; 2; 3; 4; 5; 6] = [0; 1; 4; 6; 7; 8; 10]%Z /\
  map r_line (spec_records sx_foreign) = [0; 1; 4; 6; 7; 8; 10]%Z.
Proof.
  split; [vm_compute; reflexivity|]. split; [unfold oracle_ok_file; repeat constructor|].
  split; vm_compute; reflexivity.
Qed.

(* ---- bad_version at section 0 ---- *)
Example C03_defects_ex_version_bytes : render_file (inject (d_bad_version (B "2.0")) sx_foreign 0) = Ex.fx_version2.
Proof. vm_compute. reflexivity. Qed.

(* by the theorem, for every chunk size: nothing is yielded, the error is on line 0 *)
Example C03_defects_ex_version : forall chunk, 0 < chunk ->
  read_all sx_foreign_orc chunk Ex.fx_version2 = ([], TParse 0 None).
Proof.
  intros chunk Hc. destruct C03_defects_ex_base as (Hwf & Ho & _).
  rewrite <- C03_defects_ex_version_bytes.
  apply (C03_file_bad_version sx_foreign 0 _ sx_foreign_orc chunk (B "2.0") Hwf Ho eq_refl); try reflexivity; try exact Hc.
  vm_compute. discriminate.
Qed.

(* ... and by running the model *)
Example C03_defects_ex_version_run :
  read_all sx_foreign_orc 96 Ex.fx_version2 = ([], TParse 0 None) /\
  read_all sx_foreign_orc 1 Ex.fx_version2 = ([], TParse 0 None).
Proof. split; vm_compute; reflexivity. Qed.

(* ---- missing_version at section 0, missing_length at section 1 (the preamble, header on line 1), by the
        theorems and by running the model ---- *)
Example C03_defects_ex_missing : forall chunk, 0 < chunk ->
  read_all sx_foreign_orc chunk (render_file (inject d_missing_version sx_foreign 0)) = ([], TParse 0 None) /\
  read_all sx_foreign_orc chunk (render_file (inject d_missing_length sx_foreign 1))
  = (firstn 1 (spec_records sx_foreign), TParse 1 None).
Proof.
  intros chunk Hc. destruct C03_defects_ex_base as (Hwf & Ho & _). split.
  - apply (C03_file_missing_version sx_foreign 0 _ sx_foreign_orc chunk Hwf Ho eq_refl); try reflexivity; try exact Hc.
    vm_compute. discriminate.
  - apply (C03_file_missing_length sx_foreign 1 _ sx_foreign_orc chunk Hwf Ho eq_refl); try exact Hc; vm_compute; discriminate.
Qed.

Example C03_defects_ex_missing_run :
  firstn 24 (render_file (inject d_missing_version sx_foreign 0)) = B "#diffx: encoding=utf-8" ++ [x0d; x0a] /\
  read_all sx_foreign_orc 96 (render_file (inject d_missing_version sx_foreign 0)) = ([], TParse 0 None) /\
  read_all sx_foreign_orc 96 (render_file (inject d_missing_length sx_foreign 1))
  = (firstn 1 (spec_records sx_foreign), TParse 1 None).
Proof. repeat split; vm_compute; reflexivity. Qed.

(* ---- unknown_line_endings at section 6 (the diff, header on line 10): six records, then line 11 ---- *)
Example C03_defects_ex_le_bytes : render_file (inject (d_unknown_le (B "mac")) sx_foreign 6) = Ex.fx_le_mac.
Proof. vm_compute. reflexivity. Qed.

Example C03_defects_ex_le : forall chunk, 0 < chunk ->
  read_all sx_foreign_orc chunk Ex.fx_le_mac = (firstn 6 (spec_records sx_foreign), TParse 11 None).
Proof.
  intros chunk Hc. destruct C03_defects_ex_base as (Hwf & Ho & _).
  rewrite <- C03_defects_ex_le_bytes.
  apply (C03_file_unknown_line_endings sx_foreign 6 _ sx_foreign_orc chunk (B "mac") Hwf Ho eq_refl);
    try reflexivity; try exact Hc; vm_compute; discriminate.
Qed.

Example C03_defects_ex_le_run :
  read_all sx_foreign_orc 96 Ex.fx_le_mac = (firstn 6 (spec_records sx_foreign), TParse 11 None) /\
  read_all sx_foreign_orc 1 Ex.fx_le_mac = (firstn 6 (spec_records sx_foreign), TParse 11 None).
Proof. split; vm_compute; reflexivity. Qed.

(* ---- no_final_newline at section 1 (preamble in utf-8-sig, indented, DOS line endings detected; header on
        line 1): the final CR LF replaced by "x", length=19, the rest of the file unchanged ---- *)
Example C03_defects_ex_nfn_bytes :
  no_final_newline_bytes sx_foreign 1 Ex.fx_s1 (B "19") Ex.fx_pre_body Ex.fx_from_meta = Ex.fx_nfn_preamble /\
  nth_error (ff_sections sx_foreign) 1 = Some Ex.fx_s1.
Proof. split; vm_compute; reflexivity. Qed.

Example C03_defects_ex_nfn : forall chunk, 0 < chunk ->
  read_all sx_foreign_orc chunk Ex.fx_nfn_preamble = (firstn 1 (spec_records sx_foreign), TParse 2 None).
Proof.
  intros chunk Hc. destruct C03_defects_ex_base as (Hwf & Ho & _). destruct C03_defects_ex_nfn_bytes as [Hb Hn].
  rewrite <- Hb.
  apply (C03_file_no_final_newline sx_foreign 1 Ex.fx_s1 sx_foreign_orc chunk (B "19") Ex.fx_pre_body Ex.fx_from_meta Hwf Ho Hn);
    try reflexivity; try exact Hc.
  - vm_compute. discriminate.
  - vm_compute. discriminate.
  - intros [|]; vm_compute; reflexivity.
  - vm_compute. discriminate.
Qed.

Example C03_defects_ex_nfn_run :
  read_all sx_foreign_orc 96 Ex.fx_nfn_preamble = (firstn 1 (spec_records sx_foreign), TParse 2 None) /\
  read_all sx_foreign_orc 1 Ex.fx_nfn_preamble = (firstn 1 (spec_records sx_foreign), TParse 2 None).
Proof. split; vm_compute; reflexivity. Qed.

(* ---- no_final_newline at section 6 (the diff): "-a\n+bx" ---- *)
Example C03_defects_ex_nfn_diff : forall chunk, 0 < chunk ->
  no_final_newline_bytes sx_foreign 6 Ex.fx_s6 (B "6") Ex.fx_diff_body Ex.fx_trailing = Ex.fx_nfn_diff /\
  read_all sx_foreign_orc chunk Ex.fx_nfn_diff = (firstn 6 (spec_records sx_foreign), TParse 11 None).
Proof.
  intros chunk Hc. destruct C03_defects_ex_base as (Hwf & Ho & _).
  assert (Hb : no_final_newline_bytes sx_foreign 6 Ex.fx_s6 (B "6") Ex.fx_diff_body Ex.fx_trailing = Ex.fx_nfn_diff)
    by (vm_compute; reflexivity).
  split; [exact Hb|]. rewrite <- Hb.
  apply (C03_file_no_final_newline sx_foreign 6 Ex.fx_s6 sx_foreign_orc chunk (B "6") Ex.fx_diff_body Ex.fx_trailing Hwf Ho eq_refl);
    try reflexivity; try exact Hc.
  - vm_compute. discriminate.
  - vm_compute. discriminate.
  - intros [|]; vm_compute; reflexivity.
  - vm_compute. discriminate.
Qed.

(* ---- invalid_json at section 2 (.meta, header on line 4): the file itself, json.loads raising ValueError on
        {"a":1}\n (a stand-in for an invalid text: the model does not look inside) ---- *)
Example C03_defects_ex_json : forall chunk, 0 < chunk ->
  read_all (bad_oracle Ex.fx_s2 sx_foreign_orc) chunk sx_foreign_bytes = (firstn 2 (spec_records sx_foreign), TParse 4 None).
Proof.
  intros chunk Hc. destruct C03_defects_ex_base as (Hwf & Ho & _).
  assert (Hb : render_file sx_foreign = sx_foreign_bytes) by (vm_compute; reflexivity). rewrite <- Hb.
  eapply (C03_file_invalid_json_override sx_foreign 2 Ex.fx_s2 sx_foreign_orc chunk _ Hwf Ho eq_refl); try exact Hc.
  - reflexivity.
  - repeat constructor; discriminate.
  - vm_compute. discriminate.
Qed.

Example C03_defects_ex_json_run :
  read_all (bad_oracle Ex.fx_s2 sx_foreign_orc) 96 sx_foreign_bytes = (firstn 2 (spec_records sx_foreign), TParse 4 None).
Proof. vm_compute. reflexivity. Qed.

(* ---- the umbrella statement on format_not_json at section 5 (...meta, header on line 8) ---- *)
Example C03_defects_ex_umbrella : forall chunk, 0 < chunk ->
  exists s, nth_error (ff_sections sx_foreign) 5 = Some s /\
    read_all sx_foreign_orc chunk (defect_bytes sx_foreign 5 s (DFormatNotJson (B "yaml")))
    = (firstn 5 (spec_records sx_foreign), TParse 8 None).
Proof.
  intros chunk Hc. destruct C03_defects_ex_base as (Hwf & Ho & _).
  eexists. split; [reflexivity|].
  refine (proj1 (C03_single_defect_rejected sx_foreign 5 _ sx_foreign_orc chunk (DFormatNotJson (B "yaml")) Hwf Ho eq_refl _ Hc _)).
  - repeat split.
  - vm_compute. discriminate.
Qed.

(* ================================================================================================ *)
(* line_endings = 0.  Until pydiffx fix D19 the statement "line_endings set to a grammatical value that is neither
   unix nor dos is rejected" was FALSE of the reader for the values that convert to the integer 0 ("0", "00",
   "-0"): parse_header converts the value to int 0, the reader tested [if line_endings:], which is false for 0, and
   fell back to detecting the line endings as if the option were absent; the file was accepted (this file proved
   C03_unknown_le_zero_refuted, and C03_file_unknown_line_endings carried the premise [spec_conv v <> VInt 0]).
   D19 changed the test to [if line_endings is not None:] (Reader.pv_given); the premise is gone, and these values
   are rejected like any other: sx_foreign, section 6 (the diff, header on line 10): six records, then line 11. *)
Example C03_unknown_le_zero_bytes :
  map spec_conv [B "0"; B "00"; B "-0"] = [VInt 0; VInt 0; VInt 0] /\
  firstn 38 (skipn 239 (render_file (inject (d_unknown_le (B "0")) sx_foreign 6)))
  = B "#...diff: length=6, line_endings=0" ++ [x0d; x0a] ++ B "-a".
Proof. split; vm_compute; reflexivity. Qed.

(* as instances of the general theorem, for every chunk size *)
Theorem C03_unknown_le_zero_rejected : forall chunk v, 0 < chunk -> In v [B "0"; B "00"; B "-0"] ->
  read_all sx_foreign_orc chunk (render_file (inject (d_unknown_le v) sx_foreign 6))
  = (firstn 6 (spec_records sx_foreign), TParse 11 None).
Proof.
  intros chunk v Hc Hv. destruct C03_defects_ex_base as (Hwf & Ho & _).
  destruct Hv as [<- | [<- | [<- | []]]];
    (apply (C03_file_unknown_line_endings sx_foreign 6 _ sx_foreign_orc chunk _ Hwf Ho eq_refl);
     try reflexivity; try exact Hc; vm_compute; discriminate).
Qed.
Print Assumptions C03_unknown_le_zero_rejected.

(* ... and by running the model *)
Example C03_unknown_le_zero_rejected_run :
  forallb (fun v => match read_all sx_foreign_orc 96 (render_file (inject (d_unknown_le v) sx_foreign 6)) with
                    | (rs, TParse 11 None) => Nat.eqb (length rs) 6
                    | _ => false
                    end) [B "0"; B "00"; B "-0"] = true /\
  read_all sx_foreign_orc 96 (render_file (inject (d_unknown_le (B "0")) sx_foreign 6))
  = (firstn 6 (spec_records sx_foreign), TParse 11 None) /\
  read_all sx_foreign_orc 1 (render_file (inject (d_unknown_le (B "0")) sx_foreign 6))
  = (firstn 6 (spec_records sx_foreign), TParse 11 None).
Proof. repeat split; vm_compute; reflexivity. Qed.
