(* RoundTripCodecUtf.v — [codec_laws] for the UTF codecs of Codec.v (utf-8, utf-8-sig, utf-16[-le/-be],
   utf-32[-le/-be]), for EVERY spelling of the catalogue that resolves to them.  Same method as
   RoundTripCodecInst.v: quantified laws by proof over the Gallina definitions, closed facts by computation. *)
From Coq Require Import List Arith NArith ZArith Bool Lia ZifyBool Strings.Byte.
From Coq Require Strings.String.
From DX Require Import Bytes Res Codec Text TextFacts RoundTripCodec RoundTripCodecInst.
From DXGen Require GenText GenCodecs.
Import ListNotations.
Import String.StringSyntax.
Local Open Scope string_scope.
Local Open Scope list_scope.
Local Open Scope N_scope.

Ltac Zify.zify_post_hook ::= Z.to_euclidean_division_equations.

(* ------------------------------------------------------------------------------------------------ *)
(* small list facts *)

Lemma app_tail_eq {A} : forall (a q b y : list A), a ++ b = q ++ y -> length b = length y -> b = y.
Proof.
  induction a as [|h a IH]; intros q b y H Hl.
  - destruct q as [|h' q]; [exact H|]. cbn [app] in H.
    assert (E : length b = length (h' :: q ++ y)) by (rewrite H; reflexivity).
    cbn [length] in E. rewrite app_length in E. lia.
  - destruct q as [|h' q].
    + cbn [app] in H. assert (E : length (h :: a ++ b) = length y) by (rewrite H; reflexivity).
      cbn [length] in E. rewrite app_length in E. lia.
    + cbn [app] in H. injection H as _ H. eapply IH; eassumption.
Qed.

Lemma some_inj {A} : forall a b : A, Some a = Some b -> a = b.
Proof. intros a b H. congruence. Qed.

Lemma bends_last : forall z x, bends [z] x = true -> last x x00 = z.
Proof. intros z x H. apply bends_iff in H. destruct H as [q ->]. apply last_last. Qed.

(* ------------------------------------------------------------------------------------------------ *)
(* utf-8: the decoder by byte shape *)

Lemma u8_dec_1 : forall b0 r, byte_n b0 < 0x80 ->
  u8_dec (b0 :: r) = option_map (cons (byte_n b0)) (u8_dec r).
Proof.
  intros b0 r H. cbn [u8_dec]. destruct (byte_n b0 <? 0x80) eqn:E; [reflexivity | lia].
Qed.

Lemma u8_dec_2 : forall b0 b1 r, rng 0xC2 0xDF (byte_n b0) = true -> cont (byte_n b1) = true ->
  u8_dec (b0 :: b1 :: r) = option_map (cons ((byte_n b0 - 0xC0) * 64 + (byte_n b1 - 0x80))) (u8_dec r).
Proof.
  intros b0 b1 r H0 H1. cbn [u8_dec]. rewrite H0, H1.
  destruct (byte_n b0 <? 0x80) eqn:E; [unfold rng in H0; lia | reflexivity].
Qed.

Lemma u8_dec_3 : forall b0 b1 b2 r, rng 0xE0 0xEF (byte_n b0) = true ->
  (if byte_n b0 =? 0xE0 then rng 0xA0 0xBF (byte_n b1)
   else if byte_n b0 =? 0xED then rng 0x80 0x9F (byte_n b1) else cont (byte_n b1)) = true ->
  cont (byte_n b2) = true ->
  u8_dec (b0 :: b1 :: b2 :: r) =
  option_map (cons ((byte_n b0 - 0xE0) * 4096 + (byte_n b1 - 0x80) * 64 + (byte_n b2 - 0x80))) (u8_dec r).
Proof.
  intros b0 b1 b2 r H0 H1 H2. cbn [u8_dec]. rewrite H0, H1, H2.
  destruct (byte_n b0 <? 0x80) eqn:E; [unfold rng in H0; lia|].
  destruct (rng 0xC2 0xDF (byte_n b0)) eqn:E2; [unfold rng in *; lia|]. reflexivity.
Qed.

Lemma u8_dec_4 : forall b0 b1 b2 b3 r, rng 0xF0 0xF4 (byte_n b0) = true ->
  (if byte_n b0 =? 0xF0 then rng 0x90 0xBF (byte_n b1)
   else if byte_n b0 =? 0xF4 then rng 0x80 0x8F (byte_n b1) else cont (byte_n b1)) = true ->
  cont (byte_n b2) = true -> cont (byte_n b3) = true ->
  u8_dec (b0 :: b1 :: b2 :: b3 :: r) =
  option_map (cons ((byte_n b0 - 0xF0) * 262144 + (byte_n b1 - 0x80) * 4096 + (byte_n b2 - 0x80) * 64
                    + (byte_n b3 - 0x80))) (u8_dec r).
Proof.
  intros b0 b1 b2 b3 r H0 H1 H2 H3. cbn [u8_dec]. rewrite H0, H1, H2, H3.
  destruct (byte_n b0 <? 0x80) eqn:E; [unfold rng in H0; lia|].
  destruct (rng 0xC2 0xDF (byte_n b0)) eqn:E2; [unfold rng in *; lia|].
  destruct (rng 0xE0 0xEF (byte_n b0)) eqn:E3; [unfold rng in *; lia|]. reflexivity.
Qed.

Lemma u8_step : forall c x r, u8_enc_cp c = Some x -> u8_dec (x ++ r) = option_map (cons c) (u8_dec r).
Proof.
  intros c x r H. unfold u8_enc_cp in H.
  destruct (c <? 0x80) eqn:E1.
  { apply some_inj in H; subst x. cbn [app]. rewrite u8_dec_1; rewrite byte_n_n_byte by lia; [reflexivity | lia]. }
  destruct (c <? 0x800) eqn:E2.
  { apply some_inj in H; subst x. cbn [app].
    rewrite u8_dec_2; rewrite ?byte_n_n_byte by lia; [| unfold rng; lia | unfold cont; lia].
    f_equal. f_equal. lia. }
  destruct (c <? 0x10000) eqn:E3.
  { destruct (is_surrogate c) eqn:Es; [discriminate|]. unfold is_surrogate in Es.
    apply some_inj in H; subst x. cbn [app].
    rewrite u8_dec_3; rewrite ?byte_n_n_byte by lia.
    - f_equal. f_equal. lia.
    - unfold rng; lia.
    - destruct (0xE0 + c / 4096 =? 0xE0) eqn:Ea; [unfold rng; lia|].
      destruct (0xE0 + c / 4096 =? 0xED) eqn:Eb; [unfold rng; lia | unfold cont; lia].
    - unfold cont; lia. }
  destruct (c <=? 0x10FFFF) eqn:E4; [|discriminate].
  apply some_inj in H; subst x. cbn [app].
  rewrite u8_dec_4; rewrite ?byte_n_n_byte by lia.
  - f_equal. f_equal. lia.
  - unfold rng; lia.
  - destruct (0xF0 + c / 262144 =? 0xF0) eqn:Ea; [unfold rng; lia|].
    destruct (0xF0 + c / 262144 =? 0xF4) eqn:Eb; [unfold rng; lia | unfold cont; lia].
  - unfold cont; lia.
  - unfold cont; lia.
Qed.

Lemma u8_nl_ok : forall n, nl_char n -> nl_cp_ok u8_enc_cp n.
Proof.
  intros n Hn. destruct (nl_char_small n Hn) as [Hs _]. intros c x y Hc Hy.
  unfold u8_enc_cp in Hy. destruct (n <? 0x80) eqn:En; [|lia]. apply some_inj in Hy; subst y.
  unfold u8_enc_cp in Hc.
  destruct (c <? 0x80) eqn:E1.
  { apply some_inj in Hc; subst x. split; [cbn [length]; lia|]. intros Hb. apply bends_last in Hb.
    cbn [last] in Hb. apply (f_equal byte_n) in Hb. rewrite !byte_n_n_byte in Hb by lia. exact Hb. }
  destruct (c <? 0x800) eqn:E2.
  { apply some_inj in Hc; subst x. split; [cbn [length]; lia|]. intros Hb. apply bends_last in Hb.
    cbn [last] in Hb. apply (f_equal byte_n) in Hb. rewrite !byte_n_n_byte in Hb by lia. lia. }
  destruct (c <? 0x10000) eqn:E3.
  { destruct (is_surrogate c); [discriminate|].
    apply some_inj in Hc; subst x. split; [cbn [length]; lia|]. intros Hb. apply bends_last in Hb.
    cbn [last] in Hb. apply (f_equal byte_n) in Hb. rewrite !byte_n_n_byte in Hb by lia. lia. }
  destruct (c <=? 0x10FFFF) eqn:E4; [|discriminate].
  apply some_inj in Hc; subst x. split; [cbn [length]; lia|]. intros Hb. apply bends_last in Hb.
  cbn [last] in Hb. apply (f_equal byte_n) in Hb. rewrite !byte_n_n_byte in Hb by lia. lia.
Qed.

Theorem codec_ok_utf8 : forall enc c, lookup_codec enc = LOk (B "utf-8") c -> codec_ok enc.
Proof.
  intros enc c H. pose proof H as H0. canon_is "utf-8" utf8 H0.
  exists utf8, [], (enc_all u8_enc_cp).
  apply (codec_laws_of_cp enc (B "utf-8") utf8 [] u8_enc_cp u8_dec).
  - exact H.
  - intros t. rewrite option_map_app_nil. reflexivity.
  - intros b. reflexivity.
  - reflexivity.
  - exact u8_step.
  - exact u8_nl_ok.
  - vm_compute. reflexivity.
Qed.

Theorem codec_ok_utf8sig : forall enc c, lookup_codec enc = LOk (B "utf-8-sig") c -> codec_ok enc.
Proof.
  intros enc c H. pose proof H as H0. canon_is "utf-8-sig" utf8sig H0.
  exists utf8sig, bom8, (enc_all u8_enc_cp).
  apply (codec_laws_of_cp enc (B "utf-8-sig") utf8sig bom8 u8_enc_cp u8_dec).
  - exact H.
  - intros t. reflexivity.
  - intros b. reflexivity.
  - reflexivity.
  - exact u8_step.
  - exact u8_nl_ok.
  - vm_compute. reflexivity.
Qed.
