(* DomComposeCanon.v — C06 for files produced by the STREAMING writer: every accepted call list of the C01 domain
   (preamble indents explicit) is the call list of an object-model tree, so DomCompose.C06_full applies: the file
   parses into a tree t' and t' serialises to the identical bytes.
   1. the writer's order table as a path condition on call lists,
   2. accepted call lists have the shape  [preamble] [meta] (change [preamble] [meta] (file [meta] [diff])* )*,
   3. the tree of such a call list ([tree_of]); its calls are the list, it is typed and in the domain of C05_full,
   4. the theorem. *)
From Coq Require Import List Arith NArith ZArith Bool Strings.Byte Lia.
From Coq Require Strings.String.
From DX Require Import Bytes Res Codec Text Sections Header Stream Json Reader Writer Dom.
From DX Require HeaderFacts TextFacts StreamFacts SectionsFacts ReaderSpecFacts WriterFacts WriterCanonFacts Encodings.
From DX Require Import RoundTripCodec RoundTripContent RoundTripBase RoundTripSim RoundTripStep RoundTrip RoundTripCor
                       RoundTripAll.
From DX Require Import DomSpec DomSpecFacts DomSpecText DomCompose.
From DXGen Require GenSections GenText GenCodecs.
Import ListNotations.
Import String.StringSyntax.
Local Open Scope string_scope.
Local Open Scope list_scope.

(* ================================================================================================ *)
(* 1. the order table as a condition on call lists                                                     *)

(* the section id a call writes when the last written section is p *)
Definition tgt (p : bytes) (c : call) : bytes :=
  match c with
  | NewChange _ => WF.change_id
  | NewFile _ => WF.file_id
  | WritePreamble _ _ _ _ _ => build_id (WF.level_of p) (B "preamble")
  | WriteMeta _ _ _ => build_id (WF.level_of p) (B "meta")
  | WriteDiff _ _ _ _ => build_id (WF.level_of p) (B "diff")
  end.

Fixpoint path (p : bytes) (cs : list call) : Prop :=
  match cs with
  | [] => True
  | c :: r => in_ids (tgt p c) (WF.table p) = true /\ path (tgt p c) r
  end.

Lemma target_tgt : forall s p c, WF.reachable s -> w_prev s = Some p -> WF.target s c = tgt p c.
Proof.
  intros s p c Hr Hp. destruct (WF.C09_state_shape s Hr) as (p' & Hp' & _ & _ & Hl).
  rewrite Hp in Hp'. injection Hp' as <-.
  destruct c; cbn [WF.target tgt]; rewrite ?Nat.add_sub, ?Hl; reflexivity.
Qed.

Lemma accepted_path : forall cs s p, WF.reachable s -> w_prev s = Some p -> accepted s cs -> path p cs.
Proof.
  induction cs as [|c t IH]; intros s p Hr Hp Ha; [exact I|].
  destruct (accepted_cons _ _ _ Ha) as (s' & Hc & Ha').
  destruct (WF.C09_accept_order s c s' Hr Hc) as (p' & Hp' & Hin). rewrite Hp in Hp'. injection Hp' as <-.
  rewrite (target_tgt s p c Hr Hp) in Hin. cbn [path]. split; [apply WF.in_ids_In; exact Hin|].
  apply (IH s'); [eapply WF.reachable_step; eauto | | exact Ha'].
  rewrite (WF.C09_accept_prev s c s' Hr Hc). rewrite (target_tgt s p c Hr Hp). reflexivity.
Qed.

Lemma init_prev : forall enc0 ver s0, writer_init enc0 ver = (s0, Ok tt) -> w_prev s0 = Some GenSections.sec_main.
Proof.
  intros enc0 ver s0 Hinit. unfold writer_init in Hinit.
  destruct (in_strset ver GenText.versions) as [[|]|]; try (inversion Hinit; fail).
  rewrite WF.ncs_eq in Hinit by (first [discriminate | unfold GenText.writer_level_main; lia]).
  destruct (validate_section _ _) as [[]|err]; [|inversion Hinit].
  destruct (render_header _ _) as [h|err]; [|inversion Hinit]. cbv zeta in Hinit.
  inversion Hinit. reflexivity.
Qed.

(* ================================================================================================ *)
(* 2. the shape of accepted call lists                                                                 *)

Record fsec := { fs_e : wv; fs_m : option call; fs_d : option call }.
Record csec := { cs_e : wv; cs_p : option call; cs_m : option call; cs_f : list fsec }.
Definition file_cs (f : fsec) : list call := NewFile (fs_e f) :: olist (fs_m f) ++ olist (fs_d f).
Definition change_cs (c : csec) : list call :=
  NewChange (cs_e c) :: olist (cs_p c) ++ olist (cs_m c) ++ flat_map file_cs (cs_f c).
(* what may still come: the rest of the current container's sections, more files, more changes *)
Definition resid (op om od : option call) (fl : list fsec) (cl : list csec) : list call :=
  olist op ++ olist om ++ olist od ++ flat_map file_cs fl ++ flat_map change_cs cl.

Definition is_pre (c : call) : bool := match c with WritePreamble _ _ _ _ _ => true | _ => false end.
Definition is_meta_c (c : call) : bool := match c with WriteMeta _ _ _ => true | _ => false end.
Definition is_diff (c : call) : bool := match c with WriteDiff _ _ _ _ => true | _ => false end.
Definition okk (k : call -> bool) (o : option call) : bool := match o with Some c => k c | None => true end.
Definition fsec_ok (f : fsec) : bool := okk is_meta_c (fs_m f) && okk is_diff (fs_d f).
Definition csec_ok (c : csec) : bool := okk is_pre (cs_p c) && okk is_meta_c (cs_m c) && forallb fsec_ok (cs_f c).

Definition noneb {A} (o : option A) : bool := match o with None => true | Some _ => false end.
Definition nilb {A} (l : list A) : bool := match l with [] => true | _ => false end.

(* after section p: may a preamble / metadata / diff of the current container, or a file, still follow? *)
Definition allow (p : bytes) : bool * bool * bool * bool :=
  if beq p GenSections.sec_main then (true, true, false, false)
  else if beq p GenSections.sec_main_preamble then (false, true, false, false)
  else if beq p GenSections.sec_main_meta then (false, false, false, false)
  else if beq p GenSections.sec_change then (true, true, false, true)
  else if beq p GenSections.sec_change_preamble then (false, true, false, true)
  else if beq p GenSections.sec_change_meta then (false, false, false, true)
  else if beq p GenSections.sec_file then (false, true, true, true)
  else if beq p GenSections.sec_file_meta then (false, false, true, true)
  else (false, false, false, true).

Definition shapeb (p : bytes) (op om od : option call) (fl : list fsec) : bool :=
  let '(a, b, c, d) := allow p in
  (a || noneb op) && (b || noneb om) && (c || noneb od) && (d || nilb fl).

Definition oksb (op om od : option call) (fl : list fsec) (cl : list csec) : bool :=
  okk is_pre op && okk is_meta_c om && okk is_diff od && forallb fsec_ok fl && forallb csec_ok cl.

Lemma resid_file : forall e om od fl cl,
  NewFile e :: resid None om od fl cl = resid None None None ({| fs_e := e; fs_m := om; fs_d := od |} :: fl) cl.
Proof. intros. unfold resid. cbn [olist app flat_map file_cs fs_e fs_m fs_d]. rewrite <- !app_assoc. reflexivity. Qed.

Lemma resid_change : forall e op om fl cl,
  NewChange e :: resid op om None fl cl = resid None None None [] ({| cs_e := e; cs_p := op; cs_m := om; cs_f := fl |} :: cl).
Proof. intros. unfold resid. cbn [olist app flat_map change_cs cs_e cs_p cs_m cs_f]. rewrite <- !app_assoc. reflexivity. Qed.

Lemma ids_cases : forall p, In p WF.ids ->
  p = GenSections.sec_file_diff \/ p = GenSections.sec_file_meta \/ p = GenSections.sec_file \/
  p = GenSections.sec_change_meta \/ p = GenSections.sec_change_preamble \/ p = GenSections.sec_change \/
  p = GenSections.sec_main_meta \/ p = GenSections.sec_main_preamble \/ p = GenSections.sec_main.
Proof. intros p H. cbn in H. intuition (subst; auto 10). Qed.

Ltac oks_tac :=
  unfold oksb, csec_ok in *;
  cbn [okk forallb fs_e fs_m fs_d cs_e cs_p cs_m cs_f is_pre is_meta_c is_diff andb] in *;
  unfold fsec_ok in *;
  cbn [okk forallb fs_e fs_m fs_d cs_e cs_p cs_m cs_f is_pre is_meta_c is_diff andb] in *;
  rewrite ?andb_true_iff in *; intuition.

Ltac ids_tac := vm_compute; auto 12.

(* one step of the shape lemma, by the kind of the call *)
Ltac step_tac IH Hr :=
  match goal with
  | |- exists op om od fl cl, ?c :: ?r = _ /\ shapeb ?p _ _ _ _ = true /\ _ =>
      let op' := fresh "op" in let om' := fresh "om" in let od' := fresh "od" in
      let fl' := fresh "fl" in let cl' := fresh "cl" in let Hs := fresh "Hs" in let Hk := fresh "Hk" in
      let HI := fresh "HI" in
      assert (HI : In (tgt p c) WF.ids) by ids_tac;
      destruct (IH (tgt p c) HI Hr) as (op' & om' & od' & fl' & cl' & -> & Hs & Hk);
      destruct op' as [?|], om' as [?|], od' as [?|], fl' as [|? fl']; vm_compute in Hs; try discriminate Hs; clear Hs HI
  end.

Ltac fin_tac :=
  match goal with
  | |- exists op om od fl cl, (WritePreamble ?a ?b ?c ?d ?e) :: resid None ?B None ?D ?E = _ /\ _ =>
      exists (Some (WritePreamble a b c d e)), B, None, D, E
  | |- exists op om od fl cl, (WriteMeta ?a ?b ?c) :: resid None None ?C ?D ?E = _ /\ _ =>
      exists None, (Some (WriteMeta a b c)), C, D, E
  | |- exists op om od fl cl, (WriteDiff ?a ?b ?c ?d) :: resid None None None ?D ?E = _ /\ _ =>
      exists None, None, (Some (WriteDiff a b c d)), D, E
  | |- exists op om od fl cl, (NewFile ?e) :: resid None ?B ?C ?D ?E = _ /\ _ =>
      rewrite resid_file; do 5 eexists
  | |- exists op om od fl cl, (NewChange ?e) :: resid ?A ?B None ?D ?E = _ /\ _ =>
      rewrite resid_change; do 5 eexists
  end;
  (split; [reflexivity|]; split; [vm_compute; reflexivity | oks_tac]).

Theorem path_resid : forall cs p, In p WF.ids -> path p cs ->
  exists op om od fl cl, cs = resid op om od fl cl /\ shapeb p op om od fl = true /\ oksb op om od fl cl = true.
Proof.
  induction cs as [|c r IH]; intros p Hp Hpath.
  - exists None, None, None, [], []. split; [reflexivity|]. split; [|reflexivity].
    destruct (ids_cases p Hp) as [->|[->|[->|[->|[->|[->|[->|[->| ->]]]]]]]]; reflexivity.
  - destruct Hpath as [Hin Hr].
    destruct (ids_cases p Hp) as [->|[->|[->|[->|[->|[->|[->|[->| ->]]]]]]]];
      destruct c as [e|e|tx enc ind le mt|md enc fmt|ct dt enc le];
      vm_compute in Hin; try discriminate Hin; clear Hin; step_tac IH Hr; fin_tac.
Qed.

Theorem accepted_shape : forall enc0 ver s0 cs, writer_init enc0 ver = (s0, Ok tt) -> accepted s0 cs ->
  exists op om od fl cl, cs = resid op om od fl cl /\ shapeb GenSections.sec_main op om od fl = true /\
                         oksb op om od fl cl = true.
Proof.
  intros enc0 ver s0 cs Hi Ha. apply path_resid; [vm_compute; auto 12|].
  exact (accepted_path cs s0 _ (WF.reachable_init _ _ _ Hi) (init_prev _ _ _ Hi) Ha).
Qed.

(* ================================================================================================ *)
(* 3. the tree of a call list                                                                          *)

(* None, or an ASCII str that is not of integer form: what every str argument of an accepted call of the C01
   domain is *)
Definition aplain (v : wv) : Prop := v = WNone \/ exists x, v = WStr (ascii_text x) /\ int_ok x = false.

Lemma ascii_str_ok : forall x, int_ok x = false -> str_ok (ascii_text x) = true.
Proof.
  intros x H. unfold str_ok. apply andb_true_iff. split.
  - unfold ascii_text. apply forallb_forall. intros c Hc. apply in_map_iff in Hc. destruct Hc as (b & <- & _).
    apply N.ltb_lt. apply WC.byte_n_lt_256.
  - unfold text_bytes. rewrite WC.map_n_byte_ascii_text, H. reflexivity.
Qed.

Lemma enc_ok_aplain : forall v, enc_ok v -> aplain v.
Proof.
  intros v [->|(eb & canon & c & -> & L)]; [left; reflexivity|]. right. exists eb. split; [reflexivity|].
  apply (spelling_facts _ _ _ L).
Qed.

Lemma choice_aplain : forall v set, (forall x, In x set -> In x WC.choice_values) ->
  match v with WNone => Ok true | v' => in_strset v' set end = Ok true -> aplain v.
Proof.
  intros v set Hsub H. destruct (choice_good_exact v set Hsub H) as (_ & Hx & [->|(x & _ & ->)]); [left; reflexivity|].
  right. exists x. split; [reflexivity|]. cbn [exact_value] in Hx. rewrite WC.map_n_byte_ascii_text in Hx. exact Hx.
Qed.

Lemma le_arg_aplain : forall le, le_arg le -> aplain le.
Proof.
  intros le [|x Hx]; [left; reflexivity|]. right. exists x. split; [reflexivity|].
  assert (Hin : In x WC.choice_values) by (unfold WC.choice_values; apply in_or_app; left; exact Hx).
  destruct (choice_exact x Hin) as [He _]. cbn [exact_value] in He. rewrite WC.map_n_byte_ascii_text in He. exact He.
Qed.

(* the calls the object model can issue: arguments as an accepted call of the C01 domain has them, with the
   preamble indent explicit (omitted, i.e. the default 4, or an int) *)
Inductive canon_call : call -> Prop :=
| cn_change : forall e, enc_ok e -> canon_call (NewChange e)
| cn_file : forall e, enc_ok e -> canon_call (NewFile e)
| cn_pre : forall t enc ind le mt, t <> [] -> enc_ok enc ->
    (ind = None \/ exists k, ind = Some (WInt k) /\ (0 <= k)%Z) -> aplain le -> aplain mt ->
    canon_call (WritePreamble (WStr t) enc ind le mt)
| cn_meta : forall kv enc fmt, kv <> [] -> enc_ok enc ->
    (fmt = None \/ exists x, fmt = Some (WStr (ascii_text x)) /\ int_ok x = false) ->
    canon_call (WriteMeta (WDict (JObj kv)) enc fmt)
| cn_diff : forall b dt enc le, b <> [] -> aplain dt -> enc_ok enc -> aplain le ->
    canon_call (WriteDiff (WBytes b) dt enc le).

(* the property's domain for indent: "indent >= 0 or default"; a streaming indent=None writes no indentation and
   no indent option, which the object model re-emits with its default indent 4 *)
Definition indent_explicit (c : call) : Prop :=
  match c with WritePreamble _ _ (Some WNone) _ _ => False | _ => True end.

Lemma canon_of_accepted : forall c s s', call_good c -> indent_explicit c -> do_call c s = (s', Ok tt) -> canon_call c.
Proof.
  intros c s s' Hg Hi Hc. destruct c as [e|e|text enc ind le mt|md enc fmt|content dt enc le]; cbn [call_good] in Hg.
  - constructor. exact Hg.
  - constructor. exact Hg.
  - destruct Hg as (Henc & Hind & Hle).
    destruct (preamble_call_inv _ _ _ _ _ _ _ Hc) as (t & -> & Hmt & Hncs).
    destruct (WC.C02_length_exact _ _ _ _ _ _ _ _ _ _ Hncs) as (body & lo & h & Hprep & _).
    destruct (WC.prepare_content_unfold _ _ _ _ _ _ _ _ Hprep) as (_ & _ & _ & _ & _ & _ & _ & _ & Hnil & _).
    constructor.
    + destruct t; [discriminate Hnil|discriminate].
    + exact Henc.
    + destruct ind as [v|]; [|left; reflexivity]. right. cbn [indent_ok] in Hind. destruct Hind as [|k Hk]; [contradiction|].
      exists k. split; [reflexivity|exact Hk].
    + apply le_arg_aplain. exact Hle.
    + eapply choice_aplain; [exact WC.choice_sub_mimetypes|exact Hmt].
  - destruct Hg as (Henc & kv & ->).
    destruct (meta_call_inv_gen _ _ _ _ _ Hc) as (j & d & has_enc & Ej & Htruthy & Hfmt & _). injection Ej as <-.
    constructor.
    + intros ->. discriminate Htruthy.
    + exact Henc.
    + destruct fmt as [v|]; [|left; reflexivity]. right. cbn [meta_fmt] in Hfmt.
      apply WC.in_strset_true in Hfmt. destruct Hfmt as (x & Hx & ->). exists x. split; [reflexivity|].
      assert (Hin : In x WC.choice_values) by (apply WC.choice_sub_meta_formats; exact Hx).
      destruct (choice_exact x Hin) as [He _]. cbn [exact_value] in He. rewrite WC.map_n_byte_ascii_text in He. exact He.
  - destruct Hg as (Henc & Hle).
    destruct (diff_call_inv _ _ _ _ _ _ Hc) as (b & -> & Hdt & Hncs).
    destruct (WC.C02_length_exact _ _ _ _ _ _ _ _ _ _ Hncs) as (body & lo & h & Hprep & _).
    destruct (WC.prepare_content_unfold _ _ _ _ _ _ _ _ Hprep) as (_ & _ & _ & _ & _ & _ & _ & _ & Hnil & _).
    constructor.
    + destruct b; [discriminate Hnil|discriminate].
    + eapply choice_aplain; [exact WC.choice_sub_diff_types|exact Hdt].
    + exact Henc.
    + apply le_arg_aplain. exact Hle.
Qed.

(* an options dict entry, left out when the value is None *)
Definition opt_entry (k : String.string) (v : wv) : dopts := match v with WNone => [] | _ => [(B k, v)] end.

Definition psec_of (o : option call) : psec :=
  match o with
  | Some (WritePreamble (WStr t) enc ind le mt) =>
      {| p_opts := opt_entry "encoding" enc ++ match ind with Some v => [(B "indent", v)] | None => [] end
                   ++ opt_entry "line_endings" le ++ opt_entry "mimetype" mt;
         p_content := Some t |}
  | _ => new_psec
  end.
Definition msec_of (o : option call) : msec :=
  match o with
  | Some (WriteMeta (WDict (JObj kv)) enc fmt) =>
      {| m_opts := opt_entry "encoding" enc ++ match fmt with Some v => [(B "format", v)] | None => [] end;
         m_content := kv |}
  | _ => new_msec
  end.
Definition dsec_of (o : option call) : dsec :=
  match o with
  | Some (WriteDiff (WBytes b) dt enc le) =>
      {| x_opts := opt_entry "encoding" enc ++ opt_entry "line_endings" le ++ opt_entry "type" dt;
         x_content := Some b |}
  | _ => new_dsec
  end.
Definition file_of (f : fsec) : dfile :=
  {| f_opts := opt_entry "encoding" (fs_e f); f_meta := msec_of (fs_m f); f_diff := dsec_of (fs_d f) |}.
Definition change_of (c : csec) : dchange :=
  {| c_opts := opt_entry "encoding" (cs_e c); c_pre := psec_of (cs_p c); c_meta := msec_of (cs_m c);
     c_files := map file_of (cs_f c) |}.
Definition tree_of (enc0 ver : wv) (op om : option call) (cl : list csec) : dtree :=
  {| d_opts := opt_entry "encoding" enc0 ++ [(B "version", ver)];
     d_pre := psec_of op; d_meta := msec_of om; d_changes := map change_of cl |}.

Ltac ap_cases H := destruct H as [->|(? & -> & ?)].

(* one content section: the DOM writer issues exactly the call the section was built from; the section is typed
   and its encoding / indent are in the domain *)
Lemma pre_of_ok : forall c, is_pre c = true -> canon_call c ->
  call_preamble (psec_of (Some c)) = Ok (Some c) /\ typed_opts (p_opts (psec_of (Some c))) = true /\
  enc_okb (psec_enc (psec_of (Some c))) = true /\ psec_indent_ok (psec_of (Some c)) = true.
Proof.
  intros c Hk Hc. destruct Hc as [| |t enc ind le mt Ht Henc Hind Hle Hmt| |]; try discriminate Hk.
  pose proof (enc_ok_okb enc Henc) as Heb. pose proof (enc_ok_aplain enc Henc) as Hea.
  assert (Hn : is_nil t = false) by (destruct t; [congruence|reflexivity]).
  unfold call_preamble, psec_enc, psec_indent_ok. cbn [psec_of p_content p_opts]. rewrite Hn.
  ap_cases Hea; ap_cases Hle; ap_cases Hmt; destruct Hind as [->|(k & -> & Hk0)];
    cbn [opt_entry app]; (split; [reflexivity|]); (split; [|split]);
    try exact Heb; try reflexivity;
    try (cbn [indent_okb kw_opt assoc_get]; apply Z.leb_le; exact Hk0);
    cbn [typed_opts forallb snd hv_ok]; rewrite ?ascii_str_ok by assumption; reflexivity.
Qed.

Lemma meta_of_ok : forall c, is_meta_c c = true -> canon_call c ->
  call_meta (msec_of (Some c)) = Ok (Some c) /\ typed_opts (m_opts (msec_of (Some c))) = true /\
  enc_okb (msec_enc (msec_of (Some c))) = true.
Proof.
  intros c Hk Hc. destruct Hc as [| | |kv enc fmt Hkv Henc Hfmt|]; try discriminate Hk.
  pose proof (enc_ok_okb enc Henc) as Heb. pose proof (enc_ok_aplain enc Henc) as Hea.
  assert (Hn : is_nil kv = false) by (destruct kv; [congruence|reflexivity]).
  unfold call_meta, msec_enc. cbn [msec_of m_content m_opts]. rewrite Hn.
  ap_cases Hea; destruct Hfmt as [->|(xf & -> & Hxf)];
    cbn [opt_entry app]; (split; [reflexivity|]); (split; [|try exact Heb; reflexivity]);
    cbn [typed_opts forallb snd hv_ok]; rewrite ?ascii_str_ok by assumption; reflexivity.
Qed.

Lemma diff_of_ok : forall c, is_diff c = true -> canon_call c ->
  call_diff (dsec_of (Some c)) = Ok (Some c) /\ typed_opts (x_opts (dsec_of (Some c))) = true /\
  enc_okb (dsec_enc (dsec_of (Some c))) = true.
Proof.
  intros c Hk Hc. destruct Hc as [| | | |b dt enc le Hb Hdt Henc Hle]; try discriminate Hk.
  pose proof (enc_ok_okb enc Henc) as Heb. pose proof (enc_ok_aplain enc Henc) as Hea.
  assert (Hn : is_nil b = false) by (destruct b; [congruence|reflexivity]).
  unfold call_diff, dsec_enc. cbn [dsec_of x_content x_opts]. rewrite Hn.
  ap_cases Hea; ap_cases Hle; ap_cases Hdt;
    cbn [opt_entry app]; (split; [reflexivity|]); (split; [|try exact Heb; reflexivity]);
    cbn [typed_opts forallb snd hv_ok]; rewrite ?ascii_str_ok by assumption; reflexivity.
Qed.

Lemma container_of_ok : forall name e, enc_ok e ->
  call_container name (opt_entry "encoding" e) = Ok (if String.eqb name "change" then NewChange e else NewFile e) /\
  typed_copts (opt_entry "encoding" e) = true /\ enc_okb (copts_enc (opt_entry "encoding" e)) = true.
Proof.
  intros name e He. pose proof (enc_ok_okb e He) as Heb. pose proof (enc_ok_aplain e He) as Hea.
  unfold call_container, copts_enc. ap_cases Hea; cbn [opt_entry]; (split; [reflexivity|]); (split; [|try exact Heb; reflexivity]).
  - reflexivity.
  - cbn [typed_copts forallb snd sv_ok]. rewrite ascii_str_ok by assumption. reflexivity.
Qed.

(* the empty sections issue no call *)
Lemma pre_of_none : call_preamble (psec_of None) = Ok None. Proof. reflexivity. Qed.
Lemma meta_of_none : call_meta (msec_of None) = Ok None. Proof. reflexivity. Qed.
Lemma diff_of_none : call_diff (dsec_of None) = Ok None. Proof. reflexivity. Qed.

(* an optional section *)
Lemma pre_of_opt : forall o, okk is_pre o = true -> Forall canon_call (olist o) ->
  call_preamble (psec_of o) = Ok o /\ typed_opts (p_opts (psec_of o)) = true /\
  enc_okb (psec_enc (psec_of o)) = true /\ psec_indent_ok (psec_of o) = true.
Proof.
  intros [c|] Hk Hc; [|repeat split; reflexivity]. inversion Hc; subst. apply pre_of_ok; assumption.
Qed.
Lemma meta_of_opt : forall o, okk is_meta_c o = true -> Forall canon_call (olist o) ->
  call_meta (msec_of o) = Ok o /\ typed_opts (m_opts (msec_of o)) = true /\ enc_okb (msec_enc (msec_of o)) = true.
Proof.
  intros [c|] Hk Hc; [|repeat split; reflexivity]. inversion Hc; subst. apply meta_of_ok; assumption.
Qed.
Lemma diff_of_opt : forall o, okk is_diff o = true -> Forall canon_call (olist o) ->
  call_diff (dsec_of o) = Ok o /\ typed_opts (x_opts (dsec_of o)) = true /\ enc_okb (dsec_enc (dsec_of o)) = true.
Proof.
  intros [c|] Hk Hc; [|repeat split; reflexivity]. inversion Hc; subst. apply diff_of_ok; assumption.
Qed.

Lemma collect_ok_cons : forall o r, collect (Ok o :: r) = do cs <- collect r; Ok (olist o ++ cs).
Proof. intros [c|] r; cbn [collect olist app]; [reflexivity|]. destruct (collect r); reflexivity. Qed.

(* a file *)
Lemma file_of_ok : forall f, fsec_ok f = true -> Forall canon_call (file_cs f) ->
  collect (file_thunks (file_of f)) = Ok (file_cs f) /\ typed_file (file_of f) = true /\
  file_encs enc_okb (file_of f) = true.
Proof.
  intros [e om od] Hk Hc. unfold fsec_ok in Hk. cbn [fs_m fs_d] in Hk. apply andb_true_iff in Hk. destruct Hk as [K1 K2].
  unfold file_cs in Hc. cbn [fs_e fs_m fs_d] in Hc. inversion Hc as [|? ? Hce Hcr]; subst.
  apply Forall_app in Hcr. destruct Hcr as [Hcm Hcd]. inversion Hce as [|e' He| | |]; subst.
  destruct (container_of_ok "file" e He) as (C1 & C2 & C3).
  destruct (meta_of_opt om K1 Hcm) as (M1 & M2 & M3). destruct (diff_of_opt od K2 Hcd) as (D1 & D2 & D3).
  unfold file_thunks, file_of, typed_file, file_encs, file_cs. cbn [f_opts f_meta f_diff fs_e fs_m fs_d].
  rewrite C1, M1, D1, C2, M2, D2, C3, M3, D3. cbn [some_call String.eqb Ascii.eqb Bool.eqb andb].
  split; [|split; reflexivity]. rewrite !collect_ok_cons. cbn [collect bind olist app]. rewrite app_nil_r. reflexivity.
Qed.

Lemma files_of_ok : forall fl, forallb fsec_ok fl = true -> Forall canon_call (flat_map file_cs fl) ->
  collect (flat_map file_thunks (map file_of fl)) = Ok (flat_map file_cs fl) /\
  forallb typed_file (map file_of fl) = true /\ forallb (file_encs enc_okb) (map file_of fl) = true.
Proof.
  induction fl as [|f fl IH]; intros Hk Hc; [repeat split; reflexivity|].
  cbn [forallb] in Hk. apply andb_true_iff in Hk. destruct Hk as [K1 K2].
  cbn [flat_map] in Hc. apply Forall_app in Hc. destruct Hc as [Hc1 Hc2].
  destruct (file_of_ok f K1 Hc1) as (F1 & F2 & F3). destruct (IH K2 Hc2) as (I1 & I2 & I3).
  cbn [map flat_map forallb]. rewrite collect_app, F1, I1, F2, I2, F3, I3. repeat split; reflexivity.
Qed.

(* a change *)
Lemma change_of_ok : forall c, csec_ok c = true -> Forall canon_call (change_cs c) ->
  collect (change_thunks (change_of c)) = Ok (change_cs c) /\ typed_change (change_of c) = true /\
  change_encs enc_okb (change_of c) = true /\ psec_indent_ok (c_pre (change_of c)) = true.
Proof.
  intros [e op om fl] Hk Hc. unfold csec_ok in Hk. cbn [cs_p cs_m cs_f] in Hk. apply andb_true_iff in Hk.
  destruct Hk as [Hk K3]. apply andb_true_iff in Hk. destruct Hk as [K1 K2].
  unfold change_cs in Hc. cbn [cs_e cs_p cs_m cs_f] in Hc. inversion Hc as [|? ? Hce Hcr]; subst.
  apply Forall_app in Hcr. destruct Hcr as [Hcp Hcr]. apply Forall_app in Hcr. destruct Hcr as [Hcm Hcf].
  inversion Hce as [e' He| | | |]; subst.
  destruct (container_of_ok "change" e He) as (C1 & C2 & C3).
  destruct (pre_of_opt op K1 Hcp) as (P1 & P2 & P3 & P4). destruct (meta_of_opt om K2 Hcm) as (M1 & M2 & M3).
  destruct (files_of_ok fl K3 Hcf) as (F1 & F2 & F3).
  unfold change_thunks, change_of, typed_change, change_encs, change_cs. cbn [c_opts c_pre c_meta c_files cs_e cs_p cs_m cs_f].
  rewrite C1, P1, M1, C2, P2, M2, F2, C3, P3, M3, F3, P4. cbn [some_call String.eqb Ascii.eqb Bool.eqb andb].
  split; [|repeat split; reflexivity]. rewrite collect_app, !collect_ok_cons. cbn [collect bind]. rewrite F1. cbn [bind olist app].
  rewrite app_nil_r, <- !app_assoc. reflexivity.
Qed.

Lemma changes_of_ok : forall cl, forallb csec_ok cl = true -> Forall canon_call (flat_map change_cs cl) ->
  collect (flat_map change_thunks (map change_of cl)) = Ok (flat_map change_cs cl) /\
  forallb typed_change (map change_of cl) = true /\ forallb (change_encs enc_okb) (map change_of cl) = true /\
  forallb (fun c => psec_indent_ok (c_pre c)) (map change_of cl) = true.
Proof.
  induction cl as [|c cl IH]; intros Hk Hc; [repeat split; reflexivity|].
  cbn [forallb] in Hk. apply andb_true_iff in Hk. destruct Hk as [K1 K2].
  cbn [flat_map] in Hc. apply Forall_app in Hc. destruct Hc as [Hc1 Hc2].
  destruct (change_of_ok c K1 Hc1) as (F1 & F2 & F3 & F4). destruct (IH K2 Hc2) as (I1 & I2 & I3 & I4).
  cbn [map flat_map forallb]. rewrite collect_app, F1, I1, F2, I2, F3, I3, F4, I4. repeat split; reflexivity.
Qed.

(* the whole tree *)
Lemma tree_of_ok : forall enc0 x op om cl, enc_ok enc0 -> int_ok x = false ->
  okk is_pre op = true -> okk is_meta_c om = true -> forallb csec_ok cl = true ->
  Forall canon_call (resid op om None [] cl) ->
  let t := tree_of enc0 (WStr (ascii_text x)) op om cl in
  tree_calls t = Ok (resid op om None [] cl) /\ typed_tree t = true /\ tree_encs_ok t = true /\
  tree_indents_ok t = true /\ tree_encoding t = enc0 /\ tree_version t = WStr (ascii_text x) /\ main_keys_ok t = true.
Proof.
  intros enc0 x op om cl He Hx K1 K2 K3 Hc t.
  unfold resid in Hc. apply Forall_app in Hc. destruct Hc as [Hcp Hc]. apply Forall_app in Hc. destruct Hc as [Hcm Hcc].
  cbn [olist flat_map app] in Hcc.
  destruct (pre_of_opt op K1 Hcp) as (P1 & P2 & P3 & P4). destruct (meta_of_opt om K2 Hcm) as (M1 & M2 & M3).
  destruct (changes_of_ok cl K3 Hcc) as (F1 & F2 & F3 & F4).
  pose proof (enc_ok_okb enc0 He) as Heb. pose proof (enc_ok_aplain enc0 He) as Hea.
  assert (E1 : tree_encoding t = enc0) by (unfold t, tree_encoding, tree_of; cbn [d_opts]; ap_cases Hea; reflexivity).
  assert (E2 : tree_version t = WStr (ascii_text x)) by (unfold t, tree_version, tree_of; cbn [d_opts]; ap_cases Hea; reflexivity).
  assert (E3 : main_keys_ok t = true) by (unfold t, main_keys_ok, tree_of; cbn [d_opts]; ap_cases Hea; reflexivity).
  assert (E4 : typed_opts (d_opts t) = true).
  { unfold t, tree_of. cbn [d_opts]. ap_cases Hea; cbn [opt_entry app typed_opts forallb snd hv_ok];
      rewrite ?ascii_str_ok by assumption; reflexivity. }
  split; [|split; [|split; [|split; [|split; [|split]]]]]; try assumption.
  - unfold tree_calls, tree_thunks, t, tree_of, resid. cbn [d_pre d_meta d_changes]. rewrite P1, M1.
    rewrite collect_app, !collect_ok_cons. cbn [collect bind]. rewrite F1. cbn [bind olist app flat_map].
    rewrite app_nil_r, <- app_assoc. reflexivity.
  - unfold typed_tree. rewrite E4. unfold t, tree_of. cbn [d_pre d_meta d_changes]. rewrite P2, M2, F2. reflexivity.
  - unfold tree_encs_ok, tree_encs. rewrite E1, Heb. unfold t, tree_of. cbn [d_pre d_meta d_changes]. rewrite P3, M3, F3. reflexivity.
  - unfold tree_indents_ok, t, tree_of. cbn [d_pre d_changes]. rewrite P4, F4. reflexivity.
Qed.

Lemma canon_of_accepted_all : forall cs s, Forall call_good cs -> Forall indent_explicit cs -> accepted s cs ->
  Forall canon_call cs.
Proof.
  induction cs as [|c t IH]; intros s Hg Hi Ha; [constructor|].
  inversion Hg; subst. inversion Hi; subst. destruct (accepted_cons _ _ _ Ha) as (s' & Hc & Ha').
  constructor; [eapply canon_of_accepted; eauto | eapply IH; eauto].
Qed.

(* every accepted call list of the C01 domain with explicit preamble indents is the call list of a tree in the
   domain of C05_full / C06_full, whose serialisation is the streaming writer's output *)
Theorem calls_have_tree : forall enc0 ver s0 cs,
  writer_init enc0 ver = (s0, Ok tt) -> enc_ok enc0 ->
  Forall call_good cs -> Forall indent_explicit cs -> accepted s0 cs ->
  exists t, tree_calls t = Ok cs /\ typed_tree t = true /\ tree_encs_ok t = true /\ tree_indents_ok t = true /\
            tree_encoding t = enc0 /\ tree_version t = ver /\
            dom_write t = Ok (w_out (snd (run_calls s0 cs))).
Proof.
  intros enc0 ver s0 cs Hinit He Hg Hi Ha.
  pose proof (accepted_path cs s0 _ (WF.reachable_init _ _ _ Hinit) (init_prev _ _ _ Hinit) Ha) as Hpath.
  assert (Hmain : In GenSections.sec_main WF.ids) by (vm_compute; auto 12).
  destruct (path_resid cs _ Hmain Hpath) as (op & om & od & fl & cl & Ecs & Hs & Hk).
  destruct od as [?|]; [vm_compute in Hs; destruct op, om; discriminate Hs|].
  destruct fl as [|? ?]; [|vm_compute in Hs; destruct op, om; discriminate Hs]. clear Hs.
  unfold oksb in Hk. cbn [okk forallb] in Hk. rewrite !andb_true_iff in Hk. destruct Hk as [[[[K1 K2] _] _] K3].
  pose proof (canon_of_accepted_all cs s0 Hg Hi Ha) as Hc.
  assert (Hver : exists x, ver = WStr (ascii_text x) /\ int_ok x = false).
  { unfold writer_init in Hinit. destruct (in_strset ver GenText.versions) as [[|]|] eqn:Ev; try (inversion Hinit; fail).
    apply WC.in_strset_true in Ev. destruct Ev as (x & Hx & ->). exists x. split; [reflexivity|].
    assert (Hxc : In x WC.choice_values) by (unfold WC.choice_values; do 4 (apply in_or_app; right); exact Hx).
    destruct (choice_exact x Hxc) as [Hxe _]. cbn [exact_value] in Hxe. rewrite WC.map_n_byte_ascii_text in Hxe. exact Hxe. }
  destruct Hver as (x & -> & Hx). rewrite Ecs in Hc.
  destruct (tree_of_ok enc0 x op om cl He Hx K1 K2 K3 Hc) as (T1 & T2 & T3 & T4 & T5 & T6 & T7).
  exists (tree_of enc0 (WStr (ascii_text x)) op om cl). rewrite <- Ecs in T1.
  repeat (split; [assumption|]).
  apply C05_write_is_calls. split; [exact T7|]. exists s0, cs, (snd (run_calls s0 cs)). rewrite T5, T6.
  split; [exact Hinit|]. split; [exact T1|]. split; [apply accepted_run_all; exact Ha | reflexivity].
Qed.

(* C06 for the streaming writer's files: the file parses into a tree, and that tree serialises to the identical
   bytes (and is a fixed point).  [metas_oracle_ok orc s0 cs] (RoundTrip.v): at every write_meta an encoding is in
   force, or the oracle answers for the JSON bytes; added with the fix of write_meta (see C01_round_trip: with no
   encoding in force the JSON is written and read back as bytes, and json.loads is asked about bytes). *)
Theorem C06_canonical : forall enc0 ver s0 cs orc,
  writer_init enc0 ver = (s0, Ok tt) -> enc_ok enc0 ->
  Forall call_good cs -> Forall indent_explicit cs -> accepted s0 cs ->
  metas_oracle_ok orc s0 cs -> guesses_ok s0 cs -> oracle_ok orc cs ->
  (Z.of_nat (length (w_out (snd (run_calls s0 cs)))) <= sys_maxsize)%Z ->
  exists t', dom_read orc (w_out (snd (run_calls s0 cs))) = Ok t' /\
             dom_write t' = Ok (w_out (snd (run_calls s0 cs))) /\ normalise t' = t' /\
             (forall b', dom_write t' = Ok b' -> dom_read orc b' = Ok t') /\
             exists t0, tree_calls t0 = Ok cs /\ t' = normalise t0.
Proof.
  intros enc0 ver s0 cs orc Hinit He Hg Hi Ha Hme Hgs Ho Hsz.
  destruct (calls_have_tree enc0 ver s0 cs Hinit He Hg Hi Ha) as (t0 & T1 & T2 & T3 & T4 & T5 & T6 & Hw).
  assert (Hto : tree_oracle_ok orc t0).
  { intros cs' Hc'. rewrite T1 in Hc'. injection Hc' as <-. exact Ho. }
  assert (Htg : tree_guesses_ok t0).
  { intros s0' cs' Hi' Hc'. rewrite T1 in Hc'. injection Hc' as <-. rewrite T5, T6, Hinit in Hi'. injection Hi' as <-. exact Hgs. }
  assert (Htm : tree_metas_oracle_ok orc t0).
  { intros s0' cs' Hi' Hc'. rewrite T1 in Hc'. injection Hc' as <-. rewrite T5, T6, Hinit in Hi'. injection Hi' as <-. exact Hme. }
  destruct (C06_full orc t0 _ T2 T3 T4 Hw Hto Htm Htg Hsz) as (t' & R1 & R2 & R3 & R4 & R5).
  exists t'. repeat (split; [assumption|]). exists t0. split; assumption.
Qed.

(* no hypothesis about newline guesses when every encoding is None or a spelling of ascii / latin-1 / utf-8 /
   utf-8-sig *)
Theorem C06_canonical_aligned : forall enc0 ver s0 cs orc,
  writer_init enc0 ver = (s0, Ok tt) -> enc_aligned enc0 ->
  Forall call_good cs -> Forall (fun c => enc_aligned (call_enc c)) cs -> Forall indent_explicit cs -> accepted s0 cs ->
  metas_oracle_ok orc s0 cs -> oracle_ok orc cs ->
  (Z.of_nat (length (w_out (snd (run_calls s0 cs)))) <= sys_maxsize)%Z ->
  exists t', dom_read orc (w_out (snd (run_calls s0 cs))) = Ok t' /\
             dom_write t' = Ok (w_out (snd (run_calls s0 cs))) /\ normalise t' = t' /\
             (forall b', dom_write t' = Ok b' -> dom_read orc b' = Ok t') /\
             exists t0, tree_calls t0 = Ok cs /\ t' = normalise t0.
Proof.
  intros enc0 ver s0 cs orc Hinit He Hg Hal Hi Ha Hme Ho Hsz.
  apply (C06_canonical enc0 ver s0 cs orc Hinit (enc_aligned_ok _ He) Hg Hi Ha); try assumption.
  destruct (init_stack _ _ _ Hinit) as (x & Hst & ->).
  apply guesses_ok_aligned; [rewrite Hst; discriminate | | exact Hal].
  rewrite Hst. constructor; [exact He|]. constructor; [exact He|constructor].
Qed.

(* ================================================================================================ *)
(* Examples *)
From DX Require RoundTripSeqExample.
Module SE := RoundTripSeqExample.

(* the 14-call list of props/C01_sequence.v (three changes, six encodings, own and inherited, indentation,
   declared and guessed line endings): all hypotheses of C06_canonical hold *)
Example ex_indent_explicit : Forall indent_explicit SE.ex_cs.
Proof. unfold SE.ex_cs. repeat (constructor; [exact I|]). constructor. Qed.

Example ex_C06_canonical :
  exists t', dom_read SE.ex_orc (w_out (snd (run_calls SE.ex_s0 SE.ex_cs))) = Ok t' /\
             dom_write t' = Ok (w_out (snd (run_calls SE.ex_s0 SE.ex_cs))) /\ normalise t' = t' /\
             (forall b', dom_write t' = Ok b' -> dom_read SE.ex_orc b' = Ok t') /\
             exists t0, tree_calls t0 = Ok SE.ex_cs /\ t' = normalise t0.
Proof.
  exact (C06_canonical SE.ex_enc0 SE.ex_ver SE.ex_s0 SE.ex_cs SE.ex_orc SE.ex_init SE.ex_enc0_ok SE.ex_good
           ex_indent_explicit SE.ex_accepted SE.ex_metas_oracle SE.ex_guesses SE.ex_oracle SE.ex_size).
Qed.

(* the restriction on indent is needed: write_preamble(indent=None) writes the text unindented and no indent
   option; the object model re-serialises the parsed preamble with its default indent 4 *)
Definition ex_none_cs : list call := [WritePreamble (WStr (SE.T "a")) WNone (Some WNone) WNone WNone].
Definition ex_none_bytes : bytes := w_out (snd (run_calls SE.ex_s0 ex_none_cs)).
Example canonical_indent_none_refuted :
  Forall call_good ex_none_cs /\ accepted SE.ex_s0 ex_none_cs /\ ~ Forall indent_explicit ex_none_cs /\
  ex_none_bytes = B "#diffx: encoding=utf-8, version=1.0" ++ [x0a] ++
                  B "#.preamble: length=2, line_endings=unix" ++ [x0a] ++ B "a" ++ [x0a] /\
  exists t' b', dom_read [] ex_none_bytes = Ok t' /\ dom_write t' = Ok b' /\
                b' = B "#diffx: encoding=utf-8, version=1.0" ++ [x0a] ++
                     B "#.preamble: indent=4, length=6, line_endings=unix" ++ [x0a] ++ B "    a" ++ [x0a] /\
                b' <> ex_none_bytes.
Proof.
  split; [repeat constructor|]. split; [unfold accepted; vm_compute; repeat constructor|].
  split; [intro H; inversion H as [|? ? H1 _]; exact H1|]. split; [vm_compute; reflexivity|].
  eexists. eexists. split; [vm_compute; reflexivity|]. split; [vm_compute; reflexivity|].
  split; [vm_compute; reflexivity|]. vm_compute. discriminate.
Qed.
