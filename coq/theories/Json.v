(* Json.v — JSON values as pydiffx sees them, and the writer's canonical dump
   json.dumps(v, indent=4, separators=(',', ': '), sort_keys=True)  (ensure_ascii default).
   json.loads is NOT modelled: it is a per-case oracle (see Reader.v). *)
From Coq Require Import List Arith NArith ZArith Bool Strings.Byte.
From Coq Require Strings.String.
From DX Require Import Bytes Res.
Import ListNotations.
Import String.StringSyntax.
Local Open Scope string_scope.
Local Open Scope list_scope.

Inductive json :=
| JNull
| JBool (b : bool)
| JInt (z : Z)
| JFloat (repr : bytes)            (* float.__repr__, opaque *)
| JStr (s : text)
| JList (l : list json)
| JObj (kv : list (text * json))   (* str keys only *)
| JBad.                            (* a value json.dumps rejects with TypeError *)

Definition hex_digit (n : N) : byte := if N.ltb n 10 then n_byte (48 + n) else n_byte (87 + n).
Definition u_escape (c : N) : bytes :=
  B "\u" ++ [hex_digit (N.div c 4096 mod 16); hex_digit (N.div c 256 mod 16); hex_digit (N.div c 16 mod 16); hex_digit (c mod 16)]%N.

(* py_encode_basestring_ascii on one code point *)
Definition esc_cp (c : N) : bytes :=
  if N.eqb c 34 then B "\"""
  else if N.eqb c 92 then B "\\"
  else if N.eqb c 10 then B "\n"
  else if N.eqb c 13 then B "\r"
  else if N.eqb c 9 then B "\t"
  else if N.eqb c 8 then B "\b"
  else if N.eqb c 12 then B "\f"
  else if (N.leb 32 c) && (N.leb c 126) then [n_byte c]
  else if N.ltb c 65536 then u_escape c
  else let v := (c - 65536)%N in u_escape (55296 + N.div v 1024)%N ++ u_escape (56320 + v mod 1024)%N.

Definition dump_str (s : text) : bytes := B """" ++ flat_map esc_cp s ++ B """".

Definition nl_indent (lvl : nat) : bytes := [x0a] ++ repeat_b x20 (4 * lvl).

Definition sort_kb (kv : list (text * bytes)) : list (text * bytes) :=
  isort (fun a b => text_leb (fst a) (fst b)) kv.

Fixpoint join_items (sep : bytes) (l : list bytes) : bytes :=
  match l with
  | [] => []
  | [x] => x
  | x :: t => x ++ sep ++ join_items sep t
  end.

Fixpoint dump (lvl : nat) (j : json) : res bytes :=
  match j with
  | JNull => Ok (B "null")
  | JBool true => Ok (B "true")
  | JBool false => Ok (B "false")
  | JInt z => Ok (Z_to_dec z)
  | JFloat r => Ok r
  | JStr s => Ok (dump_str s)
  | JBad => Err EType
  | JList [] => Ok (B "[]")
  | JList l =>
      let fix items (l : list json) : res (list bytes) :=
        match l with
        | [] => Ok []
        | x :: t => do a <- dump (S lvl) x; do b <- items t; Ok (a :: b)
        end in
      do body <- items l;
      Ok (B "[" ++ nl_indent (S lvl) ++ join_items (B "," ++ nl_indent (S lvl)) body ++ nl_indent lvl ++ B "]")
  | JObj [] => Ok (B "{}")
  | JObj kv =>
      let fix items (l : list (text * json)) : res (list (text * bytes)) :=
        match l with
        | [] => Ok []
        | (k, v) :: t => do a <- dump (S lvl) v; do b <- items t; Ok ((k, a) :: b)
        end in
      do body <- items kv;
      Ok (B "{" ++ nl_indent (S lvl)
            ++ join_items (B "," ++ nl_indent (S lvl)) (map (fun p => dump_str (fst p) ++ B ": " ++ snd p) (sort_kb body))
            ++ nl_indent lvl ++ B "}")
  end.

Definition json_dump (j : json) : res bytes := dump 0 j.
