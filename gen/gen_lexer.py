"""Lexer rule table: re-emits the *processed* token table of pydiffx's pygments lexer
(`DiffXLexer._tokens`, built by pygments' metaclass: includes expanded, regexes compiled with the class flags)
as the Coq value `GenLexer.rules`, in the datatypes of theories/Lexer.v.

Fail closed: every regex construct, flag, action object or state transition that is not recognised exactly
raises TranslateError through `need`.  What is recognised:

  regex      LITERAL, NOT_LITERAL, ANY, IN (LITERAL / RANGE / CATEGORY / NEGATE), BRANCH, SUBPATTERN (capturing or
             not, without inline flags), MAX_REPEAT / MIN_REPEAT whose body cannot match the empty string,
             ASSERT (positive lookahead), AT_BEGINNING under MULTILINE, AT_END_STRING; flags within
             DOTALL | MULTILINE | UNICODE.  Categories are expanded to code point ranges by asking the running `re`.
  action     a token type; pygments' own `bygroups` closure whose args are token types, None or `using` closures;
             pygments' own `using` closures (`this` with a state stack, or another lexer class without options).
  new state  None, the ints produced by '#pop', '#push', tuples of state names.
"""
import importlib
import re


def gen_lexer(write_if_changed, coq_bytes, coq_str, coq_list, need):
    import re._parser as P
    import re._constants as C
    import pygments.lexer as PL
    from pygments.token import _TokenType

    mod = importlib.import_module('pydiffx.integrations.pygments_lexer')
    cls = getattr(mod, 'DiffXLexer', None)
    need(isinstance(cls, type) and issubclass(cls, PL.RegexLexer), 'DiffXLexer is not a RegexLexer')
    need(not issubclass(cls, PL.ExtendedRegexLexer), 'DiffXLexer is an ExtendedRegexLexer')
    # the engine that Lexer.v models must be the one that runs
    need(cls.get_tokens_unprocessed is PL.RegexLexer.get_tokens_unprocessed,
         'DiffXLexer overrides get_tokens_unprocessed')
    lx = cls()
    need(lx.options == {}, 'DiffXLexer() has default options %r' % (lx.options,))
    toks = cls._tokens
    need(isinstance(toks, dict) and toks, 'DiffXLexer._tokens is not a non-empty dict')

    # code objects of pygments' own callbacks: closures are recognised by identity of their code
    code_bygroups = PL.bygroups().__code__
    code_using_this = PL.using(PL.this).__code__
    code_using_other = PL.using(PL.Lexer).__code__
    need(len({id(code_bygroups), id(code_using_this), id(code_using_other)}) == 3, 'pygments callbacks not distinct')

    _coq_str, _coq_bytes = coq_str, coq_bytes
    coq_str = lambda x: '(' + _coq_str(x) + ')'
    coq_bytes = lambda x: '(' + _coq_bytes(x) + ')'

    def N(n):
        need(isinstance(n, int) and not isinstance(n, bool) and 0 <= n <= 0x10ffff, 'bad code point %r' % (n,))
        return '%d%%N' % n

    def nat(n):
        need(isinstance(n, int) and not isinstance(n, bool) and 0 <= n < 100000, 'bad count %r' % (n,))
        return '%d' % n

    # ------------------------------------------------------------ regex
    # internal AST: ('empty',) ('lit',c) ('class',neg,[(lo,hi)]) ('any',) ('seq',a,b) ('alt',a,b)
    #               ('rep',greedy,lo,hi|None,a) ('group',n,a) ('look',a) ('bol',) ('endz',)
    cat_cache = {}
    CAT_ESC = {C.CATEGORY_DIGIT: r'\d', C.CATEGORY_NOT_DIGIT: r'\D', C.CATEGORY_SPACE: r'\s',
               C.CATEGORY_NOT_SPACE: r'\S', C.CATEGORY_WORD: r'\w', C.CATEGORY_NOT_WORD: r'\W'}

    def category_ranges(cat):
        need(cat in CAT_ESC, 'unrecognised regex category %r' % (cat,))
        if cat not in cat_cache:
            m = re.compile(CAT_ESC[cat], re.UNICODE).match
            out = []
            start = None
            for cp in range(0x110000):
                if m(chr(cp)):
                    if start is None:
                        start = cp
                elif start is not None:
                    out.append((start, cp - 1))
                    start = None
            if start is not None:
                out.append((start, 0x10ffff))
            cat_cache[cat] = out
        return cat_cache[cat]

    def nullable(a):
        k = a[0]
        if k in ('empty', 'look', 'bol', 'endz'):
            return True
        if k in ('lit', 'class', 'any'):
            return False
        if k == 'seq':
            return nullable(a[1]) and nullable(a[2])
        if k == 'alt':
            return nullable(a[1]) or nullable(a[2])
        if k == 'rep':
            return a[2] == 0 or nullable(a[4])
        if k == 'group':
            return nullable(a[2])
        need(False, 'nullable: %r' % (k,))

    def tr_pattern(pat):
        need(isinstance(pat, re.Pattern) and isinstance(pat.pattern, str), 'rule regex is not a compiled str pattern')
        allowed = re.DOTALL | re.MULTILINE | re.UNICODE
        need(pat.flags & ~allowed == 0 and pat.flags & re.UNICODE, 'unrecognised regex flags %r' % (pat.flags,))
        dotall = bool(pat.flags & re.DOTALL)
        multiline = bool(pat.flags & re.MULTILINE)
        tree = P.parse(pat.pattern, pat.flags)
        need(tree.state.flags == pat.flags, 'inline flags change the pattern flags in %r' % (pat.pattern,))
        seen_groups = []

        def seq(items):
            items = [tr_item(op, av) for (op, av) in items]
            if not items:
                return ('empty',)
            out = items[-1]
            for it in reversed(items[:-1]):
                out = ('seq', it, out)
            return out

        def tr_item(op, av):
            if op is C.LITERAL:
                return ('lit', av)
            if op is C.NOT_LITERAL:
                return ('class', True, [(av, av)])
            if op is C.ANY:
                need(av is None, 'ANY with argument')
                return ('any',) if dotall else ('class', True, [(10, 10)])
            if op is C.IN:
                neg = False
                ranges = []
                for i, (o2, a2) in enumerate(av):
                    if o2 is C.NEGATE:
                        need(i == 0, 'NEGATE not first in a class')
                        neg = True
                    elif o2 is C.LITERAL:
                        ranges.append((a2, a2))
                    elif o2 is C.RANGE:
                        need(isinstance(a2, tuple) and len(a2) == 2, 'bad RANGE')
                        ranges.append((a2[0], a2[1]))
                    elif o2 is C.CATEGORY:
                        ranges.extend(category_ranges(a2))
                    else:
                        need(False, 'unrecognised class item %r in %r' % (o2, pat.pattern))
                return ('class', neg, ranges)
            if op is C.BRANCH:
                need(isinstance(av, tuple) and len(av) == 2 and av[0] is None and len(av[1]) >= 1, 'bad BRANCH')
                alts = [seq(x) for x in av[1]]
                out = alts[-1]
                for it in reversed(alts[:-1]):
                    out = ('alt', it, out)
                return out
            if op is C.SUBPATTERN:
                need(isinstance(av, tuple) and len(av) == 4, 'bad SUBPATTERN')
                group, add_flags, del_flags, p = av
                need(add_flags == 0 and del_flags == 0, 'inline flags in %r' % (pat.pattern,))
                if group is None:
                    return seq(p)
                need(isinstance(group, int) and group >= 1, 'bad group number')
                seen_groups.append(group)
                return ('group', group, seq(p))
            if op is C.MAX_REPEAT or op is C.MIN_REPEAT:
                need(isinstance(av, tuple) and len(av) == 3, 'bad REPEAT')
                lo, hi, p = av
                body = seq(p)
                need(not nullable(body),
                     'repetition of a body that can match the empty string in %r (not modelled)' % (pat.pattern,))
                need(isinstance(lo, int) and isinstance(hi, int) and 0 <= lo <= hi, 'bad REPEAT bounds')
                return ('rep', op is C.MAX_REPEAT, lo, None if hi == C.MAXREPEAT else hi, body)
            if op is C.ASSERT:
                need(isinstance(av, tuple) and len(av) == 2 and av[0] == 1,
                     'unrecognised assertion (lookbehind) in %r' % (pat.pattern,))
                return ('look', seq(av[1]))
            if op is C.AT:
                if av is C.AT_BEGINNING and multiline:
                    return ('bol',)
                if av is C.AT_END_STRING:
                    return ('endz',)
                need(False, 'unrecognised anchor %r in %r' % (av, pat.pattern))
            need(False, 'unrecognised regex construct %r in %r' % (op, pat.pattern))

        ast = seq(tree)
        # Python numbers the groups 1..n in order of their opening parenthesis
        need(seen_groups == list(range(1, pat.groups + 1)), 'group numbering of %r' % (pat.pattern,))
        return ast

    def emit_re(a):
        k = a[0]
        if k == 'empty':
            return 'REmpty'
        if k == 'lit':
            return '(RLit %s)' % N(a[1])
        if k == 'class':
            return '(RClass %s [%s])' % ('true' if a[1] else 'false',
                                         '; '.join('(%s, %s)' % (N(lo), N(hi)) for lo, hi in a[2]))
        if k == 'any':
            return 'RAny'
        if k == 'seq':
            return '(RSeq %s %s)' % (emit_re(a[1]), emit_re(a[2]))
        if k == 'alt':
            return '(RAlt %s %s)' % (emit_re(a[1]), emit_re(a[2]))
        if k == 'rep':
            return '(RRepeat %s %s %s %s)' % ('true' if a[1] else 'false', nat(a[2]),
                                              'None' if a[3] is None else '(Some %s)' % nat(a[3]), emit_re(a[4]))
        if k == 'group':
            return '(RGroup %s %s)' % (nat(a[1]), emit_re(a[2]))
        if k == 'look':
            return '(RLook %s)' % emit_re(a[1])
        if k == 'bol':
            return 'RBol'
        if k == 'endz':
            return 'REndZ'
        need(False, 'emit: %r' % (k,))

    # ------------------------------------------------------------ actions
    def closure_of(f, code, names):
        need(f.__code__ is code, 'callback is not the expected pygments closure')
        need(tuple(f.__code__.co_freevars) == names and f.__closure__ is not None
             and len(f.__closure__) == len(names), 'closure shape of %r' % (f,))
        need(not f.__defaults__ or f.__defaults__ == (None,), 'callback defaults')
        return dict(zip(names, [c.cell_contents for c in f.__closure__]))

    def state_names(t, what):
        need(isinstance(t, (tuple, list)) and len(t) >= 1 and all(isinstance(s, str) for s in t), what)
        return '[' + '; '.join(coq_str(s) for s in t) + ']'

    def tr_using(f):
        code = getattr(f, '__code__', None)
        if code is code_using_this:
            env = closure_of(f, code_using_this, ('gt_kwargs', 'kwargs'))
            need(env['kwargs'] == {}, 'using(this, ...) with lexer options %r' % (env['kwargs'],))
            gt = env['gt_kwargs']
            need(isinstance(gt, dict) and set(gt) <= {'stack'}, 'using(this): gt_kwargs %r' % (gt,))
            stack = gt.get('stack', ('root',))
            for s in stack:
                need(s in toks, 'using(this): state %r is not defined' % (s,))
            return '(UThis %s)' % state_names(stack, 'using(this): stack %r' % (stack,))
        if code is code_using_other:
            env = closure_of(f, code_using_other, ('_other', 'gt_kwargs', 'kwargs'))
            need(env['kwargs'] == {} and env['gt_kwargs'] == {},
                 'using(OtherLexer) with options or a state: %r %r' % (env['kwargs'], env['gt_kwargs']))
            other = env['_other']
            need(isinstance(other, type) and issubclass(other, PL.Lexer) and other is not cls,
                 'using(%r): not another lexer class' % (other,))
            return '(UOther %s)' % coq_str(other.__name__)
        need(False, 'unrecognised using-like callback %r' % (f,))

    def tok_name(t):
        need(type(t) is _TokenType, 'not a token type: %r' % (t,))
        s = str(t)
        need(s == 'Token' or s.startswith('Token.'), 'token type name %r' % (s,))
        return coq_str(s)

    def tr_action(act):
        if type(act) is _TokenType:
            return '(ATok %s)' % tok_name(act)
        code = getattr(act, '__code__', None)
        if code is code_bygroups:
            env = closure_of(act, code_bygroups, ('args',))
            args = env['args']
            need(isinstance(args, tuple), 'bygroups args')
            out = []
            for a in args:
                if a is None:
                    out.append('GNone')
                elif type(a) is _TokenType:
                    out.append('GTok %s' % tok_name(a))
                else:
                    out.append('GUsing %s' % tr_using(a))
            return '(AByGroups [%s])' % '; '.join(out)
        if code is code_using_this or code is code_using_other:
            return '(AUsing %s)' % tr_using(act)
        need(False, 'unrecognised rule action %r' % (act,))

    def tr_new(ns):
        if ns is None:
            return 'NsNone'
        if isinstance(ns, bool):
            need(False, 'bool new state')
        if isinstance(ns, int):
            need(ns < 0, 'non-negative int new state %r' % (ns,))
            return '(NsPop %s)' % nat(-ns)
        if ns == '#push':
            return 'NsPush'
        if isinstance(ns, tuple):
            for s in ns:
                need(isinstance(s, str) and (s in ('#pop', '#push') or s in toks), 'new state %r is not defined' % (s,))
            return '(NsStates %s)' % state_names(ns, 'new state %r' % (ns,))
        need(False, 'unrecognised new state %r' % (ns,))

    # ------------------------------------------------------------ table
    states = []
    sources = []
    nrules = 0
    for sname, rules in toks.items():
        need(isinstance(sname, str) and isinstance(rules, list), 'state %r' % (sname,))
        rows = []
        srcs = []
        for entry in rules:
            need(isinstance(entry, tuple) and len(entry) == 3, 'rule %r in state %r' % (entry, sname))
            rexmatch, act, new = entry
            pat = getattr(rexmatch, '__self__', None)
            need(isinstance(pat, re.Pattern) and getattr(rexmatch, '__name__', None) == 'match',
                 'rule matcher is not pattern.match in state %r' % (sname,))
            rows.append('{| r_re := %s;\n       r_act := %s;\n       r_new := %s |}'
                        % (emit_re(tr_pattern(pat)), tr_action(act), tr_new(new)))
            srcs.append(coq_bytes(pat.pattern.encode('utf-8')))
            nrules += 1
        states.append('(%s,\n    [%s])' % (coq_str(sname), ';\n     '.join(rows)))
        sources.append('(%s, [%s])' % (coq_str(sname), '; '.join(srcs)))
    need('root' in toks, "no 'root' state")
    need(nrules >= 1, 'empty rule table')

    out = ['From DX Require Import Lexer.',
           '(* DiffXLexer._tokens: state name -> ordered rules (regex syntax tree, action shape, new state) *)',
           'Definition rules : rule_table :=\n  [%s].' % ';\n   '.join(states),
           '(* the pattern texts, recorded only (UTF-8) *)',
           'Definition pattern_sources : list (bytes * list bytes) :=\n  %s.' % coq_list(sources),
           'Definition rule_count : nat := %d.' % nrules]
    return write_if_changed('GenLexer.v', '\n'.join(out) + '\n')
