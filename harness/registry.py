"""Which families and generated modules decide which property."""
import fam_text

_split = fam_text.Split()
_codec = fam_text.CodecFam()

FAMILIES = {f.name: f for f in [_split, _codec]}

PROPS = {
    'C16': dict(families=[_split], trusted_base=[
        'Python bytes.split/endswith/slicing behave as Bytes.split/suffixb/firstn (validated by the split family)']),
}
