(* ReaderSpecFacts.v — proofs for property C03: "the reader yields exactly what the spec says".
   About the reader model Reader.v (read_header, read_content, iter_step, iter_loop, read_all).

   Part 0  unfolding lemmas: one iteration of iter_sections on a content section, _read_content in stages.
   Part A  the defect catalogue (unsupported / missing version, missing length, format other than json,
           unknown line_endings, content not ending in its newline, invalid JSON): each is a DiffXParseError
           raised by the iteration that read the offending header, nothing is yielded by that iteration, the
           records yielded before are kept, and the error line is the header's line or the line after it.
   Part B  the positive direction for one section: container sections, content sections, blank lines.
   Part C  CRLF header lines. *)
From Coq Require Import List Arith NArith ZArith Bool Strings.Byte Lia ZifyBool.
From Coq Require Strings.String.
From DX Require Import Bytes Res Codec Text Sections Header Stream Json Reader SectionsSpec StreamFacts SectionsFacts.
From DXGen Require GenSections GenText.
Import ListNotations.
Import String.StringSyntax.
Local Open Scope string_scope.
Local Open Scope list_scope.

(* ================================================================================================= *)
(* Part 0: unfolding lemmas                                                                           *)
(* ================================================================================================= *)

(* ---- _read_header: line numbers ---- *)
Lemma read_header_lines : forall chunk valid st level name id opts line st1,
  read_header chunk valid st = HdrOk level name id opts line st1 ->
  line = st_linenum st /\ st_linenum st1 = (line + 1)%Z.
Proof.
  intros chunk valid st level name id opts line st1 H. apply read_header_ok_inv in H.
  destruct H as (h & s1 & fnl & _ & _ & -> & ->). split; reflexivity.
Qed.

Lemma read_header_parse_line : forall chunk valid st l c,
  read_header chunk valid st = HdrParse l c -> l = st_linenum st.
Proof.
  intros chunk valid st l c H. unfold read_header in H.
  destruct (next_nonblank _ chunk (st_stream st)) as [[[hd|] s1]|e]; try discriminate H.
  destruct (negb (bends _ hd)); [injection H as <- _; reflexivity|].
  destruct (parse_header valid _); [discriminate H|]. injection H as <- _. reflexivity.
Qed.

(* ---- table facts, by computation over the generated lists ---- *)
Lemma in_ids_forallb : forall (f : bytes -> bool) id l, in_ids id l = true -> forallb f l = true -> f id = true.
Proof. intros f id l Hin Hall. apply in_ids_In in Hin. rewrite forallb_forall in Hall. apply Hall. exact Hin. Qed.

Inductive ckind := KPreamble | KMeta | KDiff.

Definition kind_of (id : bytes) : option ckind :=
  if is_preamble id then Some KPreamble
  else if is_meta id then Some KMeta
  else if beq id GenSections.sec_file_diff then Some KDiff
  else None.

Definition is_some_kind (id : bytes) : bool := match kind_of id with Some _ => true | None => false end.

Lemma content_kinds : forallb is_some_kind GenSections.content_sections = true.
Proof. vm_compute. reflexivity. Qed.

Lemma content_kind : forall id, is_content id = true -> exists k, kind_of id = Some k.
Proof.
  intros id H. pose proof (in_ids_forallb is_some_kind id _ H content_kinds) as Hk.
  unfold is_some_kind in Hk. destruct (kind_of id) as [k|]; [exists k; reflexivity|discriminate Hk].
Qed.

Lemma meta_sections_class :
  forallb (fun id => is_content id && negb (is_preamble id)) GenSections.meta_sections = true.
Proof. vm_compute. reflexivity. Qed.

Lemma preamble_sections_class : forallb is_content GenSections.preamble_sections = true.
Proof. vm_compute. reflexivity. Qed.

Lemma meta_kind : forall id, is_meta id = true -> is_content id = true /\ kind_of id = Some KMeta.
Proof.
  intros id H. pose proof (in_ids_forallb _ id _ H meta_sections_class) as Hc. cbv beta in Hc.
  apply andb_true_iff in Hc. destruct Hc as [Hc Hp]. apply negb_true_iff in Hp.
  split; [exact Hc|]. unfold kind_of. rewrite Hp, H. reflexivity.
Qed.

Lemma preamble_kind : forall id, is_preamble id = true -> is_content id = true /\ kind_of id = Some KPreamble.
Proof.
  intros id H. split; [exact (in_ids_forallb _ id _ H preamble_sections_class)|].
  unfold kind_of. rewrite H. reflexivity.
Qed.

Lemma diff_kind : is_content GenSections.sec_file_diff = true /\ kind_of GenSections.sec_file_diff = Some KDiff.
Proof. vm_compute. split; reflexivity. Qed.

Lemma main_not_content : is_content GenSections.sec_main = false.
Proof. vm_compute. reflexivity. Qed.

(* ---- one iteration of iter_sections on a content section ---- *)

(* options.get('encoding', encodings[-1]) *)
Definition eff_encoding (opts : options) (inh : option pv) : option pv :=
  match opt_get "encoding" opts with Some v => Some v | None => inh end.

(* options.get('format', 'json') == 'json' *)
Definition fmt_ok (opts : options) : bool :=
  match opt_get "format" opts with
  | None => true
  | Some (VStr s) => beq s (B "json")
  | Some (VInt _) => false
  end.

(* the call of _read_content each kind of content section makes *)
Definition content_call (k : ckind) (st1 : rstate) (len : Z) (opts : options) (inh : option pv) : content_result :=
  match k with
  | KPreamble => read_content st1 len (eff_encoding opts inh) (opt_get "indent" opts) (opt_get "line_endings" opts) false
  | KMeta => read_content st1 len (eff_encoding opts inh) None (opt_get "line_endings" opts) false
  | KDiff => read_content st1 len (opt_get "encoding" opts) None (opt_get "line_endings" opts) true
  end.

Definition yield (level : nat) (line : Z) (opts : options) (id name : bytes)
           (st2 : rstate) (p : payload) (encs : list (option pv)) (prev : nat) : step_result :=
  match table_get id with
  | None => SExc EKey
  | Some nxt =>
      SYield {| r_level := level; r_line := line; r_opts := opts; r_id := id; r_type := name; r_payload := p |}
             st2 nxt encs prev
  end.

(* the key under which the harness recorded json.loads' answer *)
Definition oracle_key (p : payload) : bytes :=
  match p with PText t => oracle_key_text t | PBytes b => oracle_key_bytes b | _ => [] end.

Definition finish_content (orc : oracle) (k : ckind) (level : nat) (line : Z) (opts : options) (id name : bytes)
           (encs : list (option pv)) (prev : nat) (p : payload) (st2 : rstate) : step_result :=
  match k with
  | KMeta =>
      match assoc_get beq (oracle_key p) orc with
      | None => SExc EOracleMiss
      | Some (LoadsOk j) => yield level line opts id name st2 (PMeta j) encs prev
      | Some LoadsValueError => SParse line None
      | Some LoadsRecursion => SParse line None
      end
  | _ => yield level line opts id name st2 p encs prev
  end.

Lemma iter_step_content : forall orc chunk st valid encs prev level name id opts line st1 k inh len,
  read_header chunk valid st = HdrOk level name id opts line st1 ->
  is_content id = true -> kind_of id = Some k ->
  top encs = Some inh ->
  opt_get "length" opts = Some (VInt len) -> (0 <= len)%Z ->
  (k = KMeta -> fmt_ok opts = true) ->
  iter_step orc chunk st valid encs prev =
  match content_call k st1 len opts inh with
  | COk p st2 => finish_content orc k level line opts id name encs prev p st2
  | CParse l => SParse l None
  | CExc e => SExc e
  end.
Proof.
  intros orc chunk st valid encs prev level name id opts line st1 k inh len Hh Hc Hk Ht Hl Hn Hf.
  unfold iter_step. rewrite Hh. cbv beta zeta. rewrite Hc, Ht, Hl.
  destruct (len <? 0)%Z eqn:E; [lia|]. unfold kind_of in Hk.
  destruct (is_preamble id).
  - injection Hk as <-. reflexivity.
  - destruct (is_meta id).
    + injection Hk as <-. specialize (Hf eq_refl). unfold fmt_ok in Hf. rewrite Hf. cbn [negb].
      cbn [content_call]. unfold eff_encoding.
      destruct (read_content _ _ _ _ _ _) as [p st2| |]; reflexivity.
    + destruct (beq id GenSections.sec_file_diff); [|discriminate Hk].
      injection Hk as <-. reflexivity.
Qed.

(* a yielded record carries exactly the fields of the header that was read *)
Lemma iter_step_yield_record : forall orc chunk st valid encs prev level name id opts line st1 r st' valid' encs' prev',
  read_header chunk valid st = HdrOk level name id opts line st1 ->
  iter_step orc chunk st valid encs prev = SYield r st' valid' encs' prev' ->
  r = {| r_level := level; r_line := line; r_opts := opts; r_id := id; r_type := name; r_payload := r_payload r |}.
Proof.
  intros orc chunk st valid encs prev level name id opts line st1 r st' valid' encs' prev' Hh. unfold iter_step.
  rewrite Hh. cbv beta zeta.
  repeat match goal with
         | |- (match ?x with _ => _ end) = _ -> _ => destruct x eqn:?
         end;
    try discriminate;
    intro H; injection H as <- _ _ _ _; reflexivity.
Qed.

(* ---- _read_content in stages ---- *)

(* the bytes fp.read(length) returns: min(length, sys.maxsize, available) bytes from the current position *)
Definition content_len (st : rstate) (len : Z) : nat :=
  Z.to_nat (Z.min (Z.min len sys_maxsize) (Z.of_nat (List.length (remaining (st_stream st))))).
Definition content_bytes (st : rstate) (len : Z) : bytes := firstn (content_len st len) (remaining (st_stream st)).
Definition stream_after (st : rstate) (len : Z) : stream :=
  {| s_data := s_data (st_stream st); s_pos := s_pos (st_stream st) + List.length (content_bytes st len) |}.

Definition enc_name (encoding : option pv) : option bytes :=
  match encoding with Some (VStr s) => Some s | _ => None end.
Definition indent_bad (indent : option pv) : bool :=
  match indent with None => false | Some (VStr _) => true | Some (VInt z) => (z <? 0)%Z end.

(* the newline the content is split on: the declared one, else detected on the first line *)
Definition nl_res_of (line_endings : option pv) (enc : option bytes) (content : bytes) : res bytes :=
  if pv_given line_endings then
    match line_endings with
    | Some (VStr le) => get_newline_for_type le enc
    | _ => Err EValue
    end
  else do p <- guess_line_endings_bytes content enc; Ok (snd p).

(* indentation stripped line by line, before decoding *)
Definition strip_indent (indent : option pv) (content : bytes) (lines : list bytes) : bytes :=
  match indent with
  | Some (VInt z) =>
      if (0 <? z)%Z
      then concat (map (strip_spaces (Z.to_nat (Z.min z (Z.of_nat (List.length content))))) lines)
      else content
  | _ => content
  end.

Definition state_after (st : rstate) (s1 : stream) (nlines : nat) : rstate :=
  {| st_stream := s1; st_linenum := (st_linenum st + Z.of_nat nlines)%Z; st_fnl := st_fnl st |}.

Definition finish (st : rstate) (s1 : stream) (nlines : nat) (p : payload) (ends : bool) : content_result :=
  if ends then COk p (state_after st s1 nlines) else CParse (st_linenum st).

(* decoding and the final "content ends with its newline" check *)
Definition decode_check (st : rstate) (s1 : stream) (nlines : nat) (enc : option bytes) (keep_bytes : bool)
           (newline content1 : bytes) : content_result :=
  match enc, keep_bytes with
  | Some e, false =>
      match py_decode content1 e with
      | Err ex => if caught_as_parse ex then CParse (st_linenum st) else CExc ex
      | Ok t =>
          match py_decode newline e with
          | Err ex => if caught_as_parse ex then CParse (st_linenum st) else CExc ex
          | Ok nlt => finish st s1 nlines (PText t) (suffixb N.eqb nlt t)
          end
      end
  | _, _ => finish st s1 nlines (PBytes content1) (bends newline content1)
  end.

Lemma read_content_eq : forall st len encoding indent line_endings keep,
  read_content st len encoding indent line_endings keep =
  let content := content_bytes st len in
  let ln := st_linenum st in
  if is_nil content then CParse (ln - 1)%Z else
  match encoding with
  | Some (VInt _) => CParse (ln - 1)%Z
  | _ =>
    if indent_bad indent then CParse (ln - 1)%Z else
    match nl_res_of line_endings (enc_name encoding) content with
    | Err e => if caught_as_parse e then CParse ln else CExc e
    | Ok newline =>
        match split_lines content newline true with
        | Err e => CExc e
        | Ok lines =>
            if negb (bends newline content) then CParse ln else
            decode_check st (stream_after st len) (List.length lines) (enc_name encoding) keep newline
                         (strip_indent indent content lines)
        end
    end
  end.
Proof. reflexivity. Qed.

(* ================================================================================================= *)
(* Part A: the defect catalogue                                                                       *)
(* ================================================================================================= *)

(* Conventions: the header of the offending section has been read by _read_header,
     read_header chunk valid st = HdrOk level name id opts line st1
   so that (read_header_lines) line = st_linenum st is the header's own line and st_linenum st1 = line + 1.
   For content sections the encoding stack must be non-empty, [top encs = Some inh]; this holds in every state
   the loop can be in (step_inv_top below, with SectionsFacts.reach_inv). *)

Lemma step_inv_top : forall valid encs prev, step_inv valid encs prev -> exists inh, top encs = Some inh.
Proof.
  intros valid encs prev [(_ & -> & _) | (a & _ & _ & Hl)]; [exists None; reflexivity|].
  destruct encs as [|x t]; [cbn in Hl; lia|exists x; reflexivity].
Qed.

(* ---- A.1 unsupported or missing version ---- *)
Definition version_ok (opts : options) : bool :=
  match opt_get "version" opts with
  | Some (VStr v) => in_ids v GenText.versions
  | _ => false
  end.

Lemma version_bad_cases : forall opts,
  version_ok opts = false <->
  (opt_get "version" opts = None \/
   (exists z, opt_get "version" opts = Some (VInt z)) \/
   (exists v, opt_get "version" opts = Some (VStr v) /\ in_ids v GenText.versions = false)).
Proof.
  intros opts. unfold version_ok. destruct (opt_get "version" opts) as [[z|v]|]; split; intro H.
  - right; left; eauto.
  - reflexivity.
  - right; right; eauto.
  - destruct H as [H|[(z & H)|(v' & H & Hv)]]; try discriminate H. injection H as <-. exact Hv.
  - left; reflexivity.
  - reflexivity.
Qed.

Theorem bad_version : forall orc chunk st valid encs prev level name opts line st1,
  read_header chunk valid st = HdrOk level name GenSections.sec_main opts line st1 ->
  version_ok opts = false ->
  iter_step orc chunk st valid encs prev = SParse line None.
Proof.
  intros orc chunk st valid encs prev level name opts line st1 Hh Hv.
  unfold iter_step. rewrite Hh. cbv beta zeta. rewrite main_not_content, beq_refl.
  unfold version_ok in Hv. rewrite Hv. reflexivity.
Qed.

(* ---- A.2 missing length ---- *)
Theorem missing_length : forall orc chunk st valid encs prev level name id opts line st1 inh,
  read_header chunk valid st = HdrOk level name id opts line st1 ->
  is_content id = true -> top encs = Some inh ->
  opt_get "length" opts = None ->
  iter_step orc chunk st valid encs prev = SParse line None.
Proof.
  intros orc chunk st valid encs prev level name id opts line st1 inh Hh Hc Ht Hl.
  unfold iter_step. rewrite Hh. cbv beta zeta. rewrite Hc, Ht, Hl. reflexivity.
Qed.

(* ---- A.3 format other than json (whatever the length option is) ---- *)
Lemma fmt_bad_cases : forall opts,
  fmt_ok opts = false <->
  ((exists s, opt_get "format" opts = Some (VStr s) /\ beq s (B "json") = false) \/
   (exists z, opt_get "format" opts = Some (VInt z))).
Proof.
  intros opts. unfold fmt_ok. destruct (opt_get "format" opts) as [[z|s]|]; split; intro H.
  - right; eauto.
  - reflexivity.
  - left; eauto.
  - destruct H as [(s' & H & Hs)|(z & H)]; [|discriminate H]. injection H as <-. exact Hs.
  - discriminate H.
  - destruct H as [(s' & H & _)|(z & H)]; discriminate H.
Qed.

Theorem format_not_json : forall orc chunk st valid encs prev level name id opts line st1 inh,
  read_header chunk valid st = HdrOk level name id opts line st1 ->
  is_meta id = true -> top encs = Some inh ->
  fmt_ok opts = false ->
  iter_step orc chunk st valid encs prev = SParse line None.
Proof.
  intros orc chunk st valid encs prev level name id opts line st1 inh Hh Hm Ht Hf.
  destruct (meta_kind id Hm) as [Hc Hk]. unfold kind_of in Hk.
  destruct (is_preamble id) eqn:Hp; [discriminate Hk|].
  unfold iter_step. rewrite Hh. cbv beta zeta. rewrite Hc, Ht.
  destruct (opt_get "length" opts) as [[len|s]|]; try reflexivity.
  destruct (len <? 0)%Z; [reflexivity|]. rewrite Hp, Hm.
  unfold fmt_ok in Hf. rewrite Hf. reflexivity.
Qed.

(* ---- lifting an error of _read_content to the iteration ---- *)
Lemma iter_step_content_parse : forall orc chunk st valid encs prev level name id opts line st1 k inh len l,
  read_header chunk valid st = HdrOk level name id opts line st1 ->
  is_content id = true -> kind_of id = Some k ->
  top encs = Some inh ->
  opt_get "length" opts = Some (VInt len) -> (0 <= len)%Z ->
  (k = KMeta -> fmt_ok opts = true) ->
  content_call k st1 len opts inh = CParse l ->
  iter_step orc chunk st valid encs prev = SParse l None.
Proof.
  intros orc chunk st valid encs prev level name id opts line st1 k inh len l Hh Hc Hk Ht Hl Hn Hf Hcc.
  rewrite (iter_step_content _ _ _ _ _ _ _ _ _ _ _ _ _ _ _ Hh Hc Hk Ht Hl Hn Hf), Hcc. reflexivity.
Qed.

(* ---- A.4 unknown line_endings value ---- *)
Definition enc_valid (e : option pv) : Prop := match e with Some (VInt _) => False | _ => True end.
Definition indent_valid (i : option pv) : Prop := indent_bad i = false.
(* the option is present ([if line_endings is not None], pydiffx fix D19: until then the test was
   [if line_endings:], and a falsy value such as the integer 0 was treated as absent) and its value is not a key
   of NEWLINE_FORMATS: every integer value, every other name *)
Definition le_unknown (le : option pv) : Prop :=
  match le with
  | Some (VStr s) => assoc_get beq s GenText.newline_formats = None
  | Some (VInt z) => True
  | None => False
  end.

Lemma content_bytes_nonempty : forall st len,
  (0 < len)%Z -> remaining (st_stream st) <> [] -> is_nil (content_bytes st len) = false.
Proof.
  intros st len Hl Hr. unfold content_bytes, content_len.
  destruct (remaining (st_stream st)) as [|x r]; [congruence|]. cbn [List.length].
  set (n := Z.to_nat _). assert (n = S (n - 1)) as -> by (subst n; unfold sys_maxsize; lia). reflexivity.
Qed.

Lemma nl_res_unknown : forall le enc content, le_unknown le -> nl_res_of le enc content = Err EValue.
Proof.
  intros [[z|s]|] enc content H; cbn [le_unknown] in H; [| |contradiction]; unfold nl_res_of; cbn [pv_given].
  - reflexivity.
  - unfold get_newline_for_type. rewrite H. reflexivity.
Qed.

Lemma read_content_unknown_le : forall st len enc ind le keep,
  (0 < len)%Z -> remaining (st_stream st) <> [] ->
  enc_valid enc -> indent_valid ind -> le_unknown le ->
  read_content st len enc ind le keep = CParse (st_linenum st).
Proof.
  intros st len enc ind le keep Hl Hr He Hi Hle. rewrite read_content_eq. cbv zeta.
  rewrite (content_bytes_nonempty _ _ Hl Hr), Hi, (nl_res_unknown _ _ _ Hle).
  destruct enc as [[z|s]|]; [contradiction| |]; reflexivity.
Qed.

Definition indent_of (k : ckind) (opts : options) : option pv :=
  match k with KPreamble => opt_get "indent" opts | _ => None end.
Definition encoding_of (k : ckind) (opts : options) (inh : option pv) : option pv :=
  match k with KDiff => opt_get "encoding" opts | _ => eff_encoding opts inh end.
Definition keep_of (k : ckind) : bool := match k with KDiff => true | _ => false end.

Lemma content_call_eq : forall k st1 len opts inh,
  content_call k st1 len opts inh =
  read_content st1 len (encoding_of k opts inh) (indent_of k opts) (opt_get "line_endings" opts) (keep_of k).
Proof. intros [| |]; reflexivity. Qed.

Theorem unknown_line_endings : forall orc chunk st valid encs prev level name id opts line st1 k inh len,
  read_header chunk valid st = HdrOk level name id opts line st1 ->
  is_content id = true -> kind_of id = Some k ->
  top encs = Some inh ->
  opt_get "length" opts = Some (VInt len) -> (0 < len)%Z -> remaining (st_stream st1) <> [] ->
  (k = KMeta -> fmt_ok opts = true) ->
  enc_valid (encoding_of k opts inh) -> indent_valid (indent_of k opts) ->
  le_unknown (opt_get "line_endings" opts) ->
  iter_step orc chunk st valid encs prev = SParse (line + 1)%Z None.
Proof.
  intros orc chunk st valid encs prev level name id opts line st1 k inh len Hh Hc Hk Ht Hl Hn Hr Hf He Hi Hle.
  destruct (read_header_lines _ _ _ _ _ _ _ _ _ Hh) as [_ <-].
  eapply iter_step_content_parse; eauto; [lia|].
  rewrite content_call_eq. apply read_content_unknown_le; assumption.
Qed.

(* ---- A.5 content not ending in its newline ---- *)

(* the final check of _read_content, bytes case (diffs; preambles and metadata with no encoding in force) *)
Theorem no_final_newline_bytes : forall st len enc ind le keep newline lines,
  is_nil (content_bytes st len) = false -> enc_valid enc -> indent_valid ind ->
  nl_res_of le (enc_name enc) (content_bytes st len) = Ok newline ->
  split_lines (content_bytes st len) newline true = Ok lines ->
  enc_name enc = None \/ keep = true ->
  bends newline (strip_indent ind (content_bytes st len) lines) = false ->
  read_content st len enc ind le keep = CParse (st_linenum st).
Proof.
  intros st len enc ind le keep newline lines Hc He Hi Hnl Hsl Hk Hends. rewrite read_content_eq. cbv zeta.
  rewrite Hc, Hi, Hnl, Hsl. unfold decode_check, finish.
  destruct (negb (bends newline (content_bytes st len))); [destruct enc as [[z|s]|]; [contradiction| |]; reflexivity|].
  destruct enc as [[z|s]|]; [contradiction| |].
  - destruct Hk as [Hk| ->]; [discriminate Hk|]. cbn [enc_name]. rewrite Hends. reflexivity.
  - cbn [enc_name]. rewrite Hends. reflexivity.
Qed.

(* ... text case: content and newline are decoded first, and the decoded content must end with the decoded newline *)
Theorem no_final_newline_text : forall st len e ind le newline lines t nlt,
  is_nil (content_bytes st len) = false -> indent_valid ind ->
  nl_res_of le (Some e) (content_bytes st len) = Ok newline ->
  split_lines (content_bytes st len) newline true = Ok lines ->
  py_decode (strip_indent ind (content_bytes st len) lines) e = Ok t ->
  py_decode newline e = Ok nlt ->
  suffixb N.eqb nlt t = false ->
  read_content st len (Some (VStr e)) ind le false = CParse (st_linenum st).
Proof.
  intros st len e ind le newline lines t nlt Hc Hi Hnl Hsl Hd1 Hd2 Hends. rewrite read_content_eq. cbv zeta.
  cbn [enc_name]. rewrite Hc, Hi, Hnl, Hsl. unfold decode_check, finish. rewrite Hd1, Hd2, Hends.
  destruct (negb _); reflexivity.
Qed.

(* ... raw case: the bytes read must themselves end with the newline, whatever indentation stripping and decoding
   would make of them (e.g. "a\n  " with indent=2 is rejected although the stripped content "a\n" ends with "\n") *)
Theorem no_final_newline_raw : forall st len enc ind le keep newline lines,
  is_nil (content_bytes st len) = false -> enc_valid enc -> indent_valid ind ->
  nl_res_of le (enc_name enc) (content_bytes st len) = Ok newline ->
  split_lines (content_bytes st len) newline true = Ok lines ->
  bends newline (content_bytes st len) = false ->
  read_content st len enc ind le keep = CParse (st_linenum st).
Proof.
  intros st len enc ind le keep newline lines Hc He Hi Hnl Hsl Hends. rewrite read_content_eq. cbv zeta.
  rewrite Hc, Hi, Hnl, Hsl, Hends. destruct enc as [[z|s]|]; [contradiction| |]; reflexivity.
Qed.

(* lifted to the iteration: the error is on the line after the header *)
Theorem no_final_newline_step : forall orc chunk st valid encs prev level name id opts line st1 k inh len,
  read_header chunk valid st = HdrOk level name id opts line st1 ->
  is_content id = true -> kind_of id = Some k ->
  top encs = Some inh ->
  opt_get "length" opts = Some (VInt len) -> (0 <= len)%Z ->
  (k = KMeta -> fmt_ok opts = true) ->
  content_call k st1 len opts inh = CParse (st_linenum st1) ->
  iter_step orc chunk st valid encs prev = SParse (line + 1)%Z None.
Proof.
  intros orc chunk st valid encs prev level name id opts line st1 k inh len Hh Hc Hk Ht Hl Hn Hf Hcc.
  destruct (read_header_lines _ _ _ _ _ _ _ _ _ Hh) as [_ <-].
  eapply iter_step_content_parse; eauto.
Qed.

(* ---- A.6 invalid JSON ---- *)
Theorem invalid_json : forall orc chunk st valid encs prev level name id opts line st1 inh len p st2 a,
  read_header chunk valid st = HdrOk level name id opts line st1 ->
  is_meta id = true -> top encs = Some inh ->
  opt_get "length" opts = Some (VInt len) -> (0 <= len)%Z -> fmt_ok opts = true ->
  content_call KMeta st1 len opts inh = COk p st2 ->
  assoc_get beq (oracle_key p) orc = Some a -> a = LoadsValueError \/ a = LoadsRecursion ->
  iter_step orc chunk st valid encs prev = SParse line None.
Proof.
  intros orc chunk st valid encs prev level name id opts line st1 inh len p st2 a Hh Hm Ht Hl Hn Hf Hcc Ha Hbad.
  destruct (meta_kind id Hm) as [Hc Hk].
  rewrite (iter_step_content _ _ _ _ _ _ _ _ _ _ _ _ _ _ _ Hh Hc Hk Ht Hl Hn (fun _ => Hf)), Hcc.
  cbn [finish_content]. rewrite Ha. destruct Hbad as [-> | ->]; reflexivity.
Qed.

(* ---- the whole iteration: a defect ends it with DiffXParseError, the records yielded before are kept ---- *)
Lemma iter_loop_parse : forall fuel orc chunk st valid encs prev acc l c,
  iter_step orc chunk st valid encs prev = SParse l c ->
  iter_loop (S fuel) orc chunk st valid encs prev acc = (rev acc, TParse l c).
Proof. intros fuel orc chunk st valid encs prev acc l c H. cbn [iter_loop]. rewrite H, frev_rev. reflexivity. Qed.

(* the records yielded before an iteration are a prefix of the final result *)
Lemma iter_loop_prefix : forall fuel orc chunk st valid encs prev acc rs t,
  iter_loop fuel orc chunk st valid encs prev acc = (rs, t) -> exists new, rs = rev acc ++ new.
Proof.
  intros fuel orc chunk st valid encs prev acc rs t H. apply iter_loop_path in H.
  destruct H as (new & -> & _). exists new. reflexivity.
Qed.

(* [run ... rs ...]: the iterations that yield the records rs one after the other, and the loop state afterwards *)
Inductive run (orc : oracle) (chunk : nat) :
  rstate -> list bytes -> list (option pv) -> nat -> list record ->
  rstate -> list bytes -> list (option pv) -> nat -> Prop :=
| run_nil : forall st v e p, run orc chunk st v e p [] st v e p
| run_cons : forall st v e p r st1 v1 e1 p1 rs st2 v2 e2 p2,
    iter_step orc chunk st v e p = SYield r st1 v1 e1 p1 ->
    run orc chunk st1 v1 e1 p1 rs st2 v2 e2 p2 ->
    run orc chunk st v e p (r :: rs) st2 v2 e2 p2.

Lemma iter_loop_run : forall orc chunk st v e p rs st2 v2 e2 p2,
  run orc chunk st v e p rs st2 v2 e2 p2 ->
  forall fuel acc,
    iter_loop (List.length rs + fuel) orc chunk st v e p acc = iter_loop fuel orc chunk st2 v2 e2 p2 (rev rs ++ acc).
Proof.
  induction 1 as [|st v e p r st1 v1 e1 p1 rs st2 v2 e2 p2 Hs _ IH]; intros fuel acc; [reflexivity|].
  cbn [List.length plus iter_loop]. rewrite Hs, IH. cbn [rev]. rewrite <- app_assoc. reflexivity.
Qed.

Lemma run_reach : forall orc chunk st v e p rs st2 v2 e2 p2,
  run orc chunk st v e p rs st2 v2 e2 p2 -> reach orc chunk st v e p -> reach orc chunk st2 v2 e2 p2.
Proof.
  induction 1 as [|st v e p r st1 v1 e1 p1 rs st2 v2 e2 p2 Hs _ IH]; intro Hr; [exact Hr|].
  apply IH. eapply reach_step; eauto.
Qed.

(* C03, rejection at the level of the loop: if the sections before the defective one yield the records rs and the
   iteration on the defective section raises DiffXParseError(l, c), the iterator yields exactly rs and then raises it *)
Theorem defect_after_prefix : forall orc chunk st v e p rs st2 v2 e2 p2 l c fuel acc,
  run orc chunk st v e p rs st2 v2 e2 p2 ->
  iter_step orc chunk st2 v2 e2 p2 = SParse l c ->
  List.length rs < fuel ->
  iter_loop fuel orc chunk st v e p acc = (rev acc ++ rs, TParse l c).
Proof.
  intros orc chunk st v e p rs st2 v2 e2 p2 l c fuel acc Hrun Hs Hf.
  replace fuel with (List.length rs + S (fuel - List.length rs - 1)) by lia.
  rewrite (iter_loop_run _ _ _ _ _ _ _ _ _ _ _ Hrun), (iter_loop_parse _ _ _ _ _ _ _ _ _ _ Hs).
  rewrite rev_app_distr, rev_involutive. reflexivity.
Qed.

Definition init_state (data : bytes) : rstate :=
  {| st_stream := {| s_data := data; s_pos := 0 |}; st_linenum := 0%Z; st_fnl := None |}.

Theorem defect_read_all_fuel : forall orc chunk data rs st2 v2 e2 p2 l c,
  run orc chunk (init_state data) [GenSections.sec_main] [None] 0 rs st2 v2 e2 p2 ->
  iter_step orc chunk st2 v2 e2 p2 = SParse l c ->
  List.length rs <= List.length data ->
  read_all orc chunk data = (rs, TParse l c).
Proof.
  intros orc chunk data rs st2 v2 e2 p2 l c Hrun Hs Hlen. unfold read_all. fold (init_state data).
  rewrite (defect_after_prefix _ _ _ _ _ _ _ _ _ _ _ _ _ _ [] Hrun Hs); [reflexivity|lia].
Qed.

(* ---- A.7 the line number of every parse error designates the section whose header was being read ---- *)
Lemma read_content_parse_line : forall st len enc ind le keep l,
  read_content st len enc ind le keep = CParse l -> l = st_linenum st \/ l = (st_linenum st - 1)%Z.
Proof.
  intros st len enc ind le keep l H. rewrite read_content_eq in H. cbv zeta in H. unfold decode_check, finish in H.
  repeat match type of H with
         | (if ?x then _ else _) = _ => destruct x
         | (match ?x with _ => _ end) = _ => destruct x
         end; try discriminate H; injection H as <-; auto.
Qed.

(* every DiffXParseError of one iteration of iter_sections is at the line of the header it read (or tried to
   read), or at the line after it: n <= l <= n + 1 where n is the line counter before the header *)
Theorem error_line_in_section : forall orc chunk st valid encs prev l c,
  iter_step orc chunk st valid encs prev = SParse l c ->
  l = st_linenum st \/ l = (st_linenum st + 1)%Z.
Proof.
  intros orc chunk st valid encs prev l c H. unfold iter_step in H.
  destruct (read_header chunk valid st) as [|level name id opts line st1|l0 c0|e] eqn:Hh; try discriminate H.
  - destruct (read_header_lines _ _ _ _ _ _ _ _ _ Hh) as [-> Hl1].
    cbv beta zeta in H.
    repeat match type of H with
           | (match read_content ?a ?b ?c ?d ?e ?f with _ => _ end) = _ =>
               let E := fresh "Ec" in destruct (read_content a b c d e f) eqn:E; try discriminate H;
               try (apply read_content_parse_line in E; rewrite Hl1 in E)
           | (match ?x with _ => _ end) = _ => destruct x eqn:?; try discriminate H
           | (if ?x then _ else _) = _ => destruct x eqn:?; try discriminate H
           end;
      injection H as <- _; first [left; reflexivity | destruct Ec as [-> | ->]; [right; reflexivity | left; lia]].
  - injection H as <- _. left. eapply read_header_parse_line; eauto.
Qed.

Corollary error_line_bounds : forall orc chunk st valid encs prev l c,
  iter_step orc chunk st valid encs prev = SParse l c ->
  (st_linenum st <= l <= st_linenum st + 1)%Z.
Proof. intros orc chunk st valid encs prev l c H. apply error_line_in_section in H. lia. Qed.

(* ================================================================================================= *)
(* Part B: the positive direction for one section                                                     *)
(* ================================================================================================= *)

Lemma table_get_of_valid : forall valid encs prev id,
  step_inv valid encs prev -> in_ids id valid = true -> exists valid', table_get id = Some valid'.
Proof.
  intros valid encs prev id Hinv Hin. apply in_ids_In in Hin.
  destruct Hinv as [(-> & _ & _) | (a & -> & _ & _)].
  - destruct Hin as [<- | []]. rewrite sec_main_is_Main. eexists. apply table_total.
  - destruct (table_member _ _ Hin) as (b & _ & _ & _ & E). eexists. exact E.
Qed.

(* ---- B.1 container sections (diffx with a supported version, .change, ..file) ----
   In every state the loop can be in, a container header that _read_header accepted is yielded with the level
   (number of dots), the header's line, the parsed options (integers converted by parse_header) and no payload;
   nothing but the header line is consumed. *)
Theorem container_ok : forall orc chunk st valid encs prev level name id opts line st1,
  step_inv valid encs prev ->
  read_header chunk valid st = HdrOk level name id opts line st1 ->
  is_content id = false ->
  (id = GenSections.sec_main -> version_ok opts = true) ->
  exists valid' encs',
    iter_step orc chunk st valid encs prev =
      SYield {| r_level := level; r_line := line; r_opts := opts; r_id := id; r_type := name; r_payload := PNone |}
             st1 valid' encs' level /\
    table_get id = Some valid' /\ id = build_id level name /\
    line = st_linenum st /\ st_linenum st1 = (line + 1)%Z.
Proof.
  intros orc chunk st valid encs prev level name id opts line st1 Hinv Hh Hc Hver.
  pose proof (read_header_lines _ _ _ _ _ _ _ _ _ Hh) as [Hline Hl1].
  pose proof (read_header_ok_inv _ _ _ _ _ _ _ _ _ Hh) as (h & s1 & fnl & Hn & Hp & _ & Hst1).
  destruct (proj1 (parse_header_ok_iff valid h level name id) (ex_intro _ opts Hp)) as (ostr & Hm & Hid & Hin & Hwf).
  subst id.
  destruct (C10_accepts_container orc chunk st valid encs prev h s1 fnl level name ostr Hinv Hn Hm Hin Hwf Hc)
    as (r & valid' & encs' & Hs & _ & _ & _ & Hpay & Htab).
  { intros E opts' Hp'. rewrite Hp in Hp'. injection Hp' as <-. specialize (Hver E). unfold version_ok in Hver.
    destruct (opt_get "version" opts) as [[z|v]|]; try discriminate Hver. exists v. auto. }
  exists valid', encs'. rewrite <- Hst1 in Hs.
  pose proof (iter_step_yield_record _ _ _ _ _ _ _ _ _ _ _ _ _ _ _ _ _ Hh Hs) as Hr. rewrite Hpay in Hr.
  rewrite Hr in Hs. auto.
Qed.

(* ---- B.2 content sections ---- *)

(* what a successful _read_content has done: the content is exactly the first min(length, available) bytes after
   the header, split on the declared or first-line-detected newline, indentation stripped before decoding with
   the encoding in force, bytes kept for diffs (and when no encoding is in force); the content ends with its
   newline; the line counter advances by the number of lines *)
Lemma read_content_ok_inv : forall st len enc ind le keep p st2,
  read_content st len enc ind le keep = COk p st2 ->
  content_bytes st len <> [] /\ enc_valid enc /\ indent_valid ind /\
  exists newline lines,
    nl_res_of le (enc_name enc) (content_bytes st len) = Ok newline /\
    split_lines (content_bytes st len) newline true = Ok lines /\
    st2 = state_after st (stream_after st len) (List.length lines) /\
    bends newline (content_bytes st len) = true /\
    match enc_name enc, keep with
    | Some e, false =>
        exists t nlt, py_decode (strip_indent ind (content_bytes st len) lines) e = Ok t /\
                      py_decode newline e = Ok nlt /\ suffixb N.eqb nlt t = true /\ p = PText t
    | _, _ => bends newline (strip_indent ind (content_bytes st len) lines) = true /\
              p = PBytes (strip_indent ind (content_bytes st len) lines)
    end.
Proof.
  intros st len enc ind le keep p st2 H. rewrite read_content_eq in H. cbv zeta in H.
  destruct (content_bytes st len) as [|c0 ct] eqn:Ec; [discriminate H|]. cbn [is_nil] in H.
  split; [discriminate|].
  assert (Hbody :
    (if indent_bad ind then CParse (st_linenum st - 1)%Z
     else match nl_res_of le (enc_name enc) (c0 :: ct) with
          | Ok newline =>
              match split_lines (c0 :: ct) newline true with
              | Ok lines => if negb (bends newline (c0 :: ct)) then CParse (st_linenum st) else
                            decode_check st (stream_after st len) (List.length lines) (enc_name enc) keep newline
                                         (strip_indent ind (c0 :: ct) lines)
              | Err e => CExc e
              end
          | Err e => if caught_as_parse e then CParse (st_linenum st) else CExc e
          end) = COk p st2 /\ enc_valid enc).
  { destruct enc as [[z|s]|]; [discriminate H| |]; split; first [exact H | exact I]. }
  clear H. destruct Hbody as [H He]. split; [exact He|].
  destruct (indent_bad ind) eqn:Hi; [discriminate H|]. split; [exact Hi|].
  destruct (nl_res_of le (enc_name enc) (c0 :: ct)) as [newline|e] eqn:Hnl; [|destruct (caught_as_parse e); discriminate H].
  destruct (split_lines (c0 :: ct) newline true) as [lines|e] eqn:Hsl; [|discriminate H].
  exists newline, lines. split; [reflexivity|]. split; [exact Hsl|].
  destruct (bends newline (c0 :: ct)) eqn:Hraw; [|discriminate H]. cbn [negb] in H.
  cut (st2 = state_after st (stream_after st len) (List.length lines) /\
       match enc_name enc, keep with
       | Some e, false =>
           exists t nlt, py_decode (strip_indent ind (c0 :: ct) lines) e = Ok t /\
                         py_decode newline e = Ok nlt /\ suffixb N.eqb nlt t = true /\ p = PText t
       | _, _ => bends newline (strip_indent ind (c0 :: ct) lines) = true /\
                 p = PBytes (strip_indent ind (c0 :: ct) lines)
       end); [intros [X Y]; auto|].
  unfold decode_check, finish in H.
  destruct (enc_name enc) as [e|]; [destruct keep|].
  - destruct (bends newline (strip_indent ind (c0 :: ct) lines)) eqn:Hb; [|discriminate H]. injection H as <- <-. auto.
  - destruct (py_decode (strip_indent ind (c0 :: ct) lines) e) as [t|ex]; [|destruct (caught_as_parse ex); discriminate H].
    destruct (py_decode newline e) as [nlt|ex]; [|destruct (caught_as_parse ex); discriminate H].
    destruct (suffixb N.eqb nlt t) eqn:Hs; [|discriminate H]. injection H as <- <-.
    split; [reflexivity|]. exists t, nlt. auto.
  - destruct (bends newline (strip_indent ind (c0 :: ct) lines)) eqn:Hb; [|discriminate H]. injection H as <- <-. auto.
Qed.

(* the bytes read are the next bytes of the stream, and the stream continues right after them *)
Lemma content_bytes_split : forall st len,
  remaining (st_stream st) = content_bytes st len ++ remaining (stream_after st len) /\
  List.length (content_bytes st len) = content_len st len.
Proof.
  intros st len. unfold stream_after. destruct (st_stream st) as [data pos] eqn:Es.
  rewrite remaining_advance. cbn [s_data s_pos].
  assert (List.length (content_bytes st len) = content_len st len) as Hlen.
  { unfold content_bytes. rewrite firstn_length. unfold content_len. lia. }
  split; [|exact Hlen]. rewrite Hlen. unfold content_bytes. rewrite Es. symmetry. apply firstn_skipn.
Qed.

Lemma content_len_exact : forall st len,
  (0 <= len <= Z.of_nat (List.length (remaining (st_stream st))))%Z -> (len <= sys_maxsize)%Z ->
  content_len st len = Z.to_nat len.
Proof. intros st len H1 H2. unfold content_len. lia. Qed.

(* C03, acceptance of one content section: when _read_content succeeds (and, for metadata, json.loads answered
   with a value) the iteration yields the record with the header's level, line and options, and the payload;
   the line counter is then header line + 1 + number of content lines, the stream is right after the content *)
Theorem content_ok : forall orc chunk st valid encs prev level name id opts line st1 k inh len p st2 q,
  step_inv valid encs prev ->
  read_header chunk valid st = HdrOk level name id opts line st1 ->
  is_content id = true -> kind_of id = Some k ->
  top encs = Some inh ->
  opt_get "length" opts = Some (VInt len) -> (0 <= len)%Z ->
  (k = KMeta -> fmt_ok opts = true) ->
  content_call k st1 len opts inh = COk p st2 ->
  match k with
  | KMeta => exists j, assoc_get beq (oracle_key p) orc = Some (LoadsOk j) /\ q = PMeta j
  | _ => q = p
  end ->
  exists valid',
    iter_step orc chunk st valid encs prev =
      SYield {| r_level := level; r_line := line; r_opts := opts; r_id := id; r_type := name; r_payload := q |}
             st2 valid' encs prev /\
    table_get id = Some valid' /\ line = st_linenum st /\
    exists newline lines,
      nl_res_of (opt_get "line_endings" opts) (enc_name (encoding_of k opts inh)) (content_bytes st1 len) = Ok newline /\
      split_lines (content_bytes st1 len) newline true = Ok lines /\
      st_linenum st2 = (line + 1 + Z.of_nat (List.length lines))%Z /\
      st_stream st2 = stream_after st1 len /\ st_fnl st2 = st_fnl st1.
Proof.
  intros orc chunk st valid encs prev level name id opts line st1 k inh len p st2 q
         Hinv Hh Hc Hk Ht Hl Hn Hf Hcc Hq.
  pose proof (read_header_lines _ _ _ _ _ _ _ _ _ Hh) as [Hline Hl1].
  pose proof (read_header_ok_inv _ _ _ _ _ _ _ _ _ Hh) as (h & s1 & fnl & _ & Hp & _ & _).
  apply parse_header_ok_inv in Hp. destruct Hp as (ostr & _ & _ & Hin).
  destruct (table_get_of_valid _ _ _ _ Hinv Hin) as (valid' & Htab).
  exists valid'. split; [|split; [exact Htab|split; [exact Hline|]]].
  - rewrite (iter_step_content _ _ _ _ _ _ _ _ _ _ _ _ _ _ _ Hh Hc Hk Ht Hl Hn Hf), Hcc.
    destruct k; cbn [finish_content]; unfold yield.
    + subst q. rewrite Htab. reflexivity.
    + destruct Hq as (j & -> & ->). rewrite Htab. reflexivity.
    + subst q. rewrite Htab. reflexivity.
  - rewrite content_call_eq in Hcc. apply read_content_ok_inv in Hcc.
    destruct Hcc as (_ & _ & _ & newline & lines & Hnl & Hsl & -> & _).
    exists newline, lines. cbn [state_after st_linenum st_stream st_fnl]. rewrite Hl1. auto.
Qed.

(* ---- B.3 blank (whitespace-only) lines before a header ---- *)
Lemma next_nonblank_fuel : forall f1 f2 chunk s,
  0 < chunk -> List.length (remaining s) < f1 -> List.length (remaining s) < f2 ->
  next_nonblank f1 chunk s = next_nonblank f2 chunk s.
Proof.
  induction f1 as [|f1 IH]; intros f2 chunk s Hc H1 H2; [lia|]. destruct f2 as [|f2]; [lia|].
  cbn [next_nonblank]. rewrite read_until_abs_correct by assumption. cbn [bind].
  destruct (read_until_abs s) as [[line eof] s1] eqn:E.
  destruct eof; [reflexivity|]. destruct (nonempty (strip line)); [reflexivity|].
  destruct (read_until_abs_exact _ _ _ _ E) as (_ & _ & _ & D & _).
  destruct (read_until_abs_shape _ _ _ _ E) as [Sh _]. destruct (Sh eq_refl) as (l0 & Hl & _).
  assert (List.length (remaining s1) < List.length (remaining s)) as Hlt.
  { rewrite D, Hl, !app_length. cbn [List.length]. lia. }
  apply IH; [assumption|lia|lia].
Qed.

Lemma next_nonblank_skip_blank : forall chunk s l s1,
  0 < chunk -> read_until chunk s = Ok (l, false, s1) -> strip l = [] ->
  next_nonblank (S (List.length (remaining s))) chunk s = next_nonblank (S (List.length (remaining s1))) chunk s1.
Proof.
  intros chunk s l s1 Hc Hr Hs.
  assert (List.length (remaining s1) < List.length (remaining s)) as Hlt.
  { rewrite read_until_abs_correct in Hr by assumption. injection Hr as Hr.
    destruct (read_until_abs_exact _ _ _ _ Hr) as (_ & _ & _ & D & _).
    destruct (read_until_abs_shape _ _ _ _ Hr) as [Sh _]. destruct (Sh eq_refl) as (l0 & Hl & _).
    rewrite D, Hl, !app_length. cbn [List.length]. lia. }
  set (n := List.length (remaining s)) in *.
  transitivity (next_nonblank n chunk s1).
  - cbn [next_nonblank]. rewrite Hr. cbn [bind]. rewrite Hs. reflexivity.
  - apply next_nonblank_fuel; [assumption|lia|lia].
Qed.

(* a blank line in front of a header changes nothing: not the header read, not its line number (blank lines
   between sections are not counted), not the record, not the outcome of the iteration *)
Definition with_stream (st : rstate) (s : stream) : rstate :=
  {| st_stream := s; st_linenum := st_linenum st; st_fnl := st_fnl st |}.

Theorem blank_line_skipped_header : forall chunk valid st l s1,
  0 < chunk -> read_until chunk (st_stream st) = Ok (l, false, s1) -> strip l = [] ->
  read_header chunk valid st = read_header chunk valid (with_stream st s1).
Proof.
  intros chunk valid st l s1 Hc Hr Hs. unfold read_header. cbn [with_stream st_stream st_linenum st_fnl].
  rewrite (next_nonblank_skip_blank _ _ _ _ Hc Hr Hs). reflexivity.
Qed.

Theorem blank_line_skipped : forall orc chunk valid encs prev st l s1,
  0 < chunk -> read_until chunk (st_stream st) = Ok (l, false, s1) -> strip l = [] ->
  iter_step orc chunk st valid encs prev = iter_step orc chunk (with_stream st s1) valid encs prev.
Proof.
  intros orc chunk valid encs prev st l s1 Hc Hr Hs. unfold iter_step.
  rewrite (blank_line_skipped_header _ valid _ _ _ Hc Hr Hs). reflexivity.
Qed.

(* the same, with the blank line described directly: whitespace bytes other than LF, then LF *)
Lemma find_byte_not_in : forall c l k, ~ In c l -> find_byte c l k = None.
Proof.
  induction l as [|x t IH]; intros k H; cbn [find_byte]; [reflexivity|].
  destruct (byte_eqb x c) eqn:E.
  - exfalso. apply H. left. unfold byte_eqb in E. apply Byte.byte_dec_bl in E. exact E.
  - apply IH. intro Hin. apply H. right. exact Hin.
Qed.

Lemma lstrip_all_space : forall l, forallb is_space l = true -> lstrip l = [].
Proof.
  induction l as [|x t IH]; intro H; [reflexivity|]. cbn [forallb] in H. apply andb_true_iff in H.
  destruct H as [Hx Ht]. cbn [lstrip]. rewrite Hx. apply IH. exact Ht.
Qed.

Lemma strip_all_space : forall l, forallb is_space l = true -> strip l = [].
Proof. intros l H. unfold strip. rewrite (lstrip_all_space l H). reflexivity. Qed.

Definition skip_bytes (s : stream) (k : nat) : stream := {| s_data := s_data s; s_pos := s_pos s + k |}.

Theorem blank_line_skipped_bytes : forall orc chunk valid encs prev st w rest,
  0 < chunk ->
  remaining (st_stream st) = w ++ lf :: rest -> forallb is_space w = true -> ~ In lf w ->
  iter_step orc chunk st valid encs prev =
  iter_step orc chunk (with_stream st (skip_bytes (st_stream st) (List.length w + 1))) valid encs prev /\
  remaining (skip_bytes (st_stream st) (List.length w + 1)) = rest.
Proof.
  intros orc chunk valid encs prev st w rest Hc Hrem Hw Hnl.
  assert (Hf : find_byte lf (remaining (st_stream st)) 0 = Some (List.length w)).
  { rewrite Hrem, (find_byte_app_none _ _ _ _ (find_byte_not_in lf w 0 Hnl)). cbn [find_byte plus].
    replace (byte_eqb lf lf) with true by reflexivity. reflexivity. }
  assert (Hline : firstn (List.length w + 1) (remaining (st_stream st)) = w ++ [lf]).
  { rewrite Hrem. change (lf :: rest) with ([lf] ++ rest). rewrite app_assoc.
    rewrite firstn_app. replace (List.length w + 1 - List.length (w ++ [lf])) with 0
      by (rewrite app_length; cbn [List.length]; lia).
    rewrite firstn_O, app_nil_r. apply firstn_all2. rewrite app_length. cbn [List.length]. lia. }
  split.
  - apply (blank_line_skipped orc chunk valid encs prev st (w ++ [lf])); [assumption| |].
    + rewrite read_until_abs_correct by assumption. unfold read_until_abs. rewrite Hf, Hline. reflexivity.
    + apply strip_all_space. rewrite forallb_app, Hw. reflexivity.
  - unfold skip_bytes. destruct (st_stream st) as [data pos]. rewrite remaining_advance. cbn [s_data s_pos].
    rewrite Hrem. change (lf :: rest) with ([lf] ++ rest). rewrite app_assoc.
    rewrite skipn_app. replace (List.length w + 1 - List.length (w ++ [lf])) with 0
      by (rewrite app_length; cbn [List.length]; lia).
    rewrite skipn_all2 by (rewrite app_length; cbn [List.length]; lia). reflexivity.
Qed.

(* ================================================================================================= *)
(* Part C: CRLF header lines                                                                          *)
(* ================================================================================================= *)

(* the next non-blank line, as _read_header sees it *)
Definition next_line (chunk : nat) (st : rstate) : res (option bytes * stream) :=
  next_nonblank (S (List.length (remaining (st_stream st)))) chunk (st_stream st).

(* the first header fixes the newline of all header lines: CRLF if it ends with CRLF, else LF *)
Lemma first_header_fixes_newline : forall chunk valid st header s1 level name id opts line st1,
  st_fnl st = None ->
  next_line chunk st = Ok (Some header, s1) ->
  read_header chunk valid st = HdrOk level name id opts line st1 ->
  st_fnl st1 = Some (if bends crlf header then crlf else [lf]).
Proof.
  intros chunk valid st header s1 level name id opts line st1 Hf Hn H. unfold next_line in Hn.
  unfold read_header in H. rewrite Hn, Hf in H.
  destruct (negb (bends _ header)); [discriminate H|].
  destruct (parse_header valid _); [|discriminate H]. injection H as _ _ _ _ _ <-. reflexivity.
Qed.

Lemma header_newline_sticky : forall chunk valid st f level name id opts line st1,
  st_fnl st = Some f ->
  read_header chunk valid st = HdrOk level name id opts line st1 ->
  st_fnl st1 = Some f.
Proof.
  intros chunk valid st f level name id opts line st1 Hf H. unfold read_header in H. rewrite Hf in H.
  destruct (next_nonblank _ chunk (st_stream st)) as [[[header|] s1]|e]; try discriminate H.
  destruct (negb (bends f header)); [discriminate H|].
  destruct (parse_header valid _); [|discriminate H]. injection H as _ _ _ _ _ <-. reflexivity.
Qed.

(* once CRLF is fixed, a header line that does not end with CRLF is a parse error at that line *)
Lemma crlf_required_header : forall chunk valid st f header s1,
  st_fnl st = Some f ->
  next_line chunk st = Ok (Some header, s1) ->
  bends f header = false ->
  read_header chunk valid st = HdrParse (st_linenum st) None.
Proof.
  intros chunk valid st f header s1 Hf Hn Hb. unfold next_line in Hn. unfold read_header.
  rewrite Hn, Hf, Hb. reflexivity.
Qed.

Theorem crlf_required : forall orc chunk valid encs prev st f header s1,
  st_fnl st = Some f ->
  next_line chunk st = Ok (Some header, s1) ->
  bends f header = false ->
  iter_step orc chunk st valid encs prev = SParse (st_linenum st) None.
Proof.
  intros orc chunk valid encs prev st f header s1 Hf Hn Hb. unfold iter_step.
  rewrite (crlf_required_header _ valid _ _ _ _ Hf Hn Hb). reflexivity.
Qed.

Lemma read_content_stream : forall st len enc ind le keep p st2,
  read_content st len enc ind le keep = COk p st2 ->
  st_stream st2 = stream_after st len /\ st_fnl st2 = st_fnl st.
Proof.
  intros st len enc ind le keep p st2 H. apply read_content_ok_inv in H.
  destruct H as (_ & _ & _ & newline & lines & _ & _ & -> & _). split; reflexivity.
Qed.

(* the newline fixed by the first header is kept by every later iteration *)
Theorem iter_step_newline : forall orc chunk st valid encs prev r st' valid' encs' prev',
  iter_step orc chunk st valid encs prev = SYield r st' valid' encs' prev' ->
  (exists f, st_fnl st' = Some f) /\ (forall f, st_fnl st = Some f -> st_fnl st' = Some f).
Proof.
  intros orc chunk st valid encs prev r st' valid' encs' prev' H. unfold iter_step in H.
  destruct (read_header chunk valid st) as [|level name id opts line st1|l0 c0|e] eqn:Hh; try discriminate H.
  assert (H1 : (exists f, st_fnl st1 = Some f) /\ (forall f, st_fnl st = Some f -> st_fnl st1 = Some f)).
  { split.
    - apply read_header_ok_inv in Hh. destruct Hh as (h & s1 & fnl & _ & _ & _ & ->). exists fnl. reflexivity.
    - intros f Hf. eapply header_newline_sticky; eauto. }
  clear Hh. cbv beta zeta in H.
  repeat match type of H with
         | (match read_content ?a ?b ?c ?d ?e ?f with _ => _ end) = _ =>
             let E := fresh "Ec" in destruct (read_content a b c d e f) eqn:E; try discriminate H;
             apply read_content_stream in E; destruct E as [_ E]
         | (match ?x with _ => _ end) = _ => destruct x eqn:?; try discriminate H
         | (if ?x then _ else _) = _ => destruct x eqn:?; try discriminate H
         end;
    injection H as _ <- _ _ _; try exact H1; rewrite Ec; exact H1.
Qed.

Lemma run_newline : forall orc chunk st v e p rs st2 v2 e2 p2 f,
  run orc chunk st v e p rs st2 v2 e2 p2 -> st_fnl st = Some f -> st_fnl st2 = Some f.
Proof.
  induction 1 as [|st v e p r st1 v1 e1 p1 rs st2 v2 e2 p2 Hs _ IH]; intro Hf; [exact Hf|].
  apply IH. apply (proj2 (iter_step_newline _ _ _ _ _ _ _ _ _ _ _ Hs)). exact Hf.
Qed.

(* C03, CRLF headers: if the first header line read from a state with no newline fixed yet ends with CRLF, then
   after any number of further sections every header line must end with CRLF, else DiffXParseError at its line *)
Theorem crlf_headers : forall orc chunk st v e p header s1 r st1 v1 e1 p1 rs st2 v2 e2 p2 header2 s2,
  st_fnl st = None ->
  next_line chunk st = Ok (Some header, s1) -> bends crlf header = true ->
  iter_step orc chunk st v e p = SYield r st1 v1 e1 p1 ->
  run orc chunk st1 v1 e1 p1 rs st2 v2 e2 p2 ->
  st_fnl st1 = Some crlf /\ st_fnl st2 = Some crlf /\
  (next_line chunk st2 = Ok (Some header2, s2) -> bends crlf header2 = false ->
   iter_step orc chunk st2 v2 e2 p2 = SParse (st_linenum st2) None).
Proof.
  intros orc chunk st v e p header s1 r st1 v1 e1 p1 rs st2 v2 e2 p2 header2 s2 Hf Hn Hb Hs Hrun.
  assert (H1 : st_fnl st1 = Some crlf).
  { unfold iter_step in Hs.
    destruct (read_header chunk v st) as [|level name id opts line sth|l0 c0|ex] eqn:Hh; try discriminate Hs.
    pose proof (first_header_fixes_newline _ _ _ _ _ _ _ _ _ _ _ Hf Hn Hh) as Hfh. rewrite Hb in Hfh.
    assert (Hfix : forall f, st_fnl sth = Some f -> st_fnl st1 = Some f).
    { intros f Hsth. clear Hh. cbv beta zeta in Hs.
      repeat match type of Hs with
             | (match read_content ?a ?b ?c ?d ?e ?f with _ => _ end) = _ =>
                 let E := fresh "Ec" in destruct (read_content a b c d e f) eqn:E; try discriminate Hs;
                 apply read_content_stream in E; destruct E as [_ E]
             | (match ?x with _ => _ end) = _ => destruct x eqn:?; try discriminate Hs
             | (if ?x then _ else _) = _ => destruct x eqn:?; try discriminate Hs
             end;
        injection Hs as _ <- _ _ _; try exact Hsth; rewrite Ec; exact Hsth. }
    apply Hfix. exact Hfh. }
  pose proof (run_newline _ _ _ _ _ _ _ _ _ _ _ _ Hrun H1) as H2.
  split; [exact H1|]. split; [exact H2|].
  intros Hn2 Hb2. eapply crlf_required; eauto.
Qed.

(* ================================================================================================= *)
(* Part D: auxiliary facts that discharge side conditions                                             *)
(* ================================================================================================= *)

(* ---- every iteration that yields consumes at least one byte: the fuel of read_all suffices ---- *)
Lemma strip_nil : strip [] = [].
Proof. reflexivity. Qed.

Lemma next_nonblank_progress : forall fuel chunk s line s',
  0 < chunk -> wf_stream s -> next_nonblank fuel chunk s = Ok (Some line, s') ->
  wf_stream s' /\ s_data s' = s_data s /\ s_pos s < s_pos s'.
Proof.
  induction fuel as [|f IH]; intros chunk s line s' Hc Hwf H; cbn [next_nonblank] in H; [discriminate H|].
  destruct (read_until chunk s) as [[[l eof] s1]|err] eqn:E; cbn [bind] in H; [|discriminate H].
  destruct (read_until_position_exact _ _ _ _ _ Hc Hwf E) as (A & B & C & _).
  destruct eof; [discriminate H|].
  destruct (nonempty (strip l)) eqn:Hne.
  - injection H as <- <-. repeat split; auto.
    destruct l as [|x t]; [rewrite strip_nil in Hne; discriminate Hne|]. cbn [List.length] in C. lia.
  - destruct (IH _ _ _ _ Hc A H) as (A' & B' & C'). repeat split; auto; [congruence|lia].
Qed.

Definition spos (st : rstate) : nat := s_pos (st_stream st).
Definition sdata (st : rstate) : bytes := s_data (st_stream st).

Lemma read_header_progress : forall chunk valid st level name id opts line st1,
  0 < chunk -> wf_rstate st ->
  read_header chunk valid st = HdrOk level name id opts line st1 ->
  wf_rstate st1 /\ sdata st1 = sdata st /\ spos st < spos st1.
Proof.
  intros chunk valid st level name id opts line st1 Hc Hwf H. unfold read_header in H.
  destruct (next_nonblank _ chunk (st_stream st)) as [[[hdr|] s1]|err] eqn:E; try discriminate H.
  apply next_nonblank_progress in E; [|assumption|exact Hwf].
  destruct (negb _); [discriminate H|]. destruct (parse_header _ _); [|discriminate H].
  injection H as _ _ _ _ _ <-. exact E.
Qed.

Lemma iter_step_progress : forall orc chunk st valid encs prev r st' valid' encs' prev',
  0 < chunk -> wf_rstate st ->
  iter_step orc chunk st valid encs prev = SYield r st' valid' encs' prev' ->
  wf_rstate st' /\ sdata st' = sdata st /\ spos st < spos st'.
Proof.
  intros orc chunk st valid encs prev r st' valid' encs' prev' Hc Hwf H.
  split; [eapply iter_step_wf; eauto|].
  unfold iter_step in H.
  destruct (read_header chunk valid st) as [|level name id opts line st1|l0 c0|e] eqn:Hh; try discriminate H.
  apply read_header_progress in Hh; [|assumption|assumption]. destruct Hh as (_ & Hd & Hp).
  cbv beta zeta in H.
  repeat match type of H with
         | (match read_content ?a ?b ?c ?d ?e ?f with _ => _ end) = _ =>
             let E := fresh "Ec" in destruct (read_content a b c d e f) eqn:E; try discriminate H;
             apply read_content_stream in E; destruct E as [E _]
         | (match ?x with _ => _ end) = _ => destruct x eqn:?; try discriminate H
         | (if ?x then _ else _) = _ => destruct x eqn:?; try discriminate H
         end;
    injection H as _ <- _ _ _; try (split; assumption);
    unfold sdata, spos in *; rewrite Ec; unfold stream_after; cbn [s_data s_pos]; (split; [assumption|lia]).
Qed.

Lemma run_progress : forall orc chunk st v e p rs st2 v2 e2 p2,
  0 < chunk -> run orc chunk st v e p rs st2 v2 e2 p2 -> wf_rstate st ->
  wf_rstate st2 /\ sdata st2 = sdata st /\ spos st + List.length rs <= spos st2.
Proof.
  intros orc chunk st v e p rs st2 v2 e2 p2 Hc Hrun.
  induction Hrun as [|st v e p r st1 v1 e1 p1 rs st2 v2 e2 p2 Hs _ IH]; intro Hwf.
  - repeat split; auto. cbn [List.length]. lia.
  - destruct (iter_step_progress _ _ _ _ _ _ _ _ _ _ _ Hc Hwf Hs) as (W1 & D1 & P1).
    destruct (IH W1) as (W2 & D2 & P2). repeat split; auto; [congruence|]. cbn [List.length]. lia.
Qed.

(* C03, rejection, for read_all: the sections before the defective one are yielded unchanged, the defective one
   is not, and the iterator raises DiffXParseError(l, c) *)
Theorem defect_read_all : forall orc chunk data rs st2 v2 e2 p2 l c,
  0 < chunk ->
  run orc chunk (init_state data) [GenSections.sec_main] [None] 0 rs st2 v2 e2 p2 ->
  iter_step orc chunk st2 v2 e2 p2 = SParse l c ->
  read_all orc chunk data = (rs, TParse l c) /\
  (st_linenum st2 <= l <= st_linenum st2 + 1)%Z /\ step_inv v2 e2 p2.
Proof.
  intros orc chunk data rs st2 v2 e2 p2 l c Hc Hrun Hs.
  assert (Hwf : wf_rstate (init_state data)) by (apply wf_initial).
  destruct (run_progress _ _ _ _ _ _ _ _ _ _ _ Hc Hrun Hwf) as (W & D & P).
  split; [|split].
  - eapply defect_read_all_fuel; eauto.
    unfold wf_rstate, wf_stream in W. fold (spos st2) in W. fold (sdata st2) in W. rewrite D in W.
    unfold sdata, spos, init_state in *. cbn [st_stream s_data s_pos] in *. lia.
  - eapply error_line_bounds; eauto.
  - apply reach_inv with (orc := orc) (chunk := chunk) (st := st2). eapply run_reach; [exact Hrun|]. apply reach_init.
Qed.

(* ---- string option values are never empty (a fact of the header parse; le_unknown needed it before D19) ---- *)
Definition vals_nonempty (o : options) : Prop := forall k s, assoc_get beq k o = Some (VStr s) -> s <> [].

Lemma assoc_set_get : forall (k' k : bytes) (v : pv) (o : options),
  assoc_get beq k' (assoc_set beq k v o) = if beq k' k then Some v else assoc_get beq k' o.
Proof.
  intros k' k v. induction o as [|[k0 v0] t IH]; cbn [assoc_set assoc_get]; [reflexivity|].
  destruct (beq k k0) eqn:E0; cbn [assoc_get].
  - apply beq_eq in E0. subst k0. destruct (beq k' k); reflexivity.
  - rewrite IH. destruct (beq k' k0) eqn:E1; [|reflexivity].
    destruct (beq k' k) eqn:E2; [|reflexivity].
    apply beq_eq in E1. apply beq_eq in E2. subst. rewrite beq_refl in E0. discriminate E0.
Qed.

Lemma convert_value_str : forall v s, convert_value v = VStr s -> s = v.
Proof.
  intros v s H. unfold convert_value in H.
  destruct (int_ok v && (List.length (digits_of v) <=? int_max_str_digits)).
  - destruct v as [|c t]; [injection H as <-; reflexivity|]. destruct (byte_eqb c "-"%byte); discriminate H.
  - injection H as <-. reflexivity.
Qed.

Lemma parse_pairs_vals : forall header pairs acc o,
  vals_nonempty acc -> parse_pairs header pairs acc = inl o -> vals_nonempty o.
Proof.
  induction pairs as [|p pairs IH]; intros acc o Hacc H; cbn [parse_pairs] in H.
  - injection H as <-. exact Hacc.
  - destruct (split_eq p) as [[k v]|]; [|discriminate H].
    destruct (negb (key_ok k)); [discriminate H|].
    destruct (val_ok v) eqn:Hv; cbn [negb] in H; [|discriminate H].
    apply (IH _ _) in H; [exact H|].
    intros k' s Hg. unfold opt_set in Hg. rewrite assoc_set_get in Hg.
    destruct (beq k' k); [|exact (Hacc _ _ Hg)].
    injection Hg as Hg. apply convert_value_str in Hg. subst s.
    unfold val_ok in Hv. destruct v; [discriminate Hv|discriminate].
Qed.

Lemma parse_header_vals : forall valid h level name id opts,
  parse_header valid h = HOk level name id opts -> vals_nonempty opts.
Proof.
  intros valid h level name id opts H. unfold parse_header in H.
  destruct (match_header_re h) as [[[d n] o]|]; [|discriminate H].
  destruct (negb (in_ids (build_id d n) valid)); [discriminate H|].
  destruct o as [s|].
  - destruct (parse_pairs h (bsplit comma_space s) []) as [o'|] eqn:P; [|discriminate H].
    injection H as _ _ _ <-. eapply parse_pairs_vals; [|exact P]. intros k s' Hg. discriminate Hg.
  - injection H as _ _ _ <-. intros k s' Hg. discriminate Hg.
Qed.

Lemma read_header_vals : forall chunk valid st level name id opts line st1,
  read_header chunk valid st = HdrOk level name id opts line st1 -> vals_nonempty opts.
Proof.
  intros chunk valid st level name id opts line st1 H. apply read_header_ok_inv in H.
  destruct H as (h & s1 & fnl & _ & Hp & _ & _). eapply parse_header_vals; eauto.
Qed.

(* A.4 as in the catalogue: line_endings=<a name that is not a key of NEWLINE_FORMATS> *)
Theorem unknown_line_endings_str : forall orc chunk st valid encs prev level name id opts line st1 k inh len le,
  read_header chunk valid st = HdrOk level name id opts line st1 ->
  is_content id = true -> kind_of id = Some k ->
  top encs = Some inh ->
  opt_get "length" opts = Some (VInt len) -> (0 < len)%Z -> remaining (st_stream st1) <> [] ->
  (k = KMeta -> fmt_ok opts = true) ->
  enc_valid (encoding_of k opts inh) -> indent_valid (indent_of k opts) ->
  opt_get "line_endings" opts = Some (VStr le) -> assoc_get beq le GenText.newline_formats = None ->
  iter_step orc chunk st valid encs prev = SParse (line + 1)%Z None.
Proof.
  intros orc chunk st valid encs prev level name id opts line st1 k inh len le Hh Hc Hk Ht Hl Hn Hr Hf He Hi Hle Hunk.
  eapply unknown_line_endings; eauto. rewrite Hle. cbn [le_unknown]. exact Hunk.
Qed.

(* ================================================================================================= *)
(* Part E: concrete inputs used by the Examples of props/C03.v                                        *)
(* ================================================================================================= *)

(* executable form of [run]: n iterations that all yield *)
Fixpoint run_n (n : nat) (orc : oracle) (chunk : nat) (st : rstate) (v : list bytes) (e : list (option pv)) (p : nat)
  : option (list record * (rstate * list bytes * list (option pv) * nat)) :=
  match n with
  | O => Some ([], (st, v, e, p))
  | S k =>
      match iter_step orc chunk st v e p with
      | SYield r st1 v1 e1 p1 =>
          match run_n k orc chunk st1 v1 e1 p1 with
          | Some (rs, x) => Some (r :: rs, x)
          | None => None
          end
      | _ => None
      end
  end.

Lemma run_n_run : forall n orc chunk st v e p rs st2 v2 e2 p2,
  run_n n orc chunk st v e p = Some (rs, (st2, v2, e2, p2)) -> run orc chunk st v e p rs st2 v2 e2 p2.
Proof.
  induction n as [|n IH]; intros orc chunk st v e p rs st2 v2 e2 p2 H; cbn [run_n] in H.
  - injection H as <- <- <- <- <-. apply run_nil.
  - destruct (iter_step orc chunk st v e p) as [|r st1 v1 e1 p1| |] eqn:Hs; try discriminate H.
    destruct (run_n n orc chunk st1 v1 e1 p1) as [[rs' [[[st' v'] e'] p']]|] eqn:Hr; [|discriminate H].
    injection H as <- <- <- <- <-. eapply run_cons; [exact Hs|]. apply IH. exact Hr.
Qed.

(* closes a conjunction of closed computational facts, left to right (earlier conjuncts instantiate evars) *)
Ltac ex_conj := repeat (split; [vm_compute; reflexivity|]); vm_compute; reflexivity.

Definition c03_nl : bytes := [x0a].
Definition c03_crlf : bytes := [x0d; x0a].
Definition c03_main : bytes := B "#diffx: encoding=utf-8, version=1.0" ++ c03_nl.

(* A.1 *)
Definition c03_bad_version : bytes := B "#diffx: encoding=utf-8, version=2.0" ++ c03_nl ++ B "#.change:" ++ c03_nl.
Definition c03_no_version : bytes := B "#diffx: encoding=utf-8" ++ c03_nl ++ B "#.change:" ++ c03_nl.
Definition c03_int_version : bytes := B "#diffx: version=1" ++ c03_nl.
(* A.2 *)
Definition c03_missing_length : bytes :=
  c03_main ++ B "#.change:" ++ c03_nl ++ B "#..meta: format=json" ++ c03_nl ++ B "{}" ++ c03_nl.
(* A.3 *)
Definition c03_format_yaml : bytes :=
  c03_main ++ B "#.meta: format=yaml, length=3" ++ c03_nl ++ B "{}" ++ c03_nl.
(* A.4 *)
Definition c03_le_mac : bytes :=
  c03_main ++ B "#.preamble: length=3, line_endings=mac" ++ c03_nl ++ B "ab" ++ c03_nl.
(* A.5: a diff of 5 bytes "-a\n+b" without its final newline, after four well-formed sections *)
Definition c03_empty_obj_orc : oracle := [(B "s{}" ++ c03_nl, LoadsOk (JObj []))].
Definition c03_no_final_nl : bytes :=
  c03_main ++ B "#.change:" ++ c03_nl ++ B "#..file:" ++ c03_nl ++
  B "#...meta: length=3" ++ c03_nl ++ B "{}" ++ c03_nl ++
  B "#...diff: length=5" ++ c03_nl ++ B "-a" ++ c03_nl ++ B "+b".
(* A.5, text case: a preamble whose declared length stops before the newline *)
Definition c03_no_final_nl_text : bytes :=
  c03_main ++ B "#.preamble: length=2" ++ c03_nl ++ B "ab" ++ c03_nl.
(* A.5, raw case: an indented preamble whose bytes end with indentation only: "a\n  " stripped is "a\n" *)
Definition c03_no_final_nl_raw : bytes :=
  c03_main ++ B "#.preamble: indent=2, length=4" ++ c03_nl ++ B "a" ++ c03_nl ++ B "  ".
(* A.6 *)
Definition c03_bad_json : bytes :=
  c03_main ++ B "#.meta: format=json, length=3" ++ c03_nl ++ B "{x" ++ c03_nl.
Definition c03_bad_json_orc : oracle := [(B "s{x" ++ c03_nl, LoadsValueError)].
(* B: a file from another producer: options in another order, optional options absent, blank and whitespace-only
   lines between sections, compact JSON, a two-line indented preamble *)
Definition c03_foreign : bytes :=
  B "#diffx: version=1.0, encoding=utf-8" ++ c03_nl ++
  c03_nl ++
  B "#.preamble: length=10, indent=2" ++ c03_nl ++ B "  ab" ++ c03_nl ++ B "  cd" ++ c03_nl ++
  B "  " ++ c03_nl ++
  B "#.change:" ++ c03_nl ++
  B "#..file:" ++ c03_nl ++
  B "#...meta: length=8" ++ c03_nl ++ B "{" ++ [x22] ++ B "a" ++ [x22] ++ B ":1}" ++ c03_nl ++
  B "#...diff: length=6" ++ c03_nl ++ B "-a" ++ c03_nl ++ B "+b" ++ c03_nl.
Definition c03_foreign_orc : oracle :=
  [(B "s{" ++ [x22] ++ B "a" ++ [x22] ++ B ":1}" ++ c03_nl, LoadsOk (JObj []))].
(* C: CRLF header lines (content keeps LF), then a header line ending in LF only *)
Definition c03_crlf_ok : bytes :=
  B "#diffx: encoding=utf-8, version=1.0" ++ c03_crlf ++ B "#.change:" ++ c03_crlf ++ B "#..file:" ++ c03_crlf ++
  B "#...meta: length=3" ++ c03_crlf ++ B "{}" ++ c03_nl ++
  B "#...diff: length=6" ++ c03_crlf ++ B "-a" ++ c03_nl ++ B "+b" ++ c03_nl.
Definition c03_crlf_then_lf : bytes :=
  B "#diffx: encoding=utf-8, version=1.0" ++ c03_crlf ++ B "#.change:" ++ c03_crlf ++ B "#..file:" ++ c03_nl.
