(* Res.v — failure is data: every Python primitive that can raise is a function into [res]. *)
From Coq Require Import List.
From DX Require Import Bytes.
Import ListNotations.

Inductive exn :=
| EAssertion | ELookup | EType | EUnicodeEncode | EUnicodeDecode | EValue | EKey | EOverflow | EAttribute
| EUnboundLocal | ERecursion | EIndex
| ELibParse      (* DiffXParseError raised on the DOM side *)
| ELibContent | ELibOrder | ELibOptionValue | ELibChoice | ELibUnknownOption   (* the library's own error family (writer / DOM side) *)
| EUnmodelled        (* the case left the modelled universe (codec not executed by the model): harness discards it *)
| EOracleMiss.       (* the per-case json oracle has no answer: harness error *)

Inductive res (A : Type) :=
| Ok (a : A)
| Err (e : exn).
Arguments Ok {A} a.
Arguments Err {A} e.

Definition bind {A C} (r : res A) (f : A -> res C) : res C :=
  match r with Ok a => f a | Err e => Err e end.
Notation "'do' x <- r ; k" := (bind r (fun x => k)) (at level 200, x pattern, r at level 100, k at level 200).

Definition is_lib_error (e : exn) : bool :=
  match e with ELibParse | ELibContent | ELibOrder | ELibOptionValue | ELibChoice | ELibUnknownOption => true | _ => false end.
