(* Entry.v — dispatch from a harness case (an S-expression) to a model function; result as an S-expression. *)
From Coq Require Import List Arith NArith ZArith Bool Strings.Byte.
From Coq Require Strings.String.
From DX Require Import Bytes Sx Res Codec Text.
Import ListNotations.
Import String.StringSyntax.
Local Open Scope string_scope.
Local Open Scope list_scope.

Definition exn_name (e : exn) : String.string :=
  match e with
  | EAssertion => "AssertionError" | ELookup => "LookupError" | EType => "TypeError"
  | EUnicodeEncode => "UnicodeEncodeError" | EUnicodeDecode => "UnicodeDecodeError" | EValue => "ValueError"
  | EKey => "KeyError" | EOverflow => "OverflowError" | EAttribute => "AttributeError"
  | EUnboundLocal => "UnboundLocalError" | ERecursion => "RecursionError"
  | ELibContent => "DiffXContentError" | ELibOrder => "DiffXSectionOrderError"
  | ELibOptionValue => "DiffXOptionValueError" | ELibChoice => "DiffXOptionValueChoiceError"
  | ELibUnknownOption => "DiffXUnknownOptionError"
  | EUnmodelled => "UNMODELLED" | EOracleMiss => "ORACLE-MISS"
  end.
Definition sx_of_exn (e : exn) : sx := tagged "exc" [sym (exn_name e)].
Definition sx_of_res {A} (f : A -> sx) (r : res A) : sx :=
  match r with Ok a => tagged "ok" [f a] | Err e => sx_of_exn e end.

(* (split_lines #data #nl bool) *)
Definition run_split_lines (args : list sx) : sx :=
  match args with
  | [d; n; k] =>
      match sx_bytes d, sx_bytes n, sx_bool k with
      | Some d, Some n, Some k => sx_of_res (sx_of_list sx_of_bytes) (split_lines d n k)
      | _, _, _ => bad_case "split_lines args"
      end
  | _ => bad_case "split_lines arity"
  end.

(* (codec enc|dec #name payload) *)
Definition run_codec (args : list sx) : sx :=
  match args with
  | [op; name; payload] =>
      match sx_bytes name with
      | Some name =>
          if sym_is op "enc" then
            match sx_text payload with
            | Some t => sx_of_res sx_of_bytes (py_encode t name)
            | None => bad_case "codec enc payload"
            end
          else
            match sx_bytes payload with
            | Some b => sx_of_res sx_of_text (py_decode b name)
            | None => bad_case "codec dec payload"
            end
      | None => bad_case "codec name"
      end
  | _ => bad_case "codec arity"
  end.

(* (newline_for #le (some #enc)|none) and (guess #data enc) *)
Definition run_newline_for (args : list sx) : sx :=
  match args with
  | [le; enc] =>
      match sx_bytes le, sx_option sx_bytes enc with
      | Some le, Some enc => sx_of_res sx_of_bytes (get_newline_for_type le enc)
      | _, _ => bad_case "newline_for args"
      end
  | _ => bad_case "newline_for arity"
  end.
Definition run_guess (args : list sx) : sx :=
  match args with
  | [d; enc] =>
      match sx_bytes d, sx_option sx_bytes enc with
      | Some d, Some enc =>
          sx_of_res (fun p => Li [sx_of_bytes (fst p); sx_of_bytes (snd p)]) (guess_line_endings_bytes d enc)
      | _, _ => bad_case "guess args"
      end
  | _ => bad_case "guess arity"
  end.

Definition table : list (String.string * (list sx -> sx)) :=
  [ ("split_lines", run_split_lines); ("codec", run_codec); ("newline_for", run_newline_for); ("guess", run_guess) ].

Fixpoint dispatch (t : list (String.string * (list sx -> sx))) (name : bytes) (args : list sx) : sx :=
  match t with
  | [] => bad_case "unknown entry"
  | (n, f) :: r => if beq name (B n) then f args else dispatch r name args
  end.

Definition run (s : sx) : sx :=
  match s with
  | Li (Sym name :: args) => dispatch table name args
  | _ => bad_case "not a call"
  end.
