"""Families over pydiffx.utils.text: split (C16), spelling/newline (C15), codec (model validation)."""
import itertools

import lib
from lib import H, T, L, Opt, Bool
from family import Family, hx, unhx

NEWLINES = [b'\n', b'\r\n', b'\n\x00', b'\x00\n', b'\r\x00\n\x00', b'\x00\r\x00\n',
            b'\n\x00\x00\x00', b'\x00\x00\x00\n', b'\r\x00\x00\x00\n\x00\x00\x00', b'\x00\x00\x00\r\x00\x00\x00\n']
ALPHA = [b'\r', b'\n', b'\x00', b' ', b'a']


def res_lines(f):
    try:
        r = f()
        return '(ok (' + ' '.join(H(x) for x in r) + '))'
    except AssertionError:
        return '(exc AssertionError)'
    except Exception as e:
        return '(exc %s)' % type(e).__name__


class Split(Family):
    name = 'split'
    rule = ('exhaustive byte strings over {CR,LF,NUL,space,a} up to a bounded length x 10 newline patterns x both modes, '
            'plus random longer strings; non-trivial = the data contains the newline at least once and at least one '
            'other byte; distinct by (data, newline, mode)')

    def cases(self, tier, rng, prop_id):
        maxlen = 4 if tier == 'quick' else 6
        for n in range(0, maxlen + 1):
            for tup in itertools.product(ALPHA, repeat=n):
                d = b''.join(tup)
                for nl in (NEWLINES if n <= 3 or tier != 'quick' else NEWLINES[:4]):
                    for k in (True, False):
                        yield dict(kind='exh%d' % n, data=hx(d), nl=hx(nl), keep=k)
        count = 1500 if tier == 'quick' else 20000
        for i in range(count):
            nl = rng.choice(NEWLINES)
            parts = []
            for _ in range(rng.randint(1, 12)):
                r = rng.random()
                if r < 0.35:
                    parts.append(nl)
                elif r < 0.5:
                    parts.append(nl[:rng.randint(0, len(nl))])
                elif r < 0.6:
                    parts.append(rng.choice(NEWLINES))
                else:
                    parts.append(bytes(rng.choice(b'\r\n\x00 ab\xff') for _ in range(rng.randint(0, 5))))
            yield dict(kind='random', data=hx(b''.join(parts)), nl=hx(nl), keep=rng.random() < 0.5)
        # empty newline (assertion)
        yield dict(kind='emptynl', data=hx(b'abc'), nl='', keep=True)

    def model_line(self, c):
        return L('split_lines', H(unhx(c['data'])), H(unhx(c['nl'])), Bool(c['keep']))

    def impl_obs(self, c):
        from pydiffx.utils.text import split_lines
        return res_lines(lambda: split_lines(unhx(c['data']), unhx(c['nl']), keep_ends=c['keep']))

    def nontrivial(self, c):
        d, nl = unhx(c['data']), unhx(c['nl'])
        return bool(nl) and nl in d and len(d) > len(nl)

    def oracle(self, c, obs):
        """C16 stated directly on the implementation."""
        from pydiffx.utils.text import split_lines
        d, nl = unhx(c['data']), unhx(c['nl'])
        if not d or not nl:
            return []
        out = []
        try:
            kept = split_lines(d, nl, keep_ends=True)
            bare = split_lines(d, nl, keep_ends=False)
        except Exception as e:
            return [('C16', 'exception', 'split_lines raised %s' % type(e).__name__)]
        if b''.join(kept) != d:
            out.append(('C16', 'concat', 'concatenating the kept-ends lines does not give back the data'))
        for i, line in enumerate(kept):
            last = i == len(kept) - 1
            if not last or d.endswith(nl):
                if not line.endswith(nl) or nl in line[:-len(nl)] or line.count(nl) != 1:
                    out.append(('C16', 'shape', 'line %d is not terminated by exactly one newline' % i))
                    break
            elif nl in line:
                out.append(('C16', 'shape', 'unterminated last line contains the newline'))
        expect = d.count(nl) + (0 if d.endswith(nl) else 1)
        if len(kept) != expect:
            out.append(('C16', 'count', 'line count %d != %d' % (len(kept), expect)))
        stripped = [l[:-len(nl)] if l.endswith(nl) else l for l in kept]
        if stripped != bare:
            out.append(('C16', 'modes', 'the two modes disagree'))
        return out


class CodecFam(Family):
    """Validates the ten Gallina codecs against CPython (model validation only; decides nothing by itself)."""
    name = 'codec'
    rule = ('encode of random texts / decode of random and mutated byte strings under the ten modelled codecs; '
            'non-trivial = the text has a non-ASCII code point or the bytes are not valid ASCII')
    NAMES = ['ascii', 'latin-1', 'utf-8', 'utf-8-sig', 'utf-16', 'utf-16-le', 'utf-16-be', 'utf-32', 'utf-32-le',
             'utf-32-be', 'UTF-16', 'U32', 'utf_8', 'nope']
    CPS = [0x41, 0x0a, 0x0d, 0x20, 0x7f, 0x80, 0xe9, 0xff, 0x100, 0x7ff, 0x800, 0xa41, 0x4100, 0xd7ff, 0xd800, 0xdfff,
           0xe000, 0xfeff, 0xfffe, 0xffff, 0x10000, 0x1f600, 0x10ffff, 0x00]

    def cases(self, tier, rng, prop_id):
        n = 1500 if tier == 'quick' else 20000
        for i in range(n):
            name = rng.choice(self.NAMES)
            if rng.random() < 0.5:
                t = ''.join(chr(rng.choice(self.CPS)) for _ in range(rng.randint(0, 6)))
                yield dict(kind='enc', name=name, text=hx(t.encode('utf-32-be', 'surrogatepass')))
            else:
                r = rng.random()
                if r < 0.5:
                    t = ''.join(chr(rng.choice(self.CPS)) for _ in range(rng.randint(0, 5)))
                    try:
                        b = t.encode(name if name != 'nope' else 'utf-8')
                    except UnicodeError:
                        b = t.encode('utf-8', 'surrogatepass')
                    b = bytearray(b)
                    if b and rng.random() < 0.5:
                        p = rng.randrange(len(b))
                        if rng.random() < 0.5:
                            b[p] = rng.randrange(256)
                        else:
                            del b[p]
                    b = bytes(b)
                else:
                    b = bytes(rng.choice([0, 0x0a, 0x41, 0x80, 0xbf, 0xc0, 0xc2, 0xd8, 0xdc, 0xe0, 0xed, 0xf0, 0xf4, 0xf5,
                                          0xfe, 0xff]) for _ in range(rng.randint(0, 8)))
                yield dict(kind='dec', name=name, data=hx(b))

    def model_line(self, c):
        if c['kind'] == 'enc':
            return L('codec', 'enc', H(c['name'].encode()), '(u #' + c['text'] + ')')
        return L('codec', 'dec', H(c['name'].encode()), '#' + c['data'])

    def impl_obs(self, c):
        try:
            if c['kind'] == 'enc':
                t = unhx(c['text']).decode('utf-32-be', 'surrogatepass')
                return '(ok %s)' % H(t.encode(c['name']))
            return '(ok %s)' % T(unhx(c['data']).decode(c['name']))
        except UnicodeEncodeError:
            return '(exc UnicodeEncodeError)'
        except UnicodeDecodeError:
            return '(exc UnicodeDecodeError)'
        except LookupError:
            return '(exc LookupError)'

    def nontrivial(self, c):
        raw = unhx(c.get('text') or c.get('data') or '')
        return any(x >= 0x80 for x in raw)
