(* WriterCanonFacts.v — C02: the writer model (Writer.v) emits only spec-conformant, canonical bytes.
   Proof file: no model definition is changed here.  Spec-side notions (spec_header, spec_key, spec_val,
   spec_convert) come from HeaderFacts.v; split_lines facts from TextFacts.v; the state invariant and the
   order theorem (C09) from WriterFacts.v.  These three are Required but NOT Imported (name clashes:
   HeaderFacts.render_header is the spec-side renderer, Writer.render_header the model's). *)
From Coq Require Import List Arith NArith ZArith Bool Strings.Byte Lia ZifyBool.
From Coq Require Import Sorting.Sorted Sorting.Permutation.
From Coq Require Strings.String.
From DX Require Import Bytes Res Codec Text Sections Header Json Writer.
From DX Require HeaderFacts TextFacts WriterFacts.
From DXGen Require GenSections GenText.
Import ListNotations.
Import String.StringSyntax.
Local Open Scope string_scope.
Local Open Scope list_scope.

(* ================================================================================================ *)
(** * 1. Sorting: [isort] sorts and permutes; lexicographic orders are total orders *)

Section Isort.
  Context {A : Type} (leb : A -> A -> bool).

  Lemma insert_sorted_perm : forall x l, Permutation (x :: l) (insert_sorted leb x l).
  Proof.
    induction l as [|y t IH]; cbn [insert_sorted]; [apply Permutation_refl|].
    destruct (leb x y); [apply Permutation_refl|].
    eapply perm_trans; [apply perm_swap|]. apply perm_skip. exact IH.
  Qed.

  Lemma isort_perm : forall l, Permutation l (isort leb l).
  Proof.
    unfold isort. induction l as [|x l IH]; cbn [fold_right]; [constructor|].
    eapply perm_trans; [apply perm_skip; exact IH|]. apply insert_sorted_perm.
  Qed.

  Hypothesis leb_total : forall a b, leb a b = true \/ leb b a = true.
  Hypothesis leb_trans : forall a b c, leb a b = true -> leb b c = true -> leb a c = true.

  Local Notation R := (fun a b => leb a b = true).

  Lemma insert_sorted_sorted : forall x l, StronglySorted R l -> StronglySorted R (insert_sorted leb x l).
  Proof.
    induction l as [|y t IH]; intros H; cbn [insert_sorted].
    - constructor; constructor.
    - inversion H as [|? ? Ht Hy]; subst. destruct (leb x y) eqn:E.
      + constructor; [exact H|]. constructor; [exact E|].
        eapply Forall_impl; [|exact Hy]. intros a Ha. cbv beta in *. eapply leb_trans; eauto.
      + constructor; [apply IH; exact Ht|].
        assert (Hyx : leb y x = true) by (destruct (leb_total x y); congruence).
        apply Forall_forall. intros z Hz.
        apply (Permutation_in _ (Permutation_sym (insert_sorted_perm x t))) in Hz.
        destruct Hz as [<-|Hz]; [exact Hyx|]. rewrite Forall_forall in Hy. apply Hy. exact Hz.
  Qed.

  Theorem isort_sorted : forall l, StronglySorted R (isort leb l).
  Proof.
    unfold isort. induction l as [|x l IH]; cbn [fold_right]; [constructor|].
    apply insert_sorted_sorted. exact IH.
  Qed.

  Corollary isort_Sorted : forall l, Sorted R (isort leb l).
  Proof. intros. apply StronglySorted_Sorted. apply isort_sorted. Qed.
End Isort.

(* a sorted list is determined by its elements when the order is antisymmetric on a key that is unique *)
Section SortedUnique.
  Context {A K : Type} (key : A -> K) (lebK : K -> K -> bool).
  Hypothesis lebK_antisym : forall a b, lebK a b = true -> lebK b a = true -> a = b.
  Local Notation R := (fun a b => lebK (key a) (key b) = true).

  Lemma nodup_key_inj : forall l a b, NoDup (map key l) -> In a l -> In b l -> key a = key b -> a = b.
  Proof.
    induction l as [|x t IH]; intros a b Hnd Ha Hb E; [contradiction|].
    cbn [map] in Hnd. inversion Hnd as [|? ? Hn Hnd']; subst.
    destruct Ha as [<-|Ha]; destruct Hb as [<-|Hb].
    - reflexivity.
    - exfalso. apply Hn. rewrite E. apply in_map. exact Hb.
    - exfalso. apply Hn. rewrite <- E. apply in_map. exact Ha.
    - apply IH; assumption.
  Qed.

  Theorem sorted_perm_unique : forall l1 l2, StronglySorted R l1 -> StronglySorted R l2 ->
    Permutation l1 l2 -> NoDup (map key l1) -> l1 = l2.
  Proof.
    induction l1 as [|x t1 IH]; intros l2 S1 S2 P Hnd.
    - apply Permutation_nil in P. congruence.
    - destruct l2 as [|y t2]; [apply Permutation_sym, Permutation_nil in P; discriminate|].
      inversion S1 as [|? ? St1 Hx]; subst. inversion S2 as [|? ? St2 Hy]; subst.
      rewrite Forall_forall in Hx, Hy.
      assert (Exy : x = y).
      { assert (Hyin : In y (x :: t1)) by (apply (Permutation_in _ (Permutation_sym P)); left; reflexivity).
        assert (Hxin : In x (y :: t2)) by (apply (Permutation_in _ P); left; reflexivity).
        destruct Hyin as [E|Hyin]; [exact E|]. destruct Hxin as [E|Hxin]; [symmetry; exact E|].
        apply (nodup_key_inj (x :: t1)); [exact Hnd|left; reflexivity|right; exact Hyin|].
        apply lebK_antisym; [apply Hx; exact Hyin|apply Hy; exact Hxin]. }
      subst y. f_equal. apply IH; try assumption.
      + eapply Permutation_cons_inv. exact P.
      + cbn [map] in Hnd. inversion Hnd. assumption.
  Qed.
End SortedUnique.

Section Lex.
  Context {A : Type} (ltb eqb : A -> A -> bool).
  Hypothesis eqb_spec : forall a b, eqb a b = true <-> a = b.
  Hypothesis ltb_irrefl : forall a, ltb a a = false.
  Hypothesis ltb_trans : forall a b c, ltb a b = true -> ltb b c = true -> ltb a c = true.
  Hypothesis ltb_tricho : forall a b, ltb a b = true \/ a = b \/ ltb b a = true.

  Lemma eqb_rfl : forall a, eqb a a = true.
  Proof. intros. apply eqb_spec. reflexivity. Qed.

  Lemma ltb_asym : forall a b, ltb a b = true -> ltb b a = false.
  Proof.
    intros a b H. destruct (ltb b a) eqn:E; [|reflexivity].
    rewrite <- (ltb_irrefl a). symmetry. eapply ltb_trans; eauto.
  Qed.

  Lemma ltb_not_eqb : forall a b, ltb a b = true -> eqb a b = false.
  Proof.
    intros a b H. destruct (eqb a b) eqn:E; [|reflexivity]. apply eqb_spec in E. subst.
    rewrite ltb_irrefl in H. discriminate.
  Qed.

  Theorem lex_leb_refl : forall a, lex_leb ltb eqb a a = true.
  Proof. induction a as [|x a IH]; cbn [lex_leb]; [reflexivity|]. rewrite ltb_irrefl, eqb_rfl. exact IH. Qed.

  Theorem lex_leb_total : forall a b, lex_leb ltb eqb a b = true \/ lex_leb ltb eqb b a = true.
  Proof.
    induction a as [|x a IH]; intros b; [left; reflexivity|].
    destruct b as [|y b]; [right; reflexivity|]. cbn [lex_leb].
    destruct (ltb_tricho x y) as [H|[H|H]].
    - left. rewrite H. reflexivity.
    - subst y. rewrite ltb_irrefl, eqb_rfl. apply IH.
    - right. rewrite H. reflexivity.
  Qed.

  Theorem lex_leb_trans : forall a b c,
    lex_leb ltb eqb a b = true -> lex_leb ltb eqb b c = true -> lex_leb ltb eqb a c = true.
  Proof.
    induction a as [|x a IH]; intros b c Hab Hbc; [reflexivity|].
    destruct b as [|y b]; [discriminate|]. destruct c as [|z c]; [discriminate|].
    cbn [lex_leb] in *.
    destruct (ltb x y) eqn:Lxy.
    - destruct (ltb y z) eqn:Lyz.
      + rewrite (ltb_trans _ _ _ Lxy Lyz). reflexivity.
      + destruct (eqb y z) eqn:Eyz; [|discriminate]. apply eqb_spec in Eyz. subst z. rewrite Lxy. reflexivity.
    - destruct (eqb x y) eqn:Exy; [|discriminate]. apply eqb_spec in Exy. subst y.
      destruct (ltb x z); [reflexivity|]. destruct (eqb x z); [|discriminate]. eapply IH; eauto.
  Qed.

  Theorem lex_leb_antisym : forall a b,
    lex_leb ltb eqb a b = true -> lex_leb ltb eqb b a = true -> a = b.
  Proof.
    induction a as [|x a IH]; intros b Hab Hba.
    - destruct b; [reflexivity|discriminate].
    - destruct b as [|y b]; [discriminate|]. cbn [lex_leb] in *.
      destruct (ltb x y) eqn:Lxy.
      + rewrite (ltb_asym _ _ Lxy) in Hba. pose proof (ltb_not_eqb _ _ Lxy) as Ne.
        destruct (eqb y x) eqn:E; [|discriminate]. apply eqb_spec in E. subst.
        rewrite eqb_rfl in Ne. discriminate.
      + destruct (eqb x y) eqn:Exy; [|discriminate]. apply eqb_spec in Exy. subst y.
        rewrite Lxy, eqb_rfl in Hba. f_equal. apply IH; assumption.
  Qed.
End Lex.

(* byte values and code points *)
Lemma byte_n_inj : forall a b, byte_n a = byte_n b -> a = b.
Proof.
  intros a b H. unfold byte_n in H. assert (E : Some a = Some b) by (rewrite <- !Byte.of_to_N, H; reflexivity).
  congruence.
Qed.

Lemma n_byte_byte_n : forall b, n_byte (byte_n b) = b.
Proof. intros. unfold n_byte, byte_n. rewrite Byte.of_to_N. reflexivity. Qed.

Lemma byte_n_lt_256 : forall b, (byte_n b < 256)%N.
Proof. intros. unfold byte_n. pose proof (Byte.to_N_bounded b). lia. Qed.

Local Notation bltb := (fun x y : byte => N.ltb (byte_n x) (byte_n y)).

Lemma bltb_tricho : forall a b : byte, bltb a b = true \/ a = b \/ bltb b a = true.
Proof.
  intros a b. destruct (N.lt_trichotomy (byte_n a) (byte_n b)) as [H|[H|H]].
  - left. apply N.ltb_lt. exact H.
  - right. left. apply byte_n_inj. exact H.
  - right. right. apply N.ltb_lt. exact H.
Qed.

Theorem bytes_leb_total : forall a b, bytes_leb a b = true \/ bytes_leb b a = true.
Proof.
  apply lex_leb_total.
  - exact HeaderFacts.byte_eqb_spec.
  - intros. apply N.ltb_irrefl.
  - exact bltb_tricho.
Qed.

Theorem bytes_leb_trans : forall a b c, bytes_leb a b = true -> bytes_leb b c = true -> bytes_leb a c = true.
Proof.
  apply lex_leb_trans.
  - exact HeaderFacts.byte_eqb_spec.
  - intros a b c H1 H2. apply N.ltb_lt in H1, H2. apply N.ltb_lt. lia.
Qed.

Theorem bytes_leb_antisym : forall a b, bytes_leb a b = true -> bytes_leb b a = true -> a = b.
Proof.
  apply lex_leb_antisym.
  - exact HeaderFacts.byte_eqb_spec.
  - intros. apply N.ltb_irrefl.
  - intros a b c H1 H2. apply N.ltb_lt in H1, H2. apply N.ltb_lt. lia.
Qed.

Theorem bytes_leb_refl : forall a, bytes_leb a a = true.
Proof. apply lex_leb_refl; [exact HeaderFacts.byte_eqb_spec|intros; apply N.ltb_irrefl]. Qed.

Lemma nltb_tricho : forall a b : N, N.ltb a b = true \/ a = b \/ N.ltb b a = true.
Proof.
  intros a b. destruct (N.lt_trichotomy a b) as [H|[H|H]];
    [left; apply N.ltb_lt; exact H|right; left; exact H|right; right; apply N.ltb_lt; exact H].
Qed.

Theorem text_leb_total : forall a b, text_leb a b = true \/ text_leb b a = true.
Proof. apply lex_leb_total; [exact N.eqb_eq|exact N.ltb_irrefl|exact nltb_tricho]. Qed.

Theorem text_leb_trans : forall a b c, text_leb a b = true -> text_leb b c = true -> text_leb a c = true.
Proof.
  apply lex_leb_trans; [exact N.eqb_eq|].
  intros a b c H1 H2. apply N.ltb_lt in H1, H2. apply N.ltb_lt. lia.
Qed.

Theorem text_leb_antisym : forall a b, text_leb a b = true -> text_leb b a = true -> a = b.
Proof.
  apply lex_leb_antisym; [exact N.eqb_eq|exact N.ltb_irrefl|].
  intros a b c H1 H2. apply N.ltb_lt in H1, H2. apply N.ltb_lt. lia.
Qed.

(* the order on option lists / JSON members: by key *)
Definition key_le {V} (a b : bytes * V) : Prop := bytes_leb (fst a) (fst b) = true.
Definition tkey_le {V} (a b : text * V) : Prop := text_leb (fst a) (fst b) = true.

Theorem sort_opts_sorted : forall {V} (o : list (bytes * V)), StronglySorted key_le (sort_opts o).
Proof.
  intros V o. unfold sort_opts, key_le. apply (isort_sorted (fun a b : bytes * V => bytes_leb (fst a) (fst b))).
  - intros a b. apply bytes_leb_total.
  - intros a b c. apply bytes_leb_trans.
Qed.

Theorem sort_opts_perm : forall {V} (o : list (bytes * V)), Permutation o (sort_opts o).
Proof. intros. unfold sort_opts. apply isort_perm. Qed.

(* canonical: the rendered order does not depend on the insertion order of the options dict *)
Theorem sort_opts_canonical : forall {V} (o o' : list (bytes * V)),
  Permutation o o' -> NoDup (map fst o) -> sort_opts o = sort_opts o'.
Proof.
  intros V o o' P Hnd.
  apply (sorted_perm_unique (@fst bytes V) bytes_leb bytes_leb_antisym).
  - apply sort_opts_sorted.
  - apply sort_opts_sorted.
  - eapply perm_trans; [apply Permutation_sym, sort_opts_perm|].
    eapply perm_trans; [exact P|apply sort_opts_perm].
  - eapply Permutation_NoDup; [|exact Hnd]. apply Permutation_map. apply sort_opts_perm.
Qed.

Theorem sort_kb_sorted : forall kv, StronglySorted tkey_le (sort_kb kv).
Proof.
  intros kv. unfold sort_kb, tkey_le. apply (isort_sorted (fun a b : text * bytes => text_leb (fst a) (fst b))).
  - intros a b. apply text_leb_total.
  - intros a b c. apply text_leb_trans.
Qed.

Theorem sort_kb_perm : forall kv, Permutation kv (sort_kb kv).
Proof. intros. unfold sort_kb. apply isort_perm. Qed.

Theorem sort_kb_canonical : forall kv kv', Permutation kv kv' -> NoDup (map fst kv) -> sort_kb kv = sort_kb kv'.
Proof.
  intros kv kv' P Hnd.
  apply (sorted_perm_unique (@fst text bytes) text_leb text_leb_antisym).
  - apply sort_kb_sorted.
  - apply sort_kb_sorted.
  - eapply perm_trans; [apply Permutation_sym, sort_kb_perm|].
    eapply perm_trans; [exact P|apply sort_kb_perm].
  - eapply Permutation_NoDup; [|exact Hnd]. apply Permutation_map. apply sort_kb_perm.
Qed.

(* ================================================================================================ *)
(** * 2. The rendered header: shape, order, ASCII *)

Definition ascii_byte (b : byte) : Prop := (byte_n b < 128)%N.

Lemma byte_n_n_byte : forall c, (c < 256)%N -> byte_n (n_byte c) = c.
Proof.
  intros c H. unfold byte_n, n_byte. destruct (Byte.of_N c) as [y|] eqn:E.
  - apply Byte.to_of_N. exact E.
  - apply Byte.of_N_None_iff in E. lia.
Qed.

Lemma map_n_byte_ascii_text : forall b, map n_byte (ascii_text b) = b.
Proof.
  intros b. unfold ascii_text. rewrite map_map. rewrite <- (map_id b) at 2.
  apply map_ext. intros. apply n_byte_byte_n.
Qed.

Lemma ascii_text_inj : forall a b, ascii_text a = ascii_text b -> a = b.
Proof. intros a b H. rewrite <- (map_n_byte_ascii_text a), H. apply map_n_byte_ascii_text. Qed.

Lemma ascii_text_map_n_byte : forall t, Forall (fun c => (c < 256)%N) t -> ascii_text (map n_byte t) = t.
Proof.
  intros t H. unfold ascii_text. rewrite map_map. rewrite <- (map_id t) at 2.
  apply map_ext_in. intros c Hc. rewrite Forall_forall in H. apply byte_n_n_byte. apply H. exact Hc.
Qed.

(* s.encode('ascii') succeeds exactly on code points < 128 and is then the identity on values *)
Lemma enc_ascii_spec : forall t b, c_enc ascii t = Some b -> t = ascii_text b /\ Forall ascii_byte b.
Proof.
  cbn [c_enc ascii]. induction t as [|c t IH]; intros b H; cbn [enc_all] in H.
  - inversion H; subst. split; [reflexivity|constructor].
  - unfold enc1 at 1 in H. destruct (N.ltb c 128) eqn:Ec; [|discriminate].
    destruct (enc_all (enc1 128) t) as [b'|] eqn:E; [|discriminate]. inversion H; subst.
    destruct (IH b' eq_refl) as [-> Hb']. apply N.ltb_lt in Ec.
    cbn [app ascii_text map]. rewrite byte_n_n_byte by lia. split; [reflexivity|].
    constructor; [unfold ascii_byte; rewrite byte_n_n_byte by lia; exact Ec|exact Hb'].
Qed.

Lemma enc_ascii_complete : forall b, Forall ascii_byte b -> c_enc ascii (ascii_text b) = Some b.
Proof.
  cbn [c_enc ascii]. induction b as [|x b IH]; intros H; [reflexivity|].
  inversion H as [|? ? Hx Hb]; subst. cbn [ascii_text map enc_all]. unfold enc1 at 1.
  unfold ascii_byte in Hx. apply N.ltb_lt in Hx. rewrite Hx.
  change (map byte_n b) with (ascii_text b). rewrite (IH Hb). rewrite n_byte_byte_n. reflexivity.
Qed.

Section JoinFacts.
  Context {A C : Type}.
  Lemma map_join : forall (f : A -> C) sep ps, map f (join sep ps) = join (map f sep) (map (map f) ps).
  Proof.
    intros f sep. induction ps as [|p ps IH]; [reflexivity|]. destruct ps as [|q ps]; [reflexivity|].
    change (join sep (p :: q :: ps)) with (p ++ sep ++ join sep (q :: ps)).
    cbn [map]. change (join (map f sep) (map f p :: map f q :: map (map f) ps))
      with (map f p ++ map f sep ++ join (map f sep) (map (map f) (q :: ps))).
    rewrite !map_app, IH. reflexivity.
  Qed.

  Lemma In_join : forall (sep : list A) ps p x, In p ps -> In x p -> In x (join sep ps).
  Proof.
    intros sep. induction ps as [|q ps IH]; intros p x Hp Hx; [contradiction|].
    destruct ps as [|r ps].
    - destruct Hp as [->|[]]. exact Hx.
    - change (join sep (q :: r :: ps)) with (q ++ sep ++ join sep (r :: ps)).
      destruct Hp as [->|Hp]; [apply in_or_app; left; exact Hx|].
      apply in_or_app. right. apply in_or_app. right. eapply IH; eauto.
  Qed.

  Lemma Forall_join : forall (P : A -> Prop) sep ps, Forall P sep -> Forall (Forall P) ps -> Forall P (join sep ps).
  Proof.
    intros P sep. induction ps as [|q ps IH]; intros Hs Hps; [constructor|].
    inversion Hps as [|? ? Hq Hr]; subst. destruct ps as [|r ps]; [exact Hq|].
    change (join sep (q :: r :: ps)) with (q ++ sep ++ join sep (r :: ps)).
    apply Forall_app. split; [exact Hq|]. apply Forall_app. split; [exact Hs|]. apply IH; assumption.
  Qed.

  Lemma join_nil_head : forall (sep p : list A) r, join sep (p :: r) = [] -> p = [].
  Proof.
    intros sep p r H. destruct r; [exact H|].
    change (join sep (p :: l :: r)) with (p ++ sep ++ join sep (l :: r)) in H.
    apply app_eq_nil in H. tauto.
  Qed.
End JoinFacts.

Lemma Forall2_map_r_In {A C D} (R : A -> C -> Prop) (R' : A -> D -> Prop) (f : C -> D) :
  forall l1 l2, (forall a b, In b l2 -> R a b -> R' a (f b)) -> Forall2 R l1 l2 -> Forall2 R' l1 (map f l2).
Proof.
  intros l1 l2 H F. induction F as [|a b l1 l2 Hab F IH]; [constructor|].
  cbn [map]. constructor.
  - apply H; [left; reflexivity|exact Hab].
  - apply IH. intros a' b' Hin. apply H. right. exact Hin.
Qed.

Section FilterFacts.
  Context {A : Type} (f : A -> bool).
  Lemma filter_perm : forall l l', Permutation l l' -> Permutation (filter f l) (filter f l').
  Proof.
    intros l l' P. induction P as [|x l l' P IH|x y l|l l' l'' P1 IH1 P2 IH2]; cbn [filter].
    - constructor.
    - destruct (f x); [apply perm_skip|]; exact IH.
    - destruct (f x), (f y); try apply Permutation_refl. apply perm_swap.
    - eapply perm_trans; eauto.
  Qed.

  Lemma filter_strongly_sorted : forall (R : A -> A -> Prop) l, StronglySorted R l -> StronglySorted R (filter f l).
  Proof.
    intros R l S. induction S as [|a l S IH Ha]; cbn [filter]; [constructor|].
    destruct (f a); [|exact IH]. constructor; [exact IH|].
    apply Forall_forall. intros x Hx. apply filter_In in Hx. rewrite Forall_forall in Ha. apply Ha. tauto.
  Qed.
End FilterFacts.

(* the options that are rendered: those whose value is not None *)
Definition is_present (kv : bytes * wv) : bool := match snd kv with WNone => false | _ => true end.
Definition present (o : list (bytes * wv)) : list (bytes * wv) := filter is_present o.

(* one rendered pair, as text (before .encode('ascii')) *)
Definition tpair_of (kv : bytes * wv) (p : text) : Prop :=
  exists f, fmt_value (snd kv) = Ok f /\ p = ascii_text (fst kv) ++ [61%N] ++ f.

(* one rendered pair, as bytes: key "=" value, the value being '%s' % v, everything ASCII *)
Definition pair_of (kv : bytes * wv) (p : bytes) : Prop :=
  exists vb, fmt_value (snd kv) = Ok (ascii_text vb) /\ Forall ascii_byte vb /\ Forall ascii_byte (fst kv) /\
             p = fst kv ++ B "=" ++ vb.

Lemma render_pairs_shape : forall o ps, render_pairs o = Ok ps -> Forall2 tpair_of (present o) ps.
Proof.
  induction o as [|[k v] t IH]; intros ps H.
  - inversion H; subst. constructor.
  - destruct v; cbn [render_pairs present filter is_present snd] in *; try (apply IH; exact H);
      (destruct (fmt_value _) as [f|] eqn:Ef; cbn [bind] in H; [|discriminate];
       destruct (render_pairs t) as [r|] eqn:Er; cbn [bind] in H; [|discriminate];
       inversion H; subst; constructor; [exists f; split; [exact Ef|reflexivity]|apply IH; reflexivity]).
Qed.

Lemma render_pairs_complete : forall o ps, Forall2 tpair_of (present o) ps -> render_pairs o = Ok ps.
Proof.
  induction o as [|[k v] t IH]; intros ps H.
  - inversion H; subst. reflexivity.
  - destruct v; cbn [render_pairs present filter is_present snd] in *; try (apply IH; exact H);
      (inversion H as [|? p ? r (f & Hf & Hp) Hr]; subst; cbn [fst snd] in *;
       cbn [fmt_value] in Hf |- *; try discriminate Hf; try rewrite Hf; cbn [bind]; rewrite (IH r Hr); reflexivity).
Qed.

Theorem present_sort_sorted : forall opts, StronglySorted key_le (present (sort_opts opts)).
Proof. intros. unfold present. apply filter_strongly_sorted. apply sort_opts_sorted. Qed.

Theorem present_sort_perm : forall opts, Permutation (present opts) (present (sort_opts opts)).
Proof. intros. unfold present. apply filter_perm. apply sort_opts_perm. Qed.

Definition header_tail (pairs : list bytes) : bytes :=
  match pairs with [] => [] | _ :: _ => B " " ++ join (B ", ") pairs end.

Theorem C02_header_shape : forall section opts h, render_header section opts = Ok h ->
  exists pairs, Forall2 pair_of (present (sort_opts opts)) pairs /\
                h = B "#" ++ section ++ B ":" ++ header_tail pairs ++ [x0a].
Proof.
  intros section opts h H. unfold render_header in H.
  destruct (render_pairs (sort_opts opts)) as [ps|] eqn:Ep; cbn [bind] in H; [|discriminate].
  apply render_pairs_shape in Ep.
  destruct (nonempty (join (ascii_text (B ", ")) ps)) eqn:En.
  - unfold encode_ascii in H.
    destruct (c_enc ascii (join (ascii_text (B ", ")) ps)) as [ob|] eqn:Ec; cbn [bind] in H; [|discriminate].
    inversion H; subst h. clear H. apply enc_ascii_spec in Ec. destruct Ec as [Ej Hob].
    exists (map (map n_byte) ps).
    assert (Hall : forall p c, In p ps -> In c p -> (c < 128)%N).
    { intros p c Hp Hc. assert (Hin : In c (ascii_text ob)) by (rewrite <- Ej; eapply In_join; eauto).
      unfold ascii_text in Hin. apply in_map_iff in Hin. destruct Hin as (x & <- & Hx).
      rewrite Forall_forall in Hob. apply Hob. exact Hx. }
    split.
    + eapply Forall2_map_r_In; [|exact Ep]. intros [k v] p Hin (f & Hf & ->). cbn [fst snd] in *.
      assert (Hf128 : forall c, In c f -> (c < 128)%N).
      { intros c Hc. apply (Hall _ c Hin). apply in_or_app. right. right. exact Hc. }
      exists (map n_byte f). split; [|split; [|split]].
      * rewrite ascii_text_map_n_byte; [exact Hf|]. apply Forall_forall. intros c Hc. apply Hf128 in Hc. lia.
      * apply Forall_forall. intros x Hx. apply in_map_iff in Hx. destruct Hx as (c & <- & Hc).
        unfold ascii_byte. apply Hf128 in Hc. rewrite byte_n_n_byte by lia. exact Hc.
      * apply Forall_forall. intros x Hx. unfold ascii_byte. apply (Hall _ _ Hin).
        apply in_or_app. left. unfold ascii_text. apply in_map. exact Hx.
      * rewrite !map_app, map_n_byte_ascii_text. reflexivity.
    + assert (Hob_eq : ob = join (B ", ") (map (map n_byte) ps)).
      { rewrite <- (map_n_byte_ascii_text ob), <- Ej, map_join. reflexivity. }
      destruct ps as [|p ps']; [discriminate En|]. cbn [map header_tail].
      change (map n_byte p :: map (map n_byte) ps') with (map (map n_byte) (p :: ps')). rewrite <- Hob_eq.
      change (B ": ") with (B ":" ++ B " "). rewrite <- !app_assoc. reflexivity.
  - inversion H; subst h. clear H. exists []. split; [|reflexivity].
    destruct ps as [|p ps'].
    + inversion Ep. constructor.
    + exfalso. destruct (join (ascii_text (B ", ")) (p :: ps')) eqn:Ej; [|discriminate En].
      apply join_nil_head in Ej. subst p. inversion Ep as [|? ? ? ? (f & _ & Hp) _]; subst.
      destruct (ascii_text (fst x)); discriminate Hp.
Qed.

Theorem C02_header_ascii : forall section opts h, Forall ascii_byte section ->
  render_header section opts = Ok h -> Forall ascii_byte h.
Proof.
  intros section opts h Hs H. apply C02_header_shape in H. destruct H as (pairs & HF & ->).
  assert (Hc : forall s, Forall ascii_byte (B s) <-> forallb (fun b => N.ltb (byte_n b) 128) (B s) = true).
  { intros s. rewrite forallb_forall, Forall_forall. unfold ascii_byte. split; intros H x Hx.
    - apply N.ltb_lt. auto. - apply N.ltb_lt. auto. }
  repeat (apply Forall_app; split); try exact Hs; try (apply Hc; reflexivity).
  - unfold header_tail. destruct pairs as [|p ps]; [constructor|].
    apply Forall_app. split; [apply Hc; reflexivity|]. apply Forall_join; [apply Hc; reflexivity|].
    apply Forall_forall. intros q Hq.
    assert (Hex : exists kv, pair_of kv q).
    { clear -HF Hq. induction HF as [|a b l1 l2 Hab F IH]; [contradiction|].
      destruct Hq as [<-|Hq]; [eauto|auto]. }
    destruct Hex as (kv & vb & _ & Hvb & Hk & ->).
    repeat (apply Forall_app; split); try assumption. apply Hc. reflexivity.
  - constructor; [|constructor]. unfold ascii_byte. vm_compute. reflexivity.
Qed.

Lemma Forall2_In_l {A C} (R : A -> C -> Prop) : forall l1 l2 a, Forall2 R l1 l2 -> In a l1 -> exists b, In b l2 /\ R a b.
Proof.
  intros l1 l2 a F. induction F as [|x y l1 l2 Hxy F IH]; intros Hin; [contradiction|].
  destruct Hin as [<-|Hin]; [exists y; split; [left; reflexivity|exact Hxy]|].
  destruct (IH Hin) as (b & Hb & Hr). exists b. split; [right; exact Hb|exact Hr].
Qed.

(* an integer option present in the dict appears in the header as key=<decimal> *)
Theorem C02_header_int_pair : forall section opts h k z, render_header section opts = Ok h ->
  In (k, WInt z) opts ->
  exists pairs, h = B "#" ++ section ++ B ":" ++ header_tail pairs ++ [x0a] /\ In (k ++ B "=" ++ Z_to_dec z) pairs.
Proof.
  intros section opts h k z H Hin. apply C02_header_shape in H. destruct H as (pairs & HF & ->).
  exists pairs. split; [reflexivity|].
  assert (Hp : In (k, WInt z) (present (sort_opts opts))).
  { apply (Permutation_in _ (present_sort_perm opts)). unfold present. apply filter_In. split; [exact Hin|reflexivity]. }
  destruct (Forall2_In_l _ _ _ _ HF Hp) as (p & Hpin & vb & Hf & _ & _ & ->). cbn [fst snd fmt_value] in *.
  inversion Hf as [E]. apply ascii_text_inj in E. subst vb. exact Hpin.
Qed.

(* ================================================================================================ *)
(** * 4. Content sections: the length option is the exact byte count of what follows the header *)

Definition content_opts (body : bytes) (le_out enc indent : wv) (write_le : bool) (extra : list (bytes * wv))
  : list (bytes * wv) :=
  let ho := dict_set "length" (WInt (Z.of_nat (length body)))
              (dict_set "indent" indent (dict_set "encoding" enc extra)) in
  if write_le then dict_set "line_endings" le_out ho else ho.

Lemma content_opts_length : forall body le_out enc indent write_le extra,
  assoc_get beq (B "length") (content_opts body le_out enc indent write_le extra)
  = Some (WInt (Z.of_nat (length body))).
Proof.
  intros. unfold content_opts, dict_set. destruct write_le.
  - rewrite (HeaderFacts.assoc_get_set beq HeaderFacts.beq_spec).
    change (beq (B "length") (B "line_endings")) with false. cbv iota.
    rewrite (HeaderFacts.assoc_get_set beq HeaderFacts.beq_spec). reflexivity.
  - rewrite (HeaderFacts.assoc_get_set beq HeaderFacts.beq_spec). reflexivity.
Qed.

Theorem C02_length_exact : forall name content le enc indent write_le inherit extra s s',
  new_content_section name content le enc indent write_le inherit extra s = (s', Ok tt) ->
  exists body le_out h,
    prepare_content s content indent le enc inherit = Ok (body, le_out) /\
    render_header (build_id (cur_level s) name) (content_opts body le_out enc indent write_le extra) = Ok h /\
    assoc_get beq (B "length") (content_opts body le_out enc indent write_le extra)
      = Some (WInt (Z.of_nat (length body))) /\
    w_out s' = w_out s ++ h ++ body /\
    w_prev s' = Some (build_id (cur_level s) name) /\
    w_stack s' = w_stack s.
Proof.
  intros name content le enc indent write_le inherit extra s s' H.
  rewrite WriterFacts.ncontent_eq in H. rewrite Nat.add_sub in H.
  destruct (validate_section s _) as [[]|e]; [|inversion H].
  destruct (prepare_content s content indent le enc inherit) as [[body le_out]|e]; [|inversion H].
  cbv zeta in H. fold (content_length body) in H.
  change (if write_le
          then dict_set "line_endings" le_out
                 (dict_set "length" (content_length body) (dict_set "indent" indent (dict_set "encoding" enc extra)))
          else dict_set "length" (content_length body) (dict_set "indent" indent (dict_set "encoding" enc extra)))
    with (content_opts body le_out enc indent write_le extra) in H.
  destruct (render_header _ _) as [h|e] eqn:Eh; [|inversion H]. inversion H; subst s'. clear H.
  exists body, le_out, h. cbn [w_out w_prev w_stack].
  split; [reflexivity|]. split; [exact Eh|]. split; [apply content_opts_length|].
  split; [rewrite app_assoc; reflexivity|]. split; reflexivity.
Qed.

(* ... and the header really shows that number, in decimal *)
Corollary C02_length_in_header : forall name content le enc indent write_le inherit extra s s',
  new_content_section name content le enc indent write_le inherit extra s = (s', Ok tt) ->
  exists body pairs,
    w_out s' = w_out s ++ (B "#" ++ build_id (cur_level s) name ++ B ":" ++ header_tail pairs ++ [x0a]) ++ body /\
    In (B "length=" ++ Z_to_dec (Z.of_nat (length body))) pairs.
Proof.
  intros name content le enc indent write_le inherit extra s s' H.
  apply C02_length_exact in H. destruct H as (body & le_out & h & _ & Hh & Hl & Ho & _).
  apply WriterFacts.assoc_get_In in Hl.
  destruct (C02_header_int_pair _ _ _ _ _ Hh Hl) as (pairs & -> & Hin).
  exists body, pairs. split; [exact Ho|exact Hin].
Qed.

(* ================================================================================================ *)
(** * 3. Round trip of a rendered header through the reader's header parser *)

(** ** 3a. decimal rendering of integers: [Z_to_dec] is read back by [convert_value] *)

Lemma digit_byte : forall m, (m < 10)%N ->
  is_digit (n_byte (48 + m)) = true /\ (byte_n (n_byte (48 + m)) - 48 = m)%N.
Proof.
  intros m H. unfold is_digit, in_range. rewrite byte_n_n_byte by lia. split; [|lia].
  apply andb_true_iff. split; apply N.leb_le; lia.
Qed.

Local Notation all_digits l := (Forall (fun b => is_digit b = true) l).

Lemma N_digits_fuel_digits : forall f n acc, all_digits acc -> all_digits (N_digits_fuel f n acc).
Proof.
  induction f as [|f IH]; intros n acc H; cbn [N_digits_fuel]; [exact H|]. cbv zeta.
  assert (Hd : all_digits (n_byte (48 + N.modulo n 10) :: acc)).
  { constructor; [|exact H]. apply digit_byte. apply N.mod_lt. discriminate. }
  destruct (N.eqb (N.div n 10) 0); [exact Hd|apply IH; exact Hd].
Qed.

Lemma N_digits_fuel_nonempty : forall f n acc, acc <> [] -> N_digits_fuel f n acc <> [].
Proof.
  induction f as [|f IH]; intros n acc H; cbn [N_digits_fuel]; [exact H|]. cbv zeta.
  destruct (N.eqb (N.div n 10) 0); [discriminate|apply IH; discriminate].
Qed.

Lemma dec_fold_lin : forall l a,
  fold_left (fun acc b => (acc * 10 + (byte_n b - 48))%N) l a
  = (a * 10 ^ N.of_nat (length l) + fold_left (fun acc b => (acc * 10 + (byte_n b - 48))%N) l 0)%N.
Proof.
  induction l as [|d t IH]; intros a; cbn [fold_left length].
  - change (N.of_nat 0) with 0%N. rewrite N.pow_0_r. lia.
  - rewrite IH. rewrite (IH (0 * 10 + (byte_n d - 48))%N).
    rewrite Nat2N.inj_succ, N.pow_succ_r'. set (P := (10 ^ N.of_nat (length t))%N). lia.
Qed.

Lemma dec_to_N_cons : forall d l,
  dec_to_N (d :: l) = ((byte_n d - 48) * 10 ^ N.of_nat (length l) + dec_to_N l)%N.
Proof. intros. unfold dec_to_N. cbn [fold_left]. rewrite dec_fold_lin. lia. Qed.

Lemma N_digits_fuel_value : forall f n acc, (n < 2 ^ N.of_nat f)%N ->
  dec_to_N (N_digits_fuel f n acc) = (n * 10 ^ N.of_nat (length acc) + dec_to_N acc)%N.
Proof.
  induction f as [|f IH]; intros n acc H.
  - change (N.of_nat 0) with 0%N in H. rewrite N.pow_0_r in H. assert (n = 0%N) by lia. subst n.
    cbn [N_digits_fuel]. lia.
  - cbn [N_digits_fuel]. cbv zeta.
    assert (Hm : (N.modulo n 10 < 10)%N) by (apply N.mod_lt; discriminate).
    assert (Hdm : n = (10 * N.div n 10 + N.modulo n 10)%N) by (apply N.div_mod; discriminate).
    destruct (digit_byte _ Hm) as [_ Hv].
    rewrite Nat2N.inj_succ, N.pow_succ_r' in H.
    set (q := N.div n 10) in *. set (m := N.modulo n 10) in *. clearbody q m.
    destruct (N.eqb q 0) eqn:Eq.
    + apply N.eqb_eq in Eq. rewrite dec_to_N_cons, Hv. subst q. replace m with n by lia. reflexivity.
    + apply N.eqb_neq in Eq. rewrite IH by lia. rewrite dec_to_N_cons, Hv. cbn [length].
      rewrite Nat2N.inj_succ, N.pow_succ_r'. set (P := (10 ^ N.of_nat (length acc))%N).
      rewrite Hdm. lia.
Qed.

Lemma N_to_dec_value : forall n, dec_to_N (N_to_dec n) = n.
Proof.
  intros n. unfold N_to_dec. rewrite N_digits_fuel_value.
  - cbn [length]. change (N.of_nat 0) with 0%N. rewrite N.pow_0_r. unfold dec_to_N. cbn [fold_left]. lia.
  - rewrite Nat2N.inj_succ, N2Nat.id. destruct n as [|p]; [reflexivity|]. apply N.log2_spec. lia.
Qed.

Lemma N_to_dec_digits : forall n, all_digits (N_to_dec n) /\ N_to_dec n <> [].
Proof.
  intros n. unfold N_to_dec. split; [apply N_digits_fuel_digits; constructor|].
  cbn [N_digits_fuel]. cbv zeta. destruct (N.eqb _ 0); [discriminate|apply N_digits_fuel_nonempty; discriminate].
Qed.

Lemma N_digits_fuel_len : forall f n acc k, (n < 10 ^ N.of_nat k)%N -> 1 <= k ->
  length (N_digits_fuel f n acc) <= length acc + k.
Proof.
  induction f as [|f IH]; intros n acc k H Hk; cbn [N_digits_fuel]; [lia|]. cbv zeta.
  assert (Hdm : n = (10 * N.div n 10 + N.modulo n 10)%N) by (apply N.div_mod; discriminate).
  set (q := N.div n 10) in *. set (m := N.modulo n 10) in *. clearbody q m.
  destruct (N.eqb q 0) eqn:Eq; [cbn [length]; lia|]. apply N.eqb_neq in Eq.
  destruct k as [|k]; [lia|]. rewrite Nat2N.inj_succ, N.pow_succ_r' in H.
  destruct k as [|k].
  - change (N.of_nat 0) with 0%N in H. rewrite N.pow_0_r in H. lia.
  - specialize (IH q (n_byte (48 + m) :: acc) (S k)). cbn [length] in IH.
    assert (length (N_digits_fuel f q (n_byte (48 + m) :: acc)) <= S (length acc) + S k); [|lia].
    apply IH; [|lia]. set (P := (10 ^ N.of_nat (S k))%N) in *. lia.
Qed.

(* sys.get_int_max_str_digits(): the reader leaves longer digit strings as strings *)
Definition small_int (z : Z) : Prop := length (digits_of (Z_to_dec z)) <= HeaderFacts.max_digits.

Lemma digits_of_digits : forall v, all_digits v -> digits_of v = v.
Proof.
  intros v H. destruct v as [|c t]; [reflexivity|]. inversion H; subst. cbn [digits_of].
  rewrite HeaderFacts.digit_not_minus by assumption. reflexivity.
Qed.

Lemma small_int_bound : forall z, (Z.abs_N z < 10 ^ 4300)%N -> small_int z.
Proof.
  intros z H. unfold small_int.
  assert (Hn : forall n, (n < 10 ^ 4300)%N -> length (N_to_dec n) <= HeaderFacts.max_digits).
  { intros n Hlt. unfold N_to_dec. change HeaderFacts.max_digits with (length (@nil byte) + 4300).
    apply N_digits_fuel_len; [|lia]. replace (N.of_nat 4300) with 4300%N by (vm_compute; reflexivity). exact Hlt. }
  destruct z as [|p|p]; unfold Z_to_dec.
  - cbn. unfold HeaderFacts.max_digits. lia.
  - rewrite digits_of_digits by apply N_to_dec_digits. apply Hn. exact H.
  - change (B "-" ++ N_to_dec (N.pos p)) with ("-"%byte :: N_to_dec (N.pos p)). cbn [digits_of].
    change (byte_eqb "-" "-") with true. cbv iota. apply Hn. exact H.
Qed.

Lemma convert_value_digits : forall v, v <> [] -> all_digits v -> length v <= HeaderFacts.max_digits ->
  convert_value v = VInt (Z.of_N (dec_to_N v)).
Proof.
  intros v Hne Hd Hl. unfold convert_value. rewrite (digits_of_digits v Hd).
  change int_max_str_digits with HeaderFacts.max_digits. apply Nat.leb_le in Hl. rewrite Hl.
  destruct v as [|c t]; [congruence|]. unfold int_ok.
  assert (Ec : byte_eqb c "-"%byte = false) by (inversion Hd; subst; apply HeaderFacts.digit_not_minus; assumption).
  rewrite Ec. apply HeaderFacts.all_b_Forall in Hd. rewrite Hd. reflexivity.
Qed.

Lemma convert_value_neg_digits : forall t, t <> [] -> all_digits t -> length t <= HeaderFacts.max_digits ->
  convert_value ("-"%byte :: t) = VInt (- Z.of_N (dec_to_N t)).
Proof.
  intros t Hne Hd Hl. unfold convert_value, int_ok, digits_of.
  change (byte_eqb "-" "-") with true. cbv iota.
  change int_max_str_digits with HeaderFacts.max_digits. apply Nat.leb_le in Hl. rewrite Hl.
  apply HeaderFacts.all_b_Forall in Hd. rewrite Hd. apply HeaderFacts.nonempty_true in Hne. rewrite Hne. reflexivity.
Qed.

(* int(b'%d' % z) == z, as the reader's convert_value computes it *)
Theorem convert_value_Z_to_dec : forall z, small_int z -> convert_value (Z_to_dec z) = VInt z.
Proof.
  intros z Hs. unfold small_int in Hs. destruct z as [|p|p]; unfold Z_to_dec in *.
  - vm_compute. reflexivity.
  - destruct (N_to_dec_digits (N.pos p)) as [Hd Hne]. rewrite (digits_of_digits _ Hd) in Hs.
    rewrite convert_value_digits by assumption. rewrite N_to_dec_value. reflexivity.
  - destruct (N_to_dec_digits (N.pos p)) as [Hd Hne].
    change (B "-" ++ N_to_dec (N.pos p)) with ("-"%byte :: N_to_dec (N.pos p)) in *.
    cbn [digits_of] in Hs. change (byte_eqb "-" "-") with true in Hs. cbv iota in Hs.
    rewrite convert_value_neg_digits by assumption. rewrite N_to_dec_value. reflexivity.
Qed.

Lemma digit_val_char : forall b, is_digit b = true -> val_char b = true.
Proof. intros b. destruct b; vm_compute; intros H; try discriminate H; reflexivity. Qed.

Theorem Z_to_dec_spec_val : forall z, HeaderFacts.spec_val (Z_to_dec z).
Proof.
  intros z. apply HeaderFacts.spec_val_iff. unfold val_ok.
  assert (Hn : forall n, nonempty (N_to_dec n) = true /\ all_b val_char (N_to_dec n) = true).
  { intros n. destruct (N_to_dec_digits n) as [Hd Hne]. split; [apply HeaderFacts.nonempty_true; exact Hne|].
    apply HeaderFacts.all_b_Forall. eapply Forall_impl; [|exact Hd]. apply digit_val_char. }
  destruct z as [|p|p]; unfold Z_to_dec.
  - reflexivity.
  - destruct (Hn (N.pos p)) as [-> ->]. reflexivity.
  - change (B "-" ++ N_to_dec (N.pos p)) with ("-"%byte :: N_to_dec (N.pos p)). cbn [nonempty all_b].
    destruct (Hn (N.pos p)) as [_ ->]. reflexivity.
Qed.

Example Z_to_dec_ex : Z_to_dec 1204 = B "1204" /\ Z_to_dec (-37) = B "-37" /\ small_int 1204 /\ small_int (-37).
Proof. repeat split; try (vm_compute; reflexivity); apply small_int_bound; vm_compute; reflexivity. Qed.

(** ** 3b. the round trip *)

Lemma key_tail_ascii : forall b, key_tail_char b = true -> ascii_byte b.
Proof. intros b. unfold ascii_byte. destruct b; vm_compute; intros H; try discriminate H; reflexivity. Qed.
Lemma val_char_ascii : forall b, val_char b = true -> ascii_byte b.
Proof. intros b. unfold ascii_byte. destruct b; vm_compute; intros H; try discriminate H; reflexivity. Qed.

Lemma spec_key_ascii : forall k, HeaderFacts.spec_key k -> Forall ascii_byte k.
Proof.
  intros k H. apply HeaderFacts.spec_key_model in H. destruct H as [H _].
  eapply Forall_impl; [|exact H]. apply key_tail_ascii.
Qed.
Lemma spec_val_ascii : forall v, HeaderFacts.spec_val v -> Forall ascii_byte v.
Proof.
  intros v [_ H]. eapply Forall_impl; [|exact H]. intros b Hb. apply val_char_ascii.
  apply HeaderFacts.spec_val_char_iff. exact Hb.
Qed.

(* option values covered by the round trip: None (omitted), int, str in the value grammar *)
Inductive good_value : wv -> Prop :=
| GV_none : good_value WNone
| GV_int z : small_int z -> good_value (WInt z)
| GV_str vb : HeaderFacts.spec_val vb -> good_value (WStr (ascii_text vb)).
Definition good_opt (kv : bytes * wv) : Prop := HeaderFacts.spec_key (fst kv) /\ good_value (snd kv).

(* the bytes a value is rendered as, and what the reader reports for them *)
Definition val_bytes (v : wv) : bytes :=
  match v with WInt z => Z_to_dec z | WStr t => map n_byte t | _ => [] end.
Definition spec_pair_of (kv : bytes * wv) : bytes * bytes := (fst kv, val_bytes (snd kv)).
Definition read_back (v : wv) : option pv :=
  match v with
  | WInt z => Some (VInt z)
  | WStr t => Some (convert_value (map n_byte t))
  | _ => None
  end.

Lemma good_pair : forall kv, good_opt kv -> is_present kv = true ->
  tpair_of kv (ascii_text (HeaderFacts.render_pair (spec_pair_of kv))) /\
  HeaderFacts.spec_pair (spec_pair_of kv) /\
  Forall ascii_byte (HeaderFacts.render_pair (spec_pair_of kv)) /\
  read_back (snd kv) = Some (convert_value (val_bytes (snd kv))).
Proof.
  intros [k v] [Hk Hv] Hp. cbn [fst snd] in *. unfold spec_pair_of, HeaderFacts.render_pair. cbn [fst snd].
  assert (Hgen : forall vb, fmt_value v = Ok (ascii_text vb) -> HeaderFacts.spec_val vb ->
            tpair_of (k, v) (ascii_text (k ++ B "=" ++ vb)) /\ HeaderFacts.spec_pair (k, vb) /\
            Forall ascii_byte (k ++ B "=" ++ vb)).
  { intros vb Hf Hs. split; [|split].
    - exists (ascii_text vb). split; [exact Hf|]. unfold ascii_text. rewrite !map_app. reflexivity.
    - split; assumption.
    - apply Forall_app. split; [apply spec_key_ascii; exact Hk|]. apply Forall_app. split.
      + constructor; [vm_compute; reflexivity|constructor].
      + apply spec_val_ascii. exact Hs. }
  destruct Hv as [|z Hz|vb Hvb]; [discriminate Hp| |]; cbn [val_bytes read_back].
  - destruct (Hgen (Z_to_dec z) eq_refl (Z_to_dec_spec_val z)) as (H1 & H2 & H3).
    split; [exact H1|]. split; [exact H2|]. split; [exact H3|].
    rewrite convert_value_Z_to_dec by assumption. reflexivity.
  - rewrite map_n_byte_ascii_text. destruct (Hgen vb eq_refl Hvb) as (H1 & H2 & H3).
    split; [exact H1|]. split; [exact H2|]. split; [exact H3|reflexivity].
Qed.

Lemma Forall2_map_self {A C} (R : A -> C -> Prop) (f : A -> C) : forall l,
  Forall (fun a => R a (f a)) l -> Forall2 R l (map f l).
Proof. induction l as [|a l IH]; intros H; [constructor|]. inversion H; subst. constructor; auto. Qed.

Lemma NoDup_map_filter {A K} (g : A -> K) (f : A -> bool) : forall l, NoDup (map g l) -> NoDup (map g (filter f l)).
Proof.
  induction l as [|a l IH]; intros H; [constructor|]. cbn [map] in H. inversion H as [|? ? Hn Hnd]; subst.
  cbn [filter]. destruct (f a); [|apply IH; exact Hnd]. cbn [map]. constructor; [|apply IH; exact Hnd].
  intros Hin. apply Hn. apply in_map_iff in Hin. destruct Hin as (x & E & Hx). apply filter_In in Hx.
  apply in_map_iff. exists x. tauto.
Qed.

Lemma nodup_assoc_get {V} : forall (l : list (bytes * V)) k v, NoDup (map fst l) -> In (k, v) l ->
  assoc_get beq k l = Some v.
Proof.
  induction l as [|[k' v'] l IH]; intros k v Hnd Hin; [contradiction|].
  cbn [map fst] in Hnd. inversion Hnd as [|? ? Hn Hnd']; subst. cbn [assoc_get].
  destruct Hin as [E|Hin].
  - inversion E; subst. rewrite (proj2 (HeaderFacts.beq_spec k k) eq_refl). reflexivity.
  - destruct (beq k k') eqn:Eb; [|apply IH; assumption].
    apply HeaderFacts.beq_spec in Eb. subst k'. exfalso. apply Hn.
    apply in_map_iff. exists (k, v). split; [reflexivity|exact Hin].
Qed.

Lemma assoc_get_none_notin {V} : forall (l : list (bytes * V)) k, assoc_get beq k l = None -> ~ In k (map fst l).
Proof.
  induction l as [|[k' v'] l IH]; intros k H Hin; [contradiction|]. cbn [assoc_get] in H.
  destruct (beq k k') eqn:Eb; [discriminate|]. destruct Hin as [E|Hin].
  - cbn [fst] in E. subst k'. rewrite (proj2 (HeaderFacts.beq_spec k k) eq_refl) in Eb. discriminate.
  - exact (IH k H Hin).
Qed.

Theorem C02_header_round_trip : forall valid dots name opts,
  dots <= 3 -> In name HeaderFacts.spec_names -> In (build_id dots name) valid ->
  NoDup (map fst opts) -> Forall good_opt opts ->
  exists line ps opts',
    render_header (build_id dots name) opts = Ok (line ++ [x0a]) /\
    ps = map spec_pair_of (present (sort_opts opts)) /\
    HeaderFacts.spec_header line dots name ps /\
    parse_header valid line = HOk dots name (build_id dots name) opts' /\
    forall k, assoc_get beq k opts' = match assoc_get beq k opts with Some v => read_back v | None => None end.
Proof.
  intros valid dots name opts Hd Hname Hvalid Hnd Hgood.
  set (so := present (sort_opts opts)). set (ps := map spec_pair_of so).
  assert (Hso_in : forall kv, In kv so <-> In kv opts /\ is_present kv = true).
  { intros kv. unfold so, present. rewrite filter_In. split; intros [H1 H2]; split; try assumption.
    - apply (Permutation_in _ (Permutation_sym (sort_opts_perm opts))). exact H1.
    - apply (Permutation_in _ (sort_opts_perm opts)). exact H1. }
  assert (Hso_good : forall kv, In kv so -> good_opt kv /\ is_present kv = true).
  { intros kv Hin. apply Hso_in in Hin. destruct Hin as [Hin Hp]. split; [|exact Hp].
    rewrite Forall_forall in Hgood. apply Hgood. exact Hin. }
  assert (Hpairs : Forall HeaderFacts.spec_pair ps).
  { unfold ps. apply Forall_forall. intros p Hp. apply in_map_iff in Hp. destruct Hp as (kv & <- & Hkv).
    destruct (Hso_good kv Hkv) as [Hg Hp]. apply (good_pair kv Hg Hp). }
  assert (Hrender : render_pairs (sort_opts opts)
                    = Ok (map (fun kv => ascii_text (HeaderFacts.render_pair (spec_pair_of kv))) so)).
  { apply render_pairs_complete. fold so. apply Forall2_map_self. apply Forall_forall. intros kv Hkv.
    destruct (Hso_good kv Hkv) as [Hg Hp]. apply (good_pair kv Hg Hp). }
  set (J := join (B ", ") (map HeaderFacts.render_pair ps)).
  assert (HJ : join (ascii_text (B ", ")) (map (fun kv => ascii_text (HeaderFacts.render_pair (spec_pair_of kv))) so)
               = ascii_text J).
  { unfold J, ps, ascii_text. rewrite map_join, !map_map. reflexivity. }
  assert (HJascii : Forall ascii_byte J).
  { unfold J. apply Forall_join.
    - constructor; [vm_compute; reflexivity|]. constructor; [vm_compute; reflexivity|constructor].
    - unfold ps. rewrite map_map. apply Forall_forall. intros q Hq. apply in_map_iff in Hq.
      destruct Hq as (kv & <- & Hkv). destruct (Hso_good kv Hkv) as [Hg Hp]. apply (good_pair kv Hg Hp). }
  exists (HeaderFacts.render_header dots name ps), ps, (HeaderFacts.opts_of convert_value ps).
  split; [|split; [reflexivity|split; [|split]]].
  - unfold render_header. rewrite Hrender. cbn [bind]. rewrite HJ.
    unfold HeaderFacts.render_header, build_id.
    destruct ps as [|p ps'] eqn:Eps.
    + unfold J. cbn [map join ascii_text nonempty]. rewrite <- !app_assoc. reflexivity.
    + assert (HJne : J <> []).
      { unfold J. intros E. cbn [map] in E. apply join_nil_head in E.
        unfold HeaderFacts.render_pair in E. inversion Hpairs as [|? ? [Hk _] _]; subst.
        destruct Hk as (c & t & Hk & _). rewrite Hk in E. discriminate E. }
      assert (Hne : nonempty (ascii_text J) = true) by (destruct J; [congruence|reflexivity]).
      rewrite Hne. unfold encode_ascii. rewrite (enc_ascii_complete J HJascii). cbn [bind].
      fold J. change (B ": ") with (B ":" ++ B " "). rewrite <- !app_assoc. reflexivity.
  - split; [exact Hd|]. split; [exact Hname|]. split; [exact Hpairs|reflexivity].
  - apply HeaderFacts.C11_complete; [|exact Hvalid].
    split; [exact Hd|]. split; [exact Hname|]. split; [exact Hpairs|reflexivity].
  - intros k. rewrite HeaderFacts.get_opts_of.
    assert (Hnd_so : NoDup (map fst so)).
    { unfold so, present. apply NoDup_map_filter.
      eapply Permutation_NoDup; [|exact Hnd]. apply Permutation_map. apply sort_opts_perm. }
    assert (Hnd_ps : NoDup (map fst ps)).
    { unfold ps. rewrite map_map. cbn [spec_pair_of fst]. exact Hnd_so. }
    destruct (assoc_get beq k opts) as [v|] eqn:Eg.
    + apply WriterFacts.assoc_get_In in Eg.
      destruct (is_present (k, v)) eqn:Ep.
      * assert (Hin : In (k, v) so) by (apply Hso_in; split; assumption).
        rewrite (HeaderFacts.last_val_nodup k (val_bytes v) ps Hnd_ps).
        -- cbn [option_map]. destruct (Hso_good _ Hin) as [Hg _].
           destruct (good_pair _ Hg Ep) as (_ & _ & _ & Hrb). cbn [snd] in Hrb. symmetry. exact Hrb.
        -- unfold ps. apply in_map_iff. exists (k, v). split; [reflexivity|exact Hin].
      * assert (Ev : v = WNone) by (destruct v; try discriminate Ep; reflexivity). subst v. cbn [read_back].
        rewrite HeaderFacts.last_val_none; [reflexivity|].
        unfold ps. rewrite map_map. cbn [spec_pair_of fst]. intros Hin. apply in_map_iff in Hin.
        destruct Hin as ([k' v'] & E & Hin). cbn [fst] in E. subst k'. apply Hso_in in Hin. destruct Hin as [Hin Hp].
        assert (v' = WNone).
        { assert (E1 := nodup_assoc_get opts k v' Hnd Hin). assert (E2 := nodup_assoc_get opts k WNone Hnd Eg). congruence. }
        subst v'. discriminate Hp.
    + apply assoc_get_none_notin in Eg. rewrite HeaderFacts.last_val_none; [reflexivity|].
      unfold ps. rewrite map_map. cbn [spec_pair_of fst]. intros Hin. apply Eg.
      apply in_map_iff in Hin. destruct Hin as (kv & E & Hin). apply Hso_in in Hin.
      apply in_map_iff. exists kv. tauto.
Qed.

(* string options that are not of integer form are reported verbatim *)
Lemma convert_value_not_int : forall v, int_ok v = false -> convert_value v = VStr v.
Proof. intros v H. unfold convert_value. rewrite H. reflexivity. Qed.

(* the option keys the writer itself uses, and the values of its choice sets (generated tables) *)
Definition writer_keys : list bytes :=
  [B "encoding"; B "indent"; B "length"; B "line_endings"; B "mimetype"; B "format"; B "type"; B "version"].
Definition choice_values : list bytes :=
  GenText.line_endings_values ++ GenText.mimetypes ++ GenText.meta_formats ++ GenText.diff_types ++ GenText.versions.

Lemma writer_keys_b : forallb key_ok writer_keys = true.
Proof. vm_compute. reflexivity. Qed.
Lemma choice_values_b : forallb (fun v => val_ok v && negb (int_ok v)) choice_values = true.
Proof. vm_compute. reflexivity. Qed.

Theorem writer_keys_spec : forall k, In k writer_keys -> HeaderFacts.spec_key k.
Proof.
  intros k H. apply HeaderFacts.spec_key_iff. pose proof writer_keys_b as Hb. rewrite forallb_forall in Hb. auto.
Qed.

Theorem choice_values_spec : forall v, In v choice_values ->
  HeaderFacts.spec_val v /\ good_value (WStr (ascii_text v)) /\ read_back (WStr (ascii_text v)) = Some (VStr v).
Proof.
  intros v H. pose proof choice_values_b as Hb. rewrite forallb_forall in Hb. specialize (Hb v H).
  apply andb_true_iff in Hb. destruct Hb as [H1 H2]. apply HeaderFacts.spec_val_iff in H1.
  split; [exact H1|]. split; [constructor; exact H1|].
  cbn [read_back]. rewrite map_n_byte_ascii_text. rewrite convert_value_not_int; [reflexivity|].
  destruct (int_ok v); [discriminate H2|reflexivity].
Qed.

(* ================================================================================================ *)
(** * 5./6. Content preparation: encode, then terminate with the BOM-free encoded newline, then indent *)

(* the stages of _prepare_content, as separate functions (the unfolding lemma below ties them to the model) *)
Definition eff_enc (s : wstate) (encoding : wv) (inherit : bool) : res wv :=
  if negb (wv_truthy encoding) && inherit then cur_encoding s else Ok encoding.
Definition enc1_name (encoding1 : wv) : option bytes :=
  match encoding1 with WStr e => c_enc ascii e | _ => None end.
Definition declared_newline (le : wv) : option text :=
  match le with
  | WStr t => match c_enc ascii t with Some le => assoc_get beq le GenText.newline_formats | None => None end
  | _ => None
  end.
Definition newline_encoding_of (encoding1 : wv) : wv :=
  if wv_truthy encoding1 then encoding1 else WStr (ascii_text (B "ascii")).
(* the newline as str (inl) or bytes (inr), and the line_endings value that goes into the header *)
Definition choose_newline (content : wcontent) (le encoding1 : wv) : res ((text + bytes) * wv) :=
  match declared_newline le with
  | None =>
      match content with
      | CText t => let (le0, nl) := guess_line_endings_text t in Ok (inl nl, WStr (ascii_text le0))
      | CBytes b =>
          do en <- enc_name (newline_encoding_of encoding1);
          do p <- guess_line_endings_bytes b en;
          Ok (inr (snd p), WStr (ascii_text (fst p)))
      end
  | Some nl =>
      match content with
      | CBytes _ => do nb <- encode_dyn nl (newline_encoding_of encoding1); Ok (inr nb, le)
      | CText _ => Ok (inl nl, le)
      end
  end.
Definition encode_newline (nl0 : text + bytes) (encoding1 : wv) : res bytes :=
  match nl0 with inl t => encode_dyn t encoding1 | inr b => Ok b end.
Definition encode_content (content : wcontent) (encoding1 : wv) : res bytes :=
  match content with CText t => encode_dyn t encoding1 | CBytes b => Ok b end.
(* content += newline unless it already ends with it *)
Definition add_newline (newline content_b : bytes) : bytes :=
  if bends newline content_b then content_b else content_b ++ newline.
Definition indent_bytes (indent : wv) : res bytes :=
  match indent with
  | WInt z => Ok (repeat_b x20 (Z.to_nat z))
  | WBool true => Ok [x20]
  | _ => Err EType
  end.
(* indentation works on the ENCODED, newline-terminated content, split on the ENCODED newline *)
Definition finish_content (content1 newline : bytes) (indent : wv) : res bytes :=
  if wv_truthy indent then
    do indent_str <- indent_bytes indent;
    do lines <- split_lines content1 newline true;
    Ok (concat (map (fun l => indent_str ++ l) lines))
  else Ok content1.

Ltac step_bind H :=
  match type of H with
  | context [bind ?X _] => let E := fresh "E" in destruct X eqn:E; cbn [bind] in H; [|discriminate H]
  end.

Theorem prepare_content_unfold : forall s content indent le enc inherit body le_out,
  prepare_content s content indent le enc inherit = Ok (body, le_out) ->
  exists encoding1 nl0 newline_b content_b,
    eff_enc s enc inherit = Ok encoding1 /\
    choose_newline content le encoding1 = Ok (nl0, le_out) /\
    encode_newline nl0 encoding1 = Ok newline_b /\
    encode_content content encoding1 = Ok content_b /\
    (match content with CText t => is_nil t | CBytes b => is_nil b end) = false /\
    finish_content (add_newline (strip_bom newline_b (enc1_name encoding1)) content_b)
                   (strip_bom newline_b (enc1_name encoding1)) indent = Ok body.
Proof.
  intros s content indent le enc inherit body le_out H. unfold prepare_content in H.
  destruct (match content with CText t => is_nil t | CBytes b => is_nil b end) eqn:Eempty; [discriminate H|].
  step_bind H. destruct (negb a); [discriminate H|].
  step_bind H. rename a0 into encoding1.
  step_bind H. destruct a0 as [nl0 le_out'].
  step_bind H. rename a0 into newline_b.
  step_bind H. rename a0 into content_b.
  exists encoding1, nl0, newline_b, content_b.
  assert (Hle : le_out' = le_out /\
                finish_content (add_newline (strip_bom newline_b (enc1_name encoding1)) content_b)
                               (strip_bom newline_b (enc1_name encoding1)) indent = Ok body).
  { unfold finish_content, add_newline, enc1_name, indent_bytes.
    destruct (wv_truthy indent).
    - step_bind H. step_bind H. inversion H; subst. split; reflexivity.
    - inversion H; subst. split; reflexivity. }
  destruct Hle as [-> Hfin].
  split; [exact E0|]. split; [exact E1|]. split; [exact E2|]. split; [exact E3|]. split; [reflexivity|exact Hfin].
Qed.

Lemma Ok_inj {A} : forall a b : A, Ok a = Ok b -> a = b.
Proof. intros a b H. congruence. Qed.

Lemma add_newline_ends : forall nl c, bends nl (add_newline nl c) = true.
Proof.
  intros nl c. unfold add_newline. destruct (bends nl c) eqn:E; [exact E|].
  apply TextFacts.bends_spec. exists c. reflexivity.
Qed.

Lemma split_lines_ok_ne : forall d nl k ls, split_lines d nl k = Ok ls -> d <> [] /\ nl <> [].
Proof.
  intros d nl k ls H. unfold split_lines, split_lines_g in H.
  destruct d; [discriminate H|]. destruct nl; [discriminate H|]. split; discriminate.
Qed.

(* the kept-ends split of data that ends with the newline: every line ends with the newline, and there is one *)
Lemma split_lines_terminated : forall d nl ls, bends nl d = true -> split_lines d nl true = Ok ls ->
  exists init p, ls = map (fun l => l ++ nl) (init ++ [p]).
Proof.
  intros d nl ls Hb H. destruct (split_lines_ok_ne _ _ _ _ H) as [Hd Hnl].
  destruct (TextFacts.split_spec byte_eqb TextFacts.byte_eqb_spec nl d Hnl)
    as (init & lst & Es & Hc & _ & H0 & _ & _ & _).
  unfold split_lines in H. rewrite (TextFacts.split_lines_keep byte_eqb d nl init lst Hd Hnl Es) in H.
  unfold bends in Hb. rewrite Hb in H. inversion H; subst ls. clear H.
  destruct init as [|p0 init0] eqn:Ei.
  - exfalso. cbn [map concat app] in Hc. subst lst.
    pose proof (TextFacts.suffixb_occurrences byte_eqb TextFacts.byte_eqb_spec nl d Hnl Hb). lia.
  - assert (Hne : p0 :: init0 <> []) by discriminate.
    destruct (exists_last Hne) as (init1 & p & ->). exists init1, p. reflexivity.
Qed.

Lemma finish_content_ends : forall c1 nl indent body, bends nl c1 = true ->
  finish_content c1 nl indent = Ok body -> bends nl body = true.
Proof.
  intros c1 nl indent body Hb H. unfold finish_content in H. destruct (wv_truthy indent).
  - step_bind H. step_bind H. inversion H; subst body. clear H.
    destruct (split_lines_terminated _ _ _ Hb E0) as (init & p & ->).
    apply TextFacts.bends_spec. rewrite !map_app, concat_app. cbn [map concat].
    exists (concat (map (fun l => a ++ l) (map (fun l => l ++ nl) init)) ++ a ++ p).
    rewrite app_nil_r, <- !app_assoc. reflexivity.
  - inversion H; subst. exact Hb.
Qed.

(* 5. the prepared content ends with the newline the function computed: the declared / detected newline,
   encoded in the section's effective encoding, BOM stripped *)
Theorem C02_content_ends_with_newline : forall s content indent le enc inherit body le_out,
  prepare_content s content indent le enc inherit = Ok (body, le_out) ->
  exists encoding1 nl0 newline_b,
    eff_enc s enc inherit = Ok encoding1 /\
    choose_newline content le encoding1 = Ok (nl0, le_out) /\
    encode_newline nl0 encoding1 = Ok newline_b /\
    bends (strip_bom newline_b (enc1_name encoding1)) body = true.
Proof.
  intros s content indent le enc inherit body le_out H.
  apply prepare_content_unfold in H. destruct H as (e1 & nl0 & nb & cb & H1 & H2 & H3 & _ & _ & H6).
  exists e1, nl0, nb. repeat (split; [assumption|]).
  eapply finish_content_ends; [|exact H6]. apply add_newline_ends.
Qed.

(* encode_dyn succeeds only for a str encoding whose name is ASCII *)
Lemma encode_dyn_ok : forall t encoding b, encode_dyn t encoding = Ok b ->
  exists e eb, encoding = WStr e /\ c_enc ascii e = Some eb /\ py_encode t eb = Ok b.
Proof.
  intros t encoding b H. unfold encode_dyn in H. destruct encoding; try discriminate H.
  destruct (c_enc ascii t0) as [eb|] eqn:E; [|discriminate H]. eauto.
Qed.

(* the newline of text content (declared or detected) is what get_newline_for_type returns for one of the
   generated line-ending names and the section's encoding; hence non-empty and unbordered (C16's premise) *)
Lemma text_newline_is_model_newline : forall t le encoding1 nl0 le_out newline_b,
  choose_newline (CText t) le encoding1 = Ok (nl0, le_out) ->
  encode_newline nl0 encoding1 = Ok newline_b ->
  exists e eb lename, encoding1 = WStr e /\ c_enc ascii e = Some eb /\
    In lename (map fst GenText.newline_formats) /\
    le_out = WStr (ascii_text lename) /\
    (declared_newline le <> None -> le_out = le) /\
    get_newline_for_type lename (Some eb) = Ok (strip_bom newline_b (enc1_name encoding1)).
Proof.
  intros t le encoding1 nl0 le_out newline_b Hc He.
  assert (Hk : exists lename nl, assoc_get beq lename GenText.newline_formats = Some nl /\ nl0 = inl nl /\
                                 le_out = WStr (ascii_text lename) /\ (declared_newline le <> None -> le_out = le)).
  { unfold choose_newline in Hc. destruct (declared_newline le) as [nl|] eqn:Ed.
    - unfold declared_newline in Ed. destruct le; try discriminate Ed.
      destruct (c_enc ascii t0) as [lename|] eqn:Ec; [|discriminate Ed]. apply enc_ascii_spec in Ec.
      destruct Ec as [-> _]. apply Ok_inj in Hc. injection Hc as <- <-. exists lename, nl. auto.
    - destruct (WriterFacts.guess_text_cases t) as [Eg|Eg]; rewrite Eg in Hc; apply Ok_inj in Hc;
        injection Hc as <- <-.
      + exists GenText.le_dos, (nl_text GenText.le_dos).
        split; [vm_compute; reflexivity|]. split; [reflexivity|]. split; [reflexivity|congruence].
      + exists GenText.le_unix, (nl_text GenText.le_unix).
        split; [vm_compute; reflexivity|]. split; [reflexivity|]. split; [reflexivity|congruence]. }
  destruct Hk as (lename & nl & Hnl & -> & Hlo & Hdecl). cbn [encode_newline] in He.
  apply encode_dyn_ok in He. destruct He as (e & eb & -> & Heb & Hpy).
  exists e, eb, lename. split; [reflexivity|]. split; [exact Heb|]. split.
  - eapply TextFacts.assoc_get_beq_in. exact Hnl.
  - split; [exact Hlo|]. split; [exact Hdecl|].
    unfold get_newline_for_type, enc_or_ascii. rewrite Hnl, Hpy. cbn [bind enc1_name]. rewrite Heb. reflexivity.
Qed.

(* 5'. text sections (preamble, meta): the content ends with the newline of the line-ending kind named in the
   header (the declared one, else the one detected on the first line), encoded in the section's effective
   encoding (explicit argument, else the innermost container's), BOM stripped *)
Theorem C02_text_section_newline : forall s t indent le enc inherit body le_out,
  prepare_content s (CText t) indent le enc inherit = Ok (body, le_out) ->
  exists e eb lename newline,
    eff_enc s enc inherit = Ok (WStr e) /\ c_enc ascii e = Some eb /\
    In lename (map fst GenText.newline_formats) /\
    le_out = WStr (ascii_text lename) /\ (declared_newline le <> None -> le_out = le) /\
    get_newline_for_type lename (Some eb) = Ok newline /\
    newline <> [] /\ TextFacts.unbordered newline /\
    bends newline body = true.
Proof.
  intros s t indent le enc inherit body le_out H.
  destruct (C02_content_ends_with_newline _ _ _ _ _ _ _ _ H) as (e1 & nl0 & nb & H1 & H2 & H3 & H4).
  destruct (text_newline_is_model_newline _ _ _ _ _ _ H2 H3) as (e & eb & lename & -> & Heb & Hin & Hlo & Hd & Hg).
  exists e, eb, lename, (strip_bom nb (enc1_name (WStr e))).
  destruct (TextFacts.model_newlines_unbordered _ _ _ Hg) as [Hne Hu].
  repeat (split; [assumption|]). exact H4.
Qed.

(* 6. indentation: ASCII spaces are put in front of every line AFTER encoding and newline termination;
   the lines are the kept-ends split of the encoded content on the encoded newline *)
Theorem C02_indent_every_line : forall s content k le enc inherit body le_out, (0 < k)%Z ->
  prepare_content s content (WInt k) le enc inherit = Ok (body, le_out) ->
  exists encoding1 nl0 newline_b content_b lines,
    eff_enc s enc inherit = Ok encoding1 /\
    choose_newline content le encoding1 = Ok (nl0, le_out) /\
    encode_newline nl0 encoding1 = Ok newline_b /\
    encode_content content encoding1 = Ok content_b /\
    let newline := strip_bom newline_b (enc1_name encoding1) in
    split_lines (add_newline newline content_b) newline true = Ok lines /\
    Forall (fun l => bends newline l = true) lines /\
    (TextFacts.unbordered newline -> concat lines = add_newline newline content_b) /\
    body = concat (map (fun l => repeat_b x20 (Z.to_nat k) ++ l) lines).
Proof.
  intros s content k le enc inherit body le_out Hk H.
  apply prepare_content_unfold in H. destruct H as (e1 & nl0 & nb & cb & H1 & H2 & H3 & H4 & _ & H6).
  unfold finish_content in H6. assert (Ht : wv_truthy (WInt k) = true) by (cbn [wv_truthy]; lia).
  rewrite Ht in H6. cbn [indent_bytes bind] in H6. step_bind H6. inversion H6; subst body. clear H6.
  exists e1, nl0, nb, cb, a. do 4 (split; [assumption|]). cbv zeta.
  split; [exact E|]. split; [|split; [|reflexivity]].
  - destruct (split_lines_terminated _ _ _ (add_newline_ends _ _) E) as (init & p & ->).
    apply Forall_forall. intros l Hl. apply in_map_iff in Hl. destruct Hl as (q & <- & _).
    apply TextFacts.bends_spec. exists q. reflexivity.
  - intros Hu. destruct (split_lines_ok_ne _ _ _ _ E) as [Hd Hnl].
    exact (TextFacts.C16b_concat _ _ _ Hd Hnl Hu E).
Qed.

(* for text content (preambles) the newline is always one of the model's newlines, so the premise of C16 holds:
   removing the indent from every line gives back exactly the encoded, newline-terminated text *)
Theorem C02_preamble_indent : forall s t k le enc inherit body le_out, (0 < k)%Z ->
  prepare_content s (CText t) (WInt k) le enc inherit = Ok (body, le_out) ->
  exists e eb lename newline content_b lines,
    eff_enc s enc inherit = Ok (WStr e) /\ c_enc ascii e = Some eb /\
    In lename (map fst GenText.newline_formats) /\ le_out = WStr (ascii_text lename) /\
    get_newline_for_type lename (Some eb) = Ok newline /\
    py_encode t eb = Ok content_b /\
    split_lines (add_newline newline content_b) newline true = Ok lines /\
    Forall (fun l => bends newline l = true) lines /\
    concat lines = add_newline newline content_b /\
    body = concat (map (fun l => repeat_b x20 (Z.to_nat k) ++ l) lines).
Proof.
  intros s t k le enc inherit body le_out Hk H.
  destruct (C02_indent_every_line _ _ _ _ _ _ _ _ Hk H)
    as (e1 & nl0 & nb & cb & lines & H1 & H2 & H3 & H4 & H5 & H6 & H7 & H8).
  destruct (text_newline_is_model_newline _ _ _ _ _ _ H2 H3) as (e & eb & lename & -> & Heb & Hin & Hlo & _ & Hg).
  exists e, eb, lename, (strip_bom nb (enc1_name (WStr e))), cb, lines.
  split; [exact H1|]. split; [exact Heb|]. split; [exact Hin|]. split; [exact Hlo|]. split; [exact Hg|].
  split; [cbn [encode_content] in H4; unfold encode_dyn in H4; rewrite Heb in H4; exact H4|].
  split; [exact H5|]. split; [exact H6|]. split; [|exact H8].
  apply H7. apply (TextFacts.model_newlines_unbordered _ _ _ Hg).
Qed.

(* ================================================================================================ *)
(** * 7. Metadata: json.dumps(indent=4, separators=(',', ': '), sort_keys=True), ASCII only *)

Lemma join_items_join : forall sep l, join_items sep l = join sep l.
Proof. intros sep. induction l as [|x t IH]; [reflexivity|]. destruct t; [reflexivity|]. cbn [join_items join] in *. rewrite IH. reflexivity. Qed.

(* the members / items of one level, each dumped one level deeper, in the dict's own order *)
Fixpoint dump_members (lvl : nat) (l : list (text * json)) : res (list (text * bytes)) :=
  match l with
  | [] => Ok []
  | (k, v) :: t => do a <- dump (S lvl) v; do b <- dump_members lvl t; Ok ((k, a) :: b)
  end.
Fixpoint dump_items (lvl : nat) (l : list json) : res (list bytes) :=
  match l with
  | [] => Ok []
  | x :: t => do a <- dump (S lvl) x; do b <- dump_items lvl t; Ok (a :: b)
  end.
Definition render_member (p : text * bytes) : bytes := dump_str (fst p) ++ B ": " ++ snd p.

(* one level of an object: "{", newline + indent, the members SORTED BY KEY joined by "," newline indent,
   newline + outer indent, "}" *)
Theorem dump_obj : forall lvl kv, kv <> [] ->
  dump lvl (JObj kv) =
  match dump_members lvl kv with
  | Ok body => Ok (B "{" ++ nl_indent (S lvl)
                     ++ join (B "," ++ nl_indent (S lvl)) (map render_member (sort_kb body))
                     ++ nl_indent lvl ++ B "}")
  | Err e => Err e
  end.
Proof.
  intros lvl kv Hne. destruct kv as [|p kv']; [congruence|].
  assert (Hitems : forall l,
    (fix items (l : list (text * json)) : res (list (text * bytes)) :=
       match l with
       | [] => Ok []
       | (k, v) :: t => do a <- dump (S lvl) v; do b <- items t; Ok ((k, a) :: b)
       end) l = dump_members lvl l).
  { induction l as [|[k v] t IH]; [reflexivity|]. cbn [dump_members]. rewrite <- IH. reflexivity. }
  rewrite <- Hitems.
  match goal with |- _ = match ?X with _ => _ end => destruct X as [body|e] eqn:E end.
  - cbn [dump]. rewrite E. cbn [bind]. rewrite join_items_join. reflexivity.
  - cbn [dump]. rewrite E. reflexivity.
Qed.

Theorem dump_list : forall lvl l, l <> [] ->
  dump lvl (JList l) =
  match dump_items lvl l with
  | Ok body => Ok (B "[" ++ nl_indent (S lvl) ++ join (B "," ++ nl_indent (S lvl)) body ++ nl_indent lvl ++ B "]")
  | Err e => Err e
  end.
Proof.
  intros lvl l Hne. destruct l as [|p l']; [congruence|].
  assert (Hitems : forall l,
    (fix items (l : list json) : res (list bytes) :=
       match l with
       | [] => Ok []
       | x :: t => do a <- dump (S lvl) x; do b <- items t; Ok (a :: b)
       end) l = dump_items lvl l).
  { induction l as [|x t IH]; [reflexivity|]. cbn [dump_items]. rewrite <- IH. reflexivity. }
  rewrite <- Hitems.
  match goal with |- _ = match ?X with _ => _ end => destruct X as [body|e] eqn:E end.
  - cbn [dump]. rewrite E. cbn [bind]. rewrite join_items_join. reflexivity.
  - cbn [dump]. rewrite E. reflexivity.
Qed.

Lemma dump_members_spec : forall lvl l body, dump_members lvl l = Ok body ->
  Forall2 (fun kv kb => fst kb = fst kv /\ dump (S lvl) (snd kv) = Ok (snd kb)) l body.
Proof.
  induction l as [|[k v] t IH]; intros body H; cbn [dump_members] in H.
  - inversion H. constructor.
  - step_bind H. step_bind H. inversion H; subst. constructor; [split; [reflexivity|exact E]|apply IH; reflexivity].
Qed.

Lemma dump_items_spec : forall lvl l body, dump_items lvl l = Ok body ->
  Forall2 (fun x b => dump (S lvl) x = Ok b) l body.
Proof.
  induction l as [|x t IH]; intros body H; cbn [dump_items] in H.
  - inversion H. constructor.
  - step_bind H. step_bind H. inversion H; subst. constructor; [exact E|apply IH; reflexivity].
Qed.

(* metadata is a JSON object whose keys are emitted in ascending code-point order, 4 spaces per level *)
Theorem C02_json_sorted : forall kv d, kv <> [] -> json_dump (JObj kv) = Ok d ->
  exists body,
    Forall2 (fun kv kb => fst kb = fst kv /\ dump 1 (snd kv) = Ok (snd kb)) kv body /\
    StronglySorted tkey_le (sort_kb body) /\ Permutation body (sort_kb body) /\
    d = B "{" ++ nl_indent 1 ++ join (B "," ++ nl_indent 1) (map render_member (sort_kb body)) ++ nl_indent 0 ++ B "}".
Proof.
  intros kv d Hne H. unfold json_dump in H. rewrite dump_obj in H by assumption.
  destruct (dump_members 0 kv) as [body|e] eqn:E; [|discriminate H]. inversion H; subst d.
  exists body. split; [apply dump_members_spec; exact E|]. split; [apply sort_kb_sorted|].
  split; [apply sort_kb_perm|reflexivity].
Qed.

(* an induction principle for the nested type *)
Section JsonInd.
  Variable P : json -> Prop.
  Hypothesis HNull : P JNull.
  Hypothesis HBool : forall b, P (JBool b).
  Hypothesis HInt : forall z, P (JInt z).
  Hypothesis HFloat : forall r, P (JFloat r).
  Hypothesis HStr : forall s, P (JStr s).
  Hypothesis HList : forall l, Forall P l -> P (JList l).
  Hypothesis HObj : forall kv, Forall (fun p => P (snd p)) kv -> P (JObj kv).
  Hypothesis HBad : P JBad.
  Fixpoint json_ind' (j : json) : P j :=
    match j with
    | JNull => HNull
    | JBool b => HBool b
    | JInt z => HInt z
    | JFloat r => HFloat r
    | JStr s => HStr s
    | JList l =>
        HList l ((fix go (l : list json) : Forall P l :=
                    match l with
                    | [] => Forall_nil P
                    | x :: t => @Forall_cons _ P x t (json_ind' x) (go t)
                    end) l)
    | JObj kv =>
        HObj kv ((fix go (l : list (text * json)) : Forall (fun p => P (snd p)) l :=
                    match l with
                    | [] => Forall_nil _
                    | (k, v) :: t => @Forall_cons _ (fun p => P (snd p)) (k, v) t (json_ind' v) (go t)
                    end) kv)
    | JBad => HBad
    end.
End JsonInd.

(* float reprs are opaque to the model: they are ASCII in CPython; this is the only premise *)
Inductive floats_ascii : json -> Prop :=
| FA_null : floats_ascii JNull
| FA_bool b : floats_ascii (JBool b)
| FA_int z : floats_ascii (JInt z)
| FA_float r : Forall ascii_byte r -> floats_ascii (JFloat r)
| FA_str s : floats_ascii (JStr s)
| FA_list l : Forall floats_ascii l -> floats_ascii (JList l)
| FA_obj kv : Forall (fun p => floats_ascii (snd p)) kv -> floats_ascii (JObj kv)
| FA_bad : floats_ascii JBad.

Lemma ascii_B : forall s, forallb (fun b => N.ltb (byte_n b) 128) (B s) = true -> Forall ascii_byte (B s).
Proof. intros s H. rewrite forallb_forall in H. apply Forall_forall. intros x Hx. apply N.ltb_lt. auto. Qed.

Lemma hex_digit_ascii : forall n, (n < 16)%N -> ascii_byte (hex_digit n).
Proof.
  intros n H. unfold hex_digit, ascii_byte. destruct (N.ltb n 10) eqn:E; rewrite byte_n_n_byte; lia.
Qed.

Lemma u_escape_ascii : forall c, Forall ascii_byte (u_escape c).
Proof.
  intros c. unfold u_escape. apply Forall_app. split; [apply ascii_B; reflexivity|].
  repeat constructor; apply hex_digit_ascii; apply N.mod_lt; discriminate.
Qed.

Lemma esc_cp_ascii : forall c, Forall ascii_byte (esc_cp c).
Proof.
  intros c. unfold esc_cp.
  repeat match goal with |- Forall _ (if ?b then _ else _) => destruct b eqn:? end;
    try (apply ascii_B; reflexivity); try apply u_escape_ascii.
  - constructor; [|constructor]. unfold ascii_byte. rewrite byte_n_n_byte; lia.
  - apply Forall_app. split; apply u_escape_ascii.
Qed.

Lemma dump_str_ascii : forall s, Forall ascii_byte (dump_str s).
Proof.
  intros s. unfold dump_str. apply Forall_app. split; [apply ascii_B; reflexivity|].
  apply Forall_app. split; [|apply ascii_B; reflexivity].
  induction s as [|c s IH]; [constructor|]. cbn [flat_map]. apply Forall_app. split; [apply esc_cp_ascii|exact IH].
Qed.

Lemma repeat_b_Forall : forall (P : byte -> Prop) b n, P b -> Forall P (repeat_b b n).
Proof. intros P b n H. induction n; cbn [repeat_b]; constructor; assumption. Qed.

Lemma nl_indent_ascii : forall lvl, Forall ascii_byte (nl_indent lvl).
Proof.
  intros. unfold nl_indent. apply Forall_app. split.
  - constructor; [vm_compute; reflexivity|constructor].
  - apply repeat_b_Forall. vm_compute. reflexivity.
Qed.

Lemma Z_to_dec_ascii : forall z, Forall ascii_byte (Z_to_dec z).
Proof. intros z. apply spec_val_ascii. apply Z_to_dec_spec_val. Qed.

Lemma Forall_app5 {A} (P : A -> Prop) : forall a b c d e,
  Forall P a -> Forall P b -> Forall P c -> Forall P d -> Forall P e -> Forall P (a ++ b ++ c ++ d ++ e).
Proof. intros. repeat (apply Forall_app; split); assumption. Qed.

Theorem dump_ascii : forall j lvl d, floats_ascii j -> dump lvl j = Ok d -> Forall ascii_byte d.
Proof.
  induction j as [|b|z|r|s|l IHl|kv IHkv|] using json_ind'; intros lvl d Hf H.
  - inversion H. apply ascii_B. reflexivity.
  - destruct b; inversion H; apply ascii_B; reflexivity.
  - inversion H. apply Z_to_dec_ascii.
  - inversion H; subst. inversion Hf. assumption.
  - inversion H. apply dump_str_ascii.
  - destruct l as [|x l']; [inversion H; apply ascii_B; reflexivity|].
    rewrite dump_list in H by discriminate.
    destruct (dump_items lvl (x :: l')) as [body|e] eqn:E; [|discriminate H]. apply Ok_inj in H. subst d.
    assert (Hbody : Forall (Forall ascii_byte) body).
    { apply dump_items_spec in E. inversion Hf as [| | | | |? Hfl| |]; subst. clear Hf.
      revert IHl Hfl. induction E as [|y b t bt Hy E IH]; intros IHl Hfl; [constructor|].
      inversion IHl; subst. inversion Hfl; subst. constructor; [eauto|apply IH; assumption]. }
    apply Forall_app5; try (apply ascii_B; reflexivity); try apply nl_indent_ascii.
    apply Forall_join; [|exact Hbody]. apply Forall_app. split; [apply ascii_B; reflexivity|apply nl_indent_ascii].
  - destruct kv as [|p kv']; [inversion H; apply ascii_B; reflexivity|].
    rewrite dump_obj in H by discriminate.
    destruct (dump_members lvl (p :: kv')) as [body|e] eqn:E; [|discriminate H]. apply Ok_inj in H. subst d.
    assert (Hbody : Forall (fun kb => Forall ascii_byte (snd kb)) body).
    { apply dump_members_spec in E. inversion Hf as [| | | | | |? Hfl|]; subst. clear Hf.
      revert IHkv Hfl. induction E as [|y b t bt [_ Hy] E IH]; intros IHkv Hfl; [constructor|].
      inversion IHkv; subst. inversion Hfl; subst. constructor; [eauto|apply IH; assumption]. }
    apply Forall_app5; try (apply ascii_B; reflexivity); try apply nl_indent_ascii.
    apply Forall_join; [apply Forall_app; split; [apply ascii_B; reflexivity|apply nl_indent_ascii]|].
    apply Forall_forall. intros m Hm. apply in_map_iff in Hm. destruct Hm as (kb & <- & Hkb).
    apply (Permutation_in _ (Permutation_sym (sort_kb_perm body))) in Hkb.
    unfold render_member. apply Forall_app. split; [apply dump_str_ascii|].
    apply Forall_app. split; [apply ascii_B; reflexivity|]. rewrite Forall_forall in Hbody. apply Hbody. exact Hkb.
  - discriminate H.
Qed.

Theorem C02_json_ascii : forall j d, floats_ascii j -> json_dump j = Ok d -> Forall ascii_byte d.
Proof. intros j d. apply dump_ascii. Qed.

(* ================================================================================================ *)
(** * 8. Section ids: every accepted call writes one header whose id is one of the nine legal ids, at a
      place the generated hierarchy table allows (order part: C09, WriterFacts) *)

Definition container_targets : list (bytes * nat) :=
  [(B "change", GenText.writer_level_change); (B "file", GenText.writer_level_file)].

(* an accepted call is exactly one accepted section write *)
Lemma do_call_ok_cases : forall c s s', do_call c s = (s', Ok tt) ->
  (exists name level enc extra, In (name, level) container_targets /\
     new_container_section name level enc extra s = (s', Ok tt) /\
     WriterFacts.target s c = build_id (level - 1) name) \/
  (exists name content le enc ind wle inh extra, In name WriterFacts.content_names /\
     new_content_section name content le enc ind wle inh extra s = (s', Ok tt) /\
     WriterFacts.target s c = build_id (cur_level s) name).
Proof.
  intros c s s' H.
  assert (Hno : forall (e : exn), @lift unit (Err e) s = (s', Ok tt) -> False).
  { intros e Hx. unfold lift in Hx. inversion Hx. }
  destruct c as [en|en|text enc ind le mt|md enc fmt|content dt enc le]; cbn [do_call WriterFacts.target] in *.
  - left. exists (B "change"), GenText.writer_level_change, en, []. split; [left; reflexivity|]. split; [exact H|reflexivity].
  - left. exists (B "file"), GenText.writer_level_file, en, []. split; [right; left; reflexivity|]. split; [exact H|reflexivity].
  - destruct text; try (exfalso; eapply Hno; eassumption).
    rewrite WriterFacts.bind_lift in H.
    destruct (match mt with WNone => Ok true | _ => _ end) as [mok|e1]; [|inversion H].
    destruct (negb mok); [exfalso; eapply Hno; eassumption|].
    right. do 8 eexists. split; [|split; [exact H|rewrite Nat.add_sub; reflexivity]]. cbn; auto.
  - destruct md; try (exfalso; eapply Hno; eassumption).
    destruct (negb (wv_truthy (WDict j))); [exfalso; eapply Hno; eassumption|].
    rewrite WriterFacts.bind_lift in H.
    destruct (in_strset _ _) as [fok|e1]; [|inversion H].
    destruct (negb fok); [exfalso; eapply Hno; eassumption|].
    rewrite WriterFacts.bind_lift in H.
    destruct (json_dump j) as [d|e1]; [|inversion H].
    rewrite WriterFacts.bind_get, WriterFacts.bind_lift in H.
    destruct (if wv_truthy enc then _ else _) as [has_enc|e1]; [|inversion H].
    right. do 8 eexists. split; [|split; [exact H|rewrite Nat.add_sub; reflexivity]]. cbn; auto.
  - destruct content; try (exfalso; eapply Hno; eassumption).
    rewrite WriterFacts.bind_lift in H.
    destruct (match dt with WNone => Ok true | _ => _ end) as [tok|e1]; [|inversion H].
    destruct (negb tok); [exfalso; eapply Hno; eassumption|].
    right. do 8 eexists. split; [|split; [exact H|rewrite Nat.add_sub; reflexivity]]. cbn; auto.
Qed.

Lemma level_of_le3 : forall p, WriterFacts.level_of p <= 3.
Proof. intros p. unfold WriterFacts.level_of. repeat destruct (in_ids p _); lia. Qed.

Theorem C02_ids_legal : forall s c s', WriterFacts.reachable s -> do_call c s = (s', Ok tt) ->
  exists p dots name pairs rest,
    w_prev s = Some p /\ In p WriterFacts.ids /\
    WriterFacts.target s c = build_id dots name /\ dots <= 3 /\ In name HeaderFacts.spec_names /\
    In (WriterFacts.target s c) WriterFacts.ids /\
    In (WriterFacts.target s c) (WriterFacts.table p) /\
    w_prev s' = Some (WriterFacts.target s c) /\
    w_out s' = w_out s ++ (B "#" ++ WriterFacts.target s c ++ B ":" ++ header_tail pairs ++ [x0a]) ++ rest.
Proof.
  intros s c s' Hs H.
  destruct (WriterFacts.C09_state_shape s Hs) as (p & Hp & Hpid & Hlen & Hcl).
  destruct (WriterFacts.C09_accept_order s c s' Hs H) as (p' & Hp' & Htab).
  rewrite Hp in Hp'. inversion Hp'; subst p'. clear Hp'.
  pose proof (WriterFacts.C09_accept_prev s c s' Hs H) as Hprev.
  assert (Hs' : WriterFacts.reachable s') by (eapply WriterFacts.reachable_step; eauto).
  destruct (WriterFacts.C09_state_shape s' Hs') as (q & Hq & Hqid & _ & _).
  rewrite Hprev in Hq. inversion Hq; subst q. clear Hq.
  assert (Hne : w_stack s <> []) by (apply WriterFacts.Inv_stack, WriterFacts.reachable_inv; exact Hs).
  destruct (do_call_ok_cases c s s' H) as
    [(name & level & enc & extra & Hin & Hc & Ht)|(name & content & le & enc & ind & wle & inh & extra & Hin & Hc & Ht)].
  - assert (Hl : 1 <= level /\ level - 1 <= 3 /\ In name HeaderFacts.spec_names).
    { destruct Hin as [E|[E|[]]]; inversion E; subst; (split; [|split]);
        try (unfold GenText.writer_level_change, GenText.writer_level_file; lia); cbn; auto 10. }
    destruct Hl as (Hl1 & Hl3 & Hname).
    rewrite WriterFacts.ncs_eq in Hc by assumption.
    destruct (validate_section s _) as [[]|e]; [|inversion Hc].
    destruct (render_header _ _) as [h|e] eqn:Eh; [|inversion Hc]. cbv zeta in Hc.
    apply C02_header_shape in Eh. destruct Eh as (pairs & _ & ->).
    exists p, (level - 1), name, pairs, []. rewrite <- Ht in *.
    repeat (split; [first [assumption|reflexivity]|]). inversion Hc; subst s'. cbn [w_out]. rewrite app_nil_r. reflexivity.
  - apply C02_length_exact in Hc. destruct Hc as (body & le_out & h & _ & Eh & _ & Ho & _ & _).
    apply C02_header_shape in Eh. destruct Eh as (pairs & _ & ->).
    exists p, (cur_level s), name, pairs, body. rewrite <- Ht in *.
    assert (Hname : In name HeaderFacts.spec_names).
    { unfold WriterFacts.content_names in Hin. cbn [In] in Hin. destruct Hin as [<-|[<-|[<-|[]]]]; cbn; auto 10. }
    assert (Hd : cur_level s <= 3) by (rewrite Hcl; apply level_of_le3).
    repeat (split; [first [assumption|reflexivity]|]). exact Ho.
Qed.

Example nine_ids : length WriterFacts.ids = 9 /\ NoDup WriterFacts.ids.
Proof. split; [reflexivity|]. apply HeaderFacts.nodup_b_sound. vm_compute. reflexivity. Qed.

(* ================================================================================================ *)
(** * 9. Call level: the header written by every accepted call is in the spec grammar, parses, and its
      length option reads back as the exact number of content bytes that follow *)

Lemma assoc_set_keys_in {V} : forall k (v : V) o x,
  In x (map fst (assoc_set beq k v o)) -> x = k \/ In x (map fst o).
Proof.
  intros k v. induction o as [|[k' v'] t IH]; intros x H; cbn [assoc_set] in H.
  - cbn in H. destruct H as [<-|[]]. left. reflexivity.
  - destruct (beq k k'); cbn [map fst In] in *.
    + right. exact H.
    + destruct H as [H|H]; [right; left; exact H|]. destruct (IH x H); [left|right; right]; assumption.
Qed.

Lemma assoc_set_nodup {V} : forall k (v : V) o, NoDup (map fst o) -> NoDup (map fst (assoc_set beq k v o)).
Proof.
  intros k v. induction o as [|[k' v'] t IH]; intros H; cbn [assoc_set].
  - cbn. constructor; [intros []|constructor].
  - cbn [map fst] in H. inversion H as [|? ? Hn Hnd]; subst.
    destruct (beq k k') eqn:E; cbn [map fst].
    + constructor; assumption.
    + constructor; [|apply IH; exact Hnd]. intros Hin. apply assoc_set_keys_in in Hin.
      destruct Hin as [->|Hin]; [|contradiction].
      rewrite (proj2 (HeaderFacts.beq_spec k k) eq_refl) in E. discriminate.
Qed.

Lemma assoc_set_good : forall k v o, HeaderFacts.spec_key k -> good_value v ->
  Forall good_opt o -> Forall good_opt (assoc_set beq k v o).
Proof.
  intros k v o Hk Hv. induction o as [|[k' v'] t IH]; intros H; cbn [assoc_set].
  - constructor; [split; assumption|constructor].
  - inversion H as [|? ? [Hk' Hv'] Ht]; subst. cbn [fst snd] in *. destruct (beq k k').
    + constructor; [split; assumption|exact Ht].
    + constructor; [split; assumption|apply IH; exact Ht].
Qed.

Lemma key_spec : forall s, key_ok (B s) = true -> HeaderFacts.spec_key (B s).
Proof. intros s H. apply HeaderFacts.spec_key_iff. exact H. Qed.

Lemma content_opts_good : forall body le_out enc ind wle key v,
  small_int (Z.of_nat (length body)) -> good_value le_out -> good_value enc -> good_value ind ->
  HeaderFacts.spec_key key -> good_value v ->
  Forall good_opt (content_opts body le_out enc ind wle [(key, v)]) /\
  NoDup (map fst (content_opts body le_out enc ind wle [(key, v)])).
Proof.
  intros body le_out enc ind wle key v Hl Hle Henc Hind Hkey Hv. unfold content_opts, dict_set.
  assert (H0 : Forall good_opt [(key, v)]) by (constructor; [split; assumption|constructor]).
  assert (N0 : NoDup (map fst [(key, v)])) by (cbn; constructor; [intros []|constructor]).
  destruct wle; split;
    repeat first [ apply assoc_set_nodup | apply assoc_set_good; [apply key_spec; reflexivity| |] ];
    try assumption; constructor; exact Hl.
Qed.

(* every codec spelling the model knows is in the option-value grammar (and not of integer form) *)
Lemma spellings_b : forallb (fun r => val_ok (GenCodecs.cr_spelling r)) GenCodecs.rows = true.
Proof. vm_compute. reflexivity. Qed.

Definition enc_good (v : wv) : Prop :=
  v = WNone \/ exists eb r, v = WStr (ascii_text eb) /\ find_row eb GenCodecs.rows = Some r.

Lemma enc_good_value : forall v, enc_good v -> good_value v.
Proof.
  intros v [->|(eb & r & -> & Hr)]; [constructor|]. constructor. apply HeaderFacts.spec_val_iff.
  apply TextFacts.find_row_some in Hr. destruct Hr as [Hin ->].
  pose proof spellings_b as Hb. rewrite forallb_forall in Hb. exact (Hb r Hin).
Qed.

Lemma in_strset_true : forall v set, in_strset v set = Ok true -> exists x, In x set /\ v = WStr (ascii_text x).
Proof.
  intros v set H. destruct v; cbn [in_strset] in H; try discriminate H.
  injection H as H. apply existsb_exists in H. destruct H as (x & Hx & Ht).
  apply WriterFacts.teq_true_eq in Ht. subst t. eauto.
Qed.

Lemma choice_good : forall v set mok, (forall x, In x set -> In x choice_values) ->
  match v with WNone => Ok true | v' => in_strset v' set end = Ok mok -> negb mok = false -> good_value v.
Proof.
  intros v set mok Hsub H Hm. destruct mok; [|discriminate Hm].
  destruct v; try (constructor; fail);
    (apply in_strset_true in H; destruct H as (x & Hx & E); try discriminate E;
     inversion E; subst; apply choice_values_spec; apply Hsub; exact Hx).
Qed.

Lemma newline_names_b : forallb val_ok (map fst GenText.newline_formats) = true.
Proof. vm_compute. reflexivity. Qed.

Lemma le_name_good : forall x, In x (map fst GenText.newline_formats) -> good_value (WStr (ascii_text x)).
Proof.
  intros x H. constructor. apply HeaderFacts.spec_val_iff.
  pose proof newline_names_b as Hb. rewrite forallb_forall in Hb. auto.
Qed.

Lemma le_guess_names : In GenText.le_dos (map fst GenText.newline_formats) /\
                       In GenText.le_unix (map fst GenText.newline_formats).
Proof.
  split; apply HeaderFacts.in_ids_In; vm_compute; reflexivity.
Qed.

(* the line_endings value that goes into the header is always one of the generated names (or the caller's
   declared one, which is one of them) *)
Lemma le_out_good : forall content le encoding1 nl0 le_out,
  choose_newline content le encoding1 = Ok (nl0, le_out) -> good_value le_out.
Proof.
  intros content le encoding1 nl0 le_out H. unfold choose_newline in H.
  destruct (declared_newline le) as [nl|] eqn:Ed.
  - assert (Hle : good_value le).
    { unfold declared_newline in Ed. destruct le; try discriminate Ed.
      destruct (c_enc ascii t) as [lename|] eqn:Ec; [|discriminate Ed].
      apply enc_ascii_spec in Ec. destruct Ec as [-> _]. apply le_name_good.
      eapply TextFacts.assoc_get_beq_in. exact Ed. }
    destruct content; [inversion H; subst; exact Hle|]. step_bind H. inversion H; subst. exact Hle.
  - destruct content as [t|b].
    + destruct (WriterFacts.guess_text_cases t) as [Eg|Eg]; rewrite Eg in H; apply Ok_inj in H;
        apply (f_equal snd) in H; cbn [snd] in H; rewrite <- H; apply le_name_good; apply le_guess_names.
    + step_bind H. step_bind H. apply Ok_inj in H. apply (f_equal snd) in H. cbn [snd] in H. rewrite <- H. clear H.
      unfold guess_line_endings_bytes in E0. step_bind E0. step_bind E0.
      destruct (bfind _ b); [destruct (bends _ _)|]; apply Ok_inj in E0; rewrite <- E0; cbn [fst];
        apply le_name_good; apply le_guess_names.
Qed.

Lemma small_int_of_nat : forall n, (N.of_nat n < 10 ^ 4300)%N -> small_int (Z.of_nat n).
Proof. intros n H. apply small_int_bound. rewrite <- nat_N_Z, Zabs2N.id. exact H. Qed.

Lemma StronglySorted_map_keys : forall so,
  StronglySorted key_le so -> StronglySorted (@key_le bytes) (map spec_pair_of so).
Proof.
  intros so H. induction H as [|a l S IH Ha]; cbn [map]; constructor; [exact IH|].
  apply Forall_forall. intros x Hx. apply in_map_iff in Hx. destruct Hx as (y & <- & Hy).
  rewrite Forall_forall in Ha. exact (Ha y Hy).
Qed.

Lemma render_header_round_trip_sorted : forall valid dots name opts h,
  dots <= 3 -> In name HeaderFacts.spec_names -> In (build_id dots name) valid ->
  NoDup (map fst opts) -> Forall good_opt opts ->
  render_header (build_id dots name) opts = Ok h ->
  exists line ps opts',
    h = line ++ [x0a] /\ HeaderFacts.spec_header line dots name ps /\ StronglySorted key_le ps /\
    parse_header valid line = HOk dots name (build_id dots name) opts' /\
    forall k, assoc_get beq k opts' = match assoc_get beq k opts with Some v => read_back v | None => None end.
Proof.
  intros valid dots name opts h Hd Hn Hv Hnd Hg Hh.
  destruct (C02_header_round_trip valid dots name opts Hd Hn Hv Hnd Hg) as (line & ps & opts' & Hr & -> & Hs & Hp & Hk).
  exists line, (map spec_pair_of (present (sort_opts opts))), opts'.
  split; [congruence|]. split; [exact Hs|]. split; [|split; assumption].
  apply StronglySorted_map_keys. apply present_sort_sorted.
Qed.

Lemma content_names_spec : forall name, In name WriterFacts.content_names -> In name HeaderFacts.spec_names.
Proof. intros name H. unfold WriterFacts.content_names in H. cbn [In] in H. destruct H as [<-|[<-|[<-|[]]]]; cbn; auto 10. Qed.

Lemma ncontent_round_trip : forall name content le enc ind wle inh key v s s' valid,
  In name WriterFacts.content_names -> cur_level s <= 3 ->
  In (build_id (cur_level s) name) valid ->
  new_content_section name content le enc ind wle inh [(key, v)] s = (s', Ok tt) ->
  good_value enc -> good_value ind -> HeaderFacts.spec_key key -> good_value v ->
  (N.of_nat (length (w_out s')) < 10 ^ 4300)%N ->
  exists line ps opts' body,
    w_out s' = w_out s ++ (line ++ [x0a]) ++ body /\
    HeaderFacts.spec_header line (cur_level s) name ps /\ StronglySorted key_le ps /\
    parse_header valid line = HOk (cur_level s) name (build_id (cur_level s) name) opts' /\
    assoc_get beq (B "length") opts' = Some (VInt (Z.of_nat (length body))).
Proof.
  intros name content le enc ind wle inh key v s s' valid Hname Hlvl Hvalid H Henc Hind Hkey Hv Hsize.
  apply C02_length_exact in H. destruct H as (body & le_out & h & Hprep & Hh & Hlen & Ho & _ & _).
  assert (Hle : good_value le_out).
  { apply prepare_content_unfold in Hprep. destruct Hprep as (e1 & nl0 & nb & cb & _ & Hc & _).
    eapply le_out_good. exact Hc. }
  assert (Hsmall : small_int (Z.of_nat (length body))).
  { apply small_int_of_nat. rewrite Ho, !app_length in Hsize. set (P := (10 ^ 4300)%N) in *. lia. }
  destruct (content_opts_good body le_out enc ind wle key v Hsmall Hle Henc Hind Hkey Hv) as [Hg Hnd].
  destruct (render_header_round_trip_sorted valid _ _ _ h Hlvl (content_names_spec _ Hname) Hvalid Hnd Hg Hh)
    as (line & ps & opts' & -> & Hs & Hso & Hp & Hk).
  exists line, ps, opts', body. split; [exact Ho|]. split; [exact Hs|]. split; [exact Hso|]. split; [exact Hp|].
  rewrite Hk, Hlen. reflexivity.
Qed.

Lemma ncs_round_trip : forall name level enc extra s s' valid,
  w_stack s <> [] -> 1 <= level -> level - 1 <= 3 -> In name HeaderFacts.spec_names ->
  In (build_id (level - 1) name) valid ->
  new_container_section name level enc extra s = (s', Ok tt) -> good_value enc ->
  Forall good_opt extra -> NoDup (map fst extra) ->
  exists line ps opts',
    w_out s' = w_out s ++ (line ++ [x0a]) ++ [] /\
    HeaderFacts.spec_header line (level - 1) name ps /\ StronglySorted key_le ps /\
    parse_header valid line = HOk (level - 1) name (build_id (level - 1) name) opts' /\
    forall k, assoc_get beq k opts' =
              match assoc_get beq k (dict_set "encoding" enc extra) with Some v => read_back v | None => None end.
Proof.
  intros name level enc extra s s' valid Hne Hl1 Hl3 Hname Hvalid H Henc Hgx Hndx.
  rewrite WriterFacts.ncs_eq in H by assumption.
  destruct (validate_section s _) as [[]|e]; [|inversion H].
  destruct (render_header _ _) as [h|e] eqn:Eh; [|inversion H]. cbv zeta in H.
  assert (Hg : Forall good_opt (dict_set "encoding" enc extra)).
  { unfold dict_set. apply assoc_set_good; [apply key_spec; reflexivity|exact Henc|exact Hgx]. }
  assert (Hnd : NoDup (map fst (dict_set "encoding" enc extra))).
  { unfold dict_set. apply assoc_set_nodup. exact Hndx. }
  destruct (render_header_round_trip_sorted valid _ _ _ h Hl3 Hname Hvalid Hnd Hg Eh)
    as (line & ps & opts' & -> & Hs & Hso & Hp & Hk).
  exists line, ps, opts'. split; [inversion H; subst s'; cbn [w_out]; rewrite app_nil_r; reflexivity|].
  split; [exact Hs|]. split; [exact Hso|]. split; [exact Hp|exact Hk].
Qed.

(* arguments as in C01/C02's quantifier: encodings are codec names of the catalogue, indent is an int *)
Definition indent_good (ind : option wv) : Prop :=
  match ind with None => True | Some v => v = WNone \/ exists z, v = WInt z /\ small_int z end.
Definition call_args_good (c : call) : Prop :=
  match c with
  | NewChange e | NewFile e => enc_good e
  | WritePreamble _ e ind _ _ => enc_good e /\ indent_good ind
  | WriteMeta _ e _ => enc_good e
  | WriteDiff _ _ e _ => enc_good e
  end.

Lemma choice_sub_mimetypes : forall x, In x GenText.mimetypes -> In x choice_values.
Proof. intros x H. unfold choice_values. apply in_or_app. right. apply in_or_app. left. exact H. Qed.
Lemma choice_sub_meta_formats : forall x, In x GenText.meta_formats -> In x choice_values.
Proof. intros x H. unfold choice_values. do 2 (apply in_or_app; right). apply in_or_app. left. exact H. Qed.
Lemma choice_sub_diff_types : forall x, In x GenText.diff_types -> In x choice_values.
Proof. intros x H. unfold choice_values. do 3 (apply in_or_app; right). apply in_or_app. left. exact H. Qed.

Lemma default_indent_small : small_int GenText.default_indent.
Proof. apply small_int_bound. vm_compute. reflexivity. Qed.

Theorem C02_call_header_parses : forall s c s',
  WriterFacts.reachable s -> do_call c s = (s', Ok tt) -> call_args_good c ->
  (N.of_nat (length (w_out s')) < 10 ^ 4300)%N ->
  exists p dots name line ps opts' body,
    w_prev s = Some p /\ WriterFacts.target s c = build_id dots name /\
    w_out s' = w_out s ++ (line ++ [x0a]) ++ body /\
    HeaderFacts.spec_header line dots name ps /\ StronglySorted key_le ps /\
    parse_header (WriterFacts.table p) line = HOk dots name (WriterFacts.target s c) opts' /\
    ((body = [] /\ assoc_get beq (B "length") opts' = None) \/
     assoc_get beq (B "length") opts' = Some (VInt (Z.of_nat (length body)))).
Proof.
  intros s c s' Hs H Hargs Hsize.
  destruct (WriterFacts.C09_state_shape s Hs) as (p & Hp & Hpid & Hlen & Hcl).
  destruct (WriterFacts.C09_accept_order s c s' Hs H) as (p' & Hp' & Htab).
  rewrite Hp in Hp'. inversion Hp'; subst p'. clear Hp'.
  assert (Hne : w_stack s <> []) by (apply WriterFacts.Inv_stack, WriterFacts.reachable_inv; exact Hs).
  assert (Hd : cur_level s <= 3) by (rewrite Hcl; apply level_of_le3).
  assert (Hno : forall (e : exn), @lift unit (Err e) s = (s', Ok tt) -> False).
  { intros e Hx. unfold lift in Hx. inversion Hx. }
  assert (Hcontent : forall name content le enc ind wle inh key v,
            In name WriterFacts.content_names -> WriterFacts.target s c = build_id (cur_level s) name ->
            new_content_section name content le enc ind wle inh [(key, v)] s = (s', Ok tt) ->
            good_value enc -> good_value ind -> HeaderFacts.spec_key key -> good_value v ->
            exists p dots name line ps opts' body,
              w_prev s = Some p /\ WriterFacts.target s c = build_id dots name /\
              w_out s' = w_out s ++ (line ++ [x0a]) ++ body /\
              HeaderFacts.spec_header line dots name ps /\ StronglySorted key_le ps /\
              parse_header (WriterFacts.table p) line = HOk dots name (WriterFacts.target s c) opts' /\
              ((body = [] /\ assoc_get beq (B "length") opts' = None) \/
               assoc_get beq (B "length") opts' = Some (VInt (Z.of_nat (length body))))).
  { intros name content le enc ind wle inh key v Hname Ht Hc Henc Hind Hkey Hv.
    rewrite Ht in Htab.
    destruct (ncontent_round_trip _ _ _ _ _ _ _ _ _ _ _ _ Hname Hd Htab Hc Henc Hind Hkey Hv Hsize)
      as (line & ps & opts' & body & Ho & Hsp & Hso & Hpa & Hl).
    exists p, (cur_level s), name, line, ps, opts', body. rewrite Ht. repeat (split; [first [assumption|reflexivity]|]). right. exact Hl. }
  destruct c as [en|en|text enc ind le mt|md enc fmt|content dt enc le]; cbn [do_call call_args_good] in *.
  - cbn [WriterFacts.target] in *.
    destruct (ncs_round_trip (B "change") GenText.writer_level_change en [] s s' _ Hne
                ltac:(unfold GenText.writer_level_change; lia) ltac:(unfold GenText.writer_level_change; lia)
                ltac:(cbn; auto 10) Htab H (enc_good_value _ Hargs) (Forall_nil _) (NoDup_nil _))
      as (line & ps & opts' & Ho & Hsp & Hso & Hpa & Hl0).
    assert (Hl : assoc_get beq (B "length") opts' = None).
    { rewrite Hl0. unfold dict_set. cbn [assoc_set assoc_get]. change (beq (B "length") (B "encoding")) with false. reflexivity. }
    exists p, (GenText.writer_level_change - 1), (B "change"), line, ps, opts', [].
    repeat (split; [first [assumption|reflexivity]|]). left. split; [reflexivity|exact Hl].
  - cbn [WriterFacts.target] in *.
    destruct (ncs_round_trip (B "file") GenText.writer_level_file en [] s s' _ Hne
                ltac:(unfold GenText.writer_level_file; lia) ltac:(unfold GenText.writer_level_file; lia)
                ltac:(cbn; auto 10) Htab H (enc_good_value _ Hargs) (Forall_nil _) (NoDup_nil _))
      as (line & ps & opts' & Ho & Hsp & Hso & Hpa & Hl0).
    assert (Hl : assoc_get beq (B "length") opts' = None).
    { rewrite Hl0. unfold dict_set. cbn [assoc_set assoc_get]. change (beq (B "length") (B "encoding")) with false. reflexivity. }
    exists p, (GenText.writer_level_file - 1), (B "file"), line, ps, opts', [].
    repeat (split; [first [assumption|reflexivity]|]). left. split; [reflexivity|exact Hl].
  - destruct text; try (exfalso; eapply Hno; eassumption).
    rewrite WriterFacts.bind_lift in H.
    destruct (match mt with WNone => Ok true | _ => _ end) as [mok|e1] eqn:Emt; [|inversion H].
    destruct (negb mok) eqn:Emok; [exfalso; eapply Hno; eassumption|].
    destruct Hargs as [Henc Hind].
    eapply Hcontent; try exact H.
    + cbn; auto.
    + cbn [WriterFacts.target]. rewrite Nat.add_sub. reflexivity.
    + apply enc_good_value. exact Henc.
    + destruct ind as [v|]; cbn [indent_good] in Hind.
      * destruct Hind as [->|(z & -> & Hz)]; constructor. exact Hz.
      * constructor. apply default_indent_small.
    + apply key_spec. reflexivity.
    + exact (choice_good mt GenText.mimetypes mok choice_sub_mimetypes Emt Emok).
  - destruct md; try (exfalso; eapply Hno; eassumption).
    destruct (negb (wv_truthy (WDict j))); [exfalso; eapply Hno; eassumption|].
    rewrite WriterFacts.bind_lift in H.
    destruct (in_strset _ _) as [fok|e1] eqn:Efmt; [|inversion H].
    destruct (negb fok) eqn:Efok; [exfalso; eapply Hno; eassumption|].
    rewrite WriterFacts.bind_lift in H.
    destruct (json_dump j) as [d|e1]; [|inversion H].
    rewrite WriterFacts.bind_get, WriterFacts.bind_lift in H.
    destruct (if wv_truthy enc then _ else _) as [has_enc|e1]; [|inversion H].
    eapply Hcontent; try exact H.
    + cbn; auto.
    + cbn [WriterFacts.target]. rewrite Nat.add_sub. reflexivity.
    + apply enc_good_value. exact Hargs.
    + constructor.
    + apply key_spec. reflexivity.
    + destruct fok; [|discriminate Efok]. apply in_strset_true in Efmt. destruct Efmt as (x & Hx & ->).
      apply choice_values_spec. apply choice_sub_meta_formats. exact Hx.
  - destruct content; try (exfalso; eapply Hno; eassumption).
    rewrite WriterFacts.bind_lift in H.
    destruct (match dt with WNone => Ok true | _ => _ end) as [tok|e1] eqn:Edt; [|inversion H].
    destruct (negb tok) eqn:Etok; [exfalso; eapply Hno; eassumption|].
    eapply Hcontent; try exact H.
    + cbn; auto.
    + cbn [WriterFacts.target]. rewrite Nat.add_sub. reflexivity.
    + apply enc_good_value. exact Hargs.
    + constructor.
    + apply key_spec. reflexivity.
    + exact (choice_good dt GenText.diff_types tok choice_sub_diff_types Edt Etok).
Qed.

(* the first header, written by the constructor *)
Theorem C02_init_header : forall enc ver s0 valid,
  writer_init enc ver = (s0, Ok tt) -> enc_good enc -> In (B "diffx") valid ->
  exists line ps opts',
    w_out s0 = line ++ [x0a] /\
    HeaderFacts.spec_header line 0 (B "diffx") ps /\ StronglySorted key_le ps /\
    parse_header valid line = HOk 0 (B "diffx") (B "diffx") opts' /\
    assoc_get beq (B "version") opts' = Some (VStr GenText.writer_version) /\
    assoc_get beq (B "encoding") opts' = read_back enc.
Proof.
  intros enc ver s0 valid H Henc Hvalid. unfold writer_init in H.
  destruct (in_strset ver GenText.versions) as [[|]|e] eqn:Ev; try (inversion H; fail).
  apply in_strset_true in Ev. destruct Ev as (x & Hx & ->).
  assert (Hxv : x = GenText.writer_version).
  { unfold GenText.versions in Hx. cbn [In] in Hx. destruct Hx as [<-|[]]. reflexivity. }
  subst x.
  destruct (choice_values_spec GenText.writer_version) as (_ & Hgv & Hrb).
  { unfold choice_values. do 4 (apply in_or_app; right). left. reflexivity. }
  destruct (ncs_round_trip (B "diffx") GenText.writer_level_main enc
              [(B "version", WStr (ascii_text GenText.writer_version))]
              {| w_out := []; w_stack := [enc]; w_prev := None |} s0 valid
              ltac:(cbn; discriminate) ltac:(unfold GenText.writer_level_main; lia)
              ltac:(unfold GenText.writer_level_main; lia) ltac:(cbn; auto 10) Hvalid H
              (enc_good_value _ Henc)) as (line & ps & opts' & Ho & Hsp & Hso & Hpa & Hk).
  { constructor; [|constructor]. split; [apply key_spec; reflexivity|exact Hgv]. }
  { cbn. constructor; [intros []|constructor]. }
  exists line, ps, opts'. cbn [w_out app] in Ho. rewrite app_nil_r in Ho.
  split; [exact Ho|]. split; [exact Hsp|]. split; [exact Hso|]. split; [exact Hpa|].
  rewrite !Hk. unfold dict_set. rewrite !(HeaderFacts.assoc_get_set beq HeaderFacts.beq_spec).
  change (beq (B "version") (B "encoding")) with false. change (beq (B "encoding") (B "encoding")) with true.
  cbv iota. cbn [assoc_get]. change (beq (B "version") (B "version")) with true. cbv iota.
  split; [exact Hrb|reflexivity].
Qed.

(* ================================================================================================ *)
(** * 10. Whole call sequences: every accepted call of a run contributes one section with the per-call
       properties; rejected calls contribute nothing (C09) *)

Section Trace.
  Variable Pre : call -> Prop.
  Variable Q : wstate -> call -> wstate -> Prop.
  Inductive trace : wstate -> list call -> wstate -> Prop :=
  | T_nil s : trace s [] s
  | T_ok s c s' cs sf : do_call c s = (s', Ok tt) -> Q s c s' -> trace s' cs sf -> trace s (c :: cs) sf
  | T_err s c e cs sf : do_call c s = (s, Err e) -> trace s cs sf -> trace s (c :: cs) sf.

  Hypothesis HQ : forall s c s', WriterFacts.reachable s -> Pre c -> do_call c s = (s', Ok tt) -> Q s c s'.

  Theorem run_calls_trace : forall cs s, WriterFacts.reachable s -> Forall Pre cs ->
    trace s cs (snd (run_calls s cs)).
  Proof.
    induction cs as [|c cs IH]; intros s Hs Hpre; [constructor|].
    inversion Hpre as [|? ? Hc Hcs]; subst.
    cbn [run_calls]. destruct (do_call c s) as [s' r] eqn:E.
    destruct (run_calls s' cs) as [rs f] eqn:Er. cbn [snd].
    assert (Hf : f = snd (run_calls s' cs)) by (rewrite Er; reflexivity).
    destruct r as [[]|e].
    - eapply T_ok; [exact E|apply HQ; assumption|]. rewrite Hf. apply IH; [|exact Hcs].
      eapply WriterFacts.reachable_step; eauto.
    - pose proof (WriterFacts.C09_atomic s Hs c s' e E) as Es. subst s'.
      eapply T_err; [exact E|]. rewrite Hf. apply IH; assumption.
  Qed.
End Trace.

(* the unconditional part: ids, order, shape of every header of the stream *)
Definition section_legal (s : wstate) (c : call) (s' : wstate) : Prop :=
  exists p dots name pairs rest,
    w_prev s = Some p /\ In p WriterFacts.ids /\
    WriterFacts.target s c = build_id dots name /\ dots <= 3 /\ In name HeaderFacts.spec_names /\
    In (WriterFacts.target s c) WriterFacts.ids /\
    In (WriterFacts.target s c) (WriterFacts.table p) /\
    w_prev s' = Some (WriterFacts.target s c) /\
    w_out s' = w_out s ++ (B "#" ++ WriterFacts.target s c ++ B ":" ++ header_tail pairs ++ [x0a]) ++ rest.

Theorem C02_stream_ids_legal : forall cs s, WriterFacts.reachable s ->
  trace section_legal s cs (snd (run_calls s cs)).
Proof.
  intros cs s Hs. apply (run_calls_trace (fun _ => True)); [|exact Hs|].
  - intros s1 c s1' Hr _ H. exact (C02_ids_legal s1 c s1' Hr H).
  - apply Forall_forall. intros. exact I.
Qed.

(* with codec-name encodings and int indents: every header line of the stream is in the spec grammar,
   has its options sorted by key, is accepted by the reader's header parser in the state the hierarchy table
   prescribes, and its length option reads back as the number of content bytes that follow *)
Definition section_parses (s : wstate) (c : call) (s' : wstate) : Prop :=
  (N.of_nat (length (w_out s')) < 10 ^ 4300)%N ->
  exists p dots name line ps opts' body,
    w_prev s = Some p /\ WriterFacts.target s c = build_id dots name /\
    w_out s' = w_out s ++ (line ++ [x0a]) ++ body /\
    HeaderFacts.spec_header line dots name ps /\ StronglySorted key_le ps /\
    parse_header (WriterFacts.table p) line = HOk dots name (WriterFacts.target s c) opts' /\
    ((body = [] /\ assoc_get beq (B "length") opts' = None) \/
     assoc_get beq (B "length") opts' = Some (VInt (Z.of_nat (length body)))).

Theorem C02_stream_headers_parse : forall cs s, WriterFacts.reachable s -> Forall call_args_good cs ->
  trace section_parses s cs (snd (run_calls s cs)).
Proof.
  intros cs s Hs Hpre. apply (run_calls_trace call_args_good); [|exact Hs|exact Hpre].
  intros s1 c s1' Hr Hc H Hsize. exact (C02_call_header_parses s1 c s1' Hr H Hc Hsize).
Qed.

(* ================================================================================================ *)
(** * 11. The header is the spec-side rendering of the key-sorted non-None options, whatever sorting
       procedure one uses: the sorted list is unique *)

Theorem C02_header_is_spec_rendering : forall dots name opts ps',
  dots <= 3 -> In name HeaderFacts.spec_names -> NoDup (map fst opts) -> Forall good_opt opts ->
  Permutation (map spec_pair_of (present opts)) ps' -> StronglySorted key_le ps' ->
  render_header (build_id dots name) opts = Ok (HeaderFacts.render_header dots name ps' ++ [x0a]) /\
  HeaderFacts.spec_header (HeaderFacts.render_header dots name ps') dots name ps'.
Proof.
  intros dots name opts ps' Hd Hn Hnd Hg Hperm Hsorted.
  destruct (C02_header_round_trip [build_id dots name] dots name opts Hd Hn (or_introl eq_refl) Hnd Hg)
    as (line & ps & opts' & Hr & Hps & Hs & _ & _).
  assert (E : ps = ps').
  { apply (sorted_perm_unique (@fst bytes bytes) bytes_leb bytes_leb_antisym).
    - rewrite Hps. apply StronglySorted_map_keys. apply present_sort_sorted.
    - exact Hsorted.
    - rewrite Hps. eapply perm_trans; [|exact Hperm]. apply Permutation_map. apply Permutation_sym, present_sort_perm.
    - rewrite Hps, map_map. cbn [spec_pair_of fst]. unfold present. apply NoDup_map_filter.
      eapply Permutation_NoDup; [|exact Hnd]. apply Permutation_map. apply sort_opts_perm. }
  subst ps'. destruct Hs as (H1 & H2 & H3 & H4). rewrite <- H4. split; [exact Hr|].
  split; [exact H1|]. split; [exact H2|]. split; [exact H3|exact H4].
Qed.

(* ================================================================================================ *)
(** * 12. A whole call: write_preamble with an indent, from the API call down to the bytes *)

Theorem C02_preamble_call : forall s t enc k le mt s', (0 < k)%Z ->
  do_call (WritePreamble (WStr t) enc (Some (WInt k)) le mt) s = (s', Ok tt) ->
  exists e eb lename newline content_b lines h,
    eff_enc s enc true = Ok (WStr e) /\ c_enc ascii e = Some eb /\
    In lename (map fst GenText.newline_formats) /\
    get_newline_for_type lename (Some eb) = Ok newline /\
    py_encode t eb = Ok content_b /\
    split_lines (add_newline newline content_b) newline true = Ok lines /\
    concat lines = add_newline newline content_b /\
    Forall (fun l => bends newline l = true) lines /\
    let body := concat (map (fun l => repeat_b x20 (Z.to_nat k) ++ l) lines) in
    render_header (build_id (cur_level s) (B "preamble"))
      (content_opts body (WStr (ascii_text lename)) enc (WInt k) true [(B "mimetype", mt)]) = Ok h /\
    w_out s' = w_out s ++ h ++ body.
Proof.
  intros s t enc k le mt s' Hk H. cbn [do_call] in H.
  rewrite WriterFacts.bind_lift in H.
  destruct (match mt with WNone => Ok true | _ => _ end) as [mok|e1]; [|inversion H].
  destruct (negb mok); [inversion H|].
  apply C02_length_exact in H. destruct H as (body & le_out & h & Hprep & Hh & _ & Ho & _ & _).
  destruct (C02_preamble_indent _ _ _ _ _ _ _ _ Hk Hprep)
    as (e & eb & lename & newline & cb & lines & H1 & H2 & H3 & H4 & H5 & H6 & H7 & H8 & H9 & H10).
  exists e, eb, lename, newline, cb, lines, h. subst body le_out.
  repeat (split; [assumption|]). exact Ho.
Qed.

(* ================================================================================================ *)
(** * Definitions used by the examples in props/C02.v *)

Definition T (s : String.string) : text := ascii_text (B s).
Definition LF : bytes := [x0a].
(* "Hello\nwörld" — no final newline, one non-ASCII code point *)
Definition ex_text : text := T "Hello" ++ [10%N] ++ T "w" ++ [246%N] ++ T "rld".
Definition ex_json : json := JObj [(T "zeta", JInt 3); (T "alpha", JList [JBool true; JNull])].
Definition ex_preamble_call : call := WritePreamble (WStr ex_text) WNone (Some (WInt 4)) WNone (WStr (T "text/plain")).
Definition ex_meta_call : call := WriteMeta (WDict ex_json) WNone None.
Definition ex_calls : list call := [ex_preamble_call; ex_meta_call].
Definition ex_opts : list (bytes * wv) :=
  [(B "length", WInt 118); (B "format", WStr (T "json")); (B "encoding", WNone)].
(* the state of a writer constructed with encoding utf-8, version 1.0 (WriterFacts.s_ex) *)
Definition ex_state : wstate := WriterFacts.s_ex.

Definition ex_json_bytes : bytes :=
  B "{" ++ LF ++
  B "    ""alpha"": [" ++ LF ++
  B "        true," ++ LF ++
  B "        null" ++ LF ++
  B "    ]," ++ LF ++
  B "    ""zeta"": 3" ++ LF ++
  B "}".

Definition ex_preamble_body : bytes :=
  B "    Hello" ++ LF ++ B "    w" ++ [xc3; xb6] ++ B "rld" ++ LF.

Definition ex_stream : bytes :=
  B "#diffx: encoding=utf-8, version=1.0" ++ LF ++
  B "#.preamble: indent=4, length=21, line_endings=unix, mimetype=text/plain" ++ LF ++
  ex_preamble_body ++
  B "#.meta: format=json, length=67" ++ LF ++
  ex_json_bytes ++ LF.

Lemma small_4 : small_int 4 /\ small_int 118.
Proof. split; apply small_int_bound; vm_compute; reflexivity. Qed.

Lemma ex_opts_good : Forall good_opt ex_opts /\ NoDup (map fst ex_opts).
Proof.
  split.
  - constructor; [|constructor; [|constructor; [|constructor]]]; (split; [apply key_spec; reflexivity|]); cbn [snd].
    + apply GV_int. apply small_4.
    + apply (GV_str (B "json")). apply HeaderFacts.spec_val_iff. reflexivity.
    + apply GV_none.
  - apply HeaderFacts.nodup_b_sound. reflexivity.
Qed.

Lemma ex_calls_good : Forall call_args_good ex_calls.
Proof.
  constructor; [|constructor; [|constructor]].
  - split; [left; reflexivity|]. right. exists 4%Z. split; [reflexivity|apply small_4].
  - left. reflexivity.
Qed.

Lemma ex_enc_good : enc_good (WStr (T "utf-16")) /\ enc_good WNone.
Proof.
  split; [|left; reflexivity]. right.
  destruct (find_row (B "utf-16") GenCodecs.rows) as [r|] eqn:E.
  - exists (B "utf-16"), r. split; [reflexivity|exact E].
  - exfalso. assert (H : match find_row (B "utf-16") GenCodecs.rows with Some _ => True | None => False end)
      by (vm_compute; exact I). rewrite E in H. exact H.
Qed.

Lemma ex_floats_ascii : floats_ascii ex_json.
Proof. repeat constructor. Qed.

(* ================================================================================================ *)
(** * 13. A whole call: write_meta — canonical JSON, encoded, LF-terminated in the effective encoding *)

Lemma guess_json_text : forall r,
  guess_line_endings_text (123%N :: 10%N :: r) = (GenText.le_unix, nl_text GenText.le_unix).
Proof.
  intros r. unfold guess_line_endings_text.
  change (nl_text GenText.le_unix) with [10%N]. change (nl_text GenText.le_dos) with [13%N; 10%N].
  reflexivity.
Qed.

Lemma unix_newline_format : assoc_get beq GenText.le_unix GenText.newline_formats = Some (nl_text GenText.le_unix).
Proof. vm_compute. reflexivity. Qed.

(* write_meta's test "is an encoding in force?" is the truthiness of the effective encoding *)
Lemma meta_has_enc_eff : forall s enc b,
  (if wv_truthy enc then Ok true else do ce <- cur_encoding s; Ok (wv_truthy ce)) = Ok b ->
  exists ce, eff_enc s enc true = Ok ce /\ wv_truthy ce = b.
Proof.
  intros s enc b H. unfold eff_enc. destruct (wv_truthy enc) eqn:E; cbn [negb andb].
  - apply Ok_inj in H. subst b. exists enc. split; [reflexivity|exact E].
  - destruct (cur_encoding s) as [ce|e]; [|discriminate H]. cbn [bind] in H. apply Ok_inj in H.
    exists ce. split; [reflexivity|exact H].
Qed.

Lemma guess_json_bytes : forall r,
  guess_line_endings_bytes (x7b :: x0a :: r) (Some (B "ascii")) = Ok (GenText.le_unix, [x0a]).
Proof.
  intros r. unfold guess_line_endings_bytes. cbv zeta.
  replace (py_encode (nl_text GenText.le_unix) (enc_or_ascii (Some (B "ascii")))) with (Ok [x0a])
    by (vm_compute; reflexivity).
  replace (py_encode (nl_text GenText.le_dos) (enc_or_ascii (Some (B "ascii")))) with (Ok [x0d; x0a])
    by (vm_compute; reflexivity).
  cbn [bind].
  replace (strip_bom [x0a] (Some (enc_or_ascii (Some (B "ascii"))))) with [x0a] by (vm_compute; reflexivity).
  replace (strip_bom [x0d; x0a] (Some (enc_or_ascii (Some (B "ascii"))))) with [x0d; x0a] by (vm_compute; reflexivity).
  reflexivity.
Qed.

(* a falsy effective encoding names no BOM: None and friends give no codec name at all, '' is not in the BOM table *)
Lemma strip_bom_falsy : forall ce x, wv_truthy ce = false -> strip_bom x (enc1_name ce) = x.
Proof.
  intros ce x H. destruct ce as [| | |t| | |]; try reflexivity.
  destruct t as [|c t]; [|discriminate H]. cbn [enc1_name].
  change (c_enc ascii []) with (Some (@nil byte)).
  unfold strip_bom. replace (assoc_get beq (canonical_or_same []) GenText.boms) with (@None (list bytes))
    by (vm_compute; reflexivity). reflexivity.
Qed.

(* the bytes path of write_meta: JSON bytes (they start with "{" LF) prepared with no encoding in force are
   terminated by the ASCII LF, and the detected line ending is unix *)
Lemma prepare_meta_bytes : forall s d r enc ce body lo,
  d = x7b :: x0a :: r -> eff_enc s enc true = Ok ce -> wv_truthy ce = false ->
  prepare_content s (CBytes d) WNone WNone enc true = Ok (body, lo) ->
  body = add_newline [x0a] d /\ lo = WStr (ascii_text GenText.le_unix).
Proof.
  intros s d r enc ce body lo Hr Hce Htruthy Hprep.
  apply prepare_content_unfold in Hprep.
  destruct Hprep as (enc1 & nl0 & nb & cb & H1 & H2 & H3 & H4 & _ & H6).
  rewrite Hce in H1. apply Ok_inj in H1. subst enc1.
  unfold finish_content in H6. cbn [wv_truthy] in H6. apply Ok_inj in H6. subst body.
  unfold choose_newline in H2. cbn [declared_newline] in H2.
  unfold newline_encoding_of in H2. rewrite Htruthy in H2.
  replace (enc_name (WStr (ascii_text (B "ascii")))) with (Ok (Some (B "ascii"))) in H2 by (vm_compute; reflexivity).
  cbn [bind] in H2. rewrite Hr, guess_json_bytes in H2. cbn [bind fst snd] in H2.
  apply Ok_inj in H2. injection H2 as <- <-.
  cbn [encode_newline] in H3. apply Ok_inj in H3. subst nb.
  cbn [encode_content] in H4. apply Ok_inj in H4. subst cb.
  rewrite (strip_bom_falsy ce [x0a] Htruthy). rewrite Hr. split; reflexivity.
Qed.

(* RESTATED for the fixed write_meta (`if not (encoding or self._cur_encoding): content = content.encode('ascii')`).
   The previous statement concluded, for EVERY accepted write_meta, that the effective encoding is a str [e] whose
   codec encodes the JSON text.  That is false of the fixed writer (see [C02_meta_call_old_refuted] below): with no
   encoding in force — e.g. DiffXWriter(encoding=None).write_meta({..}) — the call used to raise TypeError and is
   now accepted; the (pure ASCII) JSON bytes are written as they are, terminated by an ASCII LF.  What is true is
   the case split on the truthiness of the effective encoding [ce] (the argument, else the innermost container's):
   truthy: exactly the old conclusion; falsy: the body is the canonical JSON bytes plus the ASCII newline. *)
Theorem C02_meta_call : forall s kv enc fmt s',
  do_call (WriteMeta (WDict (JObj kv)) enc fmt) s = (s', Ok tt) ->
  exists d ce body fmtv h,
    kv <> [] /\ json_dump (JObj kv) = Ok d /\
    eff_enc s enc true = Ok ce /\
    ((wv_truthy ce = true /\
      exists e eb cb newline,
        ce = WStr e /\ c_enc ascii e = Some eb /\
        py_encode (ascii_text d) eb = Ok cb /\
        get_newline_for_type GenText.le_unix (Some eb) = Ok newline /\
        body = add_newline newline cb)
     \/
     (wv_truthy ce = false /\
      exists newline,
        get_newline_for_type GenText.le_unix None = Ok newline /\
        body = add_newline newline d)) /\
    render_header (build_id (cur_level s) (B "meta"))
      (content_opts body (WStr (ascii_text GenText.le_unix)) enc WNone false [(B "format", fmtv)]) = Ok h /\
    w_out s' = w_out s ++ h ++ body.
Proof.
  intros s kv enc fmt s' H. cbn [do_call] in H.
  destruct (negb (wv_truthy (WDict (JObj kv)))) eqn:Etr; [inversion H|].
  assert (Hkv : kv <> []) by (intros ->; discriminate Etr).
  rewrite WriterFacts.bind_lift in H.
  destruct (in_strset _ _) as [fok|e1]; [|inversion H].
  destruct (negb fok); [inversion H|].
  rewrite WriterFacts.bind_lift in H.
  destruct (json_dump (JObj kv)) as [d|e1] eqn:Ed; [|inversion H].
  rewrite WriterFacts.bind_get, WriterFacts.bind_lift in H.
  destruct (if wv_truthy enc then _ else _) as [has_enc|e1] eqn:Ehe; [|inversion H].
  destruct (meta_has_enc_eff _ _ _ Ehe) as (ce & Hce & Htruthy).
  apply C02_length_exact in H. destruct H as (body & le_out & h & Hprep & Hh & _ & Ho & _ & _).
  apply prepare_content_unfold in Hprep.
  destruct Hprep as (enc1 & nl0 & nb & cb & H1 & H2 & H3 & H4 & _ & H6).
  rewrite Hce in H1. apply Ok_inj in H1. subst enc1.
  (* the JSON text starts with "{" LF, so the detected line ending is unix *)
  assert (Hd : exists r, d = x7b :: x0a :: r).
  { unfold json_dump in Ed. rewrite dump_obj in Ed by exact Hkv.
    destruct (dump_members 0 kv); [|discriminate Ed]. apply Ok_inj in Ed. subst d.
    eexists. reflexivity. }
  destruct Hd as (r & Hr).
  unfold finish_content in H6. cbn [wv_truthy] in H6. apply Ok_inj in H6. subst body.
  destruct has_enc; cbv iota in *.
  - (* an encoding is in force: the JSON text is encoded like any text content *)
    unfold choose_newline in H2. cbn [declared_newline] in H2.
    assert (Hrt : ascii_text d = 123%N :: 10%N :: ascii_text r) by (rewrite Hr; reflexivity).
    rewrite Hrt, guess_json_text in H2.
    apply Ok_inj in H2. injection H2 as <- <-.
    cbn [encode_newline] in H3. apply encode_dyn_ok in H3. destruct H3 as (e & eb & -> & Heb & Hpy).
    cbn [encode_content] in H4. unfold encode_dyn in H4. rewrite Heb in H4.
    cbn [enc1_name] in *. rewrite Heb in *.
    exists d, (WStr e), (add_newline (strip_bom nb (Some eb)) cb).
    eexists. exists h. split; [exact Hkv|]. split; [reflexivity|]. split; [exact Hce|]. split.
    + left. split; [exact Htruthy|]. exists e, eb, cb, (strip_bom nb (Some eb)).
      split; [reflexivity|]. split; [exact Heb|]. split; [exact H4|]. split; [|reflexivity].
      unfold get_newline_for_type, enc_or_ascii. rewrite unix_newline_format, Hpy. reflexivity.
    + split; [exact Hh|exact Ho].
  - (* no encoding in force: the JSON bytes go out as they are, with an ASCII newline *)
    unfold choose_newline in H2. cbn [declared_newline] in H2.
    unfold newline_encoding_of in H2. rewrite Htruthy in H2.
    replace (enc_name (WStr (ascii_text (B "ascii")))) with (Ok (Some (B "ascii"))) in H2 by (vm_compute; reflexivity).
    cbn [bind] in H2. rewrite Hr, guess_json_bytes in H2. cbn [bind fst snd] in H2.
    apply Ok_inj in H2. injection H2 as <- <-.
    cbn [encode_newline] in H3. apply Ok_inj in H3. subst nb.
    cbn [encode_content] in H4. apply Ok_inj in H4. subst cb.
    rewrite (strip_bom_falsy ce [x0a] Htruthy) in *.
    exists d, ce, (add_newline [x0a] d).
    eexists. exists h. split; [exact Hkv|]. split; [reflexivity|]. split; [exact Hce|]. split.
    + right. split; [exact Htruthy|]. exists [x0a]. split; [vm_compute; reflexivity|reflexivity].
    + split; [exact Hh|exact Ho].
Qed.

(* the previous statement of C02_meta_call is refuted by the fixed writer: DiffXWriter(encoding=None) followed by
   write_meta({'k': 1}) is accepted although no str encoding is in effect *)
Example C02_meta_call_old_refuted :
  exists s kv enc fmt s',
    WriterFacts.reachable s /\
    do_call (WriteMeta (WDict (JObj kv)) enc fmt) s = (s', Ok tt) /\
    eff_enc s enc true = Ok WNone /\
    ~ (exists e, eff_enc s enc true = Ok (WStr e)).
Proof.
  set (s0 := fst (writer_init WNone WriterFacts.V10)).
  exists s0, [(ascii_text (B "k"), JInt 1)], WNone, None.
  eexists. split; [|split; [vm_compute; reflexivity|split; [vm_compute; reflexivity|]]].
  - apply (WriterFacts.reachable_init WNone WriterFacts.V10). vm_compute. reflexivity.
  - intros (e & He). vm_compute in He. discriminate He.
Qed.

(* ================================================================================================ *)
(** * 14. Diff sections (bytes content): the terminating newline is get_newline_for_type of the line-ending
       kind named in the header and the section's own encoding (diffs never inherit; none => ascii) *)

Lemma strip_bom_no_entry : forall e x,
  assoc_get beq (canonical_or_same e) GenText.boms = None -> strip_bom x (Some e) = x.
Proof. intros e x H. unfold strip_bom. rewrite H. reflexivity. Qed.

Lemma ascii_no_bom :
  assoc_get beq (canonical_or_same (B "ascii")) GenText.boms = None /\
  assoc_get beq (canonical_or_same []) GenText.boms = None.
Proof. split; vm_compute; reflexivity. Qed.

(* what get_newline_for_type returns is BOM-free: stripping again changes nothing (all names, all spellings) *)
Definition strip_idem_ok (le : bytes) (enc : option bytes) : bool :=
  match get_newline_for_type le enc with Ok nl => beq (strip_bom nl enc) nl | Err _ => true end.

Lemma strip_idem_b :
  forallb (fun le => forallb (fun r => strip_idem_ok le (Some (GenCodecs.cr_spelling r))) GenCodecs.rows)
          (map fst GenText.newline_formats) = true.
Proof. vm_compute. reflexivity. Qed.

Lemma model_newline_strip_idem : forall le eb nl,
  get_newline_for_type le (Some eb) = Ok nl -> strip_bom nl (Some eb) = nl.
Proof.
  intros le eb nl H.
  assert (Hok : strip_idem_ok le (Some eb) = true).
  { pose proof strip_idem_b as Hall. rewrite forallb_forall in Hall.
    destruct (assoc_get beq le GenText.newline_formats) as [t|] eqn:Ele.
    2:{ unfold get_newline_for_type in H. rewrite Ele in H. discriminate H. }
    specialize (Hall le (TextFacts.assoc_get_beq_in le _ t Ele)).
    destruct (find_row eb GenCodecs.rows) as [r|] eqn:F.
    - apply TextFacts.find_row_some in F. destruct F as [Hin ->]. rewrite forallb_forall in Hall. exact (Hall r Hin).
    - unfold get_newline_for_type, enc_or_ascii, py_encode, lookup_codec in H. rewrite Ele, F in H. discriminate H. }
  unfold strip_idem_ok in Hok. rewrite H in Hok. apply HeaderFacts.beq_spec. exact Hok.
Qed.

Lemma gnft_unfold : forall lename nl eb nb,
  assoc_get beq lename GenText.newline_formats = Some nl -> py_encode nl eb = Ok nb ->
  get_newline_for_type lename (Some eb) = Ok (strip_bom nb (Some eb)).
Proof. intros lename nl eb nb H1 H2. unfold get_newline_for_type, enc_or_ascii. rewrite H1, H2. reflexivity. Qed.

Lemma falsy_encoding : forall e1, wv_truthy e1 = false ->
  newline_encoding_of e1 = WStr (ascii_text (B "ascii")) /\ forall x, strip_bom x (enc1_name e1) = x.
Proof.
  intros e1 H. unfold newline_encoding_of. rewrite H. split; [reflexivity|]. intros x.
  destruct e1; cbn [enc1_name]; try reflexivity.
  cbn [wv_truthy] in H. destruct t; [|discriminate H].
  assert (E : c_enc ascii [] = Some []) by reflexivity. rewrite E. apply strip_bom_no_entry. apply ascii_no_bom.
Qed.

Lemma dos_newline_format : assoc_get beq GenText.le_dos GenText.newline_formats = Some (nl_text GenText.le_dos).
Proof. vm_compute. reflexivity. Qed.

Lemma guess_bytes_spec : forall b en p, guess_line_endings_bytes b en = Ok p ->
  In (fst p) (map fst GenText.newline_formats) /\ get_newline_for_type (fst p) en = Ok (snd p).
Proof.
  intros b en p H. unfold guess_line_endings_bytes in H. step_bind H. step_bind H.
  assert (Hu : get_newline_for_type GenText.le_unix en = Ok (strip_bom a (Some (enc_or_ascii en)))).
  { unfold get_newline_for_type. rewrite unix_newline_format, E. reflexivity. }
  assert (Hd : get_newline_for_type GenText.le_dos en = Ok (strip_bom a0 (Some (enc_or_ascii en)))).
  { unfold get_newline_for_type. rewrite dos_newline_format, E0. reflexivity. }
  destruct (bfind _ b); [destruct (bends _ _)|]; apply Ok_inj in H; subst p; cbn [fst snd];
    (split; [apply le_guess_names|assumption]).
Qed.

Theorem C02_bytes_section_newline : forall s b indent le enc inherit body le_out,
  prepare_content s (CBytes b) indent le enc inherit = Ok (body, le_out) ->
  exists encoding1 eb lename newline,
    eff_enc s enc inherit = Ok encoding1 /\
    (if wv_truthy encoding1 then exists e, encoding1 = WStr e /\ c_enc ascii e = Some eb else eb = B "ascii") /\
    In lename (map fst GenText.newline_formats) /\
    le_out = WStr (ascii_text lename) /\ (declared_newline le <> None -> le_out = le) /\
    get_newline_for_type lename (Some eb) = Ok newline /\
    newline <> [] /\ TextFacts.unbordered newline /\
    bends newline body = true.
Proof.
  intros s b indent le enc inherit body le_out H.
  destruct (C02_content_ends_with_newline _ _ _ _ _ _ _ _ H) as (e1 & nl0 & nb & H1 & H2 & H3 & H4).
  assert (Hmain : exists eb lename,
            (if wv_truthy e1 then exists e, e1 = WStr e /\ c_enc ascii e = Some eb else eb = B "ascii") /\
            In lename (map fst GenText.newline_formats) /\
            le_out = WStr (ascii_text lename) /\ (declared_newline le <> None -> le_out = le) /\
            get_newline_for_type lename (Some eb) = Ok (strip_bom nb (enc1_name e1))).
  { unfold choose_newline in H2. destruct (declared_newline le) as [nl|] eqn:Ed.
    - step_bind H2. apply Ok_inj in H2. injection H2 as <- <-. cbn [encode_newline] in H3. apply Ok_inj in H3. subst a.
      assert (Hle : exists lename, le = WStr (ascii_text lename) /\ assoc_get beq lename GenText.newline_formats = Some nl).
      { unfold declared_newline in Ed. destruct le; try discriminate Ed.
        destruct (c_enc ascii t) as [lename|] eqn:Ec; [|discriminate Ed]. apply enc_ascii_spec in Ec.
        destruct Ec as [-> _]. eauto. }
      destruct Hle as (lename & Hle & Hnl).
      apply encode_dyn_ok in E. destruct E as (e' & eb' & Hne & Heb' & Hpy).
      exists eb', lename. destruct (wv_truthy e1) eqn:Et.
      + unfold newline_encoding_of in Hne. rewrite Et in Hne. subst e1.
        split; [eauto|]. split; [eapply TextFacts.assoc_get_beq_in; exact Hnl|]. split; [exact Hle|].
        split; [reflexivity|]. cbn [enc1_name]. rewrite Heb'. eapply gnft_unfold; eassumption.
      + destruct (falsy_encoding e1 Et) as [Hn Hs]. rewrite Hn in Hne. injection Hne as <-.
        assert (eb' = B "ascii") by (vm_compute in Heb'; injection Heb' as <-; reflexivity). subst eb'.
        split; [reflexivity|]. split; [eapply TextFacts.assoc_get_beq_in; exact Hnl|]. split; [exact Hle|].
        split; [reflexivity|]. rewrite Hs. rewrite (gnft_unfold _ _ _ _ Hnl Hpy).
        rewrite strip_bom_no_entry by apply ascii_no_bom. reflexivity.
    - step_bind H2. step_bind H2. apply Ok_inj in H2. injection H2 as <- <-.
      cbn [encode_newline] in H3. apply Ok_inj in H3. subst nb.
      destruct (guess_bytes_spec _ _ _ E0) as [Hin Hg].
      destruct (wv_truthy e1) eqn:Et.
      + unfold newline_encoding_of in E. rewrite Et in E. unfold enc_name in E.
        destruct e1; try discriminate E; try discriminate Et.
        destruct (c_enc ascii t) as [eb|] eqn:Heb; [|discriminate E]. apply Ok_inj in E. subst a.
        exists eb, (fst a0). split; [eauto|]. split; [exact Hin|]. split; [reflexivity|]. split; [congruence|].
        cbn [enc1_name]. rewrite Heb. rewrite (model_newline_strip_idem _ _ _ Hg). exact Hg.
      + destruct (falsy_encoding e1 Et) as [Hn Hs]. rewrite Hn in E.
        assert (a = Some (B "ascii")) by (vm_compute in E; injection E as <-; reflexivity). subst a.
        exists (B "ascii"), (fst a0). split; [reflexivity|]. split; [exact Hin|]. split; [reflexivity|].
        split; [congruence|]. rewrite Hs. exact Hg. }
  destruct Hmain as (eb & lename & Ha & Hb & Hc & Hd & Hg).
  exists e1, eb, lename, (strip_bom nb (enc1_name e1)).
  destruct (TextFacts.model_newlines_unbordered _ _ _ Hg) as [Hne Hu].
  repeat (split; [assumption|]). exact H4.
Qed.

(* outside C02's quantifier (encodings are codec names there), but worth recording: the container calls do
   not validate their encoding argument; an accepted call can emit a header outside the grammar *)
Definition ex_bad_container_call : call := NewChange (WStr (T "x y")).

(* ================================================================================================ *)
(** * Bundled forms quoted by props/C02.v *)

Theorem isort_sorted_perm : forall {A} (leb : A -> A -> bool),
  (forall a b, leb a b = true \/ leb b a = true) ->
  (forall a b c, leb a b = true -> leb b c = true -> leb a c = true) ->
  forall l, StronglySorted (fun a b => leb a b = true) (isort leb l) /\ Permutation l (isort leb l).
Proof. intros A leb Ht Htr l. split; [apply isort_sorted; assumption|apply isort_perm]. Qed.

Theorem C02_header_canonical : forall section opts h, render_header section opts = Ok h ->
  exists pairs,
    Forall2 pair_of (present (sort_opts opts)) pairs /\
    StronglySorted key_le (present (sort_opts opts)) /\
    Permutation (present opts) (present (sort_opts opts)) /\
    h = B "#" ++ section ++ B ":" ++ header_tail pairs ++ [x0a].
Proof.
  intros section opts h H. destruct (C02_header_shape section opts h H) as (pairs & HF & E).
  exists pairs. split; [exact HF|]. split; [apply present_sort_sorted|]. split; [apply present_sort_perm|exact E].
Qed.

Theorem decimal_round_trip : forall z, small_int z ->
  convert_value (Z_to_dec z) = VInt z /\ HeaderFacts.spec_val (Z_to_dec z).
Proof. intros z H. split; [apply convert_value_Z_to_dec; exact H|apply Z_to_dec_spec_val]. Qed.

Theorem sort_kb_sorted_perm : forall kv, StronglySorted tkey_le (sort_kb kv) /\ Permutation kv (sort_kb kv).
Proof. intros kv. split; [apply sort_kb_sorted|apply sort_kb_perm]. Qed.

Lemma ex_bad_container : exists s',
  do_call ex_bad_container_call ex_state = (s', Ok tt) /\
  w_out s' = w_out ex_state ++ B "#.change: encoding=x y" ++ [x0a] /\
  parse_header (WriterFacts.table (B "diffx")) (B "#.change: encoding=x y") = HErr None /\
  ~ call_args_good ex_bad_container_call.
Proof.
  eexists. split; [vm_compute; reflexivity|]. split; [vm_compute; reflexivity|]. split; [vm_compute; reflexivity|].
  intros [H|(eb & r & H & Hr)]; [discriminate H|].
  injection H as H. apply (f_equal (map n_byte)) in H. rewrite map_n_byte_ascii_text in H. subst eb.
  vm_compute in Hr. discriminate Hr.
Qed.

Lemma ex_run : WriterFacts.reachable ex_state /\ Forall call_args_good ex_calls /\
  map fst (fst (run_calls ex_state ex_calls)) = [Ok tt; Ok tt] /\
  w_out (snd (run_calls ex_state ex_calls)) = ex_stream.
Proof.
  split; [exact WriterFacts.ex_reachable|]. split; [exact ex_calls_good|]. split; vm_compute; reflexivity.
Qed.
