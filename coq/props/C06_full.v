(* C06 — parse then re-serialise, COMPOSED with C01 and C05 (props/C05_full.v).
   "For every file the library itself can produce, parsing it into the object model and serialising it again
   returns the identical bytes [...] and is a fixed point: parsing and serialising the result again changes nothing."

   props/C06.v proves this at the object-model level under two hypotheses: [reader_returns_expected] (= C01) and
   [pre_ok_run] (every preamble text re-prepares to the same bytes in the state the writer is in).  Here both are
   discharged: the first by C01_round_trip (props/C05_full.v), the second from the codec laws
   (C06_prepare_idem_text / _inherited, RoundTripAll.codec_ok_modelled) by threading the writer-state invariant
   "every entry of the encoding stack is [enc_ok]" along the accepted calls (C06_pre_ok_run).
   Statements only; proofs in theories/DomCompose.v.

   STATUS: full for files produced by the OBJECT MODEL (dom_write t = Ok b) over the C05_full domain (C06_full), and
   for files produced by the STREAMING writer over the C01 domain with explicit preamble indents (C06_canonical,
   proofs in theories/DomComposeCanon.v: every accepted call list is the call list of a tree).  The restriction on
   indent is the property's own ("indent >= 0 or default") and is needed: C06_canonical_indent_none_refuted.
   Not covered: files of other producers (they are not the output of any call list of the writer model).

   [tree_metas_oracle_ok orc t] / [metas_oracle_ok orc s0 cs] (ADDED with the fix of DiffXWriter.write_meta, `if not
   (encoding or self._cur_encoding): content = content.encode('ascii')`): at every metadata section an encoding is in
   force, OR the oracle answers for the JSON bytes.  A writer / tree without any encoding used to reject write_meta
   (TypeError) and now writes the JSON as ASCII bytes, which the reader hands to json.loads as bytes; [oracle_ok]
   speaks about the JSON text only, so C06_full / C06_full_aligned / C06_canonical / C06_canonical_aligned are false
   for such files without the hypothesis (props/C01_sequence.v: C01_round_trip_unencoded_refuted) and cover them with
   it (C06_full_ex3).  Nothing is required when the writer is constructed with / the main section declares an
   encoding (C01_metas_encoded_init + C01_metas_oracle_of_encoded, C05_tree_metas_oracle_main). *)
From Coq Require Import List Arith NArith ZArith Bool Strings.Byte.
From Coq Require Strings.String.
From DX Require Import Bytes Res Codec Text Sections Header Stream Json Reader Writer Dom.
From DX Require Import RoundTripBase RoundTripSim RoundTripStep RoundTrip RoundTripCor.
From DX Require Import DomSpec DomSpecFacts DomCompose DomComposeCanon.
From DX Require RoundTripSeqExample.
From DXGen Require GenSections GenText GenCodecs.
Import ListNotations.
Import String.StringSyntax.
Local Open Scope string_scope.
Local Open Scope list_scope.

(* the hypothesis [pre_ok_run] of C06_reserialise holds along every accepted call list of the C01 domain, from any
   writer state whose encoding stack holds [enc_ok] values (in particular the constructor's state) *)
Theorem C06_pre_ok_run : forall cs s, w_stack s <> [] -> Forall enc_ok (w_stack s) ->
  Forall call_good cs -> accepted s cs -> pre_ok_run s cs.
Proof. intros cs s H1 H2. apply DomCompose.pre_ok_run_accepted. split; assumption. Qed.
Print Assumptions C06_pre_ok_run.

Theorem C06_pre_ok_run_init : forall enc0 ver s0 cs, writer_init enc0 ver = (s0, Ok tt) -> enc_ok enc0 ->
  Forall call_good cs -> accepted s0 cs -> pre_ok_run s0 cs.
Proof. intros enc0 ver s0 cs Hi He. apply DomCompose.pre_ok_run_accepted. eapply DomCompose.stk_ok_init; eauto. Qed.
Print Assumptions C06_pre_ok_run_init.

(* serialising the normalised tree gives the identical bytes: no [pre_ok_run] hypothesis *)
Theorem C06_reserialise_full : forall t b,
  typed_tree t = true -> tree_encs_ok t = true -> tree_indents_ok t = true ->
  dom_write t = Ok b -> dom_write (normalise t) = Ok b.
Proof. exact DomCompose.C06_reserialise_full. Qed.
Print Assumptions C06_reserialise_full.

(* write, parse, write again: the parsed tree is the normalised tree; re-serialising it returns the identical
   bytes; it is a fixed point of normalisation, and parsing what it serialises to gives it back *)
Theorem C06_full : forall orc t b,
  typed_tree t = true -> tree_encs_ok t = true -> tree_indents_ok t = true ->
  dom_write t = Ok b ->
  tree_oracle_ok orc t -> tree_metas_oracle_ok orc t -> tree_guesses_ok t ->
  (Z.of_nat (length b) <= sys_maxsize)%Z ->
  exists t', dom_read orc b = Ok t' /\ t' = normalise t /\
             dom_write t' = Ok b /\ normalise t' = t' /\
             (forall b', dom_write t' = Ok b' -> dom_read orc b' = Ok t').
Proof. exact DomCompose.C06_full. Qed.
Print Assumptions C06_full.

Theorem C06_full_aligned : forall orc t b,
  typed_tree t = true -> tree_encs_aligned t = true -> tree_indents_ok t = true ->
  dom_write t = Ok b ->
  tree_oracle_ok orc t -> tree_metas_oracle_ok orc t ->
  (Z.of_nat (length b) <= sys_maxsize)%Z ->
  exists t', dom_read orc b = Ok t' /\ t' = normalise t /\
             dom_write t' = Ok b /\ normalise t' = t' /\
             (forall b', dom_write t' = Ok b' -> dom_read orc b' = Ok t').
Proof. exact DomCompose.C06_full_aligned. Qed.
Print Assumptions C06_full_aligned.

(* ---- instance (hypotheses: C05_full_ex2_hypotheses in props/C05_full.v) ---- *)
Example C06_full_ex2 : exists t', dom_read ex_orc2 ex_bytes2 = Ok t' /\ t' = normalise ex_tree2 /\
  dom_write t' = Ok ex_bytes2 /\ normalise t' = t' /\ (forall b', dom_write t' = Ok b' -> dom_read ex_orc2 b' = Ok t').
Proof. exact DomCompose.ex2_C06_full. Qed.

(* a tree without any encoding that has metadata (hypotheses: C05_full_ex3_hypotheses in props/C05_full.v) *)
Example C06_full_ex3 : exists t', dom_read ex_orc3 ex_bytes3 = Ok t' /\ t' = normalise ex_tree3 /\
  dom_write t' = Ok ex_bytes3 /\ normalise t' = t' /\ (forall b', dom_write t' = Ok b' -> dom_read ex_orc3 b' = Ok t').
Proof. exact DomCompose.ex3_C06_full. Qed.

(* ---- files produced by the streaming writer ---- *)

(* [indent_explicit c]: a write_preamble call does not pass indent=None explicitly (omitted = default 4, or an int) *)
Theorem C06_indent_explicit_def : forall c,
  indent_explicit c <-> match c with WritePreamble _ _ (Some WNone) _ _ => False | _ => True end.
Proof. intros; reflexivity. Qed.

(* every accepted call list is the call list of an object-model tree in the domain of C05_full, and the object
   model serialises that tree to the streaming writer's bytes *)
Theorem C06_calls_have_tree : forall enc0 ver s0 cs,
  writer_init enc0 ver = (s0, Ok tt) -> enc_ok enc0 ->
  Forall call_good cs -> Forall indent_explicit cs -> accepted s0 cs ->
  exists t, tree_calls t = Ok cs /\ typed_tree t = true /\ tree_encs_ok t = true /\ tree_indents_ok t = true /\
            tree_encoding t = enc0 /\ tree_version t = ver /\
            dom_write t = Ok (w_out (snd (run_calls s0 cs))).
Proof. exact DomComposeCanon.calls_have_tree. Qed.
Print Assumptions C06_calls_have_tree.

(* the shape of accepted call lists: [preamble] [meta] (change [preamble] [meta] (file [meta] [diff])* )* *)
Theorem C06_accepted_shape : forall enc0 ver s0 cs, writer_init enc0 ver = (s0, Ok tt) -> accepted s0 cs ->
  exists op om od fl cl, cs = resid op om od fl cl /\ shapeb GenSections.sec_main op om od fl = true /\
                         oksb op om od fl cl = true.
Proof. exact DomComposeCanon.accepted_shape. Qed.
Print Assumptions C06_accepted_shape.

(* the file the streaming writer produced parses into a tree t'; t' serialises to the identical bytes; it is a
   fixed point of normalisation and of write-then-read; it is the normalised tree of the call list *)
Theorem C06_canonical : forall enc0 ver s0 cs orc,
  writer_init enc0 ver = (s0, Ok tt) -> enc_ok enc0 ->
  Forall call_good cs -> Forall indent_explicit cs -> accepted s0 cs ->
  metas_oracle_ok orc s0 cs -> guesses_ok s0 cs -> oracle_ok orc cs ->
  (Z.of_nat (length (w_out (snd (run_calls s0 cs)))) <= sys_maxsize)%Z ->
  exists t', dom_read orc (w_out (snd (run_calls s0 cs))) = Ok t' /\
             dom_write t' = Ok (w_out (snd (run_calls s0 cs))) /\ normalise t' = t' /\
             (forall b', dom_write t' = Ok b' -> dom_read orc b' = Ok t') /\
             exists t0, tree_calls t0 = Ok cs /\ t' = normalise t0.
Proof. exact DomComposeCanon.C06_canonical. Qed.
Print Assumptions C06_canonical.

Theorem C06_canonical_aligned : forall enc0 ver s0 cs orc,
  writer_init enc0 ver = (s0, Ok tt) -> enc_aligned enc0 ->
  Forall call_good cs -> Forall (fun c => enc_aligned (call_enc c)) cs -> Forall indent_explicit cs -> accepted s0 cs ->
  metas_oracle_ok orc s0 cs -> oracle_ok orc cs ->
  (Z.of_nat (length (w_out (snd (run_calls s0 cs)))) <= sys_maxsize)%Z ->
  exists t', dom_read orc (w_out (snd (run_calls s0 cs))) = Ok t' /\
             dom_write t' = Ok (w_out (snd (run_calls s0 cs))) /\ normalise t' = t' /\
             (forall b', dom_write t' = Ok b' -> dom_read orc b' = Ok t') /\
             exists t0, tree_calls t0 = Ok cs /\ t' = normalise t0.
Proof. exact DomComposeCanon.C06_canonical_aligned. Qed.
Print Assumptions C06_canonical_aligned.

(* instance: the 14-call list of props/C01_sequence.v (hypotheses: C01_round_trip_ex there, and no explicit
   indent=None) *)
Example C06_canonical_ex_hypotheses :
  writer_init RoundTripSeqExample.ex_enc0 RoundTripSeqExample.ex_ver = (RoundTripSeqExample.ex_s0, Ok tt) /\
  enc_ok RoundTripSeqExample.ex_enc0 /\ Forall call_good RoundTripSeqExample.ex_cs /\
  Forall indent_explicit RoundTripSeqExample.ex_cs /\ accepted RoundTripSeqExample.ex_s0 RoundTripSeqExample.ex_cs /\
  metas_oracle_ok RoundTripSeqExample.ex_orc RoundTripSeqExample.ex_s0 RoundTripSeqExample.ex_cs /\
  guesses_ok RoundTripSeqExample.ex_s0 RoundTripSeqExample.ex_cs /\
  oracle_ok RoundTripSeqExample.ex_orc RoundTripSeqExample.ex_cs /\
  (Z.of_nat (length (w_out (snd (run_calls RoundTripSeqExample.ex_s0 RoundTripSeqExample.ex_cs)))) <= sys_maxsize)%Z.
Proof.
  exact (conj RoundTripSeqExample.ex_init (conj RoundTripSeqExample.ex_enc0_ok (conj RoundTripSeqExample.ex_good
        (conj DomComposeCanon.ex_indent_explicit (conj RoundTripSeqExample.ex_accepted (conj RoundTripSeqExample.ex_metas_oracle
        (conj RoundTripSeqExample.ex_guesses (conj RoundTripSeqExample.ex_oracle RoundTripSeqExample.ex_size)))))))).
Qed.

(* the restriction on indent is needed: write_preamble(indent=None) writes no indentation and no indent option;
   the object model re-serialises the parsed preamble with its default indent 4 *)
Example C06_canonical_indent_none_refuted :
  Forall call_good ex_none_cs /\ accepted RoundTripSeqExample.ex_s0 ex_none_cs /\ ~ Forall indent_explicit ex_none_cs /\
  ex_none_bytes = B "#diffx: encoding=utf-8, version=1.0" ++ [x0a] ++
                  B "#.preamble: length=2, line_endings=unix" ++ [x0a] ++ B "a" ++ [x0a] /\
  exists t' b', dom_read [] ex_none_bytes = Ok t' /\ dom_write t' = Ok b' /\
                b' = B "#diffx: encoding=utf-8, version=1.0" ++ [x0a] ++
                     B "#.preamble: indent=4, length=6, line_endings=unix" ++ [x0a] ++ B "    a" ++ [x0a] /\
                b' <> ex_none_bytes.
Proof. exact DomComposeCanon.canonical_indent_none_refuted. Qed.
