(* C12 — unknown options carried through: the header-level part.  Property statements only; lemmas and
   proofs are in theories/HeaderFacts.v.  (The file-level statement, that the rest of the reader's output
   does not depend on unknown option keys, is not part of this file.) *)
From Coq Require Import List Arith NArith ZArith Bool Strings.Byte.
From Coq Require Strings.String.
From DX Require Import Bytes Res Sections Header HeaderFacts.
Import ListNotations.
Import String.StringSyntax.
Local Open Scope string_scope.
Local Open Scope list_scope.

(* [interleave ps extra ps']: ps' is ps with the pairs of extra inserted at arbitrary positions.
   Fresh = not among the keys of ps, pairwise distinct.  The dicts are compared through [assoc_get]
   (the insertion order of the association list differs, as for a Python dict). *)
Theorem C12_header : forall valid line line' dots name ps extra ps',
  spec_header line dots name ps -> In (repeat_b "."%byte dots ++ name) valid ->
  interleave ps extra ps' ->
  Forall spec_pair extra -> NoDup (map fst extra) ->
  (forall k, In k (map fst extra) -> ~ In k (map fst ps)) ->
  line' = render_header dots name ps' ->
  exists opts opts',
    parse_header valid line = HOk dots name (repeat_b "."%byte dots ++ name) opts /\
    parse_header valid line' = HOk dots name (repeat_b "."%byte dots ++ name) opts' /\
    (forall k, ~ In k (map fst extra) -> assoc_get beq k opts' = assoc_get beq k opts) /\
    (forall k v, In (k, v) extra ->
       assoc_get beq k opts' = Some (convert_value v) /\ assoc_get beq k opts = None).
Proof. exact HeaderFacts.C12_header. Qed.
Print Assumptions C12_header.

(* the keys of the new dict are exactly the old keys and the added keys *)
Theorem C12_header_keys : forall conv ps extra ps' k, interleave ps extra ps' ->
  (assoc_get beq k (opts_of conv ps') <> None <-> In k (map fst ps) \/ In k (map fst extra)).
Proof. exact HeaderFacts.C12_header_keys. Qed.
Print Assumptions C12_header_keys.

(* ---- examples ---- *)

Definition ex_ps : list (bytes * bytes) := [(B "format", B "json"); (B "length", B "100")].
Definition ex_extra : list (bytes * bytes) := [(B "zz", B "a/b"); (B "my-opt", B "-7")].
Definition ex_ps' : list (bytes * bytes) :=
  [(B "zz", B "a/b"); (B "format", B "json"); (B "my-opt", B "-7"); (B "length", B "100")].

(* the hypotheses of C12_header are satisfiable *)
Example C12_ex_hyps :
  spec_header (B "#..meta: format=json, length=100") 2 (B "meta") ex_ps /\
  In (repeat_b "."%byte 2 ++ B "meta") [B "..meta"] /\
  interleave ex_ps ex_extra ex_ps' /\
  Forall spec_pair ex_extra /\ NoDup (map fst ex_extra) /\
  (forall k, In k (map fst ex_extra) -> ~ In k (map fst ex_ps)) /\
  B "#..meta: zz=a/b, format=json, my-opt=-7, length=100" = render_header 2 (B "meta") ex_ps'.
Proof.
  split; [apply spec_header_b_sound; vm_compute; reflexivity|].
  split; [left; reflexivity|].
  split; [unfold ex_ps, ex_extra, ex_ps'; apply il_r, il_l, il_r, il_l, il_nil|].
  split; [apply spec_pairs_b_sound; vm_compute; reflexivity|].
  split; [apply nodup_b_sound; vm_compute; reflexivity|].
  split; [apply disjoint_b_sound; vm_compute; reflexivity|].
  vm_compute. reflexivity.
Qed.

Example C12_ex_before :
  parse_header [B "..meta"] (B "#..meta: format=json, length=100")
  = HOk 2 (B "meta") (B "..meta") [(B "format", VStr (B "json")); (B "length", VInt 100)].
Proof. vm_compute. reflexivity. Qed.

Example C12_ex_after :
  parse_header [B "..meta"] (B "#..meta: zz=a/b, format=json, my-opt=-7, length=100")
  = HOk 2 (B "meta") (B "..meta")
        [(B "zz", VStr (B "a/b")); (B "format", VStr (B "json")); (B "my-opt", VInt (-7)); (B "length", VInt 100)].
Proof. vm_compute. reflexivity. Qed.
