(* RoundTripSeqExample.v — the hypotheses of C01_round_trip on a concrete, non-trivial call list: three changes,
   encodings utf-8 (main) / latin-1 / utf-16 / utf-32-be / ascii / utf-16-le, inherited and own, indentation,
   declared and guessed line endings.  pydiffx writes the same 857 bytes and reads the same 15 sections. *)
From Coq Require Import List Arith NArith ZArith Bool Strings.Byte Lia.
From Coq Require Strings.String.
From DX Require Import Bytes Res Codec Text Sections Header Stream Json Reader Writer.
From DX Require Import RoundTripBase RoundTripSim RoundTripStep RoundTrip RoundTripCor RoundTripContent.
From DXGen Require GenSections GenText GenCodecs.
Import ListNotations.
Import String.StringSyntax.
Local Open Scope string_scope.
Local Open Scope list_scope.

Definition T (s : String.string) : text := ascii_text (B s).
Definition LF : bytes := [x0a].
Definition ex_enc0 : wv := WStr (T "utf-8").
Definition ex_ver : wv := WStr (T "1.0").
Definition ex_s0 : wstate := fst (writer_init ex_enc0 ex_ver).
Definition ex_j1 : json := JObj [(T "stats", JObj [(T "changes", JInt 3)])].
Definition ex_j2 : json := JObj [(T "path", JStr (T "a.txt"))].
Definition ex_j3 : json := JObj [(T "path", JStr (T "b.txt")); (T "op", JStr (T "create"))].
Definition ex_j4 : json := JObj [(T "path", JStr (T "c.txt"))].
Definition ex_text1 : text := T "Hello" ++ [10%N] ++ T "w" ++ [246%N] ++ T "rld".
Definition ex_text2 : text := T "caf" ++ [233%N].
Definition ex_diff2 : bytes := [x2d; x00; x0d; x00; x0a; x00].      (* "-\r\n" in utf-16-le *)

Definition ex_cs : list call :=
  [ WritePreamble (WStr ex_text1) WNone None WNone (WStr (T "text/plain"));
    WriteMeta (WDict ex_j1) WNone None;
    NewChange (WStr (T "latin-1"));
    WritePreamble (WStr ex_text2) WNone (Some (WInt 2)) (WStr (T "dos")) WNone;
    NewFile WNone;
    WriteMeta (WDict ex_j2) (WStr (T "utf-16")) None;
    WriteDiff (WBytes (B "-a" ++ LF ++ B "+b")) (WStr (T "text")) WNone WNone;
    NewChange WNone;
    NewFile (WStr (T "utf-32-be"));
    WriteMeta (WDict ex_j3) WNone (Some (WStr (T "json")));
    NewChange (WStr (T "ascii"));
    NewFile WNone;
    WriteMeta (WDict ex_j4) WNone None;
    WriteDiff (WBytes ex_diff2) WNone (WStr (T "utf-16-le")) (WStr (T "dos")) ].

(* json.loads (json.dumps j ++ "\n") = j for the four metadata values *)
Definition dumped (j : json) : bytes := match json_dump j with Ok d => d | Err _ => [] end.
Definition ex_orc : oracle :=
  map (fun j => (oracle_key_text (ascii_text (dumped j) ++ [10%N]), LoadsOk j)) [ex_j1; ex_j2; ex_j3; ex_j4].

Definition rec (level : nat) (line : Z) (id type : String.string) (opts : options) (p : payload) : record :=
  {| r_level := level; r_line := line; r_opts := opts; r_id := B id; r_type := B type; r_payload := p |}.
Definition S_ (k v : String.string) : bytes * pv := (B k, VStr (B v)).
Definition I_ (k : String.string) (z : Z) : bytes * pv := (B k, VInt z).

Definition ex_records : list record :=
  [ rec 0 0 "diffx" "diffx" [S_ "encoding" "utf-8"; S_ "version" "1.0"] PNone;
    rec 1 1 ".preamble" "preamble"
        [I_ "indent" 4; I_ "length" 21; S_ "line_endings" "unix"; S_ "mimetype" "text/plain"]
        (PText (ex_text1 ++ [10%N]));
    rec 1 4 ".meta" "meta" [S_ "format" "json"; I_ "length" 46] (PMeta ex_j1);
    rec 1 10 ".change" "change" [S_ "encoding" "latin-1"] PNone;
    rec 2 11 "..preamble" "preamble" [I_ "indent" 2; I_ "length" 8; S_ "line_endings" "dos"]
        (PText (ex_text2 ++ [13%N; 10%N]));
    rec 2 13 "..file" "file" [] PNone;
    rec 3 14 "...meta" "meta" [S_ "encoding" "utf-16"; S_ "format" "json"; I_ "length" 50] (PMeta ex_j2);
    rec 3 18 "...diff" "diff" [I_ "length" 6; S_ "line_endings" "unix"; S_ "type" "text"]
        (PBytes (B "-a" ++ LF ++ B "+b" ++ LF));
    rec 1 21 ".change" "change" [] PNone;
    rec 2 22 "..file" "file" [S_ "encoding" "utf-32-be"] PNone;
    rec 3 23 "...meta" "meta" [S_ "format" "json"; I_ "length" 176] (PMeta ex_j3);
    rec 1 28 ".change" "change" [S_ "encoding" "ascii"] PNone;
    rec 2 29 "..file" "file" [] PNone;
    rec 3 30 "...meta" "meta" [S_ "format" "json"; I_ "length" 24] (PMeta ex_j4);
    rec 3 34 "...diff" "diff" [S_ "encoding" "utf-16-le"; I_ "length" 6; S_ "line_endings" "dos"] (PBytes ex_diff2) ].

Lemma enc_ok_spelled : forall s,
  (match lookup_codec (B s) with LOk _ _ => true | _ => false end) = true -> enc_ok (WStr (T s)).
Proof.
  intros s H. right. destruct (lookup_codec (B s)) as [canon c| |] eqn:E; try discriminate H.
  exists (B s), canon, c. split; [reflexivity|exact E].
Qed.

Ltac enc_ok_tac :=
  first [ left; reflexivity | apply enc_ok_spelled; vm_compute; reflexivity ].

Lemma ex_init : writer_init ex_enc0 ex_ver = (ex_s0, Ok tt).
Proof. vm_compute. reflexivity. Qed.

Lemma ex_enc0_ok : enc_ok ex_enc0.
Proof. unfold ex_enc0. enc_ok_tac. Qed.

Lemma ex_le_dos : le_arg (WStr (T "dos")).
Proof. apply (la_decl (B "dos")). cbn. auto. Qed.

Ltac good_tac :=
  cbn [call_good indent_ok]; repeat split;
  first [enc_ok_tac | exact I | apply ia_int; lia | apply la_none | apply ex_le_dos | eexists; reflexivity].

Lemma ex_good : Forall call_good ex_cs.
Proof. unfold ex_cs. repeat (apply Forall_cons; [good_tac|]). apply Forall_nil. Qed.

Lemma ex_accepted : accepted ex_s0 ex_cs.
Proof. unfold accepted. vm_compute. repeat constructor. Qed.

Lemma ex_guesses : guesses_ok ex_s0 ex_cs.
Proof. vm_compute. repeat split. Qed.

Lemma ex_metas : metas_encoded ex_s0 ex_cs.
Proof. vm_compute. repeat split. Qed.

Lemma ex_metas_oracle : metas_oracle_ok ex_orc ex_s0 ex_cs.
Proof. apply metas_oracle_of_encoded. exact ex_metas. Qed.

Lemma ex_oracle : oracle_ok ex_orc ex_cs.
Proof.
  unfold oracle_ok, ex_cs.
  repeat (constructor; [first [exact I | intros d Hd; vm_compute in Hd; injection Hd as <-; vm_compute; reflexivity]|]).
  constructor.
Qed.

Lemma ex_size : (Z.of_nat (length (w_out (snd (run_calls ex_s0 ex_cs)))) <= sys_maxsize)%Z.
Proof. vm_compute. discriminate. Qed.

(* 6. all hypotheses of C01_round_trip hold, and this is what the theorem says for the instance *)
Example C01_round_trip_ex :
  writer_init ex_enc0 ex_ver = (ex_s0, Ok tt) /\ enc_ok ex_enc0 /\
  Forall call_good ex_cs /\ accepted ex_s0 ex_cs /\ metas_oracle_ok ex_orc ex_s0 ex_cs /\ guesses_ok ex_s0 ex_cs /\
  oracle_ok ex_orc ex_cs /\
  (Z.of_nat (length (w_out (snd (run_calls ex_s0 ex_cs)))) <= sys_maxsize)%Z /\
  length (w_out (snd (run_calls ex_s0 ex_cs))) = 857 /\
  main_record ex_enc0 ex_ver :: expected_records ex_s0 1 ex_cs = ex_records /\
  read_all ex_orc 96 (w_out (snd (run_calls ex_s0 ex_cs))) = (ex_records, TEnd).
Proof.
  split; [exact ex_init|]. split; [exact ex_enc0_ok|]. split; [exact ex_good|]. split; [exact ex_accepted|].
  split; [exact ex_metas_oracle|]. split; [exact ex_guesses|]. split; [exact ex_oracle|]. split; [exact ex_size|].
  split; [vm_compute; reflexivity|].
  assert (E : main_record ex_enc0 ex_ver :: expected_records ex_s0 1 ex_cs = ex_records) by (vm_compute; reflexivity).
  split; [exact E|]. rewrite <- E.
  apply (C01_round_trip ex_enc0 ex_ver ex_s0 ex_cs ex_orc 96 ex_init ex_enc0_ok ex_good ex_accepted ex_metas_oracle ex_guesses ex_oracle);
    [lia | exact ex_size].
Qed.

(* the same by running the two models *)
Example C01_round_trip_ex_computed :
  read_all ex_orc 96 (w_out (snd (run_calls ex_s0 ex_cs))) = (ex_records, TEnd).
Proof. vm_compute. reflexivity. Qed.
