(* SpecReaderBase.v — plumbing for the file-level C03 theorem (SpecReaderFacts.v):
   section ids, option lookup and integer conversion (spec = model), the header grammar checker,
   and _read_header on a header line of the spec's form preceded by blank lines, with LF or CRLF. *)
From Coq Require Import List Arith NArith ZArith Bool Strings.Byte Lia.
From Coq Require Strings.String.
From DX Require Import Bytes Res Codec Text Sections Header Stream Json Reader SectionsSpec SpecReader.
From DX Require HeaderFacts TextFacts StreamFacts SectionsFacts ReaderSpecFacts RoundTripBase.
From DXGen Require GenSections GenText.
Import ListNotations.
Import String.StringSyntax.
Local Open Scope string_scope.
Local Open Scope list_scope.

(* ================================================================================================ *)
(** * Section ids *)

Lemma sid_dots_slevel : forall a, sid_dots a = SectionsFacts.slevel a.
Proof. destruct a; reflexivity. Qed.
Lemma sid_depth_clevel : forall a, sid_depth a = SectionsFacts.clevel a.
Proof. destruct a; reflexivity. Qed.
Lemma sid_build : forall a, repeat_b "."%byte (sid_dots a) ++ sid_name a = sid_bytes a.
Proof. destruct a; reflexivity. Qed.
Lemma sid_dots_le3 : forall a, sid_dots a <= 3.
Proof. destruct a; cbn; lia. Qed.
Lemma sid_name_spec : forall a, In (sid_name a) HeaderFacts.spec_names.
Proof. destruct a; cbn; auto 10. Qed.
Lemma sid_depth_le2 : forall a, sid_depth a <= 2.
Proof. destruct a; cbn; lia. Qed.

Lemma sid_is_content : forall a,
  is_content (sid_bytes a) = match sid_kind a with SContainer => false | _ => true end.
Proof. destruct a; vm_compute; reflexivity. Qed.

Lemma sid_kind_of : forall a,
  ReaderSpecFacts.kind_of (sid_bytes a) =
  match sid_kind a with
  | SContainer => None
  | SPreamble => Some ReaderSpecFacts.KPreamble
  | SMeta => Some ReaderSpecFacts.KMeta
  | SDiff => Some ReaderSpecFacts.KDiff
  end.
Proof. destruct a; vm_compute; reflexivity. Qed.

(* ================================================================================================ *)
(** * Integer conversion: the spec's function is the model's *)

Lemma mem_digit : forall b, mem byte_eqb b HeaderFacts.digit_alphabet = is_digit b.
Proof. destruct b; vm_compute; reflexivity. Qed.

Lemma all_b_forallb : forall {A} (f : A -> bool) l, all_b f l = forallb f l.
Proof. induction l as [|x l IH]; cbn; [reflexivity | rewrite IH; reflexivity]. Qed.

Lemma spec_digitsb_model : forall ds, spec_digitsb ds = nonempty ds && all_b is_digit ds.
Proof.
  intros ds. unfold spec_digitsb. f_equal. rewrite all_b_forallb.
  induction ds as [|b ds IH]; [reflexivity|]. cbn [forallb]. rewrite mem_digit, IH. reflexivity.
Qed.

Lemma spec_conv_model : forall v, spec_conv v = convert_value v.
Proof.
  intros v. unfold spec_conv, convert_value, int_ok, digits_of.
  change int_max_str_digits with HeaderFacts.max_digits.
  destruct v as [|c t]; [reflexivity|].
  destruct (byte_eqb c "-"%byte) eqn:Ec.
  - rewrite spec_digitsb_model.
    destruct (nonempty t && all_b is_digit t) eqn:Ed; cbn [andb]; [|reflexivity].
    destruct (Nat.leb (length t) HeaderFacts.max_digits); [|reflexivity].
    rewrite HeaderFacts.dec_to_N_spec; [reflexivity|].
    apply andb_true_iff in Ed. destruct Ed as [_ Ed]. apply HeaderFacts.all_b_Forall. exact Ed.
  - rewrite spec_digitsb_model. cbn [nonempty andb].
    destruct (all_b is_digit (c :: t)) eqn:Ed; cbn [andb]; [|reflexivity].
    destruct (Nat.leb (length (c :: t)) HeaderFacts.max_digits); [|reflexivity].
    rewrite HeaderFacts.dec_to_N_spec; [reflexivity|]. apply HeaderFacts.all_b_Forall. exact Ed.
Qed.

(* ... and it is the conversion the header grammar of C11 specifies *)
Lemma spec_conv_spec : forall v, HeaderFacts.spec_convert v (spec_conv v).
Proof. intros v. rewrite spec_conv_model. apply HeaderFacts.convert_value_spec. Qed.

Lemma opts_of_ext : forall (f g : bytes -> pv) ps, (forall v, f v = g v) ->
  HeaderFacts.opts_of f ps = HeaderFacts.opts_of g ps.
Proof.
  intros f g ps H. unfold HeaderFacts.opts_of. generalize (@nil (bytes * pv)).
  induction ps as [|p ps IH]; intros acc; [reflexivity|]. cbn [fold_left].
  unfold HeaderFacts.opts_step at 2 4. rewrite H. apply IH.
Qed.

Lemma opts_of_spec_model : forall ps, HeaderFacts.opts_of spec_conv ps = HeaderFacts.opts_of convert_value ps.
Proof. intros ps. apply opts_of_ext. apply spec_conv_model. Qed.

(* what the reader's options dict answers for a key *)
Lemma opt_get_spec : forall k ps,
  opt_get k (HeaderFacts.opts_of convert_value ps) = option_map spec_conv (opt k ps).
Proof.
  intros k ps. unfold opt_get, opt. rewrite HeaderFacts.get_opts_of.
  destruct (HeaderFacts.last_val (B k) ps); cbn [option_map]; [rewrite spec_conv_model|]; reflexivity.
Qed.

Lemma convert_value_str : forall v, int_ok v = false -> convert_value v = VStr v.
Proof. intros v H. unfold convert_value. rewrite H. reflexivity. Qed.

Lemma spec_conv_str : forall v, int_ok v = false -> spec_conv v = VStr v.
Proof. intros v H. rewrite spec_conv_model. apply convert_value_str. exact H. Qed.

Lemma le_name_conv : forall k, spec_conv (le_name k) = VStr (le_name k).
Proof. destruct k; vm_compute; reflexivity. Qed.

(* ================================================================================================ *)
(** * The header grammar checker *)

Lemma spec_keyb_sound : forall k, spec_keyb k = true -> HeaderFacts.spec_key k.
Proof.
  intros [|c t] H; [discriminate H|]. cbn [spec_keyb] in H. apply andb_true_iff in H. destruct H as [Hc Ht].
  exists c, t. split; [reflexivity|]. split.
  - apply HeaderFacts.In_mem_byte. exact Hc.
  - apply Forall_forall. intros b Hb. rewrite forallb_forall in Ht. apply HeaderFacts.In_mem_byte. apply Ht. exact Hb.
Qed.

Lemma spec_valb_sound : forall v, spec_valb v = true -> HeaderFacts.spec_val v.
Proof.
  intros v H. unfold spec_valb in H. apply andb_true_iff in H. destruct H as [Hn Hv]. split.
  - apply HeaderFacts.nonempty_true. exact Hn.
  - apply Forall_forall. intros b Hb. rewrite forallb_forall in Hv. apply HeaderFacts.In_mem_byte. apply Hv. exact Hb.
Qed.

Lemma pairs_ok_sound : forall ps, forallb pair_ok ps = true -> Forall HeaderFacts.spec_pair ps.
Proof.
  intros ps H. apply Forall_forall. intros p Hp. rewrite forallb_forall in H. specialize (H p Hp).
  unfold pair_ok in H. apply andb_true_iff in H. destruct H as [Hk Hv].
  split; [apply spec_keyb_sound | apply spec_valb_sound]; assumption.
Qed.

Lemma sec_spec_header : forall s, forallb pair_ok (fs_opts s) = true ->
  HeaderFacts.spec_header (HeaderFacts.render_header (fs_dots s) (fs_name s) (fs_opts s)) (fs_dots s) (fs_name s) (fs_opts s).
Proof.
  intros s H. split; [apply sid_dots_le3|]. split; [apply sid_name_spec|]. split; [apply pairs_ok_sound; exact H|].
  reflexivity.
Qed.

(* ================================================================================================ *)
(** * Blank lines *)

Lemma ws_line_facts : forall w, is_ws_line w = true -> forallb is_space w = true /\ ~ In lf w.
Proof.
  induction w as [|b w IH]; intros H; [split; [reflexivity | intros []]|].
  cbn [is_ws_line forallb] in H. apply andb_true_iff in H. destruct H as [Hb Hw].
  apply andb_true_iff in Hb. destruct Hb as [Hs Hn]. destruct (IH Hw) as [I1 I2].
  split; [cbn [forallb]; rewrite Hs, I1; reflexivity|].
  intros [E | Hin]; [|exact (I2 Hin)]. subst b. unfold lf in Hn. vm_compute in Hn. discriminate Hn.
Qed.

Lemma render_blanks_cons : forall w ws, render_blanks (w :: ws) = w ++ lf :: render_blanks ws.
Proof. intros. unfold render_blanks. cbn [map concat]. unfold render_blank. rewrite <- app_assoc. reflexivity. Qed.

Lemma read_until_eof : forall chunk s, remaining s = [] -> exists s', read_until chunk s = Ok ([], true, s').
Proof.
  intros chunk s H. unfold read_until. rewrite H. cbn [length read_until_chunked]. unfold sread. rewrite H.
  rewrite firstn_nil. cbn. eexists. reflexivity.
Qed.

(* blank lines only, up to the end of the data: _read_header finds no header *)
Lemma next_nonblank_eof : forall chunk blanks s, 0 < chunk -> forallb is_ws_line blanks = true ->
  remaining s = render_blanks blanks ->
  exists s', next_nonblank (S (length (remaining s))) chunk s = Ok (None, s').
Proof.
  intros chunk. induction blanks as [|w ws IH]; intros s Hc Hb Hrem.
  - destruct (read_until_eof chunk s Hrem) as [s' E]. cbn [next_nonblank]. rewrite E. cbn [bind]. eexists. reflexivity.
  - cbn [forallb] in Hb. apply andb_true_iff in Hb. destruct Hb as [Hw Hws].
    destruct (ws_line_facts w Hw) as [Hsp Hnl]. rewrite render_blanks_cons in Hrem.
    destruct (RoundTripBase.read_until_line chunk s w (render_blanks ws) Hc Hrem Hnl) as [Hru Hrem1].
    rewrite (ReaderSpecFacts.next_nonblank_skip_blank chunk s _ _ Hc Hru).
    + apply IH; assumption.
    + apply ReaderSpecFacts.strip_all_space. rewrite forallb_app, Hsp. reflexivity.
Qed.

(* blank lines, then a non-blank line *)
Lemma next_nonblank_blanks : forall chunk blanks s line more, 0 < chunk -> forallb is_ws_line blanks = true ->
  remaining s = render_blanks blanks ++ line ++ lf :: more -> ~ In lf line ->
  nonempty (strip (line ++ [lf])) = true ->
  exists s', next_nonblank (S (length (remaining s))) chunk s = Ok (Some (line ++ [lf]), s') /\ remaining s' = more.
Proof.
  intros chunk. induction blanks as [|w ws IH]; intros s line more Hc Hb Hrem Hnl Hne.
  - cbn [render_blanks map concat app] in Hrem.
    destruct (RoundTripBase.read_until_line chunk s line more Hc Hrem Hnl) as [Hru Hrem1].
    cbn [next_nonblank]. rewrite Hru. cbn [bind]. rewrite Hne. eexists. split; [reflexivity | exact Hrem1].
  - cbn [forallb] in Hb. apply andb_true_iff in Hb. destruct Hb as [Hw Hws].
    destruct (ws_line_facts w Hw) as [Hsp Hnlw]. rewrite render_blanks_cons in Hrem.
    rewrite <- app_assoc in Hrem. cbn [app] in Hrem.
    destruct (RoundTripBase.read_until_line chunk s w _ Hc Hrem Hnlw) as [Hru Hrem1].
    rewrite (ReaderSpecFacts.next_nonblank_skip_blank chunk s _ _ Hc Hru).
    + apply IH; assumption.
    + apply ReaderSpecFacts.strip_all_space. rewrite forallb_app, Hsp. reflexivity.
Qed.

(* ================================================================================================ *)
(** * _read_header on a header line in LF or CRLF form *)

Lemma eol_fnl : forall crlf, eol crlf = if crlf then Reader.crlf else [lf].
Proof. destruct crlf; reflexivity. Qed.

Lemma firstn_app_exact : forall {A} (a b : list A), firstn (length (a ++ b) - length b) (a ++ b) = a.
Proof.
  intros A a b. rewrite app_length. replace (length a + length b - length b) with (length a) by lia.
  rewrite firstn_app, Nat.sub_diag, firstn_all. cbn. apply app_nil_r.
Qed.

Lemma read_header_spec : forall chunk valid st blanks r crlf more,
  0 < chunk -> forallb is_ws_line blanks = true ->
  remaining (st_stream st) = render_blanks blanks ++ ("#"%byte :: r) ++ eol crlf ++ more ->
  ~ In lf ("#"%byte :: r) -> ~ In x0d ("#"%byte :: r) ->
  (st_fnl st = None \/ st_fnl st = Some (eol crlf)) ->
  exists s1,
    read_header chunk valid st =
      match parse_header valid ("#"%byte :: r) with
      | HErr col => HdrParse (st_linenum st) (option_map Z.of_nat col)
      | HOk level name id opts =>
          HdrOk level name id opts (st_linenum st) (SectionsFacts.after_header st s1 (eol crlf))
      end /\
    remaining s1 = more.
Proof.
  intros chunk valid st blanks r crlf more Hc Hb Hrem Hlf Hcr Hfnl.
  set (h := "#"%byte :: r) in *.
  set (line := if crlf then h ++ [x0d] else h).
  assert (Hline : line ++ [lf] = h ++ eol crlf).
  { unfold line. destruct crlf; cbn [eol]; [rewrite <- app_assoc|]; reflexivity. }
  assert (Hrem' : remaining (st_stream st) = render_blanks blanks ++ line ++ lf :: more).
  { rewrite Hrem. f_equal. change (lf :: more) with ([lf] ++ more). rewrite (app_assoc line), Hline.
    rewrite <- app_assoc. reflexivity. }
  assert (Hnl : ~ In lf line).
  { unfold line. destruct crlf; [|exact Hlf]. intros Hin. apply in_app_or in Hin. destruct Hin as [Hin|Hin]; [exact (Hlf Hin)|].
    destruct Hin as [E|[]]. discriminate E. }
  assert (Hne : nonempty (strip (line ++ [lf])) = true).
  { rewrite Hline. unfold h. cbn [app]. apply RoundTripBase.strip_nonblank. reflexivity. }
  destruct (next_nonblank_blanks chunk blanks (st_stream st) line more Hc Hb Hrem' Hnl Hne) as (s1 & Hnn & Hrem1).
  exists s1. split; [|exact Hrem1].
  apply SectionsFacts.read_header_next. unfold SectionsFacts.next_header. rewrite Hnn, Hline.
  assert (Hf : SectionsFacts.header_fnl st (h ++ eol crlf) = eol crlf).
  { unfold SectionsFacts.header_fnl. destruct Hfnl as [-> | ->]; [|reflexivity].
    destruct crlf; cbn [eol].
    - replace (bends Reader.crlf (h ++ [x0d; x0a])) with true; [reflexivity|].
      symmetry. apply TextFacts.bends_spec. exists h. reflexivity.
    - pose proof (RoundTripBase.bends_crlf_line h Hcr) as Hb0. unfold lf in Hb0. rewrite Hb0. reflexivity. }
  cbv zeta. rewrite Hf.
  replace (bends (eol crlf) (h ++ eol crlf)) with true by (symmetry; apply TextFacts.bends_spec; exists h; reflexivity).
  rewrite firstn_app_exact. reflexivity.
Qed.

(* the header line of a section of the AST *)
Lemma read_sec_header : forall chunk valid st s crlf more,
  0 < chunk -> forallb is_ws_line (fs_blank s) = true -> forallb pair_ok (fs_opts s) = true ->
  In (sid_bytes (fs_id s)) valid ->
  remaining (st_stream st) = sec_header crlf s ++ more ->
  (st_fnl st = None \/ st_fnl st = Some (eol crlf)) ->
  exists s1,
    read_header chunk valid st =
      HdrOk (fs_dots s) (fs_name s) (sid_bytes (fs_id s)) (HeaderFacts.opts_of convert_value (fs_opts s))
            (st_linenum st) (SectionsFacts.after_header st s1 (eol crlf)) /\
    remaining s1 = more.
Proof.
  intros chunk valid st s crlf more Hc Hb Hp Hin Hrem Hfnl.
  pose proof (sec_spec_header s Hp) as Hs.
  destruct (RoundTripBase.okl_header _ _ _ _ Hs) as [Hok [r Hr]].
  destruct (RoundTripBase.okl_no_lf _ Hok) as [Hlf Hcr].
  unfold sec_header in Hrem. rewrite <- !app_assoc in Hrem. rewrite Hr in Hrem, Hlf, Hcr.
  destruct (read_header_spec chunk valid st (fs_blank s) r crlf more Hc Hb Hrem Hlf Hcr Hfnl) as (s1 & Hrh & Hrem1).
  exists s1. split; [|exact Hrem1]. rewrite Hrh, <- Hr.
  assert (Hin' : In (repeat_b "."%byte (fs_dots s) ++ fs_name s) valid).
  { unfold fs_dots, fs_name. rewrite sid_build. exact Hin. }
  rewrite (HeaderFacts.C11_complete valid _ _ _ _ Hs Hin').
  unfold fs_dots, fs_name. rewrite sid_build. reflexivity.
Qed.
