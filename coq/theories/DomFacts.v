(* DomFacts.v — proofs about the value-level object model (Dom.v) and the operation interpreter (DomOps.v):
   properties C13 (generated statistics), C18 (isolation, observers do not mutate), C19 (typed attributes,
   structural equality).  Statements are collected in props/C13.v, props/C18.v, props/C19.v. *)
From Coq Require Import List Arith NArith ZArith Bool Strings.Byte Lia Permutation Sorted.
From Coq Require Strings.String.
From DX Require Import Bytes Res Codec Text Sections Header Json Reader Writer Hunks Dom DomOps.
From DXGen Require GenSections GenText.
Import ListNotations.
Import String.StringSyntax.
Local Open Scope string_scope.
Local Open Scope list_scope.

(* ------------------------------------------------------------------------------------------------ *)
(* 0. equality tests and association lists                                                           *)
(* ------------------------------------------------------------------------------------------------ *)
Lemma beq_eq : forall a b, beq a b = true <-> a = b.
Proof.
  unfold beq. induction a as [|x a IH]; destruct b as [|y b]; cbn; try (split; discriminate); try tauto.
  rewrite andb_true_iff, IH. unfold byte_eqb. split.
  - intros [H1 H2]. apply byte_dec_bl in H1. congruence.
  - intro H. injection H as -> ->. split; auto. apply byte_dec_lb. reflexivity.
Qed.
Lemma teq_eq : forall a b, teq a b = true <-> a = b.
Proof.
  unfold teq. induction a as [|x a IH]; destruct b as [|y b]; cbn; try (split; discriminate); try tauto.
  rewrite andb_true_iff, IH, N.eqb_eq. split; [intros [-> ->]; auto | intro H; injection H; auto].
Qed.
Lemma beq_refl : forall a, beq a a = true. Proof. intro; apply beq_eq; reflexivity. Qed.
Lemma teq_refl : forall a, teq a a = true. Proof. intro; apply teq_eq; reflexivity. Qed.
Lemma beq_sym : forall a b, beq a b = beq b a.
Proof.
  intros. destruct (beq a b) eqn:E; destruct (beq b a) eqn:F; auto.
  - apply beq_eq in E. subst. rewrite beq_refl in F. discriminate.
  - apply beq_eq in F. subst. rewrite beq_refl in E. discriminate.
Qed.
Lemma teq_sym : forall a b, teq a b = teq b a.
Proof.
  intros. destruct (teq a b) eqn:E; destruct (teq b a) eqn:F; auto.
  - apply teq_eq in E. subst. rewrite teq_refl in F. discriminate.
  - apply teq_eq in F. subst. rewrite teq_refl in E. discriminate.
Qed.
Lemma beq_neq : forall a b, a <> b -> beq a b = false.
Proof. intros a b H. destruct (beq a b) eqn:E; auto. apply beq_eq in E. contradiction. Qed.
Lemma teq_neq : forall a b, a <> b -> teq a b = false.
Proof. intros a b H. destruct (teq a b) eqn:E; auto. apply teq_eq in E. contradiction. Qed.

Section Assoc.
  Context {K : Type} (eqb : K -> K -> bool) (eqb_spec : forall a b, eqb a b = true <-> a = b).

  Lemma eqb_rfl : forall a, eqb a a = true. Proof. intro; apply eqb_spec; reflexivity. Qed.
  Lemma eqb_ne : forall a b, a <> b -> eqb a b = false.
  Proof. intros a b H. destruct (eqb a b) eqn:E; auto. apply eqb_spec in E. contradiction. Qed.

  Lemma aget_set_same : forall {V} k (v : V) d, assoc_get eqb k (assoc_set eqb k v d) = Some v.
  Proof.
    induction d as [|[k' v'] d IH]; cbn.
    - rewrite eqb_rfl. reflexivity.
    - destruct (eqb k k') eqn:E; cbn; rewrite E; auto.
  Qed.
  Lemma aget_set_other : forall {V} k k' (v : V) d, k <> k' -> assoc_get eqb k' (assoc_set eqb k v d) = assoc_get eqb k' d.
  Proof.
    induction d as [|[k0 v0] d IH]; cbn; intro N.
    - rewrite eqb_ne; auto.
    - destruct (eqb k k0) eqn:E; cbn.
      + apply eqb_spec in E. subst k0. rewrite eqb_ne; auto.
      + destruct (eqb k' k0); auto.
  Qed.
  Lemma aset_same : forall {V} k (v : V) d, assoc_get eqb k d = Some v -> assoc_set eqb k v d = d.
  Proof.
    induction d as [|[k0 v0] d IH]; cbn; intro H; try discriminate.
    destruct (eqb k k0) eqn:E.
    - injection H as ->. reflexivity.
    - rewrite IH; auto.
  Qed.
  Lemma adel_set : forall {V} k (v : V) d, assoc_del eqb k (assoc_set eqb k v d) = assoc_del eqb k d.
  Proof.
    induction d as [|[k0 v0] d IH]; cbn.
    - rewrite eqb_rfl. reflexivity.
    - destruct (eqb k k0) eqn:E; cbn; rewrite E; auto. rewrite IH. reflexivity.
  Qed.
  Lemma aget_del_other : forall {V} k k' (d : list (K * V)), k <> k' -> assoc_get eqb k' (assoc_del eqb k d) = assoc_get eqb k' d.
  Proof.
    induction d as [|[k0 v0] d IH]; cbn; intro N; auto.
    destruct (eqb k k0) eqn:E; cbn.
    - apply eqb_spec in E. subst k0. rewrite (eqb_ne k' k); auto.
    - destruct (eqb k' k0); auto.
  Qed.
  Lemma aget_del_same : forall {V} k (d : list (K * V)), assoc_get eqb k (assoc_del eqb k d) = None.
  Proof.
    induction d as [|[k0 v0] d IH]; cbn; auto.
    destruct (eqb k k0) eqn:E; cbn; auto. rewrite E. auto.
  Qed.
  Lemma aget_In : forall {V} k (d : list (K * V)) v, assoc_get eqb k d = Some v -> In (k, v) d.
  Proof.
    induction d as [|[k0 v0] d IH]; cbn; intros v H; try discriminate.
    destruct (eqb k k0) eqn:E.
    - apply eqb_spec in E. injection H as ->. subst. auto.
    - right. auto.
  Qed.
  Lemma aget_None_notin : forall {V} k (d : list (K * V)), assoc_get eqb k d = None <-> ~ In k (map fst d).
  Proof.
    induction d as [|[k0 v0] d IH]; cbn; [tauto|].
    destruct (eqb k k0) eqn:E.
    - apply eqb_spec in E. subst. split; [discriminate | intro H; exfalso; apply H; auto].
    - rewrite IH. split; intro H.
      + intros [F|F]; [subst; rewrite eqb_rfl in E; discriminate | auto].
      + intro F. apply H. auto.
  Qed.
  Lemma aset_keys_present : forall {V} k (v : V) d, In k (map fst d) -> map fst (assoc_set eqb k v d) = map fst d.
  Proof.
    induction d as [|[k0 v0] d IH]; cbn; intro H; [tauto|].
    destruct (eqb k k0) eqn:E; cbn; auto.
    destruct H as [H|H]; [subst; rewrite eqb_rfl in E; discriminate|]. rewrite IH; auto.
  Qed.
  Lemma aset_keys_absent : forall {V} k (v : V) d, ~ In k (map fst d) -> assoc_set eqb k v d = d ++ [(k, v)].
  Proof.
    induction d as [|[k0 v0] d IH]; cbn; intro H; auto.
    rewrite eqb_ne by (intro; subst; apply H; auto). rewrite IH; auto.
  Qed.
  Lemma aset_length_present : forall {V} k (v : V) d, In k (map fst d) -> length (assoc_set eqb k v d) = length d.
  Proof. intros. rewrite <- (map_length fst), aset_keys_present, map_length; auto. Qed.
End Assoc.

Definition aget_set_same_b := @aget_set_same bytes beq beq_eq.
Definition aget_set_other_b := @aget_set_other bytes beq beq_eq.
Definition aget_set_same_t := @aget_set_same text teq teq_eq.
Definition aget_set_other_t := @aget_set_other text teq teq_eq.

(* result-monad inversion *)
Lemma bind_ok : forall {A C} (r : res A) (f : A -> res C) c, bind r f = Ok c -> exists a, r = Ok a /\ f a = Ok c.
Proof. intros A C [a|e] f c H; cbn in H; [eauto | discriminate]. Qed.

Ltac inv_bind H :=
  let a := fresh "x" in let H1 := fresh "E" in
  apply bind_ok in H; destruct H as [a [H1 H]].

Lemma map_res_length : forall {A C} (f : A -> res C) l l', map_res f l = Ok l' -> length l' = length l.
Proof.
  induction l as [|x l IH]; cbn; intros l' H.
  - injection H as <-. reflexivity.
  - inv_bind H. inv_bind H. injection H as <-. cbn. f_equal. auto.
Qed.
Lemma map_res_Forall2 : forall {A C} (f : A -> res C) l l', map_res f l = Ok l' -> Forall2 (fun a c => f a = Ok c) l l'.
Proof.
  induction l as [|x l IH]; cbn; intros l' H.
  - injection H as <-. constructor.
  - inv_bind H. inv_bind H. injection H as <-. constructor; auto.
Qed.
Lemma map_res_fixed : forall {A} (f : A -> res A) l, Forall (fun a => f a = Ok a) l -> map_res f l = Ok l.
Proof. induction 1; cbn; auto. rewrite H, IHForall. reflexivity. Qed.

(* ================================================================================================ *)
(* C18 — isolation; observers do not mutate.
   In this value-level model a tree is a VALUE: two trees, or two sections of one tree, cannot share a mutable
   cell, so "no sharing" is true by construction and cannot even be stated as a non-trivial theorem here.  The
   substance of C18 is therefore carried by the correspondence check of the harness (family `alias`): after every
   operation of a random interleaving, a deep snapshot of EVERY live implementation tree must equal this model's
   tree list.  The theorems below establish what the model — and hence every implementation that agrees with it
   snapshot by snapshot — guarantees: an operation aimed at tree i leaves every other tree as it was (frame),
   constructors and parsers only append a fresh tree, failed operations change nothing, and the observers
   (serialise, compare) change nothing and are functions of the tree value.                              *)
(* ================================================================================================ *)
Lemma upd_nth_frame : forall {A} i (f : A -> res A) l l', upd_nth i f l = Some (Ok l') ->
  forall j, j <> i -> nth_error l' j = nth_error l j.
Proof.
  induction i as [|i IH]; intros f [|x l] l' H j N; cbn in H; try discriminate.
  - injection H as H. inv_bind H. injection H as <-. destruct j; [congruence | reflexivity].
  - destruct (upd_nth i f l) as [r|] eqn:U; try discriminate. injection H as H. inv_bind H. injection H as <-.
    subst r. destruct j; [reflexivity|]. cbn. eapply IH; eauto.
Qed.
Lemma upd_nth_length : forall {A} i (f : A -> res A) l l', upd_nth i f l = Some (Ok l') -> length l' = length l.
Proof.
  induction i as [|i IH]; intros f [|x l] l' H; cbn in H; try discriminate.
  - injection H as H. inv_bind H. injection H as <-. reflexivity.
  - destruct (upd_nth i f l) as [r|] eqn:U; try discriminate. injection H as H. inv_bind H. injection H as <-.
    subst r. cbn. f_equal. eapply IH; eauto.
Qed.
Lemma upd_nth_target : forall {A} i (f : A -> res A) l l', upd_nth i f l = Some (Ok l') ->
  exists x y, nth_error l i = Some x /\ f x = Ok y /\ nth_error l' i = Some y.
Proof.
  induction i as [|i IH]; intros f [|x l] l' H; cbn in H; try discriminate.
  - injection H as H. inv_bind H. injection H as <-. exists x, x0. auto.
  - destruct (upd_nth i f l) as [r|] eqn:U; try discriminate. injection H as H. inv_bind H. injection H as <-.
    subst r. cbn. eapply IH; eauto.
Qed.
Lemma upd_nth_some : forall {A} i (f : A -> res A) l x, nth_error l i = Some x -> exists r, upd_nth i f l = Some r.
Proof.
  induction i as [|i IH]; intros f [|y l] x H; cbn in *; try discriminate; eauto.
  destruct (IH f l x H) as [r ->]. eauto.
Qed.
Lemma upd_nth_const_ok : forall {A} i (y : A) l x, nth_error l i = Some x -> exists l', upd_nth i (fun _ => Ok y) l = Some (Ok l').
Proof.
  induction i as [|i IH]; intros y [|z l] x H; cbn in *; try discriminate; eauto.
  destruct (IH y l x H) as [l' ->]. cbn. eauto.
Qed.

Lemma with_tree_frame : forall i f ts j, j <> i -> nth_error (fst (with_tree i f ts)) j = nth_error ts j.
Proof.
  intros i f ts j N. unfold with_tree. destruct (nth_error ts i) as [t|]; [|reflexivity].
  destruct (f t) as [[t'|e]|]; [| destruct e; reflexivity | reflexivity].
  cbn. destruct (upd_nth i (fun _ => Ok t') ts) as [[ts'|]|] eqn:U; auto. eapply upd_nth_frame; eauto.
Qed.
Lemma with_tree_length : forall i f ts, length (fst (with_tree i f ts)) = length ts.
Proof.
  intros i f ts. unfold with_tree. destruct (nth_error ts i) as [t|]; [|reflexivity].
  destruct (f t) as [[t'|e]|]; [| destruct e; reflexivity | reflexivity].
  cbn. destruct (upd_nth i (fun _ => Ok t') ts) as [[ts'|]|] eqn:U; auto. eapply upd_nth_length; eauto.
Qed.
(* a failed operation (exception or bad index) leaves the whole tree list as it was *)
Lemma with_tree_fail : forall i f ts ts' r, with_tree i f ts = (ts', r) -> r <> RUnit -> ts' = ts.
Proof.
  intros i f ts ts' r. unfold with_tree. destruct (nth_error ts i) as [t|]; [|intros H; injection H; auto].
  destruct (f t) as [[t'|e]|]; [| destruct e; intros H; injection H; auto | intros H; injection H; auto].
  intros H N. injection H as _ <-. contradiction.
Qed.
(* a successful one puts exactly the new value at position i *)
Lemma with_tree_ok : forall i f ts ts', with_tree i f ts = (ts', RUnit) ->
  exists t t', nth_error ts i = Some t /\ f t = Some (Ok t') /\ nth_error ts' i = Some t'.
Proof.
  intros i f ts ts'. unfold with_tree. destruct (nth_error ts i) as [t|] eqn:Nt; [|discriminate].
  destruct (f t) as [[t'|e]|] eqn:F; [| destruct e; discriminate | discriminate].
  intro H. injection H as H. exists t, t'. repeat split; auto.
  destruct (upd_nth_const_ok i t' ts t Nt) as [l' U]. rewrite U in H. subst l'.
  destruct (upd_nth_target _ _ _ _ U) as (x & y & _ & Hy & Hn). injection Hy as <-. exact Hn.
Qed.

Definition op_target (o : op) : option nat :=
  match o with
  | OAddChange i _ | OAddFile i _ _ | OSet i _ _ _ | OMetaPut i _ _ _ | OOptPut i _ _ _ _ | OStats i => Some i
  | ONew _ | OToBytes _ | OEq _ _ | OParse _ => None
  end.

Theorem C18_frame : forall orc ts o i j, op_target o = Some i -> j <> i ->
  nth_error (fst (run_op orc ts o)) j = nth_error ts j.
Proof.
  intros orc ts o i j T N. destruct o; cbn in T; try discriminate; injection T as ->; cbn [run_op];
    apply with_tree_frame; auto.
Qed.
Theorem C18_frame_length : forall orc ts o i, op_target o = Some i -> length (fst (run_op orc ts o)) = length ts.
Proof.
  intros orc ts o i T. destruct o; cbn in T; try discriminate; cbn [run_op]; apply with_tree_length.
Qed.
(* the operations without a target either change nothing or append one fresh tree *)
Theorem C18_append : forall orc ts o, op_target o = None ->
  fst (run_op orc ts o) = ts \/ exists t, fst (run_op orc ts o) = ts ++ [t].
Proof.
  intros orc ts o T. destruct o; cbn in T; try discriminate; cbn [run_op].
  - destruct (unknown_to_lib _); cbn; eauto.
  - destruct (nth_error ts i); auto.
  - destruct (nth_error ts i); [destruct (nth_error ts j)|]; auto.
  - destruct (dom_read orc data); cbn; eauto.
Qed.
Theorem C18_append_firstn : forall orc ts o, op_target o = None -> firstn (length ts) (fst (run_op orc ts o)) = ts.
Proof.
  intros orc ts o T. destruct (C18_append orc ts o T) as [->|[t ->]].
  - apply firstn_all.
  - rewrite firstn_app, Nat.sub_diag, firstn_all. cbn. apply app_nil_r.
Qed.
(* hence: whatever the operation, a tree that is not its target is still there, unchanged *)
Theorem C18_frame_any : forall orc ts o j, op_target o <> Some j -> j < length ts ->
  nth_error (fst (run_op orc ts o)) j = nth_error ts j.
Proof.
  intros orc ts o j T L. destruct (op_target o) as [i|] eqn:E.
  - eapply C18_frame; eauto; congruence.
  - destruct (C18_append orc ts o E) as [->|[t ->]]; auto. apply nth_error_app1; auto.
Qed.
Lemma run_op_length_mono : forall orc ts o, length ts <= length (fst (run_op orc ts o)).
Proof.
  intros. destruct (op_target o) as [i|] eqn:E.
  - erewrite C18_frame_length; eauto.
  - destruct (C18_append orc ts o E) as [->|[t ->]]; auto. rewrite app_length. lia.
Qed.

(* whole operation sequences: the final tree list *)
Definition final_trees (orc : oracle) (ts : list dtree) (ops : list op) : list dtree :=
  fold_left (fun ts o => fst (run_op orc ts o)) ops ts.
Lemma last_cons_shift : forall {A} (l : list A) x d, last (x :: l) d = last l x.
Proof.
  induction l as [|y l IH]; intros x d; auto.
  change (last (x :: y :: l) d) with (last (y :: l) d). rewrite !IH. reflexivity.
Qed.
Lemma run_ops_final : forall orc ops ts, final_trees orc ts ops = last (map snd (run_ops orc ts ops)) ts.
Proof.
  induction ops as [|o ops IH]; intro ts; auto.
  unfold final_trees. cbn [fold_left run_ops]. destruct (run_op orc ts o) as [ts' out]. cbn [fst map snd].
  fold (final_trees orc ts' ops). rewrite IH, last_cons_shift. reflexivity.
Qed.
Theorem C18_frame_seq : forall orc ops ts j, (forall o, In o ops -> op_target o <> Some j) -> j < length ts ->
  nth_error (final_trees orc ts ops) j = nth_error ts j.
Proof.
  induction ops as [|o ops IH]; intros ts j H L; cbn; auto.
  unfold final_trees in IH. rewrite IH.
  - apply C18_frame_any; auto. apply H. left; auto.
  - intros o' I. apply H. right; auto.
  - eapply Nat.lt_le_trans; [exact L | apply run_op_length_mono].
Qed.

Theorem C18_observers : forall orc ts,
  (forall i, fst (run_op orc ts (OToBytes i)) = ts) /\ (forall i j, fst (run_op orc ts (OEq i j)) = ts).
Proof.
  intros; split; intros; cbn.
  - destruct (nth_error ts i); auto.
  - destruct (nth_error ts i); [destruct (nth_error ts j)|]; auto.
Qed.
(* serialising is a function of the tree value, and of nothing else: the same tree gives the same bytes, whatever
   the oracle, the other trees and the position in the list *)
Theorem C18_deterministic : forall orc orc' ts ts' i i' t,
  nth_error ts i = Some t -> nth_error ts' i' = Some t ->
  snd (run_op orc ts (OToBytes i)) = snd (run_op orc' ts' (OToBytes i')) /\
  snd (run_op orc ts (OToBytes i)) = match dom_write t with Ok b => RBytes b | Err e => RExc e end.
Proof. intros. cbn. rewrite H, H0. auto. Qed.
(* serialising twice in a row (with anything that is not aimed at tree i in between) gives identical bytes *)
Theorem C18_to_bytes_twice : forall orc ts i ops, i < length ts -> (forall o, In o ops -> op_target o <> Some i) ->
  snd (run_op orc (final_trees orc ts (OToBytes i :: ops)) (OToBytes i)) = snd (run_op orc ts (OToBytes i)).
Proof.
  intros orc ts i ops L H.
  assert (E : nth_error (final_trees orc ts (OToBytes i :: ops)) i = nth_error ts i).
  { apply C18_frame_seq; auto. intros o [<-|I]; [cbn; discriminate | auto]. }
  cbn [run_op]. rewrite E. destruct (nth_error ts i); reflexivity.
Qed.

(* every failing operation — exception or bad index — leaves every tree unchanged (C19_set_err is the OSet case) *)
Theorem run_op_fail_unchanged : forall orc ts o ts' r, run_op orc ts o = (ts', r) ->
  match r with RExc _ | RBadIndex => ts' = ts | _ => True end.
Proof.
  intros orc ts o ts' r H.
  assert (W : forall i f, with_tree i f ts = (ts', r) -> match r with RExc _ | RBadIndex => ts' = ts | _ => True end).
  { intros i f W. destruct r; auto; eapply with_tree_fail; eauto; discriminate. }
  destruct o; cbn [run_op] in H; try (eapply W; exact H).
  - destruct (unknown_to_lib (apply_attrs set_tree_attr new_tree attrs)); injection H as <- <-; auto.
  - destruct (nth_error ts i) as [d|]; injection H as <- <-; auto. destruct (dom_write d); auto.
  - destruct (nth_error ts i); [destruct (nth_error ts j)|]; injection H as <- <-; auto.
  - destruct (dom_read orc data); injection H as <- <-; auto.
Qed.

Theorem C19_set_err : forall orc ts i p name v ts' e, run_op orc ts (OSet i p name v) = (ts', RExc e) -> ts' = ts.
Proof. intros. exact (run_op_fail_unchanged _ _ _ _ _ H). Qed.
Theorem C19_ctor_err : forall orc ts ts' e,
  (forall i attrs, run_op orc ts (OAddChange i attrs) = (ts', RExc e) -> ts' = ts) /\
  (forall i ci attrs, run_op orc ts (OAddFile i ci attrs) = (ts', RExc e) -> ts' = ts) /\
  (forall attrs, run_op orc ts (ONew attrs) = (ts', RExc e) -> ts' = ts).
Proof. intros; repeat split; intros; exact (run_op_fail_unchanged _ _ _ _ _ H). Qed.
(* ... and the constructor of a change with a rejected attribute does raise (so the previous theorem applies) *)
Theorem C19_ctor_raises : forall orc ts i t attrs e, nth_error ts i = Some t ->
  apply_attrs set_change_attr new_change attrs = Err e -> e <> EIndex ->
  run_op orc ts (OAddChange i attrs) = (ts, RExc e).
Proof.
  intros orc ts i t attrs e N A NE. cbn [run_op]. unfold with_tree. rewrite N, A. cbn.
  destruct e; try reflexivity. contradiction.
Qed.

(* ================================================================================================ *)
(* C13 — generated statistics                                                                        *)
(* ================================================================================================ *)
(* The analysis of one diff section, separated from the update of the metadata: what generate_stats computes from
   the diff section alone. *)
Inductive fs_outcome := FSkip | FStats (dels ins : Z) | FErr (e : exn).

(* the newline used to split the diff: declared line endings, or guessed, in the declared encoding *)
Definition fs_newline (o : dopts) (diff : bytes) : res bytes :=
  let enc := text_of (kw o "encoding") in
  if wv_truthy (kw o "line_endings")
  then match text_of (kw o "line_endings") with
       | Some le => get_newline_for_type le enc
       | None => Err EValue
       end
  else do p <- guess_line_endings_bytes diff enc; Ok (snd p).

(* the UTF-8 version of (diff, newline) when both decode in the declared encoding *)
Definition fs_recode (enc : option bytes) (diff newline : bytes) : res (bytes * bytes) :=
  match enc with
  | Some e =>
      match py_decode diff e with
      | Ok t =>
          match py_decode newline e with
          | Ok nt => match c_enc utf8 t, c_enc utf8 nt with
                     | Some a, Some b => Ok (a, b)
                     | _, _ => Ok (diff, newline)
                     end
          | Err EUnmodelled => Err EUnmodelled
          | Err _ => Ok (diff, newline)
          end
      | Err EUnmodelled => Err EUnmodelled
      | Err _ => Ok (diff, newline)
      end
  | None => Ok (diff, newline)
  end.

Definition binary_type : wv := WStr (ascii_text GenText.diff_type_binary).

Definition fs_analyse (d : dsec) : fs_outcome :=
  match x_content d with
  | None => FSkip
  | Some diff =>
      if is_nil diff then FSkip else
      let o := x_opts d in
      if wv_eq (kw o "type") binary_type then FSkip else
      match fs_newline o diff with
      | Err e => FErr e
      | Ok newline =>
          match fs_recode (text_of (kw o "encoding")) diff newline with
          | Err e => FErr e
          | Ok (diff', newline') =>
              match split_lines diff' newline' false with
              | Err _ => FSkip
              | Ok lines =>
                  match get_unified_diff_hunks lines true with
                  | Malformed _ _ _ => FSkip
                  | HunksOk _ _ dels ins => FStats dels ins
                  end
              end
          end
      end
  end.

Definition file_stat_list (dels ins : Z) : list (text * json) :=
  [stat "deletions" dels; stat "insertions" ins; stat "lines changed" (dels + ins)%Z].
Definition with_file_meta (f : dfile) (m : list (text * json)) : dfile :=
  {| f_opts := f_opts f; f_meta := {| m_opts := m_opts (f_meta f); m_content := m |}; f_diff := f_diff f |}.

Lemma file_stats_eq : forall f,
  file_stats f = match fs_analyse (f_diff f) with
                 | FSkip => Ok f
                 | FErr e => Err e
                 | FStats dels ins => do m <- merge_stats (m_content (f_meta f)) (file_stat_list dels ins); Ok (with_file_meta f m)
                 end.
Proof.
  intro f. unfold file_stats, fs_analyse, fs_newline, fs_recode, binary_type, bind.
  repeat match goal with
         | |- context [match ?x with _ => _ end] => destruct x eqn:?; try reflexivity
         end.
Qed.

(* ---- dict.update / the 'stats' entry ---- *)
Definition skey (s : String.string) : text := ascii_text (B s).
Definition stats_key : text := skey "stats".
(* the statistics object already present in a metadata dict ({} when there is none) *)
Definition old_stats (m : list (text * json)) : list (text * json) :=
  match jget "stats" m with Some (JObj o) => o | _ => [] end.

Lemma jupdate_get_notin : forall src d k, ~ In k (map fst src) -> assoc_get teq k (jupdate src d) = assoc_get teq k d.
Proof.
  induction src as [|[k0 v0] src IH]; cbn; intros d k H; auto.
  rewrite IH by tauto. apply aget_set_other_t. intro; subst; apply H; auto.
Qed.
Lemma jupdate_get_in : forall src d k v, NoDup (map fst src) -> In (k, v) src -> assoc_get teq k (jupdate src d) = Some v.
Proof.
  induction src as [|[k0 v0] src IH]; cbn; intros d k v ND I; [tauto|].
  inversion ND as [|? ? N1 N2]; subst. destruct I as [I|I].
  - injection I as -> ->. rewrite jupdate_get_notin by auto. apply aget_set_same_t.
  - apply IH; auto.
Qed.
Lemma jupdate_fixed : forall src d, (forall k v, In (k, v) src -> assoc_get teq k d = Some v) -> jupdate src d = d.
Proof.
  induction src as [|[k0 v0] src IH]; cbn; intros d H; auto.
  rewrite (aset_same teq) by auto. apply IH. auto.
Qed.
Lemma jupdate_idem : forall src d, NoDup (map fst src) -> jupdate src (jupdate src d) = jupdate src d.
Proof. intros. apply jupdate_fixed. intros. apply jupdate_get_in; auto. Qed.
Lemma jupdate_disjoint : forall src dst, NoDup (map fst src) -> (forall k, In k (map fst src) -> ~ In k (map fst dst)) ->
  jupdate src dst = dst ++ src.
Proof.
  induction src as [|[k v] src IH]; cbn; intros dst ND H; [rewrite app_nil_r; auto|].
  inversion ND as [|? ? N1 N2]; subst.
  rewrite (aset_keys_absent teq teq_eq) by (apply H; auto).
  rewrite IH; auto.
  - rewrite <- app_assoc. reflexivity.
  - intros k' I. rewrite map_app, in_app_iff. cbn. intros [F|[F|[]]].
    + eapply H; eauto.
    + subst. contradiction.
Qed.
Lemma jupdate_nil : forall src, NoDup (map fst src) -> jupdate src [] = src.
Proof. intros. rewrite jupdate_disjoint; auto. Qed.
(* update keeps the position of the keys that were there, and appends the new ones *)
Lemma jupdate_keys_incl : forall src d k, In k (map fst d) -> In k (map fst (jupdate src d)).
Proof.
  induction src as [|[k0 v0] src IH]; cbn; intros d k H; auto.
  apply IH. destruct (in_dec (list_eq_dec N.eq_dec) k0 (map fst d)) as [I|I].
  - rewrite (aset_keys_present teq teq_eq); auto.
  - rewrite (aset_keys_absent teq teq_eq), map_app, in_app_iff; auto.
Qed.

Lemma merge_stats_eq : forall m st m', NoDup (map fst st) -> merge_stats m st = Ok m' ->
  m' = jset "stats" (JObj (jupdate st (old_stats m))) m.
Proof.
  intros m st m' ND H. unfold merge_stats, old_stats in *.
  destruct (jget "stats" m) as [[]|]; try discriminate; injection H as <-; auto.
  rewrite jupdate_nil; auto.
Qed.
Lemma merge_stats_total : forall m st, (jget "stats" m = None \/ exists o, jget "stats" m = Some (JObj o)) ->
  exists m', merge_stats m st = Ok m'.
Proof. intros m st [H|[o H]]; unfold merge_stats; rewrite H; eauto. Qed.
Lemma merge_stats_spec : forall m st m', NoDup (map fst st) -> merge_stats m st = Ok m' ->
  jget "stats" m' = Some (JObj (jupdate st (old_stats m))) /\
  assoc_del teq stats_key m' = assoc_del teq stats_key m /\
  (forall k, k <> stats_key -> assoc_get teq k m' = assoc_get teq k m).
Proof.
  intros m st m' ND H. rewrite (merge_stats_eq _ _ _ ND H). unfold jset, jget. fold stats_key. fold (skey "stats"). fold stats_key.
  repeat split.
  - apply aget_set_same_t.
  - apply (adel_set teq teq_eq).
  - intros k N. apply aget_set_other_t. auto.
Qed.
Lemma merge_stats_old : forall m st m', NoDup (map fst st) -> merge_stats m st = Ok m' ->
  old_stats m' = jupdate st (old_stats m).
Proof. intros m st m' ND H. destruct (merge_stats_spec _ _ _ ND H) as [E _]. unfold old_stats at 1. rewrite E. auto. Qed.
Lemma merge_stats_idem : forall m st m', NoDup (map fst st) -> merge_stats m st = Ok m' -> merge_stats m' st = Ok m'.
Proof.
  intros m st m' ND H. destruct (merge_stats_spec _ _ _ ND H) as [E _].
  unfold merge_stats. rewrite E, jupdate_idem by auto. f_equal.
  apply (aset_same teq). exact E.
Qed.

Lemma NoDup_file_keys : forall d i, NoDup (map fst (file_stat_list d i)).
Proof. intros. cbn. repeat constructor; cbn; intro H; repeat destruct H as [H|H]; try discriminate H; auto. Qed.

(* ---- C13_skip ---- *)
Theorem C13_skip : forall f,
  (x_content (f_diff f) = None -> file_stats f = Ok f) /\
  (x_content (f_diff f) = Some [] -> file_stats f = Ok f) /\
  (wv_eq (kw (x_opts (f_diff f)) "type") binary_type = true -> file_stats f = Ok f) /\
  (forall diff nl diff' nl',
     x_content (f_diff f) = Some diff ->
     fs_newline (x_opts (f_diff f)) diff = Ok nl ->
     fs_recode (text_of (kw (x_opts (f_diff f)) "encoding")) diff nl = Ok (diff', nl') ->
     (forall lines, split_lines diff' nl' false = Ok lines ->
                    exists l n e, get_unified_diff_hunks lines true = Malformed l n e) ->
     file_stats f = Ok f).
Proof.
  intro f. rewrite file_stats_eq. unfold fs_analyse. repeat split.
  - intros ->. reflexivity.
  - intros ->. reflexivity.
  - intros H. destruct (x_content (f_diff f)) as [d|]; auto. destruct (is_nil d); auto. rewrite H. reflexivity.
  - intros diff nl diff' nl' -> N R H. destruct (is_nil diff); auto.
    destruct (wv_eq _ _); auto. rewrite N, R.
    destruct (split_lines diff' nl' false) as [lines|]; auto.
    destruct (H lines eq_refl) as (l & n & e & ->). reflexivity.
Qed.

(* ---- C13_file ---- *)
Lemma fs_analyse_stats : forall d diff nl diff' nl' lines hs n dels ins,
  x_content d = Some diff -> diff <> [] -> wv_eq (kw (x_opts d) "type") binary_type = false ->
  fs_newline (x_opts d) diff = Ok nl ->
  fs_recode (text_of (kw (x_opts d) "encoding")) diff nl = Ok (diff', nl') ->
  split_lines diff' nl' false = Ok lines ->
  get_unified_diff_hunks lines true = HunksOk hs n dels ins ->
  fs_analyse d = FStats dels ins.
Proof.
  intros d diff nl diff' nl' lines hs n dels ins C NE T N R S G. unfold fs_analyse.
  rewrite C. destruct diff; [contradiction|]. cbn [is_nil]. rewrite T, N, R, S, G. reflexivity.
Qed.

Theorem C13_file : forall f f' diff nl diff' nl' lines hs n dels ins,
  x_content (f_diff f) = Some diff -> diff <> [] -> wv_eq (kw (x_opts (f_diff f)) "type") binary_type = false ->
  fs_newline (x_opts (f_diff f)) diff = Ok nl ->
  fs_recode (text_of (kw (x_opts (f_diff f)) "encoding")) diff nl = Ok (diff', nl') ->
  split_lines diff' nl' false = Ok lines ->
  get_unified_diff_hunks lines true = HunksOk hs n dels ins ->
  file_stats f = Ok f' ->
  let old := old_stats (m_content (f_meta f)) in
  let st' := jupdate (file_stat_list dels ins) old in
  f_opts f' = f_opts f /\ f_diff f' = f_diff f /\ m_opts (f_meta f') = m_opts (f_meta f) /\
  m_content (f_meta f') = jset "stats" (JObj st') (m_content (f_meta f)) /\
  jget "stats" (m_content (f_meta f')) = Some (JObj st') /\
  jget "deletions" st' = Some (JInt dels) /\ jget "insertions" st' = Some (JInt ins) /\
  jget "lines changed" st' = Some (JInt (dels + ins)) /\
  (forall k, k <> skey "deletions" -> k <> skey "insertions" -> k <> skey "lines changed" ->
             assoc_get teq k st' = assoc_get teq k old) /\
  (forall k, In k (map fst old) -> In k (map fst st')) /\
  (forall k, k <> stats_key -> assoc_get teq k (m_content (f_meta f')) = assoc_get teq k (m_content (f_meta f))).
Proof.
  intros f f' diff nl diff' nl' lines hs n dels ins C NE T N R S G H old st'.
  rewrite file_stats_eq, (fs_analyse_stats _ _ _ _ _ _ _ _ _ _ C NE T N R S G) in H.
  inv_bind H. injection H as <-. cbn [with_file_meta f_opts f_diff f_meta m_opts m_content].
  pose proof (NoDup_file_keys dels ins) as ND.
  destruct (merge_stats_spec _ _ _ ND E) as (E1 & _ & E3).
  repeat split; auto.
  - apply merge_stats_eq; auto.
  - unfold jget. apply jupdate_get_in; cbn; auto.
  - unfold jget. apply jupdate_get_in; cbn; auto.
  - unfold jget. apply jupdate_get_in; cbn; auto.
  - intros k K1 K2 K3. apply jupdate_get_notin. cbn. intros [F|[F|[F|[]]]]; [apply K1|apply K2|apply K3]; rewrite <- F; reflexivity.
  - intros k. apply jupdate_keys_incl.
Qed.
(* and the update does happen whenever the existing 'stats' entry, if any, is a dict *)
Theorem C13_file_total : forall f dels ins,
  fs_analyse (f_diff f) = FStats dels ins ->
  (jget "stats" (m_content (f_meta f)) = None \/ exists o, jget "stats" (m_content (f_meta f)) = Some (JObj o)) ->
  file_stats f = Ok (with_file_meta f (jset "stats" (JObj (jupdate (file_stat_list dels ins) (old_stats (m_content (f_meta f))))) (m_content (f_meta f)))).
Proof.
  intros f dels ins A H. rewrite file_stats_eq, A.
  destruct (merge_stats_total _ (file_stat_list dels ins) H) as [m' M]. rewrite M. cbn.
  rewrite (merge_stats_eq _ _ _ (NoDup_file_keys dels ins) M). reflexivity.
Qed.

(* ---- C13_change_sums / C13_tree_sums ---- *)
(* the figure a section reports under [k] in its 'stats' (0 when there is no such figure) *)
Definition stat_of (k : String.string) (m : list (text * json)) : Z :=
  match jget "stats" m with
  | Some (JObj kv) => match jget k kv with Some (JInt z) => z | Some (JBool b) => bool_Z b | _ => 0%Z end
  | _ => 0%Z
  end.
Definition file_fig (k : String.string) (f : dfile) : Z := stat_of k (m_content (f_meta f)).
Definition change_fig (k : String.string) (c : dchange) : Z := stat_of k (m_content (c_meta c)).
Definition zsum (l : list Z) : Z := fold_right Z.add 0%Z l.

Fixpoint sum_files (l : list dfile) (acc : Z * Z * Z) : res (Z * Z * Z) :=
  match l with
  | [] => Ok acc
  | f :: t =>
      let st := match jget "stats" (m_content (f_meta f)) with Some (JObj kv) => Ok kv | None => Ok [] | Some _ => Err EAttribute end in
      do kv <- st;
      do i <- jint_or 0 (jget "insertions" kv);
      do d <- jint_or 0 (jget "deletions" kv);
      do l' <- jint_or 0 (jget "lines changed" kv);
      let '(ai, ad, al) := acc in sum_files t (ai + i, ad + d, al + l')%Z
  end.
Definition change_stat_list (nfiles : nat) (i d l : Z) : list (text * json) :=
  [stat "deletions" d; stat "files" (Z.of_nat nfiles); stat "insertions" i; stat "lines changed" l].
Definition with_change (c : dchange) (m : list (text * json)) (fs : list dfile) : dchange :=
  {| c_opts := c_opts c; c_pre := c_pre c; c_meta := {| m_opts := m_opts (c_meta c); m_content := m |}; c_files := fs |}.

Lemma change_stats_eq : forall c,
  change_stats c =
  do fs <- map_res file_stats (c_files c);
  do sums <- sum_files fs (0, 0, 0)%Z;
  let '(i, d, l) := sums in
  do m <- merge_stats (m_content (c_meta c)) (change_stat_list (length fs) i d l);
  Ok (with_change c m fs).
Proof. reflexivity. Qed.

Lemma jint_or_fig : forall k m z,
  (do kv <- (match jget "stats" m with Some (JObj kv) => Ok kv | None => Ok [] | Some _ => Err EAttribute end);
   jint_or 0 (jget k kv)) = Ok z -> z = stat_of k m.
Proof.
  intros k m z. unfold stat_of. destruct (jget "stats" m) as [[]|]; cbn; try discriminate.
  - destruct (jget k kv) as [[]|]; cbn; try discriminate; intro H; injection H; auto.
  - intro H; injection H; auto.
Qed.

Lemma sum_files_spec : forall l ai ad al i d c, sum_files l (ai, ad, al) = Ok (i, d, c) ->
  i = (ai + zsum (map (file_fig "insertions") l))%Z /\
  d = (ad + zsum (map (file_fig "deletions") l))%Z /\
  c = (al + zsum (map (file_fig "lines changed") l))%Z.
Proof.
  induction l as [|f l IH]; intros ai ad al i d c H; cbn in H.
  - injection H as <- <- <-. cbn. lia.
  - destruct (match jget "stats" (m_content (f_meta f)) with Some (JObj kv) => Ok kv | None => Ok [] | Some _ => Err EAttribute end)
      as [kv|] eqn:S; cbn in H; try discriminate.
    inv_bind H. inv_bind H. inv_bind H.
    apply IH in H. destruct H as (-> & -> & ->).
    assert (F : forall k z, jint_or 0 (jget k kv) = Ok z -> z = file_fig k f).
    { intros k z J. apply jint_or_fig. rewrite S. exact J. }
    apply F in E, E0, E1. subst. unfold zsum. cbn [map fold_right]. lia.
Qed.

Lemma NoDup_change_keys : forall n i d l, NoDup (map fst (change_stat_list n i d l)).
Proof. intros. cbn. repeat constructor; cbn; intro H; repeat destruct H as [H|H]; try discriminate H; auto. Qed.

Theorem C13_change_sums : forall c c', change_stats c = Ok c' ->
  Forall2 (fun f f' => file_stats f = Ok f') (c_files c) (c_files c') /\
  exists st, jget "stats" (m_content (c_meta c')) = Some (JObj st) /\
    jget "files" st = Some (JInt (Z.of_nat (length (c_files c')))) /\
    length (c_files c') = length (c_files c) /\
    jget "insertions" st = Some (JInt (zsum (map (file_fig "insertions") (c_files c')))) /\
    jget "deletions" st = Some (JInt (zsum (map (file_fig "deletions") (c_files c')))) /\
    jget "lines changed" st = Some (JInt (zsum (map (file_fig "lines changed") (c_files c')))).
Proof.
  intros c c' H. rewrite change_stats_eq in H.
  inv_bind H. rename x into fs. inv_bind H. destruct x as [[i d] l]. inv_bind H. injection H as <-.
  cbn [with_change c_files c_meta m_content].
  split; [apply map_res_Forall2; auto|].
  pose proof (NoDup_change_keys (length fs) i d l) as ND.
  destruct (merge_stats_spec _ _ _ ND E1) as (S & _).
  apply sum_files_spec in E0. destruct E0 as (-> & -> & ->).
  eexists; split; [exact S|].
  repeat split; try (unfold jget; apply jupdate_get_in; cbn; auto 10; fail).
  eapply map_res_length; eauto.
Qed.

Fixpoint sum_changes (l : list dchange) (acc : Z * Z * Z * Z) : res (Z * Z * Z * Z) :=
  match l with
  | [] => Ok acc
  | c :: r =>
      do kv <- (match jget "stats" (m_content (c_meta c)) with Some (JObj kv) => Ok kv | Some _ => Err EType | None => Err EKey end);
      let need k := match jget k kv with Some (JInt z) => Ok z | Some (JBool b) => Ok (bool_Z b) | Some _ => Err EType | None => Err EKey end in
      do f <- need "files"; do i <- need "insertions"; do d <- need "deletions"; do l' <- need "lines changed";
      let '(af, ai, ad, al) := acc in sum_changes r (af + f, ai + i, ad + d, al + l')%Z
  end.
Definition tree_stat_list (nchanges : nat) (f i d l : Z) : list (text * json) :=
  [stat "changes" (Z.of_nat nchanges); stat "deletions" d; stat "files" f; stat "insertions" i; stat "lines changed" l].
Definition with_tree_meta (t : dtree) (m : list (text * json)) (cs : list dchange) : dtree :=
  {| d_opts := d_opts t; d_pre := d_pre t; d_meta := {| m_opts := m_opts (d_meta t); m_content := m |}; d_changes := cs |}.

Lemma tree_stats_eq : forall t,
  tree_stats t =
  do cs <- map_res change_stats (d_changes t);
  do sums <- sum_changes cs (0, 0, 0, 0)%Z;
  let '(f, i, d, l) := sums in
  do m <- merge_stats (m_content (d_meta t)) (tree_stat_list (length cs) f i d l);
  Ok (with_tree_meta t m cs).
Proof. reflexivity. Qed.

Lemma sum_changes_spec : forall l af ai ad al f i d c, sum_changes l (af, ai, ad, al) = Ok (f, i, d, c) ->
  f = (af + zsum (map (change_fig "files") l))%Z /\
  i = (ai + zsum (map (change_fig "insertions") l))%Z /\
  d = (ad + zsum (map (change_fig "deletions") l))%Z /\
  c = (al + zsum (map (change_fig "lines changed") l))%Z.
Proof.
  induction l as [|x l IH]; intros af ai ad al f i d c H; cbn in H.
  - injection H as <- <- <- <-. cbn. lia.
  - destruct (jget "stats" (m_content (c_meta x))) as [[| | | | | |kv|]|] eqn:S; cbn in H; try discriminate.
    assert (F : forall k z, match jget k kv with Some (JInt z) => Ok z | Some (JBool b) => Ok (bool_Z b) | Some _ => Err EType | None => Err EKey end = Ok z ->
                            z = change_fig k x).
    { intros k z J. unfold change_fig, stat_of. rewrite S. destruct (jget k kv) as [[]|]; try discriminate; injection J; auto. }
    inv_bind H. inv_bind H. inv_bind H. inv_bind H.
    apply IH in H. destruct H as (-> & -> & -> & ->).
    apply F in E, E0, E1, E2. subst. unfold zsum. cbn [map fold_right]. lia.
Qed.

Lemma NoDup_tree_keys : forall n f i d l, NoDup (map fst (tree_stat_list n f i d l)).
Proof. intros. cbn. repeat constructor; cbn; intro H; repeat destruct H as [H|H]; try discriminate H; auto. Qed.

Theorem C13_tree_sums : forall t t', tree_stats t = Ok t' ->
  Forall2 (fun c c' => change_stats c = Ok c') (d_changes t) (d_changes t') /\
  exists st, jget "stats" (m_content (d_meta t')) = Some (JObj st) /\
    jget "changes" st = Some (JInt (Z.of_nat (length (d_changes t')))) /\
    length (d_changes t') = length (d_changes t) /\
    jget "files" st = Some (JInt (zsum (map (change_fig "files") (d_changes t')))) /\
    jget "insertions" st = Some (JInt (zsum (map (change_fig "insertions") (d_changes t')))) /\
    jget "deletions" st = Some (JInt (zsum (map (change_fig "deletions") (d_changes t')))) /\
    jget "lines changed" st = Some (JInt (zsum (map (change_fig "lines changed") (d_changes t')))).
Proof.
  intros t t' H. rewrite tree_stats_eq in H.
  inv_bind H. rename x into cs. inv_bind H. destruct x as [[[f i] d] l]. inv_bind H. injection H as <-.
  cbn [with_tree_meta d_changes d_meta m_content].
  split; [apply map_res_Forall2; auto|].
  pose proof (NoDup_tree_keys (length cs) f i d l) as ND.
  destruct (merge_stats_spec _ _ _ ND E1) as (S & _).
  apply sum_changes_spec in E0. destruct E0 as (-> & -> & -> & ->).
  eexists; split; [exact S|].
  repeat split; try (unfold jget; apply jupdate_get_in; cbn; auto 10; fail).
  eapply map_res_length; eauto.
Qed.

(* the figures one level up really are the figures one level down: a change's figures after generation *)
Lemma change_stats_figs : forall c c', change_stats c = Ok c' ->
  change_fig "files" c' = Z.of_nat (length (c_files c')) /\
  change_fig "insertions" c' = zsum (map (file_fig "insertions") (c_files c')) /\
  change_fig "deletions" c' = zsum (map (file_fig "deletions") (c_files c')) /\
  change_fig "lines changed" c' = zsum (map (file_fig "lines changed") (c_files c')).
Proof.
  intros c c' H. destruct (C13_change_sums _ _ H) as (_ & st & S & F & _ & I & D & L).
  unfold change_fig, stat_of. rewrite S, F, I, D, L. auto.
Qed.
(* hence the totals of the whole file are the sums over all files of all changes *)
Theorem C13_tree_totals : forall t t', tree_stats t = Ok t' ->
  exists st, jget "stats" (m_content (d_meta t')) = Some (JObj st) /\
    jget "changes" st = Some (JInt (Z.of_nat (length (d_changes t')))) /\
    jget "files" st = Some (JInt (zsum (map (fun c => Z.of_nat (length (c_files c))) (d_changes t')))) /\
    jget "insertions" st = Some (JInt (zsum (map (fun c => zsum (map (file_fig "insertions") (c_files c))) (d_changes t')))) /\
    jget "deletions" st = Some (JInt (zsum (map (fun c => zsum (map (file_fig "deletions") (c_files c))) (d_changes t')))) /\
    jget "lines changed" st = Some (JInt (zsum (map (fun c => zsum (map (file_fig "lines changed") (c_files c))) (d_changes t')))).
Proof.
  intros t t' H. destruct (C13_tree_sums _ _ H) as (F2 & st & S & C & _ & F & I & D & L).
  assert (X : forall c', In c' (d_changes t') -> exists c, change_stats c = Ok c').
  { intros c' IN. clear -F2 IN. induction F2; [destruct IN|]. destruct IN as [<-|IN]; eauto. }
  exists st. rewrite F, I, D, L. repeat split; auto; do 3 f_equal; apply map_ext_in; intros c' IN;
    destruct (X c' IN) as [c CS]; destruct (change_stats_figs _ _ CS) as (? & ? & ? & ?); auto.
Qed.

(* ---- C13_preserve ---- *)
(* erasure of every 'stats' entry: what must not change *)
Definition strip_meta (m : msec) : msec := {| m_opts := m_opts m; m_content := assoc_del teq stats_key (m_content m) |}.
Definition strip_file (f : dfile) : dfile := {| f_opts := f_opts f; f_meta := strip_meta (f_meta f); f_diff := f_diff f |}.
Definition strip_change (c : dchange) : dchange :=
  {| c_opts := c_opts c; c_pre := c_pre c; c_meta := strip_meta (c_meta c); c_files := map strip_file (c_files c) |}.
Definition strip_stats (t : dtree) : dtree :=
  {| d_opts := d_opts t; d_pre := d_pre t; d_meta := strip_meta (d_meta t); d_changes := map strip_change (d_changes t) |}.

Lemma map_res_map : forall {A C} (f : A -> res A) (s : A -> C) l l',
  (forall a a', f a = Ok a' -> s a' = s a) -> map_res f l = Ok l' -> map s l' = map s l.
Proof.
  induction l as [|x l IH]; cbn; intros l' F H.
  - injection H as <-. reflexivity.
  - inv_bind H. inv_bind H. injection H as <-. cbn. f_equal; auto.
Qed.

Lemma file_stats_strip : forall f f', file_stats f = Ok f' -> strip_file f' = strip_file f.
Proof.
  intros f f' H. rewrite file_stats_eq in H. destruct (fs_analyse (f_diff f)) as [|dels ins|e]; try discriminate.
  - injection H as <-. reflexivity.
  - inv_bind H. injection H as <-.
    destruct (merge_stats_spec _ _ _ (NoDup_file_keys dels ins) E) as (_ & D & _).
    unfold strip_file, strip_meta, with_file_meta. cbn [f_opts f_meta f_diff m_opts m_content]. rewrite D. reflexivity.
Qed.
Lemma change_stats_strip : forall c c', change_stats c = Ok c' -> strip_change c' = strip_change c.
Proof.
  intros c c' H. rewrite change_stats_eq in H.
  inv_bind H. rename x into fs. inv_bind H. destruct x as [[i d] l]. inv_bind H. injection H as <-.
  destruct (merge_stats_spec _ _ _ (NoDup_change_keys (length fs) i d l) E1) as (_ & D & _).
  unfold strip_change, strip_meta, with_change. cbn [c_opts c_pre c_meta c_files m_opts m_content]. rewrite D.
  rewrite (map_res_map file_stats strip_file _ _ file_stats_strip E). reflexivity.
Qed.
Theorem C13_preserve : forall t t', tree_stats t = Ok t' ->
  strip_stats t' = strip_stats t /\
  length (d_changes t') = length (d_changes t) /\
  Forall2 (fun c c' => length (c_files c') = length (c_files c)) (d_changes t) (d_changes t').
Proof.
  intros t t' H. pose proof H as H0. rewrite tree_stats_eq in H.
  inv_bind H. rename x into cs. inv_bind H. destruct x as [[[f i] d] l]. inv_bind H. injection H as <-.
  destruct (merge_stats_spec _ _ _ (NoDup_tree_keys (length cs) f i d l) E1) as (_ & D & _).
  split; [|split].
  - unfold strip_stats, strip_meta, with_tree_meta. cbn [d_opts d_pre d_meta d_changes m_opts m_content]. rewrite D.
    rewrite (map_res_map change_stats strip_change _ _ change_stats_strip E). reflexivity.
  - cbn. eapply map_res_length; eauto.
  - cbn. apply map_res_Forall2 in E. clear -E. induction E; constructor; auto.
    destruct (C13_change_sums _ _ H) as (_ & st & _ & _ & L & _). exact L.
Qed.

(* what the erasure keeps: options, contents and every metadata key other than 'stats' *)
Lemma strip_meta_keeps : forall m m', strip_meta m' = strip_meta m ->
  m_opts m' = m_opts m /\ forall k, k <> stats_key -> assoc_get teq k (m_content m') = assoc_get teq k (m_content m).
Proof.
  intros m m' H. unfold strip_meta in H. injection H as H1 H2. split; auto.
  intros k N. rewrite <- (aget_del_other teq teq_eq stats_key k (m_content m')), <- (aget_del_other teq teq_eq stats_key k (m_content m)); auto.
  rewrite H2. reflexivity.
Qed.
Theorem C13_preserve_meaning : forall t t', strip_stats t' = strip_stats t ->
  d_opts t' = d_opts t /\ d_pre t' = d_pre t /\
  (m_opts (d_meta t') = m_opts (d_meta t) /\
   forall k, k <> stats_key -> assoc_get teq k (m_content (d_meta t')) = assoc_get teq k (m_content (d_meta t))) /\
  Forall2 (fun c c' =>
     c_opts c' = c_opts c /\ c_pre c' = c_pre c /\
     (m_opts (c_meta c') = m_opts (c_meta c) /\
      forall k, k <> stats_key -> assoc_get teq k (m_content (c_meta c')) = assoc_get teq k (m_content (c_meta c))) /\
     Forall2 (fun f f' =>
        f_opts f' = f_opts f /\ f_diff f' = f_diff f /\
        (m_opts (f_meta f') = m_opts (f_meta f) /\
         forall k, k <> stats_key -> assoc_get teq k (m_content (f_meta f')) = assoc_get teq k (m_content (f_meta f))))
       (c_files c) (c_files c'))
    (d_changes t) (d_changes t').
Proof.
  intros t t' H.
  pose proof (f_equal d_opts H) as H1. pose proof (f_equal d_pre H) as H2.
  pose proof (f_equal d_meta H) as H3. pose proof (f_equal d_changes H) as H4.
  cbn [strip_stats d_opts d_pre d_meta d_changes] in H1, H2, H3, H4.
  split; [exact H1|]. split; [exact H2|]. split; [apply strip_meta_keeps; exact H3|].
  revert H4. generalize (d_changes t) (d_changes t'). clear. intros l l0; revert l0.
  induction l as [|c l IH]; intros [|c' l'] HL; try discriminate; constructor.
  - cbn [map] in HL. assert (Hc : strip_change c' = strip_change c) by congruence.
    pose proof (f_equal c_opts Hc) as C1. pose proof (f_equal c_pre Hc) as C2.
    pose proof (f_equal c_meta Hc) as C3. pose proof (f_equal c_files Hc) as C4.
    cbn [strip_change c_opts c_pre c_meta c_files] in C1, C2, C3, C4.
    split; [exact C1|]. split; [exact C2|]. split; [apply strip_meta_keeps; exact C3|].
    revert C4. generalize (c_files c) (c_files c'). clear. intros l0 l1; revert l1.
    induction l0 as [|f l0 IHf]; intros [|f' l0'] Hf; try discriminate; constructor.
    + cbn [map] in Hf. assert (Hf1 : strip_file f' = strip_file f) by congruence. clear Hf; rename Hf1 into Hf.
      pose proof (f_equal f_opts Hf) as F1. pose proof (f_equal f_meta Hf) as F2. pose proof (f_equal f_diff Hf) as F3.
      cbn [strip_file f_opts f_meta f_diff] in F1, F2, F3.
      split; [exact F1|]. split; [exact F3|]. apply strip_meta_keeps; exact F2.
    + apply IHf. cbn [map] in Hf. congruence.
  - apply IH. cbn [map] in HL. congruence.
Qed.

(* inside the statistics objects, every key other than the computed ones is kept, at each of the three levels *)
Lemma merge_stats_keeps : forall m st m' k, NoDup (map fst st) -> merge_stats m st = Ok m' -> ~ In k (map fst st) ->
  assoc_get teq k (old_stats m') = assoc_get teq k (old_stats m).
Proof. intros m st m' k ND H N. rewrite (merge_stats_old _ _ _ ND H). apply jupdate_get_notin; auto. Qed.
Lemma merge_stats_keeps_keys : forall m st m' k, NoDup (map fst st) -> merge_stats m st = Ok m' ->
  In k (map fst (old_stats m)) -> In k (map fst (old_stats m')).
Proof. intros m st m' k ND H I. rewrite (merge_stats_old _ _ _ ND H). apply jupdate_keys_incl; auto. Qed.

Definition file_keys : list text := [skey "deletions"; skey "insertions"; skey "lines changed"].
Definition change_keys : list text := [skey "deletions"; skey "files"; skey "insertions"; skey "lines changed"].
Definition tree_keys : list text := [skey "changes"; skey "deletions"; skey "files"; skey "insertions"; skey "lines changed"].

Theorem C13_preserve_custom :
  (forall f f' k, file_stats f = Ok f' -> ~ In k file_keys ->
     assoc_get teq k (old_stats (m_content (f_meta f'))) = assoc_get teq k (old_stats (m_content (f_meta f)))) /\
  (forall c c' k, change_stats c = Ok c' -> ~ In k change_keys ->
     assoc_get teq k (old_stats (m_content (c_meta c'))) = assoc_get teq k (old_stats (m_content (c_meta c)))) /\
  (forall t t' k, tree_stats t = Ok t' -> ~ In k tree_keys ->
     assoc_get teq k (old_stats (m_content (d_meta t'))) = assoc_get teq k (old_stats (m_content (d_meta t)))).
Proof.
  repeat split.
  - intros f f' k H N. rewrite file_stats_eq in H. destruct (fs_analyse (f_diff f)) as [|dels ins|e]; try discriminate.
    + injection H as <-. reflexivity.
    + inv_bind H. injection H as <-. cbn. eapply merge_stats_keeps; eauto. apply NoDup_file_keys.
  - intros c c' k H N. rewrite change_stats_eq in H.
    inv_bind H. inv_bind H. destruct x0 as [[i d] l]. inv_bind H. injection H as <-. cbn.
    eapply merge_stats_keeps; eauto. apply NoDup_change_keys.
  - intros t t' k H N. rewrite tree_stats_eq in H.
    inv_bind H. inv_bind H. destruct x0 as [[[f i] d] l]. inv_bind H. injection H as <-. cbn.
    eapply merge_stats_keeps; eauto. apply NoDup_tree_keys.
Qed.

(* ---- C13_idem ---- *)
Lemma file_stats_diff : forall f f', file_stats f = Ok f' -> f_diff f' = f_diff f.
Proof. intros f f' H. apply file_stats_strip in H. unfold strip_file in H. injection H; auto. Qed.
Lemma file_stats_idem : forall f f', file_stats f = Ok f' -> file_stats f' = Ok f'.
Proof.
  intros f f' H. pose proof (file_stats_diff _ _ H) as D.
  rewrite file_stats_eq, D. rewrite file_stats_eq in H.
  destruct (fs_analyse (f_diff f)) as [|dels ins|e]; try discriminate; auto.
  inv_bind H. injection H as <-. cbn [with_file_meta f_meta m_content].
  rewrite (merge_stats_idem _ _ _ (NoDup_file_keys dels ins) E). reflexivity.
Qed.
Lemma change_stats_idem : forall c c', change_stats c = Ok c' -> change_stats c' = Ok c'.
Proof.
  intros c c' H. rewrite change_stats_eq in H.
  inv_bind H. rename x into fs. inv_bind H. destruct x as [[i d] l]. inv_bind H. injection H as <-.
  rewrite change_stats_eq. cbn [with_change c_files c_meta m_content].
  rewrite (map_res_fixed file_stats fs).
  - cbn [bind]. rewrite E0. cbn [bind].
    rewrite (merge_stats_idem _ _ _ (NoDup_change_keys (length fs) i d l) E1). reflexivity.
  - apply map_res_Forall2 in E. clear -E. induction E; constructor; auto. eapply file_stats_idem; eauto.
Qed.
Lemma tree_stats_idem : forall t t1, tree_stats t = Ok t1 -> tree_stats t1 = Ok t1.
Proof.
  intros t t1 H.
  rewrite tree_stats_eq in H.
  inv_bind H. rename x into cs. inv_bind H. destruct x as [[[f i] d] l]. inv_bind H. injection H as <-.
  rewrite tree_stats_eq. cbn [with_tree_meta d_changes d_meta m_content].
  rewrite (map_res_fixed change_stats cs).
  - cbn [bind]. rewrite E0. cbn [bind].
    rewrite (merge_stats_idem _ _ _ (NoDup_tree_keys (length cs) f i d l) E1). reflexivity.
  - apply map_res_Forall2 in E. clear -E. induction E; constructor; auto. eapply change_stats_idem; eauto.
Qed.
(* generating twice equals generating once: plain equality (dict.update keeps the position of existing keys) *)
Theorem C13_idem : forall t t1 t2, tree_stats t = Ok t1 -> tree_stats t1 = Ok t2 -> t2 = t1.
Proof. intros t t1 t2 H H2. rewrite (tree_stats_idem _ _ H) in H2. congruence. Qed.
(* and generating on an already generated tree never fails *)
Definition C13_idem_total := tree_stats_idem.

(* ================================================================================================ *)
(* C19 — typed attributes                                                                            *)
(* ================================================================================================ *)
Definition in_choices (v : wv) (cs : list bytes) : Prop := exists c, In c cs /\ v = WStr (ascii_text c).
(* the value has the declared type and, when the attribute declares a non-empty choice list, is one of the choices *)
Definition typed_ok (ty : atype) (choices : option (list bytes)) (v : wv) : Prop :=
  has_type ty v = true /\ forall cs, choices = Some cs -> cs <> [] -> in_choices v cs.

Lemma in_strset_true : forall v cs, in_strset v cs = Ok true -> in_choices v cs.
Proof.
  intros v cs H. destruct v; cbn in H; try discriminate. injection H as H.
  apply existsb_exists in H. destruct H as (c & I & E). apply teq_eq in E. exists c. subst. auto.
Qed.

Theorem C19_set_option : forall o name ty choices v o', set_option o name ty choices v = Ok o' ->
  typed_ok ty choices v /\ o' = assoc_set beq name v o.
Proof.
  intros o name ty choices v o' H. unfold set_option in H.
  destruct (has_type ty v) eqn:T; cbn in H; try discriminate.
  destruct choices as [cs|].
  - destruct (in_strset v cs) as [[|]|] eqn:I; try discriminate.
    + injection H as <-. repeat split; auto. intros cs' E _. injection E as <-. apply in_strset_true; auto.
    + destruct cs; cbn in H; try discriminate. injection H as <-. repeat split; auto.
      intros cs' E N. injection E as <-. contradiction.
  - injection H as <-. repeat split; auto. discriminate.
Qed.
(* conversely a well-typed value in the choice list is always stored *)
Theorem C19_set_option_accepts : forall o name ty choices v,
  has_type ty v = true -> (forall cs, choices = Some cs -> in_choices v cs) ->
  set_option o name ty choices v = Ok (assoc_set beq name v o).
Proof.
  intros o name ty choices v T C. unfold set_option. rewrite T. cbn.
  destruct choices as [cs|]; auto. destruct (C cs eq_refl) as (c & I & ->). cbn.
  replace (existsb (fun x => teq (ascii_text c) (ascii_text x)) cs) with true; auto.
  symmetry. apply existsb_exists. exists c. split; auto. apply teq_refl.
Qed.

(* declared type and choices of every option attribute of the three content sections *)
Definition psec_attr (a : bytes) : option (atype * option (list bytes)) :=
  if beq a (B "encoding") then Some (TStr, None)
  else if beq a (B "indent") then Some (TInt, None)
  else if beq a (B "line_endings") then Some (TStr, Some GenText.line_endings_values)
  else if beq a (B "mimetype") then Some (TStr, Some GenText.mimetypes)
  else None.
Definition msec_attr (a : bytes) : option (atype * option (list bytes)) :=
  if beq a (B "encoding") then Some (TStr, None)
  else if beq a (B "format") then Some (TStr, Some GenText.meta_formats)
  else None.
Definition dsec_attr (a : bytes) : option (atype * option (list bytes)) :=
  if beq a (B "encoding") then Some (TStr, None)
  else if beq a (B "line_endings") then Some (TStr, Some GenText.line_endings_values)
  else if beq a (B "type") then Some (TStr, Some GenText.diff_types)
  else None.

(* what an accepted assignment does to one content section: either the content or exactly one option is replaced *)
Definition psec_upd (s s' : psec) (v : wv) : Prop :=
  (exists t, v = WStr t /\ s' = {| p_opts := p_opts s; p_content := Some t |}) \/
  (exists k ty ch, psec_attr k = Some (ty, ch) /\ typed_ok ty ch v /\
                   (k = B "indent" -> exists z, v = WInt z /\ (0 <= z)%Z) /\
                   s' = {| p_opts := assoc_set beq k v (p_opts s); p_content := p_content s |}).
Definition msec_upd (s s' : msec) (v : wv) : Prop :=
  (exists kv, v = WDict (JObj kv) /\ s' = {| m_opts := m_opts s; m_content := kv |}) \/
  (exists k ty ch, msec_attr k = Some (ty, ch) /\ typed_ok ty ch v /\
                   s' = {| m_opts := assoc_set beq k v (m_opts s); m_content := m_content s |}).
Definition dsec_upd (s s' : dsec) (v : wv) : Prop :=
  (exists b, v = WBytes b /\ s' = {| x_opts := x_opts s; x_content := Some b |}) \/
  (exists k ty ch, dsec_attr k = Some (ty, ch) /\ typed_ok ty ch v /\
                   s' = {| x_opts := assoc_set beq k v (x_opts s); x_content := x_content s |}).

Ltac beq_case a s :=
  let E := fresh "E" in destruct (beq a (B s)) eqn:E; [apply beq_eq in E; subst a|].

Lemma set_option_bind : forall {S} o k ty ch v (mk : dopts -> S) s',
  (do o' <- set_option o k ty ch v; Ok (mk o')) = Ok s' -> typed_ok ty ch v /\ s' = mk (assoc_set beq k v o).
Proof. intros S o k ty ch v mk s' H. inv_bind H. injection H as <-. apply C19_set_option in E as [T ->]. auto. Qed.

Lemma set_psec_ok : forall s a v s', set_psec s a v = Ok s' -> psec_upd s s' v.
Proof.
  intros s a v s' H. unfold set_psec in H. cbv zeta in H.
  beq_case a "content".
  { destruct v; try discriminate. injection H as <-. left. eauto. }
  right.
  beq_case a "encoding".
  { apply set_option_bind in H as [T ->]. exists (B "encoding"), TStr, None.
    split; [reflexivity|]. split; [exact T|]. split; [discriminate|reflexivity]. }
  beq_case a "indent".
  { assert (X : (do o <- set_option (p_opts s) (B "indent") TInt None v; Ok {| p_opts := o; p_content := p_content s |}) = Ok s' ->
                (exists z, v = WInt z /\ (0 <= z)%Z) ->
                exists k ty ch, psec_attr k = Some (ty, ch) /\ typed_ok ty ch v /\
                  (k = B "indent" -> exists z, v = WInt z /\ (0 <= z)%Z) /\
                  s' = {| p_opts := assoc_set beq k v (p_opts s); p_content := p_content s |}).
    { intros SO Z. apply set_option_bind in SO as [T ->]. exists (B "indent"), TInt, None.
      split; [reflexivity|]. split; [exact T|]. split; [auto|reflexivity]. }
    destruct v; try discriminate; try (apply set_option_bind in H as [[T _] _]; discriminate T).
    destruct (z <? 0)%Z eqn:Z; try discriminate. apply X; auto. exists z. split; auto. lia. }
  beq_case a "line_endings".
  { apply set_option_bind in H as [T ->]. exists (B "line_endings"), TStr, (Some GenText.line_endings_values).
    split; [reflexivity|]. split; [exact T|]. split; [discriminate|reflexivity]. }
  beq_case a "mimetype".
  { apply set_option_bind in H as [T ->]. exists (B "mimetype"), TStr, (Some GenText.mimetypes).
    split; [reflexivity|]. split; [exact T|]. split; [discriminate|reflexivity]. }
  discriminate.
Qed.
Lemma set_msec_ok : forall s a v s', set_msec s a v = Ok s' -> msec_upd s s' v.
Proof.
  intros s a v s' H. unfold set_msec in H. cbv zeta in H.
  beq_case a "content".
  { destruct v as [| | | | |j|]; try discriminate. destruct j; try discriminate. injection H as <-. left. eauto. }
  right.
  beq_case a "encoding".
  { apply set_option_bind in H as [T ->]. exists (B "encoding"), TStr, None.
    split; [reflexivity|]. split; [exact T|reflexivity]. }
  beq_case a "format".
  { apply set_option_bind in H as [T ->]. exists (B "format"), TStr, (Some GenText.meta_formats).
    split; [reflexivity|]. split; [exact T|reflexivity]. }
  discriminate.
Qed.
Lemma set_dsec_ok : forall s a v s', set_dsec s a v = Ok s' -> dsec_upd s s' v.
Proof.
  intros s a v s' H. unfold set_dsec in H. cbv zeta in H.
  beq_case a "content".
  { destruct v; try discriminate. injection H as <-. left. eauto. }
  right.
  beq_case a "encoding".
  { apply set_option_bind in H as [T ->]. exists (B "encoding"), TStr, None.
    split; [reflexivity|]. split; [exact T|reflexivity]. }
  beq_case a "line_endings".
  { apply set_option_bind in H as [T ->]. exists (B "line_endings"), TStr, (Some GenText.line_endings_values).
    split; [reflexivity|]. split; [exact T|reflexivity]. }
  beq_case a "type".
  { apply set_option_bind in H as [T ->]. exists (B "type"), TStr, (Some GenText.diff_types).
    split; [reflexivity|]. split; [exact T|reflexivity]. }
  discriminate.
Qed.

(* the three containers: on success exactly one of the container's own options or one of its content sections is
   updated, by a value of the declared type and choice; everything else — in particular the list of children —
   is what it was *)
Theorem C19_set_ok_file : forall f name v f', set_file_attr f name v = Ok f' ->
  (typed_ok TStr None v /\ f' = {| f_opts := assoc_set beq (B "encoding") v (f_opts f); f_meta := f_meta f; f_diff := f_diff f |}) \/
  (exists m', msec_upd (f_meta f) m' v /\ f' = {| f_opts := f_opts f; f_meta := m'; f_diff := f_diff f |}) \/
  (exists d', dsec_upd (f_diff f) d' v /\ f' = {| f_opts := f_opts f; f_meta := f_meta f; f_diff := d' |}).
Proof.
  intros f name v f' H. unfold set_file_attr in H.
  beq_case name "encoding".
  { apply set_option_bind in H as [T ->]. left. auto. }
  destruct (forwarded "meta" name) as [a|].
  { inv_bind H. injection H as <-. right. left. exists x. split; auto. eapply set_msec_ok; eauto. }
  destruct (forwarded "diff" name) as [a|]; try discriminate.
  inv_bind H. injection H as <-. right. right. exists x. split; auto. eapply set_dsec_ok; eauto.
Qed.
Theorem C19_set_ok_change : forall c name v c', set_change_attr c name v = Ok c' ->
  c_files c' = c_files c /\
  ((typed_ok TStr None v /\
    c' = {| c_opts := assoc_set beq (B "encoding") v (c_opts c); c_pre := c_pre c; c_meta := c_meta c; c_files := c_files c |}) \/
   (exists m', msec_upd (c_meta c) m' v /\ c' = {| c_opts := c_opts c; c_pre := c_pre c; c_meta := m'; c_files := c_files c |}) \/
   (exists p', psec_upd (c_pre c) p' v /\ c' = {| c_opts := c_opts c; c_pre := p'; c_meta := c_meta c; c_files := c_files c |})).
Proof.
  intros c name v c' H. unfold set_change_attr in H.
  beq_case name "encoding".
  { apply set_option_bind in H as [T ->]. split; auto. }
  destruct (forwarded "meta" name) as [a|].
  { inv_bind H. injection H as <-. split; auto. right. left. exists x. split; auto. eapply set_msec_ok; eauto. }
  destruct (forwarded "preamble" name) as [a|]; try discriminate.
  inv_bind H. injection H as <-. split; auto. right. right. exists x. split; auto. eapply set_psec_ok; eauto.
Qed.
Theorem C19_set_ok_tree : forall t name v t', set_tree_attr t name v = Ok t' ->
  d_changes t' = d_changes t /\
  ((exists k ty ch, (k = B "encoding" /\ ty = TStr /\ ch = None \/ k = B "version" /\ ty = TStr /\ ch = Some GenText.versions) /\
      typed_ok ty ch v /\
      t' = {| d_opts := assoc_set beq k v (d_opts t); d_pre := d_pre t; d_meta := d_meta t; d_changes := d_changes t |}) \/
   (exists m', msec_upd (d_meta t) m' v /\ t' = {| d_opts := d_opts t; d_pre := d_pre t; d_meta := m'; d_changes := d_changes t |}) \/
   (exists p', psec_upd (d_pre t) p' v /\ t' = {| d_opts := d_opts t; d_pre := p'; d_meta := d_meta t; d_changes := d_changes t |})).
Proof.
  intros t name v t' H. unfold set_tree_attr in H.
  beq_case name "encoding".
  { apply set_option_bind in H as [T ->]. split; auto.
    left. exists (B "encoding"), TStr, None. auto. }
  beq_case name "version".
  { apply set_option_bind in H as [T ->]. split; auto.
    left. exists (B "version"), TStr, (Some GenText.versions). auto 6. }
  destruct (forwarded "meta" name) as [a|].
  { inv_bind H. injection H as <-. split; auto. right. left. exists x. split; auto. eapply set_msec_ok; eauto. }
  destruct (forwarded "preamble" name) as [a|]; try discriminate.
  inv_bind H. injection H as <-. split; auto. right. right. exists x. split; auto. eapply set_psec_ok; eauto.
Qed.

(* assignment at a path inside tree i (DomOps.set_at): the addressed container is updated by its setter, every other
   change / file stays what it was *)
Lemma upd_nth_spec : forall {A} i (f : A -> res A) l l', upd_nth i f l = Some (Ok l') ->
  exists x y, nth_error l i = Some x /\ f x = Ok y /\ nth_error l' i = Some y /\ length l' = length l /\
              forall j, j <> i -> nth_error l' j = nth_error l j.
Proof.
  intros A i f l l' H. destruct (upd_nth_target _ _ _ _ H) as (x & y & H1 & H2 & H3).
  exists x, y. repeat split; auto. eapply upd_nth_length; eauto. eapply upd_nth_frame; eauto.
Qed.
Theorem C19_set_ok_at : forall p name v t t', set_at p name v t = Some (Ok t') ->
  match p with
  | PMain => set_tree_attr t name v = Ok t'
  | PChange ci =>
      d_opts t' = d_opts t /\ d_pre t' = d_pre t /\ d_meta t' = d_meta t /\ length (d_changes t') = length (d_changes t) /\
      (forall j, j <> ci -> nth_error (d_changes t') j = nth_error (d_changes t) j) /\
      exists c c', nth_error (d_changes t) ci = Some c /\ nth_error (d_changes t') ci = Some c' /\ set_change_attr c name v = Ok c'
  | PFile ci fi =>
      d_opts t' = d_opts t /\ d_pre t' = d_pre t /\ d_meta t' = d_meta t /\ length (d_changes t') = length (d_changes t) /\
      (forall j, j <> ci -> nth_error (d_changes t') j = nth_error (d_changes t) j) /\
      exists c c', nth_error (d_changes t) ci = Some c /\ nth_error (d_changes t') ci = Some c' /\
        c_opts c' = c_opts c /\ c_pre c' = c_pre c /\ c_meta c' = c_meta c /\ length (c_files c') = length (c_files c) /\
        (forall j, j <> fi -> nth_error (c_files c') j = nth_error (c_files c) j) /\
        exists f f', nth_error (c_files c) fi = Some f /\ nth_error (c_files c') fi = Some f' /\ set_file_attr f name v = Ok f'
  end.
Proof.
  intros p name v t t' H. destruct p as [|ci|ci fi]; cbn in H.
  - injection H; auto.
  - unfold on_change in H. destruct (upd_nth ci _ (d_changes t)) as [r|] eqn:U; try discriminate.
    injection H as H. inv_bind H. injection H as <-. subst r. cbn.
    destruct (upd_nth_spec _ _ _ _ U) as (c & c' & N1 & S & N2 & L & F). repeat split; auto. eauto 6.
  - unfold on_file, on_change in H. destruct (upd_nth ci _ (d_changes t)) as [r|] eqn:U; try discriminate.
    injection H as H. inv_bind H. injection H as <-. subst r. cbn.
    destruct (upd_nth_spec _ _ _ _ U) as (c & c' & N1 & S & N2 & L & F). repeat split; auto.
    exists c, c'. repeat split; auto;
      destruct (upd_nth fi _ (c_files c)) as [r|] eqn:U2; try discriminate; inv_bind S; injection S as <-; subst r; cbn; auto;
      destruct (upd_nth_spec _ _ _ _ U2) as (f & f' & M1 & S2 & M2 & L2 & F2); auto. eauto 6.
Qed.

(* ---- constructors: unknown attribute names ---- *)
Lemma bstarts_skipn : forall p l, bstarts p l = true -> l = p ++ skipn (length p) l.
Proof.
  unfold bstarts. induction p as [|x p IH]; intros [|y l] H; cbn in *; try discriminate; auto.
  apply andb_true_iff in H as [H1 H2]. apply byte_dec_bl in H1. subst. f_equal. auto.
Qed.
Lemma forwarded_some : forall pre name a, forwarded pre name = Some a ->
  (name = B pre /\ a = B "content") \/ (name = B pre ++ B "_" ++ a /\ a <> B "content").
Proof.
  intros pre name a H. unfold forwarded in H.
  destruct (beq name (B pre)) eqn:E.
  - apply beq_eq in E. injection H as <-. auto.
  - destruct (bstarts (B pre ++ B "_") name) eqn:S; try discriminate.
    cbv zeta in H. destruct (beq _ (B "content")) eqn:C; try discriminate. injection H as <-.
    right. split.
    + apply bstarts_skipn in S. rewrite app_length in S. cbn [length B String.list_byte_of_string] in S.
      rewrite <- app_assoc in S. exact S.
    + intro F. rewrite F in C. rewrite beq_refl in C. discriminate.
Qed.

Definition msec_names : list bytes := [B "content"; B "encoding"; B "format"].
Definition psec_names : list bytes := [B "content"; B "encoding"; B "indent"; B "line_endings"; B "mimetype"].
Definition dsec_names : list bytes := [B "content"; B "encoding"; B "line_endings"; B "type"].
Lemma set_msec_unknown : forall s a v, ~ In a msec_names -> set_msec s a v = Err EAttribute.
Proof.
  intros s a v N. unfold set_msec. cbv zeta.
  repeat (rewrite beq_neq; [|intro; subst; apply N; cbn; tauto]). reflexivity.
Qed.
Lemma set_psec_unknown : forall s a v, ~ In a psec_names -> set_psec s a v = Err EAttribute.
Proof.
  intros s a v N. unfold set_psec. cbv zeta.
  repeat (rewrite beq_neq; [|intro; subst; apply N; cbn; tauto]). reflexivity.
Qed.
Lemma set_dsec_unknown : forall s a v, ~ In a dsec_names -> set_dsec s a v = Err EAttribute.
Proof.
  intros s a v N. unfold set_dsec. cbv zeta.
  repeat (rewrite beq_neq; [|intro; subst; apply N; cbn; tauto]). reflexivity.
Qed.

(* the attribute names of the three container classes (dom/properties.py mixins) *)
Definition file_attr_names : list bytes :=
  [B "encoding"; B "meta"; B "meta_encoding"; B "meta_format"; B "diff"; B "diff_encoding"; B "diff_line_endings"; B "diff_type"].
Definition change_attr_names : list bytes :=
  [B "encoding"; B "meta"; B "meta_encoding"; B "meta_format";
   B "preamble"; B "preamble_encoding"; B "preamble_indent"; B "preamble_line_endings"; B "preamble_mimetype"].
Definition tree_attr_names : list bytes := B "version" :: change_attr_names.

(* a forwarded name that is not in the list of names reaches a content section with an attribute it does not have *)
Lemma forwarded_unknown : forall pre name a (names sec_names : list bytes),
  forwarded pre name = Some a -> ~ In name names ->
  In (B pre) names -> (forall x, In x sec_names -> x <> B "content" -> In (B pre ++ B "_" ++ x) names) ->
  ~ In a sec_names.
Proof.
  intros pre name a names sec_names F N P Q I.
  destruct (forwarded_some _ _ _ F) as [[-> ->]|[-> C]]; auto.
Qed.

Lemma set_file_attr_unknown : forall f name v, ~ In name file_attr_names -> set_file_attr f name v = Err EAttribute.
Proof.
  intros f name v N. unfold set_file_attr.
  rewrite beq_neq by (intro; subst; apply N; cbn; tauto).
  destruct (forwarded "meta" name) as [a|] eqn:F1.
  { rewrite set_msec_unknown; auto. eapply forwarded_unknown; eauto; [cbn; tauto|].
    intros x I C. cbn in I. destruct I as [<-|[<-|[<-|[]]]]; try congruence; vm_compute; tauto. }
  destruct (forwarded "diff" name) as [a|] eqn:F2; auto.
  rewrite set_dsec_unknown; auto. eapply forwarded_unknown; eauto; [cbn; tauto|].
  intros x I C. cbn in I. destruct I as [<-|[<-|[<-|[<-|[]]]]]; try congruence; vm_compute; tauto.
Qed.
Lemma set_change_attr_unknown : forall c name v, ~ In name change_attr_names -> set_change_attr c name v = Err EAttribute.
Proof.
  intros c name v N. unfold set_change_attr.
  rewrite beq_neq by (intro; subst; apply N; cbn; tauto).
  destruct (forwarded "meta" name) as [a|] eqn:F1.
  { rewrite set_msec_unknown; auto. eapply forwarded_unknown; eauto; [cbn; tauto|].
    intros x I C. cbn in I. destruct I as [<-|[<-|[<-|[]]]]; try congruence; vm_compute; tauto. }
  destruct (forwarded "preamble" name) as [a|] eqn:F2; auto.
  rewrite set_psec_unknown; auto. eapply forwarded_unknown; eauto; [cbn; tauto|].
  intros x I C. cbn in I. destruct I as [<-|[<-|[<-|[<-|[<-|[]]]]]]; try congruence; vm_compute; tauto.
Qed.
Lemma set_tree_attr_unknown : forall t name v, ~ In name tree_attr_names -> set_tree_attr t name v = Err EAttribute.
Proof.
  intros t name v N. unfold set_tree_attr.
  rewrite beq_neq by (intro; subst; apply N; cbn; tauto).
  rewrite beq_neq by (intro; subst; apply N; cbn; tauto).
  destruct (forwarded "meta" name) as [a|] eqn:F1.
  { rewrite set_msec_unknown; auto. eapply forwarded_unknown; eauto; [cbn; tauto|].
    intros x I C. cbn in I. destruct I as [<-|[<-|[<-|[]]]]; try congruence; vm_compute; tauto. }
  destruct (forwarded "preamble" name) as [a|] eqn:F2; auto.
  rewrite set_psec_unknown; auto. eapply forwarded_unknown; eauto; [cbn; tauto|].
  intros x I C. cbn in I. destruct I as [<-|[<-|[<-|[<-|[<-|[]]]]]]; try congruence; vm_compute; tauto.
Qed.

Lemma apply_attrs_app : forall {T} (set : T -> bytes -> wv -> res T) a b x,
  apply_attrs set x (a ++ b) = do x' <- apply_attrs set x a; apply_attrs set x' b.
Proof.
  induction a as [|[k v] a IH]; intros b x; cbn; auto.
  destruct (unknown_to_lib (set x k v)); cbn; auto.
Qed.
Lemma apply_attrs_unknown : forall {T} (set : T -> bytes -> wv -> res T) (names : list bytes) x0 pre k v post x1,
  (forall x name v, ~ In name names -> set x name v = Err EAttribute) ->
  apply_attrs set x0 pre = Ok x1 -> ~ In k names ->
  apply_attrs set x0 (pre ++ (k, v) :: post) = Err ELibUnknownOption.
Proof.
  intros T set names x0 pre k v post x1 U A N. rewrite apply_attrs_app, A. cbn. rewrite U; auto.
Qed.
(* an attribute name the class does not have makes the constructor raise DiffXUnknownOptionError
   (when the attributes before it were accepted; otherwise the first rejected one raises) *)
Theorem C19_ctor_unknown : forall pre k v post,
  (forall c1, apply_attrs set_change_attr new_change pre = Ok c1 -> ~ In k change_attr_names ->
              apply_attrs set_change_attr new_change (pre ++ (k, v) :: post) = Err ELibUnknownOption) /\
  (forall f1, apply_attrs set_file_attr new_file pre = Ok f1 -> ~ In k file_attr_names ->
              apply_attrs set_file_attr new_file (pre ++ (k, v) :: post) = Err ELibUnknownOption) /\
  (forall t1, apply_attrs set_tree_attr new_tree pre = Ok t1 -> ~ In k tree_attr_names ->
              apply_attrs set_tree_attr new_tree (pre ++ (k, v) :: post) = Err ELibUnknownOption).
Proof.
  intros; repeat split; intros.
  - eapply apply_attrs_unknown; eauto. apply set_change_attr_unknown.
  - eapply apply_attrs_unknown; eauto. apply set_file_attr_unknown.
  - eapply apply_attrs_unknown; eauto. apply set_tree_attr_unknown.
Qed.
(* in any case the constructor never succeeds when some attribute name is unknown *)
Lemma apply_attrs_never_ok : forall {T} (set : T -> bytes -> wv -> res T) (names : list bytes) attrs x0 x1,
  (forall x name v, ~ In name names -> set x name v = Err EAttribute) ->
  apply_attrs set x0 attrs = Ok x1 -> forall k, In k (map fst attrs) -> In k names.
Proof.
  induction attrs as [|[k0 v0] attrs IH]; cbn; intros x0 x1 U A k I; [tauto|].
  destruct (in_dec (list_eq_dec Byte.byte_eq_dec) k0 names) as [Y|Nn].
  - destruct I as [<-|I]; auto. destruct (unknown_to_lib (set x0 k0 v0)) eqn:E; cbn in A; try discriminate. eapply IH; eauto.
  - rewrite U in A by auto. discriminate.
Qed.
Theorem C19_ctor_names : forall attrs c, apply_attrs set_change_attr new_change attrs = Ok c ->
  forall k, In k (map fst attrs) -> In k change_attr_names.
Proof. intros. eapply apply_attrs_never_ok; eauto. apply set_change_attr_unknown. Qed.

(* ================================================================================================ *)
(* C19 — structural equality                                                                         *)
(* ================================================================================================ *)
(* ---- Python's dict == dict, generically: same number of keys, every key of a is in b with an equal value ---- *)
Section DictEq.
  Context {K V : Type} (eqb : K -> K -> bool) (eqb_spec : forall a b, eqb a b = true <-> a = b) (R : V -> V -> bool).

  Definition dict_sub (b a : list (K * V)) : bool :=
    forallb (fun p => match assoc_get eqb (fst p) b with Some w => R (snd p) w | None => false end) a.
  Definition dict_eqb (a b : list (K * V)) : bool := Nat.eqb (length a) (length b) && dict_sub b a.
  (* the meaning: same key set, related values under every key *)
  Definition dict_rel (a b : list (K * V)) : Prop :=
    (forall k, In k (map fst a) <-> In k (map fst b)) /\
    (forall k v w, assoc_get eqb k a = Some v -> assoc_get eqb k b = Some w -> R v w = true).

  Lemma aget_some_key : forall k (a : list (K * V)) v, assoc_get eqb k a = Some v -> In k (map fst a).
  Proof. intros k a v H. apply (aget_In eqb eqb_spec) in H. apply (in_map fst) in H. exact H. Qed.
  Lemma key_aget_some : forall k (a : list (K * V)), In k (map fst a) -> exists v, assoc_get eqb k a = Some v.
  Proof.
    intros k a H. destruct (assoc_get eqb k a) eqn:E; eauto.
    apply (aget_None_notin eqb eqb_spec) in E. contradiction.
  Qed.
  Lemma nodup_aget : forall (a : list (K * V)) k v, NoDup (map fst a) -> In (k, v) a -> assoc_get eqb k a = Some v.
  Proof.
    induction a as [|[k0 v0] a IH]; cbn; intros k v ND I; [tauto|].
    inversion ND as [|? ? N1 N2]; subst. destruct I as [I|I].
    - injection I as -> ->. rewrite (eqb_rfl eqb eqb_spec). reflexivity.
    - rewrite (eqb_ne eqb eqb_spec).
      + apply IH; auto.
      + intro; subst. apply N1. apply (in_map fst) in I. exact I.
  Qed.

  Lemma dict_eqb_iff : forall a b, NoDup (map fst a) -> NoDup (map fst b) -> (dict_eqb a b = true <-> dict_rel a b).
  Proof.
    intros a b Na Nb. unfold dict_eqb, dict_sub. rewrite andb_true_iff, Nat.eqb_eq, forallb_forall. split.
    - intros [L F].
      assert (I1 : incl (map fst a) (map fst b)).
      { intros k I. apply in_map_iff in I. destruct I as ([k' v] & <- & I). specialize (F _ I). cbn in F.
        destruct (assoc_get eqb k' b) eqn:E; try discriminate. eapply aget_some_key; eauto. }
      assert (I2 : incl (map fst b) (map fst a)).
      { apply NoDup_length_incl; auto. rewrite !map_length. lia. }
      split.
      + intro k. split; [apply I1 | apply I2].
      + intros k v w A Bk. apply (aget_In eqb eqb_spec) in A. specialize (F _ A). cbn in F. rewrite Bk in F. exact F.
    - intros [KS PW]. split.
      + apply Nat.le_antisymm; rewrite <- (map_length fst a), <- (map_length fst b); apply NoDup_incl_length; auto;
          intros k I; apply KS; auto.
      + intros [k v] I. cbn. pose proof (nodup_aget _ _ _ Na I) as A.
        destruct (key_aget_some k b) as [w Bk]. { apply KS. eapply aget_some_key; eauto. }
        rewrite Bk. eapply PW; eauto.
  Qed.

  (* one assignment d[k] = new with a value that is not == the old one (or under a new key) makes the dicts unequal;
     no uniqueness assumption is needed *)
  Lemma dict_eqb_perturb : forall a k new,
    match assoc_get eqb k a with Some old => R old new = false | None => True end ->
    dict_eqb a (assoc_set eqb k new a) = false.
  Proof.
    intros a k new H. unfold dict_eqb. destruct (assoc_get eqb k a) as [old|] eqn:E.
    - apply andb_false_iff. right. unfold dict_sub.
      destruct (forallb _ a) eqn:F; auto. rewrite forallb_forall in F.
      apply (aget_In eqb eqb_spec) in E. specialize (F _ E). cbn in F.
      rewrite (aget_set_same eqb eqb_spec) in F. congruence.
    - apply (aget_None_notin eqb eqb_spec) in E. rewrite (aset_keys_absent eqb eqb_spec) by auto.
      rewrite app_length. cbn. apply andb_false_iff. left. apply Nat.eqb_neq. lia.
  Qed.
End DictEq.

Lemma dopts_eq_dict : forall a b, dopts_eq a b = dict_eqb beq wv_eq a b.
Proof. reflexivity. Qed.

Lemma keys_unique_NoDup : forall o, keys_unique o = true <-> NoDup (map fst o).
Proof.
  induction o as [|[k v] o IH]; cbn.
  - split; auto. constructor.
  - rewrite andb_true_iff, negb_true_iff, IH. split.
    + intros [E N]. constructor; auto. intro I. apply in_map_iff in I. destruct I as ([k' v'] & <- & I).
      assert (X : existsb (fun p => beq k' (fst p)) o = true); [|cbn in *; congruence].
      apply existsb_exists. exists (k', v'). split; auto. apply beq_refl.
    + intro ND. inversion ND as [|? ? N1 N2]; subst. split; auto.
      destruct (existsb _ o) eqn:E; auto. apply existsb_exists in E. destruct E as ([k' v'] & I & E).
      apply beq_eq in E. cbn in E. subst. exfalso. apply N1. apply (in_map fst) in I. exact I.
Qed.

(* ---- JSON values: induction principle, Python == ---- *)
Section JsonInd.
  Variable P : json -> Prop.
  Hypothesis HNull : P JNull.
  Hypothesis HBool : forall b, P (JBool b).
  Hypothesis HInt : forall z, P (JInt z).
  Hypothesis HFloat : forall r, P (JFloat r).
  Hypothesis HStr : forall s, P (JStr s).
  Hypothesis HList : forall l, Forall P l -> P (JList l).
  Hypothesis HObj : forall kv, Forall (fun p => P (snd p)) kv -> P (JObj kv).
  Hypothesis HBad : P JBad.
  Fixpoint json_ind' (j : json) : P j :=
    match j with
    | JNull => HNull | JBool b => HBool b | JInt z => HInt z | JFloat r => HFloat r | JStr s => HStr s | JBad => HBad
    | JList l => HList l ((fix go (l : list json) : Forall P l :=
                             match l with [] => Forall_nil _ | x :: t => Forall_cons x (json_ind' x) (go t) end) l)
    | JObj kv => HObj kv ((fix go (l : list (text * json)) : Forall (fun p => P (snd p)) l :=
                             match l with [] => Forall_nil _ | (k, v) :: t => Forall_cons (k, v) (json_ind' v) (go t) end) kv)
    end.
End JsonInd.

Lemma json_eq_list : forall x y, json_eq (JList x) (JList y) = list_eq2 json_eq x y.
Proof. induction x as [|p x IH]; destruct y as [|q y]; try reflexivity. cbn [list_eq2]. rewrite <- IH. reflexivity. Qed.
Definition jobj_go (y : list (text * json)) : list (text * json) -> bool :=
  fix go (x : list (text * json)) : bool :=
    match x with
    | [] => true
    | (k, v) :: x' => (match assoc_get teq k y with Some w => json_eq v w | None => false end) && go x'
    end.
Lemma json_eq_obj : forall x y, json_eq (JObj x) (JObj y) = dict_eqb teq json_eq x y.
Proof.
  intros x y. change (json_eq (JObj x) (JObj y)) with (Nat.eqb (length x) (length y) && jobj_go y x).
  unfold dict_eqb. f_equal. induction x as [|[k v] x IH]; cbn; auto. rewrite IH. reflexivity.
Qed.

(* a predicate on every node of a JSON value *)
Fixpoint json_all (P : json -> bool) (j : json) : bool :=
  P j && match j with
         | JList l => forallb (json_all P) l
         | JObj kv => forallb (fun p => json_all P (snd p)) kv
         | _ => true
         end.
Fixpoint tkeys_unique {V} (o : list (text * V)) : bool :=
  match o with [] => true | (k, _) :: t => negb (existsb (fun p => teq k (fst p)) t) && tkeys_unique t end.
Lemma tkeys_unique_NoDup : forall {V} (o : list (text * V)), tkeys_unique o = true <-> NoDup (map fst o).
Proof.
  induction o as [|[k v] o IH]; cbn.
  - split; auto. constructor.
  - rewrite andb_true_iff, negb_true_iff, IH. split.
    + intros [E N]. constructor; auto. intro I. apply in_map_iff in I. destruct I as ([k' v'] & <- & I).
      assert (X : existsb (fun p => teq k' (fst p)) o = true); [|cbn in *; congruence].
      apply existsb_exists. exists (k', v'). split; auto. apply teq_refl.
    + intro ND. inversion ND as [|? ? N1 N2]; subst. split; auto.
      destruct (existsb _ o) eqn:E; auto. apply existsb_exists in E. destruct E as ([k' v'] & I & E).
      apply teq_eq in E. cbn in E. subst. exfalso. apply N1. apply (in_map fst) in I. exact I.
Qed.
(* dict keys are unique (always true of a Python dict; a condition on model values) *)
Definition json_keys_ok : json -> bool := json_all (fun j => match j with JObj kv => tkeys_unique kv | _ => true end).
(* no value that json.dumps rejects — such a value is modelled as not even equal to itself *)
Definition json_nobad : json -> bool := json_all (fun j => match j with JBad => false | _ => true end).
(* no boolean anywhere (so that Python's True == 1 cannot arise) *)
Definition json_nobool : json -> bool := json_all (fun j => match j with JBool _ | JBad => false | _ => true end).

Lemma json_all_list : forall P l, json_all P (JList l) = true -> Forall (fun x => json_all P x = true) l.
Proof. intros P l H. cbn in H. apply andb_true_iff in H as [_ H]. rewrite forallb_forall in H. apply Forall_forall. auto. Qed.
Lemma json_all_obj : forall P kv, json_all P (JObj kv) = true -> Forall (fun p => json_all P (snd p) = true) kv.
Proof. intros P l H. cbn in H. apply andb_true_iff in H as [_ H]. rewrite forallb_forall in H. apply Forall_forall. auto. Qed.
Lemma json_all_here : forall P j, json_all P j = true -> P j = true.
Proof. intros P j H. destruct j; cbn in H; apply andb_true_iff in H as [H _]; auto. Qed.

Lemma list_eq2_refl : forall {A} (eq : A -> A -> bool) l, Forall (fun x => eq x x = true) l -> list_eq2 eq l l = true.
Proof. induction 1; cbn; auto. rewrite H, IHForall. reflexivity. Qed.
Lemma list_eq2_sym : forall {A} (eq : A -> A -> bool) l l', Forall (fun x => forall y, eq x y = eq y x) l ->
  list_eq2 eq l l' = list_eq2 eq l' l.
Proof.
  intros A eq l l' F. revert l'. induction F as [|x l Hx F IH]; destruct l' as [|y l']; cbn; auto.
  rewrite Hx, IH. reflexivity.
Qed.
Lemma list_eq2_Forall2 : forall {A} (eq : A -> A -> bool) l l', list_eq2 eq l l' = true <-> Forall2 (fun x y => eq x y = true) l l'.
Proof.
  induction l as [|x l IH]; destruct l' as [|y l']; cbn.
  - split; auto.
  - split; [discriminate | intro H; inversion H].
  - split; [discriminate | intro H; inversion H].
  - rewrite andb_true_iff, IH. split.
    + intros [HA HB]. constructor; auto.
    + intro H. inversion H; subst. auto.
Qed.

Lemma dict_rel_refl : forall {K V} (eqb : K -> K -> bool) (R : V -> V -> bool) (a : list (K * V)),
  (forall k v, assoc_get eqb k a = Some v -> R v v = true) -> dict_rel eqb R a a.
Proof. intros. split; [tauto|]. intros k v w A Bk. rewrite A in Bk. injection Bk as <-. eauto. Qed.
Lemma dict_rel_sym : forall {K V} (eqb : K -> K -> bool) (R : V -> V -> bool) (a b : list (K * V)),
  (forall k v w, assoc_get eqb k a = Some v -> R w v = R v w) -> dict_rel eqb R a b -> dict_rel eqb R b a.
Proof.
  intros K V eqb R a b S [KS PW]. split.
  - intro k. symmetry. apply KS.
  - intros k w v Bk A. rewrite (S k v w A). eauto.
Qed.

Lemma json_eq_refl : forall j, json_keys_ok j = true -> json_nobad j = true -> json_eq j j = true.
Proof.
  induction j using json_ind'; intros KO NB; cbn; auto.
  - apply Bool.eqb_reflx.
  - apply Z.eqb_refl.
  - apply beq_refl.
  - apply teq_refl.
  - change (json_eq (JList l) (JList l) = true). rewrite json_eq_list. apply list_eq2_refl.
    apply json_all_list in KO, NB. rewrite Forall_forall in *. auto.
  - change (json_eq (JObj kv) (JObj kv) = true). rewrite json_eq_obj.
    pose proof (json_all_here _ _ KO) as U. cbn in U. apply tkeys_unique_NoDup in U.
    apply (dict_eqb_iff teq teq_eq json_eq); auto. apply dict_rel_refl.
    intros k v A. apply (aget_In teq teq_eq) in A.
    apply json_all_obj in KO, NB. rewrite Forall_forall in *. apply (H (k, v)); auto; try (apply (KO (k, v)); auto); try (apply (NB (k, v)); auto).
Qed.

Lemma json_eq_sym : forall a, json_keys_ok a = true -> forall b, json_keys_ok b = true -> json_eq a b = json_eq b a.
Proof.
  induction a using json_ind'; intros KA j KB; destruct j; try reflexivity.
  - cbn. destruct b, b0; reflexivity.
  - cbn. apply Z.eqb_sym.
  - cbn. apply Z.eqb_sym.
  - cbn. apply Z.eqb_sym.
  - cbn. apply beq_sym.
  - cbn. apply teq_sym.
  - rewrite !json_eq_list. apply json_all_list in KA, KB. clear -H KA KB. revert l0 KB.
    induction H as [|x l Hx F IH]; intros [|y l0] KB; cbn; auto.
    inversion KA; subst. inversion KB; subst. rewrite Hx, IH; auto.
  - rewrite !json_eq_obj.
    pose proof (json_all_here _ _ KA) as UA. cbn in UA. apply tkeys_unique_NoDup in UA.
    pose proof (json_all_here _ _ KB) as UB. cbn in UB. apply tkeys_unique_NoDup in UB.
    apply json_all_obj in KA, KB. rewrite Forall_forall in H, KA, KB.
    assert (S1 : forall k v w, assoc_get teq k kv = Some v -> assoc_get teq k kv0 = Some w -> json_eq w v = json_eq v w).
    { intros k v w A Bk. apply (aget_In teq teq_eq) in A, Bk. symmetry. apply (H (k, v)); auto; try (apply (KA (k, v)); auto); try (apply (KB (k, w)); auto). }
    destruct (dict_eqb teq json_eq kv kv0) eqn:E1; destruct (dict_eqb teq json_eq kv0 kv) eqn:E2; auto.
    + apply (dict_eqb_iff teq teq_eq json_eq) in E1; auto.
      assert (X : dict_rel teq json_eq kv0 kv); [|apply (dict_eqb_iff teq teq_eq json_eq) in X; auto; congruence].
      destruct E1 as [KS PW]. split; [intro; symmetry; apply KS|]. intros k w v Bk A. rewrite (S1 k v w A Bk). eauto.
    + apply (dict_eqb_iff teq teq_eq json_eq) in E2; auto.
      assert (X : dict_rel teq json_eq kv kv0); [|apply (dict_eqb_iff teq teq_eq json_eq) in X; auto; congruence].
      destruct E2 as [KS PW]. split; [intro; symmetry; apply KS|]. intros k v w A Bk. rewrite <- (S1 k v w A Bk). eauto.
Qed.

(* ---- values in option dicts ---- *)
Definition wv_keys_ok (v : wv) : bool := match v with WDict j => json_keys_ok j | _ => true end.
Definition wv_clean (v : wv) : bool :=
  match v with WOther => false | WDict j => json_keys_ok j && json_nobad j | _ => true end.

Lemma wv_eq_refl : forall v, wv_clean v = true -> wv_eq v v = true.
Proof.
  destruct v; cbn; intro H; auto; try discriminate.
  - apply Bool.eqb_reflx. - apply Z.eqb_refl. - apply teq_refl. - apply beq_refl.
  - apply andb_true_iff in H as [H1 H2]. apply json_eq_refl; auto.
Qed.
Lemma wv_eq_sym : forall a b, wv_keys_ok a = true -> wv_keys_ok b = true -> wv_eq a b = wv_eq b a.
Proof.
  intros a b; destruct a, b; cbn; intros KA KB; auto;
    try apply Z.eqb_sym; try apply teq_sym; try apply beq_sym; try (apply json_eq_sym; auto; fail).
  repeat match goal with x : bool |- _ => destruct x end; reflexivity.
Qed.

(* ---- predicates on every options dict / metadata dict of a tree ---- *)
Definition file_all (Po : dopts -> bool) (Pm : list (text * json) -> bool) (f : dfile) : bool :=
  Po (f_opts f) && Po (m_opts (f_meta f)) && Pm (m_content (f_meta f)) && Po (x_opts (f_diff f)).
Definition change_all (Po : dopts -> bool) (Pm : list (text * json) -> bool) (c : dchange) : bool :=
  Po (c_opts c) && Po (p_opts (c_pre c)) && Po (m_opts (c_meta c)) && Pm (m_content (c_meta c)) &&
  forallb (file_all Po Pm) (c_files c).
Definition tree_all (Po : dopts -> bool) (Pm : list (text * json) -> bool) (t : dtree) : bool :=
  Po (d_opts t) && Po (p_opts (d_pre t)) && Po (m_opts (d_meta t)) && Pm (m_content (d_meta t)) &&
  forallb (change_all Po Pm) (d_changes t).

(* every options dict has unique keys (true of any Python dict) *)
Definition tree_unique : dtree -> bool := tree_all keys_unique (fun _ => true).
(* ... and so has every dict inside the metadata and inside option values *)
Definition opts_wf (o : dopts) : bool := keys_unique o && forallb (fun p => wv_keys_ok (snd p)) o.
Definition tree_wf : dtree -> bool := tree_all opts_wf (fun m => json_keys_ok (JObj m)).
(* ... and no value is an object json.dumps rejects / an unmodelled object (modelled as unequal to itself) *)
Definition opts_clean (o : dopts) : bool := keys_unique o && forallb (fun p => wv_clean (snd p)) o.
Definition tree_clean : dtree -> bool := tree_all opts_clean (fun m => json_keys_ok (JObj m) && json_nobad (JObj m)).

Ltac bsplit H := repeat match type of H with (_ && _ = true) => let H' := fresh H in apply andb_true_iff in H as [H H'] end.

Lemma dopts_eq_refl : forall o, opts_clean o = true -> dopts_eq o o = true.
Proof.
  intros o H. unfold opts_clean in H. apply andb_true_iff in H as [U C]. apply keys_unique_NoDup in U.
  rewrite dopts_eq_dict. apply (dict_eqb_iff beq beq_eq wv_eq); auto. apply dict_rel_refl.
  intros k v A. apply (aget_In beq beq_eq) in A. rewrite forallb_forall in C. apply wv_eq_refl. apply (C (k, v)); auto.
Qed.
Lemma dopts_eq_sym : forall a b, opts_wf a = true -> opts_wf b = true -> dopts_eq a b = dopts_eq b a.
Proof.
  intros a b HA HB. unfold opts_wf in *. apply andb_true_iff in HA as [UA CA]. apply andb_true_iff in HB as [UB CB].
  apply keys_unique_NoDup in UA, UB. rewrite forallb_forall in CA, CB. rewrite !dopts_eq_dict.
  assert (S1 : forall k v w, assoc_get beq k a = Some v -> assoc_get beq k b = Some w -> wv_eq w v = wv_eq v w).
  { intros k v w A Bk. apply (aget_In beq beq_eq) in A, Bk. apply wv_eq_sym; [apply (CB (k, w)) | apply (CA (k, v))]; auto. }
  destruct (dict_eqb beq wv_eq a b) eqn:E1; destruct (dict_eqb beq wv_eq b a) eqn:E2; auto.
  - apply (dict_eqb_iff beq beq_eq wv_eq) in E1; auto.
    assert (X : dict_rel beq wv_eq b a); [|apply (dict_eqb_iff beq beq_eq wv_eq) in X; auto; congruence].
    destruct E1 as [KS PW]. split; [intro; symmetry; apply KS|]. intros k w v Bk A. rewrite (S1 k v w A Bk). eauto.
  - apply (dict_eqb_iff beq beq_eq wv_eq) in E2; auto.
    assert (X : dict_rel beq wv_eq a b); [|apply (dict_eqb_iff beq beq_eq wv_eq) in X; auto; congruence].
    destruct E2 as [KS PW]. split; [intro; symmetry; apply KS|]. intros k v w A Bk. rewrite <- (S1 k v w A Bk). eauto.
Qed.
Lemma opt_text_eq_iff : forall a b, opt_text_eq a b = true <-> a = b.
Proof.
  destruct a, b; cbn; try (split; [discriminate|discriminate]); try tauto.
  rewrite teq_eq. split; [intros ->; auto | intro H; injection H; auto].
Qed.
Lemma opt_bytes_eq_iff : forall a b, opt_bytes_eq a b = true <-> a = b.
Proof.
  destruct a, b; cbn; try (split; [discriminate|discriminate]); try tauto.
  rewrite beq_eq. split; [intros ->; auto | intro H; injection H; auto].
Qed.
Lemma opt_text_eq_sym : forall a b, opt_text_eq a b = opt_text_eq b a.
Proof. destruct a, b; cbn; auto. apply teq_sym. Qed.
Lemma opt_bytes_eq_sym : forall a b, opt_bytes_eq a b = opt_bytes_eq b a.
Proof. destruct a, b; cbn; auto. apply beq_sym. Qed.

(* ---- C19_eq_refl ---- *)
Lemma file_eq_refl : forall f, file_all opts_clean (fun m => json_keys_ok (JObj m) && json_nobad (JObj m)) f = true -> file_eq f f = true.
Proof.
  intros f H. unfold file_all in H. bsplit H. apply andb_true_iff in H1 as [K N].
  unfold file_eq, msec_eq, dsec_eq. rewrite !dopts_eq_refl, json_eq_refl by auto.
  cbn. apply opt_bytes_eq_iff. reflexivity.
Qed.
Lemma change_eq_refl : forall c, change_all opts_clean (fun m => json_keys_ok (JObj m) && json_nobad (JObj m)) c = true -> change_eq c c = true.
Proof.
  intros c H. unfold change_all in H. bsplit H. apply andb_true_iff in H1 as [K N].
  unfold change_eq, msec_eq, psec_eq. rewrite !dopts_eq_refl, json_eq_refl by auto.
  replace (opt_text_eq (p_content (c_pre c)) (p_content (c_pre c))) with true by (symmetry; apply opt_text_eq_iff; auto).
  cbn. apply list_eq2_refl. rewrite forallb_forall in H0. apply Forall_forall. intros f I. apply file_eq_refl; auto.
Qed.
Theorem C19_eq_refl : forall t, tree_clean t = true -> tree_eq t t = true.
Proof.
  intros t H. unfold tree_clean, tree_all in H. bsplit H. apply andb_true_iff in H1 as [K N].
  unfold tree_eq, msec_eq, psec_eq. rewrite !dopts_eq_refl, json_eq_refl by auto.
  replace (opt_text_eq (p_content (d_pre t)) (p_content (d_pre t))) with true by (symmetry; apply opt_text_eq_iff; auto).
  cbn. apply list_eq2_refl. rewrite forallb_forall in H0. apply Forall_forall. intros c I. apply change_eq_refl; auto.
Qed.

(* ---- C19_eq_sym ---- *)
Lemma list_eq2_sym2 : forall {A} (eq : A -> A -> bool) (P : A -> bool) l l',
  (forall x y, P x = true -> P y = true -> eq x y = eq y x) -> forallb P l = true -> forallb P l' = true ->
  list_eq2 eq l l' = list_eq2 eq l' l.
Proof.
  intros A eq P l l' S. revert l'. induction l as [|x l IH]; destruct l' as [|y l']; cbn; auto.
  intros H1 H2. apply andb_true_iff in H1 as [? ?]. apply andb_true_iff in H2 as [? ?]. rewrite S, IH; auto.
Qed.
Lemma file_eq_sym : forall a b, file_all opts_wf (fun m => json_keys_ok (JObj m)) a = true ->
  file_all opts_wf (fun m => json_keys_ok (JObj m)) b = true -> file_eq a b = file_eq b a.
Proof.
  intros a b HA HB. unfold file_all in *. bsplit HA. bsplit HB. unfold file_eq, msec_eq, dsec_eq.
  rewrite (dopts_eq_sym (f_opts a)), (dopts_eq_sym (m_opts (f_meta a))), (dopts_eq_sym (x_opts (f_diff a))) by auto.
  rewrite (json_eq_sym (JObj (m_content (f_meta a)))) by auto. rewrite (opt_bytes_eq_sym (x_content (f_diff a))). reflexivity.
Qed.
Lemma change_eq_sym : forall a b, change_all opts_wf (fun m => json_keys_ok (JObj m)) a = true ->
  change_all opts_wf (fun m => json_keys_ok (JObj m)) b = true -> change_eq a b = change_eq b a.
Proof.
  intros a b HA HB. unfold change_all in *. bsplit HA. bsplit HB. unfold change_eq, msec_eq, psec_eq.
  rewrite (dopts_eq_sym (c_opts a)), (dopts_eq_sym (m_opts (c_meta a))), (dopts_eq_sym (p_opts (c_pre a))) by auto.
  rewrite (json_eq_sym (JObj (m_content (c_meta a)))) by auto. rewrite (opt_text_eq_sym (p_content (c_pre a))).
  f_equal. eapply list_eq2_sym2; eauto. apply file_eq_sym.
Qed.
Theorem C19_eq_sym : forall a b, tree_wf a = true -> tree_wf b = true -> tree_eq a b = tree_eq b a.
Proof.
  intros a b HA HB. unfold tree_wf, tree_all in *. bsplit HA. bsplit HB. unfold tree_eq, msec_eq, psec_eq.
  rewrite (dopts_eq_sym (d_opts a)), (dopts_eq_sym (m_opts (d_meta a))), (dopts_eq_sym (p_opts (d_pre a))) by auto.
  rewrite (json_eq_sym (JObj (m_content (d_meta a)))) by auto. rewrite (opt_text_eq_sym (p_content (d_pre a))).
  f_equal. eapply list_eq2_sym2; eauto. apply change_eq_sym.
Qed.

(* ---- C19_eq_strict_iff: tree_eq means same shape and, section by section, equal options and content ---- *)
Definition dopts_same : dopts -> dopts -> Prop := dict_rel beq wv_eq.
Definition psec_same (a b : psec) : Prop := dopts_same (p_opts a) (p_opts b) /\ p_content a = p_content b.
Definition msec_same (a b : msec) : Prop :=
  dopts_same (m_opts a) (m_opts b) /\ json_eq (JObj (m_content a)) (JObj (m_content b)) = true.
Definition dsec_same (a b : dsec) : Prop := dopts_same (x_opts a) (x_opts b) /\ x_content a = x_content b.
Definition file_same (a b : dfile) : Prop :=
  dopts_same (f_opts a) (f_opts b) /\ msec_same (f_meta a) (f_meta b) /\ dsec_same (f_diff a) (f_diff b).
Definition change_same (a b : dchange) : Prop :=
  dopts_same (c_opts a) (c_opts b) /\ psec_same (c_pre a) (c_pre b) /\ msec_same (c_meta a) (c_meta b) /\
  Forall2 file_same (c_files a) (c_files b).
Definition tree_same (a b : dtree) : Prop :=
  dopts_same (d_opts a) (d_opts b) /\ psec_same (d_pre a) (d_pre b) /\ msec_same (d_meta a) (d_meta b) /\
  Forall2 change_same (d_changes a) (d_changes b).

Lemma dopts_eq_iff : forall a b, keys_unique a = true -> keys_unique b = true -> (dopts_eq a b = true <-> dopts_same a b).
Proof. intros a b UA UB. apply keys_unique_NoDup in UA, UB. rewrite dopts_eq_dict. apply (dict_eqb_iff beq beq_eq wv_eq); auto. Qed.
Lemma list_eq2_iff : forall {A} (eq : A -> A -> bool) (S : A -> A -> Prop) (P : A -> bool) l l',
  (forall x y, P x = true -> P y = true -> (eq x y = true <-> S x y)) -> forallb P l = true -> forallb P l' = true ->
  (list_eq2 eq l l' = true <-> Forall2 S l l').
Proof.
  intros A eq S P l l' E. revert l'. induction l as [|x l IH]; destruct l' as [|y l']; cbn; intros H1 H2.
  - split; auto.
  - split; [discriminate | intro H; inversion H].
  - split; [discriminate | intro H; inversion H].
  - apply andb_true_iff in H1 as [? ?]. apply andb_true_iff in H2 as [? ?]. rewrite andb_true_iff, IH, E by auto. split.
    + intros [HA HB]. constructor; auto.
    + intro H3. inversion H3; subst. auto.
Qed.
Lemma file_eq_iff : forall a b, file_all keys_unique (fun _ => true) a = true -> file_all keys_unique (fun _ => true) b = true ->
  (file_eq a b = true <-> file_same a b).
Proof.
  intros a b HA HB. unfold file_all in *. bsplit HA. bsplit HB.
  unfold file_eq, file_same, msec_eq, dsec_eq, msec_same, dsec_same.
  rewrite !andb_true_iff, !dopts_eq_iff, opt_bytes_eq_iff by auto. tauto.
Qed.
Lemma change_eq_iff : forall a b, change_all keys_unique (fun _ => true) a = true -> change_all keys_unique (fun _ => true) b = true ->
  (change_eq a b = true <-> change_same a b).
Proof.
  intros a b HA HB. unfold change_all in *. bsplit HA. bsplit HB.
  unfold change_eq, change_same, msec_eq, psec_eq, msec_same, psec_same.
  rewrite !andb_true_iff, !dopts_eq_iff, opt_text_eq_iff by auto.
  rewrite (list_eq2_iff file_eq file_same (file_all keys_unique (fun _ => true))); auto using file_eq_iff. tauto.
Qed.
Theorem C19_eq_strict_iff : forall a b, tree_unique a = true -> tree_unique b = true ->
  (tree_eq a b = true <-> tree_same a b).
Proof.
  intros a b HA HB. unfold tree_unique, tree_all in *. bsplit HA. bsplit HB.
  unfold tree_eq, tree_same, msec_eq, psec_eq, msec_same, psec_same.
  rewrite !andb_true_iff, !dopts_eq_iff, opt_text_eq_iff by auto.
  rewrite (list_eq2_iff change_eq change_same (change_all keys_unique (fun _ => true))); auto using change_eq_iff. tauto.
Qed.

(* ---- C19_perturb: any single change of an option or of a content makes the trees unequal ---- *)
Lemma list_eq2_upd : forall {A} (eq : A -> A -> bool) i (f : A -> res A) l l', upd_nth i f l = Some (Ok l') ->
  (forall x y, nth_error l i = Some x -> f x = Ok y -> eq x y = false) -> list_eq2 eq l l' = false.
Proof.
  induction i as [|i IH]; intros f [|x l] l' H E; cbn in H; try discriminate.
  - injection H as H. inv_bind H. injection H as <-. cbn. rewrite (E x x0); auto.
  - destruct (upd_nth i f l) as [r|] eqn:U; try discriminate. injection H as H. inv_bind H. injection H as <-. subst r.
    cbn. rewrite (IH f l x0); auto. apply andb_false_r.
Qed.

Definition cond_opt (k : bytes) (new : wv) (o : dopts) : Prop :=
  match assoc_get beq k o with Some old => wv_eq old new = false | None => True end.
Lemma dopts_eq_perturb : forall o k new, cond_opt k new o -> dopts_eq o (oput k new o) = false.
Proof. intros. rewrite dopts_eq_dict. apply (dict_eqb_perturb beq beq_eq wv_eq). exact H. Qed.

(* the options dict of the section addressed by (path, section selector) *)
Definition opts_at (p : path) (s : secsel) (t : dtree) : option dopts :=
  match p with
  | PMain => match s with SSelf => Some (d_opts t) | SPre => Some (p_opts (d_pre t)) | SMeta => Some (m_opts (d_meta t)) | SDiff => None end
  | PChange ci =>
      match nth_error (d_changes t) ci with
      | Some c => match s with SSelf => Some (c_opts c) | SPre => Some (p_opts (c_pre c)) | SMeta => Some (m_opts (c_meta c)) | SDiff => None end
      | None => None
      end
  | PFile ci fi =>
      match nth_error (d_changes t) ci with
      | Some c => match nth_error (c_files c) fi with
                  | Some f => match s with SSelf => Some (f_opts f) | SMeta => Some (m_opts (f_meta f)) | SDiff => Some (x_opts (f_diff f)) | SPre => None end
                  | None => None
                  end
      | None => None
      end
  end.

Ltac kill_andb := rewrite ?andb_false_r; reflexivity.

Lemma on_change_neq : forall ci g t t', on_change ci g t = Some (Ok t') ->
  (forall c c', nth_error (d_changes t) ci = Some c -> g c = Ok c' -> change_eq c c' = false) -> tree_eq t t' = false.
Proof.
  intros ci g t t' H E. unfold on_change in H. destruct (upd_nth ci g (d_changes t)) as [r|] eqn:U; try discriminate.
  injection H as H. inv_bind H. injection H as <-. subst r. unfold tree_eq. cbn.
  rewrite (list_eq2_upd change_eq _ _ _ _ U E). apply andb_false_r.
Qed.
Lemma on_file_neq : forall ci fi g t t', on_file ci fi g t = Some (Ok t') ->
  (forall c f f', nth_error (d_changes t) ci = Some c -> nth_error (c_files c) fi = Some f -> g f = Ok f' -> file_eq f f' = false) ->
  tree_eq t t' = false.
Proof.
  intros ci fi g t t' H E. unfold on_file in H. eapply on_change_neq; eauto.
  intros c c' N G. cbv beta in G. destruct (upd_nth fi g (c_files c)) as [r|] eqn:U; try discriminate.
  inv_bind G. injection G as <-. subst r. unfold change_eq. cbn.
  rewrite (list_eq2_upd file_eq _ _ _ _ U (fun f f' => E c f f' N)). apply andb_false_r.
Qed.

Theorem C19_perturb_option : forall p s k new t t' o,
  opt_put_at p s k new t = Some (Ok t') -> opts_at p s t = Some o -> cond_opt k new o -> tree_eq t t' = false.
Proof.
  intros p s k new t t' o H O C. destruct p as [|ci|ci fi]; destruct s; cbn in H, O; try discriminate.
  - injection H as <-. injection O as <-. unfold tree_eq; cbn. rewrite dopts_eq_perturb; auto.
  - injection H as <-. injection O as <-. unfold tree_eq, psec_eq; cbn. rewrite dopts_eq_perturb; auto. kill_andb.
  - injection H as <-. injection O as <-. unfold tree_eq, msec_eq; cbn. rewrite dopts_eq_perturb; auto. kill_andb.
  - eapply on_change_neq; eauto. intros c c' N G. rewrite N in O. injection O as <-. injection G as <-.
    unfold change_eq; cbn. rewrite dopts_eq_perturb; auto.
  - eapply on_change_neq; eauto. intros c c' N G. rewrite N in O. injection O as <-. injection G as <-.
    unfold change_eq, psec_eq; cbn. rewrite dopts_eq_perturb; auto. kill_andb.
  - eapply on_change_neq; eauto. intros c c' N G. rewrite N in O. injection O as <-. injection G as <-.
    unfold change_eq, msec_eq; cbn. rewrite dopts_eq_perturb; auto. kill_andb.
  - eapply on_file_neq; eauto. intros c f f' N M G. rewrite N, M in O. injection O as <-. injection G as <-.
    unfold file_eq; cbn. rewrite dopts_eq_perturb; auto.
  - eapply on_file_neq; eauto. intros c f f' N M G. rewrite N, M in O. injection O as <-. injection G as <-.
    unfold file_eq, msec_eq; cbn. rewrite dopts_eq_perturb; auto. kill_andb.
  - eapply on_file_neq; eauto. intros c f f' N M G. rewrite N, M in O. injection O as <-. injection G as <-.
    unfold file_eq, dsec_eq; cbn. rewrite dopts_eq_perturb; auto. kill_andb.
Qed.

(* metadata: obj.meta[key] = new *)
Definition meta_at (p : path) (t : dtree) : option (list (text * json)) :=
  match p with
  | PMain => Some (m_content (d_meta t))
  | PChange ci => match nth_error (d_changes t) ci with Some c => Some (m_content (c_meta c)) | None => None end
  | PFile ci fi => match nth_error (d_changes t) ci with
                   | Some c => match nth_error (c_files c) fi with Some f => Some (m_content (f_meta f)) | None => None end
                   | None => None
                   end
  end.
Definition cond_meta (k : text) (new : json) (m : list (text * json)) : Prop :=
  match assoc_get teq k m with Some old => json_eq old new = false | None => True end.
Lemma msec_eq_perturb : forall m k new, cond_meta k new (m_content m) -> msec_eq m (mput k new m) = false.
Proof.
  intros m k new C. unfold msec_eq, mput. cbn [m_opts m_content]. rewrite json_eq_obj.
  rewrite (dict_eqb_perturb teq teq_eq json_eq); auto. apply andb_false_r.
Qed.
Theorem C19_perturb_meta : forall p k new t t' m,
  meta_put_at p k new t = Some (Ok t') -> meta_at p t = Some m -> cond_meta k new m -> tree_eq t t' = false.
Proof.
  intros p k new t t' m H O C. destruct p as [|ci|ci fi]; cbn in H, O.
  - injection H as <-. injection O as <-. unfold tree_eq; cbn [d_opts d_pre d_meta d_changes]. rewrite msec_eq_perturb; auto. kill_andb.
  - eapply on_change_neq; eauto. intros c c' N G. rewrite N in O. injection O as <-. injection G as <-.
    unfold change_eq; cbn [c_opts c_pre c_meta c_files]. rewrite msec_eq_perturb; auto. kill_andb.
  - eapply on_file_neq; eauto. intros c f f' N M G. rewrite N, M in O. injection O as <-. injection G as <-.
    unfold file_eq; cbn [f_opts f_meta f_diff]. rewrite msec_eq_perturb; auto. kill_andb.
Qed.

(* preamble text and diff bytes: assignment through the typed attributes "preamble" / "diff" *)
Definition pre_at (p : path) (t : dtree) : option (option text) :=
  match p with
  | PMain => Some (p_content (d_pre t))
  | PChange ci => match nth_error (d_changes t) ci with Some c => Some (p_content (c_pre c)) | None => None end
  | PFile _ _ => None
  end.
Definition diff_at (p : path) (t : dtree) : option (option bytes) :=
  match p with
  | PFile ci fi => match nth_error (d_changes t) ci with
                   | Some c => match nth_error (c_files c) fi with Some f => Some (x_content (f_diff f)) | None => None end
                   | None => None
                   end
  | _ => None
  end.
Lemma opt_text_neq : forall a b, a <> b -> opt_text_eq a b = false.
Proof. intros a b N. destruct (opt_text_eq a b) eqn:E; auto. apply opt_text_eq_iff in E. contradiction. Qed.
Lemma opt_bytes_neq : forall a b, a <> b -> opt_bytes_eq a b = false.
Proof. intros a b N. destruct (opt_bytes_eq a b) eqn:E; auto. apply opt_bytes_eq_iff in E. contradiction. Qed.

Theorem C19_perturb_preamble : forall p txt t t' old,
  set_at p (B "preamble") (WStr txt) t = Some (Ok t') -> pre_at p t = Some old -> old <> Some txt -> tree_eq t t' = false.
Proof.
  intros p txt t t' old H O N. destruct p as [|ci|ci fi]; cbn [pre_at] in O; try discriminate.
  - injection O as <-. change (Some (Ok {| d_opts := d_opts t; d_pre := {| p_opts := p_opts (d_pre t); p_content := Some txt |};
                                       d_meta := d_meta t; d_changes := d_changes t |}) = Some (Ok t')) in H.
    injection H as <-. unfold tree_eq, psec_eq; cbn. rewrite opt_text_neq; auto. kill_andb.
  - cbn [set_at] in H. eapply on_change_neq; eauto. intros c c' M G. rewrite M in O. injection O as <-.
    change (Ok {| c_opts := c_opts c; c_pre := {| p_opts := p_opts (c_pre c); p_content := Some txt |};
                  c_meta := c_meta c; c_files := c_files c |} = Ok c') in G.
    injection G as <-. unfold change_eq, psec_eq; cbn. rewrite opt_text_neq; auto. kill_andb.
Qed.
Theorem C19_perturb_diff : forall p b t t' old,
  set_at p (B "diff") (WBytes b) t = Some (Ok t') -> diff_at p t = Some old -> old <> Some b -> tree_eq t t' = false.
Proof.
  intros p b t t' old H O N. destruct p as [|ci|ci fi]; cbn [diff_at] in O; try discriminate.
  cbn [set_at] in H. eapply on_file_neq; eauto. intros c f f' M1 M2 G. rewrite M1, M2 in O. injection O as <-.
  change (Ok {| f_opts := f_opts f; f_meta := f_meta f; f_diff := {| x_opts := x_opts (f_diff f); x_content := Some b |} |} = Ok f') in G.
  injection G as <-. unfold file_eq, dsec_eq; cbn. rewrite opt_bytes_neq; auto. kill_andb.
Qed.
(* assignment of an option through a typed attribute is opt_put_at on the corresponding section, so C19_perturb_option
   applies to it: stated for the tree's own attributes, the others follow the same way from C19_set_ok_* *)
Theorem C19_perturb_typed_main : forall t name v t' k,
  set_tree_attr t name v = Ok t' -> (name = B "encoding" \/ name = B "version") -> k = name ->
  cond_opt k v (d_opts t) -> tree_eq t t' = false.
Proof.
  intros t name v t' k H [->| ->] -> C; unfold set_tree_attr in H; cbn [beq list_eqb B String.list_byte_of_string] in H.
  - apply set_option_bind in H as [_ ->]. unfold tree_eq; cbn. rewrite (dopts_eq_perturb (d_opts t)); auto.
  - change (beq (B "version") (B "encoding")) with false in H. change (beq (B "version") (B "version")) with true in H.
    cbv iota in H. apply set_option_bind in H as [_ ->]. unfold tree_eq; cbn. rewrite (dopts_eq_perturb (d_opts t)); auto.
Qed.

(* ---- C19_eq_bytes_refuted: == is Python's, so True == 1; the serialisations differ ---- *)
Definition wit_meta (j : json) : dtree :=
  {| d_opts := d_opts new_tree; d_pre := new_psec;
     d_meta := {| m_opts := m_opts new_msec; m_content := [(skey "a", j)] |}; d_changes := [] |}.
Theorem C19_eq_bytes_refuted : exists a b ba bb,
  tree_eq a b = true /\ dom_write a = Ok ba /\ dom_write b = Ok bb /\ ba <> bb.
Proof.
  exists (wit_meta (JInt 1)), (wit_meta (JBool true)). eexists. eexists.
  split; [vm_compute; reflexivity|]. split; [vm_compute; reflexivity|]. split; [vm_compute; reflexivity|]. discriminate.
Qed.
(* the same through an option: a raw options['indent'] = True against 1 *)
Definition wit_pre (v : wv) : dtree :=
  {| d_opts := d_opts new_tree; d_pre := {| p_opts := [(B "indent", v)]; p_content := Some (skey "hello") |};
     d_meta := new_msec; d_changes := [] |}.
Theorem C19_eq_bytes_refuted_option : exists a b ba bb,
  tree_eq a b = true /\ dom_write a = Ok ba /\ dom_write b = Ok bb /\ ba <> bb.
Proof.
  exists (wit_pre (WInt 1)), (wit_pre (WBool true)). eexists. eexists.
  split; [vm_compute; reflexivity|]. split; [vm_compute; reflexivity|]. split; [vm_compute; reflexivity|]. discriminate.
Qed.
(* and, without any boolean, through the ORDER of raw option keys: the DOM writer renames 'type' to 'diff_type' in a
   dict comprehension, so when both keys are present the later one wins, while == ignores the order *)
Definition wit_order (o : dopts) : dtree :=
  {| d_opts := d_opts new_tree; d_pre := new_psec; d_meta := new_msec;
     d_changes := [ {| c_opts := []; c_pre := new_psec; c_meta := new_msec;
                       c_files := [ {| f_opts := []; f_meta := {| m_opts := m_opts new_msec; m_content := [(skey "path", JStr (skey "a"))] |};
                                       f_diff := {| x_opts := o; x_content := Some (B "xyz") |} |} ] |} ] |}.
Theorem C19_eq_bytes_refuted_order : exists a b ba bb,
  tree_eq a b = true /\ dom_write a = Ok ba /\ dom_write b = Ok bb /\ ba <> bb.
Proof.
  exists (wit_order [(B "type", S_ "text"); (B "diff_type", S_ "binary")]),
         (wit_order [(B "diff_type", S_ "binary"); (B "type", S_ "text")]). eexists. eexists.
  split; [vm_compute; reflexivity|]. split; [vm_compute; reflexivity|]. split; [vm_compute; reflexivity|]. discriminate.
Qed.

(* ================================================================================================ *)
(* concrete instances used by the Examples in props/C13.v, C18.v, C19.v                              *)
(* ================================================================================================ *)
Definition ln (s : String.string) : bytes := B s ++ [x0a].
(* a unified diff with one hunk: 1 context line, 1 deletion, 2 insertions *)
Definition ex_diff : bytes :=
  ln "--- a" ++ ln "+++ b" ++ ln "@@ -1,2 +1,3 @@" ++ ln " ctx" ++ ln "-old" ++ ln "+new" ++ ln "+new2".
(* a text file whose metadata already has a 'stats' dict with a custom key and a stale figure *)
Definition ex_file1 : dfile :=
  {| f_opts := [];
     f_meta := {| m_opts := m_opts new_msec;
                  m_content := [(skey "path", JStr (skey "a"));
                                (skey "stats", JObj [(skey "custom", JInt 7); (skey "insertions", JInt 99)])] |};
     f_diff := {| x_opts := []; x_content := Some ex_diff |} |}.
(* a binary file *)
Definition ex_file2 : dfile :=
  {| f_opts := []; f_meta := {| m_opts := m_opts new_msec; m_content := [(skey "path", JStr (skey "b"))] |};
     f_diff := {| x_opts := [(B "type", S_ "binary")]; x_content := Some (B "xyz") |} |}.
Definition ex_change : dchange := {| c_opts := []; c_pre := new_psec; c_meta := new_msec; c_files := [ex_file1; ex_file2] |}.
Definition ex_tree : dtree := {| d_opts := d_opts new_tree; d_pre := new_psec; d_meta := new_msec; d_changes := [ex_change] |}.

Definition ex_file1_stats : list (text * json) :=
  [(skey "custom", JInt 7); (skey "insertions", JInt 2); (skey "deletions", JInt 1); (skey "lines changed", JInt 3)].
Definition ex_change_stats : list (text * json) :=
  [(skey "deletions", JInt 1); (skey "files", JInt 2); (skey "insertions", JInt 2); (skey "lines changed", JInt 3)].
Definition ex_tree_stats : list (text * json) :=
  [(skey "changes", JInt 1); (skey "deletions", JInt 1); (skey "files", JInt 2); (skey "insertions", JInt 2);
   (skey "lines changed", JInt 3)].
Definition ex_tree_out : dtree :=
  {| d_opts := d_opts new_tree; d_pre := new_psec;
     d_meta := {| m_opts := m_opts new_msec; m_content := [(stats_key, JObj ex_tree_stats)] |};
     d_changes :=
       [ {| c_opts := []; c_pre := new_psec;
            c_meta := {| m_opts := m_opts new_msec; m_content := [(stats_key, JObj ex_change_stats)] |};
            c_files := [ {| f_opts := [];
                            f_meta := {| m_opts := m_opts new_msec;
                                         m_content := [(skey "path", JStr (skey "a")); (stats_key, JObj ex_file1_stats)] |};
                            f_diff := f_diff ex_file1 |};
                         ex_file2 ] |} ] |}.

(* an operation sequence over three live trees *)
Definition ex_ops : list op :=
  [ONew []; ONew [(B "encoding", S_ "latin1")]; OAddChange 0 []; OAddFile 0 0 [(B "diff", WBytes ex_diff)];
   OSet 1 PMain (B "version") (S_ "9.9");        (* raises: not a valid choice *)
   OAddChange 1 [(B "bogus", WInt 1)];            (* raises: unknown attribute *)
   OMetaPut 0 (PFile 0 0) (skey "path") (JStr (skey "a")); OStats 0; OToBytes 0; OEq 0 1; OToBytes 0].

(* ================================================================================================ *)
(* C19_eq_bytes_partial — part 1: json.dumps(sort_keys=True) does not depend on the order of dict keys *)
(* ================================================================================================ *)
Lemma text_leb_total : forall a b, text_leb a b = true \/ text_leb b a = true.
Proof.
  unfold text_leb. induction a as [|x a IH]; destruct b as [|y b]; cbn; auto.
  destruct (N.ltb_spec x y), (N.ltb_spec y x); auto; try lia.
  assert (x = y) by lia. subst. rewrite N.eqb_refl. apply IH.
Qed.
Lemma text_leb_trans : forall a b c, text_leb a b = true -> text_leb b c = true -> text_leb a c = true.
Proof.
  unfold text_leb. induction a as [|x a IH]; destruct b as [|y b]; destruct c as [|z c]; cbn; auto; try discriminate.
  destruct (N.ltb_spec x y), (N.ltb_spec y z), (N.ltb_spec x z); auto; try lia;
    destruct (N.eqb_spec x y), (N.eqb_spec y z), (N.eqb_spec x z); auto; try discriminate; try lia.
  apply IH.
Qed.
Lemma text_leb_antisym : forall a b, text_leb a b = true -> text_leb b a = true -> a = b.
Proof.
  unfold text_leb. induction a as [|x a IH]; destruct b as [|y b]; cbn; auto; try discriminate.
  destruct (N.ltb_spec x y), (N.ltb_spec y x); try lia; try discriminate;
    destruct (N.eqb_spec x y), (N.eqb_spec y x); try discriminate; try lia.
  intros. f_equal; auto.
Qed.

Section SortKb.
  Context {V : Type}.
  Definition kleb (a b : text * V) : bool := text_leb (fst a) (fst b).
  Definition kle (a b : text * V) : Prop := kleb a b = true.

  Lemma insert_perm : forall x l, Permutation (insert_sorted kleb x l) (x :: l).
  Proof.
    induction l as [|y l IH]; cbn; auto. destruct (kleb x y); auto.
    eapply perm_trans; [apply perm_skip; exact IH | apply perm_swap].
  Qed.
  Lemma isort_perm : forall l, Permutation (isort kleb l) l.
  Proof.
    induction l as [|x l IH]; cbn; auto. eapply perm_trans; [apply insert_perm | apply perm_skip; exact IH].
  Qed.
  Lemma insert_sorted_ss : forall x l, StronglySorted kle l -> StronglySorted kle (insert_sorted kleb x l).
  Proof.
    induction l as [|y l IH]; cbn; intro S.
    - constructor; auto.
    - inversion S as [|? ? S1 F1]; subst. destruct (kleb x y) eqn:E.
      + constructor; auto. constructor; auto. eapply Forall_impl; [|exact F1].
        intros z Z. unfold kle, kleb in *. eapply text_leb_trans; eauto.
      + constructor; auto. apply (Permutation_Forall (Permutation_sym (insert_perm x l))). constructor; auto.
        unfold kle, kleb in *. destruct (text_leb_total (fst x) (fst y)); congruence.
  Qed.
  Lemma isort_ss : forall l, StronglySorted kle (isort kleb l).
  Proof. induction l as [|x l IH]; cbn; [constructor | apply insert_sorted_ss; auto]. Qed.

  Lemma same_key_same : forall (l : list (text * V)) x y, NoDup (map fst l) -> In x l -> In y l -> fst x = fst y -> x = y.
  Proof.
    induction l as [|z l IH]; cbn; intros x y ND Ix Iy E; [tauto|].
    inversion ND as [|? ? N1 N2]; subst. destruct Ix as [<-|Ix], Iy as [<-|Iy]; auto.
    - exfalso. apply N1. rewrite E. apply in_map; auto.
    - exfalso. apply N1. rewrite <- E. apply in_map; auto.
  Qed.
  Lemma ss_perm_unique : forall l l', StronglySorted kle l -> StronglySorted kle l' -> Permutation l l' ->
    NoDup (map fst l) -> l = l'.
  Proof.
    induction l as [|x l IH]; intros l' S S' P ND.
    - apply Permutation_nil in P. auto.
    - destruct l' as [|y l']; [apply Permutation_sym, Permutation_nil in P; discriminate|].
      inversion S as [|? ? S1 F1]; subst. inversion S' as [|? ? S1' F1']; subst.
      assert (Ix : In x (y :: l')) by (eapply Permutation_in; [exact P | left; auto]).
      assert (Iy : In y (x :: l)) by (eapply Permutation_in; [apply Permutation_sym; exact P | left; auto]).
      assert (Rxy : kle x y \/ x = y).
      { destruct Iy as [->|Iy]; auto. left. rewrite Forall_forall in F1. auto. }
      assert (Ryx : kle y x \/ x = y).
      { destruct Ix as [->|Ix]; auto. left. rewrite Forall_forall in F1'. auto. }
      assert (E : x = y).
      { destruct Rxy as [Rxy|]; auto. destruct Ryx as [Ryx|]; auto.
        apply (same_key_same (x :: l)); auto; [left; auto|]. apply text_leb_antisym; auto. }
      subst y. f_equal. apply IH; auto.
      + eapply Permutation_cons_inv; eauto.
      + inversion ND; auto.
  Qed.
  Lemma isort_perm_eq : forall l l', Permutation l l' -> NoDup (map fst l) -> isort kleb l = isort kleb l'.
  Proof.
    intros l l' P ND. apply ss_perm_unique; try apply isort_ss.
    - eapply perm_trans; [apply isort_perm|]. eapply perm_trans; [exact P|]. apply Permutation_sym, isort_perm.
    - eapply Permutation_NoDup; [|exact ND]. apply Permutation_map. apply Permutation_sym, isort_perm.
  Qed.
End SortKb.

(* the two local loops of Json.dump, named *)
Definition dump_items (lvl : nat) : list json -> res (list bytes) :=
  fix items (l : list json) : res (list bytes) :=
    match l with
    | [] => Ok []
    | x :: t => do a <- dump (S lvl) x; do b <- items t; Ok (a :: b)
    end.
Definition dump_kv (lvl : nat) : list (text * json) -> res (list (text * bytes)) :=
  fix items (l : list (text * json)) : res (list (text * bytes)) :=
    match l with
    | [] => Ok []
    | (k, v) :: t => do a <- dump (S lvl) v; do b <- items t; Ok ((k, a) :: b)
    end.
Definition render_list (lvl : nat) (body : list bytes) : bytes :=
  B "[" ++ nl_indent (S lvl) ++ join_items (B "," ++ nl_indent (S lvl)) body ++ nl_indent lvl ++ B "]".
Definition render_obj (lvl : nat) (body : list (text * bytes)) : bytes :=
  B "{" ++ nl_indent (S lvl)
    ++ join_items (B "," ++ nl_indent (S lvl)) (map (fun p => dump_str (fst p) ++ B ": " ++ snd p) (sort_kb body))
    ++ nl_indent lvl ++ B "}".
Lemma dump_list_eq : forall lvl l, dump lvl (JList l) =
  match l with [] => Ok (B "[]") | _ => do body <- dump_items lvl l; Ok (render_list lvl body) end.
Proof. intros lvl [|x l]; reflexivity. Qed.
Lemma dump_obj_eq : forall lvl kv, dump lvl (JObj kv) =
  match kv with [] => Ok (B "{}") | _ => do body <- dump_kv lvl kv; Ok (render_obj lvl body) end.
Proof. intros lvl [|x l]; reflexivity. Qed.

(* a value without unserialisable leaves always dumps; [dmp] is then the dump as a total function *)
Definition dmp (lvl : nat) (j : json) : bytes := match dump lvl j with Ok b => b | Err _ => [] end.
Lemma json_nobool_nobad : forall j, json_nobool j = true -> json_nobad j = true.
Proof.
  induction j using json_ind'; intro NB; auto; try discriminate.
  - pose proof (json_all_list _ _ NB) as F. unfold json_nobad. cbn. apply forallb_forall. intros x I.
    rewrite Forall_forall in H, F. apply H; auto.
  - pose proof (json_all_obj _ _ NB) as F. unfold json_nobad. cbn. apply forallb_forall. intros x I.
    rewrite Forall_forall in H, F. apply H; auto.
Qed.
Lemma dump_ok : forall j, json_nobad j = true -> forall lvl, dump lvl j = Ok (dmp lvl j).
Proof.
  induction j using json_ind'; intros NB lvl; try reflexivity; try discriminate.
  - destruct b; reflexivity.
  - unfold dmp. rewrite dump_list_eq. destruct l as [|x l]; auto.
    assert (X : exists body, dump_items lvl (x :: l) = Ok body); [|destruct X as [body ->]; reflexivity].
    apply json_all_list in NB. generalize (x :: l) H NB. clear. induction 1 as [|y l Hy F IH]; intro NB.
    + exists []. reflexivity.
    + inversion NB; subst. destruct (IH H2) as [body E]. exists (dmp (S lvl) y :: body).
      change (dump_items lvl (y :: l)) with (do a <- dump (S lvl) y; do b <- dump_items lvl l; Ok (a :: b)).
      rewrite Hy, E; auto.
  - unfold dmp. rewrite dump_obj_eq. destruct kv as [|x l]; auto.
    assert (X : exists body, dump_kv lvl (x :: l) = Ok body); [|destruct X as [body ->]; reflexivity].
    apply json_all_obj in NB. generalize (x :: l) H NB. clear. induction 1 as [|[k y] l Hy F IH]; intro NB.
    + exists []. reflexivity.
    + inversion NB; subst. destruct (IH H2) as [body E]. exists ((k, dmp (S lvl) y) :: body).
      change (dump_kv lvl ((k, y) :: l)) with (do a <- dump (S lvl) y; do b <- dump_kv lvl l; Ok ((k, a) :: b)).
      cbn in Hy. rewrite Hy, E; auto.
Qed.
Lemma dump_items_ok : forall lvl l, Forall (fun x => json_nobad x = true) l -> dump_items lvl l = Ok (map (dmp (S lvl)) l).
Proof.
  induction 1 as [|y l Hy F IH]; auto.
  change (dump_items lvl (y :: l)) with (do a <- dump (S lvl) y; do b <- dump_items lvl l; Ok (a :: b)).
  rewrite dump_ok, IH; auto.
Qed.
Lemma dump_kv_ok : forall lvl l, Forall (fun p => json_nobad (snd p) = true) l ->
  dump_kv lvl l = Ok (map (fun p => (fst p, dmp (S lvl) (snd p))) l).
Proof.
  induction 1 as [|[k y] l Hy F IH]; auto.
  change (dump_kv lvl ((k, y) :: l)) with (do a <- dump (S lvl) y; do b <- dump_kv lvl l; Ok ((k, a) :: b)).
  cbn in Hy. rewrite dump_ok, IH; auto.
Qed.

(* values without booleans, with unique dict keys *)
Definition json_strict (j : json) : bool := json_keys_ok j && json_nobool j.

Theorem json_dump_eq_invariant : forall a b, json_strict a = true -> json_strict b = true -> json_eq a b = true ->
  forall lvl, dump lvl a = dump lvl b.
Proof.
  induction a using json_ind'; intros j SA SB E lvl; destruct j; try discriminate E;
    unfold json_strict in SA, SB; apply andb_true_iff in SA as [KA NA]; apply andb_true_iff in SB as [KB NB]; try discriminate.
  - reflexivity.
  - cbn in E. apply Z.eqb_eq in E. subst. reflexivity.
  - cbn in E. apply beq_eq in E. subst. reflexivity.
  - cbn in E. apply teq_eq in E. subst. reflexivity.
  - rewrite json_eq_list in E. apply list_eq2_Forall2 in E.
    rewrite !dump_list_eq.
    pose proof (json_all_list _ _ KA) as KAl. pose proof (json_all_list _ _ KB) as KBl.
    pose proof (json_all_list _ _ NA) as NAl. pose proof (json_all_list _ _ NB) as NBl.
    assert (X : dump_items lvl l = dump_items lvl l0).
    { clear KA KB NA NB. revert H KAl NAl KBl NBl. induction E as [|x y l l0 Exy F IH]; intros H KAl NAl KBl NBl; auto.
      inversion H; subst. inversion KAl; subst. inversion NAl; subst. inversion KBl; subst. inversion NBl; subst.
      change (dump_items lvl (x :: l)) with (do a <- dump (S lvl) x; do b <- dump_items lvl l; Ok (a :: b)).
      change (dump_items lvl (y :: l0)) with (do a <- dump (S lvl) y; do b <- dump_items lvl l0; Ok (a :: b)).
      rewrite (H2 y), IH; auto; unfold json_strict; apply andb_true_iff; auto. }
    inversion E; subst; auto. rewrite X. reflexivity.
  - rewrite json_eq_obj in E.
    pose proof (json_all_here _ _ KA) as UA. cbn in UA. apply tkeys_unique_NoDup in UA.
    pose proof (json_all_here _ _ KB) as UB. cbn in UB. apply tkeys_unique_NoDup in UB.
    apply (dict_eqb_iff teq teq_eq json_eq) in E; auto. destruct E as [KS PW].
    pose proof (json_all_obj _ _ KA) as KAl. pose proof (json_all_obj _ _ KB) as KBl.
    pose proof (json_all_obj _ _ NA) as NAl. pose proof (json_all_obj _ _ NB) as NBl.
    rewrite Forall_forall in H, KAl, KBl, NAl, NBl.
    rewrite !dump_obj_eq.
    assert (L : kv = [] <-> kv0 = []).
    { split; intros ->; [destruct kv0 as [|[k v] ?]|destruct kv as [|[k v] ?]]; auto; exfalso; eapply (KS k); cbn; auto. }
    destruct kv as [|p kv]; destruct kv0 as [|q kv0]; auto; try (destruct L as [L1 L2]; (discriminate (L1 eq_refl) || discriminate (L2 eq_refl))).
    rewrite !dump_kv_ok.
    2:{ apply Forall_forall. intros x I. apply json_nobool_nobad. auto. }
    2:{ apply Forall_forall. intros x I. apply json_nobool_nobad. auto. }
    cbn [bind]. set (g := fun p0 : text * json => (fst p0, dmp (S lvl) (snd p0))).
    assert (X : sort_kb (map g (p :: kv)) = sort_kb (map g (q :: kv0))); [|unfold render_obj; rewrite X; reflexivity].
    unfold sort_kb.
    change (fun a b : text * bytes => text_leb (fst a) (fst b)) with (@kleb bytes).
    apply isort_perm_eq.
    2:{ rewrite map_map. cbn. exact UA. }
    assert (G : forall (l1 l2 : list (text * json)), NoDup (map fst l1) -> NoDup (map fst l2) ->
                (forall k v, In (k, v) l1 -> exists w, In (k, w) l2 /\ dmp (S lvl) v = dmp (S lvl) w) ->
                forall x, In x (map g l1) -> In x (map g l2)).
    { intros l1 l2 _ _ Hs x I. apply in_map_iff in I. destruct I as ([k v] & <- & I).
      destruct (Hs k v I) as (w & Iw & Ew). apply in_map_iff. exists (k, w). split; auto. unfold g. cbn. rewrite Ew. reflexivity. }
    assert (D : forall k v w, In (k, v) (p :: kv) -> In (k, w) (q :: kv0) -> dmp (S lvl) v = dmp (S lvl) w).
    { intros k v w Iv Iw. unfold dmp.
      assert (E1 : dump (S lvl) v = dump (S lvl) w); [|rewrite E1; reflexivity].
      apply (H (k, v) Iv w).
      - unfold json_strict. apply andb_true_iff. split; [apply (KAl (k, v)) | apply (NAl (k, v))]; auto.
      - unfold json_strict. apply andb_true_iff. split; [apply (KBl (k, w)) | apply (NBl (k, w))]; auto.
      - eapply PW; apply (nodup_aget teq teq_eq json_eq); eauto. }
    apply NoDup_Permutation.
    + apply (NoDup_map_inv fst). rewrite map_map. exact UA.
    + apply (NoDup_map_inv fst). rewrite map_map. exact UB.
    + intro x. split; apply G; auto.
      * intros k v I. destruct (key_aget_some teq teq_eq k (q :: kv0)) as [w W].
        { apply KS. apply (in_map fst) in I. exact I. }
        apply (aget_In teq teq_eq) in W. eauto.
      * intros k w I. destruct (key_aget_some teq teq_eq k (p :: kv)) as [v W].
        { apply KS. apply (in_map fst) in I. exact I. }
        apply (aget_In teq teq_eq) in W. exists v. split; auto. symmetry. eauto.
Qed.

(* ================================================================================================ *)
(* C19_eq_bytes_partial — part 2: the DOM writer reads an options dict only through lookups and its key set *)
(* ================================================================================================ *)
Definition dopts_lk (a b : dopts) : Prop := forall k, assoc_get beq k a = assoc_get beq k b.

Lemma lk_keys : forall a b, dopts_lk a b -> forall k, In k (map fst a) <-> In k (map fst b).
Proof.
  intros a b L k. pose proof (aget_None_notin beq beq_eq k a) as Ha. pose proof (aget_None_notin beq beq_eq k b) as Hb.
  rewrite (L k) in Ha.
  destruct (in_dec (list_eq_dec Byte.byte_eq_dec) k (map fst a)); destruct (in_dec (list_eq_dec Byte.byte_eq_dec) k (map fst b)); tauto.
Qed.
Lemma only_keys_spec : forall o l, only_keys o l = true <-> forall k, In k (map fst o) -> existsb (fun a => beq k (B a)) l = true.
Proof.
  intros o l. unfold only_keys. rewrite forallb_forall. split.
  - intros H k I. apply in_map_iff in I. destruct I as (p & <- & I). auto.
  - intros H p I. apply H. apply in_map. auto.
Qed.
Lemma lk_only_keys : forall a b l, dopts_lk a b -> only_keys a l = only_keys b l.
Proof.
  intros a b l L. pose proof (lk_keys _ _ L) as K.
  destruct (only_keys a l) eqn:E1; destruct (only_keys b l) eqn:E2; auto.
  - rewrite only_keys_spec in E1. assert (X : only_keys b l = true); [|congruence]. apply only_keys_spec. intros k I. apply E1, K, I.
  - rewrite only_keys_spec in E2. assert (X : only_keys a l = true); [|congruence]. apply only_keys_spec. intros k I. apply E2, K, I.
Qed.
Lemma lk_kw : forall a b k, dopts_lk a b -> kw a k = kw b k.
Proof. intros a b k L. unfold kw. rewrite (L (B k)). reflexivity. Qed.
Lemma lk_kw_opt : forall a b k, dopts_lk a b -> kw_opt a k = kw_opt b k.
Proof. intros a b k L. unfold kw_opt. apply L. Qed.
Lemma adel_keys : forall (o : dopts) k k', In k' (map fst (assoc_del beq k o)) <-> In k' (map fst o) /\ k' <> k.
Proof.
  induction o as [|[k0 v0] o IH]; cbn; intros k k'; [tauto|].
  destruct (beq k k0) eqn:E.
  - apply beq_eq in E. subst k0. rewrite IH. split; [tauto|]. intros [[F|F] N]; [congruence|tauto].
  - cbn. rewrite IH. split; [|tauto]. intros [F|F]; [|tauto]. subst. split; auto. intro; subst. rewrite beq_refl in E. discriminate.
Qed.
Lemma nonempty_keys : forall (o : dopts), nonempty o = true <-> exists k, In k (map fst o).
Proof. destruct o as [|[k v] o]; cbn; split; try discriminate; eauto. intros [k []]. Qed.
Lemma lk_rest : forall a b k1 k2, dopts_lk a b ->
  nonempty (assoc_del beq k1 (assoc_del beq k2 a)) = nonempty (assoc_del beq k1 (assoc_del beq k2 b)).
Proof.
  intros a b k1 k2 L. pose proof (lk_keys _ _ L) as K.
  assert (X : forall a b : dopts, (forall k, In k (map fst a) <-> In k (map fst b)) ->
              nonempty (assoc_del beq k1 (assoc_del beq k2 a)) = true -> nonempty (assoc_del beq k1 (assoc_del beq k2 b)) = true).
  { intros a0 b0 K0 H. apply nonempty_keys in H. destruct H as [k I]. apply nonempty_keys. exists k.
    rewrite !adel_keys in *. rewrite <- K0. exact I. }
  destruct (nonempty (assoc_del beq k1 (assoc_del beq k2 a))) eqn:E1; destruct (nonempty (assoc_del beq k1 (assoc_del beq k2 b))) eqn:E2; auto.
  - rewrite (X a b) in E2; auto.
  - rewrite (X b a) in E1; auto. intro; symmetry; auto.
Qed.

(* the renaming done by _get_options *)
Definition ren (name : String.string) (k : bytes) : bytes :=
  if beq k (B "type") && String.eqb name "diff" then B "diff_type"
  else if beq k (B "format") && String.eqb name "meta" then B "meta_format"
  else k.
Definition renamed (name : String.string) (o : dopts) : dopts := map (fun p => (ren name (fst p), snd p)) o.
(* the keys are still distinct after the renaming: unique keys, and not both 'type' and 'diff_type' (resp. 'format' and
   'meta_format') — otherwise the later entry overrides the earlier one and the ORDER of the dict matters
   (C19_eq_bytes_refuted_order) *)
Definition remap_unique (name : String.string) (o : dopts) : bool := keys_unique (renamed name o).

Lemma fold_set_get : forall (l acc : dopts) k, NoDup (map fst l) ->
  assoc_get beq k (fold_left (fun acc p => assoc_set beq (fst p) (snd p) acc) l acc) =
  match assoc_get beq k l with Some v => Some v | None => assoc_get beq k acc end.
Proof.
  induction l as [|[k0 v0] l IH]; cbn; intros acc k ND; auto.
  inversion ND as [|? ? N1 N2]; subst. rewrite IH by auto.
  destruct (beq k k0) eqn:E.
  - apply beq_eq in E. subst k0. replace (assoc_get beq k l) with (@None wv).
    + apply aget_set_same_b.
    + symmetry. apply (aget_None_notin beq beq_eq). exact N1.
  - destruct (assoc_get beq k l); auto. apply aget_set_other_b. intro; subst. rewrite beq_refl in E. discriminate.
Qed.
Lemma remap_fold : forall name o, remap name o = fold_left (fun acc p => assoc_set beq (fst p) (snd p) acc) (renamed name o) [].
Proof.
  intros name o. unfold remap, renamed. generalize (@nil (bytes * wv)). induction o as [|p o IH]; intro acc; cbn; auto.
Qed.
Lemma remap_get : forall name o k, remap_unique name o = true -> assoc_get beq k (remap name o) = assoc_get beq k (renamed name o).
Proof.
  intros name o k U. apply keys_unique_NoDup in U. rewrite remap_fold, fold_set_get by auto.
  destruct (assoc_get beq k (renamed name o)); auto.
Qed.
Lemma remap_unique_keys : forall name o, remap_unique name o = true -> NoDup (map fst o).
Proof.
  intros name o U. apply keys_unique_NoDup in U. unfold renamed in U. rewrite map_map in U. cbn in U.
  rewrite <- (map_map fst (ren name)) in U. eapply NoDup_map_inv; eauto.
Qed.
Lemma lk_renamed : forall name a b, remap_unique name a = true -> remap_unique name b = true -> dopts_lk a b ->
  dopts_lk (renamed name a) (renamed name b).
Proof.
  intros name a b UA UB L.
  assert (X : forall a b : dopts, remap_unique name a = true -> remap_unique name b = true -> dopts_lk a b ->
              forall k v, assoc_get beq k (renamed name a) = Some v -> assoc_get beq k (renamed name b) = Some v).
  { intros a0 b0 U0 U1 L0 k v H. apply (aget_In beq beq_eq) in H. unfold renamed in H. apply in_map_iff in H.
    destruct H as ([k0 v0] & E & I). cbn in E. injection E as <- <-.
    apply (nodup_aget beq beq_eq wv_eq) in I; [|eapply remap_unique_keys; eauto].
    rewrite (L0 k0) in I. apply (aget_In beq beq_eq) in I.
    apply (nodup_aget beq beq_eq wv_eq); [apply keys_unique_NoDup; exact U1|].
    unfold renamed. apply in_map_iff. exists (k0, v0). auto. }
  intro k. destruct (assoc_get beq k (renamed name a)) as [v|] eqn:E1.
  - symmetry. exact (X a b UA UB L k v E1).
  - destruct (assoc_get beq k (renamed name b)) as [w|] eqn:E2; auto.
    pose proof (X b a UB UA (fun k => eq_sym (L k)) k w E2) as Y. congruence.
Qed.
Lemma lk_remap : forall name a b, remap_unique name a = true -> remap_unique name b = true -> dopts_lk a b ->
  dopts_lk (remap name a) (remap name b).
Proof. intros name a b UA UB L k. rewrite !remap_get by auto. apply lk_renamed; auto. Qed.

(* sections that the writer cannot tell apart *)
Definition meta_dump_eq (x y : list (text * json)) : Prop := is_nil x = is_nil y /\ json_dump (JObj x) = json_dump (JObj y).
Definition psec_lk (a b : psec) : Prop := dopts_lk (p_opts a) (p_opts b) /\ p_content a = p_content b.
Definition msec_lk (a b : msec) : Prop :=
  dopts_lk (m_opts a) (m_opts b) /\ meta_dump_eq (m_content a) (m_content b) /\
  remap_unique "meta" (m_opts a) = true /\ remap_unique "meta" (m_opts b) = true.
Definition dsec_lk (a b : dsec) : Prop :=
  dopts_lk (x_opts a) (x_opts b) /\ x_content a = x_content b /\
  remap_unique "diff" (x_opts a) = true /\ remap_unique "diff" (x_opts b) = true.
Definition file_lk (a b : dfile) : Prop := dopts_lk (f_opts a) (f_opts b) /\ msec_lk (f_meta a) (f_meta b) /\ dsec_lk (f_diff a) (f_diff b).
Definition change_lk (a b : dchange) : Prop :=
  dopts_lk (c_opts a) (c_opts b) /\ psec_lk (c_pre a) (c_pre b) /\ msec_lk (c_meta a) (c_meta b) /\ Forall2 file_lk (c_files a) (c_files b).
Definition tree_lk (a b : dtree) : Prop :=
  dopts_lk (d_opts a) (d_opts b) /\ psec_lk (d_pre a) (d_pre b) /\ msec_lk (d_meta a) (d_meta b) /\ Forall2 change_lk (d_changes a) (d_changes b).

Lemma call_container_lk : forall n a b, dopts_lk a b -> call_container n a = call_container n b.
Proof. intros n a b L. unfold call_container. rewrite (lk_only_keys a b), (lk_kw a b); auto. Qed.
Lemma call_preamble_lk : forall a b, psec_lk a b -> call_preamble a = call_preamble b.
Proof.
  intros a b [L C]. unfold call_preamble. rewrite C. destruct (p_content b) as [t|]; auto. destruct (is_nil t); auto.
  cbv zeta. rewrite (lk_only_keys _ _ _ L), !(lk_kw _ _ _ L), (lk_kw_opt _ _ _ L). reflexivity.
Qed.
Lemma call_diff_lk : forall a b, dsec_lk a b -> call_diff a = call_diff b.
Proof.
  intros a b (L & C & UA & UB). unfold call_diff. rewrite C. destruct (x_content b) as [b0|]; auto. destruct (is_nil b0); auto.
  cbv zeta. pose proof (lk_remap "diff" _ _ UA UB L) as LR.
  rewrite (lk_only_keys _ _ _ LR), !(lk_kw _ _ _ LR). reflexivity.
Qed.
(* pydiffx fix D15: call_meta drops a metadata section's line_endings option first; lookups and key
   uniqueness survive the deletion *)
Lemma adel_get : forall (o : dopts) k k', assoc_get beq k' (assoc_del beq k o) = if beq k' k then None else assoc_get beq k' o.
Proof.
  induction o as [|[k0 v0] o IH]; cbn; intros k k'; [destruct (beq k' k); reflexivity|].
  destruct (beq k k0) eqn:E.
  - apply beq_eq in E. subst k0. rewrite IH. destruct (beq k' k); reflexivity.
  - cbn. rewrite IH. destruct (beq k' k0) eqn:E0; [|reflexivity].
    apply beq_eq in E0. subst k0. destruct (beq k' k) eqn:E1; [|reflexivity].
    apply beq_eq in E1. subst k'. rewrite beq_refl in E. discriminate.
Qed.
Lemma lk_adel : forall a b k, dopts_lk a b -> dopts_lk (assoc_del beq k a) (assoc_del beq k b).
Proof. intros a b k L k'. rewrite !adel_get, (L k'). reflexivity. Qed.
Lemma adel_in : forall (o : dopts) k p, In p (assoc_del beq k o) -> In p o.
Proof.
  induction o as [|[k0 v0] o IH]; cbn; intros k p I; [exact I|].
  destruct (beq k k0); [right; eauto|]. destruct I as [I|I]; [left; exact I | right; eauto].
Qed.
Lemma adel_nodup_map {C} : forall (g : bytes * wv -> C) (o : dopts) k, NoDup (map g o) -> NoDup (map g (assoc_del beq k o)).
Proof.
  intros g. induction o as [|[k0 v0] o IH]; cbn; intros k ND; [exact ND|].
  inversion ND as [|? ? N1 N2]; subst. destruct (beq k k0); [auto|]. cbn. constructor; [|auto].
  intro I. apply N1. apply in_map_iff in I. destruct I as (p & E & I). apply in_map_iff. exists p. split; [exact E|].
  eapply adel_in; eauto.
Qed.
Lemma remap_unique_adel : forall name o k, remap_unique name o = true -> remap_unique name (assoc_del beq k o) = true.
Proof.
  intros name o k U. unfold remap_unique in *. apply keys_unique_NoDup. apply keys_unique_NoDup in U.
  unfold renamed in *. rewrite map_map in *. apply adel_nodup_map. exact U.
Qed.

Lemma exec_meta_lk : forall a b, msec_lk a b -> forall s, exec (call_meta a) s = exec (call_meta b) s.
Proof.
  intros a b (L & [N D] & UA & UB) s. unfold call_meta. rewrite N. destruct (is_nil (m_content b)) eqn:NB; auto.
  cbv zeta. pose proof (lk_remap "meta" _ _ (remap_unique_adel _ _ (B "line_endings") UA)
                          (remap_unique_adel _ _ (B "line_endings") UB) (lk_adel _ _ (B "line_endings") L)) as LR.
  rewrite (lk_only_keys _ _ _ LR), (lk_kw _ _ _ LR), (lk_kw_opt _ _ _ LR).
  destruct (negb (only_keys (remap "meta" (assoc_del beq (B "line_endings") (m_opts b))) ["encoding"; "meta_format"])); auto.
  destruct (m_content a) as [|pa ma]; [discriminate|]. destruct (m_content b) as [|pb mb]; [discriminate|].
  unfold exec, do_call. cbn [wv_truthy nonempty negb]. rewrite D. reflexivity.
Qed.

Lemma seq_all_ext : forall l l', Forall2 (fun f g => forall s, f s = g s) l l' -> forall s, seq_all l s = seq_all l' s.
Proof.
  induction 1 as [|f g l l' Hfg F IH]; intro s; auto.
  cbn. unfold seqw. rewrite Hfg. destruct (g s) as [s1 [u|e]]; auto.
Qed.
Lemma write_file_lk : forall a b, file_lk a b -> forall s, write_file a s = write_file b s.
Proof.
  intros a b (L & M & D). unfold write_file. apply seq_all_ext.
  constructor; [intro s; rewrite (call_container_lk _ _ _ L); reflexivity|].
  constructor; [apply exec_meta_lk; auto|].
  constructor; [intro s; rewrite (call_diff_lk _ _ D); reflexivity|]. constructor.
Qed.
Lemma Forall2_map2 : forall {A C} (R : A -> A -> Prop) (S : C -> C -> Prop) (f : A -> C) l l',
  (forall x y, R x y -> S (f x) (f y)) -> Forall2 R l l' -> Forall2 S (map f l) (map f l').
Proof. induction 2; cbn; constructor; auto. Qed.
Lemma write_change_lk : forall a b, change_lk a b -> forall s, write_change a s = write_change b s.
Proof.
  intros a b (L & P & M & F). unfold write_change. apply seq_all_ext.
  constructor; [intro s; rewrite (call_container_lk _ _ _ L); reflexivity|].
  constructor; [intro s; rewrite (call_preamble_lk _ _ P); reflexivity|].
  constructor; [apply exec_meta_lk; auto|].
  eapply Forall2_map2; [|exact F]. intros x y Hxy. apply write_file_lk; auto.
Qed.
Theorem dom_write_lk : forall a b, tree_lk a b -> dom_write a = dom_write b.
Proof.
  intros a b (L & P & M & F). unfold dom_write. cbv zeta.
  rewrite (L (B "version")), (L (B "encoding")), (lk_rest _ _ _ _ L).
  destruct (nonempty _); auto. destruct (writer_init _ _) as [s0 [u|e]]; auto.
  rewrite (seq_all_ext _ ([exec (call_preamble (d_pre b)); exec (call_meta (d_meta b))] ++ map write_change (d_changes b))); auto.
  constructor; [intro s; rewrite (call_preamble_lk _ _ P); reflexivity|].
  constructor; [apply exec_meta_lk; auto|].
  eapply Forall2_map2; [|exact F]. intros x y Hxy. apply write_change_lk; auto.
Qed.

(* ================================================================================================ *)
(* C19_eq_bytes_partial — part 3: for strict trees, == implies "the writer cannot tell them apart"    *)
(* ================================================================================================ *)
(* option values among None / int / str / bytes: no bool (True == 1), no dict, no foreign object *)
Definition wv_strict (v : wv) : bool := match v with WNone | WInt _ | WStr _ | WBytes _ => true | _ => false end.
Definition opts_strict (o : dopts) : bool := keys_unique o && forallb (fun p => wv_strict (snd p)) o.
Definition file_remap_ok (f : dfile) : bool := remap_unique "meta" (m_opts (f_meta f)) && remap_unique "diff" (x_opts (f_diff f)).
Definition change_remap_ok (c : dchange) : bool := remap_unique "meta" (m_opts (c_meta c)) && forallb file_remap_ok (c_files c).
Definition tree_remap_ok (t : dtree) : bool := remap_unique "meta" (m_opts (d_meta t)) && forallb change_remap_ok (d_changes t).
(* clean_strict: every dict has unique keys; no boolean, unserialisable or foreign value anywhere in options or
   metadata; no meta/diff options dict holds both a key and the name the DOM writer renames it to *)
Definition tree_strict (t : dtree) : bool :=
  tree_all opts_strict (fun m => json_strict (JObj m)) t && tree_remap_ok t.

Lemma wv_eq_strict : forall v w, wv_strict v = true -> wv_strict w = true -> wv_eq v w = true -> v = w.
Proof.
  intros v w; destruct v, w; cbn; intros SV SW E; try discriminate; auto.
  - apply Z.eqb_eq in E. congruence.
  - apply teq_eq in E. congruence.
  - apply beq_eq in E. congruence.
Qed.
Lemma dopts_eq_lk : forall a b, opts_strict a = true -> opts_strict b = true -> dopts_eq a b = true -> dopts_lk a b.
Proof.
  intros a b SA SB E. unfold opts_strict in *. apply andb_true_iff in SA as [UA VA]. apply andb_true_iff in SB as [UB VB].
  apply dopts_eq_iff in E; auto. destruct E as [KS PW]. rewrite forallb_forall in VA, VB.
  apply keys_unique_NoDup in UA, UB. intro k.
  destruct (assoc_get beq k a) as [v|] eqn:EA.
  - destruct (key_aget_some beq beq_eq k b) as [w EB]. { apply KS. eapply aget_some_key; eauto. exact beq_eq. }
    rewrite EB. f_equal. apply wv_eq_strict; [| |eapply PW; eauto].
    + apply (aget_In beq beq_eq) in EA. apply (VA (k, v)); auto.
    + apply (aget_In beq beq_eq) in EB. apply (VB (k, w)); auto.
  - destruct (assoc_get beq k b) as [w|] eqn:EB; auto.
    apply (aget_None_notin beq beq_eq) in EA. exfalso. apply EA. apply KS. eapply aget_some_key; eauto. exact beq_eq.
Qed.
Lemma meta_eq_dump : forall x y, json_strict (JObj x) = true -> json_strict (JObj y) = true ->
  json_eq (JObj x) (JObj y) = true -> meta_dump_eq x y.
Proof.
  intros x y SX SY E. split.
  - rewrite json_eq_obj in E. unfold dict_eqb in E. apply andb_true_iff in E as [E _]. apply Nat.eqb_eq in E.
    destruct x, y; cbn in *; auto; discriminate.
  - unfold json_dump. apply json_dump_eq_invariant; auto.
Qed.
Lemma msec_eq_lk : forall a b, opts_strict (m_opts a) = true -> opts_strict (m_opts b) = true ->
  json_strict (JObj (m_content a)) = true -> json_strict (JObj (m_content b)) = true ->
  remap_unique "meta" (m_opts a) = true -> remap_unique "meta" (m_opts b) = true ->
  msec_eq a b = true -> msec_lk a b.
Proof.
  intros a b OA OB JA JB RA RB E. unfold msec_eq in E. apply andb_true_iff in E as [E1 E2].
  repeat split; auto. apply dopts_eq_lk; auto. apply meta_eq_dump; auto. apply meta_eq_dump; auto.
Qed.

Lemma file_eq_lk : forall a b,
  file_all opts_strict (fun m => json_strict (JObj m)) a = true -> file_remap_ok a = true ->
  file_all opts_strict (fun m => json_strict (JObj m)) b = true -> file_remap_ok b = true ->
  file_eq a b = true -> file_lk a b.
Proof.
  intros a b SA RA SB RB E. unfold file_all, file_remap_ok, file_eq in *. bsplit SA. bsplit SB. bsplit RA. bsplit RB. bsplit E.
  split; [apply dopts_eq_lk; auto|]. split; [apply msec_eq_lk; auto|].
  unfold dsec_eq in E0. apply andb_true_iff in E0 as [D1 D2]. apply opt_bytes_eq_iff in D2.
  repeat split; auto. apply dopts_eq_lk; auto.
Qed.
Lemma files_eq_lk : forall l l',
  forallb (file_all opts_strict (fun m => json_strict (JObj m))) l = true -> forallb file_remap_ok l = true ->
  forallb (file_all opts_strict (fun m => json_strict (JObj m))) l' = true -> forallb file_remap_ok l' = true ->
  list_eq2 file_eq l l' = true -> Forall2 file_lk l l'.
Proof.
  induction l as [|x l IH]; destruct l' as [|y l']; cbn; intros S1 R1 S2 R2 E; try discriminate; constructor.
  - bsplit S1. bsplit R1. bsplit S2. bsplit R2. bsplit E. apply file_eq_lk; auto.
  - bsplit S1. bsplit R1. bsplit S2. bsplit R2. bsplit E. apply IH; auto.
Qed.
Lemma psec_eq_lk : forall a b, opts_strict (p_opts a) = true -> opts_strict (p_opts b) = true -> psec_eq a b = true -> psec_lk a b.
Proof.
  intros a b OA OB E. unfold psec_eq in E. apply andb_true_iff in E as [E1 E2]. apply opt_text_eq_iff in E2.
  split; auto. apply dopts_eq_lk; auto.
Qed.
Lemma change_eq_lk : forall a b,
  change_all opts_strict (fun m => json_strict (JObj m)) a = true -> change_remap_ok a = true ->
  change_all opts_strict (fun m => json_strict (JObj m)) b = true -> change_remap_ok b = true ->
  change_eq a b = true -> change_lk a b.
Proof.
  intros a b SA RA SB RB E. unfold change_all, change_remap_ok, change_eq in *. bsplit SA. bsplit SB. bsplit RA. bsplit RB. bsplit E.
  split; [apply dopts_eq_lk; auto|]. split; [apply psec_eq_lk; auto|]. split; [apply msec_eq_lk; auto|].
  apply files_eq_lk; auto.
Qed.
Lemma changes_eq_lk : forall l l',
  forallb (change_all opts_strict (fun m => json_strict (JObj m))) l = true -> forallb change_remap_ok l = true ->
  forallb (change_all opts_strict (fun m => json_strict (JObj m))) l' = true -> forallb change_remap_ok l' = true ->
  list_eq2 change_eq l l' = true -> Forall2 change_lk l l'.
Proof.
  induction l as [|x l IH]; destruct l' as [|y l']; cbn; intros S1 R1 S2 R2 E; try discriminate; constructor.
  - bsplit S1. bsplit R1. bsplit S2. bsplit R2. bsplit E. apply change_eq_lk; auto.
  - bsplit S1. bsplit R1. bsplit S2. bsplit R2. bsplit E. apply IH; auto.
Qed.
Theorem tree_eq_lk : forall a b, tree_strict a = true -> tree_strict b = true -> tree_eq a b = true -> tree_lk a b.
Proof.
  intros a b SA SB E. unfold tree_strict in *. apply andb_true_iff in SA as [SA RA]. apply andb_true_iff in SB as [SB RB].
  unfold tree_all, tree_remap_ok, tree_eq in *. bsplit SA. bsplit SB. bsplit RA. bsplit RB. bsplit E.
  split; [apply dopts_eq_lk; auto|]. split; [apply psec_eq_lk; auto|]. split; [apply msec_eq_lk; auto|].
  apply changes_eq_lk; auto.
Qed.

(* equal trees serialise to identical bytes — when no boolean / foreign value sits in options or metadata and no
   options dict collides under the writer's renaming.
   PARTIAL with respect to the property text, which claims it for all trees: that is refuted three ways
   (C19_eq_bytes_refuted: True == 1 in metadata; C19_eq_bytes_refuted_option: the same in an option;
    C19_eq_bytes_refuted_order: the order of raw option keys 'type' / 'diff_type').  Nothing else is missing: the
   hypothesis is exactly the negation of those three situations (plus unique dict keys, which Python guarantees). *)
Theorem C19_eq_bytes_partial : forall a b, tree_strict a = true -> tree_strict b = true ->
  tree_eq a b = true -> dom_write a = dom_write b.
Proof. intros. apply dom_write_lk. apply tree_eq_lk; auto. Qed.

(* ex_tree with the keys of one metadata dict, of its nested stats dict and of the root options in another order *)
Definition ex_tree_perm : dtree :=
  {| d_opts := [(B "version", WStr (ascii_text GenText.writer_version)); (B "encoding", WStr (ascii_text GenText.default_encoding))];
     d_pre := new_psec; d_meta := new_msec;
     d_changes :=
       [ {| c_opts := []; c_pre := new_psec; c_meta := new_msec;
            c_files := [ {| f_opts := [];
                            f_meta := {| m_opts := m_opts new_msec;
                                         m_content := [(skey "stats", JObj [(skey "insertions", JInt 99); (skey "custom", JInt 7)]);
                                                       (skey "path", JStr (skey "a"))] |};
                            f_diff := f_diff ex_file1 |};
                         ex_file2 ] |} ] |}.
