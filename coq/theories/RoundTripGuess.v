(* RoundTripGuess.v — when the reader has to GUESS the newline (metadata sections: no line_endings option in the
   header), its guess on the written bytes is the newline the writer used.  Stated abstractly
   ([aligned_first_nl]: the first LF code point of a text is the first occurrence of the encoded LF in its
   bytes) and proved for the codecs whose LF is the single byte 0x0a that occurs in no other code point's
   encoding (ascii, latin-1, utf-8, utf-8-sig).  For UTF-16/32 misaligned occurrences exist (U+0A41 U+4100 is
   41 0a 00 41 in UTF-16-LE), so there the property is a genuine hypothesis.
   Proof file: nothing of the model is changed here. *)
From Coq Require Import List Arith NArith ZArith Bool Lia ZifyBool Strings.Byte.
From Coq Require Strings.String.
From DX Require Import Bytes Res Codec Text Sections Header Stream Json Reader Writer TextFacts
                       RoundTripCodec RoundTripCodecInst RoundTripCodecUtf RoundTripContent.
From DXGen Require GenText GenCodecs.
Import ListNotations.
Import String.StringSyntax.
Local Open Scope string_scope.
Local Open Scope list_scope.

(* ------------------------------------------------------------------------------------------------ *)
(* find *)

Section Find.
  Context {A : Type} (eqb : A -> A -> bool).
  Hypothesis eqb_spec : forall a b, eqb a b = true <-> a = b.

  Lemma find_at_shift : forall (pat l : list A) k, find_at eqb pat l k = option_map (Nat.add k) (find_at eqb pat l 0).
  Proof.
    intros pat l. induction l as [|x l IH]; intros k; cbn [find_at].
    - destruct (prefixb eqb pat []); cbn; [f_equal; lia | reflexivity].
    - destruct (prefixb eqb pat (x :: l)); cbn; [f_equal; lia|].
      rewrite (IH (S k)), (IH 1). destruct (find_at eqb pat l 0); cbn; [f_equal; lia | reflexivity].
  Qed.

  Lemma find_cons : forall (pat : list A) x l, prefixb eqb pat (x :: l) = false ->
    find eqb pat (x :: l) = option_map S (find eqb pat l).
  Proof.
    intros pat x l H. unfold find. cbn [find_at]. rewrite H. rewrite find_at_shift. reflexivity.
  Qed.

  Lemma find_here : forall (pat l : list A), prefixb eqb pat l = true -> find eqb pat l = Some 0.
  Proof. intros pat l H. unfold find. destruct l; cbn [find_at]; rewrite H; reflexivity. Qed.

  (* a one-element pattern *)
  Lemma prefixb_one : forall a x (l : list A), prefixb eqb [a] (x :: l) = eqb a x.
  Proof. intros. cbn. apply andb_true_r. Qed.

  Lemma find_one_absent : forall a (l : list A), ~ In a l -> find eqb [a] l = None.
  Proof.
    intros a l. induction l as [|x l IH]; intros H; [reflexivity|].
    rewrite find_cons.
    - rewrite IH; [reflexivity|]. intros Hi. apply H. right. exact Hi.
    - rewrite prefixb_one. destruct (eqb a x) eqn:E; [|reflexivity]. apply eqb_spec in E. subst. exfalso. apply H. left. reflexivity.
  Qed.

  Lemma find_one_first : forall a (pre post : list A), ~ In a pre -> find eqb [a] (pre ++ a :: post) = Some (length pre).
  Proof.
    intros a pre post. induction pre as [|x pre IH]; intros H.
    - apply find_here. cbn [app]. rewrite prefixb_one. apply eqb_spec. reflexivity.
    - cbn [app]. rewrite find_cons.
      + rewrite IH; [reflexivity|]. intros Hi. apply H. right. exact Hi.
      + rewrite prefixb_one. destruct (eqb a x) eqn:E; [|reflexivity]. apply eqb_spec in E. subst. exfalso. apply H. left. reflexivity.
  Qed.
End Find.

(* ------------------------------------------------------------------------------------------------ *)
(* the abstract alignment law and its consequence *)

(* the first LF of the text is where the encoded LF first occurs in the bytes *)
Definition aligned_first_nl (bom : bytes) (enc0 : text -> option bytes) : Prop :=
  forall t b nlbu, enc0 t = Some b -> enc0 (nl_text GenText.le_unix) = Some nlbu ->
    match find N.eqb (nl_text GenText.le_unix) t with
    | Some i => exists b1, enc0 (firstn (i + length (nl_text GenText.le_unix)) t) = Some b1 /\
                           bfind nlbu (bom ++ b) = Some (length (bom ++ b1) - length nlbu) /\
                           length nlbu <= length b1
    | None => bfind nlbu (bom ++ b) = None
    end.

Definition codec_ok_aligned (enc : bytes) : Prop :=
  exists c bom enc0, codec_laws enc c bom enc0 /\ aligned_first_nl bom enc0.

Lemma codec_ok_aligned_ok : forall enc, codec_ok_aligned enc -> codec_ok enc.
Proof. intros enc [c [bom [enc0 [H _]]]]. exists c, bom, enc0. exact H. Qed.

Lemma firstn_prefix_enc : forall enc c bom enc0, codec_laws enc c bom enc0 ->
  forall t b k b1, enc0 t = Some b -> enc0 (firstn k t) = Some b1 -> exists b2, b = b1 ++ b2.
Proof.
  intros enc c bom enc0 laws t b k b1 Hb H1. rewrite <- (firstn_skipn k t), (cl_hom _ _ _ _ laws), H1 in Hb.
  destruct (enc0 (skipn k t)) as [b2|]; [|discriminate]. cbn in Hb. injection Hb as <-. exists b2. reflexivity.
Qed.

(* the guess on the encoded bytes is the guess on the text *)
Theorem guess_bytes_text : forall enc c bom enc0, codec_laws enc c bom enc0 -> aligned_first_nl bom enc0 ->
  forall t b le nl nlb, enc0 t = Some b -> guess_line_endings_text t = (le, nl) -> enc0 nl = Some nlb ->
    guess_line_endings_bytes (bom ++ b) (Some enc) = Ok (le, nlb).
Proof.
  intros enc c bom enc0 laws Hal t b le nl nlb Hb Hg Hnl.
  destruct le_named as [Hu Hd].
  destruct (newline_bytes enc c bom enc0 laws _ Hu) as [nu [U1 [_ [_ [U4 [U5 _]]]]]].
  destruct (newline_bytes enc c bom enc0 laws _ Hd) as [nd [D1 [_ [_ [D4 [D5 _]]]]]].
  unfold guess_line_endings_bytes. cbn [enc_or_ascii]. rewrite U4, D4. cbn [bind]. rewrite U5, D5.
  specialize (Hal t b nu Hb U1). unfold guess_line_endings_text in Hg.
  destruct (find N.eqb (nl_text GenText.le_unix) t) as [i|].
  - destruct Hal as [b1 [E1 [E2 E3]]]. rewrite E2.
    destruct (firstn_prefix_enc enc c bom enc0 laws t b _ b1 Hb E1) as [b2 ->].
    replace (length (bom ++ b1) - length nu + length nu) with (length (bom ++ b1)) by (rewrite app_length; lia).
    rewrite app_assoc, firstn_app, Nat.sub_diag, firstn_all. cbn [firstn]. rewrite app_nil_r.
    set (t1 := firstn (i + length (nl_text GenText.le_unix)) t) in *.
    destruct (le_values_facts _ Hd) as [_ [_ [Ad _]]].
    assert (Ht1 : t1 <> []).
    { intros Hn. rewrite Hn in E1. destruct (cl_nl _ _ _ _ laws _ _ (assoc_get_In _ _ _ Ad)) as [x [X1 [X2 _]]].
      destruct (le_values_facts _ Hu) as [_ [_ [Au _]]].
      destruct (cl_nl _ _ _ _ laws _ _ (assoc_get_In _ _ _ Au)) as [y [Y1 [Y2 _]]].
      rewrite U1 in Y1. injection Y1 as <-.
      pose proof (cl_hom _ _ _ _ laws [] []) as H0. cbn [app] in H0. rewrite E1 in H0. cbn in H0.
      injection H0 as H0. assert (length b1 = length (b1 ++ b1)) by congruence. rewrite app_length in H.
      destruct nu; [congruence|]. cbn in E3. lia. }
    rewrite (bends_final enc c bom enc0 laws _ _ nd t1 b1 (assoc_get_In _ _ _ Ad) D1 Ht1 E1).
    destruct (suffixb N.eqb (nl_text GenText.le_dos) t1); injection Hg as <- <-; congruence.
  - rewrite Hal. injection Hg as <- <-. congruence.
Qed.

(* completing a text that already contains an LF does not change the guess *)
Section FindApp.
  Context {A : Type} (eqb : A -> A -> bool).
  Hypothesis eqb_spec : forall a b, eqb a b = true <-> a = b.

  Lemma find_app_some : forall (pat l r : list A) i, find eqb pat l = Some i ->
    find eqb pat (l ++ r) = Some i /\ i + length pat <= length l.
  Proof.
    intros pat l r. induction l as [|x l IH]; intros i H.
    - unfold find in H. cbn [find_at] in H. destruct (prefixb eqb pat []) eqn:E; [|discriminate].
      injection H as <-. destruct pat; [|discriminate]. split; [apply find_here; reflexivity | cbn; lia].
    - destruct (prefixb eqb pat (x :: l)) eqn:E.
      + rewrite (find_here eqb pat _ E) in H. injection H as <-. split.
        * apply find_here. apply (prefixb_app_mono eqb eqb_spec). exact E.
        * apply (prefixb_length eqb eqb_spec) in E. lia.
      + rewrite (find_cons eqb eqb_spec pat x l E) in H. destruct (find eqb pat l) as [i'|]; [|discriminate].
        cbn in H. injection H as <-. destruct (IH i' eq_refl) as [I1 I2].
        cbn [app]. rewrite (find_cons eqb eqb_spec).
        * rewrite I1. split; [reflexivity | cbn; lia].
        * change (x :: l ++ r) with ((x :: l) ++ r). rewrite prefixb_app_long; [exact E | cbn; lia].
  Qed.
End FindApp.

Lemma guess_text_app : forall t r, find N.eqb (nl_text GenText.le_unix) t <> None ->
  guess_line_endings_text (t ++ r) = guess_line_endings_text t.
Proof.
  intros t r H. unfold guess_line_endings_text.
  destruct (find N.eqb (nl_text GenText.le_unix) t) as [i|] eqn:E; [|congruence].
  destruct (find_app_some N.eqb N_eqb_spec _ t r i E) as [E1 E2]. rewrite E1.
  rewrite firstn_app. replace (i + length (nl_text GenText.le_unix) - length t) with 0 by lia.
  cbn [firstn]. rewrite app_nil_r. reflexivity.
Qed.

Lemma guess_text_final : forall t nl, find N.eqb (nl_text GenText.le_unix) t <> None ->
  guess_line_endings_text (final_text nl t) = guess_line_endings_text t.
Proof.
  intros t nl H. unfold final_text. destruct (suffixb N.eqb nl t); [reflexivity | apply guess_text_app; exact H].
Qed.

(* ------------------------------------------------------------------------------------------------ *)
(* the round trip for metadata-like sections: no line_endings and no indent in the header *)

Theorem content_round_trip_meta :
  forall enc, codec_ok_aligned enc ->
  forall (s : wstate) (e t : text) (x : bytes),
    c_enc ascii e = Some enc -> t <> [] -> py_encode t enc = Ok x ->
    find N.eqb (nl_text GenText.le_unix) t <> None ->
    exists body le nl nlb lines,
      guess_line_endings_text t = (le, nl) /\
      get_newline_for_type le (Some enc) = Ok nlb /\
      py_encode (final_text nl t) enc = Ok body /\
      split_lines body nlb true = Ok lines /\
      prepare_content s (CText t) WNone WNone (WStr e) true = Ok (body, WStr (ascii_text le)) /\
      forall st rest, remaining (st_stream st) = body ++ rest -> (Z.of_nat (length body) <= sys_maxsize)%Z ->
        exists st',
          read_content st (Z.of_nat (length body)) (Some (VStr enc)) None None false
            = COk (PText (final_text nl t)) st' /\
          remaining (st_stream st') = rest /\
          st_linenum st' = (st_linenum st + Z.of_nat (length lines))%Z /\
          st_fnl st' = st_fnl st.
Proof.
  intros enc [c [bom [enc0 [laws Hal]]]] s e t x He Ht Hx Hlf.
  destruct (encodable_of_py_encode enc c bom enc0 laws t x Hx) as [b [Hb _]].
  destruct (content_round_trip_guess enc c bom enc0 laws s e t b WNone WNone He Ht Hb la_none ia_none)
    as [body [le [nl [nlb [b' [lines [H1 [H2 [H3 [H4 [H5 [H6 [H7 H8]]]]]]]]]]]]].
  cbn [resolve_le] in H1. cbn [indent_body] in H6. subst body.
  destruct (resolve_le_ok WNone t le nl la_none H1) as [Hv [Hassoc _]].
  destruct (newline_bytes enc c bom enc0 laws le Hv) as [nlb' [N1 [_ [N3 _]]]].
  destruct (le_values_facts le Hv) as [_ [_ [Hassoc' _]]].
  assert (nl = nl_text le) by congruence. subst nl. rewrite H3 in N1. injection N1 as <-.
  exists (bom ++ b'), le, (nl_text le), nlb, lines.
  repeat (split; [first [assumption | apply (py_encode_laws enc c bom enc0 laws); assumption]|]).
  intros st rest. apply (H8 st rest).
  exists le. apply (guess_bytes_text enc c bom enc0 laws Hal (final_text (nl_text le) t) b' le (nl_text le) nlb H4); [|exact H3].
  rewrite guess_text_final by exact Hlf. exact H1.
Qed.

(* ------------------------------------------------------------------------------------------------ *)
(* alignment for code-point codecs whose LF is one byte that occurs in no other encoding *)

Section AlignedCp.
  Variables (f : N -> option bytes) (bom : bytes) (n : N) (z : byte).
  Hypothesis Hunix : nl_text GenText.le_unix = [n].
  Hypothesis Hfn : f n = Some [z].
  Hypothesis Honly : forall c x, f c = Some x -> In z x -> c = n.
  Hypothesis Hbom : ~ In z bom.

  Lemma aligned_aux : forall t pre b, ~ In z pre -> enc_all f t = Some b ->
    match find N.eqb [n] t with
    | Some i => exists b1, enc_all f (firstn (i + 1) t) = Some b1 /\
                           bfind [z] (pre ++ b) = Some (length (pre ++ b1) - 1) /\ 1 <= length b1
    | None => bfind [z] (pre ++ b) = None
    end.
  Proof.
    induction t as [|c r IH]; intros pre b Hpre Hb; cbn [enc_all] in Hb.
    - injection Hb as <-. rewrite app_nil_r. change (find N.eqb [n] []) with (@None nat).
      apply (find_one_absent byte_eqb byte_eqb_spec). exact Hpre.
    - destruct (f c) as [x|] eqn:Ec; [|discriminate]. destruct (enc_all f r) as [b'|] eqn:Er; [|discriminate].
      injection Hb as <-. destruct (N.eqb n c) eqn:E.
      + apply N.eqb_eq in E. subst c. rewrite find_here by (rewrite prefixb_one; apply N.eqb_refl).
        rewrite Hfn in Ec. injection Ec as <-.
        exists [z]. cbn [Nat.add firstn enc_all]. rewrite Hfn. split; [reflexivity|]. split; [|cbn; lia].
        cbn [app]. unfold bfind. rewrite (find_one_first byte_eqb byte_eqb_spec z pre b' Hpre).
        rewrite app_length. cbn. f_equal. lia.
      + rewrite (find_cons N.eqb N_eqb_spec) by (rewrite prefixb_one; exact E).
        assert (Hx : ~ In z x).
        { intros Hi. apply (Honly c x Ec) in Hi. subst c. rewrite N.eqb_refl in E. discriminate. }
        assert (Hpre' : ~ In z (pre ++ x)) by (rewrite in_app_iff; tauto).
        specialize (IH (pre ++ x) b' Hpre' eq_refl). rewrite <- app_assoc in IH.
        destruct (find N.eqb [n] r) as [i|]; cbn [option_map].
        * destruct IH as [b1 [I1 [I2 I3]]]. exists (x ++ b1). cbn [Nat.add firstn enc_all]. rewrite Ec, I1.
          split; [reflexivity|]. split; [|rewrite app_length; lia].
          rewrite I2. rewrite <- app_assoc. reflexivity.
        * exact IH.
  Qed.

  Lemma aligned_of_cp : aligned_first_nl bom (enc_all f).
  Proof.
    intros t b nlbu Hb Hnu. rewrite Hunix in *. rewrite enc_all_one, Hfn in Hnu. injection Hnu as <-.
    pose proof (aligned_aux t bom b Hbom Hb) as H. cbn [length].
    destruct (find N.eqb [n] t) as [i|]; [|exact H].
    destruct H as [b1 [H1 [H2 H3]]]. exists b1. auto.
  Qed.
End AlignedCp.

Lemma n_byte_eq : forall v z, (v < 256)%N -> n_byte v = z -> v = byte_n z.
Proof. intros v z Hv <-. symmetry. apply byte_n_n_byte. exact Hv. Qed.

Lemma enc1_only : forall limit, (limit <= 256)%N -> forall c x, enc1 limit c = Some x -> In x0a x -> c = 10%N.
Proof.
  intros limit Hl c x H Hi. unfold enc1 in H. destruct (c <? limit)%N eqn:E; [|discriminate].
  injection H as <-. destruct Hi as [Hi|[]]. apply n_byte_eq in Hi; [exact Hi | lia].
Qed.

Lemma aligned_single : forall limit, (limit <= 256)%N -> (10 <? limit)%N = true -> aligned_first_nl [] (enc_all (enc1 limit)).
Proof.
  intros limit Hl H10. apply (aligned_of_cp (enc1 limit) [] 10%N x0a).
  - vm_compute. reflexivity.
  - unfold enc1. rewrite H10. reflexivity.
  - apply enc1_only. exact Hl.
  - intros [].
Qed.

Theorem codec_ok_aligned_ascii : forall enc c, lookup_codec enc = LOk (B "ascii") c -> codec_ok_aligned enc.
Proof.
  intros enc c H. pose proof H as H0. canon_is "ascii" ascii H0.
  exists ascii, [], (enc_all (enc1 128)). split.
  - apply (laws_single 128 ascii ltac:(lia) eq_refl enc (B "ascii") H). vm_compute. reflexivity.
  - apply aligned_single; [lia | reflexivity].
Qed.

Theorem codec_ok_aligned_latin1 : forall enc c, lookup_codec enc = LOk (B "iso8859-1") c -> codec_ok_aligned enc.
Proof.
  intros enc c H. pose proof H as H0. canon_is "iso8859-1" latin1 H0.
  exists latin1, [], (enc_all (enc1 256)). split.
  - apply (laws_single 256 latin1 ltac:(lia) eq_refl enc (B "iso8859-1") H). vm_compute. reflexivity.
  - apply aligned_single; [lia | reflexivity].
Qed.

(* utf-8 / utf-8-sig: every byte of a multi-byte sequence is >= 0x80 *)
Ltac Zify.zify_post_hook ::= Z.to_euclidean_division_equations.

Lemma u8_only : forall c x, u8_enc_cp c = Some x -> In x0a x -> c = 10%N.
Proof.
  intros c x H Hi. unfold u8_enc_cp in H.
  assert (K : forall v, (v < 256)%N -> n_byte v = x0a -> v = 10%N).
  { intros v Hv E. apply n_byte_eq in E; [exact E | exact Hv]. }
  destruct (c <? 0x80)%N eqn:E1.
  { apply some_inj in H; subst x. destruct Hi as [Hi|[]]. apply K in Hi; [exact Hi | lia]. }
  destruct (c <? 0x800)%N eqn:E2.
  { apply some_inj in H; subst x. cbn [In] in Hi. destruct Hi as [Hi|[Hi|[]]]; apply K in Hi; lia. }
  destruct (c <? 0x10000)%N eqn:E3.
  { destruct (is_surrogate c); [discriminate|]. apply some_inj in H; subst x. cbn [In] in Hi.
    destruct Hi as [Hi|[Hi|[Hi|[]]]]; apply K in Hi; lia. }
  destruct (c <=? 0x10FFFF)%N eqn:E4; [|discriminate].
  apply some_inj in H; subst x. cbn [In] in Hi. destruct Hi as [Hi|[Hi|[Hi|[Hi|[]]]]]; apply K in Hi; lia.
Qed.

Lemma aligned_u8 : forall bom, ~ In x0a bom -> aligned_first_nl bom (enc_all u8_enc_cp).
Proof.
  intros bom Hb. apply (aligned_of_cp u8_enc_cp bom 10%N x0a).
  - vm_compute. reflexivity.
  - reflexivity.
  - exact u8_only.
  - exact Hb.
Qed.

Theorem codec_ok_aligned_utf8 : forall enc c, lookup_codec enc = LOk (B "utf-8") c -> codec_ok_aligned enc.
Proof.
  intros enc c H. pose proof H as H0. canon_is' "utf-8" utf8 H0.
  exists utf8, [], (enc_all u8_enc_cp). split.
  - apply (codec_laws_of_cp enc (B "utf-8") utf8 [] u8_enc_cp u8_dec);
      [exact H | intros t; rewrite option_map_app_nil; reflexivity | reflexivity | reflexivity
      | exact u8_step | exact u8_nl_ok | vm_compute; reflexivity].
  - apply aligned_u8. intros [].
Qed.

Theorem codec_ok_aligned_utf8sig : forall enc c, lookup_codec enc = LOk (B "utf-8-sig") c -> codec_ok_aligned enc.
Proof.
  intros enc c H. pose proof H as H0. canon_is' "utf-8-sig" utf8sig H0.
  exists utf8sig, bom8, (enc_all u8_enc_cp). split.
  - apply (codec_laws_of_cp enc (B "utf-8-sig") utf8sig bom8 u8_enc_cp u8_dec);
      [exact H | reflexivity | reflexivity | reflexivity
      | exact u8_step | exact u8_nl_ok | vm_compute; reflexivity].
  - apply aligned_u8. cbv. intuition discriminate.
Qed.
