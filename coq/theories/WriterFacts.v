(* WriterFacts.v — proofs about the writer model (Writer.v): property C09
   "Writer enforces section order; rejected calls are atomic; output is append-only". *)
From Coq Require Import List Arith NArith ZArith Bool Strings.Byte Lia.
From Coq Require Strings.String.
From DX Require Import Bytes Res Codec Text Sections Header Json Writer.
From DXGen Require GenSections GenText GenCodecs.
Import ListNotations.
Import String.StringSyntax.
Local Open Scope string_scope.
Local Open Scope list_scope.

(* ------------------------------------------------------------------------------------------------ *)
(* equality tests                                                                                    *)
(* ------------------------------------------------------------------------------------------------ *)
Lemma beq_true_eq : forall a b, beq a b = true -> a = b.
Proof.
  unfold beq. induction a as [|x a IH]; destruct b as [|y b]; cbn; try discriminate; auto.
  intro H. apply andb_true_iff in H as [H1 H2]. apply byte_dec_bl in H1. f_equal; auto.
Qed.

Lemma beq_refl : forall a, beq a a = true.
Proof.
  unfold beq. induction a as [|x a IH]; cbn; auto.
  rewrite IH. unfold byte_eqb. rewrite (byte_dec_lb (eq_refl x)). reflexivity.
Qed.

Lemma teq_true_eq : forall a b, teq a b = true -> a = b.
Proof.
  unfold teq. induction a as [|x a IH]; destruct b as [|y b]; cbn; try discriminate; auto.
  intro H. apply andb_true_iff in H as [H1 H2]. apply N.eqb_eq in H1. f_equal; auto.
Qed.

Lemma teq_refl : forall a, teq a a = true.
Proof. unfold teq. induction a as [|x a IH]; cbn; auto. rewrite IH, N.eqb_refl. reflexivity. Qed.

Lemma in_ids_In : forall a l, in_ids a l = true <-> In a l.
Proof.
  unfold in_ids. induction l as [|y l IH]; cbn.
  - split; [discriminate | tauto].
  - rewrite orb_true_iff, IH. split; intros [H|H]; auto.
    + left. symmetry. apply beq_true_eq; exact H.
    + left. subst. apply beq_refl.
Qed.

Lemma assoc_get_In : forall {V} k (l : list (bytes * V)) v, assoc_get beq k l = Some v -> In (k, v) l.
Proof.
  induction l as [|[k' v'] l IH]; cbn; intros v H; try discriminate.
  destruct (beq k k') eqn:E.
  - inversion H; subst. apply beq_true_eq in E; subst. auto.
  - right. auto.
Qed.

(* ------------------------------------------------------------------------------------------------ *)
(* the state monad: characterisations                                                                *)
(* ------------------------------------------------------------------------------------------------ *)
Lemma bind_get : forall {C} (f : wstate -> M C) s, bindM get_state f s = f s s.
Proof. reflexivity. Qed.

Lemma bind_lift : forall {A C} (r : res A) (f : A -> M C) s,
  bindM (lift r) f s = match r with Ok a => f a s | Err e => (s, Err e) end.
Proof. reflexivity. Qed.

Lemma wsh_eq : forall section opts s,
  write_section_header section opts s =
  match render_header section opts with
  | Err e => (s, Err e)
  | Ok h => ({| w_out := w_out s ++ h; w_stack := w_stack s; w_prev := Some section |}, Ok tt)
  end.
Proof.
  intros. unfold write_section_header. rewrite bind_lift.
  destruct (render_header section opts); reflexivity.
Qed.

Lemma repeat_pop : forall n s, n <= length (w_stack s) ->
  repeatM n pop_once s = ({| w_out := w_out s; w_stack := skipn n (w_stack s); w_prev := w_prev s |}, Ok tt).
Proof.
  induction n; intros s H; cbn [repeatM].
  - unfold ret. destruct s; reflexivity.
  - unfold bindM. unfold pop_once at 1. destruct (w_stack s) as [|e t] eqn:E; [cbn in H; lia|].
    rewrite IHn; cbn [w_stack w_out w_prev]; [reflexivity | cbn in H; lia].
Qed.

(* _new_container_section as a function of the state (needs only a non-empty stack) *)
Lemma ncs_eq : forall name level enc extra s,
  w_stack s <> [] -> 1 <= level ->
  new_container_section name level enc extra s =
  match validate_section s (build_id (level - 1) name) with
  | Err e => (s, Err e)
  | Ok _ =>
      match render_header (build_id (level - 1) name) (dict_set "encoding" enc extra) with
      | Err e => (s, Err e)
      | Ok h =>
          let st := skipn (length (w_stack s) - level) (w_stack s) in
          ({| w_out := w_out s ++ h;
              w_stack := (if wv_truthy enc then enc else hd WNone st) :: st;
              w_prev := Some (build_id (level - 1) name) |}, Ok tt)
      end
  end.
Proof.
  intros name level enc extra s Hne Hl. unfold new_container_section.
  rewrite bind_get, bind_lift.
  destruct (validate_section s _) as [[]|e]; [|reflexivity].
  unfold bindM at 1. rewrite wsh_eq.
  destruct (render_header _ _) as [h|e]; [|reflexivity].
  rewrite bind_get. unfold bindM at 1.
  assert (Hlen : 1 <= length (w_stack s)) by (destruct (w_stack s); [congruence | cbn; lia]).
  unfold cur_level. cbn [w_stack].
  replace (length (w_stack s) - 1 + 1 - level) with (length (w_stack s) - level) by lia.
  rewrite repeat_pop by (cbn [w_stack]; lia).
  cbn [w_stack w_out w_prev]. rewrite bind_get. unfold cur_encoding. cbn [w_stack].
  destruct (skipn (length (w_stack s) - level) (w_stack s)) as [|e t] eqn:E.
  - exfalso. apply (f_equal (@length _)) in E. rewrite skipn_length in E. cbn in E. lia.
  - rewrite bind_lift. reflexivity.
Qed.

(* _new_content_section as a function of the state (no hypothesis) *)
Lemma ncontent_eq : forall name content le enc ind wle inh extra s,
  new_content_section name content le enc ind wle inh extra s =
  match validate_section s (build_id (cur_level s + 1 - 1) name) with
  | Err e => (s, Err e)
  | Ok _ =>
      match prepare_content s content ind le enc inh with
      | Err e => (s, Err e)
      | Ok (body, le_out) =>
          let ho := dict_set "length" (content_length body) (dict_set "indent" ind (dict_set "encoding" enc extra)) in
          let ho := if wle then dict_set "line_endings" le_out ho else ho in
          match render_header (build_id (cur_level s + 1 - 1) name) ho with
          | Err e => (s, Err e)
          | Ok h => ({| w_out := (w_out s ++ h) ++ body; w_stack := w_stack s;
                        w_prev := Some (build_id (cur_level s + 1 - 1) name) |}, Ok tt)
          end
      end
  end.
Proof.
  intros. unfold new_content_section. rewrite bind_get, bind_lift.
  destruct (validate_section s _) as [[]|e]; [|reflexivity].
  rewrite bind_lift.
  destruct (prepare_content s content ind le enc inh) as [[body le_out]|e]; [|reflexivity].
  cbv zeta. unfold bindM. rewrite wsh_eq.
  destruct (render_header _ _) as [h|e]; reflexivity.
Qed.

(* ------------------------------------------------------------------------------------------------ *)
(* C09 (3): output is append-only — for every call, every argument, every state                      *)
(* ------------------------------------------------------------------------------------------------ *)
Definition appends {A} (m : M A) : Prop :=
  forall s s' r, m s = (s', r) -> exists suf, w_out s' = w_out s ++ suf.

Lemma appends_bind : forall {A C} (m : M A) (f : A -> M C),
  appends m -> (forall a, appends (f a)) -> appends (bindM m f).
Proof.
  intros A C m f Hm Hf s s' r. unfold bindM. destruct (m s) as [s1 r1] eqn:E.
  destruct (Hm _ _ _ E) as [u Hu]. destruct r1 as [a|e].
  - intro H. destruct (Hf _ _ _ _ H) as [v Hv]. exists (u ++ v). rewrite Hv, Hu, app_assoc. reflexivity.
  - intro H. inversion H; subst. eauto.
Qed.

Lemma appends_same : forall {A} (m : M A), (forall s, w_out (fst (m s)) = w_out s) -> appends m.
Proof.
  intros A m H s s' r E. exists []. rewrite app_nil_r. specialize (H s). rewrite E in H. exact H.
Qed.

Lemma appends_lift : forall {A} (r : res A), appends (lift r).
Proof. intros. apply appends_same. reflexivity. Qed.
Lemma appends_ret : forall {A} (a : A), appends (ret a).
Proof. intros. apply appends_same. reflexivity. Qed.
Lemma appends_get : appends get_state.
Proof. apply appends_same. reflexivity. Qed.
Lemma appends_set_prev : forall x, appends (set_prev x).
Proof. intros. apply appends_same. reflexivity. Qed.
Lemma appends_push : forall x, appends (push x).
Proof. intros. apply appends_same. reflexivity. Qed.
Lemma appends_pop : appends pop_once.
Proof. apply appends_same. intro s. unfold pop_once. destruct (w_stack s); reflexivity. Qed.
Lemma appends_emit : forall b, appends (emit b).
Proof. intros b s s' r H. unfold emit in H. inversion H; subst. cbn. eauto. Qed.
Lemma appends_repeat : forall n m, appends m -> appends (repeatM n m).
Proof.
  induction n; intros m Hm; cbn [repeatM].
  - apply appends_ret.
  - apply appends_bind; auto.
Qed.

Lemma appends_wsh : forall section opts, appends (write_section_header section opts).
Proof.
  intros. unfold write_section_header.
  apply appends_bind; [apply appends_lift|]. intro h.
  apply appends_bind; [apply appends_emit|]. intros _. apply appends_set_prev.
Qed.

Lemma appends_ncs : forall name level enc extra, appends (new_container_section name level enc extra).
Proof.
  intros. unfold new_container_section.
  apply appends_bind; [apply appends_get|]. intro s.
  apply appends_bind; [apply appends_lift|]. intros _.
  apply appends_bind; [apply appends_wsh|]. intros _.
  apply appends_bind; [apply appends_get|]. intro s1.
  apply appends_bind; [apply appends_repeat, appends_pop|]. intros _.
  apply appends_bind; [apply appends_get|]. intro s2.
  apply appends_bind; [apply appends_lift|]. intro cur.
  apply appends_push.
Qed.

Lemma appends_ncontent : forall name content le enc ind wle inh extra,
  appends (new_content_section name content le enc ind wle inh extra).
Proof.
  intros. unfold new_content_section.
  apply appends_bind; [apply appends_get|]. intro s.
  apply appends_bind; [apply appends_lift|]. intros _.
  apply appends_bind; [apply appends_lift|]. intros [body le_out].
  apply appends_bind; [apply appends_wsh|]. intros _.
  apply appends_emit.
Qed.

Lemma appends_do_call : forall c, appends (do_call c).
Proof.
  destruct c as [e|e|text enc ind le mt|md enc fmt|content dt enc le]; cbn [do_call].
  - apply appends_ncs.
  - apply appends_ncs.
  - destruct text; try apply appends_lift.
    apply appends_bind; [apply appends_lift|]. intro mok.
    destruct (negb mok); [apply appends_lift | apply appends_ncontent].
  - destruct md; try apply appends_lift.
    destruct (negb (wv_truthy (WDict j))); [apply appends_lift|].
    apply appends_bind; [apply appends_lift|]. intro fok.
    destruct (negb fok); [apply appends_lift|].
    apply appends_bind; [apply appends_lift|]. intro dumped.
    apply appends_bind; [apply appends_get|]. intro s0.
    apply appends_bind; [apply appends_lift|]. intro has_enc. apply appends_ncontent.
  - destruct content; try apply appends_lift.
    apply appends_bind; [apply appends_lift|]. intro tok.
    destruct (negb tok); [apply appends_lift | apply appends_ncontent].
Qed.

Theorem C09_append : forall c s s' r, do_call c s = (s', r) -> exists suf, w_out s' = w_out s ++ suf.
Proof. intros c s s' r H. exact (appends_do_call c s s' r H). Qed.

Lemma run_calls_cons : forall s c t,
  run_calls s (c :: t) =
  ((snd (do_call c s), length (w_out (fst (do_call c s)))) :: fst (run_calls (fst (do_call c s)) t),
   snd (run_calls (fst (do_call c s)) t)).
Proof.
  intros. cbn [run_calls]. destruct (do_call c s) as [s' r]. cbn [fst snd].
  destruct (run_calls s' t) as [rs f]. reflexivity.
Qed.

Theorem C09_append_run : forall cs s, exists suf, w_out (snd (run_calls s cs)) = w_out s ++ suf.
Proof.
  induction cs as [|c t IH]; intro s.
  - exists []. cbn. rewrite app_nil_r. reflexivity.
  - rewrite run_calls_cons. cbn [snd].
    destruct (do_call c s) as [s' r] eqn:E. cbn [fst].
    destruct (C09_append _ _ _ _ E) as [u Hu]. destruct (IH s') as [v Hv].
    exists (u ++ v). rewrite Hv, Hu, app_assoc. reflexivity.
Qed.

(* every prefix of a call sequence leaves an output that is a prefix of the final output *)
Lemma run_calls_app_snd : forall cs cs' s,
  snd (run_calls s (cs ++ cs')) = snd (run_calls (snd (run_calls s cs)) cs').
Proof.
  induction cs as [|c t IH]; intros cs' s.
  - reflexivity.
  - cbn [app]. rewrite !run_calls_cons. cbn [snd]. apply IH.
Qed.

Theorem C09_append_prefix : forall cs cs' s,
  exists suf, w_out (snd (run_calls s (cs ++ cs'))) = w_out (snd (run_calls s cs)) ++ suf.
Proof. intros. rewrite run_calls_app_snd. apply C09_append_run. Qed.

(* ------------------------------------------------------------------------------------------------ *)
(* C09 (2): atomicity of rejected calls                                                              *)
(* ------------------------------------------------------------------------------------------------ *)
Lemma ncs_atomic : forall name level enc extra s s' e,
  w_stack s <> [] -> 1 <= level ->
  new_container_section name level enc extra s = (s', Err e) -> s' = s.
Proof.
  intros name level enc extra s s' e Hne Hl H. rewrite ncs_eq in H by assumption.
  destruct (validate_section s _) as [[]|e1]; [|inversion H; reflexivity].
  destruct (render_header _ _) as [h|e1]; [|inversion H; reflexivity].
  cbv zeta in H. inversion H.
Qed.

Lemma ncontent_atomic : forall name content le enc ind wle inh extra s s' e,
  new_content_section name content le enc ind wle inh extra s = (s', Err e) -> s' = s.
Proof.
  intros name content le enc ind wle inh extra s s' e H. rewrite ncontent_eq in H.
  destruct (validate_section s _) as [[]|e1]; [|inversion H; reflexivity].
  destruct (prepare_content _ _ _ _ _ _) as [[body le_out]|e1]; [|inversion H; reflexivity].
  cbv zeta in H.
  destruct (render_header _ _) as [h|e1]; inversion H; reflexivity.
Qed.

Lemma lift_err_same : forall {A} (r : res A) s s' e, lift r s = (s', Err e) -> s' = s.
Proof. intros A r s s' e H. unfold lift in H. inversion H; reflexivity. Qed.

(* the only hypothesis atomicity needs is a non-empty encoding stack *)
Lemma do_call_atomic : forall c s s' e,
  w_stack s <> [] -> do_call c s = (s', Err e) -> s' = s.
Proof.
  intros c s s' e Hne H.
  destruct c as [en|en|text enc ind le mt|md enc fmt|content dt enc le]; cbn [do_call] in H.
  - eapply ncs_atomic; [exact Hne | | exact H]. unfold GenText.writer_level_change. lia.
  - eapply ncs_atomic; [exact Hne | | exact H]. unfold GenText.writer_level_file. lia.
  - destruct text; try (eapply lift_err_same; eassumption).
    rewrite bind_lift in H.
    destruct (match mt with WNone => Ok true | _ => _ end) as [mok|e1]; [|inversion H; reflexivity].
    destruct (negb mok); [eapply lift_err_same; eassumption|].
    eapply ncontent_atomic; eassumption.
  - destruct md; try (eapply lift_err_same; eassumption).
    destruct (negb (wv_truthy (WDict j))); [eapply lift_err_same; eassumption|].
    rewrite bind_lift in H.
    destruct (in_strset _ _) as [fok|e1]; [|inversion H; reflexivity].
    destruct (negb fok); [eapply lift_err_same; eassumption|].
    rewrite bind_lift in H.
    destruct (json_dump j) as [d|e1]; [|inversion H; reflexivity].
    rewrite bind_get, bind_lift in H.
    destruct (if wv_truthy enc then _ else _) as [he|e1]; [|inversion H; reflexivity].
    eapply ncontent_atomic; eassumption.
  - destruct content; try (eapply lift_err_same; eassumption).
    rewrite bind_lift in H.
    destruct (match dt with WNone => Ok true | _ => _ end) as [tok|e1]; [|inversion H; reflexivity].
    destruct (negb tok); [eapply lift_err_same; eassumption|].
    eapply ncontent_atomic; eassumption.
Qed.

(* ------------------------------------------------------------------------------------------------ *)
(* the invariant of reachable states                                                                 *)
(* ------------------------------------------------------------------------------------------------ *)
(* the nine section ids = the keys of the generated table *)
Definition ids : list bytes := map fst GenSections.valid_states.

(* container level of a section id (the number of open containers when it is the last written section) *)
Definition level_of (p : bytes) : nat :=
  if in_ids p [GenSections.sec_main; GenSections.sec_main_preamble; GenSections.sec_main_meta] then 1
  else if in_ids p [GenSections.sec_change; GenSections.sec_change_preamble; GenSections.sec_change_meta] then 2
  else if in_ids p [GenSections.sec_file; GenSections.sec_file_meta; GenSections.sec_file_diff] then 3
  else 0.

(* the generated row of a section id: what may follow it *)
Definition table (p : bytes) : list bytes := match table_get p with Some v => v | None => [] end.

Definition Inv (s : wstate) : Prop :=
  exists p, w_prev s = Some p /\ In p ids /\ length (w_stack s) = 1 + level_of p.

Definition content_names : list bytes := [B "preamble"; B "meta"; B "diff"].
Definition change_id : bytes := build_id (GenText.writer_level_change - 1) (B "change").
Definition file_id : bytes := build_id (GenText.writer_level_file - 1) (B "file").
Definition main_id : bytes := build_id (GenText.writer_level_main - 1) (B "diffx").

(* finite facts about the generated table, checked by computation *)
Definition id_ok (p : bytes) : bool :=
  match table_get p with
  | None => false
  | Some row =>
      implb (in_ids change_id row) (Nat.leb GenText.writer_level_change (1 + level_of p))
      && implb (in_ids file_id row) (Nat.leb GenText.writer_level_file (1 + level_of p))
      && forallb (fun name => let t := build_id (level_of p) name in
                              implb (in_ids t row) (in_ids t ids && Nat.eqb (level_of t) (level_of p)))
                 content_names
      && forallb (fun m => in_ids m ids) row
  end.

Lemma ids_ok : forallb id_ok ids = true.
Proof. vm_compute. reflexivity. Qed.

Lemma containers_ok :
  in_ids main_id ids = true /\ level_of main_id = GenText.writer_level_main /\
  in_ids change_id ids = true /\ level_of change_id = GenText.writer_level_change /\
  in_ids file_id ids = true /\ level_of file_id = GenText.writer_level_file.
Proof. vm_compute. repeat split; reflexivity. Qed.

Lemma validate_ok : forall s sec p,
  w_prev s = Some p -> validate_section s sec = Ok tt ->
  exists row, table_get p = Some row /\ in_ids sec row = true.
Proof.
  intros s sec p Hp H. unfold validate_section in H. rewrite Hp in H.
  destruct (table_get p) as [row|]; [|discriminate].
  exists row. split; auto. destruct (in_ids sec row); [reflexivity | discriminate].
Qed.

Lemma validate_ok_table : forall s sec p,
  w_prev s = Some p -> (validate_section s sec = Ok tt <-> In sec (table p)).
Proof.
  intros s sec p Hp. unfold validate_section, table. rewrite Hp.
  destruct (table_get p) as [row|].
  - rewrite <- in_ids_In. destruct (in_ids sec row); split; intro H; auto; discriminate.
  - split; [discriminate | intros []].
Qed.

Lemma Inv_stack : forall s, Inv s -> w_stack s <> [].
Proof. intros s (p & _ & _ & Hl) E. rewrite E in Hl. cbn in Hl. lia. Qed.

Lemma id_ok_of : forall p, In p ids -> id_ok p = true.
Proof. intros p H. exact (proj1 (forallb_forall id_ok ids) ids_ok p H). Qed.

Lemma ncs_inv_gen : forall name level enc extra s s' r,
  Inv s -> 1 <= level ->
  in_ids (build_id (level - 1) name) ids = true -> level_of (build_id (level - 1) name) = level ->
  (forall p row, w_prev s = Some p -> table_get p = Some row ->
                 in_ids (build_id (level - 1) name) row = true -> level <= length (w_stack s)) ->
  new_container_section name level enc extra s = (s', r) -> Inv s'.
Proof.
  intros name level enc extra s s' r HI Hl Hin Hlev Hrow H.
  rewrite ncs_eq in H by (auto using Inv_stack).
  destruct (validate_section s _) as [[]|e1] eqn:EV; [|inversion H; subst; exact HI].
  destruct (render_header _ _) as [h|e1]; [|inversion H; subst; exact HI].
  cbv zeta in H. inversion H; subst; clear H.
  destruct HI as (p & Hp & Hpid & Hlen).
  destruct (validate_ok _ _ _ Hp EV) as (row & Hrw & Hmem).
  specialize (Hrow p row Hp Hrw Hmem).
  exists (build_id (level - 1) name). cbn [w_prev w_stack]. split; [reflexivity|]. split.
  - apply in_ids_In; exact Hin.
  - rewrite Hlev. cbn [length]. rewrite skipn_length. lia.
Qed.

Lemma cur_level_Inv : forall s p, w_prev s = Some p -> Inv s -> cur_level s = level_of p.
Proof.
  intros s p Hp (p' & Hp' & _ & Hl). rewrite Hp in Hp'. inversion Hp'; subst.
  unfold cur_level. lia.
Qed.

Lemma ncontent_inv : forall name content le enc ind wle inh extra s s' r,
  In name content_names -> Inv s ->
  new_content_section name content le enc ind wle inh extra s = (s', r) -> Inv s'.
Proof.
  intros name content le enc ind wle inh extra s s' r Hname HI H.
  rewrite ncontent_eq in H.
  destruct (validate_section s _) as [[]|e1] eqn:EV; [|inversion H; subst; exact HI].
  destruct (prepare_content _ _ _ _ _ _) as [[body le_out]|e1]; [|inversion H; subst; exact HI].
  cbv zeta in H.
  destruct (render_header _ _) as [h|e1]; [|inversion H; subst; exact HI].
  inversion H; subst; clear H.
  pose proof HI as (p & Hp & Hpid & Hlen).
  destruct (validate_ok _ _ _ Hp EV) as (row & Hrw & Hmem).
  pose proof (id_ok_of p Hpid) as Hok. unfold id_ok in Hok. rewrite Hrw in Hok.
  apply andb_true_iff in Hok as [Hok _]. apply andb_true_iff in Hok as [_ Hok].
  rewrite forallb_forall in Hok. specialize (Hok name Hname). cbv zeta in Hok.
  replace (cur_level s + 1 - 1) with (level_of p) in *
    by (rewrite (cur_level_Inv s p Hp HI); lia).
  rewrite Hmem in Hok. cbn [implb] in Hok. apply andb_true_iff in Hok as [Hin Hlv].
  apply Nat.eqb_eq in Hlv.
  exists (build_id (level_of p) name). cbn [w_prev w_stack].
  split; [reflexivity|]. split; [apply in_ids_In; exact Hin | lia].
Qed.

Lemma do_call_inv : forall c s s' r, Inv s -> do_call c s = (s', r) -> Inv s'.
Proof.
  intros c s s' r HI H.
  assert (Hkeep : forall (x : res unit), lift x s = (s', r) -> Inv s').
  { intros x Hx. unfold lift in Hx. inversion Hx; subst; exact HI. }
  destruct containers_ok as (_ & _ & Hc1 & Hc2 & Hf1 & Hf2).
  destruct c as [en|en|text enc ind le mt|md enc fmt|content dt enc le]; cbn [do_call] in H.
  - eapply ncs_inv_gen; [exact HI | | exact Hc1 | exact Hc2 | | exact H].
    + unfold GenText.writer_level_change; lia.
    + intros p row Hp Hrw Hmem. destruct HI as (p' & Hp' & Hpid & Hlen).
      rewrite Hp in Hp'. inversion Hp'; subst p'.
      pose proof (id_ok_of p Hpid) as Hok. unfold id_ok in Hok. rewrite Hrw in Hok.
      apply andb_true_iff in Hok as [Hok _]. apply andb_true_iff in Hok as [Hok _].
      apply andb_true_iff in Hok as [Hok _].
      fold change_id in Hmem. rewrite Hmem in Hok. cbn [implb] in Hok.
      apply Nat.leb_le in Hok. lia.
  - eapply ncs_inv_gen; [exact HI | | exact Hf1 | exact Hf2 | | exact H].
    + unfold GenText.writer_level_file; lia.
    + intros p row Hp Hrw Hmem. destruct HI as (p' & Hp' & Hpid & Hlen).
      rewrite Hp in Hp'. inversion Hp'; subst p'.
      pose proof (id_ok_of p Hpid) as Hok. unfold id_ok in Hok. rewrite Hrw in Hok.
      apply andb_true_iff in Hok as [Hok _]. apply andb_true_iff in Hok as [Hok _].
      apply andb_true_iff in Hok as [_ Hok].
      fold file_id in Hmem. rewrite Hmem in Hok. cbn [implb] in Hok.
      apply Nat.leb_le in Hok. lia.
  - destruct text; try (eapply Hkeep; eassumption).
    rewrite bind_lift in H.
    destruct (match mt with WNone => Ok true | _ => _ end) as [mok|e1]; [|inversion H; subst; exact HI].
    destruct (negb mok); [eapply Hkeep; eassumption|].
    eapply ncontent_inv; [| exact HI | exact H]. cbn; auto.
  - destruct md; try (eapply Hkeep; eassumption).
    destruct (negb (wv_truthy (WDict j))); [eapply Hkeep; eassumption|].
    rewrite bind_lift in H.
    destruct (in_strset _ _) as [fok|e1]; [|inversion H; subst; exact HI].
    destruct (negb fok); [eapply Hkeep; eassumption|].
    rewrite bind_lift in H.
    destruct (json_dump j) as [d|e1]; [|inversion H; subst; exact HI].
    rewrite bind_get, bind_lift in H.
    destruct (if wv_truthy enc then _ else _) as [he|e1]; [|inversion H; subst; exact HI].
    eapply ncontent_inv; [| exact HI | exact H]. cbn; auto.
  - destruct content; try (eapply Hkeep; eassumption).
    rewrite bind_lift in H.
    destruct (match dt with WNone => Ok true | _ => _ end) as [tok|e1]; [|inversion H; subst; exact HI].
    destruct (negb tok); [eapply Hkeep; eassumption|].
    eapply ncontent_inv; [| exact HI | exact H]. cbn; auto.
Qed.

Lemma run_calls_inv : forall cs s, Inv s -> Inv (snd (run_calls s cs)).
Proof.
  induction cs as [|c t IH]; intros s HI; [exact HI|].
  rewrite run_calls_cons. cbn [snd]. apply IH.
  destruct (do_call c s) as [s' r] eqn:E. cbn [fst]. eapply do_call_inv; eauto.
Qed.

Lemma init_inv : forall enc ver s0, writer_init enc ver = (s0, Ok tt) -> Inv s0.
Proof.
  intros enc ver s0 H. unfold writer_init in H.
  destruct (in_strset ver GenText.versions) as [[|]|e]; try (inversion H; fail).
  rewrite ncs_eq in H; [| cbn; discriminate | unfold GenText.writer_level_main; lia].
  unfold validate_section in H. cbn [w_prev w_stack w_out] in H.
  destruct (render_header _ _) as [h|e]; [|inversion H].
  cbv zeta in H. inversion H; subst; clear H.
  destruct containers_ok as (Hm1 & Hm2 & _).
  exists main_id. cbn [w_prev w_stack]. split; [reflexivity|]. split.
  - apply in_ids_In; exact Hm1.
  - rewrite Hm2. reflexivity.
Qed.

(* reachable: the state of a successfully constructed writer after any sequence of calls (whatever their results) *)
Definition reachable (s : wstate) : Prop :=
  exists enc ver s0 cs, writer_init enc ver = (s0, Ok tt) /\ snd (run_calls s0 cs) = s.

Lemma reachable_inv : forall s, reachable s -> Inv s.
Proof.
  intros s (enc & ver & s0 & cs & Hi & Hr). subst s. apply run_calls_inv. eapply init_inv; eauto.
Qed.

Lemma reachable_init : forall enc ver s0, writer_init enc ver = (s0, Ok tt) -> reachable s0.
Proof. intros enc ver s0 H. exists enc, ver, s0, []. auto. Qed.

Lemma reachable_step : forall c s s' r, reachable s -> do_call c s = (s', r) -> reachable s'.
Proof.
  intros c s s' r (enc & ver & s0 & cs & Hi & Hr) H.
  exists enc, ver, s0, (cs ++ [c]). split; auto.
  rewrite run_calls_app_snd, Hr, run_calls_cons. cbn [snd run_calls]. rewrite H. reflexivity.
Qed.

Lemma reachable_run : forall cs s, reachable s -> reachable (snd (run_calls s cs)).
Proof.
  induction cs as [|c t IH]; intros s Hs; [exact Hs|].
  rewrite run_calls_cons. cbn [snd]. apply IH.
  destruct (do_call c s) as [s' r] eqn:E. cbn [fst]. eapply reachable_step; eauto.
Qed.

(* the shape of reachable states: the last written section is one of the nine ids and the depth of the
   encoding stack is determined by it *)
Theorem C09_state_shape : forall s, reachable s ->
  exists p, w_prev s = Some p /\ In p ids /\ length (w_stack s) = 1 + level_of p /\ cur_level s = level_of p.
Proof.
  intros s Hs. pose proof (reachable_inv s Hs) as HI. pose proof HI as (p & Hp & Hid & Hl).
  exists p. repeat split; auto. apply cur_level_Inv; auto.
Qed.

(* ------------------------------------------------------------------------------------------------ *)
(* C09 (2) and (5)                                                                                   *)
(* ------------------------------------------------------------------------------------------------ *)
Theorem C09_atomic : forall s, reachable s -> forall c s' e, do_call c s = (s', Err e) -> s' = s.
Proof. intros s Hs c s' e H. eapply do_call_atomic; eauto. apply Inv_stack, reachable_inv, Hs. Qed.

Theorem C09_no_byte_written : forall s, reachable s -> forall c s' e,
  do_call c s = (s', Err e) -> w_out s' = w_out s /\ w_stack s' = w_stack s /\ w_prev s' = w_prev s.
Proof. intros s Hs c s' e H. rewrite (C09_atomic s Hs c s' e H). auto. Qed.

Theorem C09_continue : forall s, reachable s -> forall c s' e cs,
  do_call c s = (s', Err e) -> run_calls s' cs = run_calls s cs.
Proof. intros s Hs c s' e cs H. rewrite (C09_atomic s Hs c s' e H). reflexivity. Qed.

(* a rejected call inside a sequence can be deleted without changing the final state or the later results *)
Theorem C09_continue_run : forall s, reachable s -> forall c s' e cs,
  do_call c s = (s', Err e) ->
  run_calls s (c :: cs) = ((Err e, length (w_out s)) :: fst (run_calls s cs), snd (run_calls s cs)).
Proof.
  intros s Hs c s' e cs H. rewrite run_calls_cons, H. cbn [fst snd].
  rewrite (C09_atomic s Hs c s' e H). reflexivity.
Qed.

(* ------------------------------------------------------------------------------------------------ *)
(* C09 (4), direction "accepted => order respected"                                                  *)
(* ------------------------------------------------------------------------------------------------ *)
(* the section id a call writes *)
Definition target (s : wstate) (c : call) : bytes :=
  match c with
  | NewChange _ => build_id (GenText.writer_level_change - 1) (B "change")
  | NewFile _ => build_id (GenText.writer_level_file - 1) (B "file")
  | WritePreamble _ _ _ _ _ => build_id (cur_level s + 1 - 1) (B "preamble")
  | WriteMeta _ _ _ => build_id (cur_level s + 1 - 1) (B "meta")
  | WriteDiff _ _ _ _ => build_id (cur_level s + 1 - 1) (B "diff")
  end.

Lemma do_call_ok_validate : forall c s s',
  w_stack s <> [] -> do_call c s = (s', Ok tt) -> validate_section s (target s c) = Ok tt.
Proof.
  intros c s s' Hne H.
  assert (Hno : forall (e : exn), @lift unit (Err e) s = (s', Ok tt) -> False).
  { intros e Hx. unfold lift in Hx. inversion Hx. }
  destruct c as [en|en|text enc ind le mt|md enc fmt|content dt enc le]; cbn [do_call target] in *.
  - rewrite ncs_eq in H; [| exact Hne | unfold GenText.writer_level_change; lia].
    destruct (validate_section s _) as [[]|e1]; [reflexivity | inversion H].
  - rewrite ncs_eq in H; [| exact Hne | unfold GenText.writer_level_file; lia].
    destruct (validate_section s _) as [[]|e1]; [reflexivity | inversion H].
  - destruct text; try (exfalso; eapply Hno; eassumption).
    rewrite bind_lift in H.
    destruct (match mt with WNone => Ok true | _ => _ end) as [mok|e1]; [|inversion H].
    destruct (negb mok); [exfalso; eapply Hno; eassumption|].
    rewrite ncontent_eq in H.
    destruct (validate_section s _) as [[]|e1]; [reflexivity | inversion H].
  - destruct md; try (exfalso; eapply Hno; eassumption).
    destruct (negb (wv_truthy (WDict j))); [exfalso; eapply Hno; eassumption|].
    rewrite bind_lift in H.
    destruct (in_strset _ _) as [fok|e1]; [|inversion H].
    destruct (negb fok); [exfalso; eapply Hno; eassumption|].
    rewrite bind_lift in H.
    destruct (json_dump j) as [d|e1]; [|inversion H].
    rewrite bind_get, bind_lift in H.
    destruct (if wv_truthy enc then _ else _) as [he|e1]; [|inversion H].
    rewrite ncontent_eq in H.
    destruct (validate_section s _) as [[]|e1]; [reflexivity | inversion H].
  - destruct content; try (exfalso; eapply Hno; eassumption).
    rewrite bind_lift in H.
    destruct (match dt with WNone => Ok true | _ => _ end) as [tok|e1]; [|inversion H].
    destruct (negb tok); [exfalso; eapply Hno; eassumption|].
    rewrite ncontent_eq in H.
    destruct (validate_section s _) as [[]|e1]; [reflexivity | inversion H].
Qed.

Theorem C09_accept_order : forall s c s', reachable s -> do_call c s = (s', Ok tt) ->
  exists p, w_prev s = Some p /\ In (target s c) (table p).
Proof.
  intros s c s' Hs H. pose proof (reachable_inv s Hs) as HI.
  pose proof HI as (p & Hp & _ & _). exists p. split; [exact Hp|].
  apply (validate_ok_table s _ p Hp).
  eapply do_call_ok_validate; eauto using Inv_stack.
Qed.

(* an accepted call makes its target the new "previous section" *)
Theorem C09_accept_prev : forall s c s', reachable s -> do_call c s = (s', Ok tt) -> w_prev s' = Some (target s c).
Proof.
  intros s c s' Hs H. pose proof (Inv_stack s (reachable_inv s Hs)) as Hne.
  assert (Hno : forall (e : exn), @lift unit (Err e) s = (s', Ok tt) -> False).
  { intros e Hx. unfold lift in Hx. inversion Hx. }
  assert (Hcont : forall name content le enc ind wle inh extra,
            new_content_section name content le enc ind wle inh extra s = (s', Ok tt) ->
            w_prev s' = Some (build_id (cur_level s + 1 - 1) name)).
  { intros name content le enc ind wle inh extra Hx. rewrite ncontent_eq in Hx.
    destruct (validate_section s _) as [[]|e1]; [|inversion Hx].
    destruct (prepare_content _ _ _ _ _ _) as [[body le_out]|e1]; [|inversion Hx].
    cbv zeta in Hx. destruct (render_header _ _) as [h|e1]; inversion Hx; reflexivity. }
  assert (Hcon : forall name level enc extra, 1 <= level ->
            new_container_section name level enc extra s = (s', Ok tt) ->
            w_prev s' = Some (build_id (level - 1) name)).
  { intros name level enc extra Hl Hx. rewrite ncs_eq in Hx by assumption.
    destruct (validate_section s _) as [[]|e1]; [|inversion Hx].
    destruct (render_header _ _) as [h|e1]; [|inversion Hx].
    cbv zeta in Hx. inversion Hx; reflexivity. }
  destruct c as [en|en|text enc ind le mt|md enc fmt|content dt enc le]; cbn [do_call target] in *.
  - eapply Hcon; [|exact H]. unfold GenText.writer_level_change; lia.
  - eapply Hcon; [|exact H]. unfold GenText.writer_level_file; lia.
  - destruct text; try (exfalso; eapply Hno; eassumption).
    rewrite bind_lift in H.
    destruct (match mt with WNone => Ok true | _ => _ end) as [mok|e1]; [|inversion H].
    destruct (negb mok); [exfalso; eapply Hno; eassumption|]. eapply Hcont; eassumption.
  - destruct md; try (exfalso; eapply Hno; eassumption).
    destruct (negb (wv_truthy (WDict j))); [exfalso; eapply Hno; eassumption|].
    rewrite bind_lift in H.
    destruct (in_strset _ _) as [fok|e1]; [|inversion H].
    destruct (negb fok); [exfalso; eapply Hno; eassumption|].
    rewrite bind_lift in H.
    destruct (json_dump j) as [d|e1]; [|inversion H].
    rewrite bind_get, bind_lift in H.
    destruct (if wv_truthy enc then _ else _) as [he|e1]; [|inversion H]. eapply Hcont; eassumption.
  - destruct content; try (exfalso; eapply Hno; eassumption).
    rewrite bind_lift in H.
    destruct (match dt with WNone => Ok true | _ => _ end) as [tok|e1]; [|inversion H].
    destruct (negb tok); [exfalso; eapply Hno; eassumption|]. eapply Hcont; eassumption.
Qed.

(* ------------------------------------------------------------------------------------------------ *)
(* rendering of headers never fails on ASCII-renderable option values                                *)
(* ------------------------------------------------------------------------------------------------ *)
Definition is_ascii (t : text) : bool := forallb (fun c => N.ltb c 128) t.
Definition bytes_ascii (b : bytes) : bool := is_ascii (ascii_text b).

(* option values the header renderer accepts: None (omitted), int, bool, ASCII str *)
Definition rv (v : wv) : bool :=
  match v with
  | WNone | WInt _ | WBool _ => true
  | WStr t => is_ascii t
  | _ => false
  end.

Lemma is_ascii_app : forall a b, is_ascii (a ++ b) = is_ascii a && is_ascii b.
Proof. intros. unfold is_ascii. apply forallb_app. Qed.

Lemma bytes_ascii_app : forall a b, bytes_ascii (a ++ b) = bytes_ascii a && bytes_ascii b.
Proof. intros. unfold bytes_ascii, ascii_text. rewrite map_app. apply is_ascii_app. Qed.

Lemma enc_ascii_some : forall t, is_ascii t = true -> exists b, c_enc ascii t = Some b.
Proof.
  cbn [c_enc ascii]. induction t as [|c t IH]; intro H.
  - exists []. reflexivity.
  - cbn [is_ascii forallb] in H. apply andb_true_iff in H as [H1 H2].
    destruct (IH H2) as [b Hb]. cbn [enc_all]. unfold enc1 at 1. rewrite H1, Hb. eauto.
Qed.

Lemma enc_ascii_is_ascii : forall t b, c_enc ascii t = Some b -> is_ascii t = true.
Proof.
  cbn [c_enc ascii]. induction t as [|c t IH]; intros b H; [reflexivity|].
  cbn [enc_all] in H. unfold enc1 at 1 in H. cbn [is_ascii forallb].
  destruct (N.ltb c 128); [|discriminate]. cbn [andb].
  destruct (enc_all (enc1 128) t) as [b'|] eqn:E; [|discriminate]. eapply IH. reflexivity.
Qed.

Lemma encode_ascii_ok : forall t, is_ascii t = true -> exists b, encode_ascii t = Ok b.
Proof. intros t H. unfold encode_ascii. destruct (enc_ascii_some t H) as [b ->]. eauto. Qed.

Lemma digit_ascii : forall m, (m < 10)%N -> N.ltb (byte_n (n_byte (48 + m))) 128 = true.
Proof.
  intros m H. rewrite <- (N2Nat.id m). assert (Hn : N.to_nat m < 10) by lia.
  remember (N.to_nat m) as n. clear Heqn H m.
  do 10 (destruct n as [|n]; [vm_compute; reflexivity|]). lia.
Qed.

Lemma digits_fuel_ascii : forall fuel n acc,
  bytes_ascii acc = true -> bytes_ascii (N_digits_fuel fuel n acc) = true.
Proof.
  induction fuel as [|f IH]; intros n acc H; cbn [N_digits_fuel]; [exact H|].
  cbv zeta.
  assert (Hd : bytes_ascii (n_byte (48 + N.modulo n 10) :: acc) = true).
  { unfold bytes_ascii, ascii_text. cbn [map is_ascii forallb]. apply andb_true_iff. split.
    - apply digit_ascii. apply N.mod_lt. discriminate.
    - exact H. }
  destruct (N.eqb (N.div n 10) 0); [exact Hd | apply IH; exact Hd].
Qed.

Lemma Z_to_dec_ascii : forall z, bytes_ascii (Z_to_dec z) = true.
Proof.
  destruct z as [|p|p]; unfold Z_to_dec.
  - vm_compute. reflexivity.
  - unfold N_to_dec. apply digits_fuel_ascii. reflexivity.
  - rewrite bytes_ascii_app. apply andb_true_iff. split; [vm_compute; reflexivity|].
    unfold N_to_dec. apply digits_fuel_ascii. reflexivity.
Qed.

Lemma fmt_value_rv : forall v, rv v = true -> exists f, fmt_value v = Ok f /\ is_ascii f = true.
Proof.
  destruct v as [|b|z|t|b|j|]; cbn [rv fmt_value]; intro H; try discriminate.
  - eexists; split; [reflexivity | vm_compute; reflexivity].
  - destruct b; eexists; (split; [reflexivity | vm_compute; reflexivity]).
  - eexists; split; [reflexivity | apply Z_to_dec_ascii].
  - eauto.
Qed.

Definition kv_ok (kv : bytes * wv) : Prop := bytes_ascii (fst kv) = true /\ rv (snd kv) = true.

Lemma render_pairs_ok : forall o, Forall kv_ok o ->
  exists ps, render_pairs o = Ok ps /\ Forall (fun p => is_ascii p = true) ps.
Proof.
  induction o as [|[k v] t IH]; intro H.
  - exists []. split; [reflexivity | constructor].
  - inversion H as [|x l [Hk Hv] Ht]; subst. cbn [fst snd] in *.
    destruct (IH Ht) as (ps & Hps & Hall).
    assert (Hgen : forall f, fmt_value v = Ok f -> is_ascii f = true ->
              exists ps', (do f <- fmt_value v; do r <- render_pairs t; Ok ((ascii_text k ++ [61%N] ++ f) :: r)) = Ok ps'
                          /\ Forall (fun p => is_ascii p = true) ps').
    { intros f Hf Ha. rewrite Hf, Hps. cbn [bind]. eexists; split; [reflexivity|].
      constructor; [|exact Hall]. rewrite !is_ascii_app. fold (bytes_ascii k). rewrite Hk, Ha. reflexivity. }
    destruct (fmt_value_rv v Hv) as (f & Hf & Ha).
    destruct v; cbn [render_pairs]; try (eapply Hgen; eassumption); try discriminate.
    eauto.
Qed.

Lemma insert_sorted_Forall : forall {A} (leb : A -> A -> bool) (P : A -> Prop) x l,
  P x -> Forall P l -> Forall P (insert_sorted leb x l).
Proof.
  induction l as [|y l IH]; intros Hx Hl; cbn [insert_sorted].
  - constructor; auto.
  - inversion Hl; subst. destruct (leb x y); constructor; auto.
Qed.

Lemma isort_Forall : forall {A} (leb : A -> A -> bool) (P : A -> Prop) l,
  Forall P l -> Forall P (isort leb l).
Proof.
  unfold isort. induction l as [|x l IH]; intro H; cbn [fold_right]; [constructor|].
  inversion H; subst. apply insert_sorted_Forall; auto.
Qed.

Lemma join_ascii : forall sep ps, is_ascii sep = true -> Forall (fun p => is_ascii p = true) ps ->
  is_ascii (join sep ps) = true.
Proof.
  intros sep ps Hs. induction ps as [|p ps IH]; intro H; [reflexivity|].
  inversion H as [|x l Hp Hps]; subst. cbn [join]. destruct ps as [|q ps]; [exact Hp|].
  rewrite !is_ascii_app, Hp, Hs, (IH Hps). reflexivity.
Qed.

Lemma render_header_ok : forall section opts, Forall kv_ok opts -> exists h, render_header section opts = Ok h.
Proof.
  intros section opts H. unfold render_header.
  destruct (render_pairs_ok (sort_opts opts)) as (ps & Hps & Hall).
  { unfold sort_opts. apply isort_Forall. exact H. }
  rewrite Hps. cbn [bind].
  destruct (nonempty _); [|eauto].
  destruct (encode_ascii_ok (join (ascii_text (B ", ")) ps)) as [ob Hob].
  { apply join_ascii; [vm_compute; reflexivity | exact Hall]. }
  rewrite Hob. cbn [bind]. eauto.
Qed.

Lemma dict_set_ok : forall k v o, bytes_ascii (B k) = true -> rv v = true ->
  Forall kv_ok o -> Forall kv_ok (dict_set k v o).
Proof.
  intros k v o Hk Hv. unfold dict_set. induction o as [|[k' v'] o IH]; intro H; cbn [assoc_set].
  - constructor; [split; assumption | constructor].
  - inversion H as [|x l [Hk' Hv'] Ho]; subst. destruct (beq (B k) k').
    + constructor; [split; assumption | exact Ho].
    + constructor; [split; assumption | auto].
Qed.

(* ------------------------------------------------------------------------------------------------ *)
(* C09 (4), converse for the container calls                                                         *)
(* ------------------------------------------------------------------------------------------------ *)
Lemma ncs_accept : forall name level enc extra s,
  w_stack s <> [] -> 1 <= level ->
  validate_section s (build_id (level - 1) name) = Ok tt ->
  Forall kv_ok extra -> rv enc = true ->
  exists s', new_container_section name level enc extra s = (s', Ok tt).
Proof.
  intros name level enc extra s Hne Hl Hv Hex Henc.
  rewrite ncs_eq by assumption. rewrite Hv.
  destruct (render_header_ok (build_id (level - 1) name) (dict_set "encoding" enc extra)) as [h Hh].
  { apply dict_set_ok; [vm_compute; reflexivity | exact Henc | exact Hex]. }
  rewrite Hh. cbv zeta. eauto.
Qed.

(* ------------------------------------------------------------------------------------------------ *)
(* codecs and newlines: finite facts about the modelled codec catalogue                              *)
(* ------------------------------------------------------------------------------------------------ *)
(* the dynamically typed encoding [v] is a str that spells a codec the model executes *)
Definition codec_for (v : wv) (canon : bytes) (c : codec) : Prop :=
  exists e eb, v = WStr e /\ c_enc ascii e = Some eb /\ lookup_codec eb = LOk canon c.

Lemma lookup_modelled : forall eb canon c, lookup_codec eb = LOk canon c ->
  In (canon, c) modelled /\ canonical_or_same eb = canon.
Proof.
  intros eb canon c H. unfold lookup_codec in H. unfold canonical_or_same.
  destruct (find_row eb GenCodecs.rows) as [r|]; [|discriminate].
  destruct (assoc_get beq (GenCodecs.cr_canonical r) modelled) as [c'|] eqn:E; [|discriminate].
  inversion H; subst. split; [apply assoc_get_In; exact E | reflexivity].
Qed.

(* every newline string the writer can pick *)
Definition newlines : list text :=
  map snd GenText.newline_formats ++ [nl_text GenText.le_unix; nl_text GenText.le_dos].

Definition strip_bom_c (canon data : bytes) : bytes :=
  match assoc_get beq canon GenText.boms with
  | Some ((b0 :: _) as bs) => if existsb (fun b => bstarts b data) bs then skipn (length b0) data else data
  | _ => data
  end.

Lemma strip_bom_c_eq : forall eb canon data, canonical_or_same eb = canon ->
  strip_bom data (Some eb) = strip_bom_c canon data.
Proof. intros eb canon data H. unfold strip_bom, strip_bom_c. rewrite H. reflexivity. Qed.

Definition nl_check : bool :=
  forallb (fun p : bytes * codec =>
             forallb (fun nl => match c_enc (snd p) nl with
                                | Some b => nonempty (strip_bom_c (fst p) b)
                                | None => false
                                end) newlines) modelled.

Lemma nl_check_ok : nl_check = true.
Proof. vm_compute. reflexivity. Qed.

Lemma nl_enc : forall eb canon c nl, lookup_codec eb = LOk canon c -> In nl newlines ->
  exists b, py_encode nl eb = Ok b /\ nonempty (strip_bom b (Some eb)) = true.
Proof.
  intros eb canon c nl H Hnl. destruct (lookup_modelled _ _ _ H) as [Hin Hcan].
  pose proof nl_check_ok as Hc. unfold nl_check in Hc. rewrite forallb_forall in Hc.
  specialize (Hc _ Hin). rewrite forallb_forall in Hc. specialize (Hc _ Hnl). cbn [fst snd] in Hc.
  unfold py_encode. rewrite H. destruct (c_enc c nl) as [b|]; [|discriminate].
  exists b. split; [reflexivity|]. rewrite (strip_bom_c_eq _ _ _ Hcan). exact Hc.
Qed.

Lemma py_encode_ok : forall eb canon c t b, lookup_codec eb = LOk canon c -> c_enc c t = Some b ->
  py_encode t eb = Ok b.
Proof. intros eb canon c t b H E. unfold py_encode. rewrite H, E. reflexivity. Qed.

(* option-value sets: the accepted values render as ASCII *)
Definition choice_sets_ascii : bool :=
  forallb bytes_ascii GenText.line_endings_values && forallb bytes_ascii GenText.mimetypes
  && forallb bytes_ascii GenText.diff_types && forallb bytes_ascii GenText.meta_formats
  && bytes_ascii GenText.le_unix && bytes_ascii GenText.le_dos.
Lemma choice_sets_ascii_ok : choice_sets_ascii = true.
Proof. vm_compute. reflexivity. Qed.

(* [v] is omitted (None) or one of the strings of the value set *)
Definition choice_ok (v : wv) (set : list bytes) : Prop :=
  v = WNone \/ exists x, In x set /\ v = WStr (ascii_text x).

Lemma in_strset_member : forall x set, In x set -> in_strset (WStr (ascii_text x)) set = Ok true.
Proof.
  intros x set H. unfold in_strset. f_equal. apply existsb_exists. exists x. split; [exact H | apply teq_refl].
Qed.

Lemma guess_text_cases : forall t,
  guess_line_endings_text t = (GenText.le_dos, nl_text GenText.le_dos) \/
  guess_line_endings_text t = (GenText.le_unix, nl_text GenText.le_unix).
Proof.
  intro t. unfold guess_line_endings_text. cbv zeta.
  destruct (find N.eqb _ t); [destruct (suffixb _ _ _)|]; auto.
Qed.

(* the encoding a content call works with: the argument, or (text sections) the innermost container's *)
Definition eff_encoding (s : wstate) (encoding : wv) (inherit : bool) : wv :=
  if negb (wv_truthy encoding) && inherit then hd WNone (w_stack s) else encoding.

(* the part of _prepare_content after the newline has been chosen (convertible copy, see prepare_* below) *)
Definition prep_tail (content : wcontent) (indent encoding1 : wv) (nl0 : text + bytes) (le_out : wv)
  : res (bytes * wv) :=
  do newline_b <- (match nl0 with inl t => encode_dyn t encoding1 | inr b => Ok b end);
  do content_b <- (match content with CText t => encode_dyn t encoding1 | CBytes b => Ok b end);
  let en1 : option bytes := match encoding1 with WStr e => c_enc ascii e | _ => None end in
  let newline := strip_bom newline_b en1 in
  let content1 := if bends newline content_b then content_b else content_b ++ newline in
  if wv_truthy indent then
    do indent_str <- (match indent with
                      | WInt z => Ok (repeat_b x20 (Z.to_nat z))
                      | WBool true => Ok [x20]
                      | _ => Err EType
                      end);
    do lines <- split_lines content1 newline true;
    Ok (concat (map (fun l => indent_str ++ l) lines), le_out)
  else Ok (content1, le_out).

Lemma split_lines_ok : forall data nl, data <> [] -> nl <> [] -> exists ls, split_lines data nl true = Ok ls.
Proof.
  intros data nl Hd Hn. unfold split_lines, split_lines_g.
  destruct data; [congruence|]. destruct nl; [congruence|]. cbn [is_nil].
  destruct (suffixb _ _ _); eauto.
Qed.

Lemma nonempty_ne : forall {A} (l : list A), nonempty l = true -> l <> [].
Proof. intros A l H E. subst. discriminate. Qed.

Lemma bends_nil : forall nl, nl <> [] -> bends nl [] = false.
Proof.
  intros nl H. unfold bends, suffixb, frev. cbn [rev_append]. destruct nl as [|a nl]; [congruence|].
  rewrite <- rev_alt. cbn [rev]. destruct (rev nl); reflexivity.
Qed.

Lemma content1_ne : forall nl cb, nl <> [] -> (if bends nl cb then cb else cb ++ nl) <> [].
Proof.
  intros nl cb H. destruct cb as [|x cb].
  - rewrite bends_nil by assumption. exact H.
  - destruct (bends nl (x :: cb)); cbn; discriminate.
Qed.

Lemma prep_tail_text_ok : forall t ind e eb canon c cb nl lo,
  (ind = WNone \/ exists z, ind = WInt z) ->
  c_enc ascii e = Some eb -> lookup_codec eb = LOk canon c -> c_enc c t = Some cb ->
  In nl newlines ->
  exists body, prep_tail (CText t) ind (WStr e) (inl nl) lo = Ok (body, lo).
Proof.
  intros t ind e eb canon c cb nl lo Hind Heb Hlk Hcb Hnl.
  unfold prep_tail, encode_dyn. rewrite Heb.
  destruct (nl_enc _ _ _ _ Hlk Hnl) as (nb & Hnb & Hne).
  rewrite Hnb, (py_encode_ok _ _ _ _ _ Hlk Hcb). cbn [bind]. cbv zeta.
  destruct (wv_truthy ind) eqn:Etr; [|eauto].
  destruct Hind as [-> | [z ->]]; [discriminate|]. cbn [bind].
  destruct (split_lines_ok
              (if bends (strip_bom nb (Some eb)) cb then cb else cb ++ strip_bom nb (Some eb))
              (strip_bom nb (Some eb))) as [ls Hls].
  - apply content1_ne. apply nonempty_ne; exact Hne.
  - apply nonempty_ne; exact Hne.
  - rewrite Hls. cbn [bind]. eauto.
Qed.

Lemma choice_rv : forall x, (In x GenText.line_endings_values \/ In x GenText.mimetypes \/ In x GenText.diff_types
                            \/ In x GenText.meta_formats \/ x = GenText.le_unix \/ x = GenText.le_dos) ->
  rv (WStr (ascii_text x)) = true.
Proof.
  intros x H. pose proof choice_sets_ascii_ok as Hc. unfold choice_sets_ascii in Hc.
  do 5 (apply andb_true_iff in Hc as [Hc ?]).
  cbn [rv]. fold (bytes_ascii x).
  destruct H as [H|[H|[H|[H|[H|H]]]]]; subst; auto;
    match goal with Hf : forallb bytes_ascii ?l = true, Hi : In x ?l |- _ =>
      exact (proj1 (forallb_forall _ _) Hf x Hi) end.
Qed.

Lemma cur_encoding_hd : forall s, w_stack s <> [] -> cur_encoding s = Ok (hd WNone (w_stack s)).
Proof. intros s H. unfold cur_encoding. destruct (w_stack s); [congruence | reflexivity]. Qed.

(* write_meta's test "is an encoding in force?": a catalogue spelling is a non-empty str, hence truthy *)
Lemma codec_for_truthy : forall v canon c, codec_for v canon c -> wv_truthy v = true.
Proof.
  intros v canon c (e & eb & -> & Heb & Hlk). destruct e as [|x e]; [|reflexivity].
  exfalso. cbn in Heb. injection Heb as <-. vm_compute in Hlk. discriminate.
Qed.

Lemma meta_has_enc : forall s enc, w_stack s <> [] -> wv_truthy (eff_encoding s enc true) = true ->
  (if wv_truthy enc then Ok true else do ce <- cur_encoding s; Ok (wv_truthy ce)) = Ok true.
Proof.
  intros s enc Hne H. unfold eff_encoding in H. destruct (wv_truthy enc); [reflexivity|].
  cbn [negb andb] in H. rewrite cur_encoding_hd by assumption. cbn [bind]. rewrite H. reflexivity.
Qed.

(* ... and with no encoding in force (the argument and the innermost container's are both falsy) the test is false *)
Lemma meta_no_enc : forall s enc, w_stack s <> [] -> wv_truthy (eff_encoding s enc true) = false ->
  (if wv_truthy enc then Ok true else do ce <- cur_encoding s; Ok (wv_truthy ce)) = Ok false.
Proof.
  intros s enc Hne H. unfold eff_encoding in H. destruct (wv_truthy enc) eqn:E.
  - cbn [negb andb] in H. congruence.
  - cbn [negb andb] in H. rewrite cur_encoding_hd by assumption. cbn [bind]. rewrite H. reflexivity.
Qed.

Lemma enc_ascii_roundtrip_choice :
  forallb (fun x => match c_enc ascii (ascii_text x) with Some y => beq x y | None => false end)
          GenText.line_endings_values = true.
Proof. vm_compute. reflexivity. Qed.

Lemma prepare_text_ok : forall s t ind le enc canon c cb,
  w_stack s <> [] -> t <> [] ->
  choice_ok le GenText.line_endings_values ->
  (ind = WNone \/ exists z, ind = WInt z) ->
  codec_for (eff_encoding s enc true) canon c -> c_enc c t = Some cb ->
  exists body le_out, prepare_content s (CText t) ind le enc true = Ok (body, le_out) /\ rv le_out = true.
Proof.
  intros s t ind le enc canon c cb Hne Ht Hle Hind (e & eb & He & Heb & Hlk) Hcb.
  assert (E1 : (if negb (wv_truthy enc) && true then cur_encoding s else Ok enc) = Ok (WStr e)).
  { unfold eff_encoding in He. destruct (negb (wv_truthy enc) && true).
    - rewrite cur_encoding_hd by assumption. congruence.
    - congruence. }
  assert (Hfin : forall nl lo, In nl newlines -> rv lo = true ->
            exists body le_out, prep_tail (CText t) ind (WStr e) (inl nl) lo = Ok (body, le_out) /\ rv le_out = true).
  { intros nl lo Hnl Hlo.
    destruct (prep_tail_text_ok t ind e eb canon c cb nl lo Hind Heb Hlk Hcb Hnl) as [body Hb]. eauto. }
  assert (Hguess : exists nl lo, (let (le0, nl) := guess_line_endings_text t in
                                  @Ok ((text + bytes) * wv) (inl nl, WStr (ascii_text le0))) = Ok (inl nl, lo)
                                 /\ In nl newlines /\ rv lo = true).
  { destruct (guess_text_cases t) as [Eg|Eg]; rewrite Eg; do 2 eexists; (split; [reflexivity|]); split;
      try (apply choice_rv; auto 10); unfold newlines; apply in_or_app; right; cbn; auto. }
  destruct Hguess as (gnl & glo & Eg & Hgnl & Hglo).
  unfold prepare_content.
  destruct t as [|c0 t0]; [congruence|]. cbn [is_nil].
  destruct Hle as [-> | (x & Hx & ->)].
  - cbn [bind negb]. rewrite E1. cbn [bind]. rewrite Eg. cbn [bind]. exact (Hfin gnl glo Hgnl Hglo).
  - rewrite (in_strset_member x _ Hx). cbn [bind negb]. rewrite E1. cbn [bind].
    destruct (match c_enc ascii (ascii_text x) with
              | Some le => assoc_get beq le GenText.newline_formats
              | None => None
              end) as [nl|] eqn:Enl.
    + cbn [bind]. apply (Hfin nl (WStr (ascii_text x))).
      * destruct (c_enc ascii (ascii_text x)) as [le|]; [|discriminate].
        apply assoc_get_In in Enl. unfold newlines. apply in_or_app. left.
        change nl with (snd (le, nl)). apply in_map. exact Enl.
      * apply choice_rv; auto.
    + rewrite Eg. cbn [bind]. exact (Hfin gnl glo Hgnl Hglo).
Qed.

Lemma guess_bytes_ok : forall b eb canon c, lookup_codec eb = LOk canon c ->
  exists le nlb, guess_line_endings_bytes b (Some eb) = Ok (le, nlb) /\ (le = GenText.le_dos \/ le = GenText.le_unix).
Proof.
  intros b eb canon c Hlk. unfold guess_line_endings_bytes, enc_or_ascii.
  destruct (nl_enc eb canon c (nl_text GenText.le_unix) Hlk) as (u & Hu & _).
  { unfold newlines. apply in_or_app. right. cbn; auto. }
  destruct (nl_enc eb canon c (nl_text GenText.le_dos) Hlk) as (d & Hd & _).
  { unfold newlines. apply in_or_app. right. cbn; auto. }
  rewrite Hu. cbn [bind]. rewrite Hd. cbn [bind]. cbv zeta.
  destruct (bfind _ b); [destruct (bends _ _)|]; eauto.
Qed.

Lemma prepare_bytes_ok : forall s b le enc canon c,
  b <> [] -> choice_ok le GenText.line_endings_values ->
  codec_for (if wv_truthy enc then enc else WStr (ascii_text (B "ascii"))) canon c ->
  exists body le_out, prepare_content s (CBytes b) WNone le enc false = Ok (body, le_out) /\ rv le_out = true.
Proof.
  intros s b le enc canon c Hb Hle (e & eb & He & Heb & Hlk).
  assert (Hfin : forall nb lo, rv lo = true ->
            exists body le_out, prep_tail (CBytes b) WNone enc (inr nb) lo = Ok (body, le_out) /\ rv le_out = true).
  { intros nb lo Hlo. unfold prep_tail. cbn [bind wv_truthy]. cbv zeta. eauto. }
  unfold prepare_content.
  destruct b as [|b0 b1]; [congruence|]. cbn [is_nil]. rewrite andb_false_r.
  destruct Hle as [-> | (x & Hx & ->)].
  - cbn [bind negb]. rewrite He. unfold enc_name. rewrite Heb. cbn [bind].
    destruct (guess_bytes_ok (b0 :: b1) eb canon c Hlk) as (le & nlb & Hg & Hle).
    rewrite Hg. cbn [bind fst snd].
    apply (Hfin nlb (WStr (ascii_text le))). apply choice_rv. destruct Hle; auto 10.
  - rewrite (in_strset_member x _ Hx). cbn [bind negb]. rewrite He.
    destruct (match c_enc ascii (ascii_text x) with
              | Some le => assoc_get beq le GenText.newline_formats
              | None => None
              end) as [nl|] eqn:Enl.
    + assert (Hnl : In nl newlines).
      { destruct (c_enc ascii (ascii_text x)) as [le|]; [|discriminate].
        apply assoc_get_In in Enl. unfold newlines. apply in_or_app. left.
        change nl with (snd (le, nl)). apply in_map. exact Enl. }
      unfold encode_dyn at 1. rewrite Heb.
      destruct (nl_enc eb canon c nl Hlk Hnl) as (nb & Hnb & _). rewrite Hnb. cbn [bind].
      apply (Hfin nb (WStr (ascii_text x))). apply choice_rv; auto.
    + unfold enc_name. rewrite Heb. cbn [bind].
      destruct (guess_bytes_ok (b0 :: b1) eb canon c Hlk) as (le & nlb & Hg & Hle).
      rewrite Hg. cbn [bind fst snd].
      apply (Hfin nlb (WStr (ascii_text le))). apply choice_rv. destruct Hle; auto 10.
Qed.


(* ------------------------------------------------------------------------------------------------ *)
(* C09 (4), converse: well-formed arguments + table membership => accepted                           *)
(* ------------------------------------------------------------------------------------------------ *)
Lemma ncontent_accept : forall name content le enc ind wle inh extra s body lo,
  validate_section s (build_id (cur_level s + 1 - 1) name) = Ok tt ->
  prepare_content s content ind le enc inh = Ok (body, lo) ->
  rv lo = true -> rv ind = true -> rv enc = true -> Forall kv_ok extra ->
  exists s', new_content_section name content le enc ind wle inh extra s = (s', Ok tt).
Proof.
  intros name content le enc ind wle inh extra s body lo Hv Hp Hlo Hind Henc Hex.
  rewrite ncontent_eq, Hv, Hp. cbv zeta.
  match goal with |- context [render_header ?sec ?ho] => destruct (render_header_ok sec ho) as [h Hh] end.
  { assert (H0 : Forall kv_ok (dict_set "length" (content_length body)
                                 (dict_set "indent" ind (dict_set "encoding" enc extra)))).
    { repeat (apply dict_set_ok; [vm_compute; reflexivity | first [assumption | reflexivity] |]). exact Hex. }
    destruct wle; [apply dict_set_ok; [vm_compute; reflexivity | assumption | exact H0] | exact H0]. }
  rewrite Hh. eauto.
Qed.

(* an [encoding=] argument is None or a str *)
Definition enc_arg_ok (v : wv) : Prop := v = WNone \/ exists e, v = WStr e.

(* text content [t] can be written in state [s] with the argument [encoding]: the effective encoding (the argument,
   or the innermost open container's when the argument is None/empty) spells a modelled codec that can encode [t] *)
Definition text_args_ok (s : wstate) (t : text) (encoding : wv) : Prop :=
  enc_arg_ok encoding /\
  exists canon c, codec_for (eff_encoding s encoding true) canon c /\ exists b, c_enc c t = Some b.

Definition args_ok (s : wstate) (c : call) : Prop :=
  match c with
  | NewChange e | NewFile e => rv e = true       (* None / ASCII str (/ int / bool: rendered by '%s') *)
  | WritePreamble text encoding indent le mimetype =>
      exists t, text = WStr t /\ t <> [] /\ text_args_ok s t encoding /\
      (indent = None \/ indent = Some WNone \/ exists z, indent = Some (WInt z)) /\
      choice_ok le GenText.line_endings_values /\ choice_ok mimetype GenText.mimetypes
  | WriteMeta md encoding fmt =>
      exists kv d, md = WDict (JObj kv) /\ kv <> [] /\ json_dump (JObj kv) = Ok d /\
      text_args_ok s (ascii_text d) encoding /\
      (fmt = None \/ exists x, In x GenText.meta_formats /\ fmt = Some (WStr (ascii_text x)))
  | WriteDiff content dt encoding le =>
      exists b, content = WBytes b /\ b <> [] /\ choice_ok dt GenText.diff_types /\
      choice_ok le GenText.line_endings_values /\
      (encoding = WNone \/ (wv_truthy encoding = true /\ exists canon c, codec_for encoding canon c))
  end.

Lemma text_enc_rv : forall s t enc, text_args_ok s t enc -> rv enc = true.
Proof.
  intros s t enc ([-> | [e ->]] & canon & c & (e' & eb & He & Heb & _) & _); [reflexivity|].
  cbn [rv]. unfold eff_encoding in He. cbn [wv_truthy] in He.
  destruct e as [|x e]; [reflexivity|]. cbn [nonempty negb andb] in He. inversion He; subst.
  eapply enc_ascii_is_ascii; eauto.
Qed.

Lemma choice_ok_rv_gen : forall v set,
  (forall x, In x set -> rv (WStr (ascii_text x)) = true) -> choice_ok v set -> rv v = true.
Proof. intros v set H [-> | (x & Hx & ->)]; [reflexivity | auto]. Qed.

Lemma choice_in_strset : forall v set, choice_ok v set ->
  match v with WNone => Ok true | v => in_strset v set end = Ok true.
Proof. intros v set [-> | (x & Hx & ->)]; [reflexivity | apply in_strset_member; exact Hx]. Qed.

Lemma ascii_codec_for : exists canon c, codec_for (WStr (ascii_text (B "ascii"))) canon c.
Proof.
  exists (B "ascii"), ascii. exists (ascii_text (B "ascii")), (B "ascii").
  split; [reflexivity|]. split; vm_compute; reflexivity.
Qed.

Lemma default_meta_format_ok : In GenText.meta_format_json GenText.meta_formats.
Proof. apply in_ids_In. vm_compute. reflexivity. Qed.

Lemma dump_obj_nonempty : forall kv d, kv <> [] -> json_dump (JObj kv) = Ok d -> d <> [].
Proof.
  intros kv d Hkv H. unfold json_dump in H. destruct kv as [|p kv]; [congruence|].
  cbn [dump] in H.
  match type of H with (do body <- ?X; _) = _ => destruct X as [body|e] end; [|discriminate].
  cbn [bind] in H. inversion H. discriminate.
Qed.

Theorem C09_accept_complete : forall s c p,
  reachable s -> args_ok s c -> w_prev s = Some p -> In (target s c) (table p) ->
  exists s', do_call c s = (s', Ok tt).
Proof.
  intros s c p Hs Hargs Hp Hin.
  pose proof (Inv_stack s (reachable_inv s Hs)) as Hne.
  pose proof (proj2 (validate_ok_table s _ p Hp) Hin) as Hv.
  destruct c as [en|en|text enc ind le mt|md enc fmt|content dt enc le]; cbn [do_call target args_ok] in *.
  - apply ncs_accept; auto. unfold GenText.writer_level_change; lia.
  - apply ncs_accept; auto. unfold GenText.writer_level_file; lia.
  - destruct Hargs as (t & -> & Ht & Htx & Hind & Hle & Hmt).
    rewrite bind_lift, (choice_in_strset _ _ Hmt). cbn [negb].
    pose proof (text_enc_rv _ _ _ Htx) as Hrenc.
    destruct Htx as (_ & canon & c & Hcodec & cb & Hcb).
    set (ind' := match ind with Some v => v | None => WInt GenText.default_indent end).
    assert (Hind' : ind' = WNone \/ exists z, ind' = WInt z).
    { subst ind'. destruct Hind as [-> | [-> | [z ->]]]; eauto. }
    destruct (prepare_text_ok s t ind' le enc canon c cb Hne Ht Hle Hind' Hcodec Hcb) as (body & lo & Hprep & Hlo).
    eapply ncontent_accept; eauto.
    + destruct Hind' as [-> | [z ->]]; reflexivity.
    + constructor; [|constructor]. split; [vm_compute; reflexivity|]. cbn [snd].
      eapply choice_ok_rv_gen; [|exact Hmt]. intros x Hx. apply choice_rv; auto.
  - destruct Hargs as (kv & d & -> & Hkv & Hd & Htx & Hfmt).
    assert (Htr : wv_truthy (WDict (JObj kv)) = true) by (destruct kv; [congruence | reflexivity]).
    rewrite Htr. cbn [negb].
    set (fmt' := match fmt with Some v => v | None => WStr (ascii_text GenText.meta_format_json) end).
    assert (Hfmt' : exists x, In x GenText.meta_formats /\ fmt' = WStr (ascii_text x)).
    { subst fmt'. destruct Hfmt as [-> | (x & Hx & ->)]; eauto using default_meta_format_ok. }
    destruct Hfmt' as (x & Hx & Hfx). rewrite Hfx.
    rewrite bind_lift, (in_strset_member x _ Hx). cbn [negb].
    rewrite bind_lift, Hd.
    pose proof (text_enc_rv _ _ _ Htx) as Hrenc.
    destruct Htx as (_ & canon & c & Hcodec & cb & Hcb).
    rewrite bind_get, bind_lift, (meta_has_enc s enc Hne (codec_for_truthy _ _ _ Hcodec)).
    assert (Hne_d : ascii_text d <> []).
    { pose proof (dump_obj_nonempty kv d Hkv Hd). destruct d; [congruence | discriminate]. }
    destruct (prepare_text_ok s (ascii_text d) WNone WNone enc canon c cb Hne Hne_d) as (body & lo & Hprep & Hlo);
      auto; [left; reflexivity|].
    eapply ncontent_accept; eauto.
    constructor; [|constructor]. split; [vm_compute; reflexivity|]. cbn [snd]. apply choice_rv; auto 10.
  - destruct Hargs as (b & -> & Hb & Hdt & Hle & Henc).
    rewrite bind_lift, (choice_in_strset _ _ Hdt). cbn [negb].
    assert (Hc : (exists canon c, codec_for (if wv_truthy enc then enc else WStr (ascii_text (B "ascii"))) canon c)
                 /\ rv enc = true).
    { destruct Henc as [-> | (Htr & canon & c & Hc)].
      - split; [exact ascii_codec_for | reflexivity].
      - rewrite Htr. split; [eauto|]. destruct Hc as (e & eb & -> & Heb & _). cbn [rv].
        eapply enc_ascii_is_ascii; eauto. }
    destruct Hc as ((canon & c & Hc) & Hrenc).
    destruct (prepare_bytes_ok s b le enc canon c Hb Hle Hc) as (body & lo & Hprep & Hlo).
    eapply ncontent_accept; eauto.
    constructor; [|constructor]. split; [vm_compute; reflexivity|]. cbn [snd].
    eapply choice_ok_rv_gen; [|exact Hdt]. intros x Hx. apply choice_rv; auto 10.
Qed.

(* the characterisation: with well-formed arguments a call is accepted exactly when its section may follow
   the previously written one *)
Theorem C09_accept_iff : forall s c, reachable s -> args_ok s c ->
  ((exists s', do_call c s = (s', Ok tt)) <-> (exists p, w_prev s = Some p /\ In (target s c) (table p))).
Proof.
  intros s c Hs Ha. split.
  - intros [s' H]. eapply C09_accept_order; eauto.
  - intros (p & Hp & Hin). eapply C09_accept_complete; eauto.
Qed.

(* ... and whatever the arguments, a call whose section may not follow the previous one is rejected, atomically *)
Theorem C09_reject_order : forall s c p s' r, reachable s -> w_prev s = Some p -> ~ In (target s c) (table p) ->
  do_call c s = (s', r) -> exists e, r = Err e /\ s' = s.
Proof.
  intros s c p s' r Hs Hp Hnin H. destruct r as [[]|e].
  - exfalso. destruct (C09_accept_order s c s' Hs H) as (p' & Hp' & Hin). congruence.
  - exists e. split; [reflexivity|]. eapply C09_atomic; eauto.
Qed.

Lemma validate_not_in : forall s sec p,
  w_prev s = Some p -> In p ids -> ~ In sec (table p) -> validate_section s sec = Err ELibOrder.
Proof.
  intros s sec p Hp Hid Hnin. unfold validate_section. rewrite Hp.
  pose proof (id_ok_of p Hid) as Hok. unfold id_ok in Hok. unfold table in Hnin.
  destruct (table_get p) as [row|]; [|discriminate].
  destruct (in_ids sec row) eqn:E; [|reflexivity]. exfalso. apply Hnin. apply in_ids_In. exact E.
Qed.

(* with well-formed arguments, a call whose section may not follow the previous one raises the library's
   order error (DiffXSectionOrderError) — and, by C09_atomic, changes nothing *)
Theorem C09_reject_order_error : forall s c p,
  reachable s -> args_ok s c -> w_prev s = Some p -> ~ In (target s c) (table p) ->
  do_call c s = (s, Err ELibOrder).
Proof.
  intros s c p Hs Hargs Hp Hnin.
  pose proof (reachable_inv s Hs) as HI. pose proof (Inv_stack s HI) as Hne.
  assert (Hid : In p ids).
  { destruct HI as (p' & Hp' & Hid & _). congruence. }
  pose proof (validate_not_in s _ p Hp Hid Hnin) as Hv.
  destruct c as [en|en|text enc ind le mt|md enc fmt|content dt enc le]; cbn [do_call target args_ok] in *.
  - rewrite ncs_eq, Hv; [reflexivity | exact Hne | unfold GenText.writer_level_change; lia].
  - rewrite ncs_eq, Hv; [reflexivity | exact Hne | unfold GenText.writer_level_file; lia].
  - destruct Hargs as (t & -> & Ht & Htx & Hind & Hle & Hmt).
    rewrite bind_lift, (choice_in_strset _ _ Hmt). cbn [negb]. rewrite ncontent_eq, Hv. reflexivity.
  - destruct Hargs as (kv & d & -> & Hkv & Hd & Htx & Hfmt).
    assert (Htr : wv_truthy (WDict (JObj kv)) = true) by (destruct kv; [congruence | reflexivity]).
    rewrite Htr. cbn [negb].
    set (fmt' := match fmt with Some v => v | None => WStr (ascii_text GenText.meta_format_json) end).
    assert (Hfmt' : exists x, In x GenText.meta_formats /\ fmt' = WStr (ascii_text x)).
    { subst fmt'. destruct Hfmt as [-> | (x & Hx & ->)]; eauto using default_meta_format_ok. }
    destruct Hfmt' as (x & Hx & Hfx). rewrite Hfx.
    rewrite bind_lift, (in_strset_member x _ Hx). cbn [negb].
    destruct Htx as (_ & canon & c & Hcodec & _).
    rewrite bind_lift, Hd, bind_get, bind_lift, (meta_has_enc s enc Hne (codec_for_truthy _ _ _ Hcodec)).
    rewrite ncontent_eq, Hv. reflexivity.
  - destruct Hargs as (b & -> & Hb & Hdt & Hle & Henc).
    rewrite bind_lift, (choice_in_strset _ _ Hdt). cbn [negb]. rewrite ncontent_eq, Hv. reflexivity.
Qed.

(* ------------------------------------------------------------------------------------------------ *)
(* malformed arguments are rejected (whatever the order): wrong content type, empty content,          *)
(* option value outside its value set                                                                *)
(* ------------------------------------------------------------------------------------------------ *)
Definition is_err {A} (r : res A) : Prop := exists e, r = Err e.

Lemma ncontent_empty_rejected : forall name content le enc ind wle inh extra s,
  (match content with CText t => t = [] | CBytes b => b = [] end) ->
  is_err (snd (new_content_section name content le enc ind wle inh extra s)).
Proof.
  intros name content le enc ind wle inh extra s H. rewrite ncontent_eq.
  destruct (validate_section s _) as [[]|e]; [|eexists; reflexivity].
  assert (Hp : prepare_content s content ind le enc inh = Err ELibContent).
  { unfold prepare_content. destruct content; subst; reflexivity. }
  rewrite Hp. eexists; reflexivity.
Qed.

Lemma ncontent_bad_le_rejected : forall name content le enc ind wle inh extra s,
  le <> WNone -> in_strset le GenText.line_endings_values <> Ok true ->
  is_err (snd (new_content_section name content le enc ind wle inh extra s)).
Proof.
  intros name content le enc ind wle inh extra s Hn Hbad. rewrite ncontent_eq.
  destruct (validate_section s _) as [[]|e]; [|eexists; reflexivity].
  assert (Hp : is_err (prepare_content s content ind le enc inh)).
  { unfold prepare_content. destruct (match content with CText t => is_nil t | CBytes b => is_nil b end);
      [eexists; reflexivity|].
    assert (E : match le with WNone => Ok true | v => in_strset v GenText.line_endings_values end
                = in_strset le GenText.line_endings_values) by (destruct le; congruence).
    rewrite E. destruct (in_strset le GenText.line_endings_values) as [[|]|e]; try congruence;
      eexists; reflexivity. }
  destruct Hp as [e ->]. eexists; reflexivity.
Qed.

Theorem C09_reject_malformed : forall c s,
  match c with
  | NewChange _ | NewFile _ => True
  | WritePreamble text _ _ le mt =>
      (forall t, text = WStr t -> t = []) \/ (le <> WNone /\ in_strset le GenText.line_endings_values <> Ok true)
      \/ (mt <> WNone /\ in_strset mt GenText.mimetypes <> Ok true)
  | WriteMeta md _ fmt =>
      (forall j, md = WDict j -> wv_truthy md = false)
      \/ (exists v, fmt = Some v /\ in_strset v GenText.meta_formats <> Ok true)
  | WriteDiff content dt _ le =>
      (forall b, content = WBytes b -> b = []) \/ (le <> WNone /\ in_strset le GenText.line_endings_values <> Ok true)
      \/ (dt <> WNone /\ in_strset dt GenText.diff_types <> Ok true)
  end -> match c with NewChange _ | NewFile _ => True | _ => is_err (snd (do_call c s)) end.
Proof.
  intros c s H.
  destruct c as [en|en|text enc ind le mt|md enc fmt|content dt enc le]; cbn [do_call]; auto.
  - destruct text; try (eexists; reflexivity).
    rewrite bind_lift.
    destruct (match mt with WNone => Ok true | _ => _ end) as [mok|e1] eqn:Em; [|eexists; reflexivity].
    destruct mok; cbn [negb]; [|eexists; reflexivity].
    destruct H as [H | [[Hn Hb] | [Hn Hb]]].
    + apply ncontent_empty_rejected. eauto.
    + apply ncontent_bad_le_rejected; assumption.
    + exfalso. apply Hb. destruct mt; congruence.
  - destruct md; try (eexists; reflexivity).
    destruct (wv_truthy (WDict j)) eqn:Etr; cbn [negb]; [|eexists; reflexivity].
    destruct H as [H | (v & -> & Hb)]; [specialize (H j eq_refl); congruence|].
    rewrite bind_lift.
    destruct (in_strset v GenText.meta_formats) as [[|]|e1]; try congruence; eexists; reflexivity.
  - destruct content; try (eexists; reflexivity).
    rewrite bind_lift.
    destruct (match dt with WNone => Ok true | _ => _ end) as [tok|e1] eqn:Em; [|eexists; reflexivity].
    destruct tok; cbn [negb]; [|eexists; reflexivity].
    destruct H as [H | [[Hn Hb] | [Hn Hb]]].
    + apply ncontent_empty_rejected. eauto.
    + apply ncontent_bad_le_rejected; assumption.
    + exfalso. apply Hb. destruct dt; congruence.
Qed.

(* ------------------------------------------------------------------------------------------------ *)
(* examples: the hypotheses are satisfiable, on a concrete writer                                    *)
(* ------------------------------------------------------------------------------------------------ *)
Definition U8 : wv := WStr (ascii_text (B "utf-8")).
Definition V10 : wv := WStr (ascii_text (B "1.0")).
Definition s_ex : wstate := fst (writer_init U8 V10).

Example ex_init : writer_init U8 V10 = (s_ex, Ok tt) /\ w_out s_ex = B "#diffx: encoding=utf-8, version=1.0" ++ [x0a].
Proof. vm_compute. split; reflexivity. Qed.

Example ex_reachable : reachable s_ex.
Proof. eapply reachable_init. exact (proj1 ex_init). Qed.

(* reject (order), reject (unencodable header text), accept: the rejected calls leave the output length at 36 *)
Example ex_run :
  run_calls s_ex [NewFile WNone; NewChange (WStr [233%N]); NewChange WNone]
  = ([(Err ELibOrder, 36); (Err EUnicodeEncode, 36); (Ok tt, 46)],
     {| w_out := B "#diffx: encoding=utf-8, version=1.0" ++ [x0a] ++ B "#.change:" ++ [x0a];
        w_stack := [U8; U8; U8];
        w_prev := Some (B ".change") |}).
Proof. vm_compute. reflexivity. Qed.

Example ex_atomic : exists c e, reachable s_ex /\ do_call c s_ex = (s_ex, Err e).
Proof. exists (NewChange (WStr [233%N])), EUnicodeEncode. split; [exact ex_reachable | vm_compute; reflexivity]. Qed.

Definition ex_preamble : call := WritePreamble (WStr (ascii_text (B "hi"))) WNone None WNone WNone.

Lemma ex_lookup :
  match lookup_codec (B "utf-8") with
  | LOk cn c => match c_enc c (ascii_text (B "hi")) with Some _ => true | None => false end
  | _ => false
  end = true.
Proof. vm_compute. reflexivity. Qed.

Example ex_args_ok : args_ok s_ex ex_preamble /\ In (target s_ex ex_preamble) (table (B "diffx")) /\
                     w_prev s_ex = Some (B "diffx").
Proof.
  split; [|split; [apply in_ids_In; vm_compute; reflexivity | vm_compute; reflexivity]].
  exists (ascii_text (B "hi")). split; [reflexivity|]. split; [discriminate|]. split.
  - split; [left; reflexivity|].
    pose proof ex_lookup as L. destruct (lookup_codec (B "utf-8")) as [cn c| |] eqn:E; try discriminate.
    exists cn, c. split.
    + exists (ascii_text (B "utf-8")), (B "utf-8"). split; [reflexivity|]. split; [vm_compute; reflexivity | exact E].
    + destruct (c_enc c (ascii_text (B "hi"))) as [b|]; [eauto | discriminate].
  - split; [left; reflexivity|]. split; left; reflexivity.
Qed.

(* a full document: every call kind accepted once, two order violations rejected without a byte written *)
Example ex_document :
  map fst (fst (run_calls s_ex
    [ex_preamble; WriteDiff (WBytes (B "x")) WNone WNone WNone; NewChange WNone; NewFile WNone;
     WriteMeta (WDict (JObj [(ascii_text (B "k"), JInt 1)])) WNone None;
     WriteDiff (WBytes (B "x")) WNone WNone WNone; ex_preamble]))
  = [Ok tt; Err ELibOrder; Ok tt; Ok tt; Ok tt; Ok tt; Err ELibOrder].
Proof. vm_compute. reflexivity. Qed.

(* atomicity is a property of reachable states, not of the type of [do_call]: the model never rolls back, and on an
   (unreachable) writer with an empty encoding stack new_change() writes its header and THEN raises IndexError *)
Example ex_not_trivial :
  let s := {| w_out := []; w_stack := []; w_prev := None |} in
  do_call (NewChange WNone) s
  = ({| w_out := B "#.change:" ++ [x0a]; w_stack := []; w_prev := Some (B ".change") |}, Err EIndex).
Proof. vm_compute. reflexivity. Qed.
